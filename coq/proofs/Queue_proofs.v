(* Queue_proofs.v - invariants of the MemoryBoundedQueue model (Queue.v) over all traces of valid steps. *)
From Coq Require Import Lia Permutation.
From Ragc Require Import Mach Queue.
Open Scope N_scope.
Arguments N.add : simpl never.
Arguments N.sub : simpl never.
Arguments N.ltb : simpl never.
Arguments N.leb : simpl never.
Arguments N.eqb : simpl never.

(* ---------------------------------------------------------------- list helpers *)
Lemma extract_spec {A} (key : A -> N) k l x r :
  extract key k l = Some (x, r) -> key x = k /\ Permutation l (x :: r) /\ In x l.
Proof.
  revert x r; induction l as [|a l IH]; intros x r H; cbn [extract] in H; [discriminate|].
  destruct (key a =? k) eqn:E.
  - inversion H; subst. apply N.eqb_eq in E. repeat split; auto. left; auto.
  - destruct (extract key k l) as [[y r']|] eqn:E2; [|discriminate].
    inversion H; subst. destruct (IH _ _ eq_refl) as (K & P & I).
    repeat split; auto.
    + rewrite P. apply perm_swap.
    + right; auto.
Qed.

Lemma extract_length {A} (key : A -> N) k l x r :
  extract key k l = Some (x, r) -> length l = S (length r).
Proof. intro H. apply extract_spec in H. destruct H as (_ & P & _). apply Permutation_length in P. exact P. Qed.

Lemma extract_none {A} (key : A -> N) k l : extract key k l = None -> memk key k l = false.
Proof.
  induction l as [|a l IH]; cbn [extract memk existsb]; auto.
  destruct (key a =? k); [discriminate|]. destruct (extract key k l) as [[y r']|]; [discriminate|].
  intros _. cbn. apply IH; auto.
Qed.

Lemma extract_some {A} (key : A -> N) k l : memk key k l = true -> exists x r, extract key k l = Some (x, r).
Proof.
  intro H. destruct (extract key k l) as [[x r]|] eqn:E; eauto.
  apply extract_none in E. congruence.
Qed.

Lemma memk_in {A} (key : A -> N) k l : memk key k l = true <-> exists x, In x l /\ key x = k.
Proof.
  unfold memk. rewrite existsb_exists. split; intros (x & I & E); exists x; split; auto.
  - apply N.eqb_eq; auto.
  - apply N.eqb_eq; auto.
Qed.

Lemma extract_nodup {A} (key : A -> N) l x :
  NoDup (map key l) -> In x l -> exists r, extract key (key x) l = Some (x, r).
Proof.
  induction l as [|a l IH]; intros ND I; [destruct I|].
  cbn [extract]. cbn [map] in ND. inversion ND as [|? ? NI ND']; subst.
  destruct I as [->|I].
  - rewrite N.eqb_refl. eauto.
  - destruct (key a =? key x) eqn:E.
    + apply N.eqb_eq in E. exfalso. apply NI. rewrite E. apply in_map; auto.
    + destruct (IH ND' I) as (r & ->). eauto.
Qed.

Lemma sumsz_cons a l : sumsz (a :: l) = isize a + sumsz l.
Proof. reflexivity. Qed.

Lemma sumsz_perm l l' : Permutation l l' -> sumsz l = sumsz l'.
Proof. induction 1; rewrite ?sumsz_cons in *; try lia; reflexivity. Qed.

Lemma sumsz_in i l : In i l -> isize i <= sumsz l.
Proof.
  induction l as [|a l IH]; intros I; [destruct I|]. rewrite sumsz_cons.
  destruct I as [->|I]; [lia|]. specialize (IH I). lia.
Qed.

Lemma is_max_spec i l : is_max i l = true <-> forall j, In j l -> (iprio j <= iprio i)%Z.
Proof.
  unfold is_max. rewrite forallb_forall. split; intros H j I; specialize (H j I).
  - apply Z.leb_le; auto.
  - apply Z.leb_le; auto.
Qed.

Lemma exists_max l : l <> [] -> exists i, In i l /\ is_max i l = true.
Proof.
  induction l as [|a l IH]; [congruence|]. intros _.
  destruct l as [|b l'].
  - exists a. split; [left; auto|]. apply is_max_spec. intros j [<-|[]]. lia.
  - destruct IH as (m & I & M); [congruence|].
    rewrite is_max_spec in M.
    destruct (Z.leb (iprio a) (iprio m)) eqn:E.
    + apply Z.leb_le in E. exists m. split; [right; auto|]. apply is_max_spec. intros j [<-|J]; auto.
    + apply Z.leb_gt in E. exists a. split; [left; auto|]. apply is_max_spec. intros j [<-|J]; [lia|].
      specialize (M j J). lia.
Qed.

(* ---------------------------------------------------------------- step inversion tactic *)
Ltac inv_some :=
  repeat match goal with
  | H : Some _ = Some _ |- _ => inversion H; subst; clear H
  | H : None = Some _ |- _ => discriminate H
  | H : obind ?o _ = Some _ |- _ => let E := fresh "E" in destruct o eqn:E; cbn [obind] in H
  | H : (if ?b then _ else _) = Some _ |- _ => let E := fresh "E" in destruct b eqn:E
  | H : match ?x with _ => _ end = Some _ |- _ => let E := fresh "E" in destruct x eqn:E
  end.

Ltac sel := cbn [items cur closed nseq wfull kfull wempty kempty accepted returned
                 set_wfull set_kfull set_wempty set_kempty] in *.

(* ---------------------------------------------------------------- the sub-operations *)
Lemma push_prologue_fields s t p sz w s1 :
  push_prologue s t p sz w = Some s1 ->
  items s1 = items s /\ cur s1 = cur s /\ closed s1 = closed s /\ nseq s1 = nseq s /\ wfull s1 = wfull s /\
  wempty s1 = wempty s /\ kempty s1 = kempty s /\ accepted s1 = accepted s /\ returned s1 = returned s /\
  ((w = false /\ idle s t = true /\ kfull s1 = kfull s) \/
   (w = true /\ extract ftid t (kfull s) = Some ((t, (p, sz)), kfull s1))).
Proof.
  unfold push_prologue. intro H. destruct w.
  - destruct (extract ftid t (kfull s)) as [[[t' [p' sz']] k']|] eqn:E; [|discriminate].
    destruct ((p' =? p)%Z && (sz' =? sz)) eqn:E2; [|discriminate]. inversion H; subst; clear H.
    apply andb_prop in E2. destruct E2 as [E2 E3]. apply Z.eqb_eq in E2. apply N.eqb_eq in E3. subst.
    pose proof (extract_spec _ _ _ _ _ E) as (K & _). unfold ftid in K. cbn in K. subst t'.
    cbn. repeat split; auto.
  - destruct (idle s t) eqn:E; [|discriminate]. inversion H; subst. repeat split; auto.
Qed.

Lemma pull_prologue_fields s t w s1 :
  pull_prologue s t w = Some s1 ->
  items s1 = items s /\ cur s1 = cur s /\ closed s1 = closed s /\ nseq s1 = nseq s /\ wfull s1 = wfull s /\
  kfull s1 = kfull s /\ wempty s1 = wempty s /\ accepted s1 = accepted s /\ returned s1 = returned s /\
  ((w = false /\ idle s t = true /\ kempty s1 = kempty s) \/
   (w = true /\ extract idN t (kempty s) = Some (t, kempty s1))).
Proof.
  unfold pull_prologue. intro H. destruct w.
  - destruct (extract idN t (kempty s)) as [[t' k']|] eqn:E; [|discriminate].
    inversion H; subst; clear H.
    pose proof (extract_spec _ _ _ _ _ E) as (K & _). unfold idN in K. subst t'.
    cbn. repeat split; auto.
  - destruct (idle s t) eqn:E; [|discriminate]. inversion H; subst. repeat split; auto.
Qed.

Lemma notify_one_spec {A} (key : A -> N) w k ntf w' k' :
  notify_one key w k ntf = Some (w', k') ->
  (w = [] /\ w' = [] /\ k' = k) \/ (exists x, Permutation w (x :: w') /\ k' = x :: k /\ In x w /\ ntf = Some (key x)).
Proof.
  unfold notify_one. intro H. destruct ntf as [t|].
  - destruct (extract key t w) as [[x r]|] eqn:E; [|discriminate]. inversion H; subst; clear H.
    destruct (extract_spec _ _ _ _ _ E) as (K & P & I). right. exists x. subst. auto.
  - destruct w; [|discriminate]. inversion H; subst. left; auto.
Qed.

(* ---------------------------------------------------------------- the invariant *)
Record Inv (cap : N) (s : state) : Prop := mkInv {
  inv_size : cur s = sumsz (items s);
  inv_perm : Permutation (accepted s) (returned s ++ items s);
  inv_seq : Forall (fun i => iseq i < nseq s) (accepted s);
  inv_nodup : NoDup (map iseq (accepted s));
  inv_closed : closed s = true -> wfull s = [] /\ wempty s = [];
  inv_bound : Forall (fun i => isize i <= cap) (accepted s) -> cur s <= cap
}.

Lemma inv_init cap : Inv cap init.
Proof. constructor; cbn; auto; try constructor; try discriminate; intros; lia. Qed.

Lemma admit_inv cap s p sz sum ntf s' :
  Inv cap s -> closed s = false -> sum = cur s + sz -> (sum <= cap \/ cur s = 0) ->
  do_admit s p sz sum ntf = Some s' -> Inv cap s'.
Proof.
  intros I C -> B H. unfold do_admit in H.
  destruct (notify_one idN (wempty s) (kempty s) ntf) as [[w' k']|] eqn:E; [|discriminate].
  inversion H; subst; clear H. destruct I. constructor; sel.
  - rewrite sumsz_cons. cbn [isize]. lia.
  - rewrite inv_perm0. apply Permutation_middle.
  - constructor; [cbn [iseq]; lia|]. eapply Forall_impl; [|exact inv_seq0]. cbn beta. intros; lia.
  - cbn [map iseq]. constructor; auto. intro IN. apply in_map_iff in IN. destruct IN as (j & EQ & IN).
    rewrite Forall_forall in inv_seq0. specialize (inv_seq0 j IN). cbn beta in inv_seq0. lia.
  - congruence.
  - intro F. inversion F as [|? ? F1 F2]; subst. cbn [isize] in F1. specialize (inv_bound0 F2). destruct B; lia.
Qed.

Lemma take_inv cap s sq ntf s' : Inv cap s -> take s sq ntf = Some s' -> Inv cap s'.
Proof.
  intros I H. unfold take in H.
  destruct (extract iseq sq (items s)) as [[i rest]|] eqn:E; [|discriminate].
  destruct (is_max i (items s)) eqn:M; [|discriminate].
  destruct (sub_u64 (cur s) (isize i)) as [c'|] eqn:S; [|discriminate].
  destruct (notify_one ftid (wfull s) (kfull s) ntf) as [[w' k']|] eqn:Nf; [|discriminate].
  inversion H; subst; clear H.
  destruct (extract_spec _ _ _ _ _ E) as (K & P & IN).
  unfold sub_u64 in S. destruct (isize i <=? cur s) eqn:LE; [|discriminate]. inversion S; subst; clear S.
  apply N.leb_le in LE.
  destruct I. constructor; sel; auto.
  - rewrite (sumsz_perm _ _ P) in inv_size0. rewrite sumsz_cons in inv_size0. lia.
  - rewrite inv_perm0. rewrite P. cbn. symmetry. apply Permutation_middle.
  - intro C. destruct (inv_closed0 C) as (W & W2). split; auto.
    apply notify_one_spec in Nf. destruct Nf as [(_ & -> & _)|(x & _ & _ & IX & _)]; auto.
    rewrite W in IX. destruct IX.
  - intro F. specialize (inv_bound0 F). lia.
Qed.

Lemma inv_ext cap s s1 :
  items s1 = items s -> cur s1 = cur s -> closed s1 = closed s -> nseq s1 = nseq s ->
  accepted s1 = accepted s -> returned s1 = returned s ->
  (closed s1 = true -> wfull s1 = [] /\ wempty s1 = []) -> Inv cap s -> Inv cap s1.
Proof.
  intros E1 E2 E3 E4 E5 E6 C I. destruct I. constructor; auto; rewrite ?E1, ?E2, ?E3, ?E4, ?E5, ?E6; auto.
Qed.

Lemma step_inv cap s e s' : Inv cap s -> step cap s e = Some s' -> Inv cap s'.
Proof.
  intros I H. destruct e; cbn [step] in H.
  - (* EPushWait *)
    destruct (push_prologue s t p sz woke) as [s1|] eqn:P; cbn [obind] in H; [|discriminate].
    destruct (add_u64 (cur s1) sz) as [sum|] eqn:A; cbn [obind] in H; [|discriminate].
    destruct (push_blocked cap s1 sum) eqn:B; [|discriminate]. inversion H; subst; clear H.
    apply push_prologue_fields in P. destruct P as (P1 & P2 & P3 & P4 & P5 & P6 & P7 & P8 & P9 & _).
    unfold push_blocked in B. apply andb_prop in B. destruct B as [_ B]. apply negb_true_iff in B.
    eapply inv_ext; [..|exact I]; sel; auto. intro C. congruence.
  - (* EPushRefuse *)
    destruct (push_prologue s t p sz woke) as [s1|] eqn:P; cbn [obind] in H; [|discriminate].
    destruct (add_u64 (cur s1) sz) as [sum|] eqn:A; cbn [obind] in H; [|discriminate].
    destruct (push_blocked cap s1 sum) eqn:B; [discriminate|].
    destruct (closed s1) eqn:C; [|discriminate]. inversion H; subst; clear H.
    apply push_prologue_fields in P. destruct P as (P1 & P2 & P3 & P4 & P5 & P6 & P7 & P8 & P9 & _).
    eapply inv_ext; [..|exact I]; auto. intros _. rewrite P5, P6. apply (inv_closed _ _ I). congruence.
  - (* EPushAdmit *)
    destruct (push_prologue s t p sz woke) as [s1|] eqn:P; cbn [obind] in H; [|discriminate].
    destruct (add_u64 (cur s1) sz) as [sum|] eqn:A; cbn [obind] in H; [|discriminate].
    destruct (push_blocked cap s1 sum) eqn:B; [discriminate|].
    destruct (closed s1) eqn:C; [discriminate|].
    apply push_prologue_fields in P. destruct P as (P1 & P2 & P3 & P4 & P5 & P6 & P7 & P8 & P9 & _).
    assert (I1 : Inv cap s1) by (eapply inv_ext; [..|exact I]; auto; congruence).
    unfold add_u64 in A. destruct (cur s1 + sz <? two64); [|discriminate]. inversion A; subst; clear A.
    eapply admit_inv; eauto.
    unfold push_blocked in B. rewrite C in B. cbn [negb] in B. rewrite andb_true_r in B.
    apply andb_false_iff in B. destruct B as [B|B].
    + apply N.ltb_ge in B. left; auto.
    + apply N.ltb_ge in B. right; lia.
  - (* ETryRefuse *)
    destruct (idle s t && closed s); [|discriminate]. inversion H; subst; auto.
  - (* ETryBlock *)
    destruct (idle s t && negb (closed s)); [|discriminate].
    destruct (add_u64 (cur s) sz) as [sum|]; cbn [obind] in H; [|discriminate].
    destruct (cap <? sum); [|discriminate]. inversion H; subst; auto.
  - (* ETryAdmit *)
    destruct (idle s t && negb (closed s)) eqn:IC; [|discriminate].
    apply andb_prop in IC. destruct IC as [_ C]. apply negb_true_iff in C.
    destruct (add_u64 (cur s) sz) as [sum|] eqn:A; cbn [obind] in H; [|discriminate].
    destruct (cap <? sum) eqn:B; [discriminate|].
    unfold add_u64 in A. destruct (cur s + sz <? two64); [|discriminate]. inversion A; subst; clear A.
    eapply admit_inv; eauto. apply N.ltb_ge in B. left; auto.
  - (* EPullWait *)
    destruct (pull_prologue s t woke) as [s1|] eqn:P; cbn [obind] in H; [|discriminate].
    destruct (items s1) eqn:IT; [|discriminate]. destruct (closed s1) eqn:C; [discriminate|].
    inversion H; subst; clear H.
    apply pull_prologue_fields in P. destruct P as (P1 & P2 & P3 & P4 & P5 & P6 & P7 & P8 & P9 & _).
    eapply inv_ext; [..|exact I]; sel; auto. intro C'; congruence.
  - (* EPullNone *)
    destruct (pull_prologue s t woke) as [s1|] eqn:P; cbn [obind] in H; [|discriminate].
    destruct (items s1) eqn:IT; [|discriminate]. destruct (closed s1) eqn:C; [|discriminate].
    inversion H; subst; clear H.
    apply pull_prologue_fields in P. destruct P as (P1 & P2 & P3 & P4 & P5 & P6 & P7 & P8 & P9 & _).
    eapply inv_ext; [..|exact I]; auto. intros _. rewrite P5, P7. apply (inv_closed _ _ I). congruence.
  - (* EPullTake *)
    destruct (pull_prologue s t woke) as [s1|] eqn:P; cbn [obind] in H; [|discriminate].
    apply pull_prologue_fields in P. destruct P as (P1 & P2 & P3 & P4 & P5 & P6 & P7 & P8 & P9 & _).
    assert (I1 : Inv cap s1).
    { eapply inv_ext; [..|exact I]; auto. intros C. rewrite P5, P7. apply (inv_closed _ _ I). congruence. }
    eapply take_inv; eauto.
  - (* ETryNone *)
    destruct (idle s t); [|discriminate]. destruct (items s); [|discriminate]. inversion H; subst; auto.
  - (* ETryTake *)
    destruct (idle s t); [|discriminate]. eapply take_inv; eauto.
  - (* EClose *)
    destruct (idle s t); [|discriminate]. inversion H; subst; clear H.
    destruct I. constructor; sel; auto.
  - (* ESpurFull *)
    destruct (extract ftid t (wfull s)) as [[x w']|] eqn:E; [|discriminate]. inversion H; subst; clear H.
    eapply inv_ext; [..|exact I]; sel; auto. intro C. destruct (inv_closed _ _ I C) as (W & W2).
    rewrite W in E. discriminate.
  - (* ESpurEmpty *)
    destruct (extract idN t (wempty s)) as [[x w']|] eqn:E; [|discriminate]. inversion H; subst; clear H.
    eapply inv_ext; [..|exact I]; sel; auto. intro C. destruct (inv_closed _ _ I C) as (W & W2).
    rewrite W2 in E. discriminate.
Qed.

Lemma run_inv cap tr : forall s s', Inv cap s -> run cap s tr = Some s' -> Inv cap s'.
Proof.
  induction tr as [|e tr IH]; intros s s' I H; cbn [run] in H.
  - inversion H; subst; auto.
  - destruct (step cap s e) as [s1|] eqn:E; cbn [obind] in H; [|discriminate].
    eapply IH; [|exact H]. eapply step_inv; eauto.
Qed.

Lemma reach_inv cap tr s : run cap init tr = Some s -> Inv cap s.
Proof. apply run_inv. apply inv_init. Qed.

(* ---------------------------------------------------------------- effect of do_admit / take, field by field *)
Lemma admit_fields s p sz sum ntf s' :
  do_admit s p sz sum ntf = Some s' ->
  items s' = mkItem (nseq s) p sz :: items s /\ cur s' = sum /\ closed s' = closed s /\ nseq s' = nseq s + 1 /\
  wfull s' = wfull s /\ kfull s' = kfull s /\ accepted s' = mkItem (nseq s) p sz :: accepted s /\
  returned s' = returned s /\ notify_one idN (wempty s) (kempty s) ntf = Some (wempty s', kempty s').
Proof.
  unfold do_admit. destruct (notify_one idN (wempty s) (kempty s) ntf) as [[w' k']|]; [|discriminate].
  intro H; inversion H; subst; clear H. cbn. repeat split; auto.
Qed.

Lemma take_fields s sq ntf s' :
  take s sq ntf = Some s' ->
  exists i, extract iseq sq (items s) = Some (i, items s') /\ is_max i (items s) = true /\
    isize i <= cur s /\ cur s' = cur s - isize i /\ closed s' = closed s /\ nseq s' = nseq s /\
    wempty s' = wempty s /\ kempty s' = kempty s /\ accepted s' = accepted s /\ returned s' = i :: returned s /\
    notify_one ftid (wfull s) (kfull s) ntf = Some (wfull s', kfull s').
Proof.
  unfold take. destruct (extract iseq sq (items s)) as [[i rest]|]; [|discriminate].
  destruct (is_max i (items s)) eqn:M; [|discriminate].
  unfold sub_u64. destruct (isize i <=? cur s) eqn:LE; [|discriminate].
  destruct (notify_one ftid (wfull s) (kfull s) ntf) as [[w' k']|]; [|discriminate].
  intro H; inversion H; subst; clear H. apply N.leb_le in LE. exists i. cbn. repeat split; auto.
Qed.

Lemma inv_items_nodup cap s : Inv cap s -> NoDup (map iseq (returned s ++ items s)).
Proof.
  intro I. eapply Permutation_NoDup; [|exact (inv_nodup _ _ I)]. apply Permutation_map. exact (inv_perm _ _ I).
Qed.

Lemma nodup_app_r {A} (l1 l2 : list A) : NoDup (l1 ++ l2) -> NoDup l2.
Proof. induction l1; cbn; auto. intro H; inversion H; auto. Qed.

Lemma nodup_app_l {A} (l1 l2 : list A) : NoDup (l1 ++ l2) -> NoDup l1.
Proof.
  induction l1; cbn; intros H; constructor; inversion H; subst; auto.
  intro I. apply H2. apply in_or_app; auto.
Qed.

Lemma nodup_app_disj {A} (l1 l2 : list A) x : NoDup (l1 ++ l2) -> In x l1 -> In x l2 -> False.
Proof.
  induction l1; cbn; intros H I1 I2; [auto|]. inversion H; subst. destruct I1 as [->|I1].
  - apply H2. apply in_or_app; auto.
  - auto.
Qed.

(* ---------------------------------------------------------------- exactly once *)
Lemma exactly_once_proof cap tr s : run cap init tr = Some s ->
  Permutation (accepted s) (returned s ++ items s) /\ NoDup (map iseq (accepted s)) /\
  NoDup (map iseq (returned s ++ items s)) /\ incl (returned s) (accepted s).
Proof.
  intro R. pose proof (reach_inv _ _ _ R) as I. repeat split.
  - exact (inv_perm _ _ I).
  - exact (inv_nodup _ _ I).
  - eapply inv_items_nodup; eauto.
  - intros x IN. eapply Permutation_in; [symmetry; exact (inv_perm _ _ I)|]. apply in_or_app; auto.
Qed.

(* the ghost fields record exactly the do_admit and take events of the trace *)
Lemma history_faithful_proof cap s e s' : step cap s e = Some s' ->
  accepted s' = match admit_of e with Some (p, sz) => mkItem (nseq s) p sz :: accepted s | None => accepted s end /\
  nseq s' = match admit_of e with Some _ => nseq s + 1 | None => nseq s end /\
  returned s' = match take_of e with
                | Some sq => match extract iseq sq (items s) with Some (i, _) => i :: returned s | None => returned s end
                | None => returned s end.
Proof.
  intro H. destruct e; cbn [step admit_of take_of] in *.
  - destruct (push_prologue s t p sz woke) as [s1|] eqn:P; cbn [obind] in H; [|discriminate].
    destruct (add_u64 (cur s1) sz) as [sum|] eqn:A; cbn [obind] in H; [|discriminate].
    destruct (push_blocked cap s1 sum) eqn:B; [|discriminate]. inversion H; subst; clear H.
    apply push_prologue_fields in P. destruct P as (P1 & P2 & P3 & P4 & P5 & P6 & P7 & P8 & P9 & _). sel. auto.
  - destruct (push_prologue s t p sz woke) as [s1|] eqn:P; cbn [obind] in H; [|discriminate].
    destruct (add_u64 (cur s1) sz) as [sum|] eqn:A; cbn [obind] in H; [|discriminate].
    destruct (push_blocked cap s1 sum) eqn:B; [discriminate|].
    destruct (closed s1) eqn:C; [|discriminate]. inversion H; subst; clear H.
    apply push_prologue_fields in P. destruct P as (P1 & P2 & P3 & P4 & P5 & P6 & P7 & P8 & P9 & _). auto.
  - destruct (push_prologue s t p sz woke) as [s1|] eqn:P; cbn [obind] in H; [|discriminate].
    destruct (add_u64 (cur s1) sz) as [sum|] eqn:A; cbn [obind] in H; [|discriminate].
    destruct (push_blocked cap s1 sum) eqn:B; [discriminate|].
    destruct (closed s1) eqn:C; [discriminate|].
    apply push_prologue_fields in P. destruct P as (P1 & P2 & P3 & P4 & P5 & P6 & P7 & P8 & P9 & _).
    apply admit_fields in H. destruct H as (H1 & H2 & H3 & H4 & H5 & H6 & H7 & H8 & H9).
    rewrite H7, H4, H8, P4, P8, P9. repeat split; congruence.
  - destruct (idle s t && closed s); [|discriminate]. inversion H; subst; auto.
  - destruct (idle s t && negb (closed s)); [|discriminate].
    destruct (add_u64 (cur s) sz) as [sum|]; cbn [obind] in H; [|discriminate].
    destruct (cap <? sum); [|discriminate]. inversion H; subst; auto.
  - destruct (idle s t && negb (closed s)); [|discriminate].
    destruct (add_u64 (cur s) sz) as [sum|]; cbn [obind] in H; [|discriminate].
    destruct (cap <? sum); [discriminate|].
    apply admit_fields in H. destruct H as (H1 & H2 & H3 & H4 & H5 & H6 & H7 & H8 & H9). auto.
  - destruct (pull_prologue s t woke) as [s1|] eqn:P; cbn [obind] in H; [|discriminate].
    destruct (items s1) eqn:IT; [|discriminate]. destruct (closed s1) eqn:C; [discriminate|].
    inversion H; subst; clear H.
    apply pull_prologue_fields in P. destruct P as (P1 & P2 & P3 & P4 & P5 & P6 & P7 & P8 & P9 & _). sel. auto.
  - destruct (pull_prologue s t woke) as [s1|] eqn:P; cbn [obind] in H; [|discriminate].
    destruct (items s1) eqn:IT; [|discriminate]. destruct (closed s1) eqn:C; [|discriminate].
    inversion H; subst; clear H.
    apply pull_prologue_fields in P. destruct P as (P1 & P2 & P3 & P4 & P5 & P6 & P7 & P8 & P9 & _). auto.
  - destruct (pull_prologue s t woke) as [s1|] eqn:P; cbn [obind] in H; [|discriminate].
    apply pull_prologue_fields in P. destruct P as (P1 & P2 & P3 & P4 & P5 & P6 & P7 & P8 & P9 & _).
    apply take_fields in H. destruct H as (i & H1 & H2 & H3 & H4 & H5 & H6 & H7 & H8 & H9 & H10 & H11).
    rewrite <- P1, H1, H9, H6, H10. repeat split; congruence.
  - destruct (idle s t); [|discriminate]. destruct (items s); [|discriminate]. inversion H; subst; auto.
  - destruct (idle s t); [|discriminate].
    apply take_fields in H. destruct H as (i & H1 & H2 & H3 & H4 & H5 & H6 & H7 & H8 & H9 & H10 & H11).
    rewrite H1, H9, H6, H10. auto.
  - destruct (idle s t); [|discriminate]. inversion H; subst; clear H. sel. auto.
  - destruct (extract ftid t (wfull s)) as [[x w']|] eqn:E; [|discriminate]. inversion H; subst; clear H. sel. auto.
  - destruct (extract idN t (wempty s)) as [[x w']|] eqn:E; [|discriminate]. inversion H; subst; clear H. sel. auto.
Qed.

(* ---------------------------------------------------------------- priority *)
Lemma take_step cap s e sq s' : take_of e = Some sq -> step cap s e = Some s' ->
  exists s1 ntf, items s1 = items s /\ returned s1 = returned s /\ accepted s1 = accepted s /\ take s1 sq ntf = Some s'.
Proof.
  intros T H. destruct e; cbn [take_of] in T; try discriminate; inversion T; subst; clear T; cbn [step] in H.
  - destruct (pull_prologue s t woke) as [s1|] eqn:P; cbn [obind] in H; [|discriminate].
    apply pull_prologue_fields in P. destruct P as (P1 & P2 & P3 & P4 & P5 & P6 & P7 & P8 & P9 & _).
    exists s1, ntf. auto.
  - destruct (idle s t); [|discriminate]. exists s, ntf. auto.
Qed.

Lemma priority_proof cap tr s e sq s' :
  run cap init tr = Some s -> take_of e = Some sq -> step cap s e = Some s' ->
  exists i, In i (items s) /\ iseq i = sq /\ returned s' = i :: returned s /\
            Permutation (items s) (i :: items s') /\
            (forall j, In j (items s) -> (iprio j <= iprio i)%Z) /\
            In i (accepted s) /\ ~ In i (returned s).
Proof.
  intros R T H. pose proof (reach_inv _ _ _ R) as I.
  destruct (take_step _ _ _ _ _ T H) as (s1 & ntf & E1 & E2 & E3 & TK).
  apply take_fields in TK. destruct TK as (i & H1 & H2 & H3 & H4 & H5 & H6 & H7 & H8 & H9 & H10 & H11).
  rewrite E1 in *. destruct (extract_spec _ _ _ _ _ H1) as (K & P & IN).
  exists i. repeat split; auto.
  - congruence.
  - apply is_max_spec; auto.
  - eapply Permutation_in; [symmetry; exact (inv_perm _ _ I)|]. apply in_or_app; auto.
  - intro IR. pose proof (inv_items_nodup _ _ I) as ND. rewrite map_app in ND.
    eapply nodup_app_disj; [exact ND| |]; apply in_map; eauto.
Qed.

(* ---------------------------------------------------------------- sizes *)
Lemma size_accounting_proof cap tr s : run cap init tr = Some s -> cur s = sumsz (items s).
Proof. intro R. exact (inv_size _ _ (reach_inv _ _ _ R)). Qed.

Lemma bounded_proof cap tr s : run cap init tr = Some s ->
  (forall i, In i (accepted s) -> isize i <= cap) -> cur s <= cap.
Proof. intros R F. apply (inv_bound _ _ (reach_inv _ _ _ R)). apply Forall_forall. exact F. Qed.

Lemma take_no_underflow_proof cap tr s i : run cap init tr = Some s -> In i (items s) -> isize i <= cur s.
Proof. intros R IN. rewrite (size_accounting_proof _ _ _ R). apply sumsz_in; auto. Qed.

(* ---------------------------------------------------------------- threads: nobody is in two places *)
Definition tids (s : state) : list tid := map ftid (wfull s) ++ map ftid (kfull s) ++ wempty s ++ kempty s.

Lemma memk_false {A} (key : A -> N) k l : memk key k l = false <-> ~ In k (map key l).
Proof.
  split.
  - intros H I. apply in_map_iff in I. destruct I as (x & E & I).
    assert (memk key k l = true) by (apply memk_in; eauto). congruence.
  - intro H. destruct (memk key k l) eqn:E; auto. exfalso. apply H.
    apply memk_in in E. destruct E as (x & I & <-). apply in_map; auto.
Qed.

Lemma map_idN l : map idN l = l.
Proof. induction l; cbn; unfold idN in *; congruence. Qed.

Lemma idle_spec s t : idle s t = true <-> ~ In t (tids s).
Proof.
  unfold idle, tids. rewrite negb_true_iff. rewrite !orb_false_iff. rewrite !memk_false. rewrite !map_idN.
  rewrite !in_app_iff. tauto.
Qed.

Lemma perm_tids_k {A} (f : A -> N) (a : list N) k x k1 r :
  Permutation k (x :: k1) -> Permutation (a ++ map f k ++ r) (f x :: a ++ map f k1 ++ r).
Proof.
  intro P. rewrite (Permutation_map f P). cbn [map app]. symmetry. apply Permutation_middle.
Qed.

Lemma perm_mid3 {A} (a b c : list A) t : Permutation (t :: a ++ b ++ c) (a ++ b ++ t :: c).
Proof. rewrite !app_assoc. apply Permutation_middle. Qed.

Lemma push_prologue_tids s t p sz w s1 :
  push_prologue s t p sz w = Some s1 -> NoDup (tids s) -> NoDup (t :: tids s1).
Proof.
  intros P ND. apply push_prologue_fields in P. destruct P as (P1 & P2 & P3 & P4 & P5 & P6 & P7 & P8 & P9 & P10).
  destruct P10 as [(-> & ID & K)|(-> & E)].
  - apply idle_spec in ID. constructor.
    + unfold tids in *. rewrite P5, K, P6, P7. auto.
    + unfold tids in *. rewrite P5, K, P6, P7. auto.
  - destruct (extract_spec _ _ _ _ _ E) as (K & PM & _).
    eapply Permutation_NoDup; [|exact ND]. unfold tids. rewrite P5, P6, P7.
    change t with (ftid (t, (p, sz))). apply perm_tids_k. auto.
Qed.

Lemma pull_prologue_tids s t w s1 :
  pull_prologue s t w = Some s1 -> NoDup (tids s) -> NoDup (t :: tids s1).
Proof.
  intros P ND. apply pull_prologue_fields in P. destruct P as (P1 & P2 & P3 & P4 & P5 & P6 & P7 & P8 & P9 & P10).
  destruct P10 as [(-> & ID & K)|(-> & E)].
  - apply idle_spec in ID. constructor.
    + unfold tids in *. rewrite P5, K, P6, P7. auto.
    + unfold tids in *. rewrite P5, K, P6, P7. auto.
  - destruct (extract_spec _ _ _ _ _ E) as (K & PM & _).
    eapply Permutation_NoDup; [|exact ND]. unfold tids. rewrite P5, P6, P7.
    rewrite PM. rewrite (Permutation_app_comm (wempty s)). cbn [app]. rewrite <- perm_mid3.
    rewrite (Permutation_app_comm (wempty s)). reflexivity.
Qed.

Lemma notify_one_perm {A} (key : A -> N) w k ntf w' k' :
  notify_one key w k ntf = Some (w', k') -> Permutation (w ++ k) (w' ++ k').
Proof.
  intro H. apply notify_one_spec in H. destruct H as [(-> & -> & ->)|(x & P & -> & _)]; auto.
  rewrite P. cbn. apply Permutation_middle.
Qed.

Lemma do_admit_tids s p sz sum ntf s' : do_admit s p sz sum ntf = Some s' -> Permutation (tids s) (tids s').
Proof.
  intro H. apply admit_fields in H. destruct H as (H1 & H2 & H3 & H4 & H5 & H6 & H7 & H8 & H9).
  unfold tids. rewrite H5, H6. apply Permutation_app_head. apply Permutation_app_head.
  eapply notify_one_perm; eauto.
Qed.

Lemma take_tids s sq ntf s' : take s sq ntf = Some s' -> Permutation (tids s) (tids s').
Proof.
  intro H. apply take_fields in H. destruct H as (i & H1 & H2 & H3 & H4 & H5 & H6 & H7 & H8 & H9 & H10 & H11).
  unfold tids. rewrite H7, H8. rewrite !app_assoc. apply Permutation_app_tail. apply Permutation_app_tail.
  rewrite <- !map_app. apply Permutation_map. eapply notify_one_perm; eauto.
Qed.

Lemma step_tids cap s e s' : NoDup (tids s) -> step cap s e = Some s' -> NoDup (tids s').
Proof.
  intros ND H. destruct e; cbn [step] in H.
  - destruct (push_prologue s t p sz woke) as [s1|] eqn:P; cbn [obind] in H; [|discriminate].
    destruct (add_u64 (cur s1) sz) as [sum|] eqn:A; cbn [obind] in H; [|discriminate].
    destruct (push_blocked cap s1 sum) eqn:B; [|discriminate]. inversion H; subst; clear H.
    apply (push_prologue_tids _ _ _ _ _ _ P) in ND. exact ND.
  - destruct (push_prologue s t p sz woke) as [s1|] eqn:P; cbn [obind] in H; [|discriminate].
    destruct (add_u64 (cur s1) sz) as [sum|] eqn:A; cbn [obind] in H; [|discriminate].
    destruct (push_blocked cap s1 sum) eqn:B; [discriminate|].
    destruct (closed s1) eqn:C; [|discriminate]. inversion H; subst; clear H.
    apply (push_prologue_tids _ _ _ _ _ _ P) in ND. inversion ND; auto.
  - destruct (push_prologue s t p sz woke) as [s1|] eqn:P; cbn [obind] in H; [|discriminate].
    destruct (add_u64 (cur s1) sz) as [sum|] eqn:A; cbn [obind] in H; [|discriminate].
    destruct (push_blocked cap s1 sum) eqn:B; [discriminate|].
    destruct (closed s1) eqn:C; [discriminate|].
    apply (push_prologue_tids _ _ _ _ _ _ P) in ND. inversion ND; subst.
    eapply Permutation_NoDup; [eapply do_admit_tids; eauto|]; auto.
  - destruct (idle s t && closed s); [|discriminate]. inversion H; subst; auto.
  - destruct (idle s t && negb (closed s)); [|discriminate].
    destruct (add_u64 (cur s) sz) as [sum|]; cbn [obind] in H; [|discriminate].
    destruct (cap <? sum); [|discriminate]. inversion H; subst; auto.
  - destruct (idle s t && negb (closed s)); [|discriminate].
    destruct (add_u64 (cur s) sz) as [sum|]; cbn [obind] in H; [|discriminate].
    destruct (cap <? sum); [discriminate|].
    eapply Permutation_NoDup; [eapply do_admit_tids; eauto|]; auto.
  - destruct (pull_prologue s t woke) as [s1|] eqn:P; cbn [obind] in H; [|discriminate].
    destruct (items s1) eqn:IT; [|discriminate]. destruct (closed s1) eqn:C; [discriminate|].
    inversion H; subst; clear H.
    apply (pull_prologue_tids _ _ _ _ P) in ND.
    eapply Permutation_NoDup; [|exact ND]. unfold tids; sel. cbn [app]. apply perm_mid3.
  - destruct (pull_prologue s t woke) as [s1|] eqn:P; cbn [obind] in H; [|discriminate].
    destruct (items s1) eqn:IT; [|discriminate]. destruct (closed s1) eqn:C; [|discriminate].
    inversion H; subst; clear H.
    apply (pull_prologue_tids _ _ _ _ P) in ND. inversion ND; auto.
  - destruct (pull_prologue s t woke) as [s1|] eqn:P; cbn [obind] in H; [|discriminate].
    apply (pull_prologue_tids _ _ _ _ P) in ND. inversion ND; subst.
    eapply Permutation_NoDup; [eapply take_tids; eauto|]; auto.
  - destruct (idle s t); [|discriminate]. destruct (items s); [|discriminate]. inversion H; subst; auto.
  - destruct (idle s t); [|discriminate]. eapply Permutation_NoDup; [eapply take_tids; eauto|]; auto.
  - destruct (idle s t); [|discriminate]. inversion H; subst; clear H.
    unfold tids in *; sel. cbn [map app]. rewrite map_app. rewrite <- !app_assoc. exact ND.
  - destruct (extract ftid t (wfull s)) as [[x w']|] eqn:E; [|discriminate]. inversion H; subst; clear H.
    destruct (extract_spec _ _ _ _ _ E) as (K & PM & _).
    eapply Permutation_NoDup; [|exact ND]. unfold tids; sel. rewrite PM. cbn [map]. cbn [app].
    rewrite <- Permutation_middle. reflexivity.
  - destruct (extract idN t (wempty s)) as [[x w']|] eqn:E; [|discriminate]. inversion H; subst; clear H.
    destruct (extract_spec _ _ _ _ _ E) as (K & PM & _).
    eapply Permutation_NoDup; [|exact ND]. unfold tids; sel. rewrite PM.
    apply Permutation_app_head. apply Permutation_app_head. cbn [app]. apply Permutation_middle.
Qed.

Lemma threads_distinct_proof cap tr s : run cap init tr = Some s -> NoDup (tids s).
Proof.
  assert (G : forall tr s0 s1, NoDup (tids s0) -> run cap s0 tr = Some s1 -> NoDup (tids s1)).
  { induction tr0 as [|e tr0 IH]; intros s0 s1 ND H; cbn [run] in H.
    - inversion H; subst; auto.
    - destruct (step cap s0 e) as [s2|] eqn:E; cbn [obind] in H; [|discriminate].
      eapply IH; [|exact H]. eapply step_tids; eauto. }
  apply G. constructor.
Qed.

(* ---------------------------------------------------------------- after close *)
Lemma incl_extract {A} (key : A -> N) k l x r : extract key k l = Some (x, r) -> incl r l.
Proof.
  intros E y I. destruct (extract_spec _ _ _ _ _ E) as (_ & P & _).
  eapply Permutation_in; [symmetry; exact P|]. right; auto.
Qed.

Lemma closed_step cap s e s' : Inv cap s -> closed s = true -> step cap s e = Some s' ->
  closed s' = true /\ is_admit e = false /\ is_wait e = false /\ accepted s' = accepted s /\
  wfull s' = [] /\ wempty s' = [] /\ incl (kfull s') (kfull s) /\ incl (kempty s') (kempty s).
Proof.
  intros I C H. destruct (inv_closed _ _ I C) as (WF & WE).
  destruct e; cbn [step is_admit is_wait] in *.
  - destruct (push_prologue s t p sz woke) as [s1|] eqn:P; cbn [obind] in H; [|discriminate].
    destruct (add_u64 (cur s1) sz) as [sum|] eqn:A; cbn [obind] in H; [|discriminate].
    destruct (push_blocked cap s1 sum) eqn:B; [|discriminate].
    apply push_prologue_fields in P. destruct P as (P1 & P2 & P3 & P4 & P5 & P6 & P7 & P8 & P9 & P10).
    unfold push_blocked in B. rewrite P3, C in B. rewrite andb_false_r in B. discriminate.
  - destruct (push_prologue s t p sz woke) as [s1|] eqn:P; cbn [obind] in H; [|discriminate].
    destruct (add_u64 (cur s1) sz) as [sum|] eqn:A; cbn [obind] in H; [|discriminate].
    destruct (push_blocked cap s1 sum) eqn:B; [discriminate|].
    destruct (closed s1) eqn:C1; [|discriminate]. inversion H; subst; clear H.
    apply push_prologue_fields in P. destruct P as (P1 & P2 & P3 & P4 & P5 & P6 & P7 & P8 & P9 & P10).
    repeat apply conj; try congruence.
    destruct P10 as [(_ & _ & ->)|(_ & E)]; [apply incl_refl|]. eapply incl_extract; eauto.
  - destruct (push_prologue s t p sz woke) as [s1|] eqn:P; cbn [obind] in H; [|discriminate].
    destruct (add_u64 (cur s1) sz) as [sum|] eqn:A; cbn [obind] in H; [|discriminate].
    destruct (push_blocked cap s1 sum) eqn:B; [discriminate|].
    apply push_prologue_fields in P. destruct P as (P1 & P2 & P3 & P4 & P5 & P6 & P7 & P8 & P9 & P10).
    rewrite P3, C in H. discriminate.
  - destruct (idle s t && closed s); [|discriminate]. inversion H; subst.
    repeat apply conj; auto; apply incl_refl.
  - rewrite C in H. rewrite andb_false_r in H. discriminate.
  - rewrite C in H. rewrite andb_false_r in H. discriminate.
  - destruct (pull_prologue s t woke) as [s1|] eqn:P; cbn [obind] in H; [|discriminate].
    apply pull_prologue_fields in P. destruct P as (P1 & P2 & P3 & P4 & P5 & P6 & P7 & P8 & P9 & P10).
    destruct (items s1); [|discriminate]. rewrite P3, C in H. discriminate.
  - destruct (pull_prologue s t woke) as [s1|] eqn:P; cbn [obind] in H; [|discriminate].
    destruct (items s1) eqn:IT; [|discriminate]. destruct (closed s1) eqn:C1; [|discriminate].
    inversion H; subst; clear H.
    apply pull_prologue_fields in P. destruct P as (P1 & P2 & P3 & P4 & P5 & P6 & P7 & P8 & P9 & P10).
    repeat apply conj; try congruence.
    destruct P10 as [(_ & _ & ->)|(_ & E)]; [apply incl_refl|]. eapply incl_extract; eauto.
  - destruct (pull_prologue s t woke) as [s1|] eqn:P; cbn [obind] in H; [|discriminate].
    apply pull_prologue_fields in P. destruct P as (P1 & P2 & P3 & P4 & P5 & P6 & P7 & P8 & P9 & P10).
    apply take_fields in H. destruct H as (i & H1 & H2 & H3 & H4 & H5 & H6 & H7 & H8 & H9 & H10 & H11).
    rewrite P5, WF in H11. apply notify_one_spec in H11.
    destruct H11 as [(_ & W' & K')|(x & _ & _ & [] & _)].
    repeat apply conj; try congruence.
    rewrite H8. destruct P10 as [(_ & _ & ->)|(_ & E)]; [apply incl_refl|]. eapply incl_extract; eauto.
  - destruct (idle s t); [|discriminate]. destruct (items s); [|discriminate]. inversion H; subst.
    repeat apply conj; auto; apply incl_refl.
  - destruct (idle s t); [|discriminate].
    apply take_fields in H. destruct H as (i & H1 & H2 & H3 & H4 & H5 & H6 & H7 & H8 & H9 & H10 & H11).
    rewrite WF in H11. apply notify_one_spec in H11.
    destruct H11 as [(_ & W' & K')|(x & _ & _ & [] & _)].
    repeat apply conj; try congruence.
  - destruct (idle s t); [|discriminate]. inversion H; subst; clear H. sel.
    rewrite WF, WE. cbn [app]. repeat apply conj; auto; apply incl_refl.
  - rewrite WF in H. discriminate.
  - rewrite WE in H. discriminate.
Qed.

Lemma run_app cap tr1 tr2 s : run cap s (tr1 ++ tr2) = obind (run cap s tr1) (fun s1 => run cap s1 tr2).
Proof.
  revert s; induction tr1 as [|e tr1 IH]; intro s; cbn [app run obind]; auto.
  destruct (step cap s e); cbn [obind]; auto.
Qed.

Lemma closed_forever cap tr : forall s s', Inv cap s -> closed s = true -> run cap s tr = Some s' ->
  closed s' = true /\ accepted s' = accepted s /\ Forall (fun e => is_admit e = false) tr.
Proof.
  induction tr as [|e tr IH]; intros s s' I C H; cbn [run] in H.
  - inversion H; subst; auto.
  - destruct (step cap s e) as [s1|] eqn:E; cbn [obind] in H; [|discriminate].
    destruct (closed_step _ _ _ _ I C E) as (C1 & A1 & _ & AC & _).
    destruct (IH s1 s' (step_inv _ _ _ _ I E) C1 H) as (C2 & AC2 & F).
    repeat split; auto; congruence.
Qed.

Lemma closed_refuses_proof cap tr s : run cap init tr = Some s -> closed s = true ->
  (forall e s', step cap s e = Some s' -> is_admit e = false /\ accepted s' = accepted s /\ closed s' = true) /\
  (forall t p sz, idle s t = true ->
     step cap s (ETryRefuse t p sz) = Some s /\
     (cur s + sz < two64 -> step cap s (EPushRefuse t p sz false) = Some s)).
Proof.
  intros R C. pose proof (reach_inv _ _ _ R) as I. split.
  - intros e s' H. destruct (closed_step _ _ _ _ I C H) as (C1 & A1 & _ & AC & _). auto.
  - intros t p sz ID. cbn [step]. rewrite ID, C. cbn [andb]. split; auto.
    intro LT. unfold push_prologue. rewrite ID. cbn [obind]. unfold add_u64.
    apply N.ltb_lt in LT. rewrite LT. cbn [obind]. unfold push_blocked. rewrite C.
    cbn [negb]. rewrite andb_false_r. reflexivity.
Qed.

Lemma no_admit_after_close_proof cap tr1 t tr2 s :
  run cap init (tr1 ++ EClose t :: tr2) = Some s ->
  Forall (fun e => is_admit e = false) tr2 /\
  exists s1, run cap init (tr1 ++ [EClose t]) = Some s1 /\ accepted s = accepted s1 /\ closed s = true.
Proof.
  intro R. replace (tr1 ++ EClose t :: tr2) with ((tr1 ++ [EClose t]) ++ tr2) in R
    by (rewrite <- app_assoc; reflexivity).
  rewrite run_app in R. destruct (run cap init (tr1 ++ [EClose t])) as [s1|] eqn:R1; cbn [obind] in R; [|discriminate].
  assert (C1 : closed s1 = true).
  { rewrite run_app in R1. destruct (run cap init tr1) as [s0|]; cbn [obind run step] in R1; [|discriminate].
    destruct (idle s0 t); cbn [obind] in R1; [|discriminate]. inversion R1; subst. reflexivity. }
  destruct (closed_forever _ _ _ _ (reach_inv _ _ _ R1) C1 R) as (C2 & AC & F).
  split; auto. exists s1. auto.
Qed.

(* a pull that runs its critical section now: an idle thread entering pull, or a thread woken in pull *)
Definition pull_ready (s : state) (t : tid) (w : bool) : Prop :=
  (w = false /\ idle s t = true) \/ (w = true /\ In t (kempty s)).

Lemma pull_ready_prologue s t w : pull_ready s t w -> exists s1, pull_prologue s t w = Some s1.
Proof.
  intros [(-> & ID)|(-> & IN)]; unfold pull_prologue.
  - rewrite ID. eauto.
  - destruct (extract_some idN t (kempty s)) as (x & r & E).
    { apply memk_in. exists t. split; auto. }
    rewrite E. eauto.
Qed.

Lemma take_enabled s : cur s = sumsz (items s) -> NoDup (map iseq (items s)) -> wfull s = [] -> items s <> [] ->
  exists sq s', take s sq None = Some s'.
Proof.
  intros SZ ND WF NE. destruct (exists_max _ NE) as (i & IN & MX).
  destruct (extract_nodup iseq _ _ ND IN) as (r & E).
  exists (iseq i). unfold take. rewrite E, MX. unfold sub_u64.
  assert (LE : isize i <= cur s) by (rewrite SZ; apply sumsz_in; auto).
  apply N.leb_le in LE. rewrite LE. unfold notify_one. rewrite WF. eauto.
Qed.

Lemma closed_drains_then_none_proof cap tr s : run cap init tr = Some s -> closed s = true ->
  forall t w, pull_ready s t w ->
  (items s <> [] ->
     step cap s (EPullNone t w) = None /\ step cap s (EPullWait t w) = None /\
     exists sq s', step cap s (EPullTake t w sq None) = Some s') /\
  (items s = [] ->
     (exists s', step cap s (EPullNone t w) = Some s' /\ Permutation (accepted s') (returned s')) /\
     step cap s (EPullWait t w) = None /\
     forall sq ntf, step cap s (EPullTake t w sq ntf) = None).
Proof.
  intros R C t w PR. pose proof (reach_inv _ _ _ R) as I.
  destruct (pull_ready_prologue _ _ _ PR) as (s1 & P). cbn [step]. rewrite P. cbn [obind].
  apply pull_prologue_fields in P. destruct P as (P1 & P2 & P3 & P4 & P5 & P6 & P7 & P8 & P9 & P10).
  destruct (inv_closed _ _ I C) as (WF & WE).
  split; intro IT.
  - rewrite P1. split; [|split].
    + destruct (items s); [congruence|reflexivity].
    + destruct (items s); [congruence|reflexivity].
    + apply take_enabled.
      * rewrite P1, P2. exact (inv_size _ _ I).
      * rewrite P1. pose proof (inv_items_nodup _ _ I) as ND. rewrite map_app in ND.
        eapply nodup_app_r; eauto.
      * congruence.
      * congruence.
  - rewrite P1, IT, P3, C. repeat split; auto.
    + exists s1. split; auto. rewrite P8, P9. pose proof (inv_perm _ _ I) as PM. rewrite IT, app_nil_r in PM. auto.
    + intros sq ntf. unfold take. rewrite P1, IT. reflexivity.
Qed.

Lemma pull_none_only_when_drained_proof cap tr s t w s' :
  run cap init tr = Some s -> step cap s (EPullNone t w) = Some s' ->
  closed s = true /\ items s = [] /\ Permutation (accepted s) (returned s) /\ returned s' = returned s.
Proof.
  intros R H. pose proof (reach_inv _ _ _ R) as I. cbn [step] in H.
  destruct (pull_prologue s t w) as [s1|] eqn:P; cbn [obind] in H; [|discriminate].
  destruct (items s1) eqn:IT; [|discriminate]. destruct (closed s1) eqn:C1; [|discriminate].
  inversion H; subst; clear H.
  apply pull_prologue_fields in P. destruct P as (P1 & P2 & P3 & P4 & P5 & P6 & P7 & P8 & P9 & P10).
  repeat split; try congruence.
  pose proof (inv_perm _ _ I) as PM. rewrite <- P1, IT, app_nil_r in PM. auto.
Qed.

Lemma closed_nobody_blocked_proof cap tr s : run cap init tr = Some s -> closed s = true ->
  wfull s = [] /\ wempty s = [] /\
  (forall t p sz, In (t, (p, sz)) (kfull s) -> cur s + sz < two64 ->
     exists s', step cap s (EPushRefuse t p sz true) = Some s') /\
  (forall t, In t (kempty s) ->
     (items s = [] -> exists s', step cap s (EPullNone t true) = Some s') /\
     (items s <> [] -> exists sq s', step cap s (EPullTake t true sq None) = Some s')) /\
  (forall e s', step cap s e = Some s' ->
     is_wait e = false /\ wfull s' = [] /\ wempty s' = [] /\
     incl (kfull s') (kfull s) /\ incl (kempty s') (kempty s)).
Proof.
  intros R C. pose proof (reach_inv _ _ _ R) as I. destruct (inv_closed _ _ I C) as (WF & WE).
  split; [auto|]. split; [auto|]. split; [|split].
  - intros t p sz IN LT. cbn [step]. unfold push_prologue.
    pose proof (threads_distinct_proof _ _ _ R) as ND. unfold tids in ND.
    apply nodup_app_r in ND. apply nodup_app_l in ND.
    destruct (extract_nodup ftid _ _ ND IN) as (r & E). unfold ftid in E at 2. cbn [fst] in E. rewrite E.
    rewrite Z.eqb_refl, N.eqb_refl. cbn [andb obind]. sel. unfold add_u64. apply N.ltb_lt in LT. rewrite LT.
    cbn [obind]. unfold push_blocked. sel. rewrite C. cbn [negb]. rewrite andb_false_r. eauto.
  - intros t IN.
    assert (PR : pull_ready s t true) by (right; auto).
    destruct (closed_drains_then_none_proof _ _ _ R C _ _ PR) as (A & B). split.
    + intro IT. destruct (B IT) as ((s' & H & _) & _). eauto.
    + intro IT. destruct (A IT) as (_ & _ & H). exact H.
  - intros e s' H. destruct (closed_step _ _ _ _ I C H) as (_ & _ & W & _ & X1 & X2 & X3 & X4). auto.
Qed.

(* ---------------------------------------------------------------- progress-flavoured facts (used by C05) *)
Lemma sumsz_pos l : 0 < sumsz l -> l <> [].
Proof. destruct l; cbn; [lia|congruence]. Qed.

(* a push only goes to sleep while the queue is open and holds at least one item *)
Lemma push_wait_nonempty_proof cap tr s t p sz w s' :
  run cap init tr = Some s -> step cap s (EPushWait t p sz w) = Some s' ->
  closed s = false /\ 0 < cur s /\ items s <> [] /\ cap < cur s + sz /\ In (t, (p, sz)) (wfull s').
Proof.
  intros R H. pose proof (reach_inv _ _ _ R) as I. cbn [step] in H.
  destruct (push_prologue s t p sz w) as [s1|] eqn:P; cbn [obind] in H; [|discriminate].
  destruct (add_u64 (cur s1) sz) as [sum|] eqn:A; cbn [obind] in H; [|discriminate].
  destruct (push_blocked cap s1 sum) eqn:B; [|discriminate]. inversion H; subst; clear H.
  apply push_prologue_fields in P. destruct P as (P1 & P2 & P3 & P4 & P5 & P6 & P7 & P8 & P9 & _).
  unfold push_blocked in B. apply andb_prop in B. destruct B as [B B3]. apply andb_prop in B. destruct B as [B1 B2].
  apply negb_true_iff in B3. apply N.ltb_lt in B1, B2.
  unfold add_u64 in A. destruct (cur s1 + sz <? two64); [|discriminate]. inversion A; subst; clear A.
  rewrite P2, P3 in *. repeat split; auto.
  - apply sumsz_pos. rewrite <- (inv_size _ _ I). auto.
  - sel. left; auto.
Qed.

(* no lost wake-up: while the queue is open, if a producer is blocked then an item is queued or another
   producer has been woken; if a consumer is blocked then every queued item has a woken consumer *)
Record Live (s : state) : Prop := mkLive {
  live_full : closed s = false -> wfull s <> [] -> items s <> [] \/ kfull s <> [];
  live_empty : wempty s <> [] -> (length (items s) <= length (kempty s))%nat
}.

Lemma live_init : Live init.
Proof. constructor; cbn; congruence. Qed.

Lemma do_admit_live s p sz sum ntf s' : Live s -> do_admit s p sz sum ntf = Some s' -> Live s'.
Proof.
  intros L H. apply admit_fields in H. destruct H as (H1 & H2 & H3 & H4 & H5 & H6 & H7 & H8 & H9).
  destruct L. constructor.
  - intros _ _. left. rewrite H1. congruence.
  - intro NE. rewrite H1. cbn [length]. apply notify_one_spec in H9.
    destruct H9 as [(_ & W & _)|(x & PM & K & IN & _)]; [exfalso; apply NE; exact W|].
    rewrite K. cbn [length]. apply le_n_S. apply live_empty0. intro E. rewrite E in IN. destruct IN.
Qed.

Lemma take_live s sq ntf s' : Live s -> take s sq ntf = Some s' -> Live s'.
Proof.
  intros L H. apply take_fields in H. destruct H as (i & H1 & H2 & H3 & H4 & H5 & H6 & H7 & H8 & H9 & H10 & H11).
  destruct L. constructor.
  - intros _ NE. right. apply notify_one_spec in H11.
    destruct H11 as [(_ & W & _)|(x & PM & K & IN & _)]; [exfalso; apply NE; exact W|]. rewrite K. discriminate.
  - intro NE. rewrite H7 in NE. specialize (live_empty0 NE). rewrite H8.
    apply extract_length in H1. lia.
Qed.

Lemma step_live cap s e s' : Inv cap s -> Live s -> step cap s e = Some s' -> Live s'.
Proof.
  intros I L H. destruct e; cbn [step] in H.
  - destruct (push_prologue s t p sz woke) as [s1|] eqn:P; cbn [obind] in H; [|discriminate].
    destruct (add_u64 (cur s1) sz) as [sum|] eqn:A; cbn [obind] in H; [|discriminate].
    destruct (push_blocked cap s1 sum) eqn:B; [|discriminate]. inversion H; subst; clear H.
    apply push_prologue_fields in P. destruct P as (P1 & P2 & P3 & P4 & P5 & P6 & P7 & P8 & P9 & _).
    unfold push_blocked in B. apply andb_prop in B. destruct B as [B B3]. apply andb_prop in B. destruct B as [B1 B2].
    apply N.ltb_lt in B2. destruct L. constructor; sel.
    + intros _ _. left. rewrite P1. apply sumsz_pos. rewrite <- (inv_size _ _ I). congruence.
    + rewrite P6, P1, P7. auto.
  - destruct (push_prologue s t p sz woke) as [s1|] eqn:P; cbn [obind] in H; [|discriminate].
    destruct (add_u64 (cur s1) sz) as [sum|] eqn:A; cbn [obind] in H; [|discriminate].
    destruct (push_blocked cap s1 sum) eqn:B; [discriminate|].
    destruct (closed s1) eqn:C; [|discriminate]. inversion H; subst; clear H.
    apply push_prologue_fields in P. destruct P as (P1 & P2 & P3 & P4 & P5 & P6 & P7 & P8 & P9 & _).
    destruct L. constructor.
    + congruence.
    + rewrite P6, P1, P7. auto.
  - destruct (push_prologue s t p sz woke) as [s1|] eqn:P; cbn [obind] in H; [|discriminate].
    destruct (add_u64 (cur s1) sz) as [sum|] eqn:A; cbn [obind] in H; [|discriminate].
    destruct (push_blocked cap s1 sum) eqn:B; [discriminate|].
    destruct (closed s1) eqn:C; [discriminate|].
    apply push_prologue_fields in P. destruct P as (P1 & P2 & P3 & P4 & P5 & P6 & P7 & P8 & P9 & _).
    apply admit_fields in H. destruct H as (H1 & H2 & H3 & H4 & H5 & H6 & H7 & H8 & H9).
    destruct L. constructor.
    + intros _ _. left. rewrite H1. congruence.
    + intro NE. rewrite H1. cbn [length]. apply notify_one_spec in H9.
      destruct H9 as [(_ & W & _)|(x & PM & K & IN & _)]; [exfalso; apply NE; exact W|].
      rewrite K. cbn [length]. apply le_n_S. rewrite P1, P7. apply live_empty0. intro E.
      rewrite P6, E in IN. destruct IN.
  - destruct (idle s t && closed s); [|discriminate]. inversion H; subst; auto.
  - destruct (idle s t && negb (closed s)); [|discriminate].
    destruct (add_u64 (cur s) sz) as [sum|]; cbn [obind] in H; [|discriminate].
    destruct (cap <? sum); [|discriminate]. inversion H; subst; auto.
  - destruct (idle s t && negb (closed s)); [|discriminate].
    destruct (add_u64 (cur s) sz) as [sum|]; cbn [obind] in H; [|discriminate].
    destruct (cap <? sum); [discriminate|]. eapply do_admit_live; eauto.
  - destruct (pull_prologue s t woke) as [s1|] eqn:P; cbn [obind] in H; [|discriminate].
    destruct (items s1) eqn:IT; [|discriminate]. destruct (closed s1) eqn:C; [discriminate|].
    inversion H; subst; clear H.
    apply pull_prologue_fields in P. destruct P as (P1 & P2 & P3 & P4 & P5 & P6 & P7 & P8 & P9 & _).
    destruct L. constructor; sel.
    + rewrite P3, P5, P1, P6. auto.
    + intros _. rewrite IT. cbn [length]. lia.
  - destruct (pull_prologue s t woke) as [s1|] eqn:P; cbn [obind] in H; [|discriminate].
    destruct (items s1) eqn:IT; [|discriminate]. destruct (closed s1) eqn:C; [|discriminate].
    inversion H; subst; clear H.
    apply pull_prologue_fields in P. destruct P as (P1 & P2 & P3 & P4 & P5 & P6 & P7 & P8 & P9 & _).
    destruct L. constructor.
    + congruence.
    + intros _. rewrite IT. cbn [length]. lia.
  - destruct (pull_prologue s t woke) as [s1|] eqn:P; cbn [obind] in H; [|discriminate].
    apply pull_prologue_fields in P. destruct P as (P1 & P2 & P3 & P4 & P5 & P6 & P7 & P8 & P9 & P10).
    apply take_fields in H. destruct H as (i & H1 & H2 & H3 & H4 & H5 & H6 & H7 & H8 & H9 & H10 & H11).
    destruct L. constructor.
    + intros _ NE. right. apply notify_one_spec in H11.
      destruct H11 as [(_ & W & _)|(x & PM & K & IN & _)]; [exfalso; apply NE; exact W|]. rewrite K. discriminate.
    + intro NE. rewrite H7, P7 in NE. specialize (live_empty0 NE). rewrite H8.
      apply extract_length in H1. rewrite P1 in H1.
      destruct P10 as [(_ & _ & ->)|(_ & E)]; [lia|]. apply extract_length in E. unfold tid in *. lia.
  - destruct (idle s t); [|discriminate]. destruct (items s); [|discriminate]. inversion H; subst; auto.
  - destruct (idle s t); [|discriminate]. eapply take_live; eauto.
  - destruct (idle s t); [|discriminate]. inversion H; subst; clear H. constructor; sel; congruence.
  - destruct (extract ftid t (wfull s)) as [[x w']|] eqn:E; [|discriminate]. inversion H; subst; clear H.
    destruct L. constructor; sel; auto. intros _ _. right. congruence.
  - destruct (extract idN t (wempty s)) as [[x w']|] eqn:E; [|discriminate]. inversion H; subst; clear H.
    destruct L. constructor; sel; auto. intros _. cbn [length].
    assert (wempty s <> []) by (intro Z; rewrite Z in E; discriminate). specialize (live_empty0 H). lia.
Qed.

Lemma no_lost_wakeup_proof cap tr s : run cap init tr = Some s ->
  (closed s = false -> wfull s <> [] -> items s <> [] \/ kfull s <> []) /\
  (wempty s <> [] -> (length (items s) <= length (kempty s))%nat).
Proof.
  assert (G : forall tr s0 s1, Inv cap s0 -> Live s0 -> run cap s0 tr = Some s1 -> Live s1).
  { induction tr0 as [|e tr0 IH]; intros s0 s1 I L H; cbn [run] in H.
    - inversion H; subst; auto.
    - destruct (step cap s0 e) as [s2|] eqn:E; cbn [obind] in H; [|discriminate].
      eapply IH; [| |exact H]. eapply step_inv; eauto. eapply step_live; eauto. }
  intro R. destruct (G _ _ _ (inv_init cap) live_init R). auto.
Qed.

(* ---------------------------------------------------------------- the log replay only ever runs model steps *)
Lemma replay_sound_proof cap ls : forall s pd s' pd',
  replay cap (s, pd) ls = Some (s', pd') -> exists tr, run cap s tr = Some s'.
Proof.
  induction ls as [|l ls IH]; intros s pd s' pd' H; cbn [replay] in H.
  - inversion H; subst. exists []. reflexivity.
  - destruct (replay_step cap (s, pd) l) as [[s1 pd1]|] eqn:E; cbn [obind] in H; [|discriminate].
    destruct (IH _ _ _ _ H) as (tr2 & R2).
    unfold replay_step in E. cbn [fst snd] in E.
    destruct (translate s pd l) as [[es pd2]|]; [|discriminate].
    destruct (run cap s es) as [s2|] eqn:R1; [|discriminate]. inversion E; subst; clear E.
    exists (es ++ tr2). rewrite run_app, R1. exact R2.
Qed.
