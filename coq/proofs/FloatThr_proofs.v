(* FloatThr_proofs.v - C12F: the f64 arithmetic of segment_compression.rs check_repetitiveness /
   compress_reference_segment, stated with Flocq 4.1.0 (IEEE754.Binary, binary64 = binary_float 53 1024), and its
   agreement with the exact rational arithmetic of coq/model/SegCompress.v.

   Rust (ragc-core/src/segment_compression.rs):
       const REPETITIVENESS_THRESHOLD: f64 = 0.5;
       let mut best_frac = 0.0;
       for offset in 4..32 { ... let frac = if cur_size > 0 { cnt as f64 / cur_size as f64 } else { 0.0 };
                             if frac > best_frac { best_frac = frac; if best_frac >= REPETITIVENESS_THRESHOLD { break; } } }
       ... if repetitiveness < REPETITIVENESS_THRESHOLD { tuple packing, marker 1 } else { plain, marker 0 }
   cnt, cur_size are i32 (both operands of `/` are cast to f64; three comparisons: `>` between two quotients,
   `>=` and `<` against the constant 0.5).

   What is assumed about Rust/hardware f64 (the reading of the text above, not provable here):
     * `i as f64` for an i32 is the IEEE-754 binary64 conversion, round to nearest even
       (f64_of_Z = Binary.binary_normalize mode_NE z 0; proved exact below 2^53);
     * `/` on f64 is IEEE-754 binary64 division, round to nearest even (f64_div = Bits.b64_div mode_NE);
     * the literal 0.5 is the double with bit pattern 0x3FE0000000000000 and 0.0 is +0 (f64_half_bits);
     * `<`, `>`, `>=` on f64 are the IEEE comparisons, false on unordered (f64_lt/gt/ge from Bits.b64_compare).
   Layers: rnd_div_lt_half is at the real-number layer (round radix2 (FLT_exp (-1074) 53) ZnearestE);
   f64_div_lt_half and everything after it at the Binary (bit-level record) layer.

   Definitions come first (this property has no extracted model: nothing here is run), proofs after. *)
From Coq Require Import ZArith NArith List Reals Lia Lra ZifyBool ZifyN ZifyNat.
From Flocq Require Import Core.Core IEEE754.Binary IEEE754.Bits.
From Ragc Require Import Mach Consts_tuple Tuple SegCompress SegCompress_proofs.
Import ListNotations.
Local Open Scope R_scope.

(* ------------------------------------------------------------------ the f64 operations used by the Rust text *)
Definition f64_of_Z (z : Z) : binary64 :=                                   (* `z as f64` *)
  binary_normalize 53%Z 1024%Z eq_refl eq_refl BinarySingleNaN.mode_NE z 0%Z false.
Definition f64_div (x y : binary64) : binary64 := b64_div BinarySingleNaN.mode_NE x y.        (* `x / y` *)
Definition f64_zero : binary64 := B754_zero 53%Z 1024%Z false.                                   (* 0.0 *)
Definition f64_half : binary64 := B754_finite 53%Z 1024%Z false 4503599627370496%positive (-53)%Z eq_refl.   (* 0.5 *)
Definition f64_lt (x y : binary64) : bool := match b64_compare x y with Some Lt => true | _ => false end.
Definition f64_gt (x y : binary64) : bool := match b64_compare x y with Some Gt => true | _ => false end.
Definition f64_ge (x y : binary64) : bool := match b64_compare x y with Some Gt | Some Eq => true | _ => false end.

(* `if cur_size > 0 { cnt as f64 / cur_size as f64 } else { 0.0 }` *)
Definition f64_frac (cnt cur : N) : binary64 :=
  if (0 <? cur)%N then f64_div (f64_of_Z (Z.of_N cnt)) (f64_of_Z (Z.of_N cur)) else f64_zero.

(* check_repetitiveness with best_frac an f64: SegCompress.rep_loop with the three rational tests replaced by the
   float operations (same counting function rep_count, same offsets, same break) *)
Fixpoint rep_loop_f (data : list N) (off : N) (n : nat) (best : binary64) : option binary64 :=
  match n with
  | O => Some best
  | S n' =>
      match rep_count data (skipnN off data) 0%N 0%N with
      | None => None
      | Some (cnt, cur) =>
          let frac := f64_frac cnt cur in
          if f64_gt frac best then
            (if f64_ge frac f64_half then Some frac              (* break *)
             else rep_loop_f data (off + 1)%N n' frac)
          else rep_loop_f data (off + 1)%N n' best
      end
  end.

Definition check_repetitiveness_f (data : list N) : option binary64 :=
  rep_loop_f data rep_off_lo (N.to_nat (rep_off_hi - rep_off_lo)) f64_zero.

(* compress_reference_segment with `repetitiveness < REPETITIVENESS_THRESHOLD` on f64 *)
Definition compress_reference_segment_f (zc : N -> list N -> list N) (data : list N) : outcome (list N * N) :=
  match check_repetitiveness_f data with
  | None => Panic
  | Some rep =>
      if f64_lt rep f64_half
      then Ok (zc sc_ref_tuples_level (bytes_to_tuples data), sc_marker_tuples)
      else Ok (zc sc_ref_plain_level data, sc_marker_plain)
  end.

(* ------------------------------------------------------------------ real-number layer *)
Definition fexp64 : Z -> Z := FLT_exp (-1074)%Z 53%Z.
Definition rnd64 (x : R) : R := round radix2 fexp64 ZnearestE x.

Lemma valid_fexp64 : Valid_exp (FLT_exp (-1074)%Z 53%Z).
Proof. apply FLT_exp_valid. red. lia. Qed.
Lemma rnd64_le : forall x y, x <= y -> rnd64 x <= rnd64 y.
Proof. intros. unfold rnd64, fexp64. apply round_le; [exact valid_fexp64|auto with typeclass_instances|assumption]. Qed.
Lemma rnd64_id : forall x, generic_format radix2 fexp64 x -> rnd64 x = x.
Proof. intros. unfold rnd64. apply round_generic; [auto with typeclass_instances|assumption]. Qed.
Lemma rnd64_0 : rnd64 0 = 0.
Proof. unfold rnd64. apply round_0. auto with typeclass_instances. Qed.

(* every integer of magnitude below 2^53 is a double *)
Lemma fmt_int : forall z : Z, (Z.abs z < 9007199254740992)%Z -> generic_format radix2 fexp64 (IZR z).
Proof.
  intros z Hz. apply generic_format_FLT.
  apply FLT_spec with (f := Float radix2 z 0%Z).
  - unfold F2R. cbn [Fnum Fexp bpow]. lra.
  - cbn [Fnum]. exact Hz.
  - cbn [Fexp]. lia.
Qed.

Lemma fmt_half : generic_format radix2 fexp64 (/2).
Proof.
  apply generic_format_FLT. apply FLT_spec with (f := Float radix2 1%Z (-1)%Z).
  - unfold F2R. cbn [Fnum Fexp]. change (bpow radix2 (-1)%Z) with (/ IZR (Zpower_pos 2%Z 1%positive)). cbn. lra.
  - cbn. lia.
  - cbn. lia.
Qed.

(* the largest double below 1/2:  (2^53 - 1) * 2^-54 *)
Lemma fmt_pred_half : generic_format radix2 fexp64 (IZR 9007199254740991%Z / IZR 18014398509481984%Z).
Proof.
  apply generic_format_FLT. apply FLT_spec with (f := Float radix2 9007199254740991%Z (-54)%Z).
  - unfold F2R. cbn [Fnum Fexp]. change (bpow radix2 (-54)%Z) with (/ IZR (Zpower_pos 2%Z 54%positive)).
    replace (Zpower_pos 2%Z 54%positive) with 18014398509481984%Z by (vm_compute; reflexivity). reflexivity.
  - cbn. lia.
  - cbn. lia.
Qed.

(* The correctly rounded quotient of two integers is below 1/2 exactly when the exact quotient is:
   rounding is monotone, 1/2 is a double, and a quotient below 1/2 with denominator <= 2^53 is at most
   1/2 - 1/(2*cur) <= 1/2 - 2^-54, which is a double too. *)
Lemma rnd_div_lt_half_proof : forall cnt cur : Z,
  (0 <= cnt)%Z -> (0 < cur < 9007199254740992)%Z ->
  (rnd64 (IZR cnt / IZR cur) < /2  <->  (2 * cnt < cur)%Z).
Proof.
  intros cnt cur Hc Hd.
  assert (Hdr : 0 < IZR cur) by (apply IZR_lt; lia).
  split.
  - intros H. destruct (Z_lt_le_dec (2 * cnt) cur) as [|Hge]; [assumption|exfalso].
    assert (H0 : /2 <= IZR cnt / IZR cur).
    { apply IZR_le in Hge. rewrite mult_IZR in Hge.
      apply Rmult_le_reg_r with (IZR cur); [assumption|].
      unfold Rdiv. rewrite Rmult_assoc, Rinv_l, Rmult_1_r by lra. lra. }
    apply rnd64_le in H0. rewrite (rnd64_id _ fmt_half) in H0. lra.
  - intros H.
    assert (Hz : (cnt * 18014398509481984 <= 9007199254740991 * cur)%Z) by lia.
    apply IZR_le in Hz. rewrite 2!mult_IZR in Hz.
    assert (H0 : IZR cnt / IZR cur <= IZR 9007199254740991%Z / IZR 18014398509481984%Z).
    { apply Rmult_le_reg_r with (IZR cur); [assumption|].
      unfold Rdiv at 1. rewrite Rmult_assoc, Rinv_l, Rmult_1_r by lra. lra. }
    apply rnd64_le in H0. rewrite (rnd64_id _ fmt_pred_half) in H0. lra.
Qed.

(* ------------------------------------------------------------------ Binary layer *)
Lemma f64_consts_bits : bits_of_b64 f64_half = 0x3FE0000000000000%Z /\ bits_of_b64 f64_zero = 0%Z.
Proof. vm_compute. split; reflexivity. Qed.

Lemma f64_half_R : B2R 53%Z 1024%Z f64_half = /2.
Proof.
  unfold f64_half, B2R, F2R. cbn [Fnum Fexp cond_Zopp].
  change (bpow radix2 (-53)%Z) with (/ IZR (Zpower_pos 2%Z 53%positive)).
  replace (Zpower_pos 2%Z 53%positive) with 9007199254740992%Z by (vm_compute; reflexivity). lra.
Qed.

(* the f64 threshold is the model's rational threshold rep_thr_num / rep_thr_den (regenerated from the Rust text) *)
Lemma f64_half_thr : B2R 53%Z 1024%Z f64_half = IZR (Z.of_N rep_thr_num) / IZR (Z.of_N rep_thr_den).
Proof. rewrite f64_half_R. unfold rep_thr_num, rep_thr_den. cbn [Z.of_N]. lra. Qed.

Lemma bpow_1024_big : IZR 9007199254740992%Z < bpow radix2 1024%Z.
Proof.
  change 9007199254740992%Z with (Zpower radix2 53%Z). rewrite IZR_Zpower by lia. apply bpow_lt. lia.
Qed.

(* int -> f64 conversion is exact below 2^53 *)
Lemma f64_of_Z_correct : forall z, (Z.abs z < 9007199254740992)%Z ->
  B2R 53%Z 1024%Z (f64_of_Z z) = IZR z /\ is_finite 53%Z 1024%Z (f64_of_Z z) = true.
Proof.
  intros z Hz. unfold f64_of_Z.
  pose proof (binary_normalize_correct 53%Z 1024%Z eq_refl eq_refl BinarySingleNaN.mode_NE z 0%Z false) as H.
  assert (E : F2R (Float radix2 z 0%Z) = IZR z) by (unfold F2R; cbn [Fnum Fexp bpow]; lra).
  rewrite E in H. cbn [BinarySingleNaN.round_mode] in H.
  change (round radix2 _ ZnearestE (IZR z)) with (rnd64 (IZR z)) in H.
  rewrite (rnd64_id _ (fmt_int z Hz)) in H.
  rewrite Rlt_bool_true in H.
  - destruct H as (H1 & H2 & _). split; assumption.
  - rewrite <- abs_IZR. apply Rlt_trans with (IZR 9007199254740992%Z); [apply IZR_lt; assumption|apply bpow_1024_big].
Qed.

(* f64 division of two converted integers: finite, and the correctly rounded exact quotient *)
Lemma f64_div_correct : forall cnt cur : Z,
  (0 <= cnt < 9007199254740992)%Z -> (0 < cur < 9007199254740992)%Z ->
  B2R 53%Z 1024%Z (f64_div (f64_of_Z cnt) (f64_of_Z cur)) = rnd64 (IZR cnt / IZR cur)
  /\ is_finite 53%Z 1024%Z (f64_div (f64_of_Z cnt) (f64_of_Z cur)) = true.
Proof.
  intros cnt cur Hc Hd.
  destruct (f64_of_Z_correct cnt ltac:(lia)) as [Rx Fx].
  destruct (f64_of_Z_correct cur ltac:(lia)) as [Ry Fy].
  assert (Hdr : 1 <= IZR cur) by (apply IZR_le; lia).
  assert (Hcr : 0 <= IZR cnt) by (apply IZR_le; lia).
  assert (Hny : B2R 53%Z 1024%Z (f64_of_Z cur) <> 0) by (rewrite Ry; lra).
  pose proof (Bdiv_correct 53%Z 1024%Z eq_refl eq_refl binop_nan_pl64 BinarySingleNaN.mode_NE
                (f64_of_Z cnt) (f64_of_Z cur) Hny) as H.
  rewrite Rx, Ry in H. cbn [BinarySingleNaN.round_mode] in H.
  change (round radix2 _ ZnearestE (IZR cnt / IZR cur)) with (rnd64 (IZR cnt / IZR cur)) in H.
  assert (Hq0 : 0 <= IZR cnt / IZR cur).
  { unfold Rdiv. apply Rmult_le_pos; [assumption|]. left. apply Rinv_0_lt_compat. lra. }
  assert (Hq1 : IZR cnt / IZR cur <= IZR cnt).
  { apply Rmult_le_reg_r with (IZR cur); [lra|].
    unfold Rdiv. rewrite Rmult_assoc, Rinv_l, Rmult_1_r by lra.
    rewrite <- (Rmult_1_r (IZR cnt)) at 1. apply Rmult_le_compat_l; assumption. }
  assert (B0 : 0 <= rnd64 (IZR cnt / IZR cur)) by (rewrite <- rnd64_0; apply rnd64_le; assumption).
  assert (B1 : rnd64 (IZR cnt / IZR cur) <= IZR cnt).
  { rewrite <- (rnd64_id (IZR cnt)) at 2 by (apply fmt_int; lia). apply rnd64_le; assumption. }
  rewrite Rlt_bool_true in H.
  - destruct H as (H1 & H2 & _). unfold f64_div, b64_div. split; [exact H1|]. rewrite H2. exact Fx.
  - rewrite Rabs_pos_eq by assumption.
    apply Rle_lt_trans with (IZR cnt); [assumption|].
    apply Rlt_trans with (IZR 9007199254740992%Z); [apply IZR_lt; lia|apply bpow_1024_big].
Qed.

(* comparisons of finite doubles are the comparisons of their real values *)
Lemma f64_lt_R : forall x y, is_finite 53%Z 1024%Z x = true -> is_finite 53%Z 1024%Z y = true ->
  (f64_lt x y = true <-> B2R 53%Z 1024%Z x < B2R 53%Z 1024%Z y).
Proof.
  intros x y Hx Hy. unfold f64_lt, b64_compare. rewrite (Bcompare_correct 53%Z 1024%Z x y Hx Hy).
  destruct (Rcompare_spec (B2R 53%Z 1024%Z x) (B2R 53%Z 1024%Z y)); split; intros; try discriminate; try reflexivity; lra.
Qed.
Lemma f64_gt_R : forall x y, is_finite 53%Z 1024%Z x = true -> is_finite 53%Z 1024%Z y = true ->
  (f64_gt x y = true <-> B2R 53%Z 1024%Z y < B2R 53%Z 1024%Z x).
Proof.
  intros x y Hx Hy. unfold f64_gt, b64_compare. rewrite (Bcompare_correct 53%Z 1024%Z x y Hx Hy).
  destruct (Rcompare_spec (B2R 53%Z 1024%Z x) (B2R 53%Z 1024%Z y)); split; intros; try discriminate; try reflexivity; lra.
Qed.
Lemma f64_ge_R : forall x y, is_finite 53%Z 1024%Z x = true -> is_finite 53%Z 1024%Z y = true ->
  (f64_ge x y = true <-> B2R 53%Z 1024%Z y <= B2R 53%Z 1024%Z x).
Proof.
  intros x y Hx Hy. unfold f64_ge, b64_compare. rewrite (Bcompare_correct 53%Z 1024%Z x y Hx Hy).
  destruct (Rcompare_spec (B2R 53%Z 1024%Z x) (B2R 53%Z 1024%Z y)); split; intros; try discriminate; try reflexivity; lra.
Qed.

Lemma f64_div_lt_half_proof : forall cnt cur : Z,
  (0 <= cnt < 9007199254740992)%Z -> (0 < cur < 9007199254740992)%Z ->
  f64_lt (f64_div (f64_of_Z cnt) (f64_of_Z cur)) f64_half = (2 * cnt <? cur)%Z.
Proof.
  intros cnt cur Hc Hd. destruct (f64_div_correct cnt cur Hc Hd) as [Rq Fq].
  pose proof (f64_lt_R _ f64_half Fq eq_refl) as E. rewrite Rq, f64_half_R in E.
  pose proof (rnd_div_lt_half_proof cnt cur ltac:(lia) Hd) as E2.
  destruct (Z.ltb_spec (2 * cnt) cur) as [L|L].
  - apply E, E2, L.
  - destruct (f64_lt _ f64_half); [|reflexivity]. exfalso. apply proj1 in E. specialize (E eq_refl). apply E2 in E. lia.
Qed.

Lemma f64_div_ge_half_proof : forall cnt cur : Z,
  (0 <= cnt < 9007199254740992)%Z -> (0 < cur < 9007199254740992)%Z ->
  f64_ge (f64_div (f64_of_Z cnt) (f64_of_Z cur)) f64_half = (cur <=? 2 * cnt)%Z.
Proof.
  intros cnt cur Hc Hd. destruct (f64_div_correct cnt cur Hc Hd) as [Rq Fq].
  pose proof (f64_ge_R _ f64_half Fq eq_refl) as E. rewrite Rq, f64_half_R in E.
  pose proof (rnd_div_lt_half_proof cnt cur ltac:(lia) Hd) as E2.
  destruct (Z.leb_spec cur (2 * cnt)) as [L|L].
  - apply E. destruct (Rle_lt_dec (/2) (rnd64 (IZR cnt / IZR cur))) as [|C]; [assumption|]. apply E2 in C. lia.
  - destruct (f64_ge _ f64_half); [|reflexivity]. exfalso. apply proj1 in E. specialize (E eq_refl).
    apply E2 in L. lra.
Qed.

(* ------------------------------------------------------------------ connection with SegCompress.v *)
Local Open Scope N_scope.

Lemma frac_lt_thr_Z : forall cnt cur : N, frac_lt_thr (cnt, cur) = (2 * Z.of_N cnt <? Z.of_N cur)%Z.
Proof. intros. unfold frac_lt_thr, rep_thr_num, rep_thr_den. cbn [fst snd]. lia. Qed.
Lemma frac_ge_thr_Z : forall cnt cur : N, frac_ge_thr (cnt, cur) = (Z.of_N cur <=? 2 * Z.of_N cnt)%Z.
Proof. intros. unfold frac_ge_thr, rep_thr_num, rep_thr_den. cbn [fst snd]. lia. Qed.

Lemma f64_frac_lt_thr_proof : forall cnt cur : N,
  cnt < 9007199254740992 -> 0 < cur < 9007199254740992 ->
  f64_lt (f64_div (f64_of_Z (Z.of_N cnt)) (f64_of_Z (Z.of_N cur))) f64_half = frac_lt_thr (cnt, cur)
  /\ f64_ge (f64_div (f64_of_Z (Z.of_N cnt)) (f64_of_Z (Z.of_N cur))) f64_half = frac_ge_thr (cnt, cur).
Proof.
  intros cnt cur Hc Hd. rewrite frac_lt_thr_Z, frac_ge_thr_Z. split.
  - apply f64_div_lt_half_proof; lia.
  - apply f64_div_ge_half_proof; lia.
Qed.

(* rep_count keeps its i32 counters below 2^31 (it returns None instead of overflowing) *)
Lemma rep_count_bound : forall s l cnt cur c d, rep_count l s cnt cur = Some (c, d) ->
  cnt < i32_lim -> cur < i32_lim -> c < i32_lim /\ d < i32_lim.
Proof.
  induction s as [|b s IH]; intros l cnt cur c d H H1 H2.
  - destruct l; cbn [rep_count] in H; injection H as <- <-; split; assumption.
  - destruct l as [|a l]; cbn [rep_count] in H; [injection H as <- <-; split; assumption|].
    destruct ((_ <? i32_lim) && (_ <? i32_lim))%bool eqn:E in H; [|discriminate].
    apply andb_prop in E. destruct E as [E1 E2]. apply N.ltb_lt in E1, E2.
    eapply IH; eassumption.
Qed.

(* the rational fraction the model forms at one offset *)
Definition q_frac (cnt cur : N) : N * N := if 0 <? cur then (cnt, cur) else (0, 1).

Lemma frac_facts : forall cnt cur, cnt < i32_lim -> cur < i32_lim ->
  is_finite 53%Z 1024%Z (f64_frac cnt cur) = true
  /\ f64_lt (f64_frac cnt cur) f64_half = frac_lt_thr (q_frac cnt cur)
  /\ 0 < snd (q_frac cnt cur).
Proof.
  intros cnt cur Hc Hd. unfold i32_lim in *. unfold f64_frac, q_frac.
  destruct (N.ltb_spec 0 cur) as [P|P].
  - destruct (f64_div_correct (Z.of_N cnt) (Z.of_N cur) ltac:(lia) ltac:(lia)) as [_ F].
    destruct (f64_frac_lt_thr_proof cnt cur ltac:(lia) ltac:(lia)) as [L _].
    cbn [snd]. repeat split; assumption.
  - repeat split.
Qed.

Lemma frac_lt_ge : forall a, frac_ge_thr a = negb (frac_lt_thr a).
Proof. intros. unfold frac_ge_thr, frac_lt_thr. lia. Qed.

(* a fraction >= threshold beats every fraction below the threshold *)
Lemma frac_gt_across : forall a b, frac_lt_thr b = true -> 0 < snd b -> frac_lt_thr a = false -> 0 < snd a ->
  frac_gt a b = true.
Proof.
  intros [fn fd] [bn bd] Hb Hbd Ha Had. destruct thr_pos as [Hn Hd].
  unfold frac_lt_thr, frac_gt in *. cbn [fst snd] in *.
  apply N.ltb_lt in Hb. apply N.ltb_ge in Ha. apply N.ltb_lt.
  apply N.mul_lt_mono_pos_r with rep_thr_den; [lia|].
  assert (bn * rep_thr_den * fd < rep_thr_num * bd * fd) by (apply N.mul_lt_mono_pos_r; lia).
  assert (rep_thr_num * fd * bd <= fn * rep_thr_den * bd) by (apply N.mul_le_mono_r; lia).
  lia.
Qed.

(* lock-step simulation of the rational loop and the f64 loop: both running maxima stay below the threshold
   until the first offset whose fraction reaches it, where both loops break.  The two loops may disagree on
   `frac > best_frac` below the threshold (two different rationals can round to the same double); the
   invariant does not care. *)
Lemma loop_sim : forall data n off best bestf,
  frac_lt_thr best = true -> 0 < snd best ->
  is_finite 53%Z 1024%Z bestf = true -> (B2R 53%Z 1024%Z bestf < /2)%R ->
  match rep_loop data off n best, rep_loop_f data off n bestf with
  | Some rep, Some r => f64_lt r f64_half = frac_lt_thr rep
  | None, None => True
  | _, _ => False
  end.
Proof.
  intros data. induction n as [|n IH]; intros off best bestf Hb Hs Hf Hr.
  - cbn [rep_loop rep_loop_f]. rewrite Hb. apply (f64_lt_R bestf f64_half Hf eq_refl). rewrite f64_half_R. exact Hr.
  - cbn [rep_loop rep_loop_f].
    destruct (rep_count data (skipnN off data) 0 0) as [[cnt cur]|] eqn:Ec; [|exact I].
    destruct (rep_count_bound _ _ _ _ _ _ Ec eq_refl eq_refl) as [Bc Bd].
    destruct (frac_facts cnt cur Bc Bd) as (Ff & Fl & Fs).
    change (if 0 <? cur then (cnt, cur) else (0, 1)) with (q_frac cnt cur).
    set (fq := q_frac cnt cur) in *. set (ff := f64_frac cnt cur) in *.
    pose proof (f64_lt_R ff f64_half Ff eq_refl) as Lr. rewrite f64_half_R in Lr.
    pose proof (f64_ge_R ff f64_half Ff eq_refl) as Gr. rewrite f64_half_R in Gr.
    pose proof (f64_gt_R ff bestf Ff Hf) as Tr.
    rewrite (frac_lt_ge fq).
    destruct (frac_lt_thr fq) eqn:El.
    + (* below the threshold on both sides: whichever maximum each loop keeps, it is below the threshold *)
      apply Lr in Fl.
      assert (Eg : f64_ge ff f64_half = false).
      { destruct (f64_ge ff f64_half); [|reflexivity]. exfalso. apply proj1 in Gr. specialize (Gr eq_refl). lra. }
      rewrite Eg. cbn [negb].
      destruct (frac_gt fq best); destruct (f64_gt ff bestf); apply IH; assumption.
    + (* this offset reaches the threshold: both loops take it and break *)
      assert (Hge : (/2 <= B2R 53%Z 1024%Z ff)%R).
      { destruct (Rle_lt_dec (/2) (B2R 53%Z 1024%Z ff)) as [|C]; [assumption|]. apply Lr in C. congruence. }
      rewrite (frac_gt_across fq best Hb Hs El Fs). cbn [negb].
      replace (f64_gt ff bestf) with true by (symmetry; apply Tr; lra).
      replace (f64_ge ff f64_half) with true by (symmetry; apply Gr; exact Hge).
      rewrite El. exact Fl.
Qed.

Lemma check_rep_sim : forall data,
  match check_repetitiveness data, check_repetitiveness_f data with
  | Some rep, Some r => f64_lt r f64_half = frac_lt_thr rep
  | None, None => True
  | _, _ => False
  end.
Proof.
  intros data. unfold check_repetitiveness, check_repetitiveness_f. apply loop_sim.
  - unfold frac_lt_thr, rep_thr_num, rep_thr_den. reflexivity.
  - cbn [snd]. lia.
  - reflexivity.
  - unfold f64_zero, B2R. lra.
Qed.

Lemma compress_reference_segment_f_eq_proof : forall (zc : N -> list N -> list N) (data : list N),
  compress_reference_segment_f zc data = compress_reference_segment zc data.
Proof.
  intros zc data. unfold compress_reference_segment_f, compress_reference_segment.
  pose proof (check_rep_sim data) as H.
  destruct (check_repetitiveness data) as [rep|]; destruct (check_repetitiveness_f data) as [r|]; try contradiction.
  - rewrite H. reflexivity.
  - reflexivity.
Qed.

Lemma f64_decision_exact_proof : forall (data : list N) (r : binary64),
  check_repetitiveness_f data = Some r ->
  f64_lt r f64_half = negb (existsb (offset_reaches data) rep_offsets).
Proof.
  intros data r H. pose proof (check_rep_sim data) as S. rewrite H in S.
  destruct (check_repetitiveness data) as [rep|] eqn:E; [|contradiction].
  rewrite S. apply rep_decision_exact_proof. exact E.
Qed.

Lemma check_rep_f_total_proof : forall data : list N, lenN data < 2147483648 ->
  exists r, check_repetitiveness_f data = Some r.
Proof.
  intros data H. destruct (rep_total_proof data H) as [rep E]. pose proof (check_rep_sim data) as S. rewrite E in S.
  destruct (check_repetitiveness_f data) as [r|]; [eexists; reflexivity|contradiction].
Qed.

(* ------------------------------------------------------------------ the definitions above, in Flocq's own terms *)
Lemma f64_consts_of_bits : f64_half = b64_of_bits 0x3FE0000000000000%Z /\ f64_zero = b64_of_bits 0%Z.
Proof.
  split.
  - rewrite <- (binary_float_of_bits_of_binary_float 52%Z 11%Z eq_refl eq_refl eq_refl f64_half). reflexivity.
  - rewrite <- (binary_float_of_bits_of_binary_float 52%Z 11%Z eq_refl eq_refl eq_refl f64_zero). reflexivity.
Qed.

Lemma f64_cmp_spelled : forall x y : binary64,
  (f64_lt x y = true <-> b64_compare x y = Some Lt)
  /\ (f64_gt x y = true <-> b64_compare x y = Some Gt)
  /\ (f64_ge x y = true <-> (b64_compare x y = Some Gt \/ b64_compare x y = Some Eq)).
Proof.
  intros x y. unfold f64_lt, f64_gt, f64_ge.
  destruct (b64_compare x y) as [[| |]|]; repeat split; intros; try discriminate; try reflexivity;
    try (left; reflexivity); try (right; reflexivity); try (destruct H; discriminate).
Qed.

(* the Binary-layer statement with nothing but Flocq's primitives in it *)
Lemma f64_div_vs_half_proof : forall cnt cur : Z,
  (0 <= cnt < 9007199254740992)%Z -> (0 < cur < 9007199254740992)%Z ->
  let x := binary_normalize 53%Z 1024%Z eq_refl eq_refl BinarySingleNaN.mode_NE cnt 0%Z false in
  let y := binary_normalize 53%Z 1024%Z eq_refl eq_refl BinarySingleNaN.mode_NE cur 0%Z false in
  let q := b64_div BinarySingleNaN.mode_NE x y in
  let h := b64_of_bits 0x3FE0000000000000%Z in
  B2R 53%Z 1024%Z x = IZR cnt /\ B2R 53%Z 1024%Z y = IZR cur /\ B2R 53%Z 1024%Z h = (/2)%R
  /\ is_finite 53%Z 1024%Z q = true
  /\ B2R 53%Z 1024%Z q = round radix2 (FLT_exp (-1074)%Z 53%Z) ZnearestE (IZR cnt / IZR cur)
  /\ (b64_compare q h = Some Lt <-> (2 * cnt < cur)%Z)
  /\ (b64_compare q h = Some Gt \/ b64_compare q h = Some Eq <-> (cur <= 2 * cnt)%Z).
Proof.
  intros cnt cur Hc Hd x y q h.
  change x with (f64_of_Z cnt). change y with (f64_of_Z cur).
  change q with (f64_div (f64_of_Z cnt) (f64_of_Z cur)).
  replace h with f64_half by (apply f64_consts_of_bits).
  destruct (f64_of_Z_correct cnt ltac:(lia)) as [Rx _]. destruct (f64_of_Z_correct cur ltac:(lia)) as [Ry _].
  destruct (f64_div_correct cnt cur Hc Hd) as [Rq Fq].
  destruct (f64_cmp_spelled (f64_div (f64_of_Z cnt) (f64_of_Z cur)) f64_half) as (C1 & _ & C3).
  pose proof (f64_div_lt_half_proof cnt cur Hc Hd) as L. pose proof (f64_div_ge_half_proof cnt cur Hc Hd) as G.
  repeat split; try assumption; try exact f64_half_R.
  - intros H. apply C1 in H. rewrite H in L. lia.
  - intros H. apply C1. rewrite L. lia.
  - intros H. apply C3 in H. rewrite H in G. lia.
  - intros H. apply C3. rewrite G. lia.
Qed.
