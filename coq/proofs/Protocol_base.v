(* Protocol_base.v - list / counting lemmas used by the C05 proofs *)
From Coq Require Import Lia ZifyBool ZifyN ZifyNat Permutation Wellfounded.
From Ragc Require Import Protocol.
Arguments N.add : simpl never.
Arguments N.sub : simpl never.
Arguments N.mul : simpl never.
Open Scope nat_scope.

(* ------------------------------------------------------------------------------------------------ upd *)
Lemma upd_length : forall A i (x : A) l, length (upd i x l) = length l.
Proof. intros A i x l; revert i; induction l; destruct i; cbn; auto. Qed.

Lemma upd_same : forall A i (x y : A) l, nth_error l i = Some y -> nth_error (upd i x l) i = Some x.
Proof. intros A i x y l; revert i; induction l; destruct i; cbn; intros; try discriminate; eauto. Qed.

Lemma upd_other : forall A i j (x : A) l, i <> j -> nth_error (upd i x l) j = nth_error l j.
Proof.
  intros A i j x l; revert i j; induction l; destruct i, j; cbn; intros; auto; try congruence.
Qed.

Lemma nth_error_upd : forall A i j (x : A) l y,
  nth_error (upd i x l) j = Some y ->
  (i = j /\ y = x /\ exists z, nth_error l i = Some z) \/ (i <> j /\ nth_error l j = Some y).
Proof.
  intros A i j x l y H. destruct (Nat.eq_dec i j) as [->|ne].
  - left. assert (L : j < length l).
    { rewrite <- (upd_length A j x l). apply nth_error_Some. congruence. }
    destruct (nth_error l j) eqn:E; [| apply nth_error_None in E; lia].
    rewrite (upd_same _ _ _ _ _ E) in H. inversion H; eauto.
  - right. rewrite upd_other in H by auto. auto.
Qed.

Lemma cnt_upd : forall A (f : A -> bool) i x y l,
  nth_error l i = Some y -> cnt f (upd i x l) + b2n (f y) = cnt f l + b2n (f x).
Proof.
  intros A f i x y l; revert i; induction l; destruct i; cbn; intros H; try discriminate.
  - inversion H; subst. lia.
  - specialize (IHl _ H). lia.
Qed.

Lemma cnt_le_length : forall A (f : A -> bool) l, cnt f l <= length l.
Proof. intros A f l; induction l; cbn; [lia | destruct (f a); cbn; lia]. Qed.

Lemma cnt_app : forall A (f : A -> bool) l1 l2, cnt f (l1 ++ l2) = cnt f l1 + cnt f l2.
Proof. induction l1; cbn; intros; [auto | rewrite IHl1; lia]. Qed.

Lemma cnt_repeat : forall A (f : A -> bool) x n, cnt f (repeat x n) = n * b2n (f x).
Proof. induction n; cbn; [auto | rewrite IHn; lia]. Qed.

Lemma cnt_pos_ex : forall A (f : A -> bool) l, 0 < cnt f l -> exists i x, nth_error l i = Some x /\ f x = true.
Proof.
  induction l; cbn; intros H; [lia|].
  destruct (f a) eqn:E.
  - exists 0, a; auto.
  - destruct IHl as (i & x & H1 & H2); [cbn in H; lia|]. exists (S i), x; auto.
Qed.

Lemma cnt_zero_all : forall A (f : A -> bool) l i x, cnt f l = 0 -> nth_error l i = Some x -> f x = false.
Proof.
  induction l; intros i x H E; [destruct i; discriminate|].
  cbn in H. destruct i; cbn in E.
  - inversion E; subst. destruct (f x); cbn in H; auto; lia.
  - eapply IHl; eauto. lia.
Qed.

Lemma cnt_ex_pos : forall A (f : A -> bool) l i x, nth_error l i = Some x -> f x = true -> 0 < cnt f l.
Proof.
  intros. destruct (cnt f l) eqn:E; [|lia].
  rewrite (cnt_zero_all _ _ _ _ _ E H) in H0. discriminate.
Qed.

Lemma cnt_full_all : forall A (f : A -> bool) l i x, cnt f l = length l -> nth_error l i = Some x -> f x = true.
Proof.
  induction l; intros i x H E; [destruct i; discriminate|].
  cbn in H. pose proof (cnt_le_length _ f l).
  destruct i; cbn in E.
  - inversion E; subst. destruct (f x); cbn in H; auto; lia.
  - eapply IHl; eauto. destruct (f a); cbn in H; lia.
Qed.

(* all but one *)
Lemma cnt_others : forall A (f : A -> bool) l i x,
  cnt f l + 1 = length l -> nth_error l i = Some x -> f x = false ->
  forall j y, j <> i -> nth_error l j = Some y -> f y = true.
Proof.
  intros A f l. induction l as [|a r IH]; intros i x H E F j y ne Ey; [destruct i; discriminate|].
  cbn in H. pose proof (cnt_le_length _ f r) as LE.
  destruct i as [|i], j as [|j]; cbn in E, Ey; try congruence.
  - inversion E; subst. rewrite F in H. cbn in H.
    apply (cnt_full_all _ f r j y); [lia | auto].
  - inversion Ey; subst. destruct (f y) eqn:Fy; auto. cbn in H.
    rewrite (cnt_full_all _ f r i x) in F; [discriminate | lia | auto].
  - destruct (f a) eqn:Fa; cbn in H.
    + apply (IH i x ltac:(lia) E F j y); auto.
    + rewrite (cnt_full_all _ f r i x) in F; [discriminate | lia | auto].
Qed.

Lemma cnt_all_true : forall A (f : A -> bool) l,
  (forall i x, nth_error l i = Some x -> f x = true) -> cnt f l = length l.
Proof.
  induction l; intros H; cbn; auto.
  rewrite (H 0 a eq_refl). cbn. f_equal. apply IHl. intros i x E. apply (H (S i) x E).
Qed.

Lemma cnt_all_false : forall A (f : A -> bool) l,
  (forall i x, nth_error l i = Some x -> f x = false) -> cnt f l = 0.
Proof.
  induction l; intros H; cbn; auto.
  rewrite (H 0 a eq_refl). cbn. apply IHl. intros i x E. apply (H (S i) x E).
Qed.

Lemma cnt_ext : forall A (f g : A -> bool) l,
  (forall i x, nth_error l i = Some x -> f x = g x) -> cnt f l = cnt g l.
Proof.
  induction l; intros H; cbn; auto.
  rewrite (H 0 a eq_refl). f_equal. apply IHl. intros i x E. apply (H (S i) x E).
Qed.

Lemma Forall_nth : forall A (P : A -> Prop) l, Forall P l <-> (forall i x, nth_error l i = Some x -> P x).
Proof.
  intros; split.
  - intros H i x E. rewrite Forall_forall in H. apply H. eapply nth_error_In; eauto.
  - intros H. apply Forall_forall. intros x I. apply In_nth_error in I. destruct I as (i & E). eauto.
Qed.

Lemma Forall_upd : forall A (P : A -> Prop) i x l, Forall P l -> P x -> Forall P (upd i x l).
Proof.
  intros A P i x l H Hx. rewrite Forall_nth in *. intros j y E.
  apply nth_error_upd in E. destruct E as [(-> & -> & _)|(_ & E)]; eauto.
Qed.

(* sums *)
Lemma sum_upd : forall A (f : A -> nat) i x y l,
  nth_error l i = Some y -> list_sum (map f (upd i x l)) + f y = list_sum (map f l) + f x.
Proof.
  intros A f i x y l; revert i; unfold list_sum; induction l; destruct i; cbn; intros H; try discriminate.
  - inversion H; subst. lia.
  - specialize (IHl _ H). lia.
Qed.

Lemma sum_le_pointwise : forall A (f g : A -> nat) c l,
  (forall x, f x <= g x + c) -> list_sum (map f l) <= list_sum (map g l) + c * length l.
Proof. intros A f g c l; unfold list_sum; induction l; cbn; intros H; [lia|]. specialize (IHl H). specialize (H a). lia. Qed.

(* -------------------------------------------------------------------------------------------- extract *)
Lemma extract_perm : forall sq l it rest,
  extract sq l = Some (it, rest) -> Permutation l (it :: rest) /\ iseq it = sq /\ In it l.
Proof.
  induction l as [|x r IH]; cbn; intros it rest H; try discriminate.
  destruct (N.eqb_spec (iseq x) sq).
  - inversion H; subst. repeat split; auto.
  - destruct (extract sq r) as [[y r']|] eqn:E; try discriminate.
    inversion H; subst. destruct (IH _ _ eq_refl) as (P & Q & I).
    repeat split; auto. rewrite P. apply perm_swap.
Qed.

Lemma extract_length : forall sq l it rest, extract sq l = Some (it, rest) -> length l = S (length rest).
Proof. intros. apply extract_perm in H. destruct H as (P & _). apply Permutation_length in P. auto. Qed.

Lemma extract_found : forall l it,
  In it l -> NoDup (map iseq l) -> exists rest, extract (iseq it) l = Some (it, rest).
Proof.
  induction l as [|x r IH]; cbn; intros it I ND; [contradiction|].
  inversion ND; subst.
  destruct I as [->|I].
  - rewrite N.eqb_refl. eauto.
  - destruct (N.eqb_spec (iseq x) (iseq it)).
    + exfalso. apply H1. rewrite e. apply in_map. auto.
    + destruct (IH _ I H2) as (rest & E). rewrite E. eauto.
Qed.

(* -------------------------------------------------------------------------------- maximal item exists *)
Lemma task_le_total : forall a b, task_le a b = true \/ task_le b a = true.
Proof. intros. unfold task_le. lia. Qed.
Lemma task_le_trans : forall a b c, task_le a b = true -> task_le b c = true -> task_le a c = true.
Proof. intros a b c. unfold task_le. lia. Qed.
Lemma task_le_refl : forall a, task_le a a = true.
Proof. intros. unfold task_le. lia. Qed.

Lemma find_max_spec : forall l, l <> [] -> exists it, find_max l = Some it /\ In it l /\ is_max it l = true.
Proof.
  induction l as [|x r IH]; intros H; [congruence|]. clear H.
  cbn [find_max]. destruct r as [|y r'].
  - cbn. exists x. repeat split; auto. rewrite task_le_refl. auto.
  - destruct IH as (m & E & I & M); [discriminate|]. rewrite E.
    destruct (task_le (itask x) (itask m)) eqn:L.
    + exists m. repeat split; auto. right; auto.
      unfold is_max in *. cbn [forallb]. rewrite L. auto.
    + exists x. split; [auto|]. split; [left; auto|].
      unfold is_max in *. apply forallb_forall. intros j [<-|J].
      * apply task_le_refl.
      * rewrite forallb_forall in M. specialize (M j J).
        destruct (task_le_total (itask x) (itask m)); [congruence|].
        eapply task_le_trans; eauto.
Qed.

(* --------------------------------------------------------------------------------------- first_waiter *)
Lemma first_waiter_none : forall l i, first_waiter l i = None -> existsb is_waitE l = false.
Proof.
  induction l; cbn; intros i H; auto. destruct (is_waitE a); try discriminate. cbn. eauto.
Qed.
Lemma first_waiter_some : forall l i j, first_waiter l i = Some j ->
  exists w, i <= j /\ nth_error l (j - i) = Some w /\ is_waitE w = true.
Proof.
  induction l; cbn; intros i j H; try discriminate.
  destruct (is_waitE a) eqn:E.
  - inversion H; subst. exists a. rewrite Nat.sub_diag. auto.
  - destruct (IHl _ _ H) as (w & L & Nn & W). exists w. repeat split; auto; try lia.
    replace (j - i) with (S (j - S i)) by lia. auto.
Qed.

Lemma existsb_cnt : forall A (f : A -> bool) l, existsb f l = false <-> cnt f l = 0.
Proof.
  induction l; cbn; [tauto|]. destruct (f a); cbn; [split; [discriminate|lia]|auto].
Qed.
Lemma forallb_cnt : forall A (f : A -> bool) l, forallb f l = true <-> cnt f l = length l.
Proof.
  induction l; cbn; [tauto|]. pose proof (cnt_le_length _ f l). destruct (f a); cbn.
  - rewrite IHl. lia.
  - split; [discriminate|lia].
Qed.

(* ----------------------------------------------------------------------------- lexicographic order wf *)
Lemma mlt_wf : well_founded mlt.
Proof.
  assert (H : forall a b, Acc mlt (a, b)).
  { induction a as [a IHa] using lt_wf_ind. induction b as [b IHb] using lt_wf_ind.
    constructor. intros [a' b'] [L|[E L]]; cbn in *.
    - apply IHa; auto.
    - subst. apply IHb; auto. }
  intros [a b]. apply H.
Qed.

(* ------------------------------------------------------------------------------------------- inflight *)
Lemma inflight_upd_noseg : forall l i x y,
  nth_error l i = Some y ->
  (forall q, pc y <> WSeg q) -> (forall q, pc x <> WSeg q) -> inflight (upd i x l) = inflight l.
Proof.
  induction l; destruct i; cbn; intros x y H Hy Hx; try discriminate.
  - inversion H; subst. unfold inflight. cbn.
    destruct (pc x); try (exfalso; eapply Hx; reflexivity);
    destruct (pc y); try (exfalso; eapply Hy; reflexivity); auto.
  - unfold inflight in *. cbn. f_equal. eapply IHl; eauto.
Qed.

Lemma inflight_upd_enter : forall l i x y q,
  nth_error l i = Some y -> (forall q, pc y <> WSeg q) -> pc x = WSeg q ->
  Permutation (inflight (upd i x l)) (q :: inflight l).
Proof.
  induction l; destruct i; cbn; intros x y q H Hy Hx; try discriminate.
  - inversion H; subst. unfold inflight. cbn. rewrite Hx.
    destruct (pc y); try (exfalso; eapply Hy; reflexivity); cbn; auto.
  - unfold inflight in *. cbn. rewrite (IHl _ _ _ _ H Hy Hx).
    rewrite app_comm_cons. apply Permutation_sym, Permutation_middle.
Qed.

Lemma inflight_upd_leave : forall l i x y q,
  nth_error l i = Some y -> pc y = WSeg q -> (forall q, pc x <> WSeg q) ->
  Permutation (inflight l) (q :: inflight (upd i x l)).
Proof.
  induction l; destruct i; cbn; intros x y q H Hy Hx; try discriminate.
  - inversion H; subst. unfold inflight. cbn. rewrite Hy.
    destruct (pc x); try (exfalso; eapply Hx; reflexivity); cbn; auto.
  - unfold inflight in *. cbn. rewrite (IHl _ _ _ _ H Hy Hx).
    rewrite app_comm_cons. apply Permutation_sym, Permutation_middle.
Qed.

Lemma inflight_nil : forall l, Forall (fun w => pc w = WExited) l -> inflight l = [].
Proof. induction 1; cbn; auto. unfold inflight in *. cbn. rewrite H. auto. Qed.
