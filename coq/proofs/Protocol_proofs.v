(* Protocol_proofs.v - C05: entry point of the proofs (Protocol_base: lists and counters, Protocol_inv: the
   invariant, Protocol_steps: its preservation, Protocol_live: deadlock freedom / measure / final states),
   the witness of the fixed defect (old push rule), and a deterministic scheduler used for the non-vacuity
   examples of props/C05.v. *)
From Coq Require Import Lia ZifyBool ZifyN ZifyNat Permutation.
From Ragc Require Export Protocol Protocol_base Protocol_inv Protocol_steps Protocol_live.
Open Scope nat_scope.

(* ------------------------------------------------------------- the defect fixed by `current_size > 0` *)
Definition pa_old (c : N) : params := mkParams 2 c true.
Definition stuck_state (c : N) (p : Z) (o : N) : state :=
  mkState [] 0%N false 0%N PWaitF (todo_of 2 [Contig (c + 1)%N p o]) [mkW WWaitE 0; mkW WWaitE 0]
          0 0 0 0 [] [] [] [].

Lemma stuck_reachable : forall c p o, reachable (pa_old c) [Contig (c + 1)%N p o] (stuck_state c p o).
Proof.
  intros c p o.
  (* both workers find the queue empty and wait; the producer's push of cap+1 bytes waits although the queue is empty *)
  apply reach_step with
    (s := mkState [] 0%N false 0%N PRun (todo_of 2 [Contig (c + 1)%N p o]) [mkW WWaitE 0; mkW WWaitE 0]
                  0 0 0 0 [] [] [] [])
    (l := LProd None).
  - apply reach_step with
      (s := mkState [] 0%N false 0%N PRun (todo_of 2 [Contig (c + 1)%N p o]) [mkW WWaitE 0; mkW WPull 0]
                    0 0 0 0 [] [] [] [])
      (l := LWork 1 0%N 0).
    + apply reach_step with (s := init (pa_old c) [Contig (c + 1)%N p o]) (l := LWork 0 0%N 0).
      * apply reach_init.
      * reflexivity.
    + reflexivity.
  - cbn [step]. unfold step_prod, step_push, push_blocked. cbn [pst todo closed cur tsize contig cap pa_old old_rule
      todo_of flat_map ops_of_cmd app].
    replace (c <? 0 + (c + 1))%N with true by (symmetry; apply N.ltb_lt; lia). reflexivity.
Qed.

Theorem oversize_refuted_proof : forall c p o,
  reachable (pa_old c) [Contig (c + 1)%N p o] (stuck_state c p o) /\
  ~ final (stuck_state c p o) /\
  forall t, ~ enabled (pa_old c) (stuck_state c p o) t.
Proof.
  intros c p o. split; [apply stuck_reachable|]. split.
  - intros (H & _). discriminate.
  - intros t (l & s' & _ & H & NS). destruct l as [ntf|w sq nb|w|]; cbn in NS; try discriminate.
    destruct w as [|[|w]]; cbn in H; try discriminate. destruct w; cbn in H; discriminate.
Qed.

(* --------------------------------------------------- a deterministic scheduler (for concrete examples) *)
Fixpoint first_enabled (pa : params) (s : state) (ts : list tid) : option label :=
  match ts with
  | [] => None
  | t :: r => if enabledb pa s t then Some (canon_label s t) else first_enabled pa s r
  end.
Fixpoint auto_run (pa : params) (fuel : nat) (s : state) : state :=
  match fuel with
  | O => s
  | S f =>
    match first_enabled pa s (tids s) with
    | Some l => match step pa s l with Some s' => auto_run pa f s' | None => s end
    | None => s
    end
  end.

Lemma auto_run_reachable : forall pa sc fuel s, reachable pa sc s -> reachable pa sc (auto_run pa fuel s).
Proof.
  induction fuel; intros s R; cbn [auto_run]; auto.
  destruct (first_enabled pa s (tids s)) as [l|]; auto.
  destruct (step pa s l) as [s'|] eqn:E; auto.
  apply IHfuel. eapply reach_step; eauto.
Qed.

Lemma finalb_final : forall s, finalb s = true -> final s.
Proof.
  intros s. unfold finalb, final. destruct (pst s); try discriminate.
  rewrite forallb_forall, Forall_forall. intros H. split; auto. intros w I. specialize (H w I).
  unfold is_exited in H. destruct (pc w); try discriminate; auto.
Qed.

(* ------------------------------------------------------ the pinned statements, over reachable states *)
Section Pinned.
Variable pa : params.
Variable script : list cmd.
Hypothesis Hrule : old_rule pa = false.
Hypothesis Hn : 1 <= nthr pa.

Lemma deadlock_free_thm : forall s, reachable pa script s -> ~ final s -> exists t, enabled pa s t.
Proof. intros s R. apply (deadlock_free_proof pa script Hrule Hn). apply inv_reachable_all; auto. Qed.

Lemma measure_decreases_thm : forall s l s',
  reachable pa script s -> step pa s l = Some s' -> stutter s l = false -> mlt (measure s') (measure s).
Proof. intros s l s' R. apply (measure_decreases_proof pa script Hrule Hn). apply inv_reachable_all; auto. Qed.

Lemma terminates_thm :
  well_founded mlt /\
  well_founded (fun s' s => reachable pa script s /\ exists l, progress pa s l s').
Proof. split; [apply mlt_wf | apply (terminates_proof pa script Hrule Hn)]. Qed.

Lemma final_complete_thm : forall s, reachable pa script s -> final s ->
  items s = [] /\ closed s = true /\ todo s = [] /\
  Forall (fun w => pc w = WExited /\ wrounds w = nblocks script) (ws s) /\
  ground s = nblocks script /\
  Permutation (pushed s) (segd s) /\
  length (segd s) = length (contig_sizes script).
Proof. intros s R. eapply final_complete_proof; eauto. apply inv_reachable_all; auto. Qed.
End Pinned.
