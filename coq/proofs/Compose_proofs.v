(* Compose_proofs.v - C01 composition, steps 2 and 3:
     Pipeline.v's abstract [get] / [stored_ok]   :=   SegReader.get_segment over the archive view the group store
     (GroupStore.v, concrete codecs of Compose_codecs.v) leaves behind when it is fed the pieces [create] hands over,
   and the end-to-end theorem: create (Pipeline) ; run ; finalize (GroupStore)  then  get_segment (SegReader) ;
   extract_all (Pipeline) returns the input sample set, under the zstd hypotheses only. *)
From Coq Require Import Lia ZifyBool ZifyN ZifyNat Permutation.
From Ragc Require Import Mach Consts_kmer Consts_segment Consts_pipeline Consts_groupstore.
From Ragc Require Import Kmer Segment Segment_proofs Pipeline Pipeline_proofs.
From Ragc Require Import SegReader GroupStore GroupStore_proofs Compose_codecs.
From Ragc Require GroupStore_rules.
Open Scope N_scope.

(* ---- the two descriptor records (collection.rs SegmentDesc as the catalogue keeps it / as get_segment reads it) *)
Definition rdesc (d : Pipeline.seg_desc) : SegReader.seg_desc :=
  {| SegReader.d_group := Pipeline.d_group d; SegReader.d_id := Pipeline.d_id d;
     SegReader.d_rc := Pipeline.d_rc d; SegReader.d_len := Pipeline.d_len d |}.

(* the reader of the composition: Decompressor::get_segment on the finished archive *)
Definition store_get (zc : N -> list N -> list N) (zd : list N -> option (list N)) (mml level : N) (st : store)
  : Pipeline.seg_desc -> outcome (list N) :=
  fun d => c_get_segment zd mml (c_view zc level st) (rdesc d).

(* ---- how the pipeline's output and the group store's input / output are tied together.
   [stored] is what Pipeline.create hands over: (descriptor registered in the catalogue, bytes of the piece).
   [ops] is ANY schedule of the group store (any assignment of the pieces to rounds, any order within a round,
   any interleaving of groups) and [st] its final state. *)
(* everything pushed to group g is a piece that create registered in group g *)
Definition store_fed_by (stored : list (Pipeline.seg_desc * list N)) (ops : list op) : Prop :=
  forall g s, In s (segs_of ops g) -> exists d, In (d, s_data s) stored /\ Pipeline.d_group d = g.
(* the in_group_id (and flag) registered in the catalogue for a piece is the one the store returned for a
   segment with these bytes: the store has a registration (s, id) in the piece's group *)
Definition addresses_from_store (stored : list (Pipeline.seg_desc * list N)) (st : store) : Prop :=
  forall d b, In (d, b) stored ->
    exists s, In (s, Pipeline.d_id d) (regs_of st (Pipeline.d_group d)) /\ s_data s = b /\ s_rc s = Pipeline.d_rc d.
(* the codec domains, on the pieces: symbols 0..30 everywhere; raw groups: shorter than 2^32; LZ groups:
   min_match_len >= 4, piece non-empty, any two pieces of one group + mml below 2^31 *)
Definition pieces_in_dom (mml : N) (stored : list (Pipeline.seg_desc * list N)) : Prop :=
  forall d b, In (d, b) stored ->
    Forall (fun c => c <= 30) b /\
    (Pipeline.d_group d < 16 -> lenN b < two32) /\
    (16 <= Pipeline.d_group d -> 4 <= mml /\ b <> [] /\
       forall d' b', In (d', b') stored -> Pipeline.d_group d' = Pipeline.d_group d ->
                     lenN b' + lenN b + mml < 2147483648).

Lemma fed_in_dom : forall mml stored ops,
  store_fed_by stored ops -> pieces_in_dom mml stored -> c_ops_ok mml ops.
Proof.
  intros mml stored ops Hfed Hdom g s Hin.
  destruct (Hfed g s Hin) as (d & Hd & Hg). destruct (Hdom d _ Hd) as (Ha & Hraw & Hlz). rewrite Hg in *.
  split; [exact Ha|]. split; [exact Hraw|]. intro H16. destruct (Hlz H16) as (Hm & Hne & Hl).
  split; [exact Hm|]. split; [exact Hne|]. intros s' Hin'.
  destruct (Hfed g s' Hin') as (d' & Hd' & Hg'). exact (Hl d' _ Hd' Hg').
Qed.

(* every descriptor create registers carries `data.len() as u32` of the piece stored under it *)
Section Lens.
  Variables (k : N) (spl : N -> bool) (segsize : N) (dec : nat -> nat -> decision) (addr : nat -> nat -> N * N).

  Lemma reg_of_len i s c pc :
    Pipeline.d_len (r_desc (reg_of addr i s c pc)) = wrap32 (lenN (r_data (reg_of addr i s c pc))).
  Proof. unfold reg_of. destruct (addr i (p_part pc)). reflexivity. Qed.

  Lemma all_regs_len : forall pushes i regs, all_regs k spl segsize dec addr i pushes = Ok regs ->
    forall r, In r regs -> Pipeline.d_len (r_desc r) = wrap32 (lenN (r_data r)).
  Proof.
    induction pushes as [|p pushes IH]; intros i regs E r Hr; cbn [all_regs] in E.
    - inversion E; subst. contradiction.
    - destruct (contig_regs k spl segsize dec addr i p) as [rs0| |] eqn:E0; cbn [obnd] in E; try discriminate.
      destruct (all_regs k spl segsize dec addr (S i) pushes) as [more| |] eqn:E1; cbn [obnd] in E; try discriminate.
      inversion E; subst. apply in_app_or in Hr. destruct Hr as [Hr|Hr]; [|exact (IH _ _ E1 r Hr)].
      destruct p as [[s c] data]. rewrite contig_regs_eq in E0.
      destruct (contig_pieces _ _ _ _ _) as [ps| |]; cbn [obnd] in E0; try discriminate.
      inversion E0; subst. apply in_map_iff in Hr. destruct Hr as (pc & <- & _). apply reg_of_len.
  Qed.
End Lens.

Lemma create_stored_len : forall ecn k spl segsize dec addr sched pushes coll stored,
  create ecn k spl segsize dec addr sched pushes = Ok (coll, stored) ->
  forall d b, In (d, b) stored -> Pipeline.d_len d = wrap32 (lenN b).
Proof.
  intros ecn k spl segsize dec addr sched pushes coll stored Hc d b Hin. unfold create in Hc.
  destruct (register_all ecn [] pushes) as [coll0| |]; cbn [obnd] in Hc; try discriminate.
  destruct (all_regs k spl segsize dec addr 0 pushes) as [regs| |] eqn:Ea; cbn [obnd] in Hc; try discriminate.
  inversion Hc; subst coll stored; clear Hc.
  apply in_map_iff in Hin. destruct Hin as (r & Er & Hr). inversion Er; subst.
  exact (all_regs_len k spl segsize dec addr _ _ _ Ea r Hr).
Qed.

(* ---- step 2: Pipeline's interface hypothesis holds for the concrete store *)
Theorem stored_ok_from_groupstore_proof :
  forall zc zd, zstd_ok zc zd ->
  forall mml level stored ops st,
  (forall d b, In (d, b) stored -> Pipeline.d_len d = wrap32 (lenN b)) ->
  pieces_in_dom mml stored ->
  store_fed_by stored ops ->
  c_run zc mml level ops = Ok st ->
  addresses_from_store stored st ->
  stored_ok (store_get zc zd mml level st) stored.
Proof.
  intros zc zd Hz mml level stored ops st Hlen Hdom Hfed Hrun Haddr d b Hin.
  destruct (Haddr d b Hin) as (s & Hreg & Hdata & Hrc).
  pose proof (store_then_get_concrete_proof zc zd mml level Hz ops st (Pipeline.d_group d) s (Pipeline.d_id d)
                (fed_in_dom mml stored ops Hfed Hdom) Hrun Hreg) as [Hget Hl].
  assert (Ed : desc_of (Pipeline.d_group d) s (Pipeline.d_id d) = rdesc d).
  { unfold desc_of, rdesc. rewrite Hrc, Hdata, (Hlen d b Hin). reflexivity. }
  rewrite Ed in Hget, Hl. unfold store_get. rewrite Hget, Hdata. split; [reflexivity|].
  rewrite <- Hdata. exact Hl.
Qed.

(* ---- step 3: end to end *)
Theorem end_to_end_roundtrip_proof :
  forall zc zd, zstd_ok zc zd ->
  forall ecn k spl segsize dec addr sched mml level
         (samples : list (name * list (name * list N))) coll stored ops st,
  1 <= k <= 32 ->
  inputs_ok samples ->
  decisions_ok k spl segsize dec (pushes_of samples) ->
  (forall l, Permutation l (sched l)) ->
  create ecn k spl segsize dec addr sched (pushes_of samples) = Ok (coll, stored) ->
  pieces_in_dom mml stored ->
  store_fed_by stored ops ->
  c_run zc mml level ops = Ok st ->
  addresses_from_store stored st ->
  contig_names_ok samples /\ extract_all (store_get zc zd mml level st) k coll = Ok samples.
Proof.
  intros zc zd Hz ecn k spl segsize dec addr sched mml level samples coll stored ops st
         Hk Hin Hdec Hsched Hc Hdom Hfed Hrun Haddr.
  apply (create_extract_roundtrip_proof ecn (store_get zc zd mml level st) k spl segsize dec addr sched
           samples coll stored Hk Hin Hdec Hsched Hc).
  apply (stored_ok_from_groupstore_proof zc zd Hz mml level stored ops st); try assumption.
  exact (create_stored_len _ _ _ _ _ _ _ _ _ _ Hc).
Qed.

(* =====================================================================================================
   The addresses are not free: the in_group_id of a piece IS what the group store returned for it.
   Below, [addr] is computed from the store ([store_addr]) and the two relational hypotheses above are
   PROVED for every group assignment [grp] (the oracle's choice of a group per piece) and every schedule [ops]
   that carries the emitted pieces ([ops_carry]: per group, what is pushed is a permutation of the pieces
   assigned to it - any split into rounds, any order). *)
Definition seg_of_piece (s c : name) (pc : piece) : seg_in :=
  {| s_sample := s; s_contig := c; s_part := N.of_nat (p_part pc); s_data := p_data pc; s_rc := p_rc pc |}.

Definition seg_eqb (a b : seg_in) : bool :=
  list_eqb N.eqb (s_sample a) (s_sample b) && list_eqb N.eqb (s_contig a) (s_contig b) &&
  (s_part a =? s_part b) && list_eqb N.eqb (s_data a) (s_data b) && Bool.eqb (s_rc a) (s_rc b).

Lemma seg_eqb_eq a b : seg_eqb a b = true <-> a = b.
Proof.
  unfold seg_eqb. split.
  - intro H. apply andb_true_iff in H. destruct H as [H H5]. apply andb_true_iff in H. destruct H as [H H4].
    apply andb_true_iff in H. destruct H as [H H3]. apply andb_true_iff in H. destruct H as [H1 H2].
    apply GroupStore_base.list_eqb_N_spec in H1, H2, H4. apply N.eqb_eq in H3. apply Bool.eqb_prop in H5.
    destruct a, b; cbn in *; subst; reflexivity.
  - intros <-. rewrite !(proj2 (GroupStore_base.list_eqb_N_spec _ _) eq_refl), N.eqb_refl, Bool.eqb_reflx. reflexivity.
Qed.

Section FromStore.
  Variables (k : N) (spl : N -> bool) (segsize : N) (dec : nat -> nat -> decision).
  Variable grp : nat -> nat -> N.              (* contig number, seg_part_no -> group id *)

  Definition pieces_of (i : nat) (data : list N) : outcome (list piece) :=
    contig_pieces (N.to_nat k) (split_at_splitters_with_size data spl k segsize) (dec i) 0 0.

  (* what the pipeline emits towards the group store: (group, BufferedSegment) *)
  Definition contig_emit (i : nat) (p : push) : list (N * seg_in) :=
    let '(s, c, data) := p in
    match pieces_of i data with
    | Ok ps => map (fun pc => (grp i (p_part pc), seg_of_piece s c pc)) ps
    | _ => []
    end.
  Fixpoint all_emit (i : nat) (pushes : list push) : list (N * seg_in) :=
    match pushes with [] => [] | p :: rest => contig_emit i p ++ all_emit (S i) rest end.

  Definition ops_carry (emitted : list (N * seg_in)) (ops : list op) : Prop :=
    forall g, Permutation (segs_of ops g) (map snd (filter (fun x => fst x =? g) emitted)).

  (* the address of piece (i, part): its group and the in_group_id the store registered for that segment *)
  Definition store_addr (pushes : list push) (st : store) (i part : nat) : N * N :=
    (grp i part,
     match nth_error pushes i with
     | Some (s, c, data) =>
         match pieces_of i data with
         | Ok ps =>
             match find (fun pc => Nat.eqb (p_part pc) part) ps with
             | Some pc =>
                 match find (fun x => seg_eqb (fst x) (seg_of_piece s c pc)) (regs_of st (grp i part)) with
                 | Some x => snd x
                 | None => 0
                 end
             | None => 0
             end
         | _ => 0
         end
     | None => 0
     end).

  (* piece [pc] belongs to contig number [i] (names s, c) of [pushes], numbered from [i0] *)
  Definition piece_at (i0 : nat) (pushes : list push) (i : nat) (s c : name) (pc : piece) : Prop :=
    exists data ps, (i0 <= i)%nat /\ nth_error pushes (i - i0) = Some (s, c, data) /\
                    pieces_of i data = Ok ps /\ In pc ps.

  Lemma piece_at_here i0 p rest s c data ps pc : p = (s, c, data) -> pieces_of i0 data = Ok ps -> In pc ps ->
    piece_at i0 (p :: rest) i0 s c pc.
  Proof. intros -> E H. exists data, ps. rewrite Nat.sub_diag. repeat split; auto. Qed.

  Lemma piece_at_later i0 p rest i s c pc : piece_at (S i0) rest i s c pc -> piece_at i0 (p :: rest) i s c pc.
  Proof.
    intros (data & ps & Hi & Hn & E & H). exists data, ps. split; [lia|]. split; [|auto].
    replace (i - i0)%nat with (S (i - S i0)) by lia. exact Hn.
  Qed.

  Lemma piece_at_inv i0 p rest i s c pc : piece_at i0 (p :: rest) i s c pc ->
    (i = i0 /\ exists data ps, p = (s, c, data) /\ pieces_of i0 data = Ok ps /\ In pc ps) \/
    piece_at (S i0) rest i s c pc.
  Proof.
    intros (data & ps & Hi & Hn & E & H). destruct (Nat.eq_dec i i0) as [->|Hne].
    - left. split; [reflexivity|]. rewrite Nat.sub_diag in Hn. inversion Hn; subst. exists data, ps. auto.
    - right. exists data, ps. split; [lia|]. split; [|auto].
      replace (i - i0)%nat with (S (i - S i0)) in Hn by lia. exact Hn.
  Qed.

  Lemma all_emit_in : forall pushes i0 x,
    In x (all_emit i0 pushes) <->
    exists i s c pc, piece_at i0 pushes i s c pc /\ x = (grp i (p_part pc), seg_of_piece s c pc).
  Proof.
    induction pushes as [|p rest IH]; intros i0 x; cbn [all_emit].
    - split; [contradiction|]. intros (i & s & c & pc & (data & ps & _ & Hn & _) & _).
      destruct (i - i0)%nat; discriminate.
    - rewrite in_app_iff, IH. split.
      + intros [H|(i & s & c & pc & Hp & E)].
        * destruct p as [[s c] data]. unfold contig_emit in H.
          destruct (pieces_of i0 data) as [ps| |] eqn:Ep; try contradiction.
          apply in_map_iff in H. destruct H as (pc & <- & Hpc).
          exists i0, s, c, pc. split; [|reflexivity]. eapply piece_at_here; eauto.
        * exists i, s, c, pc. split; [apply piece_at_later; exact Hp|exact E].
      + intros (i & s & c & pc & Hp & E). apply piece_at_inv in Hp.
        destruct Hp as [(-> & data & ps & -> & Ep & Hpc)|Hp].
        * left. unfold contig_emit. rewrite Ep. subst x. apply in_map_iff. exists pc. auto.
        * right. exists i, s, c, pc. auto.
  Qed.

  Lemma all_regs_in addr : forall pushes i0 regs, all_regs k spl segsize dec addr i0 pushes = Ok regs ->
    forall r, In r regs <-> exists i s c pc, piece_at i0 pushes i s c pc /\ r = reg_of addr i s c pc.
  Proof.
    induction pushes as [|p rest IH]; intros i0 regs E r; cbn [all_regs] in E.
    - inversion E; subst. split; [contradiction|]. intros (i & s & c & pc & (data & ps & _ & Hn & _) & _).
      destruct (i - i0)%nat; discriminate.
    - destruct (contig_regs k spl segsize dec addr i0 p) as [rs0| |] eqn:E0; cbn [obnd] in E; try discriminate.
      destruct (all_regs k spl segsize dec addr (S i0) rest) as [more| |] eqn:E1; cbn [obnd] in E; try discriminate.
      inversion E; subst regs; clear E. rewrite in_app_iff, (IH _ _ E1).
      destruct p as [[s0 c0] data0]. rewrite contig_regs_eq in E0.
      change (contig_pieces (N.to_nat k) (split_gen true data0 spl k) (dec i0) 0 0) with (pieces_of i0 data0) in E0.
      destruct (pieces_of i0 data0) as [ps0| |] eqn:Ep; cbn [obnd] in E0; try discriminate.
      inversion E0; subst rs0; clear E0. split.
      + intros [H|(i & s & c & pc & Hp & Er)].
        * apply in_map_iff in H. destruct H as (pc & <- & Hpc). exists i0, s0, c0, pc. split; [|reflexivity].
          eapply piece_at_here; eauto.
        * exists i, s, c, pc. split; [apply piece_at_later; exact Hp|exact Er].
      + intros (i & s & c & pc & Hp & Er). apply piece_at_inv in Hp.
        destruct Hp as [(-> & data & ps & Epush & Ep' & Hpc)|Hp].
        * left. inversion Epush; subst. rewrite Ep in Ep'. inversion Ep'; subst. apply in_map. exact Hpc.
        * right. exists i, s, c, pc. auto.
  Qed.

  Lemma find_by_key {A} (f : A -> nat) : forall (l : list A) x, NoDup (map f l) -> In x l ->
    find (fun y => Nat.eqb (f y) (f x)) l = Some x.
  Proof.
    induction l as [|y l IH]; intros x ND Hx; [contradiction|]. cbn [map] in ND. inversion ND as [|? ? Hn ND']; subst.
    cbn [find]. destruct Hx as [->|Hx]; [rewrite Nat.eqb_refl; reflexivity|].
    destruct (Nat.eqb_spec (f y) (f x)) as [E|_]; [|apply IH; assumption].
    exfalso. apply Hn. rewrite E. apply in_map. exact Hx.
  Qed.

  Lemma find_seg (regs : list (seg_in * N)) sg : In sg (map fst regs) ->
    exists id, find (fun x => seg_eqb (fst x) sg) regs = Some (sg, id) /\ In (sg, id) regs.
  Proof.
    intro H. apply in_map_iff in H. destruct H as ([sg' id'] & E & Hin). cbn [fst] in E. subst sg'.
    destruct (find (fun x => seg_eqb (fst x) sg) regs) as [[sg2 id2]|] eqn:F.
    - apply find_some in F. destruct F as [Hin2 E2]. cbn [fst] in E2. apply seg_eqb_eq in E2. subst sg2.
      exists id2. auto.
    - exfalso. pose proof (find_none _ _ F _ Hin) as E2. cbn [fst] in E2.
      rewrite (proj2 (seg_eqb_eq sg sg) eq_refl) in E2. discriminate.
  Qed.

  Lemma pieces_parts_nodup i data ps : 1 <= k ->
    (forall j sg, nth_error (split_at_splitters_with_size data spl k segsize) j = Some sg ->
                  decision_okb (N.to_nat k) sg (dec i j) = true) ->
    pieces_of i data = Ok ps -> NoDup (map p_part ps).
  Proof.
    intros Hk Hd E. unfold pieces_of in E.
    assert (P : Permutation (map p_part ps) (seq 0 (length ps))).
    { apply (part_numbers_dense_proof (N.to_nat k) (split_at_splitters_with_size data spl k segsize)
               (dec i) 0%nat ps); [lia| |exact E].
      intros j sg Hj. rewrite Nat.add_0_l. exact (Hd j sg Hj). }
    apply (Permutation_NoDup (Permutation_sym P)). apply seq_NoDup.
  Qed.

  (* ---- the relational hypotheses hold for the store's own addresses *)
  Theorem store_addr_consistent_proof :
    forall lz_enc compress_ref compress_pack pushes ops st regs,
    1 <= k ->
    decisions_ok k spl segsize dec pushes ->
    ops_carry (all_emit 0 pushes) ops ->
    run lz_enc compress_ref compress_pack ops = Ok st ->
    all_regs k spl segsize dec (store_addr pushes st) 0 pushes = Ok regs ->
    store_fed_by (map (fun r => (r_desc r, r_data r)) regs) ops /\
    addresses_from_store (map (fun r => (r_desc r, r_data r)) regs) st.
  Proof.
    intros lz_enc compress_ref compress_pack pushes ops st regs Hk Hdec Hcarry Hrun Hregs.
    pose proof (all_regs_in (store_addr pushes st) pushes 0%nat regs Hregs) as Hin.
    split.
    - intros g sg Hs. apply (Permutation_in _ (Hcarry g)) in Hs. apply in_map_iff in Hs.
      destruct Hs as ([g' sg'] & E & Hf). cbn [snd] in E. subst sg'. apply filter_In in Hf.
      destruct Hf as [Hem Hg]. cbn [fst] in Hg. apply N.eqb_eq in Hg. subst g'.
      apply all_emit_in in Hem. destruct Hem as (i & s & c & pc & Hp & E). inversion E; subst g sg; clear E.
      exists (r_desc (reg_of (store_addr pushes st) i s c pc)). split.
      + apply in_map_iff. exists (reg_of (store_addr pushes st) i s c pc). split.
        * f_equal. apply (reg_of_fields (store_addr pushes st) i s c pc).
        * apply Hin. exists i, s, c, pc. auto.
      + unfold reg_of, store_addr. reflexivity.
    - intros d b Hdb. apply in_map_iff in Hdb. destruct Hdb as (r & E & Hr). inversion E; subst d b; clear E.
      apply Hin in Hr. destruct Hr as (i & s & c & pc & Hp & ->).
      pose proof Hp as (data & ps & _ & Hn & Ep & Hpc). rewrite Nat.sub_0_r in Hn.
      assert (ND : NoDup (map p_part ps)).
      { apply (pieces_parts_nodup i data ps Hk); [|exact Ep]. intros j sg Hj. exact (Hdec i s c data j sg Hn Hj). }
      set (sg := seg_of_piece s c pc). set (g := grp i (p_part pc)).
      assert (Hsg : In sg (map fst (regs_of st g))).
      { apply (Permutation_in _ (Permutation_sym (GroupStore_rules.every_segment_registered_proof _ _ _ ops st g Hrun))).
        apply (Permutation_in _ (Permutation_sym (Hcarry g))). apply in_map_iff. exists (g, sg). split; [reflexivity|].
        apply filter_In. split; [|apply N.eqb_refl]. apply all_emit_in. exists i, s, c, pc. auto. }
      destruct (find_seg _ _ Hsg) as (id & Hfind & Hid).
      exists sg. unfold reg_of, store_addr. rewrite Hn, Ep, (find_by_key p_part ps pc ND Hpc).
      fold sg g. rewrite Hfind. cbn. auto.
  Qed.
End FromStore.

(* ---- end to end with the store's addresses: no relational hypothesis left *)
Theorem end_to_end_store_addr_proof :
  forall zc zd, zstd_ok zc zd ->
  forall ecn k spl segsize dec grp sched mml level
         (samples : list (name * list (name * list N))) ops st coll stored,
  1 <= k <= 32 ->
  inputs_ok samples ->
  decisions_ok k spl segsize dec (pushes_of samples) ->
  (forall l, Permutation l (sched l)) ->
  ops_carry (all_emit k spl segsize dec grp 0 (pushes_of samples)) ops ->
  c_run zc mml level ops = Ok st ->
  create ecn k spl segsize dec (store_addr k spl segsize dec grp (pushes_of samples) st) sched (pushes_of samples)
    = Ok (coll, stored) ->
  pieces_in_dom mml stored ->
  contig_names_ok samples /\ extract_all (store_get zc zd mml level st) k coll = Ok samples.
Proof.
  intros zc zd Hz ecn k spl segsize dec grp sched mml level samples ops st coll stored
         Hk Hin Hdec Hsched Hcarry Hrun Hc Hdom.
  assert (Hrel : store_fed_by stored ops /\ addresses_from_store stored st).
  { pose proof Hc as Hc'. unfold create in Hc'.
    destruct (register_all ecn [] (pushes_of samples)) as [coll0| |]; cbn [obnd] in Hc'; try discriminate.
    destruct (all_regs k spl segsize dec _ 0 (pushes_of samples)) as [regs| |] eqn:Ea; cbn [obnd] in Hc'; try discriminate.
    inversion Hc'; subst coll stored; clear Hc'.
    apply (store_addr_consistent_proof k spl segsize dec grp _ _ _ (pushes_of samples) ops st regs
             ltac:(lia) Hdec Hcarry Hrun Ea). }
  destruct Hrel as [Hfed Haddr].
  exact (end_to_end_roundtrip_proof zc zd Hz ecn k spl segsize dec _ sched mml level samples coll stored ops st
           Hk Hin Hdec Hsched Hc Hdom Hfed Hrun Haddr).
Qed.
