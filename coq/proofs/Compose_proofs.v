(* Compose_proofs.v - C01 composition, steps 2 and 3:
     Pipeline.v's abstract [get] / [stored_ok]   :=   SegReader.get_segment over the archive view the group store
     (GroupStore.v, concrete codecs of Compose_codecs.v) leaves behind when it is fed the pieces [create] hands over,
   and the end-to-end theorem: create (Pipeline) ; run ; finalize (GroupStore)  then  get_segment (SegReader) ;
   extract_all (Pipeline) returns the input sample set, under the zstd hypotheses only. *)
From Coq Require Import Lia ZifyBool ZifyN ZifyNat Permutation.
From Ragc Require Import Mach Consts_kmer Consts_segment Consts_pipeline Consts_groupstore.
From Ragc Require Import Kmer Segment Segment_proofs Pipeline Pipeline_proofs.
From Ragc Require Import SegReader GroupStore GroupStore_proofs Compose_codecs.
From Ragc Require GroupStore_rules.
From Ragc Require Details Collection Collection_proofs.
Open Scope N_scope.

(* ---- the two descriptor records (collection.rs SegmentDesc as the catalogue keeps it / as get_segment reads it) *)
Definition rdesc (d : Pipeline.seg_desc) : SegReader.seg_desc :=
  {| SegReader.d_group := Pipeline.d_group d; SegReader.d_id := Pipeline.d_id d;
     SegReader.d_rc := Pipeline.d_rc d; SegReader.d_len := Pipeline.d_len d |}.

(* the reader of the composition: Decompressor::get_segment on the finished archive *)
Definition store_get (zc : N -> list N -> list N) (zd : list N -> option (list N)) (mml level : N) (st : store)
  : Pipeline.seg_desc -> outcome (list N) :=
  fun d => c_get_segment zd mml (c_view zc level st) (rdesc d).

(* ---- how the pipeline's output and the group store's input / output are tied together.
   [stored] is what Pipeline.create hands over: (descriptor registered in the catalogue, bytes of the piece).
   [ops] is ANY schedule of the group store (any assignment of the pieces to rounds, any order within a round,
   any interleaving of groups) and [st] its final state. *)
(* everything pushed to group g is a piece that create registered in group g *)
Definition store_fed_by (stored : list (Pipeline.seg_desc * list N)) (ops : list op) : Prop :=
  forall g s, In s (segs_of ops g) -> exists d, In (d, s_data s) stored /\ Pipeline.d_group d = g.
(* the in_group_id (and flag) registered in the catalogue for a piece is the one the store returned for a
   segment with these bytes: the store has a registration (s, id) in the piece's group *)
Definition addresses_from_store (stored : list (Pipeline.seg_desc * list N)) (st : store) : Prop :=
  forall d b, In (d, b) stored ->
    exists s, In (s, Pipeline.d_id d) (regs_of st (Pipeline.d_group d)) /\ s_data s = b /\ s_rc s = Pipeline.d_rc d.
(* the codec domains, on the pieces: symbols 0..30 everywhere; raw groups: shorter than 2^32; LZ groups:
   min_match_len >= 4, piece non-empty, any two pieces of one group + mml below 2^31 *)
Definition pieces_in_dom (mml : N) (stored : list (Pipeline.seg_desc * list N)) : Prop :=
  forall d b, In (d, b) stored ->
    Forall (fun c => c <= 30) b /\
    (Pipeline.d_group d < 16 -> lenN b < two32) /\
    (16 <= Pipeline.d_group d -> 4 <= mml /\ b <> [] /\
       forall d' b', In (d', b') stored -> Pipeline.d_group d' = Pipeline.d_group d ->
                     lenN b' + lenN b + mml < 2147483648).

Lemma fed_in_dom : forall mml stored ops,
  store_fed_by stored ops -> pieces_in_dom mml stored -> c_ops_ok mml ops.
Proof.
  intros mml stored ops Hfed Hdom g s Hin.
  destruct (Hfed g s Hin) as (d & Hd & Hg). destruct (Hdom d _ Hd) as (Ha & Hraw & Hlz). rewrite Hg in *.
  split; [exact Ha|]. split; [exact Hraw|]. intro H16. destruct (Hlz H16) as (Hm & Hne & Hl).
  split; [exact Hm|]. split; [exact Hne|]. intros s' Hin'.
  destruct (Hfed g s' Hin') as (d' & Hd' & Hg'). exact (Hl d' _ Hd' Hg').
Qed.

(* every descriptor create registers carries `data.len() as u32` of the piece stored under it *)
Section Lens.
  Variables (k : N) (spl : N -> bool) (segsize : N) (dec : nat -> nat -> decision) (addr : nat -> nat -> N * N).

  Lemma reg_of_len i s c pc :
    Pipeline.d_len (r_desc (reg_of addr i s c pc)) = wrap32 (lenN (r_data (reg_of addr i s c pc))).
  Proof. unfold reg_of. destruct (addr i (p_part pc)). reflexivity. Qed.

  Lemma all_regs_len : forall pushes i regs, all_regs k spl segsize dec addr i pushes = Ok regs ->
    forall r, In r regs -> Pipeline.d_len (r_desc r) = wrap32 (lenN (r_data r)).
  Proof.
    induction pushes as [|p pushes IH]; intros i regs E r Hr; cbn [all_regs] in E.
    - inversion E; subst. contradiction.
    - destruct (contig_regs k spl segsize dec addr i p) as [rs0| |] eqn:E0; cbn [obnd] in E; try discriminate.
      destruct (all_regs k spl segsize dec addr (S i) pushes) as [more| |] eqn:E1; cbn [obnd] in E; try discriminate.
      inversion E; subst. apply in_app_or in Hr. destruct Hr as [Hr|Hr]; [|exact (IH _ _ E1 r Hr)].
      destruct p as [[s c] data]. rewrite contig_regs_eq in E0.
      destruct (contig_pieces _ _ _ _ _) as [ps| |]; cbn [obnd] in E0; try discriminate.
      inversion E0; subst. apply in_map_iff in Hr. destruct Hr as (pc & <- & _). apply reg_of_len.
  Qed.
End Lens.

Lemma create_stored_len : forall ecn k spl segsize dec addr sched pushes coll stored,
  create ecn k spl segsize dec addr sched pushes = Ok (coll, stored) ->
  forall d b, In (d, b) stored -> Pipeline.d_len d = wrap32 (lenN b).
Proof.
  intros ecn k spl segsize dec addr sched pushes coll stored Hc d b Hin. unfold create in Hc.
  destruct (register_all ecn [] pushes) as [coll0| |]; cbn [obnd] in Hc; try discriminate.
  destruct (all_regs k spl segsize dec addr 0 pushes) as [regs| |] eqn:Ea; cbn [obnd] in Hc; try discriminate.
  inversion Hc; subst coll stored; clear Hc.
  apply in_map_iff in Hin. destruct Hin as (r & Er & Hr). inversion Er; subst.
  exact (all_regs_len k spl segsize dec addr _ _ _ Ea r Hr).
Qed.

(* ---- step 2: Pipeline's interface hypothesis holds for the concrete store *)
Theorem stored_ok_from_groupstore_proof :
  forall zc zd, zstd_ok zc zd ->
  forall mml level stored ops st,
  (forall d b, In (d, b) stored -> Pipeline.d_len d = wrap32 (lenN b)) ->
  pieces_in_dom mml stored ->
  store_fed_by stored ops ->
  c_run zc mml level ops = Ok st ->
  addresses_from_store stored st ->
  stored_ok (store_get zc zd mml level st) stored.
Proof.
  intros zc zd Hz mml level stored ops st Hlen Hdom Hfed Hrun Haddr d b Hin.
  destruct (Haddr d b Hin) as (s & Hreg & Hdata & Hrc).
  pose proof (store_then_get_concrete_proof zc zd mml level Hz ops st (Pipeline.d_group d) s (Pipeline.d_id d)
                (fed_in_dom mml stored ops Hfed Hdom) Hrun Hreg) as [Hget Hl].
  assert (Ed : desc_of (Pipeline.d_group d) s (Pipeline.d_id d) = rdesc d).
  { unfold desc_of, rdesc. rewrite Hrc, Hdata, (Hlen d b Hin). reflexivity. }
  rewrite Ed in Hget, Hl. unfold store_get. rewrite Hget, Hdata. split; [reflexivity|].
  rewrite <- Hdata. exact Hl.
Qed.

(* ---- step 3: end to end *)
Theorem end_to_end_roundtrip_proof :
  forall zc zd, zstd_ok zc zd ->
  forall ecn k spl segsize dec addr sched mml level
         (samples : list (name * list (name * list N))) coll stored ops st,
  1 <= k <= 32 ->
  inputs_ok samples ->
  decisions_ok k spl segsize dec (pushes_of samples) ->
  (forall l, Permutation l (sched l)) ->
  create ecn k spl segsize dec addr sched (pushes_of samples) = Ok (coll, stored) ->
  pieces_in_dom mml stored ->
  store_fed_by stored ops ->
  c_run zc mml level ops = Ok st ->
  addresses_from_store stored st ->
  contig_names_ok samples /\ extract_all (store_get zc zd mml level st) k coll = Ok samples.
Proof.
  intros zc zd Hz ecn k spl segsize dec addr sched mml level samples coll stored ops st
         Hk Hin Hdec Hsched Hc Hdom Hfed Hrun Haddr.
  apply (create_extract_roundtrip_proof ecn (store_get zc zd mml level st) k spl segsize dec addr sched
           samples coll stored Hk Hin Hdec Hsched Hc).
  apply (stored_ok_from_groupstore_proof zc zd Hz mml level stored ops st); try assumption.
  exact (create_stored_len _ _ _ _ _ _ _ _ _ _ Hc).
Qed.

(* =====================================================================================================
   The addresses are not free: the in_group_id of a piece IS what the group store returned for it.
   Below, [addr] is computed from the store ([store_addr]) and the two relational hypotheses above are
   PROVED for every group assignment [grp] (the oracle's choice of a group per piece) and every schedule [ops]
   that carries the emitted pieces ([ops_carry]: per group, what is pushed is a permutation of the pieces
   assigned to it - any split into rounds, any order). *)
Definition seg_of_piece (s c : name) (pc : piece) : seg_in :=
  {| s_sample := s; s_contig := c; s_part := N.of_nat (p_part pc); s_data := p_data pc; s_rc := p_rc pc |}.

Definition seg_eqb (a b : seg_in) : bool :=
  list_eqb N.eqb (s_sample a) (s_sample b) && list_eqb N.eqb (s_contig a) (s_contig b) &&
  (s_part a =? s_part b) && list_eqb N.eqb (s_data a) (s_data b) && Bool.eqb (s_rc a) (s_rc b).

Lemma seg_eqb_eq a b : seg_eqb a b = true <-> a = b.
Proof.
  unfold seg_eqb. split.
  - intro H. apply andb_true_iff in H. destruct H as [H H5]. apply andb_true_iff in H. destruct H as [H H4].
    apply andb_true_iff in H. destruct H as [H H3]. apply andb_true_iff in H. destruct H as [H1 H2].
    apply GroupStore_base.list_eqb_N_spec in H1, H2, H4. apply N.eqb_eq in H3. apply Bool.eqb_prop in H5.
    destruct a, b; cbn in *; subst; reflexivity.
  - intros <-. rewrite !(proj2 (GroupStore_base.list_eqb_N_spec _ _) eq_refl), N.eqb_refl, Bool.eqb_reflx. reflexivity.
Qed.

Section FromStore.
  Variables (k : N) (spl : N -> bool) (segsize : N) (dec : nat -> nat -> decision).
  Variable grp : nat -> nat -> N.              (* contig number, seg_part_no -> group id *)

  Definition pieces_of (i : nat) (data : list N) : outcome (list piece) :=
    contig_pieces (N.to_nat k) (split_at_splitters_with_size data spl k segsize) (dec i) 0 0.

  (* what the pipeline emits towards the group store: (group, BufferedSegment) *)
  Definition contig_emit (i : nat) (p : push) : list (N * seg_in) :=
    let '(s, c, data) := p in
    match pieces_of i data with
    | Ok ps => map (fun pc => (grp i (p_part pc), seg_of_piece s c pc)) ps
    | _ => []
    end.
  Fixpoint all_emit (i : nat) (pushes : list push) : list (N * seg_in) :=
    match pushes with [] => [] | p :: rest => contig_emit i p ++ all_emit (S i) rest end.

  Definition ops_carry (emitted : list (N * seg_in)) (ops : list op) : Prop :=
    forall g, Permutation (segs_of ops g) (map snd (filter (fun x => fst x =? g) emitted)).

  (* the address of piece (i, part): its group and the in_group_id the store registered for that segment *)
  Definition store_addr (pushes : list push) (st : store) (i part : nat) : N * N :=
    (grp i part,
     match nth_error pushes i with
     | Some (s, c, data) =>
         match pieces_of i data with
         | Ok ps =>
             match find (fun pc => Nat.eqb (p_part pc) part) ps with
             | Some pc =>
                 match find (fun x => seg_eqb (fst x) (seg_of_piece s c pc)) (regs_of st (grp i part)) with
                 | Some x => snd x
                 | None => 0
                 end
             | None => 0
             end
         | _ => 0
         end
     | None => 0
     end).

  (* piece [pc] belongs to contig number [i] (names s, c) of [pushes], numbered from [i0] *)
  Definition piece_at (i0 : nat) (pushes : list push) (i : nat) (s c : name) (pc : piece) : Prop :=
    exists data ps, (i0 <= i)%nat /\ nth_error pushes (i - i0) = Some (s, c, data) /\
                    pieces_of i data = Ok ps /\ In pc ps.

  Lemma piece_at_here i0 p rest s c data ps pc : p = (s, c, data) -> pieces_of i0 data = Ok ps -> In pc ps ->
    piece_at i0 (p :: rest) i0 s c pc.
  Proof. intros -> E H. exists data, ps. rewrite Nat.sub_diag. repeat split; auto. Qed.

  Lemma piece_at_later i0 p rest i s c pc : piece_at (S i0) rest i s c pc -> piece_at i0 (p :: rest) i s c pc.
  Proof.
    intros (data & ps & Hi & Hn & E & H). exists data, ps. split; [lia|]. split; [|auto].
    replace (i - i0)%nat with (S (i - S i0)) by lia. exact Hn.
  Qed.

  Lemma piece_at_inv i0 p rest i s c pc : piece_at i0 (p :: rest) i s c pc ->
    (i = i0 /\ exists data ps, p = (s, c, data) /\ pieces_of i0 data = Ok ps /\ In pc ps) \/
    piece_at (S i0) rest i s c pc.
  Proof.
    intros (data & ps & Hi & Hn & E & H). destruct (Nat.eq_dec i i0) as [->|Hne].
    - left. split; [reflexivity|]. rewrite Nat.sub_diag in Hn. inversion Hn; subst. exists data, ps. auto.
    - right. exists data, ps. split; [lia|]. split; [|auto].
      replace (i - i0)%nat with (S (i - S i0)) in Hn by lia. exact Hn.
  Qed.

  Lemma all_emit_in : forall pushes i0 x,
    In x (all_emit i0 pushes) <->
    exists i s c pc, piece_at i0 pushes i s c pc /\ x = (grp i (p_part pc), seg_of_piece s c pc).
  Proof.
    induction pushes as [|p rest IH]; intros i0 x; cbn [all_emit].
    - split; [contradiction|]. intros (i & s & c & pc & (data & ps & _ & Hn & _) & _).
      destruct (i - i0)%nat; discriminate.
    - rewrite in_app_iff, IH. split.
      + intros [H|(i & s & c & pc & Hp & E)].
        * destruct p as [[s c] data]. unfold contig_emit in H.
          destruct (pieces_of i0 data) as [ps| |] eqn:Ep; try contradiction.
          apply in_map_iff in H. destruct H as (pc & <- & Hpc).
          exists i0, s, c, pc. split; [|reflexivity]. eapply piece_at_here; eauto.
        * exists i, s, c, pc. split; [apply piece_at_later; exact Hp|exact E].
      + intros (i & s & c & pc & Hp & E). apply piece_at_inv in Hp.
        destruct Hp as [(-> & data & ps & -> & Ep & Hpc)|Hp].
        * left. unfold contig_emit. rewrite Ep. subst x. apply in_map_iff. exists pc. auto.
        * right. exists i, s, c, pc. auto.
  Qed.

  Lemma all_regs_in addr : forall pushes i0 regs, all_regs k spl segsize dec addr i0 pushes = Ok regs ->
    forall r, In r regs <-> exists i s c pc, piece_at i0 pushes i s c pc /\ r = reg_of addr i s c pc.
  Proof.
    induction pushes as [|p rest IH]; intros i0 regs E r; cbn [all_regs] in E.
    - inversion E; subst. split; [contradiction|]. intros (i & s & c & pc & (data & ps & _ & Hn & _) & _).
      destruct (i - i0)%nat; discriminate.
    - destruct (contig_regs k spl segsize dec addr i0 p) as [rs0| |] eqn:E0; cbn [obnd] in E; try discriminate.
      destruct (all_regs k spl segsize dec addr (S i0) rest) as [more| |] eqn:E1; cbn [obnd] in E; try discriminate.
      inversion E; subst regs; clear E. rewrite in_app_iff, (IH _ _ E1).
      destruct p as [[s0 c0] data0]. rewrite contig_regs_eq in E0.
      change (contig_pieces (N.to_nat k) (split_gen true data0 spl k) (dec i0) 0 0) with (pieces_of i0 data0) in E0.
      destruct (pieces_of i0 data0) as [ps0| |] eqn:Ep; cbn [obnd] in E0; try discriminate.
      inversion E0; subst rs0; clear E0. split.
      + intros [H|(i & s & c & pc & Hp & Er)].
        * apply in_map_iff in H. destruct H as (pc & <- & Hpc). exists i0, s0, c0, pc. split; [|reflexivity].
          eapply piece_at_here; eauto.
        * exists i, s, c, pc. split; [apply piece_at_later; exact Hp|exact Er].
      + intros (i & s & c & pc & Hp & Er). apply piece_at_inv in Hp.
        destruct Hp as [(-> & data & ps & Epush & Ep' & Hpc)|Hp].
        * left. inversion Epush; subst. rewrite Ep in Ep'. inversion Ep'; subst. apply in_map. exact Hpc.
        * right. exists i, s, c, pc. auto.
  Qed.

  Lemma find_by_key {A} (f : A -> nat) : forall (l : list A) x, NoDup (map f l) -> In x l ->
    find (fun y => Nat.eqb (f y) (f x)) l = Some x.
  Proof.
    induction l as [|y l IH]; intros x ND Hx; [contradiction|]. cbn [map] in ND. inversion ND as [|? ? Hn ND']; subst.
    cbn [find]. destruct Hx as [->|Hx]; [rewrite Nat.eqb_refl; reflexivity|].
    destruct (Nat.eqb_spec (f y) (f x)) as [E|_]; [|apply IH; assumption].
    exfalso. apply Hn. rewrite E. apply in_map. exact Hx.
  Qed.

  Lemma find_seg (regs : list (seg_in * N)) sg : In sg (map fst regs) ->
    exists id, find (fun x => seg_eqb (fst x) sg) regs = Some (sg, id) /\ In (sg, id) regs.
  Proof.
    intro H. apply in_map_iff in H. destruct H as ([sg' id'] & E & Hin). cbn [fst] in E. subst sg'.
    destruct (find (fun x => seg_eqb (fst x) sg) regs) as [[sg2 id2]|] eqn:F.
    - apply find_some in F. destruct F as [Hin2 E2]. cbn [fst] in E2. apply seg_eqb_eq in E2. subst sg2.
      exists id2. auto.
    - exfalso. pose proof (find_none _ _ F _ Hin) as E2. cbn [fst] in E2.
      rewrite (proj2 (seg_eqb_eq sg sg) eq_refl) in E2. discriminate.
  Qed.

  Lemma pieces_parts_nodup i data ps : 1 <= k ->
    (forall j sg, nth_error (split_at_splitters_with_size data spl k segsize) j = Some sg ->
                  decision_okb (N.to_nat k) sg (dec i j) = true) ->
    pieces_of i data = Ok ps -> NoDup (map p_part ps).
  Proof.
    intros Hk Hd E. unfold pieces_of in E.
    assert (P : Permutation (map p_part ps) (seq 0 (length ps))).
    { apply (part_numbers_dense_proof (N.to_nat k) (split_at_splitters_with_size data spl k segsize)
               (dec i) 0%nat ps); [lia| |exact E].
      intros j sg Hj. rewrite Nat.add_0_l. exact (Hd j sg Hj). }
    apply (Permutation_NoDup (Permutation_sym P)). apply seq_NoDup.
  Qed.

  (* ---- the relational hypotheses hold for the store's own addresses *)
  Theorem store_addr_consistent_proof :
    forall lz_enc compress_ref compress_pack pushes ops st regs,
    1 <= k ->
    decisions_ok k spl segsize dec pushes ->
    ops_carry (all_emit 0 pushes) ops ->
    run lz_enc compress_ref compress_pack ops = Ok st ->
    all_regs k spl segsize dec (store_addr pushes st) 0 pushes = Ok regs ->
    store_fed_by (map (fun r => (r_desc r, r_data r)) regs) ops /\
    addresses_from_store (map (fun r => (r_desc r, r_data r)) regs) st.
  Proof.
    intros lz_enc compress_ref compress_pack pushes ops st regs Hk Hdec Hcarry Hrun Hregs.
    pose proof (all_regs_in (store_addr pushes st) pushes 0%nat regs Hregs) as Hin.
    split.
    - intros g sg Hs. apply (Permutation_in _ (Hcarry g)) in Hs. apply in_map_iff in Hs.
      destruct Hs as ([g' sg'] & E & Hf). cbn [snd] in E. subst sg'. apply filter_In in Hf.
      destruct Hf as [Hem Hg]. cbn [fst] in Hg. apply N.eqb_eq in Hg. subst g'.
      apply all_emit_in in Hem. destruct Hem as (i & s & c & pc & Hp & E). inversion E; subst g sg; clear E.
      exists (r_desc (reg_of (store_addr pushes st) i s c pc)). split.
      + apply in_map_iff. exists (reg_of (store_addr pushes st) i s c pc). split.
        * reflexivity.
        * apply Hin. exists i, s, c, pc. auto.
      + unfold reg_of, store_addr. reflexivity.
    - intros d b Hdb. apply in_map_iff in Hdb. destruct Hdb as (r & E & Hr). inversion E; subst d b; clear E.
      apply Hin in Hr. destruct Hr as (i & s & c & pc & Hp & ->).
      pose proof Hp as (data & ps & _ & Hn & Ep & Hpc). rewrite Nat.sub_0_r in Hn.
      assert (ND : NoDup (map p_part ps)).
      { apply (pieces_parts_nodup i data ps Hk); [|exact Ep]. intros j sg Hj. exact (Hdec i s c data j sg Hn Hj). }
      set (sg := seg_of_piece s c pc). set (g := grp i (p_part pc)).
      assert (Hsg : In sg (map fst (regs_of st g))).
      { apply (Permutation_in _ (Permutation_sym (GroupStore_rules.every_segment_registered_proof _ _ _ ops st g Hrun))).
        apply (Permutation_in _ (Permutation_sym (Hcarry g))). apply in_map_iff. exists (g, sg). split; [reflexivity|].
        apply filter_In. split; [|apply N.eqb_refl]. apply all_emit_in. exists i, s, c, pc. auto. }
      destruct (find_seg _ _ Hsg) as (id & Hfind & Hid).
      exists sg. unfold reg_of, store_addr. rewrite Hn, Ep, (find_by_key p_part ps pc ND Hpc).
      fold sg g. rewrite Hfind. cbn. auto.
  Qed.
End FromStore.

(* ---- end to end with the store's addresses: no relational hypothesis left *)
Theorem end_to_end_store_addr_proof :
  forall zc zd, zstd_ok zc zd ->
  forall ecn k spl segsize dec grp sched mml level
         (samples : list (name * list (name * list N))) ops st coll stored,
  1 <= k <= 32 ->
  inputs_ok samples ->
  decisions_ok k spl segsize dec (pushes_of samples) ->
  (forall l, Permutation l (sched l)) ->
  ops_carry (all_emit k spl segsize dec grp 0 (pushes_of samples)) ops ->
  c_run zc mml level ops = Ok st ->
  create ecn k spl segsize dec (store_addr k spl segsize dec grp (pushes_of samples) st) sched (pushes_of samples)
    = Ok (coll, stored) ->
  pieces_in_dom mml stored ->
  contig_names_ok samples /\ extract_all (store_get zc zd mml level st) k coll = Ok samples.
Proof.
  intros zc zd Hz ecn k spl segsize dec grp sched mml level samples ops st coll stored
         Hk Hin Hdec Hsched Hcarry Hrun Hc Hdom.
  assert (Hrel : store_fed_by stored ops /\ addresses_from_store stored st).
  { pose proof Hc as Hc'. unfold create in Hc'.
    destruct (register_all ecn [] (pushes_of samples)) as [coll0| |]; cbn [obnd] in Hc'; try discriminate.
    destruct (all_regs k spl segsize dec _ 0 (pushes_of samples)) as [regs| |] eqn:Ea; cbn [obnd] in Hc'; try discriminate.
    inversion Hc'; subst coll stored; clear Hc'.
    apply (store_addr_consistent_proof k spl segsize dec grp _ _ _ (pushes_of samples) ops st regs
             ltac:(lia) Hdec Hcarry Hrun Ea). }
  destruct Hrel as [Hfed Haddr].
  exact (end_to_end_roundtrip_proof zc zd Hz ecn k spl segsize dec _ sched mml level samples coll stored ops st
           Hk Hin Hdec Hsched Hc Hdom Hfed Hrun Haddr).
Qed.

(* ---- schedules: any split of the emitted pieces into consecutive rounds, each round handing every group of
   [groups] its pieces (one op per group and round), carries the pieces (non-vacuity of [ops_carry]) *)
Definition ops_by_group (groups : list N) (emitted : list (N * seg_in)) : list op :=
  map (fun g => (g, map snd (filter (fun x => fst x =? g) emitted))) groups.
Definition ops_rounds (groups : list N) (rounds : list (list (N * seg_in))) : list op :=
  flat_map (ops_by_group groups) rounds.

Lemma segs_of_app a b g : segs_of (a ++ b) g = segs_of a g ++ segs_of b g.
Proof. unfold segs_of. apply flat_map_app. Qed.

Lemma segs_of_by_group em : forall groups g, NoDup groups ->
  segs_of (ops_by_group groups em) g =
  if existsb (fun g' => g' =? g) groups then map snd (filter (fun x => fst x =? g) em) else [].
Proof.
  induction groups as [|g0 tl IH]; intros g ND; [reflexivity|]. inversion ND as [|? ? Hn ND']; subst.
  unfold ops_by_group. cbn [map]. change (map _ tl) with (ops_by_group tl em).
  change (segs_of ((g0, ?b) :: ?t) g) with ((if g0 =? g then b else []) ++ segs_of t g).
  unfold segs_of at 1. cbn [flat_map fst snd existsb]. fold (segs_of (ops_by_group tl em) g). rewrite (IH g ND').
  destruct (N.eqb_spec g0 g) as [->|Hne]; cbn [orb].
  - assert (E : existsb (fun g' => g' =? g) tl = false).
    { destruct (existsb (fun g' => g' =? g) tl) eqn:E; [|reflexivity]. apply existsb_exists in E.
      destruct E as (x & Hx & Ex). apply N.eqb_eq in Ex. subst x. contradiction. }
    rewrite E. apply app_nil_r.
  - reflexivity.
Qed.

Lemma filter_none {A} (f : A -> bool) l : (forall x, In x l -> f x = false) -> filter f l = [].
Proof.
  induction l as [|x l IH]; intro H; [reflexivity|]. cbn [filter]. rewrite (H x (or_introl eq_refl)).
  apply IH. intros y Hy. apply H. right. exact Hy.
Qed.

Lemma ops_rounds_carry : forall groups rounds, NoDup groups ->
  (forall x, In x (concat rounds) -> In (fst x) groups) ->
  ops_carry (concat rounds) (ops_rounds groups rounds).
Proof.
  intros groups rounds ND. induction rounds as [|r rounds IH]; intros Hall g.
  - apply Permutation_refl.
  - cbn [ops_rounds flat_map concat]. fold (ops_rounds groups rounds). rewrite segs_of_app, filter_app, map_app.
    apply Permutation_app; [|apply IH; intros x Hx; apply Hall; cbn [concat]; apply in_or_app; right; exact Hx].
    rewrite (segs_of_by_group r groups g ND). destruct (existsb (fun g' => g' =? g) groups) eqn:E; [apply Permutation_refl|].
    rewrite filter_none; [apply Permutation_refl|]. intros x Hx. apply N.eqb_neq. intro Ex.
    assert (In (fst x) groups) by (apply Hall; cbn [concat]; apply in_or_app; left; exact Hx).
    assert (E' : existsb (fun g' => g' =? g) groups = true).
    { apply existsb_exists. exists (fst x). split; [assumption|apply N.eqb_eq; exact Ex]. }
    rewrite E' in E. discriminate.
Qed.

(* ---- a decidable form of [pieces_in_dom] (for the examples) *)
Definition pieces_in_domb (mml : N) (stored : list (Pipeline.seg_desc * list N)) : bool :=
  forallb (fun x : Pipeline.seg_desc * list N =>
    let (d, b) := x in
    forallb (fun c => c <=? 30) b &&
    (if Pipeline.d_group d <? 16 then lenN b <? two32
     else (4 <=? mml) && negb (is_nil b) &&
          forallb (fun y : Pipeline.seg_desc * list N =>
                     negb (Pipeline.d_group (fst y) =? Pipeline.d_group d) ||
                     (lenN (snd y) + lenN b + mml <? 2147483648)) stored)) stored.

Lemma pieces_in_domb_ok mml stored : pieces_in_domb mml stored = true -> pieces_in_dom mml stored.
Proof.
  intros H d b Hin. unfold pieces_in_domb in H. rewrite forallb_forall in H. specialize (H (d, b) Hin).
  cbn beta iota in H. apply andb_true_iff in H. destruct H as [Ha Hb]. rewrite forallb_forall in Ha. split.
  - apply Forall_forall. intros c Hc. apply N.leb_le. apply Ha. exact Hc.
  - destruct (N.ltb_spec (Pipeline.d_group d) 16) as [Hg|Hg].
    + split; [intros _; apply N.ltb_lt; exact Hb|intro; lia].
    + split; [intro; lia|]. intros _. apply andb_true_iff in Hb. destruct Hb as [Hb Hc].
      apply andb_true_iff in Hb. destruct Hb as [Hm Hn]. split; [apply N.leb_le; exact Hm|]. split.
      * destruct b; discriminate.
      * intros d' b' Hin' Eg. rewrite forallb_forall in Hc. specialize (Hc (d', b') Hin'). cbn [fst snd] in Hc.
        rewrite Eg, N.eqb_refl in Hc. cbn [negb orb] in Hc. apply N.ltb_lt. exact Hc.
Qed.

(* =====================================================================================================
   [pieces_in_dom] from hypotheses on the INPUT: every piece is a (possibly reverse-complemented) contiguous
   part of its contig, so its symbols are the contig's (rc_dec keeps 0..30 inside 0..30), it is not longer than
   the contig, and it is non-empty when the contig is. *)
Definition within (x l : list N) : Prop :=
  (forall P : N -> Prop, Forall P l -> Forall P x) /\ (length x <= length l)%nat.

Lemma within_refl l : within l l.
Proof. split; auto. Qed.
Lemma within_trans x y z : within x y -> within y z -> within x z.
Proof. intros [A1 A2] [B1 B2]. split; [intros P H; apply A1, B1, H|lia]. Qed.
Lemma within_firstn n l : within (firstn n l) l.
Proof.
  split; [|rewrite firstn_length; lia]. intros P H. rewrite <- (firstn_skipn n l) in H.
  apply Forall_app in H. tauto.
Qed.
Lemma within_skipn n l : within (skipn n l) l.
Proof.
  split; [|rewrite skipn_length; lia]. intros P H. rewrite <- (firstn_skipn n l) in H.
  apply Forall_app in H. tauto.
Qed.

Lemma chain_within ws contig spl kN a f fd l : chain ws contig spl kN a f fd l ->
  forall s, In s l -> within (sdata s) contig.
Proof.
  induction 1 as [a f fd|a f fd b run p tl H1 H2 H3 H4 H5 H6 H7 H8 IH]; intros s Hs.
  - destruct Hs as [<-|[]]. cbn [sdata]. apply within_skipn.
  - destruct Hs as [<-|Hs]; [|apply IH; exact Hs]. cbn [sdata]. unfold slice.
    eapply within_trans; [apply within_firstn|apply within_skipn].
Qed.

Lemma segs_within contig spl k s : 1 <= k <= 32 -> In s (split_gen true contig spl k) -> within (sdata s) contig.
Proof. intros Hk Hs. exact (chain_within _ _ _ _ _ _ _ _ (split_chain true contig spl k Hk) s Hs). Qed.

Lemma seg_fwd_within k s d x : In x (seg_fwd k s d) -> within x (sdata s).
Proof.
  unfold seg_fwd. destruct d as [o|o pos lf rf|o f|o f]; cbn [In]; try (intros [<-|[]]; apply within_refl).
  destruct (should_reverse s o); intros [<-|[<-|[]]]; first [apply within_firstn|apply within_skipn].
Qed.

Lemma seg_fwd_nonempty k s d x : (1 <= k)%nat -> decision_okb k s d = true -> sdata s <> [] ->
  In x (seg_fwd k s d) -> x <> [].
Proof.
  intros Hk Hd Hne Hx. destruct d as [o|o pos lf rf|o f|o f]; try (destruct Hx as [<-|[]]; exact Hne).
  destruct (split_fwd k s o pos lf rf Hk Hd) as (A & B & Ef & HA & HB & _). rewrite Ef in Hx.
  destruct Hx as [<-|[<-|[]]]; intros ->; cbn in *; lia.
Qed.

Lemma seg_pieces_unorient k s d n ps pc : seg_pieces k s d n = Ok ps -> In pc ps -> In (unorient pc) (seg_fwd k s d).
Proof.
  intros E Hpc. destruct (seg_pieces_spec _ _ _ _ _ E) as (ps' & P & _ & Up).
  rewrite <- Up. apply in_map. apply (Permutation_in _ P). exact Hpc.
Qed.

Lemma contig_pieces_in k dec : forall segs j n ps, contig_pieces k segs dec j n = Ok ps ->
  forall pc, In pc ps -> exists i s n' ps', nth_error segs i = Some s /\
                                           seg_pieces k s (dec (j + i)%nat) n' = Ok ps' /\ In pc ps'.
Proof.
  induction segs as [|s rest IH]; intros j n ps E pc Hpc; cbn [contig_pieces] in E.
  - inversion E; subst. contradiction.
  - destruct (seg_pieces k s (dec j) n) as [ps0| |] eqn:E0; cbn [obnd] in E; try discriminate.
    destruct (contig_pieces k rest dec (S j) (n + part_incr (dec j))) as [more| |] eqn:E1; cbn [obnd] in E;
      try discriminate.
    inversion E; subst ps; clear E. apply in_app_or in Hpc. destruct Hpc as [Hpc|Hpc].
    + exists 0%nat, s, n, ps0. rewrite Nat.add_0_r. auto.
    + destruct (IH _ _ _ E1 pc Hpc) as (i & s' & n' & ps' & Hn & Es & Hin).
      exists (S i), s', n', ps'. replace (j + S i)%nat with (S j + i)%nat by lia. auto.
Qed.

Lemma rc_dec_le30 : forall x, x <= 30 -> rc_dec x <= 30.
Proof.
  intros x Hx. remember (N.to_nat x) as n eqn:En. assert (E : x = N.of_nat n) by lia. subst x. clear En.
  assert (Hn : (n < 31)%nat) by lia. clear Hx.
  do 31 (destruct n as [|n]; [vm_compute; discriminate|]). lia.
Qed.

Lemma unorient_data pc : p_data pc = if p_rc pc then rcs (unorient pc) else unorient pc.
Proof. unfold unorient. destruct (p_rc pc); [rewrite rcs_invol|]; reflexivity. Qed.

Lemma rcs_Forall (P : N -> Prop) l : (forall x, P x -> P (rc_dec x)) -> Forall P l -> Forall P (rcs l).
Proof.
  intros Hc H. unfold reverse_complement_segment. apply Forall_forall. intros y Hy. apply in_map_iff in Hy.
  destruct Hy as (x & <- & Hx). apply Hc. rewrite Forall_forall in H. apply H. apply in_rev. exact Hx.
Qed.

(* one piece of contig [data] *)
Lemma piece_facts k spl segsize dec i data ps pc : 1 <= k <= 32 ->
  (forall j sg, nth_error (split_at_splitters_with_size data spl k segsize) j = Some sg ->
                decision_okb (N.to_nat k) sg (dec i j) = true) ->
  pieces_of k spl segsize dec i data = Ok ps -> In pc ps ->
  (forall P : N -> Prop, (forall x, P x -> P (rc_dec x)) -> Forall P data -> Forall P (p_data pc)) /\
  (length (p_data pc) <= length data)%nat /\
  (data <> [] -> p_data pc <> []).
Proof.
  intros Hk Hd E Hpc. unfold pieces_of in E.
  destruct (contig_pieces_in _ _ _ _ _ _ E pc Hpc) as (j & s & n' & ps' & Hn & Es & Hin). cbn [Nat.add] in Es.
  pose proof (seg_pieces_unorient _ _ _ _ _ _ Es Hin) as Hu.
  assert (Hs : In s (split_gen true data spl k)) by (apply nth_error_In with j; exact Hn).
  pose proof (within_trans _ _ _ (seg_fwd_within _ _ _ _ Hu) (segs_within data spl k s Hk Hs)) as [W1 W2].
  rewrite (unorient_data pc). split; [|split].
  - intros P Hc HP. destruct (p_rc pc); [apply rcs_Forall; [exact Hc|]|]; apply W1; exact HP.
  - destruct (p_rc pc); [rewrite rcs_length|]; exact W2.
  - intro Hne. assert (Hx : unorient pc <> []).
    { apply (seg_fwd_nonempty (N.to_nat k) s (dec i j)); [lia|exact (Hd j s Hn)| |exact Hu].
      pose proof (segments_nonempty_proof true data spl k Hk Hne) as F. rewrite Forall_forall in F. exact (F s Hs). }
    destruct (p_rc pc); [|exact Hx]. intro E0. apply Hx.
    apply (f_equal (@length N)) in E0. rewrite rcs_length in E0. destruct (unorient pc); [reflexivity|discriminate].
Qed.

(* hypotheses on the input: symbol codes 0..30 (the FASTA alphabet maps to 0..15 and 30), contig lengths *)
Definition inputs_in_dom (mml : N) (pushes : list push) : Prop :=
  forall s c data, In (s, c, data) pushes ->
    Forall (fun x => x <= 30) data /\ 2 * lenN data + mml < 2147483648.
(* the oracle's group choice never sends a piece of an EMPTY contig to an LZ group (in the code an LZ group is
   keyed by a k-mer pair with at least one k-mer present, so its segments have at least k symbols) *)
Definition lz_contigs_nonempty (pushes : list push) (grp : nat -> nat -> N) : Prop :=
  forall i s c data part, nth_error pushes i = Some (s, c, data) -> 16 <= grp i part -> data <> [].

Theorem pieces_in_dom_from_inputs_proof :
  forall k spl segsize dec addr pushes regs mml,
  1 <= k <= 32 -> 4 <= mml ->
  decisions_ok k spl segsize dec pushes ->
  inputs_in_dom mml pushes ->
  lz_contigs_nonempty pushes (fun i part => fst (addr i part)) ->
  all_regs k spl segsize dec addr 0 pushes = Ok regs ->
  pieces_in_dom mml (map (fun r => (r_desc r, r_data r)) regs).
Proof.
  intros k spl segsize dec addr pushes regs mml Hk Hm Hdec Hdom Hlz Hregs.
  pose proof (all_regs_in k spl segsize dec (fun _ _ => 0) addr pushes 0%nat regs Hregs) as Hin.
  assert (F : forall d b, In (d, b) (map (fun r => (r_desc r, r_data r)) regs) ->
            exists i s c data part, nth_error pushes i = Some (s, c, data) /\
              Pipeline.d_group d = fst (addr i part) /\
              Forall (fun x => x <= 30) b /\ lenN b <= lenN data /\ (data <> [] -> b <> [])).
  { intros d b Hdb. apply in_map_iff in Hdb. destruct Hdb as (r & E & Hr). inversion E; subst d b; clear E.
    apply Hin in Hr. destruct Hr as (i & s & c & pc & (data & ps & _ & Hn & Ep & Hpc) & ->).
    rewrite Nat.sub_0_r in Hn.
    destruct (piece_facts k spl segsize dec i data ps pc Hk (fun j sg Hj => Hdec i s c data j sg Hn Hj) Ep Hpc)
      as (Fa & Fl & Fn).
    exists i, s, c, data, (p_part pc). split; [exact Hn|]. unfold reg_of. destruct (addr i (p_part pc)) as [g id].
    cbn [r_desc r_data Pipeline.d_group fst]. split; [reflexivity|]. split; [|split; [unfold lenN; lia|exact Fn]].
    apply Fa; [exact rc_dec_le30|]. apply nth_error_In in Hn. exact (proj1 (Hdom s c data Hn)). }
  intros d b Hdb. destruct (F d b Hdb) as (i & s & c & data & part & Hn & Eg & Fa & Fl & Fn).
  pose proof (proj2 (Hdom s c data (nth_error_In _ _ Hn))) as Hl.
  split; [exact Fa|]. split; [intros _; unfold two32; lia|].
  intro Hg. split; [exact Hm|]. split.
  - apply Fn. apply (Hlz i s c data part Hn). cbn beta. rewrite <- Eg. exact Hg.
  - intros d' b' Hdb' _. destruct (F d' b' Hdb') as (i' & s' & c' & data' & part' & Hn' & _ & _ & Fl' & _).
    pose proof (proj2 (Hdom s' c' data' (nth_error_In _ _ Hn'))) as Hl'. lia.
Qed.

(* ---- end to end, hypotheses on the input only *)
Theorem end_to_end_inputs_proof :
  forall zc zd, zstd_ok zc zd ->
  forall ecn k spl segsize dec grp sched mml level
         (samples : list (name * list (name * list N))) ops st coll stored,
  1 <= k <= 32 -> 4 <= mml ->
  inputs_ok samples ->
  inputs_in_dom mml (pushes_of samples) ->
  decisions_ok k spl segsize dec (pushes_of samples) ->
  lz_contigs_nonempty (pushes_of samples) grp ->
  (forall l, Permutation l (sched l)) ->
  ops_carry (all_emit k spl segsize dec grp 0 (pushes_of samples)) ops ->
  c_run zc mml level ops = Ok st ->
  create ecn k spl segsize dec (store_addr k spl segsize dec grp (pushes_of samples) st) sched (pushes_of samples)
    = Ok (coll, stored) ->
  contig_names_ok samples /\ extract_all (store_get zc zd mml level st) k coll = Ok samples.
Proof.
  intros zc zd Hz ecn k spl segsize dec grp sched mml level samples ops st coll stored
         Hk Hm Hin Hdom Hdec Hlz Hsched Hcarry Hrun Hc.
  apply (end_to_end_store_addr_proof zc zd Hz ecn k spl segsize dec grp sched mml level samples ops st coll stored);
    try assumption.
  pose proof Hc as Hc'. unfold create in Hc'.
  destruct (register_all ecn [] (pushes_of samples)) as [coll0| |]; cbn [obnd] in Hc'; try discriminate.
  destruct (all_regs k spl segsize dec _ 0 (pushes_of samples)) as [regs| |] eqn:Ea; cbn [obnd] in Hc'; try discriminate.
  inversion Hc'; subst coll stored; clear Hc'.
  apply (pieces_in_dom_from_inputs_proof k spl segsize dec (store_addr k spl segsize dec grp (pushes_of samples) st)
           (pushes_of samples) regs mml Hk Hm Hdec Hdom); [|exact Ea].
  exact Hlz.
Qed.

(* =====================================================================================================
   step 4: the catalogue codec (C03) threaded through.  The catalogue the writer built ([coll] of create) is
   converted to Collection.v's sample list, serialised in batches ([store_all]) and reloaded ([load_all]); the
   reader extracts from the RELOADED catalogue.
   Gap that remains: Pipeline.v's register_sample_contig / add_segment_placed and Collection.v's are two
   transcriptions of the same Rust functions on different record types; they are related here only through the
   conversion [cat_of] of the finished catalogue, not call by call. *)
Definition cat_seg (d : Pipeline.seg_desc) : Details.seg :=
  Details.mkSeg (Pipeline.d_group d) (Pipeline.d_id d) (Pipeline.d_rc d) (Pipeline.d_len d).
Definition seg_cat (x : Details.seg) : Pipeline.seg_desc :=
  mkDesc (Details.sg x) (Details.si x) (Details.src x) (Details.sl x).
Definition cat_of (c : Pipeline.collection) : list Collection.sample :=
  map (fun s => Collection.mkSample (fst s)
                  (map (fun ct => Collection.mkContig (fst ct) (map cat_seg (snd ct))) (snd s))) c.
Definition of_cat (ss : list Collection.sample) : Pipeline.collection :=
  map (fun s => (Collection.sname s,
                 map (fun ct => (Collection.cname ct, map seg_cat (Collection.csegs ct))) (Collection.scontigs s))) ss.

Lemma map_id_ext {A} (f : A -> A) l : (forall x, f x = x) -> map f l = l.
Proof. intro H. rewrite (map_ext _ _ H). apply map_id. Qed.

Lemma of_cat_of c : of_cat (cat_of c) = c.
Proof.
  unfold of_cat, cat_of. rewrite map_map. apply map_id_ext. intros [sn cs]. cbn [Collection.sname Collection.scontigs fst snd].
  f_equal. rewrite map_map. apply map_id_ext. intros [cn ds]. cbn [Collection.cname Collection.csegs fst snd].
  f_equal. rewrite map_map. apply map_id_ext. intros [g i r l]. reflexivity.
Qed.

Theorem end_to_end_catalogue_proof :
  forall zc zd, zstd_ok zc zd -> (forall l x, zc l x <> []) ->
  forall ecn k spl segsize dec grp sched mml level
         (samples : list (name * list (name * list N))) ops st coll stored,
  1 <= k <= 32 -> 4 <= mml ->
  inputs_ok samples ->
  inputs_in_dom mml (pushes_of samples) ->
  decisions_ok k spl segsize dec (pushes_of samples) ->
  lz_contigs_nonempty (pushes_of samples) grp ->
  (forall l, Permutation l (sched l)) ->
  ops_carry (all_emit k spl segsize dec grp 0 (pushes_of samples)) ops ->
  c_run zc mml level ops = Ok st ->
  create ecn k spl segsize dec (store_addr k spl segsize dec grp (pushes_of samples) st) sched (pushes_of samples)
    = Ok (coll, stored) ->
  forall (ss bs : N) (c : Collection.coll),
  ss + k <= 2147483648 -> 0 < bs ->
  Collection.segment_size c = ss -> Collection.kmer_length c = k ->
  Collection.samples c = cat_of coll ->
  lenN (Collection.samples c) < 4294967296 ->
  Forall (fun s => Forall (fun b => 1 <= b < 128) (Collection.sname s)) (Collection.samples c) ->
  Forall (Collection_proofs.batch_ok zc ss k)
         (Collection_proofs.chunks (length (Collection.samples c)) (N.to_nat bs) (Collection.samples c)) ->
  exists cw a cr,
    Collection.store_all zc bs c Collection.arch_empty = Ok (cw, a) /\
    Collection.load_all zd ss k a = Ok cr /\
    extract_all (store_get zc zd mml level st) k (of_cat (Collection.samples cr)) = Ok samples.
Proof.
  intros zc zd Hz Hne ecn k spl segsize dec grp sched mml level samples ops st coll stored
         Hk Hm Hin Hdom Hdec Hlz Hsched Hcarry Hrun Hc ss bs c Hss Hbs Es Ek Ec Hlen Hnames Hb.
  destruct (Collection_proofs.batches_roundtrip_proof zc zd (proj1 Hz) Hne ss k Hss bs c Hbs Es Ek Hlen Hnames Hb)
    as (cw & a & cr & Hst & _ & _ & Hld & Hsame & _).
  exists cw, a, cr. split; [exact Hst|]. split; [exact Hld|].
  rewrite Hsame, Ec, of_cat_of.
  exact (proj2 (end_to_end_inputs_proof zc zd Hz ecn k spl segsize dec grp sched mml level samples ops st coll stored
                  Hk Hm Hin Hdom Hdec Hlz Hsched Hcarry Hrun Hc)).
Qed.
