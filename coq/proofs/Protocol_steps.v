(* Protocol_steps.v - every step of the protocol preserves the invariant (C05) *)
From Coq Require Import Lia ZifyBool ZifyN ZifyNat Permutation.
From Ragc Require Import Protocol Protocol_base Protocol_inv.
Arguments N.add : simpl never.
Arguments N.sub : simpl never.
Arguments N.mul : simpl never.
Arguments Nat.mul : simpl never.
Arguments Nat.sub : simpl never.
Open Scope nat_scope.

Ltac flds := cbn [set_ws set_pst set_todo do_close ws items cur closed nseq pst todo bcount bgen claimable ground
                  pushed segd rawbuf rounds].
Ltac wk_simpl := unfold wfw; cbn [barcur insec is_exited is_waitE is_wokenE set_pc after_bar pc wrounds b2n].

Section Steps.
Variable pa : params.
Variable script : list cmd.
Hypothesis Hrule : old_rule pa = false.
Notation Inv := (Inv pa script).

Lemma wf_at : forall s i wk, Inv s -> nth_error (ws s) i = Some wk -> wfw (bgen s) (stg s) (ground s) wk.
Proof. intros s i wk H E. destruct H. rewrite Forall_nth in i_wf. eauto. Qed.

Lemma not_done_if_active : forall s i wk,
  Inv s -> nth_error (ws s) i = Some wk -> is_exited wk = false -> pst s <> PDone.
Proof.
  intros s i wk H E X D. destruct H. specialize (i_done D). rewrite <- i_len in i_done.
  rewrite (cnt_full_all _ _ _ _ _ i_done E) in X. discriminate.
Qed.

(* ------------------------------------------------------------------------------------------- pull *)
Lemma inv_pull : forall s i wk sq s',
  Inv s -> nth_error (ws s) i = Some wk -> (pc wk = WPull \/ pc wk = WWokenE) ->
  step_pull s i wk sq = Some s' -> Inv s'.
Proof.
  intros s i wk sq s' HI E Hpc H.
  pose proof (wf_at _ _ _ HI E) as Hw.
  destruct wk as [p r]. cbn [pc] in Hpc.
  assert (Hout : stg s = 0 /\ r = ground s).
  { unfold wfw in Hw. cbn [pc wrounds] in Hw. destruct Hpc; subst p; auto. }
  unfold step_pull in H.
  destruct (items s) as [|x rr] eqn:EI.
  - destruct (closed s) eqn:C; inversion H; subst s'; clear H.
    + apply inv_frame with (wk := mkW p r); auto; wk_simpl; auto;
        try (destruct Hpc; subst p; auto; fail); try (destruct Hpc; subst p; discriminate); try congruence; try discriminate.
    + apply inv_frame with (wk := mkW p r); auto; wk_simpl; auto;
        try (destruct Hpc; subst p; auto; fail); try (destruct Hpc; subst p; discriminate); try congruence; try discriminate.
      intros _ _. rewrite EI. cbn. lia.
  - rewrite <- EI in H.
    destruct (extract sq (items s)) as [[it rest]|] eqn:EX; [|discriminate].
    destruct (is_max it (items s)) eqn:M; [|discriminate].
    destruct (sub_u64 (cur s) (tsize (itask it))) as [c'|] eqn:SU; [|discriminate].
    inversion H; subst s'; clear H.
    apply extract_perm in EX. destruct EX as (PM & SQ & IN).
    unfold sub_u64 in SU. destruct (tsize (itask it) <=? cur s)%N eqn:LE; [|discriminate]. inversion SU; subst c'; clear SU.
    set (wk' := set_pc (mkW p r) (if ttok (itask it) then WBar 0 else WSeg (iseq it))).
    pose proof (cnt_upd _ is_waitE i wk' _ _ E) as CW.
    pose proof (cnt_upd _ is_wokenE i wk' _ _ E) as CK.
    pose proof (cnt_upd _ is_exited i wk' _ _ E) as CX.
    pose proof (cnt_upd _ (barcur (bgen s)) i wk' _ _ E) as CB.
    pose proof (cnt_upd _ (insec (bgen s)) i wk' _ _ E) as CS.
    assert (NX : is_exited (mkW p r) = false) by (destruct Hpc; subst p; auto).
    pose proof (not_done_if_active _ _ _ HI E NX) as ND.
    pose proof (cnt_perm _ is_tok_item _ _ PM) as CT. cbn [cnt] in CT.
    pose proof (sumsz_perm _ _ PM) as CZ. cbn [sumsz] in CZ.
    pose proof (Permutation_length PM) as CL. cbn [length] in CL.
    unfold wk' in *. revert CW CK CX CB CS. wk_simpl. intros CW CK CX CB CS.
    destruct HI. constructor; flds.
    + rewrite upd_length; auto.
    + auto.
    + apply Forall_upd; auto. unfold stg in *. flds. wk_simpl.
      destruct (ttok (itask it)); cbn; lia.
    + destruct i_bc. split; [|auto].
      destruct (ttok (itask it)); destruct Hpc; subst p; cbn in CB; lia.
    + unfold nsec, ntok_items, ntok_todo in *. flds. change (is_tok_item it) with (ttok (itask it)) in CT.
      destruct (ttok (itask it)); destruct Hpc; subst p; cbn in CS, CT; lia.
    + intros C P. specialize (i_wake C).
      destruct (ttok (itask it)); destruct Hpc; subst p; cbn in CW, CK; lia.
    + destruct (pst s); cbn; intros; try discriminate; auto.
    + lia.
    + destruct i_closed as (A & B). split; [|auto].
      rewrite A. destruct (pst s); cbn; intuition congruence.
    + intros P. apply i_pwait. destruct (pst s); cbn in P; intuition congruence.
    + intros P. exfalso.
      assert (0 < cnt is_exited (ws s)) by (destruct (ttok (itask it)); destruct Hpc; subst p; cbn in CX; lia).
      destruct (i_ex H) as (_ & Q). rewrite Q in IN. contradiction.
    + intros D. exfalso. destruct (pst s); cbn in D; try discriminate. congruence.
    + destruct i_seq as (F & N0). split.
      * pose proof (Forall_perm _ _ _ _ PM F) as F'. inversion F'; auto.
      * pose proof (Permutation_NoDup (Permutation_map iseq PM) N0) as N'. inversion N'; auto.
    + rewrite i_ctg. apply Permutation_app_head.
      rewrite (qctg_perm _ _ PM), qctg_cons. unfold is_tok_item.
      destruct (ttok (itask it)) eqn:TK.
      * apply Permutation_app_tail. rewrite (inflight_upd_noseg _ _ _ _ E); auto; cbn;
          destruct Hpc; subst p; discriminate.
      * rewrite (inflight_upd_enter _ i _ _ (iseq it) E); cbn; auto.
        -- apply Permutation_sym, Permutation_middle.
        -- destruct Hpc; subst p; discriminate.
    + auto.
Qed.

(* ---------------------------------------------------------------------------------------- barrier *)
Lemma inv_arrive : forall s i wk k s',
  Inv s -> nth_error (ws s) i = Some wk -> pc wk = WBar k ->
  step_arrive pa s i wk k = Some s' -> Inv s'.
Proof.
  intros s i wk k s' HI E Hpc H.
  pose proof (wf_at _ _ _ HI E) as Hw.
  destruct wk as [p r]. cbn [pc] in Hpc. subst p.
  unfold wfw in Hw. cbn [pc wrounds] in Hw. destruct Hw as (Hk & Hr).
  assert (NX : is_exited (mkW (WBar k) r) = false) by reflexivity.
  pose proof (not_done_if_active _ _ _ HI E NX) as ND.
  unfold step_arrive in H.
  destruct (4 <=? k) eqn:K4; [discriminate|]. apply Nat.leb_gt in K4.
  destruct (S (bcount s) <? nthr pa) eqn:LT.
  - (* not the last one *)
    apply Nat.ltb_lt in LT. inversion H; subst s'; clear H.
    set (wk' := set_pc (mkW (WBar k) r) (WBarW k (bgen s))).
    pose proof (cnt_upd _ is_waitE i wk' _ _ E) as CW.
    pose proof (cnt_upd _ is_wokenE i wk' _ _ E) as CK.
    pose proof (cnt_upd _ is_exited i wk' _ _ E) as CX.
    pose proof (cnt_upd _ (barcur (bgen s)) i wk' _ _ E) as CB.
    pose proof (cnt_upd _ (insec (bgen s)) i wk' _ _ E) as CS.
    unfold wk' in *. revert CW CK CX CB CS. wk_simpl. rewrite Nat.eqb_refl, Bool.orb_true_r. cbn [b2n].
    intros CW CK CX CB CS.
    destruct HI. constructor; flds; auto.
    + rewrite upd_length; auto.
    + apply Forall_upd; auto. unfold stg in *. flds. wk_simpl. left. auto.
    + destruct i_bc. split; lia.
    + unfold nsec, ntok_items, ntok_todo in *. flds. lia.
    + intros C P. specialize (i_wake C). lia.
    + intros P. apply i_ex. lia.
    + intros D. contradiction.
    + rewrite (inflight_upd_noseg _ _ _ _ E); auto; cbn; discriminate.
  - (* the last one: the generation changes *)
    apply Nat.ltb_ge in LT. inversion H; subst s'; clear H.
    destruct HI.
    destruct i_bc as (BC & BL).
    assert (BN : cnt (barcur (bgen s)) (ws s) + 1 = length (ws s)) by lia.
    assert (OT : forall j y, j <> i -> nth_error (ws s) j = Some y ->
                 pc y = WBarW k (bgen s) /\ wrounds y = r).
    { intros j y ne Ey.
      pose proof (cnt_others _ _ _ _ _ BN E eq_refl j y ne Ey) as By.
      rewrite Forall_nth in i_wf. specialize (i_wf _ _ Ey).
      unfold barcur in By. unfold wfw in i_wf. destruct (pc y); try discriminate.
      apply Nat.eqb_eq in By. subst g. destruct i_wf as [(_ & A & B)|(A & _)]; [|lia].
      split; congruence. }
    set (wk' := after_bar k (mkW (WBar k) r)).
    set (g' := S (bgen s)).
    set (gr' := if k =? 3 then S (ground s) else ground s).
    assert (ST : stg s = k) by lia. unfold stg in ST.
    (* every worker of the new list *)
    assert (NW : forall j y, nth_error (upd i wk' (ws s)) j = Some y ->
                 (j = i /\ y = wk') \/ (j <> i /\ pc y = WBarW k (bgen s) /\ wrounds y = r)).
    { intros j y Ey. apply nth_error_upd in Ey. destruct Ey as [(A & B & _)|(A & B)]; [left; auto|right].
      split; [auto|]. apply (OT j y); auto. }
    constructor; flds; auto.
    + rewrite upd_length; auto.
    + unfold gr'. destruct (Nat.eqb_spec k 3); lia.
    + apply Forall_nth. intros j y Ey. destruct (NW _ _ Ey) as [(_ & ->)|(_ & P & Q)].
      * unfold wk', after_bar, wfw, stg, gr'. flds. destruct (Nat.eqb_spec k 3); cbn [pc wrounds]; lia.
      * unfold wfw, stg, gr'. flds. rewrite P. right. destruct (Nat.eqb_spec k 3); lia.
    + split; [|lia]. symmetry. apply cnt_all_false. intros j y Ey.
      destruct (NW _ _ Ey) as [(_ & ->)|(_ & P & Q)]; unfold barcur.
      * unfold wk', after_bar. destruct (k =? 3); reflexivity.
      * rewrite P. apply Nat.eqb_neq. lia.
    + (* token accounting: before, all N workers are in the section *)
      assert (SB : nsec s = length (ws s)).
      { unfold nsec. apply cnt_all_true. intros j y Ey. unfold insec.
        destruct (Nat.eq_dec j i) as [->|ne].
        - rewrite E in Ey. inversion Ey; subst y. reflexivity.
        - destruct (OT _ _ ne Ey) as (P & _). rewrite P. rewrite Nat.eqb_refl. apply Bool.orb_true_r. }
      unfold nsec, ntok_items, ntok_todo in *. flds.
      destruct (Nat.eqb_spec k 3) as [K3|K3].
      * assert (SA : cnt (insec (S (bgen s))) (upd i wk' (ws s)) = 0).
        { apply cnt_all_false. intros j y Ey. unfold insec.
          destruct (NW _ _ Ey) as [(_ & ->)|(_ & P & Q)].
          - unfold wk', after_bar. destruct (Nat.eqb_spec k 3); [reflexivity|lia].
          - rewrite P. destruct (Nat.eqb_spec k 3); [|lia]. cbn. apply Nat.eqb_neq. lia. }
        unfold gr', g'. destruct (Nat.eqb_spec k 3); [|lia]. rewrite SA. lia.
      * assert (SA : cnt (insec (S (bgen s))) (upd i wk' (ws s)) = length (ws s)).
        { rewrite <- (upd_length _ i wk' (ws s)). apply cnt_all_true. intros j y Ey. unfold insec.
          destruct (NW _ _ Ey) as [(_ & ->)|(_ & P & Q)].
          - unfold wk', after_bar. destruct (Nat.eqb_spec k 3); [lia|reflexivity].
          - rewrite P. destruct (Nat.eqb_spec k 3); [lia|reflexivity]. }
        unfold gr', g'. destruct (Nat.eqb_spec k 3); [lia|]. rewrite SA. lia.
    + intros C P. exfalso.
      assert (Z : cnt is_waitE (upd i wk' (ws s)) = 0).
      { apply cnt_all_false. intros j y Ey. unfold is_waitE.
        destruct (NW _ _ Ey) as [(_ & ->)|(_ & Q & _)].
        - unfold wk', after_bar. destruct (k =? 3); reflexivity.
        - rewrite Q. reflexivity. }
      lia.
    + intros P. exfalso.
      assert (Z : cnt is_exited (upd i wk' (ws s)) = 0).
      { apply cnt_all_false. intros j y Ey. unfold is_exited.
        destruct (NW _ _ Ey) as [(_ & ->)|(_ & Q & _)].
        - unfold wk', after_bar. destruct (k =? 3); reflexivity.
        - rewrite Q. reflexivity. }
      lia.
    + intros D. contradiction.
    + rewrite (inflight_upd_noseg _ _ _ _ E); auto; cbn; try discriminate.
      unfold wk', after_bar. destruct (k =? 3); cbn; discriminate.
Qed.

Lemma inv_leave : forall s i wk k g,
  Inv s -> nth_error (ws s) i = Some wk -> pc wk = WBarW k g -> g <> bgen s ->
  Inv (set_ws s (upd i (after_bar k wk) (ws s))).
Proof.
  intros s i wk k g HI E Hpc Hg.
  pose proof (wf_at _ _ _ HI E) as Hw.
  destruct wk as [p r]. cbn [pc] in Hpc. subst p.
  unfold wfw in Hw. cbn [pc wrounds] in Hw.
  assert (GB : 4 * ground s <= bgen s < 4 * ground s + 4) by (destruct HI; auto).
  destruct Hw as [(A & _)|(A & Hw)]; [congruence|].
  assert (Gne : (g =? bgen s) = false) by (apply Nat.eqb_neq; auto).
  unfold after_bar. unfold stg in *.
  destruct (Nat.eqb_spec k 3) as [K3|K3];
    apply inv_frame_quiet with (wk := mkW (WBarW k g) r); auto; wk_simpl; try discriminate; try reflexivity;
    unfold stg; try rewrite Gne; try lia.
Qed.

(* -------------------------------------------------------------------------------------- step_work *)
Lemma same_core_refl_ws : forall s c rb rs,
  same_core s (mkState (items s) (cur s) (closed s) (nseq s) (pst s) (todo s) (ws s) (bcount s) (bgen s) c
                       (ground s) (pushed s) (segd s) rb rs).
Proof. intros. unfold same_core. cbn. repeat split; reflexivity. Qed.

Lemma inv_step_work : forall s i sq nb s', Inv s -> step_work pa s i sq nb = Some s' -> Inv s'.
Proof.
  intros s i sq nb s' HI H. unfold step_work in H.
  destruct (nth_error (ws s) i) as [wk|] eqn:E; [|discriminate].
  pose proof (wf_at _ _ _ HI E) as Hw.
  destruct (pc wk) as [| | |q|k|k g|k|] eqn:Hpc.
  - eapply inv_pull; eauto.
  - (* WWaitE, closed *)
    destruct (closed s) eqn:C; [|discriminate]. inversion H; subst s'; clear H.
    destruct wk as [p r]. cbn [pc] in Hpc. subst p.
    apply inv_frame with (wk := mkW WWaitE r); auto; wk_simpl; auto; try discriminate; try congruence.
  - eapply inv_pull; eauto.
  - (* WSeg *)
    inversion H; subst s'; clear H.
    destruct wk as [p r]. cbn [pc] in Hpc. subst p.
    set (wk' := set_pc (mkW (WSeg q) r) WPull).
    pose proof (cnt_upd _ is_waitE i wk' _ _ E) as CW.
    pose proof (cnt_upd _ is_wokenE i wk' _ _ E) as CK.
    pose proof (cnt_upd _ is_exited i wk' _ _ E) as CX.
    pose proof (cnt_upd _ (barcur (bgen s)) i wk' _ _ E) as CB.
    pose proof (cnt_upd _ (insec (bgen s)) i wk' _ _ E) as CS.
    assert (NX : is_exited (mkW (WSeg q) r) = false) by reflexivity.
    pose proof (not_done_if_active _ _ _ HI E NX) as ND.
    unfold wk' in *. revert CW CK CX CB CS. wk_simpl. intros CW CK CX CB CS.
    destruct HI. constructor; flds; auto.
    + rewrite upd_length; auto.
    + apply Forall_upd; auto.
    + destruct i_bc. split; lia.
    + unfold nsec, ntok_items, ntok_todo in *. flds. lia.
    + intros C P. specialize (i_wake C). lia.
    + intros P. apply i_ex. lia.
    + intros D. contradiction.
    + rewrite i_ctg.
      rewrite (inflight_upd_leave _ i (mkW WPull r) _ q E); cbn [pc]; auto; try discriminate.
      cbn [app]. apply Permutation_sym, Permutation_middle.
  - eapply inv_arrive; eauto.
  - destruct (Nat.eqb_spec g (bgen s)); [discriminate|]. inversion H; subst s'; clear H.
    eapply inv_leave; eauto.
  - (* phases *)
    destruct wk as [p r]. cbn [pc] in Hpc. subst p.
    unfold wfw in Hw. cbn [pc wrounds] in Hw.
    assert (F : forall k', S k = k' -> Inv (set_ws s (upd i (set_pc (mkW (WPhase k) r) (WBar k')) (ws s)))).
    { intros k' K. apply inv_frame_quiet with (wk := mkW (WPhase k) r); auto; wk_simpl; try discriminate; auto.
      lia. }
    destruct k as [|[|[|k]]]; [| | |discriminate].
    + destruct (i =? 0); inversion H; subst s'; clear H.
      * eapply inv_core; [apply (F 1 eq_refl)|]. unfold same_core. cbn. repeat split; reflexivity.
      * apply (F 1 eq_refl).
    + destruct (claimable s) eqn:CL; inversion H; subst s'; clear H.
      * apply (F 2 eq_refl).
      * eapply inv_core; [apply HI|]. apply same_core_refl_ws.
    + destruct (i =? 0); inversion H; subst s'; clear H.
      * eapply inv_core; [apply (F 3 eq_refl)|]. unfold same_core. cbn. repeat split; reflexivity.
      * apply (F 3 eq_refl).
  - discriminate.
Qed.

(* --------------------------------------------------------------------------------------- producer *)
Definition ws_ok (s : state) (l : list worker) : Prop :=
  length l = length (ws s) /\
  Forall (wfw (bgen s) (stg s) (ground s)) l /\
  cnt (barcur (bgen s)) l = cnt (barcur (bgen s)) (ws s) /\
  cnt (insec (bgen s)) l = cnt (insec (bgen s)) (ws s) /\
  cnt is_exited l = cnt is_exited (ws s) /\
  inflight l = inflight (ws s) /\
  (0 < cnt is_waitE l -> 0 < cnt is_waitE (ws s) /\ cnt is_wokenE (ws s) + 1 <= cnt is_wokenE l).

Lemma notify_ok : forall s ntf l, Inv s -> notify_empty (ws s) ntf = Some l -> ws_ok s l.
Proof.
  intros s ntf l HI H. unfold notify_empty in H. destruct ntf as [j|].
  - destruct (nth_error (ws s) j) as [w|] eqn:E; [|discriminate].
    destruct (is_waitE w) eqn:W; [|discriminate]. inversion H; subst l; clear H.
    pose proof (wf_at _ _ _ HI E) as Hw.
    destruct w as [p r]. unfold is_waitE in W. cbn [pc] in W. destruct p; try discriminate.
    set (wk' := set_pc (mkW WWaitE r) WWokenE).
    pose proof (cnt_upd _ is_waitE j wk' _ _ E) as CW.
    pose proof (cnt_upd _ is_wokenE j wk' _ _ E) as CK.
    pose proof (cnt_upd _ is_exited j wk' _ _ E) as CX.
    pose proof (cnt_upd _ (barcur (bgen s)) j wk' _ _ E) as CB.
    pose proof (cnt_upd _ (insec (bgen s)) j wk' _ _ E) as CS.
    unfold wk' in *. revert CW CK CX CB CS. wk_simpl. intros CW CK CX CB CS.
    unfold ws_ok. repeat split; try lia.
    + apply upd_length.
    + destruct HI. apply Forall_upd; auto.
    + apply (inflight_upd_noseg _ _ _ _ E); cbn; discriminate.
  - destruct (existsb is_waitE (ws s)) eqn:X; [discriminate|]. inversion H; subst l; clear H.
    apply existsb_cnt in X. unfold ws_ok. repeat split; auto; try lia.
    destruct HI; auto.
Qed.

Lemma inv_admit : forall s t rest l,
  Inv s -> closed s = false -> (pst s = PRun \/ pst s = PWokenF) -> todo s = OPush t :: rest -> ws_ok s l ->
  Inv (mkState (mkItem (nseq s) t :: items s) (cur s + tsize t)%N (closed s) (nseq s + 1)%N PRun rest l
               (bcount s) (bgen s) (claimable s) (ground s)
               (if ttok t then pushed s else nseq s :: pushed s) (segd s) (rawbuf s) (rounds s)).
Proof.
  intros s t rest l HI C P T (L & F & CB & CS & CX & IF & WK).
  destruct HI. constructor; flds; auto.
  - lia.
  - destruct i_bc. split; lia.
  - unfold nsec, ntok_items, ntok_todo in *. flds. rewrite T in i_tok. cbn [cnt is_tok_op] in *.
    change (is_tok_item {| iseq := nseq s; itask := t |}) with (ttok t). rewrite CS. lia.
  - intros _ U. destruct (WK U) as (U0 & K1). specialize (i_wake C U0). cbn [length]. lia.
  - discriminate.
  - cbn [sumsz itask]. lia.
  - rewrite C. split; [split; [discriminate | intros [H|H]; discriminate] | discriminate].
  - intros [H|H]; discriminate.
  - intros X. rewrite CX in X. destruct (i_ex X). congruence.
  - discriminate.
  - destruct i_seq as (FS & ND). split.
    + constructor; cbn [iseq]; [lia|]. eapply Forall_impl; [|apply FS]. cbn. intros; lia.
    + cbn [map iseq]. constructor; auto. intros I. apply in_map_iff in I. destruct I as (x & Ex & Ix).
      rewrite Forall_forall in FS. specialize (FS x Ix). lia.
  - rewrite IF, qctg_cons. unfold is_tok_item. cbn [itask iseq].
    destruct (ttok t); auto.
    rewrite i_ctg. rewrite !app_assoc. apply Permutation_middle.
  - rewrite T in i_nctg. unfold nctg_todo in *. cbn [cnt] in i_nctg.
    destruct (ttok t); cbn [negb b2n length] in *; lia.
Qed.

Lemma inv_push : forall s t rest ntf s',
  Inv s -> (pst s = PRun \/ pst s = PWokenF) -> todo s = OPush t :: rest ->
  step_push pa s t rest ntf = Some s' -> Inv s'.
Proof.
  intros s t rest ntf s' HI P T H. unfold step_push in H.
  destruct (closed s) eqn:C; [discriminate|].
  destruct (push_blocked pa s (tsize t)) eqn:B.
  - inversion H; subst s'; clear H.
    unfold push_blocked in B. rewrite Hrule, C in B. cbn in B.
    destruct HI. constructor; flds; auto.
    + intros _. lia.
    + rewrite C. split; [split; [discriminate | intros [H|H]; discriminate] | discriminate].
    + intros _. eauto.
    + discriminate.
  - unfold do_admit in H. destruct (notify_empty (ws s) ntf) as [l|] eqn:NE; [|discriminate].
    inversion H; subst s'; clear H.
    apply inv_admit; auto. eapply notify_ok; eauto.
Qed.

Lemma inv_step_prod : forall s ntf s', Inv s -> step_prod pa s ntf = Some s' -> Inv s'.
Proof.
  intros s ntf s' HI H. unfold step_prod in H.
  destruct (pst s) eqn:P.
  - destruct (todo s) as [|[t|] rest] eqn:T.
    + (* close *)
      destruct (closed s) eqn:C; [discriminate|]. inversion H; subst s'; clear H.
      destruct HI. constructor; flds; auto; try discriminate.
      * split; [split; auto | auto].
      * intros [H|H]; discriminate.
      * intros X. destruct (i_ex X). congruence.
    + eapply inv_push; eauto.
    + destruct (items s) eqn:EI; inversion H; subst s'; clear H; [|auto].
      destruct HI. constructor; flds; auto.
      * unfold nsec, ntok_items, ntok_todo in *. flds. rewrite T in i_tok. cbn [cnt is_tok_op b2n] in i_tok. lia.
      * destruct i_closed as (A & B). split; auto. intros C. specialize (B C). congruence.
      * intros [H|H]; congruence.
      * rewrite T in i_nctg. unfold nctg_todo in *. cbn [cnt b2n] in i_nctg. lia.
  - discriminate.
  - destruct (todo s) as [|[t|] rest] eqn:T; try discriminate.
    eapply inv_push; eauto.
  - destruct (forallb is_exited (ws s)) eqn:FA; [|discriminate]. inversion H; subst s'; clear H.
    apply forallb_cnt in FA.
    destruct HI. constructor; flds; auto.
    + discriminate.
    + destruct i_closed as (A & B). split; auto. split; auto. intros _. apply A. auto.
    + intros [H|H]; discriminate.
    + intros _. lia.
  - discriminate.
Qed.

Lemma inv_step : forall s l s', Inv s -> step pa s l = Some s' -> Inv s'.
Proof.
  intros s l s' HI H. destruct l as [ntf|w sq nb|w|]; cbn [step] in H.
  - eapply inv_step_prod; eauto.
  - eapply inv_step_work; eauto.
  - destruct (nth_error (ws s) w) as [wk|] eqn:E; [|discriminate].
    destruct (is_waitE wk) eqn:W; [|discriminate]. inversion H; subst s'; clear H.
    pose proof (wf_at _ _ _ HI E) as Hw.
    destruct wk as [p r]. unfold is_waitE in W. cbn [pc] in W. destruct p; try discriminate.
    apply inv_frame with (wk := mkW WWaitE r); auto; wk_simpl; auto; try discriminate.
    intros C U.
    pose proof (cnt_upd _ is_waitE w (set_pc (mkW WWaitE r) WWokenE) _ _ E) as CW.
    pose proof (cnt_upd _ is_wokenE w (set_pc (mkW WWaitE r) WWokenE) _ _ E) as CK.
    revert CW CK U. wk_simpl. intros CW CK U. destruct HI. specialize (i_wake C). lia.
  - destruct (pst s) eqn:P; try discriminate. inversion H; subst s'; clear H.
    destruct HI. constructor; flds; auto; try discriminate.
    destruct i_closed as (A & B). split; auto. rewrite A, P. split; intros [H|H]; discriminate.
Qed.

Theorem inv_reachable_all : 1 <= nthr pa -> forall s, reachable pa script s -> Inv s.
Proof.
  intros Hn s R. induction R.
  - apply inv_init. auto.
  - eapply inv_step; eauto.
Qed.

End Steps.
