(* LZ_int.v - append_int / read_int round trip *)
From Coq Require Import Lia ZifyBool ZifyN ZifyNat.
From Ragc Require Import LZ_base.

Definition nodigit (r : list N) : Prop :=
  match r with [] => True | c :: _ => is_digit c = false end.

Lemma read_digits_nodigit r x : nodigit r -> read_digits r x = Ok (x, r).
Proof. destruct r; cbn [read_digits nodigit]; intros; auto. now rewrite H. Qed.

Lemma digits_go_app f : forall x a r, digits_go f x (a ++ r) = digits_go f x a ++ r.
Proof.
  induction f; intros; cbn [digits_go]; auto.
  destruct (x =? 0); auto. rewrite app_comm_cons. apply IHf.
Qed.

Lemma is_digit_mod x : is_digit (digit0 + x mod radix) = true.
Proof.
  unfold is_digit. consts. assert (x mod 10 < 10) by (apply N.mod_lt; lia). lia.
Qed.

Lemma digits_go_read f : forall x acc,
  x < 10 ^ N.of_nat f -> (Z.of_N x <= i64_max)%Z ->
  read_digits (digits_go f x acc) 0 = read_digits acc (Z.of_N x).
Proof.
  induction f; intros x acc Hx Hm.
  - cbn in Hx. assert (x = 0) by lia. subst. reflexivity.
  - cbn [digits_go]. destruct (x =? 0) eqn:E.
    + assert (x = 0) by lia. subst. reflexivity.
    + assert (D := N.div_mod x 10 ltac:(lia)). assert (M : x mod 10 < 10) by (apply N.mod_lt; lia).
      rewrite IHf.
      * cbn [read_digits]. rewrite is_digit_mod. consts.
        replace (Z.of_N (x / 10) * Z.of_N 10 + Z.of_N (48 + x mod 10 - 48))%Z with (Z.of_N x) by lia.
        destruct (Z.of_N x <=? i64_max)%Z eqn:E2; auto. lia.
      * consts. replace (N.of_nat (S f)) with (N.succ (N.of_nat f)) in Hx by lia.
        rewrite N.pow_succ_r' in Hx. apply N.div_lt_upper_bound; lia.
      * consts. assert (x / 10 <= x) by (apply N.div_le_upper_bound; lia). lia.
Qed.

Lemma digits_go_head f : forall x acc d a,
  acc = d :: a -> is_digit d = true -> exists d' a', digits_go f x acc = d' :: a' /\ is_digit d' = true.
Proof.
  induction f; intros; cbn [digits_go]; subst; eauto.
  destruct (x =? 0); eauto. eapply IHf; eauto. apply is_digit_mod.
Qed.

Lemma digits_go_all f : forall x acc, Forall (fun c => is_digit c = true) acc ->
  Forall (fun c => is_digit c = true) (digits_go f x acc).
Proof.
  induction f; intros; cbn [digits_go]; auto. destruct (x =? 0); auto.
  apply IHf. constructor; auto. apply is_digit_mod.
Qed.

Definition int_ok (z : Z) : Prop := (- i64_max <= z <= i64_max)%Z.

Lemma i64_max_lt : (i64_max < 10 ^ 20)%Z.
Proof. reflexivity. Qed.

Theorem read_int_append_int_proof : forall z r, int_ok z -> nodigit r ->
  read_int (append_int z ++ r) = Ok (z, r).
Proof.
  intros z r Hz Hr. unfold append_int. destruct (z =? 0)%Z eqn:E0.
  - assert (z = 0%Z) by lia. subst. cbn [app read_int]. consts.
    replace (48 =? 45) with false by reflexivity. cbn [read_digits].
    replace (is_digit 48) with true by reflexivity. cbn -[read_digits].
    now apply read_digits_nodigit.
  - assert (B : Z.abs_N z < 10 ^ N.of_nat 20).
    { unfold int_ok, i64_max in Hz. change (10 ^ N.of_nat 20) with 100000000000000000000. lia. }
    assert (B2 : (Z.of_N (Z.abs_N z) <= i64_max)%Z) by (unfold int_ok in Hz; lia).
    destruct (z <? 0)%Z eqn:En.
    + cbn [app read_int]. replace (minus_byte =? minus_byte) with true by reflexivity.
      rewrite <- (app_nil_l r), <- digits_go_app, digits_go_read by auto. cbn [app].
      rewrite read_digits_nodigit by auto. cbn [obnd fst snd]. do 2 f_equal. lia.
    + cbn [app].
      destruct (digits_go_head 19 (Z.abs_N z / radix) [digit0 + Z.abs_N z mod radix] _ _ eq_refl (is_digit_mod _))
        as (d & a & Hd & Hdig).
      assert (Hg : digits_go 20 (Z.abs_N z) [] = d :: a).
      { change 20%nat with (S 19). cbn [digits_go]. destruct (Z.abs_N z =? 0) eqn:E; [lia|]. exact Hd. }
      assert (Hm : d =? minus_byte = false). { unfold is_digit in Hdig. consts. lia. }
      unfold read_int. rewrite Hg. cbn [app]. rewrite Hm. rewrite app_comm_cons, <- Hg.
      rewrite <- (app_nil_l r), <- digits_go_app, digits_go_read by auto. cbn [app].
      rewrite read_digits_nodigit by auto. do 2 f_equal. lia.
Qed.

(* the serialised integer consists of an optional minus sign and digits *)
Definition int_byte (c : N) : Prop := c = minus_byte \/ is_digit c = true.
Lemma append_int_bytes z : Forall int_byte (append_int z).
Proof.
  unfold append_int. destruct (z =? 0)%Z. { constructor; auto. right. reflexivity. }
  apply Forall_app. split.
  - destruct (z <? 0)%Z; constructor; auto. now left.
  - eapply Forall_impl; [|apply digits_go_all; constructor]. intros. now right.
Qed.
Lemma append_int_head z : exists c a, append_int z = c :: a /\ int_byte c.
Proof.
  assert (H := append_int_bytes z). destruct (append_int z) eqn:E.
  - exfalso. unfold append_int in E. destruct (z =? 0)%Z eqn:E0; [discriminate|].
    destruct (z <? 0)%Z; [discriminate|]. cbn [app] in E.
    change (digits_go 20 (Z.abs_N z) []) with
      (if Z.abs_N z =? 0 then [] else digits_go 19 (Z.abs_N z / radix) [digit0 + Z.abs_N z mod radix]) in E.
    destruct (Z.abs_N z =? 0) eqn:E1; [lia|].
    destruct (digits_go_head 19 (Z.abs_N z / radix) [digit0 + Z.abs_N z mod radix] _ _ eq_refl (is_digit_mod _))
      as (d & a & Hd & _). congruence.
  - inversion H; subst. eauto.
Qed.
