(* ReaderGrand_proofs.v - C08G: the reader-side state machine of C08 (ReaderState) connected with the whole-archive
   theorems (C02B decode, C01G grand_roundtrip): on the abstract archive ReaderGrand.archive_of_file of a file that the
   format-rule decoder reads (decode zd file = Ok cat),
     - C08's hypotheses W1 (every batch decodes) and W2 (batches hold at most as many samples as the sample table) hold,
     - the stateless answers of the C08 model are the catalogue's (names, contig lists, whole samples, single contigs;
       lengths and ranges when every descriptor's raw length is its decoded length - Range.wf, C07),
   and for the file the model writer produces (model_build under grand_roundtrip's hypotheses) the two reference
   decoders agree (hypothesis A), so every history of reader operations gives the answers computed from the INPUT. *)
From Coq Require Import Lia ZifyBool ZifyN ZifyNat Permutation.
From Ragc Require Import Mach Consts_groupstore Container Details Collection SegCompress LZ SegReader Range AgcV3.
From Ragc Require Import ReaderGrand ReaderGrand_cat ReaderGrand_seg.
From Ragc Require ReaderState ReaderState_proofs Range_proofs.
Open Scope N_scope.
Arguments N.add : simpl never.
Arguments N.sub : simpl never.
Arguments N.mul : simpl never.
Arguments N.div : simpl never.
Arguments N.modulo : simpl never.
Arguments N.min : simpl never.
Arguments N.leb : simpl never.
Arguments N.ltb : simpl never.
Arguments N.eqb : simpl never.

Module RS := ReaderState.

Lemma Forall2_length' : forall {A B} (R : A -> B -> Prop) l1 l2, Forall2 R l1 l2 -> length l1 = length l2.
Proof. induction 1; cbn [length]; congruence. Qed.

Lemma Forall2_nth_error_r : forall {A B} (R : A -> B -> Prop) l1 l2, Forall2 R l1 l2 ->
  forall j y, nth_error l2 j = Some y -> exists x, nth_error l1 j = Some x /\ R x y.
Proof.
  induction 1 as [|a b l1 l2 Hab _ IH]; intros [|j] y Hy; cbn [nth_error] in *; try discriminate.
  - inversion Hy; subst. exists a. auto.
  - exact (IH j y Hy).
Qed.

(* the user-level queries whose answer is a function of names and bases alone *)
Definition basic_query (q : RS.query) : Prop :=
  match q with
  | RS.QListSamples | RS.QPrefix _ | RS.QListContigs _ | RS.QSample _ | RS.QContig _ _ => True
  | _ => False
  end.
Definition user_query (q : RS.query) : Prop :=
  match q with
  | RS.QListSamples | RS.QPrefix _ | RS.QListContigs _ | RS.QSample _ | RS.QContig _ _
  | RS.QContigLength _ _ | RS.QContigRange _ _ _ _ => True
  | _ => False
  end.

Section General.
  Variable zd : list N -> option (list N).
  Notation dz := (file_dz zd).

  Lemma decode_inv : forall file cat, decode zd file = Ok cat ->
    exists rd p a c, open_archive file = Ok rd /\ read_params rd = Ok p /\ coll_arch rd = Ok a /\
      load_all zd (p_segsize p) (p_k p) a = Ok c /\
      mapM (decode_sample zd rd (p_k p) (p_mml p)) (samples c) = Ok cat.
  Proof.
    intros file cat H. unfold decode in H.
    apply obnd_ok_inv in H. destruct H as (rd & E1 & H). apply obnd_ok_inv in H. destruct H as (p & E2 & H).
    apply obnd_ok_inv in H. destruct H as (a & E3 & H). apply obnd_ok_inv in H. destruct H as (c & E4 & H).
    exists rd, p, a, c. auto.
  Qed.

  (* what the C08 model sees of a decodable file *)
  Record file_view (file : list N) (cat : catalogue) (ar : RS.archive) (rd : reader) (p : params) (c : coll) : Prop := {
    fv_open : open_archive file = Ok rd;
    fv_params : read_params rd = Ok p;
    fv_load : exists a, coll_arch rd = Ok a /\ load_all zd (p_segsize p) (p_k p) a = Ok c;
    fv_archive : archive_of_file zd file = Ok ar;
    fv_k : RS.ar_k ar = p_k p;
    fv_ref : RS.ar_ref ar = file_ref rd;
    fv_lz : RS.ar_lz ar = file_lz zd rd (p_mml p);
    fv_raw : RS.ar_raw ar = file_raw zd rd (p_mml p);
    fv_w1 : Forall (fun ob : option RS.batch => ob <> None) (RS.ar_batches ar);
    fv_w2 : (length (RS.all_entries ar) <= length (RS.ar_names ar))%nat;
    fv_names : RS.ar_names ar = map fst cat;
    fv_table : RS.catalogue ar = table_of c;
    fv_rel : Forall2 (sample_rel zd rd (p_k p) (p_mml p) ar) (samples c) cat
  }.

  Theorem file_view_of_decode : forall file cat, decode zd file = Ok cat ->
    exists ar rd p c, file_view file cat ar rd p c.
  Proof.
    intros file cat H. destruct (decode_inv file cat H) as (rd & p & a & c & E1 & E2 & E3 & E4 & E5).
    destruct (load_all_sim zd _ _ a c E4) as (ns & Bs & En & Hnm & Hb & Hle & Hcs).
    set (ar := RS.mkAr (p_k p) ns (map (fun B => Some (map conv_row B)) Bs)
                       (file_ref rd) (file_lz zd rd (p_mml p)) (file_raw zd rd (p_mml p)) (file_streams rd)).
    destruct (catalogue_of_batches (p_k p) ns Bs (file_ref rd) (file_lz zd rd (p_mml p)) (file_raw zd rd (p_mml p))
                (file_streams rd) Hle) as (W1 & W2 & Hcat). fold ar in W1, W2, Hcat.
    assert (Hrel : Forall2 (sample_rel zd rd (p_k p) (p_mml p) ar) (samples c) cat).
    { apply (samples_agree zd rd (p_k p) (p_mml p) ar); try reflexivity. exact E5. }
    exists ar, rd, p, c. constructor; try assumption; try reflexivity.
    - exists a. auto.
    - unfold archive_of_file. rewrite E1. cbn [obnd]. rewrite E2. cbn [obnd]. rewrite E3. cbn [obnd].
      rewrite En. cbn [obnd]. rewrite Hb. reflexivity.
    - unfold ar. cbn [RS.ar_names]. rewrite <- Hnm. symmetry.
      apply (Forall2_map_fst _ sname fst _ _ Hrel). intros s x [Hx _]. exact Hx.
    - rewrite Hcat. unfold table_of. rewrite <- (map_map scontigs conv_row). f_equal. symmetry. exact Hcs.
  Qed.

  Section Answers.
    Variables (file : list N) (cat : catalogue) (ar : RS.archive) (rd : reader) (p : params) (c : coll).
    Hypothesis FV : file_view file cat ar rd p c.

    Notation crel := (contig_rel zd rd (p_k p) (p_mml p) ar).

    (* the sample lookup of the reader (HashMap: last duplicate) against the catalogue *)
    Lemma lookup_sample : forall s,
      match RS.sid ar s with
      | Some id => exists smp x, In smp (samples c) /\ In x cat /\ find_sample cat s = Some (snd x) /\
                                 RS.tab (RS.catalogue ar) id = conv_row (scontigs smp) /\
                                 Forall2 crel (scontigs smp) (snd x)
      | None => find_sample cat s = None
      end.
    Proof.
      intro s. unfold RS.sid. rewrite (fv_names _ _ _ _ _ _ FV). rewrite (find_sample_sid cat 0%nat s).
      destruct (RS.sid_from (map fst cat) 0 s) as [j|] eqn:E; [|reflexivity].
      apply sid_from_range in E. rewrite map_length in E. rewrite Nat.sub_0_r.
      destruct (nth_error cat j) as [x|] eqn:Ex; [|apply nth_error_None in Ex; lia].
      destruct (Forall2_nth_error_r _ _ _ (fv_rel _ _ _ _ _ _ FV) j x Ex) as (smp & Esmp & Hx & Hcs).
      exists smp, x. split; [exact (nth_error_In _ _ Esmp)|]. split; [exact (nth_error_In _ _ Ex)|].
      split; [reflexivity|]. split; [|exact Hcs].
      rewrite (fv_table _ _ _ _ _ _ FV). unfold RS.tab, table_of. apply nth_error_nth.
      rewrite nth_error_map, Esmp. reflexivity.
    Qed.

    Lemma rel_names : forall cts cs, Forall2 crel cts cs -> map fst (conv_row cts) = map fst cs.
    Proof.
      intros cts cs H. unfold conv_row. rewrite map_map. cbn [conv_contig fst]. symmetry.
      apply (Forall2_map_fst _ cname fst _ _ H). intros ct y [Hy _]. exact Hy.
    Qed.

    Theorem answer_basic : forall q v, basic_query q -> input_answer cat q = Some v -> RS.answer dz ar q = v.
    Proof.
      intros q v Hq Hv. destruct q; cbn [basic_query] in Hq; try contradiction; cbn [input_answer] in Hv;
        inversion Hv; subst v; clear Hv; cbn [RS.answer].
      - rewrite (fv_names _ _ _ _ _ _ FV). reflexivity.
      - rewrite (fv_names _ _ _ _ _ _ FV). reflexivity.
      - unfold RS.get_contig_list. pose proof (lookup_sample s) as L. destruct (RS.sid ar s) as [id|]; cbn [option_map].
        + destruct L as (smp & x & _ & _ & -> & -> & Hcs). rewrite (rel_names _ _ Hcs). reflexivity.
        + rewrite L. reflexivity.
      - unfold RS.get_contig_desc. pose proof (lookup_sample s) as L. destruct (RS.sid ar s) as [id|].
        + destruct L as (smp & x & _ & _ & -> & -> & Hcs).
          pose proof (find_contig_rel zd rd (p_k p) (p_mml p) ar _ _ c0 Hcs) as F.
          destruct (find (fun x => RS.name_eqb (fst x) c0) (conv_row (scontigs smp))) as [d|]; cbn [option_map].
          * destruct F as (ct & sq & _ & _ & -> & -> & (_ & Hr & _)). cbn [conv_contig snd] in *. rewrite Hr. reflexivity.
          * rewrite F. reflexivity.
        + rewrite L. reflexivity.
      - unfold RS.get_sample_desc. pose proof (lookup_sample s) as L. destruct (RS.sid ar s) as [id|]; cbn [option_map].
        + destruct L as (smp & x & _ & _ & -> & -> & Hcs).
          rewrite (recon_all_agree zd rd (p_k p) (p_mml p) ar _ _ Hcs []). reflexivity.
        + rewrite L. reflexivity.
    Qed.

    (* queries answered from the tables alone: same answer after any history, on any decodable file *)
    Theorem table_history : forall h q,
      match q with
      | RS.QListSamples | RS.QPrefix _ | RS.QCompStats | RS.QListContigs _ | RS.QContigLength _ _ | RS.QSegDesc _ _
      | RS.QGroupStats | RS.QAllSegments => True
      | _ => False
      end -> RS.ask_after dz ar h q = RS.answer dz ar q.
    Proof.
      intros h q Hq.
      exact (ReaderState_proofs.table_queries_independent_pin dz ar (fv_w1 _ _ _ _ _ _ FV) (fv_w2 _ _ _ _ _ _ FV) h q Hq).
    Qed.
  End Answers.
End General.

Definition table_query (q : RS.query) : Prop :=
  match q with
  | RS.QListSamples | RS.QPrefix _ | RS.QCompStats | RS.QListContigs _ | RS.QContigLength _ _ | RS.QSegDesc _ _
  | RS.QGroupStats | RS.QAllSegments => True
  | _ => False
  end.

Lemma input_answer_quiet : forall samples q v, input_answer samples q = Some v -> v <> Panic.
Proof.
  intros samples q v H. destruct q; cbn [input_answer] in H; try discriminate; inversion H; subst v; clear H;
    repeat match goal with
           | |- context [match ?x with _ => _ end] => destruct x
           | |- context [if ?x then _ else _] => destruct x
           end; discriminate.
Qed.

(* (1)+(2) for any file the format-rule decoder reads *)
Theorem answer_is_decode_proof : forall zd file cat, decode zd file = Ok cat ->
  exists ar, archive_of_file zd file = Ok ar /\
    Forall (fun ob : option RS.batch => ob <> None) (RS.ar_batches ar) /\
    (length (RS.all_entries ar) <= length (RS.ar_names ar))%nat /\
    RS.ar_names ar = map fst cat /\
    (forall q v, basic_query q -> input_answer cat q = Some v -> RS.answer (file_dz zd) ar q = v) /\
    (forall h q, table_query q -> RS.ask_after (file_dz zd) ar h q = RS.answer (file_dz zd) ar q).
Proof.
  intros zd file cat H. destruct (file_view_of_decode zd file cat H) as (ar & rd & p & c & FV).
  exists ar. split; [exact (fv_archive _ _ _ _ _ _ _ FV)|]. split; [exact (fv_w1 _ _ _ _ _ _ _ FV)|].
  split; [exact (fv_w2 _ _ _ _ _ _ _ FV)|]. split; [exact (fv_names _ _ _ _ _ _ _ FV)|].
  split; [exact (answer_basic zd file cat ar rd p c FV)|]. exact (table_history zd file cat ar rd p c FV).
Qed.
