(* Names_len.v - LENGTH bounds for the name codec of model/Names.v (collection.rs: CollectionVarInt::encode,
   encode_split, serialize_contig_names, serialize_sample_names), and what the writer history needs from them.

   1. the codec, derived from the definitions (no domain hypothesis, any bytes, any previous name):
        cv_encode              at most 5 bytes
        flush                  at most 1 byte
        rle p c cnt            at most 2 * |c| + 1 bytes (each byte of the field pushes at most a marker and a literal,
                               one marker at the end)
        enc_field p c          at most 2 * |c| + 1 bytes (the "same" marker: 1; different length: |c|; else rle)
        encode_split prev cs   at most 2 * |join cs| + 1 bytes (n fields, n - 1 separators on both sides)
        one name               at most 2 * |name| + 2 bytes (plain NUL-terminated: |name| + 1; split form + NUL).
                               The bound is met: a name of s spaces after another such name costs s + 1 markers,
                               s separators and the NUL (see props/C03L.v name_bound_tight)
        ser_contigs / ser_sample / ser_names / ser_sample_names: sums of the above plus one varint per count
   2. the catalogue: every collection-samples / collection-contigs part Collection.store_all writes carries a
      metadata value <= 5 + 5 * cat_size (samples c), cat_size = name bytes + number of samples + number of contigs
      (store_contig_batch serialises a slice of the CURRENT sample list, whose contigs are cleared batch after batch:
       cat_size never grows); below 2^60 both streams stay below 2^64
   3. the writer: the catalogue Pipeline.create builds has the names of the input (Total_proofs.create_inv), so
      cat_size (mc_cat_of coll) = input_name_size samples, and parts_meta_u64 (b_wops b) follows from input-level
      hypotheses alone (LZ_len_store.parts_meta_u64_in_dom_proof for the other parts). *)
From Coq Require Import Lia ZifyBool ZifyN ZifyNat Permutation.
From Ragc Require Import Mach Consts_collection Consts_agcv3 CVarint Names Details Collection.
From Ragc Require Import Names_proofs.
Open Scope N_scope.
Arguments N.add : simpl never.
Arguments N.sub : simpl never.
Arguments N.mul : simpl never.
Arguments N.of_nat : simpl never.
Arguments N.to_nat : simpl never.

(* ================================================================ 0. sums *)
Fixpoint sum_over {A} (f : A -> N) (l : list A) : N :=
  match l with
  | [] => 0
  | x :: r => f x + sum_over f r
  end.

Lemma sum_over_app {A} (f : A -> N) a b : sum_over f (a ++ b) = sum_over f a + sum_over f b.
Proof. induction a as [|x a IH]; cbn [app sum_over]; [lia|]. rewrite IH. lia. Qed.

Lemma sum_over_map {A B} (g : A -> B) (f : B -> N) l : sum_over f (map g l) = sum_over (fun x => f (g x)) l.
Proof. induction l as [|x l IH]; cbn [map sum_over]; [reflexivity|]. rewrite IH. reflexivity. Qed.

Lemma sum_over_ext_in {A} (f g : A -> N) l : (forall x, In x l -> f x = g x) -> sum_over f l = sum_over g l.
Proof.
  induction l as [|x l IH]; intro H; cbn [sum_over]; [reflexivity|].
  rewrite (H x (or_introl eq_refl)), IH; [reflexivity|]. intros y Hy. apply H. right. exact Hy.
Qed.

Lemma sum_over_le_in {A} (f g : A -> N) l : (forall x, In x l -> f x <= g x) -> sum_over f l <= sum_over g l.
Proof.
  induction l as [|x l IH]; intro H; cbn [sum_over]; [lia|].
  pose proof (H x (or_introl eq_refl)). assert (sum_over f l <= sum_over g l) by (apply IH; intros y Hy; apply H; right; exact Hy). lia.
Qed.

Lemma sum_over_firstn {A} (f : A -> N) : forall n l, sum_over f (firstn n l) <= sum_over f l.
Proof.
  induction n as [|n IH]; intros [|x l]; cbn [firstn sum_over]; try lia. specialize (IH l). lia.
Qed.

Lemma sum_over_skipn {A} (f : A -> N) : forall n l, sum_over f (skipn n l) <= sum_over f l.
Proof.
  induction n as [|n IH]; intros [|x l]; cbn [skipn sum_over]; try lia. specialize (IH l). lia.
Qed.

Lemma lenN_concat_map {A} (g : A -> list N) l : lenN (concat (map g l)) = sum_over (fun x => lenN (g x)) l.
Proof. induction l as [|x l IH]; cbn [map concat sum_over]; [reflexivity|]. rewrite lenN_app, IH. reflexivity. Qed.

Lemma lenN1 (x : N) : lenN [x] = 1.
Proof. reflexivity. Qed.

(* ================================================================ 1. the codec *)
Lemma cv_encode_len n : lenN (cv_encode n) <= 5.
Proof.
  unfold cv_encode.
  destruct (n <? cv_thr_1). { unfold lenN. cbn [length]. lia. }
  destruct (n <? cv_thr_2). { unfold lenN. cbn [length]. lia. }
  destruct (n <? cv_thr_3). { unfold lenN. cbn [length]. lia. }
  destruct (n <? cv_thr_4); unfold lenN; cbn [length]; lia.
Qed.

Lemma flush_len cnt : lenN (flush cnt) <= 1.
Proof. unfold flush. destruct (0 <? cnt); unfold lenN; cbn [length]; lia. Qed.

Lemma rle_len : forall c p cnt, lenN (rle p c cnt) <= 2 * lenN c + 1.
Proof.
  induction c as [|cb c IH]; intros p cnt.
  - pose proof (flush_len cnt). destruct p; cbn [rle]; rewrite (@lenN_nil N); lia.
  - destruct p as [|pb p]; cbn [rle].
    + pose proof (flush_len cnt). rewrite lenN_cons. lia.
    + destruct (pb =? cb).
      * destruct (cnt =? run_cap).
        -- rewrite !lenN_cons. specialize (IH p 1). lia.
        -- rewrite lenN_cons. specialize (IH p (cnt + 1)). lia.
      * rewrite lenN_app, !lenN_cons. pose proof (flush_len cnt). specialize (IH p 0). lia.
Qed.

Lemma enc_field_len p c : lenN (enc_field p c) <= 2 * lenN c + 1.
Proof.
  unfold enc_field. destruct (beqb p c). { rewrite lenN1. lia. }
  destruct (negb (Nat.eqb (length p) (length c))). { lia. }
  apply rle_len.
Qed.

Lemma join_sp_cons2 f g fs : join_sp (f :: g :: fs) = f ++ 32 :: join_sp (g :: fs).
Proof. reflexivity. Qed.

Lemma enc_fields_nil_r prev : enc_fields prev [] = [].
Proof. destruct prev; reflexivity. Qed.

Lemma encode_split_len : forall cs prev, lenN (encode_split prev cs) <= 2 * lenN (join_sp cs) + 1.
Proof.
  unfold encode_split. induction cs as [|c cs IH]; intro prev.
  - rewrite enc_fields_nil_r. cbn [join_sp]. rewrite (@lenN_nil N). lia.
  - destruct prev as [|p prev]; cbn [enc_fields].
    + change (join_sp []) with (@nil N). rewrite (@lenN_nil N). lia.
    + pose proof (enc_field_len p c) as He. specialize (IH prev).
      destruct cs as [|c2 cs].
      * rewrite enc_fields_nil_r. cbn [join_sp]. exact He.
      * destruct prev as [|p2 prev].
        -- cbn [enc_fields]. rewrite join_sp_cons2, lenN_app. cbn [join_sp]. lia.
        -- cbn [enc_fields] in IH |- *.
           rewrite (join_sp_cons2 (enc_field p c)), (join_sp_cons2 c). rewrite !lenN_app, !lenN_cons. lia.
Qed.

(* the bytes one name adds to a contig-name stream *)
Lemma name_block_len prev nm :
  lenN (if negb (Nat.eqb (length (split_sp nm)) (length prev)) then enc_cstring nm
        else encode_split prev (split_sp nm) ++ [0]) <= 2 * lenN nm + 2.
Proof.
  destruct (negb (Nat.eqb (length (split_sp nm)) (length prev))).
  - unfold enc_cstring. rewrite lenN_app, lenN1. lia.
  - rewrite lenN_app, lenN1. pose proof (encode_split_len (split_sp nm) prev) as H. rewrite join_split in H. lia.
Qed.

Lemma ser_contigs_len : forall names prev,
  lenN (ser_contigs prev names) <= sum_over (fun nm => 2 * lenN nm + 2) names.
Proof.
  induction names as [|nm rest IH]; intro prev.
  - cbn [ser_contigs sum_over]. rewrite (@lenN_nil N). lia.
  - cbn [ser_contigs sum_over]. cbv zeta. rewrite lenN_app.
    pose proof (name_block_len prev nm). specialize (IH (split_sp nm)). lia.
Qed.

Lemma ser_contigs_one_len prev nm : lenN (ser_contigs prev [nm]) <= 2 * lenN nm + 2.
Proof. pose proof (ser_contigs_len [nm] prev) as H. cbn [sum_over] in H. lia. Qed.

Lemma ser_sample_len names : lenN (ser_sample names) <= 5 + sum_over (fun nm => 2 * lenN nm + 2) names.
Proof.
  unfold ser_sample. rewrite lenN_app. pose proof (cv_encode_len (wrap32 (lenN names))).
  pose proof (ser_contigs_len names []). lia.
Qed.

Lemma ser_names_len batch :
  lenN (ser_names batch) <= 5 + sum_over (fun names => 5 + sum_over (fun nm => 2 * lenN nm + 2) names) batch.
Proof.
  unfold ser_names. rewrite lenN_app, lenN_concat_map. pose proof (cv_encode_len (wrap32 (lenN batch))).
  assert (sum_over (fun x => lenN (ser_sample x)) batch <= sum_over (fun names => 5 + sum_over (fun nm => 2 * lenN nm + 2) names) batch).
  { apply sum_over_le_in. intros x _. apply ser_sample_len. }
  lia.
Qed.

Lemma ser_sample_names_len names : lenN (ser_sample_names names) <= 5 + sum_over (fun nm => lenN nm + 1) names.
Proof.
  unfold ser_sample_names. rewrite lenN_app, lenN_concat_map. pose proof (cv_encode_len (wrap32 (lenN names))).
  assert (sum_over (fun x => lenN (enc_cstring x)) names = sum_over (fun nm => lenN nm + 1) names).
  { apply sum_over_ext_in. intros x _. unfold enc_cstring. rewrite lenN_app, lenN1. reflexivity. }
  lia.
Qed.

(* ================================================================ 2. the catalogue *)
(* name bytes + number of samples + number of contigs *)
Definition cat_size (ss : list sample) : N :=
  sum_over (fun s => lenN (sname s) + 1 + sum_over (fun ct => lenN (cname ct) + 1) (scontigs s)) ss.

Lemma sum_over_double {A} (f : A -> N) l : sum_over (fun x => 2 * f x + 2) l = 2 * sum_over (fun x => f x + 1) l.
Proof. induction l as [|x l IH]; cbn [sum_over]; [reflexivity|]. rewrite IH. lia. Qed.

Lemma ser_names_cat ss : lenN (ser_names (names_of ss)) <= 5 + 5 * cat_size ss.
Proof.
  eapply N.le_trans; [apply ser_names_len|]. unfold names_of, cat_size. rewrite sum_over_map.
  assert (H : sum_over (fun x => 5 + sum_over (fun nm => 2 * lenN nm + 2) (map cname (scontigs x))) ss <=
              sum_over (fun s => 5 * (lenN (sname s) + 1 + sum_over (fun ct => lenN (cname ct) + 1) (scontigs s))) ss).
  { apply sum_over_le_in. intros s _. rewrite sum_over_map. rewrite (sum_over_double (fun ct => lenN (cname ct))). lia. }
  assert (E : forall (f : sample -> N) l, sum_over (fun s => 5 * f s) l = 5 * sum_over f l).
  { intros f l. induction l as [|x l IH]; cbn [sum_over]; [reflexivity|]. rewrite IH. lia. }
  rewrite E in H. lia.
Qed.

Lemma ser_sample_names_cat ss : lenN (ser_sample_names (map sname ss)) <= 5 + cat_size ss.
Proof.
  eapply N.le_trans; [apply ser_sample_names_len|]. unfold cat_size. rewrite sum_over_map.
  assert (sum_over (fun x => lenN (sname x) + 1) ss <=
          sum_over (fun s => lenN (sname s) + 1 + sum_over (fun ct => lenN (cname ct) + 1) (scontigs s)) ss).
  { apply sum_over_le_in. intros s _. lia. }
  lia.
Qed.

Lemma cat_size_slice ss from to : cat_size (slice ss from to) <= cat_size ss.
Proof.
  unfold cat_size, slice, firstnN, skipnN.
  eapply N.le_trans; [apply sum_over_firstn|]. apply sum_over_skipn.
Qed.

Lemma skipn_plus {A} : forall b a (l : list A), skipn a (skipn b l) = skipn (a + b) l.
Proof.
  induction b as [|b IH]; intros a l.
  - rewrite Nat.add_0_r. reflexivity.
  - rewrite Nat.add_succ_r. destruct l as [|x l]; [rewrite !skipn_nil; reflexivity|]. cbn [skipn]. apply IH.
Qed.

Lemma split3 {A} (l : list A) from to : from <= to -> l = firstnN from l ++ slice l from to ++ skipnN to l.
Proof.
  intro H. unfold slice, firstnN, skipnN.
  replace (N.to_nat to) with (N.to_nat (to - from) + N.to_nat from)%nat by lia.
  rewrite <- skipn_plus. rewrite (firstn_skipn (N.to_nat (to - from))). rewrite firstn_skipn. reflexivity.
Qed.

Lemma cat_size_clear ss from to : from <= to -> cat_size (clear_contigs ss from to) <= cat_size ss.
Proof.
  intro H. rewrite (split3 ss from to H) at 2. unfold clear_contigs, cat_size. rewrite !sum_over_app, sum_over_map.
  assert (sum_over (fun x => lenN (sname (mkSample (sname x) [])) + 1 +
                         sum_over (fun ct => lenN (cname ct) + 1) (scontigs (mkSample (sname x) []))) (slice ss from to) <=
          sum_over (fun s => lenN (sname s) + 1 + sum_over (fun ct => lenN (cname ct) + 1) (scontigs s)) (slice ss from to)).
  { apply sum_over_le_in. intros s _. cbn [sname scontigs sum_over]. lia. }
  lia.
Qed.

Definition names_meta_le (B : N) (a : arch) : Prop :=
  Forall (fun p : Collection.part => snd p <= B) (a_samples a) /\ Forall (fun p : Collection.part => snd p <= B) (a_contigs a).

Lemma store_loop_names zc : forall fuel bs n i c a cw a' S,
  store_loop zc fuel bs n i c a = Ok (cw, a') -> cat_size (samples c) <= S ->
  names_meta_le (5 + 5 * S) a -> names_meta_le (5 + 5 * S) a'.
Proof.
  induction fuel as [|f IH]; intros bs n i c a cw a' S H Hc Ha; cbn [store_loop] in H.
  - destruct (n <=? i); [|discriminate]. injection H as _ <-. exact Ha.
  - destruct (n <=? i). { injection H as _ <-. exact Ha. }
    destruct (store_contig_batch zc c a i (N.min (i + bs) n)) as [[c1 a1]| |] eqn:E; cbn [obnd fst snd] in H; try discriminate.
    unfold store_contig_batch, serialize_contig_names in E.
    destruct (range_ok c i (N.min (i + bs) n)) eqn:Hr; cbn [obnd] in E; [|discriminate].
    destruct (serialize_contig_details c i (N.min (i + bs) n)) as [vd| |]; cbn [obnd] in E; try discriminate.
    injection E as <- <-.
    unfold range_ok in Hr. apply andb_true_iff in Hr. destruct Hr as [Hr _]. apply N.leb_le in Hr.
    apply (IH _ _ _ _ _ _ _ S H); clear H IH.
    + unfold with_samples. cbn [samples]. eapply N.le_trans; [apply cat_size_clear; exact Hr|exact Hc].
    + destruct Ha as [H1 H2]. unfold names_meta_le. cbn [a_samples a_contigs]. split; [exact H1|].
      apply Forall_app. split; [exact H2|]. constructor; [|constructor]. cbn [snd].
      eapply N.le_trans; [apply ser_names_cat|].
      pose proof (cat_size_slice (samples c) i (N.min (i + bs) n)). lia.
Qed.

Lemma store_all_names zc : forall bs c cw a, store_all zc bs c arch_empty = Ok (cw, a) ->
  Forall (fun p : Collection.part => snd p <= 5 + 5 * cat_size (samples c)) (a_samples a ++ a_contigs a).
Proof.
  intros bs c cw a H. unfold store_all in H.
  destruct (store_loop_names zc _ _ _ _ _ _ _ _ (cat_size (samples c)) H (N.le_refl _)) as [H1 H2].
  - unfold store_batch_sample_names, names_meta_le. cbn [a_samples a_contigs arch_empty app].
    split; constructor; [|constructor]. cbn [snd]. unfold serialize_sample_names.
    pose proof (ser_sample_names_cat (samples c)). lia.
  - apply Forall_app. split; assumption.
Qed.

(* 2^60 *)
Lemma store_all_names_u64 zc : forall bs c cw a, store_all zc bs c arch_empty = Ok (cw, a) ->
  cat_size (samples c) < 1152921504606846976 ->
  Forall (fun p : Collection.part => snd p < two64) (a_samples a ++ a_contigs a).
Proof.
  intros bs c cw a H Hs. eapply Forall_impl; [|exact (store_all_names zc bs c cw a H)].
  intros p Hp. cbn beta in Hp. unfold two64. lia.
Qed.

(* ================================================================ 3. the writer *)
From Ragc Require Import Kmer Segment Pipeline SegReader GroupStore Container AgcV3 ModelCreate.
From Ragc Require Import Pipeline_proofs Compose_proofs Grand_proofs Total_proofs.
From Ragc Require LZ_len_store.

(* the same measure on the INPUT: name bytes + number of samples + number of contigs *)
Definition input_name_size (smps : list (Pipeline.name * list (Pipeline.name * list N))) : N :=
  sum_over (fun s => lenN (fst s) + 1 + sum_over (fun c : Pipeline.name * list N => lenN (fst c) + 1) (snd s)) smps.

(* a catalogue built on the shape of the input (Pipeline_proofs.build) has the names of the input *)
Lemma cat_size_build : forall smps V, cat_size (mc_cat_of (build (shape_of smps) V)) = input_name_size smps.
Proof.
  intros smps V. unfold cat_size, mc_cat_of, build, shape_of, input_name_size. rewrite !sum_over_map.
  apply sum_over_ext_in. intros s _. cbn [fst snd sname scontigs]. rewrite !sum_over_map. reflexivity.
Qed.

(* whenever create returns Ok on inputs with distinct non-empty sample names, the catalogue it builds has exactly the
   sample names and, per sample, the contig names of the input, in input order *)
Lemma catalogue_names_proof :
  forall ecn k segsize spl dec addr sched (smps : list (Pipeline.name * list (Pipeline.name * list N))) coll stored,
  inputs_ok smps ->
  create ecn k spl segsize dec addr sched (pushes_of smps) = Ok (coll, stored) ->
  map sname (mc_cat_of coll) = map fst smps /\
  names_of (mc_cat_of coll) = map (fun s => map fst (snd s)) smps /\
  cat_size (mc_cat_of coll) = input_name_size smps.
Proof.
  intros ecn k segsize spl dec addr sched smps coll stored Hin Hc.
  destruct (create_inv ecn k spl segsize dec addr sched smps Hin coll stored Hc) as (regs & _ & _ & _ & Ecoll).
  rewrite Ecoll. split; [|split; [|apply cat_size_build]].
  - unfold mc_cat_of, build, shape_of. rewrite !map_map. apply map_ext. intro s. reflexivity.
  - unfold names_of, mc_cat_of, build, shape_of. rewrite !map_map. apply map_ext. intro s.
    cbn [fst snd scontigs]. rewrite !map_map. apply map_ext. intro c. reflexivity.
Qed.

Lemma names_u64_from_inputs :
  forall zc ecn k segsize spl dec addr sched (smps : list (Pipeline.name * list (Pipeline.name * list N))) coll stored cw a,
  inputs_ok smps ->
  create ecn k spl segsize dec addr sched (pushes_of smps) = Ok (coll, stored) ->
  store_all zc W_CATALOGUE_BATCH (mc_coll segsize k coll) arch_empty = Ok (cw, a) ->
  input_name_size smps < 1152921504606846976 ->
  Forall (fun p : Collection.part => snd p < two64) (a_samples a ++ a_contigs a).
Proof.
  intros zc ecn k segsize spl dec addr sched smps coll stored cw a Hin Hc Hst Hsz.
  destruct (create_inv ecn k spl segsize dec addr sched smps Hin coll stored Hc) as (regs & _ & _ & _ & Ecoll).
  apply (store_all_names_u64 zc _ _ _ _ Hst). unfold mc_coll. cbn [Collection.samples].
  rewrite Ecoll, cat_size_build. exact Hsz.
Qed.

Theorem parts_meta_u64_total_proof :
  forall zc ecn k mml segsize level spl dec grp sched gops (fti : Container.item)
         (smps : list (Pipeline.name * list (Pipeline.name * list N))),
  1 <= k <= 32 ->
  inputs_ok smps ->
  decisions_ok k spl segsize dec (pushes_of smps) ->
  ops_carry (all_emit k spl segsize dec grp 0 (pushes_of smps)) gops ->
  inputs_in_dom mml (pushes_of smps) ->
  input_name_size smps < 1152921504606846976 ->
  snd fti < two64 ->
  forall b, model_build zc ecn k mml segsize level spl dec grp sched gops fti smps = Ok b ->
  parts_meta_u64 (b_wops b).
Proof.
  intros zc ecn k mml segsize level spl dec grp sched gops fti smps Hk Hin Hdec Hcarry Hdom Hsz Hfti b Hb.
  apply (LZ_len_store.parts_meta_u64_in_dom_proof zc ecn k mml segsize level spl dec grp sched gops fti smps
           Hk Hdec Hcarry Hdom b Hb Hfti).
  destruct (model_build_inv _ _ _ _ _ _ _ _ _ _ _ _ _ _ Hb) as (st & coll & stored & cw & a & _ & Hc & Hst & Eb).
  rewrite Eb. cbn [b_arch].
  exact (names_u64_from_inputs zc ecn k segsize spl dec _ sched smps coll stored cw a Hin Hc Hst Hsz).
Qed.

(* the grand round trip of Total_proofs with the parts_meta_u64 residual replaced by input-level size conditions: what is
   left of "Hres" is the bound on the FILE length (a sum of zstd output sizes) *)
Theorem grand_roundtrip_total_names_proof :
  forall (zc : N -> list N -> list N) (zd : list N -> option (list N)),
  (forall l x, zd (zc l x) = Some x) -> (forall l x, zc l x <> []) ->
  forall ecn k mml segsize level spl dec grp sched gops (fti : Container.item)
         (smps : list (Pipeline.name * list (Pipeline.name * list N))),
  1 <= k <= 32 -> 4 <= mml -> mml < two32 -> segsize < two32 -> segsize + k <= 2147483648 ->
  inputs_ok smps -> contig_names_ok smps -> inputs_in_dom mml (pushes_of smps) ->
  decisions_ok k spl segsize dec (pushes_of smps) ->
  lz_contigs_nonempty (pushes_of smps) grp ->
  (forall l, Permutation l (sched l)) ->
  ops_carry (all_emit k spl segsize dec grp 0 (pushes_of smps)) gops ->
  (forall g, lenN (filter (fun x => fst x =? g) (all_emit k spl segsize dec grp 0 (pushes_of smps))) + 2 < two32) ->
  (forall st coll stored,
     run (mc_lz_enc mml) (mc_cref zc) (mc_cpack zc level) gops = Ok st ->
     create ecn k spl segsize dec (mc_store_addr k spl segsize dec grp (pushes_of smps) st) sched (pushes_of smps)
       = Ok (coll, stored) ->
     catalogue_in_dom zc segsize k (mc_cat_of coll)) ->
  input_name_size smps < 1152921504606846976 ->
  snd fti < two64 ->
  (forall b, model_build zc ecn k mml segsize level spl dec grp sched gops fti smps = Ok b -> lenN (b_file b) <= spec_max_off) ->
  exists b, model_build zc ecn k mml segsize level spl dec grp sched gops fti smps = Ok b /\
            decode zd (b_file b) = Ok smps.
Proof.
  intros zc zd Hzd Hzc ecn k mml segsize level spl dec grp sched gops fti smps Hk Hmml Hm32 Hs32 Hssk Hin Hnames Hdom Hdec
         Hlz Hsched Hcarry Hcount Hcat Hsz Hfti Hfile.
  apply (grand_roundtrip_total_proof zc zd Hzd Hzc ecn k mml segsize level spl dec grp sched gops fti smps
           Hk Hmml Hm32 Hs32 Hssk Hin Hnames Hdom Hdec Hlz Hsched Hcarry Hcount Hcat).
  intros b Hb. split; [|exact (Hfile b Hb)].
  exact (parts_meta_u64_total_proof zc ecn k mml segsize level spl dec grp sched gops fti smps Hk Hin Hdec Hcarry Hdom Hsz Hfti b Hb).
Qed.
