(* Determinism_base.v — list lemmas for C04: the stable sort, the BTreeMap model, interleavings. *)
From Coq Require Import List Permutation Sorted Lia Bool Arith NArith ZArith.
From Ragc Require Import Determinism.
Import ListNotations.
Local Open Scope N_scope.

(* ------------------------------------------------------------------ the stable insertion sort *)
Section Sort.
  Variable A : Type.
  Variable leb : A -> A -> bool.
  Hypothesis leb_total : forall x y, leb x y = true \/ leb y x = true.
  Hypothesis leb_trans : forall x y z, leb x y = true -> leb y z = true -> leb x z = true.
  Definition lebP (x y : A) : Prop := leb x y = true.

  Lemma insert_sorted_perm : forall x l, Permutation (insert_sorted leb x l) (x :: l).
  Proof.
    intros x l. induction l as [|y t IH]; cbn [insert_sorted].
    - apply Permutation_refl.
    - destruct (leb x y).
      + apply Permutation_refl.
      + eapply Permutation_trans. { apply perm_skip. exact IH. } apply perm_swap.
  Qed.

  Lemma isort_perm : forall l, Permutation (isort leb l) l.
  Proof.
    induction l as [|x t IH]; cbn [isort].
    - constructor.
    - eapply Permutation_trans. { apply insert_sorted_perm. } apply perm_skip. exact IH.
  Qed.

  Lemma insert_sorted_sorted : forall x l,
    StronglySorted lebP l -> StronglySorted lebP (insert_sorted leb x l).
  Proof.
    intros x l. induction l as [|y t IH]; intros Hs; cbn [insert_sorted].
    - constructor; constructor.
    - destruct (leb x y) eqn:E.
      + constructor; [exact Hs|]. constructor; [exact E|].
        apply StronglySorted_inv in Hs. destruct Hs as [_ Hf].
        eapply Forall_impl; [|exact Hf]. intros z Hz. eapply leb_trans; [exact E|exact Hz].
      + apply StronglySorted_inv in Hs. destruct Hs as [Hs Hf].
        constructor; [apply IH; exact Hs|].
        assert (Hyx : leb y x = true) by (destruct (leb_total x y) as [H|H]; [congruence|exact H]).
        eapply Permutation_Forall. { apply Permutation_sym. apply insert_sorted_perm. }
        constructor; assumption.
  Qed.

  Lemma isort_sorted : forall l, StronglySorted lebP (isort leb l).
  Proof.
    induction l as [|x t IH]; cbn [isort]; [constructor|]. apply insert_sorted_sorted. exact IH.
  Qed.

  Lemma sorted_perm_eq : forall l l',
    StronglySorted lebP l -> StronglySorted lebP l' -> Permutation l l' ->
    (forall x y, In x l -> In y l -> leb x y = true -> leb y x = true -> x = y) ->
    l = l'.
  Proof.
    induction l as [|a l IH]; intros l' Hs Hs' Hp Ha.
    - apply Permutation_nil in Hp. subst. reflexivity.
    - destruct l' as [|b l'].
      + apply Permutation_sym, Permutation_nil in Hp. discriminate.
      + apply StronglySorted_inv in Hs. destruct Hs as [Hs Hf].
        apply StronglySorted_inv in Hs'. destruct Hs' as [Hs' Hf'].
        assert (Hab : a = b).
        { assert (Hin_a : In a (b :: l')) by (eapply Permutation_in; [exact Hp|left; reflexivity]).
          assert (Hin_b : In b (a :: l)) by (eapply Permutation_in; [apply Permutation_sym; exact Hp|left; reflexivity]).
          destruct Hin_a as [E|Hin_a]; [symmetry; exact E|].
          destruct Hin_b as [E|Hin_b]; [exact E|].
          apply Ha.
          - left; reflexivity.
          - right; exact Hin_b.
          - rewrite Forall_forall in Hf. apply Hf. exact Hin_b.
          - rewrite Forall_forall in Hf'. apply Hf'. exact Hin_a. }
        subst b. f_equal. apply IH; try assumption.
        * eapply Permutation_cons_inv. exact Hp.
        * intros x y Hx Hy. apply Ha; right; assumption.
  Qed.

  Lemma isort_perm_eq : forall l l',
    Permutation l l' ->
    (forall x y, In x l -> In y l -> leb x y = true -> leb y x = true -> x = y) ->
    isort leb l = isort leb l'.
  Proof.
    intros l l' Hp Ha. apply sorted_perm_eq.
    - apply isort_sorted.
    - apply isort_sorted.
    - eapply Permutation_trans; [apply isort_perm|].
      eapply Permutation_trans; [exact Hp|]. apply Permutation_sym, isort_perm.
    - intros x y Hx Hy. apply Ha; eapply Permutation_in; try apply isort_perm; assumption.
  Qed.
End Sort.

(* sorting by an N key whose values are distinct: the result depends only on the multiset *)
Lemma nodup_key_inj : forall (A K : Type) (key : A -> K) (l : list A) x y,
  NoDup (map key l) -> In x l -> In y l -> key x = key y -> x = y.
Proof.
  intros A K key l. induction l as [|a l IH]; intros x y Hn Hx Hy He; [contradiction|].
  cbn [map] in Hn. inversion Hn as [|? ? Hni Hn']; subst.
  destruct Hx as [Hx|Hx]; destruct Hy as [Hy|Hy]; subst.
  - reflexivity.
  - exfalso. apply Hni. rewrite He. apply in_map. exact Hy.
  - exfalso. apply Hni. rewrite <- He. apply in_map. exact Hx.
  - apply IH; assumption.
Qed.

Lemma sort_by_key_perm_eq : forall (A : Type) (key : A -> N) (l l' : list A),
  Permutation l l' -> NoDup (map key l) -> sort_by_key key l = sort_by_key key l'.
Proof.
  intros A key l l' Hp Hn. unfold sort_by_key. apply isort_perm_eq.
  - intros x y. destruct (N.leb_spec (key x) (key y)); [left; reflexivity|].
    right. apply N.leb_le. lia.
  - intros x y z H1 H2. apply N.leb_le in H1. apply N.leb_le in H2. apply N.leb_le. lia.
  - exact Hp.
  - intros x y Hx Hy H1 H2. apply N.leb_le in H1. apply N.leb_le in H2.
    eapply nodup_key_inj; eauto. lia.
Qed.

(* ------------------------------------------------------------------ the key orders *)
Lemma cmp_then_eq : forall c d, cmp_then c d = Eq <-> c = Eq /\ d = Eq.
Proof. intros [] d; cbn; split; intros H; try discriminate; try tauto; destruct H; try discriminate; assumption. Qed.

Lemma skey_leb_spec : forall a b : skey,
  skey_leb a b = true <->
  (fst (fst a) < fst (fst b) \/
   (fst (fst a) = fst (fst b) /\ (snd (fst a) < snd (fst b) \/ (snd (fst a) = snd (fst b) /\ snd a <= snd b)))).
Proof.
  intros [[a1 a2] a3] [[b1 b2] b3]. unfold skey_leb, leb_of, skey_cmp, ckey_cmp, cmp_then. cbn [fst snd].
  destruct (N.compare_spec a1 b1); destruct (N.compare_spec a2 b2); destruct (N.compare_spec a3 b3);
    split; intros; try discriminate; try reflexivity; try lia.
Qed.

Lemma skey_leb_total : forall a b : skey, skey_leb a b = true \/ skey_leb b a = true.
Proof. intros a b. rewrite !skey_leb_spec. lia. Qed.
Lemma skey_leb_trans : forall a b c : skey, skey_leb a b = true -> skey_leb b c = true -> skey_leb a c = true.
Proof. intros a b c. rewrite !skey_leb_spec. lia. Qed.
Lemma skey_leb_antisym : forall a b : skey, skey_leb a b = true -> skey_leb b a = true -> a = b.
Proof.
  intros [[a1 a2] a3] [[b1 b2] b3]. rewrite !skey_leb_spec. cbn [fst snd]. intros H1 H2.
  assert (a1 = b1 /\ a2 = b2 /\ a3 = b3) as (-> & -> & ->) by lia. reflexivity.
Qed.

(* ------------------------------------------------------------------ BTreeMap model: pushes to different keys commute *)
Lemma bt_push_comm : forall (X : Type) (s s' : N) (p p' : X) (m : btmap X),
  s <> s' -> bt_push s p (bt_push s' p' m) = bt_push s' p' (bt_push s p m).
Proof.
  intros X s s' p p' m Hne. induction m as [|[k v] m IH].
  - cbn [bt_push].
    destruct (N.ltb_spec s s'); destruct (N.ltb_spec s' s); try lia;
      destruct (N.eqb_spec s s'); destruct (N.eqb_spec s' s); try lia; reflexivity.
  - cbn [bt_push].
    destruct (N.ltb_spec s' k) as [L1|L1]; destruct (N.ltb_spec s k) as [L2|L2]; cbn [bt_push].
    + destruct (N.ltb_spec s s'); destruct (N.ltb_spec s' s); try lia;
        destruct (N.eqb_spec s s'); destruct (N.eqb_spec s' s); try lia;
        destruct (N.ltb_spec s k); destruct (N.ltb_spec s' k); try lia; try reflexivity.
    + destruct (N.ltb_spec s s'); try lia. destruct (N.eqb_spec s s'); try lia.
      destruct (N.ltb_spec s k); try lia.
      destruct (N.eqb_spec s k).
      * cbn [bt_push]. destruct (N.ltb_spec s' k); try lia. reflexivity.
      * cbn [bt_push]. destruct (N.ltb_spec s' k); try lia. reflexivity.
    + destruct (N.ltb_spec s' s); try lia. destruct (N.eqb_spec s' s); try lia.
      destruct (N.ltb_spec s' k); try lia.
      destruct (N.eqb_spec s' k).
      * cbn [bt_push]. destruct (N.ltb_spec s k); try lia. reflexivity.
      * cbn [bt_push]. destruct (N.ltb_spec s k); try lia. reflexivity.
    + destruct (N.eqb_spec s' k) as [E1|E1]; destruct (N.eqb_spec s k) as [E2|E2]; cbn [bt_push]; try lia.
      * destruct (N.ltb_spec s k); try lia. destruct (N.eqb_spec s k); try lia.
        destruct (N.ltb_spec s' k); try lia. destruct (N.eqb_spec s' k); try lia. reflexivity.
      * destruct (N.ltb_spec s k); try lia. destruct (N.eqb_spec s k); try lia.
        destruct (N.ltb_spec s' k); try lia. destruct (N.eqb_spec s' k); try lia. reflexivity.
      * destruct (N.ltb_spec s k); try lia. destruct (N.eqb_spec s k); try lia.
        destruct (N.ltb_spec s' k); try lia. destruct (N.eqb_spec s' k); try lia.
        rewrite IH. reflexivity.
Qed.

Lemma upd_nth_comm : forall (A : Type) (i j : nat) (x y : A) (l : list A),
  i <> j -> upd_nth i x (upd_nth j y l) = upd_nth j y (upd_nth i x l).
Proof.
  intros A i j x y l. revert i j. induction l as [|a l IH]; intros i j Hne; [reflexivity|].
  destruct i, j; cbn [upd_nth]; try reflexivity; try lia. f_equal. apply IH. lia.
Qed.

(* ------------------------------------------------------------------ interleavings and folds of commuting actions *)
Section Interleave.
  Variables (A S : Type).
  Variable f : S -> nat * A -> S.
  Definition indep (x y : nat * A) : Prop := forall st, f (f st x) y = f (f st y) x.
  Variable good : nat * A -> Prop.
  Hypothesis good_indep : forall x y, good x -> good y -> fst x <> fst y -> indep x y.

  Lemma fold_comm_all : forall (L : list (nat * A)) (x : nat * A) st,
    (forall y, In y L -> indep y x) ->
    f (fold_left f L st) x = fold_left f L (f st x).
  Proof.
    induction L as [|y L IH]; intros x st H; [reflexivity|].
    cbn [fold_left]. rewrite IH by (intros z Hz; apply H; right; exact Hz).
    rewrite (H y) by (left; reflexivity). reflexivity.
  Qed.

  Lemma take_at_tagged : forall (ls : list (list A)) (i : nat) a ls' k,
    take_at i ls = Some (a, ls') ->
    Forall good (tag_from k ls) ->
    good (k + i, a)%nat /\ Forall good (tag_from k ls').
  Proof.
    induction ls as [|l ls IH]; intros i a ls' k Ht Hg; [discriminate|].
    cbn [take_at] in Ht. destruct i as [|i].
    - destruct l as [|b l]; [discriminate|]. inversion Ht; subst.
      cbn [tag_from map app] in Hg |- *. inversion Hg; subst.
      rewrite Nat.add_0_r. split; assumption.
    - destruct (take_at i ls) as [[b r]|] eqn:E; [|discriminate]. inversion Ht; subst.
      cbn [tag_from] in Hg |- *. apply Forall_app in Hg. destruct Hg as [Hg1 Hg2].
      destruct (IH _ _ _ (Datatypes.S k) E Hg2) as [G1 G2].
      replace (k + Datatypes.S i)%nat with (Datatypes.S k + i)%nat by lia.
      split; [exact G1|]. apply Forall_app. split; assumption.
  Qed.

  Lemma tag_from_fst_ge : forall (ls : list (list A)) k x, In x (tag_from k ls) -> (k <= fst x)%nat.
  Proof.
    induction ls as [|l ls IH]; intros k x H; [contradiction|].
    cbn [tag_from] in H. apply in_app_or in H. destruct H as [H|H].
    - apply in_map_iff in H. destruct H as [b [E _]]. subst. cbn. lia.
    - apply IH in H. lia.
  Qed.

  (* moving the head of list i in front of everything that the canonical order runs earlier *)
  Lemma fold_tag_insert : forall (ls : list (list A)) (i : nat) a ls' k st,
    take_at i ls = Some (a, ls') ->
    Forall good (tag_from k ls) ->
    fold_left f (tag_from k ls) st = fold_left f (tag_from k ls') (f st (k + i, a)%nat).
  Proof.
    induction ls as [|l ls IH]; intros i a ls' k st Ht Hg; [discriminate|].
    cbn [take_at] in Ht. destruct i as [|i].
    - destruct l as [|b l]; [discriminate|]. inversion Ht; subst.
      cbn [tag_from map app fold_left]. rewrite Nat.add_0_r. reflexivity.
    - destruct (take_at i ls) as [[b r]|] eqn:E; [|discriminate]. inversion Ht; subst.
      cbn [tag_from] in Hg |- *. rewrite !fold_left_app.
      apply Forall_app in Hg. destruct Hg as [Hg1 Hg2].
      rewrite (IH _ _ _ (Datatypes.S k) _ E Hg2).
      replace (Datatypes.S k + i)%nat with (k + Datatypes.S i)%nat by lia.
      f_equal.
      apply fold_comm_all. intros y Hy.
      destruct (take_at_tagged _ _ _ _ (Datatypes.S k) E Hg2) as [G1 _].
      replace (Datatypes.S k + i)%nat with (k + Datatypes.S i)%nat in G1 by lia.
      apply good_indep.
      + rewrite Forall_forall in Hg1. apply Hg1. exact Hy.
      + exact G1.
      + apply in_map_iff in Hy. destruct Hy as [c [Ec _]]. subst y. cbn. lia.
  Qed.

  (* every interleaving has the effect of the canonical (index) order *)
  Lemma fold_interleave : forall (sched : list nat) (ls : list (list A)) st,
    Forall good (tag_from 0 ls) ->
    fold_left f (interleave sched ls) st = fold_left f (tag_from 0 ls) st.
  Proof.
    induction sched as [|i sched IH]; intros ls st Hg; [reflexivity|].
    cbn [interleave]. destruct (take_at i ls) as [[a ls']|] eqn:E.
    - cbn [fold_left]. destruct (take_at_tagged _ _ _ _ 0%nat E Hg) as [_ G2].
      rewrite IH by exact G2.
      rewrite (fold_tag_insert _ _ _ _ 0%nat st E Hg). reflexivity.
    - apply IH. exact Hg.
  Qed.
End Interleave.

(* ------------------------------------------------------------------ permute really permutes *)
Lemma remove_at_perm : forall (A : Type) (i : nat) (l : list A) x r,
  remove_at i l = Some (x, r) -> Permutation l (x :: r).
Proof.
  intros A i l. revert i. induction l as [|a l IH]; intros i x r H; [discriminate|].
  cbn [remove_at] in H. destruct i as [|i].
  - inversion H; subst. apply Permutation_refl.
  - destruct (remove_at i l) as [[y r']|] eqn:E; [|discriminate]. inversion H; subst.
    eapply Permutation_trans. { apply perm_skip. eapply IH. exact E. } apply perm_swap.
Qed.

Lemma permute_perm : forall (A : Type) (sched : list nat) (l : list A), Permutation (permute sched l) l.
Proof.
  intros A sched. induction sched as [|i sched IH]; intros l; cbn [permute]; [apply Permutation_refl|].
  destruct (remove_at i l) as [[x r]|] eqn:E.
  - eapply Permutation_trans. { apply perm_skip. apply IH. }
    apply Permutation_sym. eapply remove_at_perm. exact E.
  - apply IH.
Qed.
