(* Segment_proofs.v — lemmas for C10: the shape of the output of segment.rs::split_at_splitters_with_size /
   split_at_splitters (model: Segment.v).  Structure:
     1. k-mer state facts (window counter, the canonical value of a full window is never MISSING_KMER)
     2. list helpers (slice / lastn)
     3. [chain]: the shape of the segment list; [loop_inv]: the main loop produces a chain and runs in
        lock-step with Kmer.enum_loop until the first split
     4. consequences of the shape; the statements pinned in props/C10.v *)
From Coq Require Import Lia ZifyBool ZifyN ZifyNat.
From Ragc Require Import Mach Consts_kmer Consts_segment Kmer Segment.
Open Scope N_scope.
Arguments N.add : simpl never. Arguments N.sub : simpl never. Arguments N.mul : simpl never.
Arguments N.shiftl : simpl never. Arguments N.shiftr : simpl never. Arguments N.land : simpl never.
Arguments N.lor : simpl never. Arguments N.modulo : simpl never. Arguments N.div : simpl never.
Arguments N.pow : simpl never.

(* ---------------------------------------------------------------- k-mer state facts *)
Lemma feed_snoc x l b : feed x (l ++ [b]) = insert_canonical (feed x l) b.
Proof. unfold feed. rewrite fold_left_app. reflexivity. Qed.

Lemma kmax_insert x b : kmax (insert_canonical x b) = kmax x.
Proof. unfold insert_canonical. destruct (kcur x =? kmax x); reflexivity. Qed.

Lemma kmax_feed l : forall x, kmax (feed x l) = kmax x.
Proof.
  induction l as [|b l IH]; intro x; [reflexivity|].
  change (feed x (b :: l)) with (feed (insert_canonical x b) l). rewrite IH. apply kmax_insert.
Qed.

Lemma kcur_insert x b :
  kcur (insert_canonical x b) = if kcur x =? kmax x then kcur x else kcur x + 1.
Proof. unfold insert_canonical. destruct (kcur x =? kmax x); reflexivity. Qed.

Lemma kcur_feed k l : kcur (feed (kmer_new k) l) = N.min (lenN l) k.
Proof.
  induction l as [|b l IH] using rev_ind.
  - cbn. lia.
  - rewrite feed_snoc, kcur_insert, kmax_feed, IH. cbn [kmax kmer_new].
    unfold lenN. rewrite app_length. cbn [length].
    destruct (N.eqb_spec (N.min (N.of_nat (length l)) k) k); lia.
Qed.

Lemma reset_feed k l : kmer_reset (feed (kmer_new k) l) = kmer_new k.
Proof. unfold kmer_reset. rewrite kmax_feed. reflexivity. Qed.

Lemma is_full_feed k l : is_full (feed (kmer_new k) l) = (k <=? lenN l).
Proof.
  unfold is_full. rewrite kcur_feed, kmax_feed. cbn [kmax kmer_new].
  destruct (N.eqb_spec (N.min (lenN l) k) k); destruct (N.leb_spec k (lenN l)); lia.
Qed.

(* ---- the canonical value of a full window is never the MISSING sentinel *)
Definition kinv (x : kmer) : Prop :=
  kcur x <= kmax x /\ krc x < two64 /\ (kcur x < kmax x -> kdir x mod 2 = 0).

Lemma kinv_new k : kinv (kmer_new k).
Proof. unfold kinv; cbn. repeat split; try lia. Qed.

Lemma land_lt_pow2 a b n : a < 2 ^ n -> N.land a b < 2 ^ n.
Proof.
  intro H. destruct (N.eq_dec (N.land a b) 0) as [E|E].
  - rewrite E. apply N.neq_0_lt_0. apply N.pow_nonzero. lia.
  - assert (a <> 0) by (intro; subst a; rewrite N.land_0_l in E; congruence).
    apply N.log2_lt_pow2; [lia|].
    eapply N.le_lt_trans; [apply N.log2_land|].
    eapply N.le_lt_trans; [apply N.le_min_l|].
    apply N.log2_lt_pow2; lia.
Qed.

Lemma two64_pow : two64 = 2 ^ 64.
Proof. reflexivity. Qed.

Lemma wrap64_lt x : wrap64 x < two64.
Proof. unfold wrap64. apply N.mod_lt. discriminate. Qed.

Lemma rc_step_lt k rc s : rc_step k rc s < two64.
Proof. unfold rc_step. rewrite two64_pow. apply land_lt_pow2. rewrite <- two64_pow. apply wrap64_lt. Qed.

Lemma rc_base_acgt s : s < 4 -> kmer_rc_base s = 3 - s.
Proof.
  intro H. assert (s = 0 \/ s = 1 \/ s = 2 \/ s = 3) as [->|[->|[->| ->]]] by lia; reflexivity.
Qed.

Ltac Zify.zify_post_hook ::= Z.div_mod_to_equations.

Lemma rc_step_max k rc s : s < 4 -> rc < two64 -> rc_step k rc s = max_u64 -> s = 0.
Proof.
  intros Hs Hrc E. unfold rc_step in E.
  set (a := wrap64 (shr64 rc 2 + shl64 (kmer_rc_base s) 62)) in *.
  assert (B63 : N.testbit a 63 = true).
  { assert (T : N.testbit (N.land a (kmask k)) 63 = true) by (rewrite E; reflexivity).
    rewrite N.land_spec in T. apply andb_prop in T. tauto. }
  assert (B62 : N.testbit a 62 = true).
  { assert (T : N.testbit (N.land a (kmask k)) 62 = true) by (rewrite E; reflexivity).
    rewrite N.land_spec in T. apply andb_prop in T. tauto. }
  apply N.testbit_true in B63. apply N.testbit_true in B62.
  change (2 ^ 63) with 9223372036854775808 in B63.
  change (2 ^ 62) with 4611686018427387904 in B62.
  assert (Ha : a = wrap64 (rc / 4 + (3 - s) * 4611686018427387904)).
  { unfold a, shr64, shl64. rewrite rc_base_acgt by assumption.
    rewrite N.shiftr_div_pow2, N.shiftl_mul_pow2.
    change (2 ^ 2) with 4. change (2 ^ 62) with 4611686018427387904.
    unfold wrap64. rewrite N.add_mod_idemp_r by discriminate. reflexivity. }
  unfold wrap64, two64 in *. lia.
Qed.
Lemma shl64_even s n : 1 <= n -> shl64 s n mod 2 = 0.
Proof.
  intro H. unfold shl64, wrap64, two64. rewrite N.shiftl_mul_pow2.
  replace n with (1 + (n - 1)) by lia. rewrite N.pow_add_r. change (2 ^ 1) with 2.
  set (p := 2 ^ (n - 1)). replace (s * (2 * p)) with (2 * (s * p)) by lia.
  generalize (s * p). intro t. lia.
Qed.

Lemma kinv_insert x s : 1 <= kmax x <= 32 -> kinv x -> kinv (insert_canonical x s).
Proof.
  intros Hk (Hc & Hr & Hd). unfold kinv, insert_canonical.
  destruct (N.eqb_spec (kcur x) (kmax x)) as [E|E]; cbn [kcur kmax krc kdir].
  - repeat split; [lia | apply rc_step_lt | lia].
  - repeat split; [lia | apply rc_step_lt |].
    intro Hlt. unfold dir_step_fill.
    assert (Hs : shl64 s (64 - 2 * (kcur x + 1)) mod 2 = 0) by (apply shl64_even; lia).
    specialize (Hd ltac:(lia)). unfold wrap64, two64. lia.
Qed.

Lemma kinv_feed l : forall x, 1 <= kmax x <= 32 -> kinv x -> kinv (feed x l).
Proof.
  induction l as [|b l IH]; intros x Hk Hx; [exact Hx|].
  change (feed x (b :: l)) with (feed (insert_canonical x b) l).
  apply IH; [rewrite kmax_insert; exact Hk | apply kinv_insert; assumption].
Qed.

Lemma shl64_0 n : shl64 0 n = 0.
Proof. unfold shl64. rewrite N.shiftl_0_l. reflexivity. Qed.

Lemma full_ne_missing x s :
  1 <= kmax x <= 32 -> s < 4 -> kinv x -> is_full (insert_canonical x s) = true ->
  data_canonical (insert_canonical x s) <> max_u64.
Proof.
  intros Hk Hs (Hc & Hr & Hd) Hf E.
  unfold data_canonical in E.
  assert (Hrc : krc (insert_canonical x s) = rc_step (kmax x) (krc x) s).
  { unfold insert_canonical. destruct (kcur x =? kmax x); reflexivity. }
  assert (Hrlt := rc_step_lt (kmax x) (krc x) s). rewrite <- Hrc in Hrlt.
  assert (Hdlt : kdir (insert_canonical x s) < two64).
  { unfold insert_canonical. destruct (kcur x =? kmax x); cbn [kdir];
      [unfold dir_step_full | unfold dir_step_fill]; apply wrap64_lt. }
  assert (E1 : krc (insert_canonical x s) = max_u64) by (unfold two64, max_u64 in *; lia).
  assert (E2 : kdir (insert_canonical x s) = max_u64) by (unfold two64, max_u64 in *; lia).
  rewrite Hrc in E1. apply rc_step_max in E1; [|assumption|assumption]. subst s.
  unfold is_full in Hf. rewrite kcur_insert, kmax_insert in Hf.
  unfold insert_canonical in E2.
  destruct (N.eqb_spec (kcur x) (kmax x)) as [Ec|Ec]; cbn [kdir] in E2.
  - unfold dir_step_full in E2. rewrite shl64_0 in E2. unfold shl64 in E2.
    rewrite N.shiftl_mul_pow2 in E2. change (2 ^ 2) with 4 in E2.
    unfold wrap64, two64, max_u64 in E2. lia.
  - apply N.eqb_eq in Hf. specialize (Hd ltac:(lia)).
    unfold dir_step_fill in E2. rewrite shl64_0 in E2.
    unfold wrap64, two64, max_u64 in E2. lia.
Qed.

Lemma canonical_ne_missing_proof : forall k run,
  1 <= k <= 32 -> Forall acgt run -> k <= lenN run ->
  data_canonical (feed (kmer_new k) run) <> MISSING_KMER.
Proof.
  intros k run Hk Hrun Hlen.
  destruct run as [|b0 run0] using rev_ind; [cbn in Hlen; lia|]. clear IHrun0.
  rewrite feed_snoc. apply Forall_app in Hrun. destruct Hrun as [Hr0 Hb]. inversion Hb; subst.
  change MISSING_KMER with max_u64.
  apply full_ne_missing.
  - rewrite kmax_feed. exact Hk.
  - assumption.
  - apply kinv_feed; [exact Hk | apply kinv_new].
  - rewrite <- feed_snoc, is_full_feed. apply N.leb_le. exact Hlen.
Qed.

(* ---------------------------------------------------------------- list helpers *)
Lemma skipn_skipn {A} x : forall y (l : list A), skipn x (skipn y l) = skipn (y + x) l.
Proof.
  intros y. induction y as [|y IH]; intro l; [reflexivity|].
  destruct l as [|a l]; [rewrite !skipn_nil; reflexivity|]. cbn [skipn plus]. apply IH.
Qed.

Lemma firstn_slice {A} a : forall b (l : list A), (a <= b)%nat -> firstn a l ++ slice l a b = firstn b l.
Proof.
  unfold slice. induction a as [|a IH]; intros b l H.
  - cbn [firstn skipn app]. rewrite Nat.sub_0_r. reflexivity.
  - destruct l as [|x l]; [rewrite skipn_nil, !firstn_nil; reflexivity|].
    destruct b as [|b]; [lia|]. cbn [firstn skipn app Nat.sub]. f_equal. apply IH. lia.
Qed.
Lemma slice_length {A} (l : list A) a b : (a <= b <= length l)%nat -> length (slice l a b) = (b - a)%nat.
Proof. intro H. unfold slice. rewrite firstn_length, skipn_length. lia. Qed.

Lemma slice_skipn {A} (l : list A) a b : (a <= b)%nat -> slice l a b ++ skipn b l = skipn a l.
Proof.
  intro H. unfold slice. replace b with (a + (b - a))%nat at 2 by lia.
  rewrite <- skipn_skipn. apply firstn_skipn.
Qed.


Lemma lastn_app_ge {A} n (l1 l2 : list A) : (n <= length l2)%nat -> lastn n (l1 ++ l2) = lastn n l2.
Proof.
  intro H. unfold lastn. rewrite app_length, skipn_app.
  replace (length l1 + length l2 - n - length l1)%nat with (length l2 - n)%nat by lia.
  rewrite skipn_all2 by lia. reflexivity.
Qed.

Lemma lastn_length {A} n (l : list A) : (n <= length l)%nat -> length (lastn n l) = n.
Proof. intro H. unfold lastn. rewrite skipn_length. lia. Qed.

Lemma lastn_split {A} n (l : list A) : firstn (length l - n) l ++ lastn n l = l.
Proof. unfold lastn. apply firstn_skipn. Qed.

Lemma lastn_slice {A} (l : list A) k a b :
  (a + k <= b <= length l)%nat -> lastn k (slice l a b) = firstn k (skipn (b - k) l).
Proof.
  intro H. unfold lastn. rewrite slice_length by lia. unfold slice.
  rewrite skipn_firstn_comm, skipn_skipn.
  replace (b - a - (b - a - k))%nat with k by lia.
  replace (a + (b - a - k))%nat with (b - k)%nat by lia. reflexivity.
Qed.

(* ---------------------------------------------------------------- the shape of the output *)
Definition adjf (ws : bool) (f : N) (fd : bool) : N * bool :=
  if ws then (if f =? MISSING_KMER then (MISSING_KMER, false) else (f, fd)) else (f, fd).

Lemma adjf_fst ws f fd : fst (adjf ws f fd) = f.
Proof.
  unfold adjf. destruct ws; [|reflexivity].
  destruct (N.eqb_spec f MISSING_KMER); cbn; congruence.
Qed.

Lemma adjf_snd ws f fd : f <> MISSING_KMER -> snd (adjf ws f fd) = fd.
Proof.
  intro H. unfold adjf. destruct ws; [|reflexivity].
  destruct (N.eqb_spec f MISSING_KMER); cbn; congruence.
Qed.

Inductive chain (ws : bool) (contig : list N) (spl : N -> bool) (kN : N) :
  nat -> N -> bool -> list segment -> Prop :=
| chain_last a f fd :
    chain ws contig spl kN a f fd
      [mkSeg (skipn a contig) (fst (adjf ws f fd)) MISSING_KMER (snd (adjf ws f fd)) false]
| chain_cons a f fd b run p tl :
    (a + N.to_nat kN <= b)%nat -> (b <= length contig)%nat ->
    firstn b contig = p ++ run -> Forall acgt run -> (N.to_nat kN <= length run)%nat ->
    spl (data_canonical (feed (kmer_new kN) run)) = true ->
    data_canonical (feed (kmer_new kN) run) <> MISSING_KMER ->
    chain ws contig spl kN (b - N.to_nat kN)%nat (data_canonical (feed (kmer_new kN) run))
          (is_dir_oriented (feed (kmer_new kN) run)) tl ->
    chain ws contig spl kN a f fd
      (mkSeg (slice contig a b) (fst (adjf ws f fd)) (data_canonical (feed (kmer_new kN) run))
             (snd (adjf ws f fd)) (is_dir_oriented (feed (kmer_new kN) run)) :: tl).

Lemma chain_nonempty ws contig spl kN a f fd l : chain ws contig spl kN a f fd l -> l <> [].
Proof. intro H; inversion H; discriminate. Qed.

Lemma seg_final_eq (ws : bool) (contig : list N) s f fd :
  (s < length contig)%nat ->
  seg_final ws contig s f fd =
  [mkSeg (skipn s contig) (fst (adjf ws f fd)) MISSING_KMER (snd (adjf ws f fd)) false].
Proof.
  intro H. unfold seg_final. destruct (Nat.ltb_spec s (length contig)); [|lia].
  destruct (skipn s contig) eqn:E.
  - apply (f_equal (@length N)) in E. rewrite skipn_length in E. cbn in E. lia.
  - unfold adjf. destruct ws; [|reflexivity]. destruct (f =? MISSING_KMER); reflexivity.
Qed.

Lemma pushed_eq (ws : bool) (contig : list N) s e f fd kv d :
  (s < e <= length contig)%nat ->
  match slice contig s e with
  | [] => @nil segment
  | _ :: _ =>
      if ws then
        if f =? MISSING_KMER
        then [mkSeg (slice contig s e) MISSING_KMER kv false d]
        else [mkSeg (slice contig s e) f kv fd d]
      else [mkSeg (slice contig s e) f kv fd d]
  end = [mkSeg (slice contig s e) (fst (adjf ws f fd)) kv (snd (adjf ws f fd)) d].
Proof.
  intro H. destruct (slice contig s e) eqn:E.
  - apply (f_equal (@length N)) in E. rewrite slice_length in E by lia. cbn in E. lia.
  - unfold adjf. destruct ws; [|reflexivity]. destruct (f =? MISSING_KMER); reflexivity.
Qed.

Lemma acgt_ltb b : (3 <? b) = false -> acgt b.
Proof. intro H. unfold acgt. apply N.ltb_ge in H. lia. Qed.

(* the loop: shape of its output, and its relation to the k-mer enumeration of Kmer.v *)
Lemma loop_inv ws contig spl kN : 1 <= kN <= 32 ->
  forall rest pre run p0 s f fd,
  contig = pre ++ rest -> pre = p0 ++ run -> Forall acgt run ->
  (s + Nat.min (length run) (N.to_nat kN) <= length pre)%nat ->
  (s < length contig)%nat ->
  let x := feed (kmer_new kN) run in
  let L := seg_loop ws spl (N.to_nat kN) contig rest (length pre) x s f fd in
  let E := enum_loop x rest in
  chain ws contig spl kN s f fd L /\
  ((exists v, In v E /\ spl v = true) -> (2 <= length L)%nat) /\
  (ws = false -> length L = S (length (filter spl E))).
Proof.
  intros Hk rest. induction rest as [|base rest' IH]; intros pre run p0 s f fd Hc Hp Hrun Hs Hlt x L E.
  - subst L E. cbn [seg_loop enum_loop]. rewrite seg_final_eq by assumption.
    split; [apply chain_last|]. split; [intros (v & [] & _)|]. reflexivity.
  - assert (Hc' : contig = (pre ++ [base]) ++ rest') by (rewrite <- app_assoc; exact Hc).
    assert (Hlen' : length (pre ++ [base]) = S (length pre)) by (rewrite app_length; cbn; lia).
    assert (Hle : (S (length pre) <= length contig)%nat).
    { rewrite Hc', app_length. lia. }
    subst L E. cbn [seg_loop enum_loop].
    destruct (3 <? base) eqn:Hb.
    + (* non-ACGT: reset *)
      subst x. rewrite reset_feed. rewrite <- Hlen'.
      apply (IH (pre ++ [base]) [] (pre ++ [base]) s f fd); auto.
      * rewrite app_nil_r; reflexivity.
      * cbn [length Nat.min]. lia.
    + apply acgt_ltb in Hb.
      assert (Hrun' : Forall acgt (run ++ [base])) by (apply Forall_app; split; [assumption | repeat constructor; assumption]).
      assert (Hp' : pre ++ [base] = p0 ++ run ++ [base]) by (rewrite Hp, <- app_assoc; reflexivity).
      assert (Hl' : length (run ++ [base]) = S (length run)) by (rewrite app_length; cbn; lia).
      assert (Hrp : (length run <= length pre)%nat) by (rewrite Hp, app_length; lia).
      subst x. rewrite <- feed_snoc. rewrite is_full_feed.
      destruct (N.leb_spec kN (lenN (run ++ [base]))) as [Hfull|Hnf].
      * unfold lenN in Hfull. rewrite Hl' in Hfull.
        destruct (spl (data_canonical (feed (kmer_new kN) (run ++ [base])))) eqn:Hspl.
        -- (* a split *)
           rewrite pushed_eq by lia. cbn [app].
           set (x1 := feed (kmer_new kN) (run ++ [base])) in *.
           assert (IH' : let L' := seg_loop ws spl (N.to_nat kN) contig rest' (S (length pre))
                              (if ws then kmer_reset x1 else x1)
                              (S (length pre) - N.to_nat kN)%nat (data_canonical x1) (is_dir_oriented x1) in
                         chain ws contig spl kN (S (length pre) - N.to_nat kN)%nat (data_canonical x1) (is_dir_oriented x1) L' /\
                         (ws = false -> length L' = S (length (filter spl (enum_loop x1 rest'))))).
           { rewrite <- Hlen'. destruct ws.
             - unfold x1. rewrite reset_feed.
               destruct (IH (pre ++ [base]) [] (pre ++ [base])
                           (length (pre ++ [base]) - N.to_nat kN)%nat (data_canonical x1) (is_dir_oriented x1))
                 as (C & _ & _); auto.
               + rewrite app_nil_r; reflexivity.
               + cbn [length Nat.min]. lia.
               + lia.
               + split; [exact C | discriminate].
             - destruct (IH (pre ++ [base]) (run ++ [base]) p0
                           (length (pre ++ [base]) - N.to_nat kN)%nat (data_canonical x1) (is_dir_oriented x1))
                 as (C & _ & Cn); auto.
               + lia.
               + lia. }
           destruct IH' as (C & Cn).
           split; [|split].
           ++ apply chain_cons with (p := p0); auto.
              ** lia.
              ** rewrite Hc'. rewrite <- Hlen'. rewrite firstn_app, Nat.sub_diag, firstn_all. cbn [firstn].
                 rewrite app_nil_r. exact Hp'.
              ** lia.
              ** apply canonical_ne_missing_proof; auto. unfold lenN. lia.
           ++ intros _. cbn [length]. apply chain_nonempty in C.
              destruct (seg_loop ws spl (N.to_nat kN) contig rest' (S (length pre))
                          (if ws then kmer_reset x1 else x1) (S (length pre) - N.to_nat kN)%nat
                          (data_canonical x1) (is_dir_oriented x1)); [congruence | cbn; lia].
           ++ intro Hws. cbn [filter]. fold x1. rewrite Hspl. cbn [length]. rewrite Cn by assumption. reflexivity.
        -- (* full window, not a splitter *)
           rewrite <- Hlen'.
           destruct (IH (pre ++ [base]) (run ++ [base]) p0 s f fd) as (C & C2 & Cn); auto; [lia|].
           split; [exact C|]. split.
           ++ intros (v & Hin & Hv). apply C2. destruct Hin as [Hin|Hin]; [congruence|]. exists v; auto.
           ++ intro Hws. cbn [filter]. rewrite Hspl. auto.
      * (* window not full yet *)
        rewrite <- Hlen'. unfold lenN in Hnf. rewrite Hl' in Hnf.
        apply (IH (pre ++ [base]) (run ++ [base]) p0 s f fd); auto. lia.
Qed.

Lemma split_chain ws contig spl kN : 1 <= kN <= 32 ->
  chain ws contig spl kN 0 MISSING_KMER false (split_gen ws contig spl kN).
Proof.
  intro Hk. unfold split_gen.
  assert (W : chain ws contig spl kN 0 MISSING_KMER false [whole_segment contig]).
  { pose proof (chain_last ws contig spl kN 0 MISSING_KMER false) as C.
    unfold adjf in C. rewrite N.eqb_refl in C. destruct ws; exact C. }
  destruct (N.ltb_spec (lenN contig) kN) as [Hs|Hl]; [exact W|].
  assert (Hlt : (0 < length contig)%nat) by (unfold lenN in Hl; lia).
  destruct (loop_inv ws contig spl kN Hk contig [] [] [] 0%nat MISSING_KMER false
              eq_refl eq_refl (Forall_nil _) ltac:(cbn; lia) Hlt) as (C & _ & _).
  cbn [length feed fold_left] in C.
  destruct (seg_loop ws spl (N.to_nat kN) contig contig 0 (kmer_new kN) 0 MISSING_KMER false) eqn:E;
    [exact W | exact C].
Qed.

(* ---- consequences of the shape *)
Section Shape.
Variables (ws : bool) (contig : list N) (spl : N -> bool) (kN : N).
Hypothesis Hk : 1 <= kN <= 32.
Local Notation k := (N.to_nat kN).
Local Notation CH := (chain ws contig spl kN).

Lemma chain_head a f fd t tl : CH a f fd (t :: tl) -> (a + k <= length contig)%nat ->
  sfront t = f /\ (f <> MISSING_KMER -> sfdir t = fd) /\ (k <= length (sdata t))%nat /\
  firstn k (sdata t) = firstn k (skipn a contig) /\ exists n, sdata t = firstn n (skipn a contig).
Proof.
  intros C Ha. inversion C; subst; cbn [sfront sfdir sdata].
  - rewrite adjf_fst. split; [reflexivity|]. split; [apply adjf_snd|].
    rewrite skipn_length. split; [lia|]. split; [reflexivity|].
    exists (length (skipn a contig)). rewrite firstn_all. reflexivity.
  - rewrite adjf_fst. split; [reflexivity|]. split; [apply adjf_snd|].
    rewrite slice_length by lia. split; [lia|]. split.
    + unfold slice. rewrite firstn_firstn. f_equal. lia.
    + exists (b - a)%nat. reflexivity.
Qed.

Definition glue (l : list segment) : list N :=
  match l with [] => [] | s :: tl => sdata s ++ concat (map (fun t => skipn k (sdata t)) tl) end.

Lemma chain_glue a f fd l : CH a f fd l -> glue l = skipn a contig.
Proof.
  intro C. induction C as [a f fd | a f fd b run p tl H1 H2 H3 H4 H5 H6 H7 C IH].
  - cbn. apply app_nil_r.
  - destruct tl as [|t tl']; [apply chain_nonempty in C; congruence|].
    destruct (chain_head _ _ _ _ _ C ltac:(lia)) as (_ & _ & Hlen & _ & _).
    cbn [glue sdata map concat] in *.
    assert (E : skipn k (sdata t) ++ concat (map (fun t0 => skipn k (sdata t0)) tl') = skipn b contig).
    { transitivity (skipn k (sdata t ++ concat (map (fun t0 => skipn k (sdata t0)) tl'))).
      - rewrite skipn_app. replace (k - length (sdata t))%nat with 0%nat by lia. reflexivity.
      - rewrite IH, skipn_skipn. f_equal. lia. }
    rewrite E. apply slice_skipn. lia.
Qed.

Lemma chain_last_seg a f fd l d : CH a f fd l -> (a <= length contig)%nat ->
  sback (last l d) = MISSING_KMER /\ sbdir (last l d) = false /\
  exists a', sdata (last l d) = skipn a' contig.
Proof.
  intro C. induction C as [a f fd | a f fd b run p tl H1 H2 H3 H4 H5 H6 H7 C IH]; intro Ha.
  - cbn. repeat split. exists a. reflexivity.
  - destruct tl as [|t tl']; [apply chain_nonempty in C; congruence|].
    change (last (_ :: t :: tl') d) with (last (t :: tl') d). apply IH. lia.
Qed.

Lemma chain_nonempty_data a f fd l : CH a f fd l -> (a < length contig)%nat ->
  Forall (fun s => sdata s <> []) l.
Proof.
  intro C. induction C as [a f fd | a f fd b run p tl H1 H2 H3 H4 H5 H6 H7 C IH]; intro Ha.
  - constructor; [|constructor]. cbn. intro E. apply (f_equal (@length N)) in E.
    rewrite skipn_length in E. cbn in E. lia.
  - constructor.
    + cbn. intro E. apply (f_equal (@length N)) in E. rewrite slice_length in E by lia. cbn in E. lia.
    + apply IH. lia.
Qed.

(* everything the property says about two consecutive segments *)
Definition link (s t : segment) : Prop :=
  (k <= length (sdata s))%nat /\ (k <= length (sdata t))%nat /\
  firstn k (sdata t) = lastn k (sdata s) /\
  sback s = sfront t /\ sbdir s = sfdir t /\ spl (sback s) = true /\ sback s <> MISSING_KMER /\
  exists pre, Forall acgt (pre ++ lastn k (sdata s)) /\
     sback s = data_canonical (feed (kmer_new kN) (pre ++ lastn k (sdata s))) /\
     sbdir s = is_dir_oriented (feed (kmer_new kN) (pre ++ lastn k (sdata s))).

Lemma chain_links a f fd l : CH a f fd l ->
  forall i s t, nth_error l i = Some s -> nth_error l (S i) = Some t -> link s t.
Proof.
  intro C. induction C as [a f fd | a f fd b run p tl H1 H2 H3 H4 H5 H6 H7 C IH]; intros i s t Hs Ht.
  - destruct i; discriminate.
  - destruct i as [|i]; [|exact (IH i s t Hs Ht)].
    cbn in Hs. injection Hs as <-. destruct tl as [|t' tl']; [discriminate|]. cbn in Ht. injection Ht as ->.
    destruct (chain_head _ _ _ _ _ C ltac:(lia)) as (Hf & Hfd & Hlen & Hfirst & _).
    unfold link. cbn [sdata sback sbdir].
    rewrite slice_length by lia.
    assert (Hw : lastn k (slice contig a b) = lastn k run).
    { rewrite <- (lastn_app_ge k (firstn a contig)) by (rewrite slice_length; lia).
      rewrite firstn_slice by lia. rewrite H3. apply lastn_app_ge. exact H5. }
    split; [lia|]. split; [exact Hlen|]. split.
    { rewrite Hfirst. symmetry. apply lastn_slice. lia. }
    split; [symmetry; exact Hf|]. split; [symmetry; apply Hfd; exact H7|].
    split; [exact H6|]. split; [exact H7|].
    exists (firstn (length run - k) run). rewrite Hw, lastn_split. auto.
Qed.
End Shape.

(* ---------------------------------------------------------------- the pinned statements (props/C10.v) *)
Lemma with_size_is_gen_proof : forall contig spl k m,
  split_at_splitters_with_size contig spl k m = split_gen true contig spl k.
Proof. reflexivity. Qed.

Lemma old_is_gen_proof : forall contig spl k,
  split_at_splitters contig spl k = split_gen false contig spl k.
Proof. reflexivity. Qed.

Lemma nonempty_output_proof : forall ws contig spl k, split_gen ws contig spl k <> [].
Proof.
  intros. unfold split_gen. destruct (lenN contig <? k); [discriminate|].
  destruct (seg_loop ws spl (N.to_nat k) contig contig 0 (kmer_new k) 0 MISSING_KMER false); discriminate.
Qed.

Lemma tiling_proof : forall ws contig spl k s0 rest, 1 <= k <= 32 ->
  split_gen ws contig spl k = s0 :: rest ->
  sdata s0 ++ concat (map (fun s => skipn (N.to_nat k) (sdata s)) rest) = contig.
Proof.
  intros ws contig spl k s0 rest Hk E.
  pose proof (chain_glue ws contig spl k Hk _ _ _ _ (split_chain ws contig spl k Hk)) as G.
  rewrite E in G. exact G.
Qed.

Lemma last_cons_default {A} (x : A) l : last (x :: l) x = last l x.
Proof. destruct l; reflexivity. Qed.

Lemma starts_ends_proof : forall ws contig spl k s0 rest, 1 <= k <= 32 ->
  split_gen ws contig spl k = s0 :: rest ->
  (exists t, contig = sdata s0 ++ t) /\ (exists p, contig = p ++ sdata (last rest s0)).
Proof.
  intros ws contig spl k s0 rest Hk E.
  pose proof (split_chain ws contig spl k Hk) as C. rewrite E in C. split.
  - assert (exists n, sdata s0 = firstn n contig) as (n & Hn).
    { inversion C; subst; cbn [sdata].
      - exists (length contig). rewrite firstn_all. reflexivity.
      - exists b. unfold slice. cbn [skipn]. rewrite Nat.sub_0_r. reflexivity. }
    exists (skipn n contig). rewrite Hn. symmetry. apply firstn_skipn.
  - destruct (chain_last_seg ws contig spl k Hk _ _ _ _ s0 C ltac:(lia)) as (_ & _ & a' & Ha).
    rewrite last_cons_default in Ha.
    exists (firstn a' contig). rewrite Ha. symmetry. apply firstn_skipn.
Qed.

Lemma ends_missing_proof : forall ws contig spl k s0 rest, 1 <= k <= 32 ->
  split_gen ws contig spl k = s0 :: rest ->
  sfront s0 = MISSING_KMER /\ sfdir s0 = false /\
  sback (last rest s0) = MISSING_KMER /\ sbdir (last rest s0) = false.
Proof.
  intros ws contig spl k s0 rest Hk E.
  pose proof (split_chain ws contig spl k Hk) as C. rewrite E in C.
  destruct (chain_last_seg ws contig spl k Hk _ _ _ _ s0 C ltac:(lia)) as (Hb & Hd & _).
  rewrite last_cons_default in Hb, Hd.
  assert (sfront s0 = MISSING_KMER /\ sfdir s0 = false) as [H1 H2].
  { inversion C; subst; cbn [sfront sfdir]; unfold adjf; rewrite N.eqb_refl; destruct ws; auto. }
  auto.
Qed.

Lemma links_proof : forall ws contig spl k i s t, 1 <= k <= 32 ->
  nth_error (split_gen ws contig spl k) i = Some s ->
  nth_error (split_gen ws contig spl k) (S i) = Some t ->
  link spl k s t.
Proof.
  intros ws contig spl k i s t Hk Hs Ht.
  exact (chain_links ws contig spl k Hk _ _ _ _ (split_chain ws contig spl k Hk) i s t Hs Ht).
Qed.

Lemma overlap_k_proof : forall ws contig spl k i s t, 1 <= k <= 32 ->
  nth_error (split_gen ws contig spl k) i = Some s ->
  nth_error (split_gen ws contig spl k) (S i) = Some t ->
  (N.to_nat k <= length (sdata s))%nat /\
  firstn (N.to_nat k) (sdata t) = lastn (N.to_nat k) (sdata s).
Proof.
  intros ws contig spl k i s t Hk Hs Ht.
  destruct (links_proof ws contig spl k i s t Hk Hs Ht) as (H1 & H2 & H3 & _). auto.
Qed.

Lemma later_len_ge_k_proof : forall ws contig spl k i t, 1 <= k <= 32 ->
  nth_error (split_gen ws contig spl k) (S i) = Some t ->
  (N.to_nat k <= length (sdata t))%nat.
Proof.
  intros ws contig spl k i t Hk Ht.
  destruct (nth_error (split_gen ws contig spl k) i) as [s|] eqn:Hs.
  - destruct (links_proof ws contig spl k i s t Hk Hs Ht) as (_ & H2 & _). exact H2.
  - apply nth_error_None in Hs. assert (nth_error (split_gen ws contig spl k) (S i) <> None) as Hn by congruence.
    apply nth_error_Some in Hn. lia.
Qed.

Lemma boundary_kmers_proof : forall ws contig spl k i s t, 1 <= k <= 32 ->
  nth_error (split_gen ws contig spl k) i = Some s ->
  nth_error (split_gen ws contig spl k) (S i) = Some t ->
  let w := lastn (N.to_nat k) (sdata s) in
  sback s = sfront t /\ sbdir s = sfdir t /\
  spl (sback s) = true /\ sback s <> MISSING_KMER /\
  length w = N.to_nat k /\
  exists pre, Forall acgt (pre ++ w) /\
    sback s = data_canonical (feed (kmer_new k) (pre ++ w)) /\
    sbdir s = is_dir_oriented (feed (kmer_new k) (pre ++ w)).
Proof.
  intros ws contig spl k i s t Hk Hs Ht w.
  destruct (links_proof ws contig spl k i s t Hk Hs Ht) as (H1 & H2 & H3 & H4 & H5 & H6 & H7 & H8).
  repeat (split; [assumption|]). split; [apply lastn_length; exact H1 | exact H8].
Qed.

Lemma segments_nonempty_proof : forall ws contig spl k, 1 <= k <= 32 -> contig <> [] ->
  Forall (fun s => sdata s <> []) (split_gen ws contig spl k).
Proof.
  intros ws contig spl k Hk Hne.
  apply (chain_nonempty_data ws contig spl k Hk _ _ _ _ (split_chain ws contig spl k Hk)).
  destruct contig; [congruence | cbn; lia].
Qed.

Lemma short_single_proof : forall ws contig spl k, lenN contig < k ->
  split_gen ws contig spl k = [mkSeg contig MISSING_KMER MISSING_KMER false false].
Proof.
  intros ws contig spl k H. unfold split_gen. apply N.ltb_lt in H. rewrite H. reflexivity.
Qed.

Lemma loop_no_hit ws spl k contig : forall rest pos x s f fd,
  (forall v, In v (enum_loop x rest) -> spl v = false) ->
  seg_loop ws spl k contig rest pos x s f fd = seg_final ws contig s f fd.
Proof.
  induction rest as [|b rest IH]; intros pos x s f fd H; [reflexivity|].
  cbn [seg_loop]. cbn [enum_loop] in H.
  destruct (3 <? b); [apply IH; exact H|].
  destruct (is_full (insert_canonical x b)).
  - rewrite (H (data_canonical (insert_canonical x b))) by (left; reflexivity).
    apply IH. intros v Hv. apply H. right. exact Hv.
  - apply IH. exact H.
Qed.

Lemma no_splitter_single_proof : forall ws contig spl k,
  (forall v, In v (enumerate_kmers contig k) -> spl v = false) ->
  split_gen ws contig spl k = [mkSeg contig MISSING_KMER MISSING_KMER false false].
Proof.
  intros ws contig spl k H. unfold split_gen, enumerate_kmers in *.
  destruct (lenN contig <? k); [reflexivity|].
  rewrite loop_no_hit by exact H.
  unfold seg_final. destruct contig as [|b c]; [reflexivity|].
  cbn [length skipn Nat.ltb Nat.leb]. rewrite N.eqb_refl. destruct ws; reflexivity.
Qed.

Lemma occurrence_splits_proof : forall ws contig spl k, 1 <= k <= 32 ->
  (exists v, In v (enumerate_kmers contig k) /\ spl v = true) ->
  (2 <= length (split_gen ws contig spl k))%nat.
Proof.
  intros ws contig spl k Hk (v & Hin & Hv). unfold split_gen, enumerate_kmers in *.
  destruct (N.ltb_spec (lenN contig) k) as [Hs|Hl]; [destruct Hin|].
  assert (Hlt : (0 < length contig)%nat) by (unfold lenN in Hl; lia).
  destruct (loop_inv ws contig spl k Hk contig [] [] [] 0%nat MISSING_KMER false
              eq_refl eq_refl (Forall_nil _) ltac:(cbn; lia) Hlt) as (_ & C & _).
  cbn [length feed fold_left] in C. specialize (C (ex_intro _ v (conj Hin Hv))).
  destruct (seg_loop ws spl (N.to_nat k) contig contig 0 (kmer_new k) 0 MISSING_KMER false);
    [cbn in C; lia | exact C].
Qed.

Lemma old_splits_every_occurrence_proof : forall contig spl k, 1 <= k <= 32 -> k <= lenN contig ->
  length (split_at_splitters contig spl k) = S (length (filter spl (enumerate_kmers contig k))).
Proof.
  intros contig spl k Hk Hl. unfold split_at_splitters, split_gen, enumerate_kmers.
  destruct (N.ltb_spec (lenN contig) k) as [Hs|_]; [lia|].
  assert (Hlt : (0 < length contig)%nat) by (unfold lenN in Hl; lia).
  destruct (loop_inv false contig spl k Hk contig [] [] [] 0%nat MISSING_KMER false
              eq_refl eq_refl (Forall_nil _) ltac:(cbn; lia) Hlt) as (_ & _ & C).
  cbn [length feed fold_left] in C. specialize (C eq_refl).
  destruct (seg_loop false spl (N.to_nat k) contig contig 0 (kmer_new k) 0 MISSING_KMER false);
    [cbn in C; lia | exact C].
Qed.
