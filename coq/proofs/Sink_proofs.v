(* Sink_proofs.v - lemmas about model/Sink.v (the output path of create over a fallible sink) for C15 *)
From Ragc Require Import Mach Consts_archive Consts_sink Varint Container Sink.
From Coq Require Import Lia ZifyBool ZifyN ZifyNat.
Arguments N.add : simpl never.
Arguments N.sub : simpl never.
Arguments N.mul : simpl never.
Arguments N.of_nat : simpl never.
Arguments N.to_nat : simpl never.
Arguments write_varint : simpl never.
Arguments write_fixed_u64 : simpl never.
Arguments footer_of : simpl never.

(* ------------------------------------------------------------------ the generated file *)
Lemma all_sites_propagate_proof : code_sites = all_true.
Proof. reflexivity. Qed.

Lemma pipeline_buffers_everything_proof : pipeline_buffers_everything = true.
Proof. reflexivity. Qed.

(* ------------------------------------------------------------------ lists (local copies: keeps this file's
   dependencies down to the models) *)
Lemma lenN_app : forall {A} (a b : list A), lenN (a ++ b) = lenN a + lenN b.
Proof. intros. unfold lenN. rewrite app_length. lia. Qed.
Lemma lenN_cons : forall {A} (x : A) l, lenN (x :: l) = 1 + lenN l.
Proof. intros. unfold lenN. cbn [length]. lia. Qed.
Lemma lenN_nil : forall {A}, lenN (@nil A) = 0.
Proof. reflexivity. Qed.
Lemma skipnS_eq : forall {A} n (l : list A), skipnS n l = skipnN n l.
Proof.
  intros A n l. revert n. induction l as [|x r IH]; intros n; cbn [skipnS].
  - unfold skipnN. rewrite skipn_nil. reflexivity.
  - destruct (n =? 0) eqn:E.
    + apply N.eqb_eq in E. subst. reflexivity.
    + rewrite IH. unfold skipnN. replace (N.to_nat n) with (S (N.to_nat (N.pred n))) by lia. reflexivity.
Qed.
Lemma firstnS_eq : forall {A} n (l : list A), firstnS n l = firstnN n l.
Proof.
  intros A n l. revert n. induction l as [|x r IH]; intros n; cbn [firstnS].
  - unfold firstnN. rewrite firstn_nil. reflexivity.
  - destruct (n =? 0) eqn:E.
    + apply N.eqb_eq in E. subst. reflexivity.
    + rewrite IH. unfold firstnN. replace (N.to_nat n) with (S (N.to_nat (N.pred n))) by lia. reflexivity.
Qed.
Lemma lenN_firstnN : forall {A} n (l : list A), n <= lenN l -> lenN (firstnN n l) = n.
Proof. intros. unfold lenN, firstnN in *. rewrite firstn_length. lia. Qed.
Lemma lenN_skipnN : forall {A} n (l : list A), lenN (skipnN n l) = lenN l - n.
Proof. intros. unfold lenN, skipnN. rewrite skipn_length. lia. Qed.
Lemma firstnN_skipnN : forall {A} n (l : list A), firstnN n l ++ skipnN n l = l.
Proof. intros. apply firstn_skipn. Qed.

(* ------------------------------------------------------------------ small facts *)
Lemma io_cases : forall r : io, r = Ok tt \/ r = Err \/ r = Panic.
Proof. intros [[]| |]; auto. Qed.

Lemma stops_true : forall r, stops true r = false -> r = Ok tt.
Proof. intros [[]| |]; cbn; congruence. Qed.

Lemma stops_ok : forall f, stops f (Ok tt) = false.
Proof. reflexivity. Qed.

Lemma lenN_0_nil : forall {A} (l : list A), lenN l = 0 -> l = [].
Proof. intros A [|x r] H; [reflexivity|]. rewrite lenN_cons in H. lia. Qed.

Lemma firstnN_0 : forall {A} (l : list A), firstnN 0 l = [].
Proof. reflexivity. Qed.

Lemma firstnN_app_le : forall {A} n (a b : list A), n <= lenN a -> firstnN n (a ++ b) = firstnN n a.
Proof.
  intros. unfold firstnN, lenN in *. rewrite firstn_app.
  replace (N.to_nat n - length a)%nat with 0%nat by lia. cbn [firstn]. apply app_nil_r.
Qed.

Lemma firstnN_app_ge : forall {A} n (a b : list A), lenN a <= n -> firstnN n (a ++ b) = a ++ firstnN (n - lenN a) b.
Proof.
  intros. unfold firstnN, lenN in *. rewrite firstn_app. rewrite firstn_all2 by lia.
  f_equal. f_equal. lia.
Qed.

(* ------------------------------------------------------------------ sink *)
Definition sink_ok (s : sink) : Prop := s_len s = lenN (sink_bytes s).

Lemma sink_bytes_cons : forall p c l x ch, sink_bytes (mkSink p c l (x :: ch)) = sink_bytes (mkSink p c l ch) ++ x.
Proof. intros. unfold sink_bytes. cbn [s_chunks rev]. rewrite concat_app. cbn [concat]. rewrite app_nil_r. reflexivity. Qed.

(* every call appends what it accepted, nothing else *)
Lemma sink_write_appends : forall s bs s' r, sink_write s bs = (s', r) ->
  exists x, sink_bytes s' = sink_bytes s ++ x /\ s_len s' = s_len s + lenN x /\ s_pol s' = s_pol s /\
            (r = Ok tt -> x = bs) /\ (r = Ok tt \/ r = Err) /\ x = firstnN (lenN x) bs.
Proof.
  intros s bs s' r H. unfold sink_write in H. cbv zeta in H.
  destruct (lenN bs =? 0) eqn:E0.
  - injection H as <- <-. exists []. rewrite app_nil_r. repeat split; auto.
    + rewrite lenN_nil. lia.
    + intros _. symmetry. apply lenN_0_nil. lia.
  - destruct (lenN bs <=? s_pol s (s_calls s) (s_len s) (lenN bs)) eqn:E1; injection H as <- <-.
    + exists bs. destruct s as [p c l ch]. rewrite sink_bytes_cons. cbn [s_len s_pol]. repeat split; auto.
      unfold firstnN, lenN. rewrite Nat2N.id. symmetry. apply firstn_all.
    + exists (firstnS (s_pol s (s_calls s) (s_len s) (lenN bs)) bs). destruct s as [p c l ch].
      rewrite sink_bytes_cons. cbn [s_len s_pol s_calls] in *. repeat split; auto.
      * rewrite firstnS_eq, lenN_firstnN by lia. reflexivity.
      * intros X. discriminate X.
      * rewrite firstnS_eq, lenN_firstnN by lia. reflexivity.
Qed.

Lemma sink_write_ok : forall s bs s', sink_write s bs = (s', Ok tt) ->
  sink_bytes s' = sink_bytes s ++ bs /\ s_len s' = s_len s + lenN bs /\ s_pol s' = s_pol s.
Proof.
  intros s bs s' H. destruct (sink_write_appends _ _ _ _ H) as (x & A & B & C & D & _ & _).
  rewrite (D eq_refl) in *. auto.
Qed.

Lemma sink_write_keeps_ok : forall s bs s' r, sink_ok s -> sink_write s bs = (s', r) -> sink_ok s'.
Proof.
  intros s bs s' r O H. destruct (sink_write_appends _ _ _ _ H) as (x & A & B & _).
  unfold sink_ok in *. rewrite A, B, O, lenN_app. reflexivity.
Qed.

(* a property of sinks that no write call can break is kept by everything built on top *)
Definition sink_pres (P : sink -> Prop) : Prop := forall s bs, P s -> P (fst (sink_write s bs)).

(* ------------------------------------------------------------------ BufWriter *)
Definition bw_inv (b : bufw) : Prop :=
  b_len b = lenN (buf_bytes b) /\ b_len b <= b_cap b /\ sink_ok (b_sink b).

(* everything handed to the BufWriter so far, in order *)
Definition bw_stream (b : bufw) : list N := sink_bytes (b_sink b) ++ buf_bytes b.

Lemma bw_new_inv : forall cap pol, bw_inv (bw_new cap (sink_new pol)) /\ bw_stream (bw_new cap (sink_new pol)) = [].
Proof. intros. unfold bw_inv, bw_stream, sink_ok. cbn. repeat split; try reflexivity. lia. Qed.

Lemma buf_bytes_push : forall b bs, buf_bytes (bw_push b bs) = buf_bytes b ++ bs.
Proof. intros. unfold buf_bytes, bw_push. cbn [b_buf rev]. rewrite concat_app. cbn [concat]. rewrite app_nil_r. reflexivity. Qed.

Lemma bw_flush_buf_pres : forall P b, sink_pres P -> P (b_sink b) -> P (b_sink (fst (bw_flush_buf b))).
Proof.
  intros P b HP H. unfold bw_flush_buf. destruct (b_len b =? 0); [exact H|].
  pose proof (HP (b_sink b) (buf_bytes b) H) as H1.
  destruct (sink_write (b_sink b) (buf_bytes b)) as [s' r]. cbn [fst] in H1.
  destruct r as [[]| |]; exact H1.
Qed.

Lemma bw_flush_buf_cap : forall b, b_cap (fst (bw_flush_buf b)) = b_cap b.
Proof.
  intros. unfold bw_flush_buf. destruct (b_len b =? 0); [reflexivity|].
  destruct (sink_write (b_sink b) (buf_bytes b)) as [s' r]. destruct r as [[]| |]; reflexivity.
Qed.

Lemma bw_flush_buf_res : forall b b' r, bw_flush_buf b = (b', r) -> r = Ok tt \/ r = Err.
Proof.
  intros b b' r H. unfold bw_flush_buf in H. destruct (b_len b =? 0); [injection H as <- <-; auto|].
  destruct (sink_write (b_sink b) (buf_bytes b)) as [s' r0] eqn:E.
  destruct (sink_write_appends _ _ _ _ E) as (_ & _ & _ & _ & _ & [-> | ->] & _); injection H as <- <-; auto.
Qed.

Lemma bw_flush_buf_ok : forall b b', bw_inv b -> bw_flush_buf b = (b', Ok tt) ->
  bw_inv b' /\ bw_stream b' = bw_stream b /\ buf_bytes b' = [] /\ b_cap b' = b_cap b.
Proof.
  intros b b' (L & C & O) H. unfold bw_flush_buf in H. destruct (b_len b =? 0) eqn:E0.
  - injection H as <-. repeat split; auto. apply lenN_0_nil. lia.
  - destruct (sink_write (b_sink b) (buf_bytes b)) as [s' r] eqn:E.
    destruct r as [[]| |]; try discriminate H. injection H as <-.
    destruct (sink_write_ok _ _ _ E) as (A & B & _).
    unfold bw_inv, bw_stream, buf_bytes. cbn [b_len b_cap b_buf b_sink rev concat]. repeat split; auto.
    + lia.
    + eapply sink_write_keeps_ok; eauto.
    + rewrite app_nil_r. exact A.
Qed.

(* a failed flush keeps the rest: nothing handed to the BufWriter so far is lost *)
Lemma bw_flush_buf_any : forall b b' r, bw_inv b -> bw_flush_buf b = (b', r) ->
  bw_inv b' /\ bw_stream b' = bw_stream b /\ b_cap b' = b_cap b.
Proof.
  intros b b' r I H. destruct (bw_flush_buf_res _ _ _ H) as [-> | ->].
  - destruct (bw_flush_buf_ok _ _ I H) as (A & B & _ & D). auto.
  - destruct I as (L & C & O). unfold bw_flush_buf in H. destruct (b_len b =? 0) eqn:E0; [discriminate H|].
    destruct (sink_write (b_sink b) (buf_bytes b)) as [s' r] eqn:E.
    destruct (sink_write_appends _ _ _ _ E) as (x & A & B & _ & _ & _ & X).
    pose proof (sink_write_keeps_ok _ _ _ _ O E) as O'.
    assert (XL : lenN x <= lenN (buf_bytes b)).
    { rewrite X at 1. unfold lenN, firstnN. rewrite firstn_length. lia. }
    destruct r as [[]| |]; try discriminate H. injection H as <-.
    unfold bw_inv, bw_stream, buf_bytes. cbn [b_len b_cap b_buf b_sink rev concat app].
    rewrite app_nil_r. fold (buf_bytes b). replace (s_len s' - s_len (b_sink b)) with (lenN x) by lia.
    rewrite skipnS_eq, lenN_skipnN. repeat split; auto; try lia.
    rewrite A, <- app_assoc. f_equal. rewrite X at 1. apply firstnN_skipnN.
Qed.

Lemma bw_write_all_pres : forall P b bs, sink_pres P -> P (b_sink b) -> P (b_sink (fst (bw_write_all b bs))).
Proof.
  intros P b bs HP H. unfold bw_write_all. cbv zeta.
  destruct (lenN bs <? b_cap b - b_len b); [exact H|].
  assert (H1 : P (b_sink (fst (if b_cap b - b_len b <? lenN bs then bw_flush_buf b else (b, Ok tt))))).
  { destruct (b_cap b - b_len b <? lenN bs); [apply bw_flush_buf_pres; assumption | exact H]. }
  destruct (if b_cap b - b_len b <? lenN bs then bw_flush_buf b else (b, Ok tt)) as [b1 r1]. cbn [fst] in H1.
  destruct r1 as [[]| |]; try exact H1.
  destruct (b_cap b1 <=? lenN bs); [|exact H1].
  pose proof (HP (b_sink b1) bs H1) as H2. destruct (sink_write (b_sink b1) bs) as [s' r]. exact H2.
Qed.

Lemma bw_write_all_cap : forall b bs, b_cap (fst (bw_write_all b bs)) = b_cap b.
Proof.
  intros. unfold bw_write_all. cbv zeta. destruct (lenN bs <? b_cap b - b_len b); [reflexivity|].
  assert (H1 : b_cap (fst (if b_cap b - b_len b <? lenN bs then bw_flush_buf b else (b, Ok tt))) = b_cap b).
  { destruct (b_cap b - b_len b <? lenN bs); [apply bw_flush_buf_cap | reflexivity]. }
  destruct (if b_cap b - b_len b <? lenN bs then bw_flush_buf b else (b, Ok tt)) as [b1 r1]. cbn [fst] in H1.
  destruct r1 as [[]| |]; try exact H1.
  destruct (b_cap b1 <=? lenN bs); [|exact H1].
  destruct (sink_write (b_sink b1) bs) as [s' r]. exact H1.
Qed.

Lemma bw_write_all_res : forall b bs b' r, bw_write_all b bs = (b', r) -> r = Ok tt \/ r = Err.
Proof.
  intros b bs b' r H. unfold bw_write_all in H. cbv zeta in H.
  destruct (lenN bs <? b_cap b - b_len b); [injection H as <- <-; auto|].
  destruct (if b_cap b - b_len b <? lenN bs then bw_flush_buf b else (b, Ok tt)) as [b1 r1] eqn:E1.
  assert (R1 : r1 = Ok tt \/ r1 = Err).
  { destruct (b_cap b - b_len b <? lenN bs); [eapply bw_flush_buf_res; eauto | injection E1 as <- <-; auto]. }
  destruct R1 as [-> | ->]; [|injection H as <- <-; auto].
  destruct (b_cap b1 <=? lenN bs); [|injection H as <- <-; auto].
  destruct (sink_write (b_sink b1) bs) as [s' r0] eqn:E.
  destruct (sink_write_appends _ _ _ _ E) as (_ & _ & _ & _ & _ & [-> | ->] & _); injection H as <- <-; auto.
Qed.

(* a successful write_all hands the bytes on in order: the stream grows by exactly bs *)
Lemma bw_write_all_ok : forall b bs b', bw_inv b -> bw_write_all b bs = (b', Ok tt) ->
  bw_inv b' /\ bw_stream b' = bw_stream b ++ bs /\ b_cap b' = b_cap b.
Proof.
  intros b bs b' I H. pose proof I as (L & C & O). unfold bw_write_all in H. cbv zeta in H.
  destruct (lenN bs <? b_cap b - b_len b) eqn:E0.
  - injection H as <-. unfold bw_inv, bw_stream. rewrite buf_bytes_push. cbn [bw_push b_len b_cap b_sink].
    rewrite lenN_app, app_assoc. repeat split; auto; lia.
  - destruct (if b_cap b - b_len b <? lenN bs then bw_flush_buf b else (b, Ok tt)) as [b1 r1] eqn:E1.
    assert (X : r1 = Ok tt -> bw_inv b1 /\ bw_stream b1 = bw_stream b /\ b_cap b1 = b_cap b /\
                (b_cap b - b_len b <? lenN bs = true -> b_len b1 = 0 /\ buf_bytes b1 = []) /\
                (b_cap b - b_len b <? lenN bs = false -> b1 = b)).
    { intros ->. destruct (b_cap b - b_len b <? lenN bs) eqn:E2.
      - destruct (bw_flush_buf_ok _ _ I E1) as (A & B & D & F).
        split; [exact A|]. split; [exact B|]. split; [exact F|]. split; [|discriminate].
        intros _. split; [|exact D]. destruct A as (A1 & _). rewrite A1, D. reflexivity.
      - injection E1 as <-.
        split; [exact I|]. split; [reflexivity|]. split; [reflexivity|]. split; [discriminate|reflexivity]. }
    destruct r1 as [[]| |]; try discriminate H.
    destruct (X eq_refl) as (I1 & S1 & C1 & F1 & F2). clear X.
    destruct (b_cap b1 <=? lenN bs) eqn:E3.
    + destruct (sink_write (b_sink b1) bs) as [s' r] eqn:E. injection H as <- ->.
      destruct (sink_write_ok _ _ _ E) as (A & B & _).
      assert (Z : b_len b1 = 0 /\ buf_bytes b1 = []).
      { destruct (b_cap b - b_len b <? lenN bs) eqn:E2; [apply F1; reflexivity|].
        rewrite (F2 eq_refl) in *. assert (b_len b = 0) by lia. split; [assumption|]. apply lenN_0_nil. lia. }
      destruct Z as (Z1 & Z2). destruct I1 as (L1 & C1' & O1).
      unfold bw_inv, bw_stream in *. unfold buf_bytes in *. cbn [b_len b_cap b_buf b_sink].
      rewrite Z2 in *. rewrite app_nil_r in *. repeat split; auto.
      * eapply sink_write_keeps_ok; eauto.
      * rewrite A, S1. reflexivity.
    + injection H as <-. destruct I1 as (L1 & C1' & O1).
      unfold bw_inv, bw_stream. rewrite buf_bytes_push. cbn [bw_push b_len b_cap b_sink].
      rewrite lenN_app, app_assoc. unfold bw_stream in S1. rewrite S1. repeat split; auto; try lia.
      destruct (b_cap b - b_len b <? lenN bs) eqn:E2.
      * destruct (F1 eq_refl) as (Z1 & _). lia.
      * rewrite (F2 eq_refl) in *. lia.
Qed.

(* ------------------------------------------------------------------ Archive (output mode) *)
Definition ar_sink (a : arch) : sink := b_sink (a_bw a).

(* open for writing, buffer within capacity, and nothing lost or reordered so far: what the file holds plus
   what the BufWriter holds is exactly what the writer state says was written *)
Definition ar_inv (a : arch) : Prop :=
  a_open a = true /\ bw_inv (a_bw a) /\ bw_stream (a_bw a) = w_bytes (a_w a).

Lemma ar_open_inv : forall pol cap, ar_inv (ar_open pol cap).
Proof.
  intros. unfold ar_inv, ar_open. cbn [a_open a_bw a_w]. destruct (bw_new_inv cap pol) as (A & B).
  split; [reflexivity|]. split; [exact A|]. rewrite B. reflexivity.
Qed.

Lemma w_bytes_cons2 : forall o st mp bf (d mb : list N) ch,
  w_bytes (mkW o st mp bf (d :: mb :: ch)) = concat (rev ch) ++ mb ++ d.
Proof.
  intros. unfold w_bytes. cbn [w_chunks rev]. rewrite !concat_app. cbn [concat].
  rewrite !app_nil_r, <- app_assoc. reflexivity.
Qed.

Lemma add_part_valid : forall w sid d m, lenN (w_streams w) <=? sid = false ->
  add_part w sid d m =
  (mkW (w_off w + lenN (write_varint m) + lenN d)
       (upd_nth (N.to_nat sid) (ws_push_part (mkPart (w_off w) (lenN d))) (w_streams w))
       (w_map w) (w_buf w) (d :: write_varint m :: w_chunks w), Ok tt).
Proof. intros w sid d m E. unfold add_part. rewrite E. reflexivity. Qed.

Lemma ar_add_part_res : forall S a sid d m, snd (ar_add_part S a sid d m) = Ok tt \/ snd (ar_add_part S a sid d m) = Err.
Proof.
  intros. unfold ar_add_part. cbv zeta.
  destruct (lenN (w_streams (a_w a)) <=? sid); [auto|]. destruct (negb (a_open a)); [auto|].
  destruct (bw_write_all (a_bw a) (write_varint m)) as [b1 r1].
  destruct (stops (p_add_meta S) r1); [auto|].
  destruct (bw_write_all b1 d) as [b2 r2]. destruct (stops (p_add_data S) r2); auto.
Qed.

Lemma ar_add_part_pres : forall P S a sid d m, sink_pres P -> P (ar_sink a) -> P (ar_sink (fst (ar_add_part S a sid d m))).
Proof.
  intros P S a sid d m HP H. unfold ar_add_part. cbv zeta.
  destruct (lenN (w_streams (a_w a)) <=? sid); [exact H|]. destruct (negb (a_open a)); [exact H|].
  pose proof (bw_write_all_pres P (a_bw a) (write_varint m) HP H) as H1.
  destruct (bw_write_all (a_bw a) (write_varint m)) as [b1 r1]. cbn [fst] in H1.
  destruct (stops (p_add_meta S) r1); [exact H1|].
  pose proof (bw_write_all_pres P b1 d HP H1) as H2.
  destruct (bw_write_all b1 d) as [b2 r2]. cbn [fst] in H2.
  destruct (stops (p_add_data S) r2); exact H2.
Qed.

Lemma ar_add_part_ok : forall a sid d m a', ar_inv a -> ar_add_part all_true a sid d m = (a', Ok tt) ->
  ar_inv a' /\ add_part (a_w a) sid d m = (a_w a', Ok tt).
Proof.
  intros a sid d m a' (Op & I & St) H. unfold ar_add_part in H. cbv zeta in H.
  destruct (lenN (w_streams (a_w a)) <=? sid) eqn:E; [discriminate H|]. rewrite Op in H. cbn [negb] in H.
  destruct (bw_write_all (a_bw a) (write_varint m)) as [b1 r1] eqn:E1. cbn [all_true p_add_meta p_add_data] in H.
  destruct (stops true r1) eqn:S1; [discriminate H|]. apply stops_true in S1. subst r1.
  destruct (bw_write_all_ok _ _ _ I E1) as (I1 & St1 & _).
  destruct (bw_write_all b1 d) as [b2 r2] eqn:E2.
  destruct (stops true r2) eqn:S2; [discriminate H|]. apply stops_true in S2. subst r2.
  destruct (bw_write_all_ok _ _ _ I1 E2) as (I2 & St2 & _).
  injection H as <-. cbn [a_w a_bw a_open]. rewrite (add_part_valid _ _ _ _ E). cbn [fst].
  split; [|reflexivity]. unfold ar_inv. cbn [a_w a_bw a_open].
  split; [reflexivity|]. split; [exact I2|].
  rewrite St2, St1, St, w_bytes_cons2, <- app_assoc. reflexivity.
Qed.

Lemma ar_flush_items_res : forall S its a sid,
  snd (ar_flush_items S a sid its) = Ok tt \/ snd (ar_flush_items S a sid its) = Err.
Proof.
  intros S its. induction its as [|[d m] r IH]; intros a sid; cbn [ar_flush_items]; [auto|].
  destruct (ar_add_part S a sid d m) as [a' res]. destruct (stops (p_fb_add S) res); [auto|apply IH].
Qed.

Lemma ar_flush_items_pres : forall P S its a sid, sink_pres P -> P (ar_sink a) ->
  P (ar_sink (fst (ar_flush_items S a sid its))).
Proof.
  intros P S its. induction its as [|[d m] r IH]; intros a sid HP H; cbn [ar_flush_items]; [exact H|].
  pose proof (ar_add_part_pres P S a sid d m HP H) as H1.
  destruct (ar_add_part S a sid d m) as [a' res]. cbn [fst] in H1.
  destruct (stops (p_fb_add S) res); [exact H1|apply IH; assumption].
Qed.

Lemma ar_flush_items_ok : forall its a sid a', ar_inv a -> ar_flush_items all_true a sid its = (a', Ok tt) ->
  ar_inv a' /\ flush_items (a_w a) sid its = (a_w a', Ok tt).
Proof.
  induction its as [|[d m] r IH]; intros a sid a' I H; cbn [ar_flush_items flush_items] in *.
  - injection H as <-. auto.
  - destruct (ar_add_part all_true a sid d m) as [a1 res] eqn:E. cbn [all_true p_fb_add] in H.
    destruct (stops true res) eqn:S1; [discriminate H|]. apply stops_true in S1. subst res.
    destruct (ar_add_part_ok _ _ _ _ _ I E) as (I1 & P1). rewrite P1.
    apply IH; assumption.
Qed.

Lemma ar_flush_groups_res : forall S b a,
  snd (ar_flush_groups S a b) = Ok tt \/ snd (ar_flush_groups S a b) = Err.
Proof.
  intros S b. induction b as [|[sid its] r IH]; intros a; cbn [ar_flush_groups]; [auto|].
  pose proof (ar_flush_items_res S its a sid) as R.
  destruct (ar_flush_items S a sid its) as [a' res]. cbn [snd] in R.
  destruct R as [-> | ->]; [apply IH | auto].
Qed.

Lemma ar_flush_groups_pres : forall P S b a, sink_pres P -> P (ar_sink a) ->
  P (ar_sink (fst (ar_flush_groups S a b))).
Proof.
  intros P S b. induction b as [|[sid its] r IH]; intros a HP H; cbn [ar_flush_groups]; [exact H|].
  pose proof (ar_flush_items_pres P S its a sid HP H) as H1.
  destruct (ar_flush_items S a sid its) as [a' res]. cbn [fst] in H1.
  destruct res as [[]| |]; [apply IH; assumption | exact H1 | exact H1].
Qed.

Lemma ar_flush_groups_ok : forall b a a', ar_inv a -> ar_flush_groups all_true a b = (a', Ok tt) ->
  ar_inv a' /\ flush_groups (a_w a) b = (a_w a', Ok tt).
Proof.
  induction b as [|[sid its] r IH]; intros a a' I H; cbn [ar_flush_groups flush_groups] in *.
  - injection H as <-. auto.
  - destruct (ar_flush_items all_true a sid its) as [a1 res] eqn:E.
    destruct res as [[]| |]; try (injection H as _ X; discriminate X).
    destruct (ar_flush_items_ok _ _ _ _ I E) as (I1 & P1). rewrite P1. apply IH; assumption.
Qed.

Lemma ar_flush_buffers_res : forall S a,
  snd (ar_flush_buffers S a) = Ok tt \/ snd (ar_flush_buffers S a) = Err.
Proof. intros. apply ar_flush_groups_res. Qed.

Lemma ar_flush_buffers_pres : forall P S a, sink_pres P -> P (ar_sink a) -> P (ar_sink (fst (ar_flush_buffers S a))).
Proof. intros. unfold ar_flush_buffers. cbv zeta. apply ar_flush_groups_pres; assumption. Qed.

Lemma ar_flush_buffers_ok : forall a a', ar_inv a -> ar_flush_buffers all_true a = (a', Ok tt) ->
  ar_inv a' /\ flush_buffers (a_w a) = (a_w a', Ok tt).
Proof.
  intros a a' I H. unfold ar_flush_buffers in H. cbv zeta in H. unfold flush_buffers.
  assert (I' : ar_inv (ar_with_w a (mkW (w_off (a_w a)) (w_streams (a_w a)) (w_map (a_w a)) [] (w_chunks (a_w a))))).
  { destruct I as (Op & Ib & St). unfold ar_inv, ar_with_w. cbn [a_w a_bw a_open].
    split; [exact Op|]. split; [exact Ib|]. exact St. }
  exact (ar_flush_groups_ok _ _ _ I' H).
Qed.

(* ------------------------------------------------------------------ serialize / close / drop *)
Lemma bw_flush_pres : forall P b, sink_pres P -> P (b_sink b) -> P (b_sink (fst (bw_flush b))).
Proof. intros. apply bw_flush_buf_pres; assumption. Qed.

Lemma ar_serialize_res : forall S b w, snd (ar_serialize S b w) = Ok tt \/ snd (ar_serialize S b w) = Err.
Proof.
  intros. unfold ar_serialize. cbv zeta.
  destruct (bw_write_all b (footer_of w)) as [b1 r1]. destruct (stops (p_ser_footer S) r1); [auto|].
  destruct (bw_write_all b1 (write_fixed_u64 (lenN (footer_of w)))) as [b2 r2].
  destruct (stops (p_ser_len S) r2); [auto|].
  destruct (bw_flush b2) as [b3 r3]. destruct (stops (p_ser_flush S) r3); auto.
Qed.

Lemma ar_serialize_pres : forall P S b w, sink_pres P -> P (b_sink b) -> P (b_sink (fst (ar_serialize S b w))).
Proof.
  intros P S b w HP H. unfold ar_serialize. cbv zeta.
  pose proof (bw_write_all_pres P b (footer_of w) HP H) as H1.
  destruct (bw_write_all b (footer_of w)) as [b1 r1]. cbn [fst] in H1.
  destruct (stops (p_ser_footer S) r1); [exact H1|].
  pose proof (bw_write_all_pres P b1 (write_fixed_u64 (lenN (footer_of w))) HP H1) as H2.
  destruct (bw_write_all b1 (write_fixed_u64 (lenN (footer_of w)))) as [b2 r2]. cbn [fst] in H2.
  destruct (stops (p_ser_len S) r2); [exact H2|].
  pose proof (bw_flush_pres P b2 HP H2) as H3.
  destruct (bw_flush b2) as [b3 r3]. cbn [fst] in H3.
  destruct (stops (p_ser_flush S) r3); exact H3.
Qed.

Lemma ar_serialize_ok : forall b w b', bw_inv b -> ar_serialize all_true b w = (b', Ok tt) ->
  bw_inv b' /\ buf_bytes b' = [] /\
  bw_stream b' = bw_stream b ++ footer_of w ++ write_fixed_u64 (lenN (footer_of w)).
Proof.
  intros b w b' I H. unfold ar_serialize in H. cbv zeta in H. cbn [all_true p_ser_footer p_ser_len p_ser_flush] in H.
  destruct (bw_write_all b (footer_of w)) as [b1 r1] eqn:E1.
  destruct (stops true r1) eqn:S1; [discriminate H|]. apply stops_true in S1. subst r1.
  destruct (bw_write_all_ok _ _ _ I E1) as (I1 & St1 & _).
  destruct (bw_write_all b1 (write_fixed_u64 (lenN (footer_of w)))) as [b2 r2] eqn:E2.
  destruct (stops true r2) eqn:S2; [discriminate H|]. apply stops_true in S2. subst r2.
  destruct (bw_write_all_ok _ _ _ I1 E2) as (I2 & St2 & _).
  destruct (bw_flush b2) as [b3 r3] eqn:E3.
  destruct (stops true r3) eqn:S3; [discriminate H|]. apply stops_true in S3. subst r3.
  injection H as <-. unfold bw_flush in E3.
  destruct (bw_flush_buf_ok _ _ I2 E3) as (I3 & St3 & Em & _).
  split; [exact I3|]. split; [exact Em|]. rewrite St3, St2, St1, <- app_assoc. reflexivity.
Qed.

Lemma ar_close_res : forall S a, snd (ar_close S a) = Ok tt \/ snd (ar_close S a) = Err.
Proof.
  intros. unfold ar_close.
  destruct (if a_open a then bw_flush (a_bw a) else (a_bw a, Ok tt)) as [b1 r1].
  destruct (stops (p_close_flush S) r1); [auto|].
  destruct (if a_open a then ar_serialize S b1 (a_w a) else (b1, Err)) as [b2 r2].
  destruct (stops (p_close_ser S) r2); auto.
Qed.

Lemma ar_close_pres : forall P S a, sink_pres P -> P (ar_sink a) -> P (ar_sink (fst (ar_close S a))).
Proof.
  intros P S a HP H. unfold ar_close.
  assert (H1 : P (b_sink (fst (if a_open a then bw_flush (a_bw a) else (a_bw a, Ok tt))))).
  { destruct (a_open a); [apply bw_flush_pres; assumption | exact H]. }
  destruct (if a_open a then bw_flush (a_bw a) else (a_bw a, Ok tt)) as [b1 r1]. cbn [fst] in H1.
  destruct (stops (p_close_flush S) r1); [exact H1|].
  assert (H2 : P (b_sink (fst (if a_open a then ar_serialize S b1 (a_w a) else (b1, Err))))).
  { destruct (a_open a); [apply ar_serialize_pres; assumption | exact H1]. }
  destruct (if a_open a then ar_serialize S b1 (a_w a) else (b1, Err)) as [b2 r2]. cbn [fst] in H2.
  destruct (stops (p_close_ser S) r2); [exact H2|].
  unfold ar_sink. cbn [fst a_bw]. destruct (a_open a); [apply bw_flush_buf_pres; assumption | exact H2].
Qed.

(* a close that returns Ok has put the complete archive into the file, and nothing is left in the buffer *)
Lemma ar_close_ok : forall a a', ar_inv a -> ar_close all_true a = (a', Ok tt) ->
  ar_file a' = close (a_w a) /\ a_open a' = false /\ a_w a' = a_w a.
Proof.
  intros a a' (Op & I & St) H. unfold ar_close in H. rewrite Op in H.
  cbn [all_true p_close_flush p_close_ser] in H.
  destruct (bw_flush (a_bw a)) as [b1 r1] eqn:E1.
  destruct (stops true r1) eqn:S1; [discriminate H|]. apply stops_true in S1. subst r1.
  unfold bw_flush in E1. destruct (bw_flush_buf_ok _ _ I E1) as (I1 & St1 & _ & _).
  destruct (ar_serialize all_true b1 (a_w a)) as [b2 r2] eqn:E2.
  destruct (stops true r2) eqn:S2; [discriminate H|]. apply stops_true in S2. subst r2.
  destruct (ar_serialize_ok _ _ _ I1 E2) as (I2 & Em & St2).
  injection H as <-. unfold ar_file. cbn [a_bw a_open a_w].
  assert (Z : fst (bw_flush_buf b2) = b2).
  { unfold bw_flush_buf. destruct I2 as (L2 & _ & _). rewrite L2, Em. reflexivity. }
  rewrite Z. split; [|split; reflexivity].
  unfold bw_stream in St2. rewrite Em, app_nil_r in St2. rewrite St2.
  fold (bw_stream b1). rewrite St1, St. reflexivity.
Qed.

Lemma ar_drop_pres : forall P S a, sink_pres P -> P (ar_sink a) -> P (ar_sink (ar_drop S a)).
Proof.
  intros P S a HP H. unfold ar_drop.
  pose proof (ar_close_pres P S a HP H) as H1. destruct (ar_close S a) as [a1 r]. cbn [fst] in H1.
  destruct (a_open a1); [|exact H1]. unfold ar_sink. cbn [a_bw]. apply bw_flush_buf_pres; assumption.
Qed.

(* dropping an archive that was closed successfully does no I/O *)
Lemma ar_drop_closed : forall S a, a_open a = false -> p_close_ser S = true -> ar_drop S a = a.
Proof.
  intros S [w b o] Op Ps. cbn [a_open] in Op. subst o. unfold ar_drop, ar_close. cbn [a_open a_bw a_w].
  rewrite stops_ok. rewrite Ps. cbn [stops a_open]. reflexivity.
Qed.

(* ------------------------------------------------------------------ finalize and the CLI *)
Lemma finalize_io_res : forall S a, snd (finalize_io S a) = Ok tt \/ snd (finalize_io S a) = Err.
Proof.
  intros. unfold finalize_io. destruct (ar_flush_buffers S a) as [a1 r1].
  destruct (stops (p_fin_flush S) r1); [auto|].
  destruct (ar_close S a1) as [a2 r2]. destruct (stops (p_fin_close S) r2); auto.
Qed.

Lemma finalize_io_pres : forall P S a, sink_pres P -> P (ar_sink a) -> P (ar_sink (fst (finalize_io S a))).
Proof.
  intros P S a HP H. unfold finalize_io.
  pose proof (ar_flush_buffers_pres P S a HP H) as H1.
  destruct (ar_flush_buffers S a) as [a1 r1]. cbn [fst] in H1.
  destruct (stops (p_fin_flush S) r1); [exact H1|].
  pose proof (ar_close_pres P S a1 HP H1) as H2.
  destruct (ar_close S a1) as [a2 r2]. cbn [fst] in H2.
  destruct (stops (p_fin_close S) r2); exact H2.
Qed.

Lemma finalize_io_ok : forall a a', ar_inv a -> finalize_io all_true a = (a', Ok tt) ->
  ar_file a' = close (fst (flush_buffers (a_w a))) /\ snd (flush_buffers (a_w a)) = Ok tt /\ a_open a' = false.
Proof.
  intros a a' I H. unfold finalize_io in H. cbn [all_true p_fin_flush p_fin_close] in H.
  destruct (ar_flush_buffers all_true a) as [a1 r1] eqn:E1.
  destruct (stops true r1) eqn:S1; [discriminate H|]. apply stops_true in S1. subst r1.
  destruct (ar_flush_buffers_ok _ _ I E1) as (I1 & P1).
  destruct (ar_close all_true a1) as [a2 r2] eqn:E2.
  destruct (stops true r2) eqn:S2; [discriminate H|]. apply stops_true in S2. subst r2.
  destruct (ar_close_ok _ _ I1 E2) as (F & Op & _). injection H as <-.
  rewrite P1. cbn [fst snd]. auto.
Qed.

Lemma main_io_pres : forall P S a, sink_pres P -> P (ar_sink a) -> P (ar_sink (fst (main_io S a))).
Proof.
  intros P S a HP H. unfold main_io, create_archive_io.
  pose proof (finalize_io_pres P S a HP H) as H1. destruct (finalize_io S a) as [a1 r]. cbn [fst] in H1.
  pose proof (ar_drop_pres P S a1 HP H1) as H2.
  destruct (stops (p_cli_finalize S) r); cbn [stops]; destruct (p_cli_create S); exact H2.
Qed.

Lemma cli_exit_code_proof : forall a, snd (finalize_io all_true a) = Err -> snd (main_io all_true a) = ExitNonZero.
Proof.
  intros a H. unfold main_io, create_archive_io. destruct (finalize_io all_true a) as [a1 r]. cbn [snd] in H.
  subst r. reflexivity.
Qed.

Lemma main_io_zero : forall a, snd (main_io all_true a) = ExitZero ->
  snd (finalize_io all_true a) = Ok tt /\ fst (main_io all_true a) = ar_drop all_true (fst (finalize_io all_true a)).
Proof.
  intros a H. unfold main_io, create_archive_io in *. destruct (finalize_io all_true a) as [a1 r].
  cbn [all_true p_cli_finalize p_cli_create] in *. destruct r as [[]| |]; cbn in H; try discriminate H.
  cbn. auto.
Qed.

(* ------------------------------------------------------------------ the limit policies *)
Definition sink_lim (p : bool) (limit : N) (s : sink) : Prop :=
  s_pol s = limit_policy p limit /\ s_len s <= limit /\ sink_ok s.

Lemma sink_lim_pres : forall p limit, sink_pres (sink_lim p limit).
Proof.
  intros p limit s bs (Hp & L & O). destruct (sink_write s bs) as [s' r] eqn:E. cbn [fst].
  pose proof (sink_write_keeps_ok _ _ _ _ O E) as O'.
  assert (X : s_pol s' = s_pol s /\ s_len s' <= limit).
  { unfold sink_write in E. cbv zeta in E. destruct (lenN bs =? 0) eqn:E0.
    - injection E as <- _. auto.
    - destruct (lenN bs <=? s_pol s (s_calls s) (s_len s) (lenN bs)) eqn:E1; injection E as <- _;
        cbn [s_pol s_len]; (split; [reflexivity|]); rewrite Hp in *; unfold limit_policy in *;
        destruct (s_len s + lenN bs <=? limit) eqn:E2; try lia; destruct p; lia. }
  destruct X as (X1 & X2). split; [congruence|]. split; assumption.
Qed.

Lemma sink_new_lim : forall p limit, sink_lim p limit (sink_new (limit_policy p limit)).
Proof. intros. unfold sink_lim, sink_new, sink_ok. cbn. repeat split; auto. lia. Qed.

(* ------------------------------------------------------------------ histories *)
Lemma wops_of_map : forall ops, wops_of (map AOp ops) = ops.
Proof. induction ops as [|o r IH]; cbn; [reflexivity | rewrite IH; reflexivity]. Qed.

Lemma ar_step_ok : forall a o a' x, ar_inv a -> ar_step all_true a o = (a', x) -> x <> WErr ->
  ar_inv a' /\ a_w a' = fst (wrun (a_w a) (wops_of [o])).
Proof.
  intros a o a' x I H NE. pose proof I as (Op & Ib & St). destruct o as [[name|sid d m|sid d m| |sid raw]|p n]; cbn [ar_step] in H.
  - cbn [wops_of wrun wstep]. destruct (register_stream (a_w a) name) as [w' id] eqn:E. injection H as <- <-.
    cbn [fst a_w ar_with_w]. split; [|reflexivity]. unfold ar_inv, ar_with_w. cbn [a_w a_bw a_open].
    split; [exact Op|]. split; [exact Ib|]. rewrite St. unfold register_stream in E.
    destruct (map_get name (w_map (a_w a))); injection E as <- _; reflexivity.
  - cbn [wops_of wrun wstep]. destruct (ar_add_part all_true a sid d m) as [a1 r] eqn:E. injection H as <- <-.
    destruct r as [[]| |]; cbn [wres_of] in NE; try congruence.
    destruct (ar_add_part_ok _ _ _ _ _ I E) as (I1 & P1). rewrite P1. cbn. auto.
  - cbn [wops_of wrun wstep]. injection H as <- <-. cbn [fst a_w ar_with_w]. split; [|reflexivity].
    unfold ar_inv, ar_with_w. cbn [a_w a_bw a_open]. split; [exact Op|]. split; [exact Ib|]. exact St.
  - cbn [wops_of wrun wstep]. destruct (ar_flush_buffers all_true a) as [a1 r] eqn:E. injection H as <- <-.
    destruct r as [[]| |]; cbn [wres_of] in NE; try congruence.
    destruct (ar_flush_buffers_ok _ _ I E) as (I1 & P1). rewrite P1. cbn. auto.
  - cbn [wops_of wrun wstep]. injection H as <- <-. cbn [fst a_w ar_with_w]. split; [|reflexivity].
    unfold ar_inv, ar_with_w. cbn [a_w a_bw a_open]. split; [exact Op|]. split; [exact Ib|]. rewrite St.
    unfold set_raw_size. destruct (sid <? lenN (w_streams (a_w a))); reflexivity.
  - injection H as <- <-. cbn [wops_of wrun fst a_w]. split; [|reflexivity].
    unfold ar_inv. cbn [a_w a_bw a_open]. split; [exact Op|]. split; [|exact St].
    destruct Ib as (L & C & O). unfold bw_inv. cbn [b_len b_cap b_sink]. repeat split; auto.
Qed.

Lemma wrun_cons_fst : forall w o r, fst (wrun w (o :: r)) = fst (wrun (fst (wstep w o)) r).
Proof.
  intros. cbn [wrun]. destruct (wstep w o) as [w1 x]. cbn [fst]. destruct (wrun w1 r) as [w2 xs]. reflexivity.
Qed.

Lemma ar_run_ok : forall ops a a' rs, ar_inv a -> ar_run all_true a ops = (a', rs) ->
  Forall (fun x => x <> WErr) rs ->
  ar_inv a' /\ a_w a' = fst (wrun (a_w a) (wops_of ops)).
Proof.
  induction ops as [|o r IH]; intros a a' rs I H F; cbn [ar_run] in H.
  - injection H as <- <-. cbn. auto.
  - destruct (ar_step all_true a o) as [a1 x] eqn:E1. destruct (ar_run all_true a1 r) as [a2 xs] eqn:E2.
    injection H as <- <-. inversion F as [|? ? NE F']. subst.
    destruct (ar_step_ok _ _ _ _ I E1 NE) as (I1 & W1).
    destruct (IH _ _ _ I1 E2 F') as (I2 & W2). split; [exact I2|]. rewrite W2, W1.
    destruct o as [wo|p n]; cbn [wops_of].
    + rewrite !wrun_cons_fst. cbn [wrun fst]. reflexivity.
    + reflexivity.
Qed.

(* the create pipeline before finalize: memory only, no call can fail *)
Lemma ar_step_buffered : forall S a o, buffered_only o ->
  a_bw (fst (ar_step S a (AOp o))) = a_bw a /\ snd (ar_step S a (AOp o)) <> WErr.
Proof.
  intros S a o B. destruct o as [name|sid d m|sid d m| |sid raw]; cbn [buffered_only] in B; try contradiction;
    cbn [ar_step].
  - destruct (register_stream (a_w a) name) as [w' id]. cbn. split; [reflexivity|discriminate].
  - cbn. split; [reflexivity|discriminate].
  - cbn. split; [reflexivity|discriminate].
Qed.

Lemma ar_run_buffered : forall S ops a, Forall buffered_only ops ->
  a_bw (fst (ar_run S a (map AOp ops))) = a_bw a /\ Forall (fun x => x <> WErr) (snd (ar_run S a (map AOp ops))).
Proof.
  intros S ops. induction ops as [|o r IH]; intros a F; cbn [map ar_run].
  - cbn. auto.
  - inversion F as [|? ? B F']. subst. destruct (ar_step_buffered S a o B) as (A1 & A2).
    destruct (ar_step S a (AOp o)) as [a1 x]. cbn [fst snd] in *. destruct (IH a1 F') as (B1 & B2).
    destruct (ar_run S a1 (map AOp r)) as [a2 xs]. cbn [fst snd] in *. split; [congruence|].
    constructor; assumption.
Qed.

Lemma pipeline_state_facts : forall pol cap ops, Forall buffered_only ops ->
  let a := fst (ar_run all_true (ar_open pol cap) (map AOp ops)) in
  ar_inv a /\ a_w a = fst (wrun w_init ops) /\ ar_sink a = sink_new pol.
Proof.
  intros pol cap ops F a. destruct (ar_run_buffered all_true ops (ar_open pol cap) F) as (B1 & B2).
  destruct (ar_run all_true (ar_open pol cap) (map AOp ops)) as [a' rs] eqn:E. cbn [fst snd] in *. subst a.
  destruct (ar_run_ok _ _ _ _ (ar_open_inv pol cap) E B2) as (I & W).
  split; [exact I|]. split.
  - rewrite W, wops_of_map. reflexivity.
  - unfold ar_sink. rewrite B1. reflexivity.
Qed.

(* ------------------------------------------------------------------ the pinned theorems (stated with all_true;
   props/C15.v states them with code_sites, which is convertible to all_true exactly as long as every `?` is
   there) *)
Theorem finalize_ok_all_written_proof : forall pol cap ops, Forall buffered_only ops ->
  let a := fst (ar_run all_true (ar_open pol cap) (map AOp ops)) in
  snd (finalize_io all_true a) = Ok tt ->
  ar_file (fst (finalize_io all_true a)) = complete_file ops.
Proof.
  intros pol cap ops F a H. destruct (pipeline_state_facts pol cap ops F) as (I & W & _). fold a in I, W.
  destruct (finalize_io all_true a) as [a' r] eqn:E. cbn [fst snd] in *. subst r.
  destruct (finalize_io_ok _ _ I E) as (Fl & _ & _). rewrite Fl, W. reflexivity.
Qed.

Theorem write_fault_reported_proof : forall partial limit cap ops, Forall buffered_only ops ->
  limit < lenN (complete_file ops) ->
  let a := fst (ar_run all_true (ar_open (limit_policy partial limit) cap) (map AOp ops)) in
  snd (finalize_io all_true a) = Err /\ snd (main_io all_true a) = ExitNonZero.
Proof.
  intros partial limit cap ops F Lt a.
  assert (X : snd (finalize_io all_true a) = Err).
  { destruct (finalize_io_res all_true a) as [H | H]; [|exact H]. exfalso.
    pose proof (finalize_ok_all_written_proof (limit_policy partial limit) cap ops F H) as Fl. fold a in Fl.
    destruct (pipeline_state_facts (limit_policy partial limit) cap ops F) as (_ & _ & Sk). fold a in Sk.
    assert (L0 : sink_lim partial limit (ar_sink a)) by (rewrite Sk; apply sink_new_lim).
    pose proof (finalize_io_pres _ all_true a (sink_lim_pres partial limit) L0) as (_ & L1 & O1).
    unfold ar_file in Fl. unfold ar_sink, sink_ok in *. rewrite Fl in O1. lia. }
  split; [exact X | apply cli_exit_code_proof; exact X].
Qed.

Theorem no_success_with_truncated_file_proof : forall pol cap ops, Forall buffered_only ops ->
  let a := fst (ar_run all_true (ar_open pol cap) (map AOp ops)) in
  snd (main_io all_true a) = ExitZero ->
  ar_file (fst (main_io all_true a)) = complete_file ops.
Proof.
  intros pol cap ops F a H. destruct (main_io_zero a H) as (Ok1 & Dr). rewrite Dr.
  pose proof (finalize_ok_all_written_proof pol cap ops F Ok1) as Fl. fold a in Fl.
  destruct (pipeline_state_facts pol cap ops F) as (I & _ & _). fold a in I.
  destruct (finalize_io all_true a) as [a' r] eqn:E. cbn [fst snd] in *. subst r.
  destruct (finalize_io_ok _ _ I E) as (_ & _ & Cl). rewrite ar_drop_closed by (assumption || reflexivity).
  exact Fl.
Qed.

(* library level: any history (immediate and buffered parts, flushes, the file system changing its mind in
   between); if no call reported an error and close returned Ok, the file is the complete archive *)
Theorem history_ok_all_written_proof : forall pol cap ops,
  let a := fst (ar_run all_true (ar_open pol cap) ops) in
  Forall (fun x => x <> WErr) (snd (ar_run all_true (ar_open pol cap) ops)) ->
  snd (ar_close all_true a) = Ok tt ->
  ar_file (ar_drop all_true (fst (ar_close all_true a))) = close (fst (wrun w_init (wops_of ops))).
Proof.
  intros pol cap ops a F H. destruct (ar_run all_true (ar_open pol cap) ops) as [a0 rs] eqn:E. cbn [fst snd] in *.
  subst a. destruct (ar_run_ok _ _ _ _ (ar_open_inv pol cap) E F) as (I & W).
  destruct (ar_close all_true a0) as [a1 r] eqn:E1. cbn [fst snd] in *. subst r.
  destruct (ar_close_ok _ _ I E1) as (Fl & Cl & _). rewrite ar_drop_closed by (assumption || reflexivity).
  rewrite Fl, W. reflexivity.
Qed.

(* under a limit the file left behind is never longer than the limit (so it is not the complete archive) *)
Theorem fault_file_within_limit_proof : forall partial limit cap ops, Forall buffered_only ops ->
  let a := fst (ar_run all_true (ar_open (limit_policy partial limit) cap) (map AOp ops)) in
  lenN (ar_file (fst (main_io all_true a))) <= limit.
Proof.
  intros partial limit cap ops F a.
  destruct (pipeline_state_facts (limit_policy partial limit) cap ops F) as (_ & _ & Sk). fold a in Sk.
  assert (L0 : sink_lim partial limit (ar_sink a)) by (rewrite Sk; apply sink_new_lim).
  pose proof (main_io_pres _ all_true a (sink_lim_pres partial limit) L0) as (_ & L1 & O1).
  unfold ar_file. unfold ar_sink, sink_ok in *. lia.
Qed.

(* ------------------------------------------------------------------ close's first `writer.flush()?` is redundant
   Switching that one site off (site 3) loses nothing: a failed flush_buf keeps the unwritten bytes in the
   BufWriter and serialize's final flush has to get them out, or fail.  Every other site is needed
   (props/C15.v: site_*_needed). *)
Definition S3 : sites := site_off 3 all_true.

Lemma S3_serialize : forall b w, ar_serialize S3 b w = ar_serialize all_true b w.
Proof. reflexivity. Qed.

Lemma S3_add_part : forall a sid d m, ar_add_part S3 a sid d m = ar_add_part all_true a sid d m.
Proof. reflexivity. Qed.

Lemma S3_flush_items : forall its a sid, ar_flush_items S3 a sid its = ar_flush_items all_true a sid its.
Proof.
  induction its as [|[d m] r IH]; intros; cbn [ar_flush_items]; [reflexivity|]. rewrite S3_add_part.
  destruct (ar_add_part all_true a sid d m) as [a' res]. change (p_fb_add S3) with (p_fb_add all_true).
  destruct (stops (p_fb_add all_true) res); [reflexivity|apply IH].
Qed.

Lemma S3_flush_groups : forall b a, ar_flush_groups S3 a b = ar_flush_groups all_true a b.
Proof.
  induction b as [|[sid its] r IH]; intros; cbn [ar_flush_groups]; [reflexivity|]. rewrite S3_flush_items.
  destruct (ar_flush_items all_true a sid its) as [a' res]. destruct res as [[]| |]; [apply IH|reflexivity|reflexivity].
Qed.

Lemma S3_flush_buffers : forall a, ar_flush_buffers S3 a = ar_flush_buffers all_true a.
Proof. intros. unfold ar_flush_buffers. apply S3_flush_groups. Qed.

Lemma stops_false : forall r, stops false r = false.
Proof. intros [[]| |]; reflexivity. Qed.

Lemma ar_close_ok3 : forall a a', ar_inv a -> ar_close S3 a = (a', Ok tt) ->
  ar_file a' = close (a_w a) /\ a_open a' = false /\ a_w a' = a_w a.
Proof.
  intros a a' (Op & I & St) H. unfold ar_close in H. rewrite Op in H.
  change (p_close_flush S3) with false in H. change (p_close_ser S3) with true in H.
  destruct (bw_flush (a_bw a)) as [b1 r1] eqn:E1. rewrite stops_false in H.
  unfold bw_flush in E1. destruct (bw_flush_buf_any _ _ _ I E1) as (I1 & St1 & _).
  rewrite S3_serialize in H.
  destruct (ar_serialize all_true b1 (a_w a)) as [b2 r2] eqn:E2.
  destruct (stops true r2) eqn:S2; [discriminate H|]. apply stops_true in S2. subst r2.
  destruct (ar_serialize_ok _ _ _ I1 E2) as (I2 & Em & St2).
  injection H as <-. unfold ar_file. cbn [a_bw a_open a_w].
  assert (Z : fst (bw_flush_buf b2) = b2).
  { unfold bw_flush_buf. destruct I2 as (L2 & _ & _). rewrite L2, Em. reflexivity. }
  rewrite Z. split; [|split; reflexivity].
  unfold bw_stream in St2. rewrite Em, app_nil_r in St2. rewrite St2.
  fold (bw_stream b1). rewrite St1, St. reflexivity.
Qed.

Theorem close_flush_redundant_proof : forall pol cap ops, Forall buffered_only ops ->
  let a := fst (ar_run all_true (ar_open pol cap) (map AOp ops)) in
  snd (main_io S3 a) = ExitZero ->
  ar_file (fst (main_io S3 a)) = complete_file ops.
Proof.
  intros pol cap ops F a H. destruct (pipeline_state_facts pol cap ops F) as (I & W & _). fold a in I, W.
  unfold main_io, create_archive_io, finalize_io in *. rewrite S3_flush_buffers in *.
  change (p_fin_flush S3) with true in *. change (p_fin_close S3) with true in *.
  change (p_cli_finalize S3) with true in *. change (p_cli_create S3) with true in *.
  destruct (ar_flush_buffers all_true a) as [a1 r1] eqn:E1.
  destruct (stops true r1) eqn:S1; [cbn in H; discriminate H|]. apply stops_true in S1. subst r1.
  destruct (ar_flush_buffers_ok _ _ I E1) as (I1 & P1).
  destruct (ar_close S3 a1) as [a2 r2] eqn:E2.
  destruct (stops true r2) eqn:S2; [cbn in H; discriminate H|]. apply stops_true in S2. subst r2.
  destruct (ar_close_ok3 _ _ I1 E2) as (Fl & Cl & _).
  cbn [stops fst snd]. rewrite ar_drop_closed by (assumption || reflexivity).
  rewrite Fl. unfold complete_file. rewrite <- W, P1. reflexivity.
Qed.

(* ------------------------------------------------------------------ what is left behind after a fault
   File system that stores the fitting part of a request (partial = true, the EFBIG/ENOSPC behaviour): once a
   call has failed the file is exactly `limit` bytes long and stays as it is, and those bytes are the first
   `limit` bytes of the complete archive. *)
Definition pre (x F : list N) : Prop := exists y, x ++ y = F.

Lemma pre_refl : forall x, pre x x.
Proof. intros. exists []. apply app_nil_r. Qed.
Lemma pre_trans : forall x y z, pre x y -> pre y z -> pre x z.
Proof. intros x y z (a & A) (b & B). exists (a ++ b). rewrite app_assoc, A. exact B. Qed.
Lemma pre_app : forall x y, pre x (x ++ y).
Proof. intros. exists y. reflexivity. Qed.
Lemma pre_ext : forall x F y, pre x F -> pre x (F ++ y).
Proof. intros x F y H. eapply pre_trans; [exact H | apply pre_app]. Qed.
Lemma pre_firstn : forall x F, pre x F -> x = firstnN (lenN x) F.
Proof.
  intros x F (y & <-). unfold firstnN, lenN. rewrite Nat2N.id. rewrite firstn_app, firstn_all, Nat.sub_diag.
  cbn [firstn]. symmetry. apply app_nil_r.
Qed.

Definition full_at (limit : N) (s : sink) : Prop := s_pol s = limit_policy true limit /\ s_len s = limit.

(* a full file does not change any more *)
Lemma frozen_pres : forall limit X, sink_pres (fun s => full_at limit s /\ sink_bytes s = X).
Proof.
  intros limit X s bs ((Hp & L) & B). unfold sink_write. cbv zeta. destruct (lenN bs =? 0) eqn:E0; cbn [fst].
  - repeat split; assumption.
  - rewrite Hp. unfold limit_policy. destruct (s_len s + lenN bs <=? limit) eqn:E1; [lia|].
    replace (limit - s_len s) with 0 by lia. destruct (lenN bs <=? 0) eqn:E2; [lia|]. cbn [fst].
    destruct s as [pl c l ch]. unfold full_at. rewrite sink_bytes_cons. cbn [s_pol s_len] in *.
    cbn [firstnS]. destruct bs; cbn [firstnS]; rewrite ?N.eqb_refl, app_nil_r; repeat split; auto; lia.
Qed.

Lemma sink_write_err_full : forall limit s bs s', sink_lim true limit s -> sink_write s bs = (s', Err) ->
  full_at limit s' /\ pre (sink_bytes s') (sink_bytes s ++ bs).
Proof.
  intros limit s bs s' (Hp & L & O) H. destruct (sink_write_appends _ _ _ _ H) as (x & A & B & C & _ & _ & X).
  split.
  - split; [congruence|]. unfold sink_write in H. cbv zeta in H. destruct (lenN bs =? 0); [discriminate H|].
    rewrite Hp in H. unfold limit_policy in H. destruct (s_len s + lenN bs <=? limit) eqn:E1.
    + rewrite N.leb_refl in H. discriminate H.
    + destruct (lenN bs <=? limit - s_len s) eqn:E2; [lia|]. injection H as <-. cbn [s_len]. lia.
  - rewrite A. exists (skipnN (lenN x) bs). rewrite <- app_assoc. f_equal. rewrite X at 1. apply firstnN_skipnN.
Qed.

Lemma bw_flush_buf_err_full : forall limit b b', bw_inv b -> sink_lim true limit (b_sink b) ->
  bw_flush_buf b = (b', Err) -> full_at limit (b_sink b') /\ pre (sink_bytes (b_sink b')) (bw_stream b).
Proof.
  intros limit b b' I Lm H. destruct (bw_flush_buf_any _ _ _ I H) as (_ & St & _).
  split; [|rewrite <- St; apply pre_app].
  unfold bw_flush_buf in H. destruct (b_len b =? 0); [discriminate H|].
  destruct (sink_write (b_sink b) (buf_bytes b)) as [s' r] eqn:E.
  destruct r as [[]| |]; try discriminate H. injection H as <-. cbn [b_sink].
  exact (proj1 (sink_write_err_full _ _ _ _ Lm E)).
Qed.

Lemma bw_write_all_err_full : forall limit b bs b', bw_inv b -> sink_lim true limit (b_sink b) ->
  bw_write_all b bs = (b', Err) -> full_at limit (b_sink b') /\ pre (sink_bytes (b_sink b')) (bw_stream b ++ bs).
Proof.
  intros limit b bs b' I Lm H. unfold bw_write_all in H. cbv zeta in H.
  destruct (lenN bs <? b_cap b - b_len b) eqn:E0; [discriminate H|].
  destruct (b_cap b - b_len b <? lenN bs) eqn:E2.
  - destruct (bw_flush_buf b) as [b1 r1] eqn:E1. destruct (bw_flush_buf_res _ _ _ E1) as [-> | ->].
    + destruct (bw_flush_buf_ok _ _ I E1) as (I1 & St1 & Em & _).
      pose proof (bw_flush_buf_pres _ b (sink_lim_pres true limit) Lm) as Lm1. rewrite E1 in Lm1. cbn [fst] in Lm1.
      destruct (b_cap b1 <=? lenN bs); [|discriminate H].
      destruct (sink_write (b_sink b1) bs) as [s' r] eqn:E. injection H as <- ->. cbn [b_sink].
      destruct (sink_write_err_full _ _ _ _ Lm1 E) as (F1 & P1). split; [exact F1|].
      rewrite <- St1. unfold bw_stream. rewrite Em, app_nil_r. exact P1.
    + injection H as <-. destruct (bw_flush_buf_err_full _ _ _ I Lm E1) as (F1 & P1).
      split; [exact F1 | apply pre_ext; exact P1].
  - assert (Z : b_cap b <=? lenN bs = true -> buf_bytes b = []).
    { intros Hc. destruct I as (L & Cp & _). apply lenN_0_nil. lia. }
    destruct (b_cap b <=? lenN bs) eqn:E3; [|discriminate H].
    destruct (sink_write (b_sink b) bs) as [s' r] eqn:E. injection H as <- ->. cbn [b_sink].
    destruct (sink_write_err_full _ _ _ _ Lm E) as (F1 & P1). split; [exact F1|].
    unfold bw_stream. rewrite (Z eq_refl), app_nil_r. exact P1.
Qed.

(* the Container-level functions only append to what was written *)
Lemma add_part_mono : forall w sid d m, pre (w_bytes w) (w_bytes (fst (add_part w sid d m))).
Proof.
  intros. unfold add_part. destruct (lenN (w_streams w) <=? sid); cbn [fst]; [apply pre_refl|].
  rewrite w_bytes_cons2. apply pre_app.
Qed.

Lemma flush_items_mono : forall its w sid, pre (w_bytes w) (w_bytes (fst (flush_items w sid its))).
Proof.
  induction its as [|[d m] r IH]; intros; cbn [flush_items]; [apply pre_refl|].
  pose proof (add_part_mono w sid d m) as M. destruct (add_part w sid d m) as [w' [[]| |]]; cbn [fst] in *; try exact M.
  eapply pre_trans; [exact M | apply IH].
Qed.

Lemma flush_groups_mono : forall b w, pre (w_bytes w) (w_bytes (fst (flush_groups w b))).
Proof.
  induction b as [|[sid its] r IH]; intros; cbn [flush_groups]; [apply pre_refl|].
  pose proof (flush_items_mono its w sid) as M. destruct (flush_items w sid its) as [w' [[]| |]]; cbn [fst] in *; try exact M.
  eapply pre_trans; [exact M | apply IH].
Qed.

Definition ar_lim (limit : N) (a : arch) : Prop := sink_lim true limit (ar_sink a).

Lemma ar_add_part_err_full : forall limit a sid d m a', ar_inv a -> ar_lim limit a ->
  lenN (w_streams (a_w a)) <=? sid = false ->
  ar_add_part all_true a sid d m = (a', Err) ->
  full_at limit (ar_sink a') /\ pre (ar_file a') (w_bytes (fst (add_part (a_w a) sid d m))).
Proof.
  intros limit a sid d m a' (Op & I & St) Lm V H. unfold ar_add_part in H. cbv zeta in H. rewrite V, Op in H.
  cbn [negb all_true p_add_meta p_add_data] in H. rewrite (add_part_valid _ _ _ _ V) in *. cbn [fst] in *.
  rewrite w_bytes_cons2. fold (w_bytes (a_w a)). rewrite <- St.
  destruct (bw_write_all (a_bw a) (write_varint m)) as [b1 r1] eqn:E1.
  destruct (bw_write_all_res _ _ _ _ E1) as [-> | ->]; cbn [stops] in H.
  - destruct (bw_write_all_ok _ _ _ I E1) as (I1 & St1 & _).
    pose proof (bw_write_all_pres _ (a_bw a) (write_varint m) (sink_lim_pres true limit) Lm) as Lm1.
    rewrite E1 in Lm1. cbn [fst] in Lm1.
    destruct (bw_write_all b1 d) as [b2 r2] eqn:E2.
    destruct (bw_write_all_res _ _ _ _ E2) as [-> | ->]; cbn [stops] in H; [discriminate H|].
    injection H as <-. unfold ar_sink, ar_file. cbn [a_bw].
    destruct (bw_write_all_err_full _ _ _ _ I1 Lm1 E2) as (F2 & P2). split; [exact F2|].
    rewrite St1, <- app_assoc in P2. exact P2.
  - injection H as <-. unfold ar_sink, ar_file. cbn [a_bw].
    destruct (bw_write_all_err_full _ _ _ _ I Lm E1) as (F1 & P1). split; [exact F1|].
    rewrite app_assoc. apply pre_ext. exact P1.
Qed.

Lemma ar_flush_items_err_full : forall limit its a sid a', ar_inv a -> ar_lim limit a ->
  snd (flush_items (a_w a) sid its) = Ok tt ->
  ar_flush_items all_true a sid its = (a', Err) ->
  full_at limit (ar_sink a') /\ pre (ar_file a') (w_bytes (fst (flush_items (a_w a) sid its))).
Proof.
  intros limit its. induction its as [|[d m] r IH]; intros a sid a' I Lm V H; cbn [ar_flush_items flush_items] in *;
    [discriminate H|].
  assert (Vs : lenN (w_streams (a_w a)) <=? sid = false).
  { unfold add_part in V. destruct (lenN (w_streams (a_w a)) <=? sid); [discriminate V | reflexivity]. }
  destruct (ar_add_part all_true a sid d m) as [a1 res] eqn:E. cbn [all_true p_fb_add] in H.
  pose proof (ar_add_part_res all_true a sid d m) as R. rewrite E in R. cbn [snd] in R.
  destruct R as [-> | ->]; cbn [stops] in H.
  - destruct (ar_add_part_ok _ _ _ _ _ I E) as (I1 & P1). rewrite P1 in *.
    pose proof (ar_add_part_pres _ all_true a sid d m (sink_lim_pres true limit) Lm) as Lm1.
    rewrite E in Lm1. cbn [fst] in Lm1. exact (IH _ _ _ I1 Lm1 V H).
  - injection H as <-. destruct (ar_add_part_err_full _ _ _ _ _ _ I Lm Vs E) as (F1 & P1). split; [exact F1|].
    rewrite (add_part_valid _ _ _ _ Vs) in *. cbn [fst] in *.
    eapply pre_trans; [exact P1 | apply flush_items_mono].
Qed.

Lemma ar_flush_groups_err_full : forall limit b a a', ar_inv a -> ar_lim limit a ->
  snd (flush_groups (a_w a) b) = Ok tt ->
  ar_flush_groups all_true a b = (a', Err) ->
  full_at limit (ar_sink a') /\ pre (ar_file a') (w_bytes (fst (flush_groups (a_w a) b))).
Proof.
  intros limit b. induction b as [|[sid its] r IH]; intros a a' I Lm V H; cbn [ar_flush_groups flush_groups] in *;
    [discriminate H|].
  destruct (flush_items (a_w a) sid its) as [w1 r1] eqn:EP.
  destruct r1 as [[]| |]; try (cbn [snd] in V; discriminate V).
  destruct (ar_flush_items all_true a sid its) as [a1 res] eqn:E.
  pose proof (ar_flush_items_res all_true its a sid) as R. rewrite E in R. cbn [snd] in R.
  destruct R as [-> | ->].
  - destruct (ar_flush_items_ok _ _ _ _ I E) as (I1 & P1). rewrite EP in P1. injection P1 as ->.
    pose proof (ar_flush_items_pres _ all_true its a sid (sink_lim_pres true limit) Lm) as Lm1.
    rewrite E in Lm1. cbn [fst] in Lm1. exact (IH _ _ I1 Lm1 V H).
  - injection H as <-.
    assert (V1 : snd (flush_items (a_w a) sid its) = Ok tt) by (rewrite EP; reflexivity).
    destruct (ar_flush_items_err_full _ _ _ _ _ I Lm V1 E) as (F1 & P1). split; [exact F1|].
    rewrite EP in P1. cbn [fst] in P1. eapply pre_trans; [exact P1 | apply flush_groups_mono].
Qed.

Lemma ar_serialize_err_full : forall limit b w b', bw_inv b -> sink_lim true limit (b_sink b) ->
  ar_serialize all_true b w = (b', Err) ->
  full_at limit (b_sink b') /\
  pre (sink_bytes (b_sink b')) (bw_stream b ++ footer_of w ++ write_fixed_u64 (lenN (footer_of w))).
Proof.
  intros limit b w b' I Lm H. unfold ar_serialize in H. cbv zeta in H. cbn [all_true p_ser_footer p_ser_len p_ser_flush] in H.
  destruct (bw_write_all b (footer_of w)) as [b1 r1] eqn:E1.
  destruct (bw_write_all_res _ _ _ _ E1) as [-> | ->]; cbn [stops] in H.
  2:{ injection H as <-. destruct (bw_write_all_err_full _ _ _ _ I Lm E1) as (F1 & P1). split; [exact F1|].
      rewrite app_assoc. apply pre_ext. exact P1. }
  destruct (bw_write_all_ok _ _ _ I E1) as (I1 & St1 & _).
  pose proof (bw_write_all_pres _ b (footer_of w) (sink_lim_pres true limit) Lm) as Lm1. rewrite E1 in Lm1. cbn [fst] in Lm1.
  destruct (bw_write_all b1 (write_fixed_u64 (lenN (footer_of w)))) as [b2 r2] eqn:E2.
  destruct (bw_write_all_res _ _ _ _ E2) as [-> | ->]; cbn [stops] in H.
  2:{ injection H as <-. destruct (bw_write_all_err_full _ _ _ _ I1 Lm1 E2) as (F2 & P2). split; [exact F2|].
      rewrite St1, <- app_assoc in P2. exact P2. }
  destruct (bw_write_all_ok _ _ _ I1 E2) as (I2 & St2 & _).
  pose proof (bw_write_all_pres _ b1 (write_fixed_u64 (lenN (footer_of w))) (sink_lim_pres true limit) Lm1) as Lm2.
  rewrite E2 in Lm2. cbn [fst] in Lm2.
  destruct (bw_flush b2) as [b3 r3] eqn:E3. unfold bw_flush in E3.
  destruct (bw_flush_buf_res _ _ _ E3) as [-> | ->]; cbn [stops] in H; [discriminate H|].
  injection H as <-. destruct (bw_flush_buf_err_full _ _ _ I2 Lm2 E3) as (F3 & P3). split; [exact F3|].
  rewrite St2, St1, <- app_assoc in P3. exact P3.
Qed.

Lemma ar_close_err_full : forall limit a a', ar_inv a -> ar_lim limit a ->
  ar_close all_true a = (a', Err) ->
  full_at limit (ar_sink a') /\ pre (ar_file a') (close (a_w a)).
Proof.
  intros limit a a' (Op & I & St) Lm H. unfold ar_close in H. rewrite Op in H.
  cbn [all_true p_close_flush p_close_ser] in H. unfold close. cbv zeta.
  destruct (bw_flush (a_bw a)) as [b1 r1] eqn:E1. unfold bw_flush in E1.
  destruct (bw_flush_buf_res _ _ _ E1) as [-> | ->]; cbn [stops] in H.
  2:{ injection H as <-. unfold ar_sink, ar_file. cbn [a_bw].
      destruct (bw_flush_buf_err_full _ _ _ I Lm E1) as (F1 & P1). split; [exact F1|].
      apply pre_ext. rewrite <- St. exact P1. }
  destruct (bw_flush_buf_ok _ _ I E1) as (I1 & St1 & _ & _).
  pose proof (bw_flush_buf_pres _ (a_bw a) (sink_lim_pres true limit) Lm) as Lm1. rewrite E1 in Lm1. cbn [fst] in Lm1.
  destruct (ar_serialize all_true b1 (a_w a)) as [b2 r2] eqn:E2.
  pose proof (ar_serialize_res all_true b1 (a_w a)) as R. rewrite E2 in R. cbn [snd] in R.
  destruct R as [-> | ->]; cbn [stops] in H; [discriminate H|].
  injection H as <-. unfold ar_sink, ar_file. cbn [a_bw].
  destruct (ar_serialize_err_full _ _ _ _ I1 Lm1 E2) as (F2 & P2). split; [exact F2|].
  rewrite St1, St in P2. exact P2.
Qed.

Lemma finalize_io_err_full : forall limit a a', ar_inv a -> ar_lim limit a ->
  snd (flush_buffers (a_w a)) = Ok tt ->
  finalize_io all_true a = (a', Err) ->
  full_at limit (ar_sink a') /\ pre (ar_file a') (close (fst (flush_buffers (a_w a)))).
Proof.
  intros limit a a' I Lm V H. unfold finalize_io in H. cbn [all_true p_fin_flush p_fin_close] in H.
  destruct (ar_flush_buffers all_true a) as [a1 r1] eqn:E1.
  pose proof (ar_flush_buffers_res all_true a) as R. rewrite E1 in R. cbn [snd] in R.
  destruct R as [-> | ->]; cbn [stops] in H.
  - destruct (ar_flush_buffers_ok _ _ I E1) as (I1 & P1). rewrite P1. cbn [fst].
    pose proof (ar_flush_buffers_pres _ all_true a (sink_lim_pres true limit) Lm) as Lm1. rewrite E1 in Lm1. cbn [fst] in Lm1.
    destruct (ar_close all_true a1) as [a2 r2] eqn:E2.
    pose proof (ar_close_res all_true a1) as R. rewrite E2 in R. cbn [snd] in R.
    destruct R as [-> | ->]; cbn [stops] in H; [discriminate H|]. injection H as <-.
    exact (ar_close_err_full _ _ _ I1 Lm1 E2).
  - injection H as <-. unfold ar_flush_buffers in E1. cbv zeta in E1. unfold flush_buffers in *.
    assert (I' : ar_inv (ar_with_w a (mkW (w_off (a_w a)) (w_streams (a_w a)) (w_map (a_w a)) [] (w_chunks (a_w a))))).
    { destruct I as (Op & Ib & St). unfold ar_inv, ar_with_w. cbn [a_w a_bw a_open].
      split; [exact Op|]. split; [exact Ib|]. exact St. }
    destruct (ar_flush_groups_err_full limit _ _ _ I' Lm V E1) as (F1 & P1). split; [exact F1|].
    unfold close. cbv zeta. apply pre_ext. exact P1.
Qed.

Theorem fault_leaves_prefix_proof : forall limit cap ops, Forall buffered_only ops ->
  snd (flush_buffers (fst (wrun w_init ops))) = Ok tt ->
  limit < lenN (complete_file ops) ->
  let a := fst (ar_run all_true (ar_open (limit_policy true limit) cap) (map AOp ops)) in
  ar_file (fst (main_io all_true a)) = firstnN limit (complete_file ops).
Proof.
  intros limit cap ops F V Lt a.
  destruct (write_fault_reported_proof true limit cap ops F Lt) as (X & _). fold a in X.
  destruct (pipeline_state_facts (limit_policy true limit) cap ops F) as (I & W & Sk). fold a in I, W, Sk.
  assert (Lm : ar_lim limit a) by (unfold ar_lim; rewrite Sk; apply sink_new_lim).
  rewrite <- W in V.
  unfold main_io, create_archive_io. destruct (finalize_io all_true a) as [a1 r] eqn:E. cbn [snd] in X. subst r.
  destruct (finalize_io_err_full _ _ _ I Lm V E) as ((Hp & Hl) & P).
  cbn [all_true p_cli_finalize p_cli_create stops fst].
  pose proof (ar_drop_pres _ all_true a1 (frozen_pres limit (ar_file a1)) (conj (conj Hp Hl) eq_refl)) as ((_ & L2) & B2).
  unfold ar_file in *. unfold ar_sink in *. rewrite B2.
  pose proof (finalize_io_pres _ all_true a (sink_lim_pres true limit) Lm) as (_ & _ & O1). rewrite E in O1. cbn [fst] in O1.
  unfold ar_sink, sink_ok in O1. rewrite (pre_firstn _ _ P). rewrite <- O1, Hl. unfold complete_file. rewrite W. reflexivity.
Qed.
