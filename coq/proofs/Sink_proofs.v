(* Sink_proofs.v - lemmas about model/Sink.v (the output path of create over a fallible sink) for C15 *)
From Ragc Require Import Mach Consts_archive Consts_sink Varint Container Sink Varint_proofs Container_proofs.
From Coq Require Import Lia ZifyBool ZifyN ZifyNat.
Arguments N.add : simpl never.
Arguments N.sub : simpl never.
Arguments N.mul : simpl never.
Arguments N.of_nat : simpl never.
Arguments N.to_nat : simpl never.
Arguments write_varint : simpl never.
Arguments write_fixed_u64 : simpl never.
Arguments footer_of : simpl never.

(* ------------------------------------------------------------------ the generated file *)
Lemma all_sites_propagate_proof : code_sites = all_true.
Proof. reflexivity. Qed.

Lemma pipeline_buffers_everything_proof : pipeline_buffers_everything = true.
Proof. reflexivity. Qed.

(* ------------------------------------------------------------------ small facts *)
Lemma io_cases : forall r : io, r = Ok tt \/ r = Err \/ r = Panic.
Proof. intros [[]| |]; auto. Qed.

Lemma stops_true : forall r, stops true r = false -> r = Ok tt.
Proof. intros [[]| |]; cbn; congruence. Qed.

Lemma stops_ok : forall f, stops f (Ok tt) = false.
Proof. reflexivity. Qed.

Lemma lenN_0_nil : forall {A} (l : list A), lenN l = 0 -> l = [].
Proof. intros A [|x r] H; [reflexivity|]. rewrite lenN_cons in H. lia. Qed.

Lemma firstnN_0 : forall {A} (l : list A), firstnN 0 l = [].
Proof. reflexivity. Qed.

Lemma firstnN_app_le : forall {A} n (a b : list A), n <= lenN a -> firstnN n (a ++ b) = firstnN n a.
Proof.
  intros. unfold firstnN, lenN in *. rewrite firstn_app.
  replace (N.to_nat n - length a)%nat with 0%nat by lia. cbn [firstn]. apply app_nil_r.
Qed.

Lemma firstnN_app_ge : forall {A} n (a b : list A), lenN a <= n -> firstnN n (a ++ b) = a ++ firstnN (n - lenN a) b.
Proof.
  intros. unfold firstnN, lenN in *. rewrite firstn_app. rewrite firstn_all2 by lia.
  f_equal. f_equal. lia.
Qed.

(* ------------------------------------------------------------------ sink *)
Definition sink_ok (s : sink) : Prop := s_len s = lenN (sink_bytes s).

Lemma sink_bytes_cons : forall p c l x ch, sink_bytes (mkSink p c l (x :: ch)) = sink_bytes (mkSink p c l ch) ++ x.
Proof. intros. unfold sink_bytes. cbn [s_chunks rev]. rewrite concat_app. cbn [concat]. rewrite app_nil_r. reflexivity. Qed.

(* every call appends what it accepted, nothing else *)
Lemma sink_write_appends : forall s bs s' r, sink_write s bs = (s', r) ->
  exists x, sink_bytes s' = sink_bytes s ++ x /\ s_len s' = s_len s + lenN x /\ s_pol s' = s_pol s /\
            (r = Ok tt -> x = bs) /\ (r = Ok tt \/ r = Err).
Proof.
  intros s bs s' r H. unfold sink_write in H. cbv zeta in H.
  destruct (lenN bs =? 0) eqn:E0.
  - injection H as <- <-. exists []. rewrite app_nil_r. repeat split; auto.
    + rewrite lenN_nil. lia.
    + intros _. symmetry. apply lenN_0_nil. lia.
  - destruct (lenN bs <=? s_pol s (s_calls s) (s_len s) (lenN bs)) eqn:E1; injection H as <- <-.
    + exists bs. destruct s as [p c l ch]. rewrite sink_bytes_cons. cbn [s_len s_pol]. repeat split; auto.
    + exists (firstnS (s_pol s (s_calls s) (s_len s) (lenN bs)) bs). destruct s as [p c l ch].
      rewrite sink_bytes_cons. cbn [s_len s_pol s_calls] in *. repeat split; auto.
      * rewrite firstnS_eq, lenN_firstnN by lia. reflexivity.
      * intros X. discriminate X.
Qed.

Lemma sink_write_ok : forall s bs s', sink_write s bs = (s', Ok tt) ->
  sink_bytes s' = sink_bytes s ++ bs /\ s_len s' = s_len s + lenN bs /\ s_pol s' = s_pol s.
Proof.
  intros s bs s' H. destruct (sink_write_appends _ _ _ _ H) as (x & A & B & C & D & _).
  rewrite (D eq_refl) in *. auto.
Qed.

Lemma sink_write_keeps_ok : forall s bs s' r, sink_ok s -> sink_write s bs = (s', r) -> sink_ok s'.
Proof.
  intros s bs s' r O H. destruct (sink_write_appends _ _ _ _ H) as (x & A & B & _).
  unfold sink_ok in *. rewrite A, B, O, lenN_app. reflexivity.
Qed.

(* a property of sinks that no write call can break is kept by everything built on top *)
Definition sink_pres (P : sink -> Prop) : Prop := forall s bs, P s -> P (fst (sink_write s bs)).

(* ------------------------------------------------------------------ BufWriter *)
Definition bw_inv (b : bufw) : Prop :=
  b_len b = lenN (buf_bytes b) /\ b_len b <= b_cap b /\ sink_ok (b_sink b).

(* everything handed to the BufWriter so far, in order *)
Definition bw_stream (b : bufw) : list N := sink_bytes (b_sink b) ++ buf_bytes b.

Lemma bw_new_inv : forall cap pol, bw_inv (bw_new cap (sink_new pol)) /\ bw_stream (bw_new cap (sink_new pol)) = [].
Proof. intros. unfold bw_inv, bw_stream, sink_ok. cbn. repeat split; try reflexivity. lia. Qed.

Lemma buf_bytes_push : forall b bs, buf_bytes (bw_push b bs) = buf_bytes b ++ bs.
Proof. intros. unfold buf_bytes, bw_push. cbn [b_buf rev]. rewrite concat_app. cbn [concat]. rewrite app_nil_r. reflexivity. Qed.

Lemma bw_flush_buf_pres : forall P b, sink_pres P -> P (b_sink b) -> P (b_sink (fst (bw_flush_buf b))).
Proof.
  intros P b HP H. unfold bw_flush_buf. destruct (b_len b =? 0); [exact H|].
  pose proof (HP (b_sink b) (buf_bytes b) H) as H1.
  destruct (sink_write (b_sink b) (buf_bytes b)) as [s' r]. cbn [fst] in H1.
  destruct r as [[]| |]; exact H1.
Qed.

Lemma bw_flush_buf_cap : forall b, b_cap (fst (bw_flush_buf b)) = b_cap b.
Proof.
  intros. unfold bw_flush_buf. destruct (b_len b =? 0); [reflexivity|].
  destruct (sink_write (b_sink b) (buf_bytes b)) as [s' r]. destruct r as [[]| |]; reflexivity.
Qed.

Lemma bw_flush_buf_res : forall b b' r, bw_flush_buf b = (b', r) -> r = Ok tt \/ r = Err.
Proof.
  intros b b' r H. unfold bw_flush_buf in H. destruct (b_len b =? 0); [injection H as <- <-; auto|].
  destruct (sink_write (b_sink b) (buf_bytes b)) as [s' r0] eqn:E.
  destruct (sink_write_appends _ _ _ _ E) as (_ & _ & _ & _ & _ & [-> | ->]); injection H as <- <-; auto.
Qed.

Lemma bw_flush_buf_ok : forall b b', bw_inv b -> bw_flush_buf b = (b', Ok tt) ->
  bw_inv b' /\ bw_stream b' = bw_stream b /\ buf_bytes b' = [] /\ b_cap b' = b_cap b.
Proof.
  intros b b' (L & C & O) H. unfold bw_flush_buf in H. destruct (b_len b =? 0) eqn:E0.
  - injection H as <-. repeat split; auto. apply lenN_0_nil. lia.
  - destruct (sink_write (b_sink b) (buf_bytes b)) as [s' r] eqn:E.
    destruct r as [[]| |]; try discriminate H. injection H as <-.
    destruct (sink_write_ok _ _ _ E) as (A & B & _).
    unfold bw_inv, bw_stream, buf_bytes. cbn [b_len b_cap b_buf b_sink rev concat]. repeat split; auto.
    + lia.
    + eapply sink_write_keeps_ok; eauto.
    + rewrite app_nil_r. exact A.
Qed.

(* a failed flush keeps the rest: nothing handed to the BufWriter so far is lost *)
Lemma bw_flush_buf_any : forall b b' r, bw_inv b -> bw_flush_buf b = (b', r) ->
  bw_inv b' /\ bw_stream b' = bw_stream b /\ b_cap b' = b_cap b.
Proof.
  intros b b' r I H. destruct (bw_flush_buf_res _ _ _ H) as [-> | ->].
  - destruct (bw_flush_buf_ok _ _ I H) as (A & B & _ & D). auto.
  - destruct I as (L & C & O). unfold bw_flush_buf in H. destruct (b_len b =? 0) eqn:E0; [discriminate H|].
    destruct (sink_write (b_sink b) (buf_bytes b)) as [s' r] eqn:E.
    destruct (sink_write_appends _ _ _ _ E) as (x & A & B & _ & _ & _).
    pose proof (sink_write_keeps_ok _ _ _ _ O E) as O'.
    assert (X : x = firstnN (lenN x) (buf_bytes b)).
    { unfold sink_write in E. cbv zeta in E. destruct (lenN (buf_bytes b) =? 0) eqn:E1.
      - injection E as <- _. apply app_inv_head with (l := sink_bytes (b_sink b)) in A.
        + rewrite <- A. reflexivity.
      - destruct (lenN (buf_bytes b) <=? s_pol (b_sink b) (s_calls (b_sink b)) (s_len (b_sink b)) (lenN (buf_bytes b))) eqn:E2;
          injection E as <- _; destruct (b_sink b) as [p c l ch]; rewrite sink_bytes_cons in A;
          apply app_inv_head in A; subst x.
        + unfold firstnN. rewrite Nat2N.id. symmetry. apply firstn_all.
        + cbn [s_pol s_calls s_len] in *. rewrite firstnS_eq. rewrite lenN_firstnN by lia. reflexivity. }
    assert (XL : lenN x <= lenN (buf_bytes b)).
    { rewrite X at 1. unfold lenN, firstnN. rewrite firstn_length. lia. }
    destruct r as [[]| |]; injection H as <-; try discriminate.
    + unfold bw_inv, bw_stream, buf_bytes. cbn [b_len b_cap b_buf b_sink rev concat app].
      rewrite app_nil_r. fold (buf_bytes b). replace (s_len s' - s_len (b_sink b)) with (lenN x) by lia.
      rewrite skipnS_eq, lenN_skipnN. repeat split; auto; try lia.
      rewrite A, <- app_assoc. f_equal. rewrite X at 1. apply firstnN_skipnN.
    + unfold bw_inv, bw_stream, buf_bytes. cbn [b_len b_cap b_buf b_sink rev concat app].
      rewrite app_nil_r. fold (buf_bytes b). replace (s_len s' - s_len (b_sink b)) with (lenN x) by lia.
      rewrite skipnS_eq, lenN_skipnN. repeat split; auto; try lia.
      rewrite A, <- app_assoc. f_equal. rewrite X at 1. apply firstnN_skipnN.
Qed.

Lemma bw_write_all_pres : forall P b bs, sink_pres P -> P (b_sink b) -> P (b_sink (fst (bw_write_all b bs))).
Proof.
  intros P b bs HP H. unfold bw_write_all. cbv zeta.
  destruct (lenN bs <? b_cap b - b_len b); [exact H|].
  assert (H1 : P (b_sink (fst (if b_cap b - b_len b <? lenN bs then bw_flush_buf b else (b, Ok tt))))).
  { destruct (b_cap b - b_len b <? lenN bs); [apply bw_flush_buf_pres; assumption | exact H]. }
  destruct (if b_cap b - b_len b <? lenN bs then bw_flush_buf b else (b, Ok tt)) as [b1 r1]. cbn [fst] in H1.
  destruct r1 as [[]| |]; try exact H1.
  destruct (b_cap b1 <=? lenN bs); [|exact H1].
  pose proof (HP (b_sink b1) bs H1) as H2. destruct (sink_write (b_sink b1) bs) as [s' r]. exact H2.
Qed.

Lemma bw_write_all_cap : forall b bs, b_cap (fst (bw_write_all b bs)) = b_cap b.
Proof.
  intros. unfold bw_write_all. cbv zeta. destruct (lenN bs <? b_cap b - b_len b); [reflexivity|].
  assert (H1 : b_cap (fst (if b_cap b - b_len b <? lenN bs then bw_flush_buf b else (b, Ok tt))) = b_cap b).
  { destruct (b_cap b - b_len b <? lenN bs); [apply bw_flush_buf_cap | reflexivity]. }
  destruct (if b_cap b - b_len b <? lenN bs then bw_flush_buf b else (b, Ok tt)) as [b1 r1]. cbn [fst] in H1.
  destruct r1 as [[]| |]; try exact H1.
  destruct (b_cap b1 <=? lenN bs); [|exact H1].
  destruct (sink_write (b_sink b1) bs) as [s' r]. exact H1.
Qed.

Lemma bw_write_all_res : forall b bs b' r, bw_write_all b bs = (b', r) -> r = Ok tt \/ r = Err.
Proof.
  intros b bs b' r H. unfold bw_write_all in H. cbv zeta in H.
  destruct (lenN bs <? b_cap b - b_len b); [injection H as <- <-; auto|].
  destruct (if b_cap b - b_len b <? lenN bs then bw_flush_buf b else (b, Ok tt)) as [b1 r1] eqn:E1.
  assert (R1 : r1 = Ok tt \/ r1 = Err).
  { destruct (b_cap b - b_len b <? lenN bs); [eapply bw_flush_buf_res; eauto | injection E1 as <- <-; auto]. }
  destruct R1 as [-> | ->]; [|injection H as <- <-; auto].
  destruct (b_cap b1 <=? lenN bs); [|injection H as <- <-; auto].
  destruct (sink_write (b_sink b1) bs) as [s' r0] eqn:E.
  destruct (sink_write_appends _ _ _ _ E) as (_ & _ & _ & _ & _ & [-> | ->]); injection H as <- <-; auto.
Qed.

(* a successful write_all hands the bytes on in order: the stream grows by exactly bs *)
Lemma bw_write_all_ok : forall b bs b', bw_inv b -> bw_write_all b bs = (b', Ok tt) ->
  bw_inv b' /\ bw_stream b' = bw_stream b ++ bs /\ b_cap b' = b_cap b.
Proof.
  intros b bs b' I H. pose proof I as (L & C & O). unfold bw_write_all in H. cbv zeta in H.
  destruct (lenN bs <? b_cap b - b_len b) eqn:E0.
  - injection H as <-. unfold bw_inv, bw_stream. rewrite buf_bytes_push. cbn [bw_push b_len b_cap b_sink].
    rewrite lenN_app, app_assoc. repeat split; auto; lia.
  - destruct (if b_cap b - b_len b <? lenN bs then bw_flush_buf b else (b, Ok tt)) as [b1 r1] eqn:E1.
    assert (X : r1 = Ok tt -> bw_inv b1 /\ bw_stream b1 = bw_stream b /\ b_cap b1 = b_cap b /\
                (b_cap b - b_len b <? lenN bs = true -> b_len b1 = 0 /\ buf_bytes b1 = []) /\
                (b_cap b - b_len b <? lenN bs = false -> b1 = b)).
    { intros ->. destruct (b_cap b - b_len b <? lenN bs) eqn:E2.
      - destruct (bw_flush_buf_ok _ _ I E1) as (A & B & D & F). repeat split; auto; try discriminate.
        destruct A as (A1 & _). rewrite A1, D. reflexivity.
      - injection E1 as <-. repeat split; auto; discriminate. }
    destruct r1 as [[]| |]; try discriminate H.
    destruct (X eq_refl) as (I1 & S1 & C1 & F1 & F2). clear X.
    destruct (b_cap b1 <=? lenN bs) eqn:E3.
    + destruct (sink_write (b_sink b1) bs) as [s' r] eqn:E. injection H as <- ->.
      destruct (sink_write_ok _ _ _ E) as (A & B & _).
      assert (Z : b_len b1 = 0 /\ buf_bytes b1 = []).
      { destruct (b_cap b - b_len b <? lenN bs) eqn:E2; [apply F1; reflexivity|].
        rewrite (F2 eq_refl) in *. assert (b_len b = 0) by lia. split; [assumption|]. apply lenN_0_nil. lia. }
      destruct Z as (Z1 & Z2). destruct I1 as (L1 & C1' & O1).
      unfold bw_inv, bw_stream in *. unfold buf_bytes in *. cbn [b_len b_cap b_buf b_sink].
      rewrite Z2 in *. rewrite app_nil_r in *. repeat split; auto.
      * eapply sink_write_keeps_ok; eauto.
      * rewrite A, S1. reflexivity.
    + injection H as <-. destruct I1 as (L1 & C1' & O1).
      unfold bw_inv, bw_stream. rewrite buf_bytes_push. cbn [bw_push b_len b_cap b_sink].
      rewrite lenN_app, app_assoc. unfold bw_stream in S1. rewrite S1. repeat split; auto; try lia.
      destruct (b_cap b - b_len b <? lenN bs) eqn:E2.
      * destruct (F1 eq_refl) as (Z1 & _). lia.
      * rewrite (F2 eq_refl) in *. lia.
Qed.
