(* Compose_codecs.v - C01 composition, step 1: the abstract codecs of GroupStore.v / SegReader.v instantiated
   with the real models
     lz_enc / lz_dec                      := LZ.encode / LZ.decode_full at a fixed min_match_len          (C09)
     compress_ref / compress_pack / dwm   := SegCompress.compress_reference_segment /
                                             compress_segment_configured / decompress_segment_with_marker  (C12)
   and [codecs_ok] proved for them.  zstd stays the pair (zc, zd) with the two hypotheses of C12 ([zstd_ok]).
   Everything the later composition files state their theorems with is defined here. *)
From Coq Require Import Lia ZifyBool ZifyN ZifyNat.
From Ragc Require Import Mach Consts_groupstore Consts_tuple SegReader GroupStore.
From Ragc Require Import Tuple SegCompress Tuple_proofs SegCompress_proofs.
From Ragc Require LZ LZ_main.
From Ragc Require Import GroupStore_proofs.
From Ragc Require GroupStore_rules.
Open Scope N_scope.

(* ---- the only trusted component: zstd, with C12's two hypotheses *)
Definition zstd_ok (zc : N -> list N -> list N) (zd : list N -> option (list N)) : Prop :=
  (forall level x, zd (zc level x) = Some x) /\ (forall level x, x <> [] -> zc level x <> []).

(* ---- the concrete codecs.  GroupStore's codec arguments are total functions (its header says: compression
   errors are not modelled); the real models are outcome-valued (Panic = a dev-profile trap).  Outside the
   domains below the instance returns a dummy value; inside them the real function returns Ok (proved in
   [c_lz_enc_ok] / [c_compress_ref_ok]), so on the domain the instance IS the real function. *)
Definition c_lz_enc (mml : N) (reference target : list N) : list N :=
  match LZ.encode mml reference target with Ok e => e | _ => [] end.
(* the decompressor's wrapper new; prepare; (empty => reference) decode.  SegReader.get_segment calls it only
   on a non-empty delta, where decode_full = new; prepare; decode *)
Definition c_lz_dec (mml : N) (reference enc : list N) : outcome (list N) := LZ.decode_full mml reference enc.
Definition c_compress_ref (zc : N -> list N -> list N) (x : list N) : list N * N :=
  match compress_reference_segment zc x with Ok cm => cm | _ => ([], 0) end.
Definition c_compress_pack (zc : N -> list N -> list N) (level : N) (x : list N) : list N :=
  compress_segment_configured zc x level.
Definition c_dwm (zd : list N -> option (list N)) (c : list N) (marker : N) : outcome (list N) :=
  decompress_segment_with_marker zd c marker.

(* ---- the domains (C12: i32 counters of check_repetitiveness; C09: mml >= 4, non-empty target over the
   codes 0..30, i32 / u32 position arithmetic) *)
Definition c_ref_dom (x : list N) : Prop := lenN x < 2147483648.
Definition c_lz_dom (mml : N) (reference target : list N) : Prop :=
  4 <= mml /\ target <> [] /\ Forall (fun c => c <= 30) target /\
  lenN reference + lenN target + mml < 2147483648.

Lemma sym_ok_of_le30 : forall t, Forall (fun c => c <= 30) t -> Forall LZ.sym_ok t.
Proof. intros t H. eapply Forall_impl; [|exact H]. intros c Hc. apply LZ_main.sym_ok_range_proof. exact Hc. Qed.

(* on the domain the instance is the real encoder *)
Lemma c_lz_enc_ok : forall mml r t, c_lz_dom mml r t -> LZ.encode mml r t = Ok (c_lz_enc mml r t).
Proof.
  intros mml r t (Hm & Hne & Hs & Hl).
  destruct (LZ_main.lz_roundtrip_proof mml r t Hm Hne (sym_ok_of_le30 t Hs) Hl) as (enc & He & _).
  unfold c_lz_enc. rewrite He. reflexivity.
Qed.

Lemma c_compress_ref_ok : forall zc x, c_ref_dom x ->
  compress_reference_segment zc x = Ok (c_compress_ref zc x).
Proof.
  intros zc x Hx. destruct (ref_part_total_proof zc x Hx) as (c & m & E & _).
  unfold c_compress_ref. rewrite E. reflexivity.
Qed.

Lemma check_rep_nil_tuples : forall rep, check_repetitiveness [] = Some rep -> frac_lt_thr rep = true.
Proof. intros rep H. vm_compute in H. injection H as <-. vm_compute. reflexivity. Qed.

Lemma c_compress_ref_nonempty : forall zc zd x, zstd_ok zc zd -> c_ref_dom x -> fst (c_compress_ref zc x) <> [].
Proof.
  intros zc zd x [_ Hne] Hx. unfold c_compress_ref, compress_reference_segment.
  destruct (rep_total_proof x Hx) as (rep & Hrep). rewrite Hrep.
  destruct (frac_lt_thr rep) eqn:Ef; cbn [fst].
  - apply Hne. apply bytes_to_tuples_nonempty.
  - apply Hne. intros ->. rewrite (check_rep_nil_tuples rep Hrep) in Ef. discriminate.
Qed.

Lemma pack_markers_agree : W_PACK_MARKER_STEP = w_pack_marker /\ W_PACK_MARKER_FINALIZE = w_pack_marker.
Proof. split; reflexivity. Qed.

(* ---- codecs_instance: GroupStore's codec hypotheses hold for the real models, given only zstd_ok *)
Theorem codecs_instance_proof : forall zc zd mml level, zstd_ok zc zd ->
  codecs_ok (c_lz_enc mml) (c_lz_dec mml) (c_compress_ref zc) (c_compress_pack zc level) (c_dwm zd)
            c_ref_dom (c_lz_dom mml).
Proof.
  intros zc zd mml level Hz. pose proof Hz as [Hrt Hne]. split; [|split].
  - intros x Hx. split; [|exact (c_compress_ref_nonempty zc zd x Hz Hx)].
    pose proof (c_compress_ref_ok zc x Hx) as E. destruct (c_compress_ref zc x) as [c m]. cbn [fst snd].
    unfold c_dwm. exact (ref_segment_roundtrip_proof zc zd Hrt Hne x c m E).
  - intros x _. unfold c_dwm, c_compress_pack. destruct pack_markers_agree as [-> _].
    exact (proj1 (delta_segment_roundtrip_proof zc zd Hrt Hne level x)).
  - intros r t Hd. pose proof (c_lz_enc_ok mml r t Hd) as E. destruct Hd as (Hm & Hnt & Hs & Hl).
    pose proof (sym_ok_of_le30 t Hs) as Hs'.
    split; [|split].
    + intro H0. exact (proj1 (LZ_main.lz_empty_iff_proof mml r t _ Hm Hnt Hs' Hl E) H0).
    + intros _. destruct (LZ_main.lz_roundtrip_proof mml r t Hm Hnt Hs' Hl) as (enc & He & Hdec).
      rewrite E in He. injection He as <-. exact Hdec.
    + change CONTIG_SEPARATOR with 255. exact (LZ_main.lz_no_separator_proof mml r t _ Hm Hnt Hs' Hl E).
Qed.

(* ---- the group store with the concrete codecs *)
Definition c_run (zc : N -> list N -> list N) (mml level : N) (ops : list op) : outcome store :=
  run (c_lz_enc mml) (c_compress_ref zc) (c_compress_pack zc level) ops.
Definition c_view (zc : N -> list N -> list N) (level : N) (st : store) : archive_view :=
  view_of (finalize (c_compress_pack zc level) st).
Definition c_get_segment (zd : list N -> option (list N)) (mml : N) (ar : archive_view) (d : SegReader.seg_desc)
  : outcome (list N) := get_segment (c_dwm zd) (c_lz_dec mml) ar d.

(* side conditions on what is pushed to the store, with the concrete domains spelled out:
   every segment shorter than 2^32; raw groups (< 16): symbol codes 0..30; LZ groups (>= 16): min_match_len >= 4,
   non-empty, symbol codes 0..30, and |s| + |s'| + mml < 2^31 for any two segments of the same group *)
Definition c_ops_ok (mml : N) (ops : list op) : Prop :=
  forall g s, In s (segs_of ops g) ->
    Forall (fun b => b <= 30) (s_data s) /\
    (g < 16 -> lenN (s_data s) < two32) /\
    (16 <= g -> 4 <= mml /\ s_data s <> [] /\
                forall s', In s' (segs_of ops g) -> lenN (s_data s') + lenN (s_data s) + mml < 2147483648).

Lemma c_ops_ok_alpha : forall mml ops, c_ops_ok mml ops -> GroupStore_rules.ops_alpha c_ref_dom (c_lz_dom mml) ops.
Proof.
  intros mml ops H g s Hin. destruct (H g s Hin) as (Ha & Hraw & Hlz).
  assert (Hlen : lenN (s_data s) < two32).
  { destruct (N.ltb_spec g 16) as [Hg|Hg]; [exact (Hraw Hg)|].
    destruct (Hlz Hg) as (_ & _ & Hs). specialize (Hs s Hin). unfold two32. lia. }
  split; [exact Hlen|]. split; [intros _; exact Ha|].
  intro Hg. destruct (Hlz Hg) as (Hm & Hne & Hs). split.
  - unfold c_ref_dom. specialize (Hs s Hin). lia.
  - intros s' Hin'. unfold c_lz_dom. repeat split; auto.
Qed.

Lemma c_ops_ok_ops_ok : forall mml ops, c_ops_ok mml ops -> ops_ok c_ref_dom (c_lz_dom mml) ops.
Proof. intros mml ops H. apply GroupStore_rules.ops_alpha_ok. apply c_ops_ok_alpha. exact H. Qed.

Theorem store_then_get_concrete_proof :
  forall zc zd mml level, zstd_ok zc zd ->
  forall ops st g s id,
  c_ops_ok mml ops ->
  c_run zc mml level ops = Ok st ->
  In (s, id) (regs_of st g) ->
  c_get_segment zd mml (c_view zc level st) (desc_of g s id) = Ok (s_data s) /\
  SegReader.d_len (desc_of g s id) = lenN (s_data s).
Proof.
  intros zc zd mml level Hz ops st g s id Hops Hrun Hin.
  exact (store_then_get_proof _ _ _ _ _ _ _ (codecs_instance_proof zc zd mml level Hz)
           ops st g s id (c_ops_ok_ops_ok mml ops Hops) Hrun Hin).
Qed.

(* ---- a toy zstd (C12's) and a tiny store for the non-vacuity examples *)
Definition toy_seg (sample part : N) (data : list N) (rc : bool) : seg_in :=
  {| s_sample := [83; sample]; s_contig := [99]; s_part := part; s_data := data; s_rc := rc |}.
Definition toy_ref : list N := [0;1;2;3;0;1;2;3;3;2;1;0;0;0;1;1;2;2;3;3].
Definition toy_tgt : list N := [4;4;4;4;4;3;30;0;1;2;3;0;1;2;3;3;2;1;0;0;0;1;1;2;2;3;15;0;1;2;3;3].
Definition toy_ops : list op :=
  [ (16, [toy_seg 1 0 toy_ref false; toy_seg 2 0 toy_tgt true]);
    (3,  [toy_seg 1 1 [0;1;30;2] false; toy_seg 2 1 [] false]);
    (16, [toy_seg 3 0 toy_ref true; toy_seg 3 1 (toy_ref ++ [30]) false]) ].

Definition c_seg_okb (mml : N) (ops : list op) (g : N) (s : seg_in) : bool :=
  forallb (fun b => b <=? 30) (s_data s) &&
  (if g <? 16 then lenN (s_data s) <? two32
   else (4 <=? mml) && negb (is_nil (s_data s)) &&
        forallb (fun s' => lenN (s_data s') + lenN (s_data s) + mml <? 2147483648) (segs_of ops g)).

Lemma c_ops_okb_ok : forall mml ops,
  forallb (fun o : op => forallb (c_seg_okb mml ops (fst o)) (snd o)) ops = true -> c_ops_ok mml ops.
Proof.
  intros mml ops H g s Hin. rewrite forallb_forall in H.
  unfold segs_of in Hin. apply in_flat_map in Hin. destruct Hin as (o & Ho & Hs).
  destruct (N.eqb_spec (fst o) g) as [Eg|]; [|contradiction]. subst g.
  specialize (H o Ho). rewrite forallb_forall in H. specialize (H s Hs). unfold c_seg_okb in H.
  apply andb_true_iff in H. destruct H as [Ha Hb]. rewrite forallb_forall in Ha. split.
  - apply Forall_forall. intros b Hb'. apply N.leb_le. apply Ha. exact Hb'.
  - destruct (N.ltb_spec (fst o) 16) as [Hg|Hg].
    + split; [intros _; apply N.ltb_lt; exact Hb|intro; lia].
    + split; [intro; lia|]. intros _. apply andb_true_iff in Hb. destruct Hb as [Hb Hc].
      apply andb_true_iff in Hb. destruct Hb as [Hm Hn]. split; [apply N.leb_le; exact Hm|]. split.
      * destruct (s_data s); [discriminate|discriminate].
      * intros s' Hs'. rewrite forallb_forall in Hc. apply N.ltb_lt. apply Hc. exact Hs'.
Qed.
