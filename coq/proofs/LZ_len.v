(* LZ_len.v - a linear SIZE bound on the output of the LZ-diff encoder (extension of C09, pinned in props/C09L.v).

   The bound is a plain counting argument on the encoder loop of model/LZ.v and needs NO hypothesis on the state,
   the hash function, the reference or the target symbols: every iteration of enc_loop burns one unit of fuel and
   - a literal pushes 1 byte and consumes 1 symbol of the carried suffix,
   - an N-run token pushes starter + decimal (u32, non-negative: <= 10 digits) + terminator <= 12 bytes,
   - a match pops len_bck bytes (only shrinks), rewrites bytes in place (bang_scan keeps the length) and pushes a
     signed decimal i32 (<= 11 bytes) + ',' + decimal u32 (<= 10) + '.' <= 23 bytes,
   and the final literal run pushes one byte per remaining symbol.  Hence
     |result| <= |renc| + 23 * fuel + |suf|,
   and with the initial fuel S (length tgt):   |enc| <= 24 * |tgt| + 23.  *)
From Coq Require Import Lia ZifyBool ZifyN ZifyNat.
From Ragc Require Import LZ_base LZ_int LZ_main.

(* ---------------------------------------------------------------- decimal lengths *)
Lemma digits_go_len f : forall x k acc, x < 10 ^ k -> lenN (digits_go f x acc) <= k + lenN acc.
Proof.
  induction f; intros x k acc Hx; cbn [digits_go]; [lia|].
  destruct (x =? 0) eqn:E; [lia|].
  destruct (N.eq_dec k 0) as [->|Hk]. { rewrite N.pow_0_r in Hx. lia. }
  replace k with (N.succ (k - 1)) in Hx by lia. rewrite N.pow_succ_r' in Hx.
  assert (Hd : x / radix < 10 ^ (k - 1)). { consts. apply N.div_lt_upper_bound; [lia|exact Hx]. }
  specialize (IHf (x / radix) (k - 1) ((digit0 + x mod radix) :: acc) Hd).
  rewrite lenN_cons in IHf. lia.
Qed.

(* |z| < 10^k, k >= 1: at most k digits and a sign *)
Lemma append_int_len z k : 1 <= k -> Z.abs_N z < 10 ^ k -> lenN (append_int z) <= k + 1.
Proof.
  intros Hk Hz. unfold append_int. destruct (z =? 0)%Z. { unfold lenN; cbn [length]; lia. }
  rewrite lenN_app. assert (D := digits_go_len 20 (Z.abs_N z) k [] Hz). rewrite lenN_nil in D.
  destruct (z <? 0)%Z; (unfold lenN in *; cbn [length] in *); lia.
Qed.
Lemma append_int_len_nonneg z k : 1 <= k -> (0 <= z)%Z -> Z.abs_N z < 10 ^ k -> lenN (append_int z) <= k.
Proof.
  intros Hk H0 Hz. unfold append_int. destruct (z =? 0)%Z. { unfold lenN; cbn [length]; lia. }
  rewrite lenN_app. assert (D := digits_go_len 20 (Z.abs_N z) k [] Hz). rewrite lenN_nil in D.
  destruct (z <? 0)%Z eqn:E; [lia|]. (unfold lenN in *; cbn [length] in *). lia.
Qed.

Lemma pow10_10 : 10 ^ 10 = 10000000000.
Proof. reflexivity. Qed.

(* ---------------------------------------------------------------- tokens *)
Lemma ser_literal_len c b : ser_literal c = Ok b -> lenN b = 1.
Proof. unfold ser_literal. destruct (_ <? _); [|discriminate]. intros H; inversion H. reflexivity. Qed.

Lemma emit_literal_len c renc r : emit_literal c renc = Ok r -> lenN r = lenN renc + 1.
Proof.
  unfold emit_literal. destruct (ser_literal c) eqn:E; cbn [obnd]; try discriminate.
  intros H; inversion H; subst. apply ser_literal_len in E.
  rewrite rev_append_rev, lenN_app, lenN_rev. lia.
Qed.

Lemma enc_tail_len suf : forall renc r, enc_tail suf renc = Ok r -> lenN r = lenN renc + lenN suf.
Proof.
  induction suf as [|c s IH]; intros renc r; cbn [enc_tail].
  - intros H; inversion H; subst. rewrite lenN_nil. lia.
  - destruct (emit_literal c renc) eqn:E; cbn [obnd]; try discriminate.
    intros H. apply IH in H. apply emit_literal_len in E. rewrite lenN_cons. lia.
Qed.

(* an N-run token: the length is a wrapped u32 *)
Lemma ser_nrun_len len b : len < 4294967296 -> ser_nrun len = Ok b -> lenN b <= 12.
Proof.
  intros Hl. unfold ser_nrun, sub_u32. destruct (_ <=? _) eqn:E; [|discriminate].
  intros H; inversion H; subst. rewrite lenN_cons, lenN_app.
  assert (A := append_int_len_nonneg (Z.of_N (len - min_nrun_len)) 10 ltac:(lia) ltac:(lia)).
  rewrite pow10_10 in A. specialize (A ltac:(lia)). (unfold lenN in *; cbn [length] in *). lia.
Qed.

Lemma wrap_i32_range x : (-2147483648 <= wrap_i32 x <= 2147483647)%Z.
Proof.
  unfold wrap_i32. assert (H := Z.mod_pos_bound (x + 2147483648) 4294967296 ltac:(lia)). lia.
Qed.

(* a match token: i32 delta, optional u32 length *)
Lemma ser_match_len st amp len pp b :
  match len with Some l => l < 4294967296 | None => True end ->
  ser_match st amp len pp = Ok b -> lenN b <= 23.
Proof.
  intros Hl. unfold ser_match, sub_i32.
  destruct (in_i32 _) eqn:Ei; [|discriminate].
  set (dif := (as_i32 amp - as_i32 pp)%Z) in *.
  assert (Hd : (-2147483648 <= dif <= 2147483647)%Z).
  { unfold in_i32, i32_min, i32_max in Ei. lia. }
  assert (A := append_int_len dif 10 ltac:(lia)). rewrite pow10_10 in A. specialize (A ltac:(lia)).
  destruct len as [l|].
  - unfold sub_u32. destruct (_ <=? _) eqn:E; [|discriminate]. intros H; inversion H; subst.
    assert (B := append_int_len_nonneg (Z.of_N (l - mml st)) 10 ltac:(lia) ltac:(lia)).
    rewrite pow10_10 in B. specialize (B ltac:(lia)).
    rewrite lenN_app, lenN_cons, lenN_app. unfold lenN in *; cbn [length] in *. lia.
  - intros H; inversion H; subst. rewrite lenN_app. unfold lenN in *; cbn [length] in *. lia.
Qed.

Lemma bang_scan_len rp n : forall s amp renc r, bang_scan rp n s amp renc = Ok r -> lenN r = lenN renc.
Proof.
  induction n; intros s amp renc r; cbn [bang_scan].
  - intros H; inversion H; auto.
  - destruct renc as [|c t]. { intros H; inversion H; auto. }
    destruct (_ || _). { intros H; inversion H; auto. }
    destruct (nthN _ _); [|discriminate].
    destruct (bang_scan rp n (s + 1) amp t) eqn:E; try discriminate.
    intros H; inversion H; subst. apply IHn in E. rewrite !lenN_cons. lia.
Qed.

Lemma lenN_skipnN_le {A} n (l : list A) : lenN (skipnN n l) <= lenN l.
Proof. rewrite lenN_skipnN. lia. Qed.

Lemma get_nrun_len_u32 seq m : get_nrun_len seq m < 4294967296.
Proof.
  unfold get_nrun_len. destruct seq as [|a [|b [|c r]]]; try lia.
  destruct (_ && _); [|lia]. unfold wrap32, two32. apply N.mod_lt. lia.
Qed.

Lemma add_u32_some_lt a b t : add_u32 a b = Some t -> t < 4294967296.
Proof.
  unfold add_u32, two32. destruct (a + b <? 4294967296) eqn:E; [|discriminate]. intros H. injection H as <-. lia.
Qed.

(* ---------------------------------------------------------------- the loop *)
Section Loop.
  Variable hash : N -> N.
  Variable st : lzst.
  Variable tgt : list N.
  Variable tlen : N.

  Definition step_max : N := 23.

  Definition bnd (f : nat) : Prop := forall i suf pp npl xprev renc r,
    enc_loop hash st tgt tlen f i suf pp npl xprev renc = Ok r ->
    lenN r <= lenN renc + step_max * N.of_nat f + lenN suf.

  (* the literal continuation *)
  Definition lit_c (f : nat) (i : N) (suf : list N) (pp npl : N) (x : option N) (renc : list N) : outcome (list N) :=
    match suf with
    | [] => Panic
    | c :: suf' =>
      match add_u32 pp 1 with
      | None => Panic
      | Some pp' => obnd (emit_literal c renc)
                         (fun r => enc_loop hash st tgt tlen f (i + 1) suf' pp' (npl + 1) x r)
      end
    end.

  (* the match continuation *)
  Definition match_c (f : nat) (i : N) (suf : list N) (pp code : N) (renc : list N) (mp lb lf : N)
    : outcome (list N) :=
    let renc1 := skipnN lb renc in
    match sub_u64 i lb, sub_u32 pp lb, add_u32 lb lf, sub_u32 mp lb with
    | Some i1, Some pp1, Some total, Some amp =>
      let len_to_encode :=
        if (i1 + total =? tlen) && (mp + lf =? ref_len st) then None else Some total in
      let scanned :=
        if amp =? pp1
        then bang_scan (refp st) (N.to_nat (N.min (lenN renc1) amp) - 1) 1 amp renc1
        else Ok renc1 in
      match scanned with
      | Panic => Panic
      | Err => Err
      | Ok renc2 =>
        match ser_match st amp len_to_encode pp1, add_u32 amp total with
        | Ok b, Some pp2 => enc_loop hash st tgt tlen f (i1 + total) (skipnN lf suf) pp2 0 (Some code)
                                     (rev_append b renc2)
        | Err, _ => Err
        | _, _ => Panic
        end
      end
    | _, _, _, _ => Panic
    end.

  Lemma enc_loop_eq f i suf pp npl xprev renc :
    enc_loop hash st tgt tlen (S f) i suf pp npl xprev renc =
    if i + key_len st <? tlen then
      match (match xprev with
             | Some prev => if 0 <? npl then get_code_skip1 st prev suf else get_code st suf
             | None => get_code st suf
             end) with
      | Panic => Panic
      | Err => Err
      | Ok None =>
        if min_nrun_len <=? get_nrun_len suf (tlen - i) then
          obnd (ser_nrun (get_nrun_len suf (tlen - i)))
               (fun b => enc_loop hash st tgt tlen f (i + get_nrun_len suf (tlen - i))
                                  (skipnN (get_nrun_len suf (tlen - i)) suf) pp 0 None (rev_append b renc))
        else lit_c f i suf pp npl None renc
      | Ok (Some code) =>
        match find_best_match_lp st code (hash code) tgt suf i (tlen - i) npl with
        | Panic => Panic
        | Err => Err
        | Ok None => lit_c f i suf pp npl (Some code) renc
        | Ok (Some (mp, lb, lf)) => match_c f i suf pp code renc mp lb lf
        end
      end
    else enc_tail suf renc.
  Proof. reflexivity. Qed.

  Lemma lit_c_len f i suf pp npl x renc r : bnd f ->
    lit_c f i suf pp npl x renc = Ok r -> lenN r <= lenN renc + step_max * N.of_nat (S f) + lenN suf.
  Proof.
    intros IH. unfold lit_c. destruct suf as [|c suf']; [discriminate|].
    destruct (add_u32 pp 1); [|discriminate].
    destruct (emit_literal c renc) as [r0| |] eqn:E; cbn [obnd]; try discriminate.
    intros H. apply IH in H. apply emit_literal_len in E. rewrite lenN_cons. unfold step_max in *. lia.
  Qed.

  Lemma match_c_len f i suf pp code renc mp lb lf r : bnd f ->
    match_c f i suf pp code renc mp lb lf = Ok r -> lenN r <= lenN renc + step_max * N.of_nat (S f) + lenN suf.
  Proof.
    intros IH. unfold match_c.
    destruct (sub_u64 i lb) as [i1|]; [|discriminate].
    destruct (sub_u32 pp lb) as [pp1|]; [|discriminate].
    destruct (add_u32 lb lf) as [total|] eqn:Et; [|discriminate].
    destruct (sub_u32 mp lb) as [amp|]; [|discriminate].
    cbv zeta.
    assert (Ht : total < 4294967296) by (eapply add_u32_some_lt; eauto).
    set (lte := if (i1 + total =? tlen) && (mp + lf =? ref_len st) then None else Some total).
    assert (Hlte : match lte with Some l => l < 4294967296 | None => True end).
    { unfold lte. destruct (_ && _); auto. }
    destruct (if amp =? pp1
              then bang_scan (refp st) (N.to_nat (N.min (lenN (skipnN lb renc)) amp) - 1) 1 amp (skipnN lb renc)
              else Ok (skipnN lb renc)) as [renc2| |] eqn:Es; try discriminate.
    assert (L2 : lenN renc2 <= lenN renc).
    { destruct (amp =? pp1).
      - apply bang_scan_len in Es. rewrite Es. apply lenN_skipnN_le.
      - inversion Es; subst. apply lenN_skipnN_le. }
    destruct (ser_match st amp lte pp1) as [b| |] eqn:Eb; try discriminate.
    destruct (add_u32 amp total) as [pp2|]; [|discriminate].
    intros H. apply IH in H. apply (ser_match_len _ _ _ _ _ Hlte) in Eb.
    rewrite rev_append_rev, lenN_app, lenN_rev in H.
    assert (lenN (skipnN lf suf) <= lenN suf) by apply lenN_skipnN_le. unfold step_max in *. lia.
  Qed.

  Lemma enc_loop_len f : bnd f.
  Proof.
    induction f as [|f IH]; intros i suf pp npl xprev renc r; [discriminate|].
    rewrite enc_loop_eq. destruct (i + key_len st <? tlen).
    2:{ intros H. apply enc_tail_len in H. lia. }
    destruct (match xprev with
              | Some prev => if 0 <? npl then get_code_skip1 st prev suf else get_code st suf
              | None => get_code st suf
              end) as [[code|]| |]; try discriminate.
    - destruct (find_best_match_lp st code (hash code) tgt suf i (tlen - i) npl) as [[[[mp lb] lf]|]| |];
        try discriminate.
      + apply match_c_len, IH.
      + apply lit_c_len, IH.
    - set (nr := get_nrun_len suf (tlen - i)). destruct (min_nrun_len <=? nr); [|apply lit_c_len, IH].
      destruct (ser_nrun nr) as [b| |] eqn:Eb; cbn [obnd]; try discriminate.
      intros H. apply IH in H. apply ser_nrun_len in Eb; [|apply get_nrun_len_u32].
      rewrite rev_append_rev, lenN_app, lenN_rev in H.
      assert (lenN (skipnN nr suf) <= lenN suf) by apply lenN_skipnN_le. unfold step_max in *. lia.
  Qed.
End Loop.

(* lz_encode on ANY state and hash *)
Theorem lz_encode_len hash st tgt enc : lz_encode hash st tgt = Ok enc -> lenN enc <= 24 * lenN tgt + 23.
Proof.
  unfold lz_encode. destruct (_ && _). { intros H; inversion H. rewrite lenN_nil. lia. }
  destruct (enc_loop _ _ _ _ _ _ _ _ _ _ _) as [renc| |] eqn:E; cbn [obnd]; try discriminate.
  intros H; inversion H; subst. apply enc_loop_len in E. unfold step_max in E.
  rewrite lenN_rev. rewrite lenN_nil in E. unfold lenN in *. lia.
Qed.

Theorem encode_with_len_proof : forall hash mml rf tgt enc,
  encode_with hash mml rf tgt = Ok enc -> lenN enc <= 24 * lenN tgt + 23.
Proof.
  intros hash m rf tgt enc. unfold encode_with.
  destruct (lz_new m) as [st0| |]; cbn [obnd]; try discriminate.
  destruct (lz_prepare hash st0 rf) as [st| |]; cbn [obnd]; try discriminate.
  apply lz_encode_len.
Qed.

Theorem encode_len_proof : forall mml rf tgt enc,
  encode mml rf tgt = Ok enc -> lenN enc <= 24 * lenN tgt + 23.
Proof. intros mml rf tgt enc. apply encode_with_len_proof. Qed.

(* under lz_roundtrip's size hypothesis *)
Theorem encode_len_u32_proof : forall mml rf tgt enc,
  lenN rf + lenN tgt + mml < 2147483648 -> encode mml rf tgt = Ok enc -> lenN enc < 68719476736.
Proof. intros mml rf tgt enc Hs He. apply encode_len_proof in He. lia. Qed.

(* in the domain of lz_roundtrip: the encoder returns, its output decodes to the target and obeys the bound *)
Theorem encode_len_in_domain_proof : forall mml rf tgt,
  4 <= mml -> tgt <> [] -> Forall sym_ok tgt -> lenN rf + lenN tgt + mml < 2147483648 ->
  exists enc, encode mml rf tgt = Ok enc /\ decode_full mml rf enc = Ok tgt /\
              lenN enc <= 24 * lenN tgt + 23 /\ lenN enc < 68719476736.
Proof.
  intros mml rf tgt H1 H2 H3 H4. destruct (lz_roundtrip_proof mml rf tgt H1 H2 H3 H4) as (enc & He & Hd).
  exists enc. split; [exact He|]. split; [exact Hd|]. split.
  - exact (encode_len_proof _ _ _ _ He).
  - exact (encode_len_u32_proof _ _ _ _ H4 He).
Qed.
