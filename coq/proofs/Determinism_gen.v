(* Determinism_gen.v — C04: the scripts the producer really runs are well formed ([wf_script]):
   - single-file mode with the current pack-boundary rule (tokens carry the sample's priority before the
     decrement, next_priority is lowered below the decremented priority), samples contiguous in the input;
   - multi-file mode (drain, sync_and_flush with its wait, finalize). *)
From Coq Require Import List Permutation Sorted Lia Bool Arith NArith ZArith.
From Ragc Require Import Determinism Determinism_base Determinism_proto.
Import ListNotations.

(* ------------------------------------------------------------------ arithmetic and order helpers *)
Lemma wrap_i32_id : forall x, (i32_min <= x <= i32_max)%Z -> wrap_i32 x = x.
Proof.
  intros x H. unfold wrap_i32, i32_min, i32_max in *. rewrite Z.mod_small by lia. lia.
Qed.

Lemma prio_start_val : det_prio_start = 2147483647%Z. Proof. reflexivity. Qed.
Lemma flush_prio_val : det_flush_prio = 1000000%Z. Proof. reflexivity. Qed.
Lemma final_prio_val : det_final_prio = 1000000%Z. Proof. reflexivity. Qed.

Lemma task_cmp_lt_prio : forall x y, (t_prio y < t_prio x)%Z -> task_cmp y x = Lt.
Proof.
  intros x y H. unfold task_cmp, cmp_then. destruct (Z.compare_spec (t_prio y) (t_prio x)); try lia. reflexivity.
Qed.
Lemma task_cmp_lt_tok : forall x y, (t_prio y <= t_prio x)%Z -> t_cost y = 0%N -> (t_seq x < t_seq y)%N ->
  task_cmp y x = Lt.
Proof.
  intros x y H Hc Hs. unfold task_cmp, cmp_then. destruct (Z.compare_spec (t_prio y) (t_prio x)); try lia; [|reflexivity].
  rewrite Hc. destruct (N.compare_spec 0 (t_cost x)); try lia; [|reflexivity].
  destruct (N.compare_spec (t_seq x) (t_seq y)); try lia. reflexivity.
Qed.

Lemma prio_get_set_same : forall s p m, prio_get s (prio_set s p m) = Some p.
Proof.
  intros s p m. induction m as [|[k v] m IH]; cbn [prio_set prio_get].
  - rewrite N.eqb_refl. reflexivity.
  - destruct (N.eqb_spec k s); cbn [prio_get].
    + subst. rewrite N.eqb_refl. reflexivity.
    + destruct (N.eqb_spec k s); [contradiction|]. exact IH.
Qed.
Lemma prio_get_set_other : forall s s' p m, s' <> s -> prio_get s' (prio_set s p m) = prio_get s' m.
Proof.
  intros s s' p m Hne. induction m as [|[k v] m IH]; cbn [prio_set prio_get].
  - destruct (N.eqb_spec s s'); [subst; contradiction|]. reflexivity.
  - destruct (N.eqb_spec k s); cbn [prio_get].
    + subst. destruct (N.eqb_spec s s'); [subst; contradiction|]. reflexivity.
    + destruct (N.eqb_spec k s'); [reflexivity|]. exact IH.
Qed.

Lemma ssorted_app_intro : forall (A : Type) (R : A -> A -> Prop) l1 l2,
  StronglySorted R l1 -> StronglySorted R l2 -> (forall x y, In x l1 -> In y l2 -> R x y) ->
  StronglySorted R (l1 ++ l2).
Proof.
  intros A R l1. induction l1 as [|a l1 IH]; intros l2 H1 H2 H; [exact H2|].
  apply StronglySorted_inv in H1. destruct H1 as [H1 Hf]. cbn [app]. constructor.
  - apply IH; try assumption. intros x y Hx Hy. apply H; [right; exact Hx|exact Hy].
  - apply Forall_app. split; [exact Hf|]. apply Forall_forall. intros y Hy. apply H; [left; reflexivity|exact Hy].
Qed.
Lemma ssorted_repeat : forall (A : Type) (R : A -> A -> Prop) x m, R x x -> StronglySorted R (repeat x m).
Proof.
  intros A R x m H. induction m; cbn [repeat]; constructor; [assumption|].
  apply Forall_forall. intros y Hy. apply repeat_spec in Hy. subst. exact H.
Qed.

Lemma tasks_of_repeat_push : forall t m, tasks_of (repeat (PPush t) m) = repeat t m.
Proof. intros t m. induction m; [reflexivity|]. cbn [repeat tasks_of]. f_equal. exact IHm. Qed.
Lemma cnt_repeat : forall p t m, cnt p (repeat t m) = if p t then m else 0%nat.
Proof.
  intros p t m. induction m; cbn [repeat]; [destruct (p t); reflexivity|].
  rewrite cnt_cons, IHm. destruct (p t); reflexivity.
Qed.

(* later pushes of a later round are below: for ALL earlier tasks (no wait needed) *)
Definition sepR (x y : task) : Prop := (t_round x < t_round y)%nat -> task_cmp y x = Lt.

(* ------------------------------------------------------------------ the generator invariant (current rule) *)
Definition sample_of (inp : input) : N := fst (fst (fst inp)).
Definition seen_after (seen : list N) (s : N) : list N :=
  match seen with
  | s0 :: _ => if N.eqb s0 s then seen else s :: seen
  | [] => [s]
  end.
(* samples are contiguous in the input: a sample never comes back (ragc-cli checks this and fails otherwise) *)
Fixpoint contiguous (seen : list N) (l : list input) : Prop :=
  match l with
  | [] => True
  | inp :: l' => (match seen with s0 :: _ => sample_of inp = s0 \/ ~ In (sample_of inp) seen | [] => True end)
                 /\ contiguous (seen_after seen (sample_of inp)) l'
  end.

Section Gen.
  Variables (n : nat) (single : bool) (pack : N).
  Variable R : prule.
  Hypothesis R_tok : pr_tok_rule R = 0%N.
  Hypothesis R_low : pr_lower_next R = true.

  Record GInv (r0 : nat) (seen : list N) (st : pstate) (T : list task) : Prop := {
    g_dom : forall s, prio_get s (ps_prios st) = None <-> ~ In s seen;
    g_next_lo : (det_prio_start - 2 * Z.of_N (ps_count st) <= ps_next st)%Z;
    g_next_hi : (ps_next st <= det_prio_start)%Z;
    g_prios : forall s p, prio_get s (ps_prios st) = Some p -> (ps_next st < p <= det_prio_start)%Z;
    g_last : forall s0 rest, seen = s0 :: rest -> exists plast, prio_get s0 (ps_prios st) = Some plast /\
               (forall x, In x T -> (plast <= t_prio x)%Z) /\
               (forall x, In x T -> (t_round x < ps_rnd st)%nat -> (plast < t_prio x)%Z);
    g_nil : seen = [] -> T = [];
    g_sorted : StronglySorted rk_le T;
    g_top : forall x, In x T -> (r0 <= t_round x)%nat /\
               ((t_round x < ps_rnd st)%nat \/ (t_round x = ps_rnd st /\ t_tok x = false));
    g_tokens : forall k, cnt (is_tokk k) T = if Nat.leb r0 k && Nat.ltb k (ps_rnd st) then n else 0%nat;
    g_seq : forall x, In x T -> (t_seq x < ps_seq st)%N;
    g_sep : StronglySorted sepR T;
    g_before : forall x y, In x T -> In y T -> t_round x = t_round y -> t_tok x = false -> t_tok y = true ->
               task_cmp y x = Lt;
    g_rnd : (r0 <= ps_rnd st)%nat
  }.

  Lemma in_repeat_eq : forall (A : Type) (x y : A) m, In y (repeat x m) -> y = x.
  Proof. intros A x y m H. apply repeat_spec in H. exact H. Qed.

  (* one push keeps the invariant *)
  Lemma ginv_push_one : forall r0 seen st T inp,
    GInv r0 seen st T ->
    (match seen with s0 :: _ => sample_of inp = s0 \/ ~ In (sample_of inp) seen | [] => True end) ->
    (2 * Z.of_N (ps_count st) + 4 < det_prio_start - i32_min)%Z ->
    GInv r0 (seen_after seen (sample_of inp)) (fst (push_one R single pack n st inp))
         (T ++ tasks_of (snd (push_one R single pack n st inp))).
  Proof.
    intros r0 seen st T [[key data] len] I Hc Hb.
    pose proof prio_start_val as PV. unfold i32_min in Hb.
    destruct I as [Gdom Glo Ghi Gpr Glast Gnil Gsort Gtop Gtok Gseq Gsep Gbef Grnd].
    set (s := fst key). unfold sample_of in *. cbn [fst] in Hc |- *. fold s in Hc |- *.
    (* the lookup: cur, and the facts that hold for it *)
    assert (LK : exists cur prios1 next1,
        (match prio_get s (ps_prios st) with
         | Some p => (p, ps_prios st, ps_next st)
         | None => (ps_next st, prio_set s (ps_next st) (ps_prios st), wrap_i32 (ps_next st - 1))
         end) = (cur, prios1, next1) /\
        prio_get s prios1 = Some cur /\ (next1 < cur <= det_prio_start)%Z /\
        (ps_next st - 1 <= next1 <= ps_next st)%Z /\
        (forall s' p, s' <> s -> prio_get s' prios1 = Some p -> (next1 < p <= det_prio_start)%Z) /\
        (forall s', prio_get s' prios1 = None <-> ~ In s' (seen_after seen s)) /\
        (forall x, In x T -> (cur <= t_prio x)%Z) /\
        (forall x, In x T -> (t_round x < ps_rnd st)%nat -> (cur < t_prio x)%Z)).
    { destruct (prio_get s (ps_prios st)) as [p|] eqn:EG.
      - exists p, (ps_prios st), (ps_next st). split; [reflexivity|].
        assert (Hin : In s seen).
        { destruct (in_dec N.eq_dec s seen) as [i|ni]; [exact i|]. apply Gdom in ni. congruence. }
        destruct seen as [|s0 rest]; [contradiction|].
        assert (s = s0) as -> by (destruct Hc as [e|ne]; [exact e|contradiction]).
        destruct (Glast s0 rest eq_refl) as [plast [E1 [E2 E3]]]. rewrite EG in E1. inversion E1; subst plast.
        split; [exact EG|]. split; [apply (Gpr _ _ EG)|]. split; [lia|]. split; [intros s' p' _ H; apply (Gpr _ _ H)|].
        split; [|split; assumption].
        intros s'. unfold seen_after. rewrite N.eqb_refl. apply Gdom.
      - exists (ps_next st), (prio_set s (ps_next st) (ps_prios st)), (wrap_i32 (ps_next st - 1)).
        split; [reflexivity|].
        rewrite wrap_i32_id by (unfold i32_min, i32_max; lia).
        assert (Hnin : ~ In s seen) by (apply Gdom; exact EG).
        split; [apply prio_get_set_same|]. split; [lia|]. split; [lia|].
        split; [intros s' p' Hne H; rewrite prio_get_set_other in H by exact Hne; pose proof (Gpr _ _ H); lia|].
        assert (SA : seen_after seen s = s :: seen).
        { unfold seen_after. destruct seen as [|s0 rest]; [reflexivity|].
          destruct (N.eqb_spec s0 s); [|reflexivity]. subst. exfalso. apply Hnin. left. reflexivity. }
        split.
        { intros s'. rewrite SA. destruct (N.eq_dec s' s) as [->|ne].
          - rewrite prio_get_set_same. split; [discriminate|]. intros H. exfalso. apply H. left. reflexivity.
          - rewrite prio_get_set_other by exact ne. rewrite Gdom. cbn [In]. split.
            + intros H [e|i]; [apply ne; symmetry; exact e|contradiction].
            + intros H i. apply H. right. exact i. }
        destruct seen as [|s0 rest].
        + rewrite (Gnil eq_refl). split; intros x [].
        + destruct (Glast s0 rest eq_refl) as [plast [E1 [E2 E3]]]. pose proof (Gpr _ _ E1).
          split; intros x Hx; [specialize (E2 x Hx)|intros _; specialize (E2 x Hx)]; lia. }
    destruct LK as [cur [prios1 [next1 [ELK [Hget [Hcur [Hn1 [Hoth [Hdom [Hle Hlt]]]]]]]]]].
    assert (HSA : exists rest', seen_after seen s = s :: rest').
    { unfold seen_after. destruct seen as [|s0 rest]; [exists []; reflexivity|].
      destruct (N.eqb_spec s0 s); [subst; exists rest; reflexivity|exists (s0 :: rest); reflexivity]. }
    destruct HSA as [rest' HSA].
    unfold push_one. cbn [fst snd]. fold s. rewrite ELK. cbn [fst snd]. rewrite R_tok, R_low. cbn [N.eqb andb].
    destruct (single && ((ps_count st + 1) mod pack =? 0)%N) eqn:ESync; cbn [fst snd].
    - (* pack boundary: n tokens with the old priority, then the contig with the decremented one *)
      rewrite (wrap_i32_id (cur - 1)) by (unfold i32_min, i32_max; lia).
      set (newp := (cur - 1)%Z).
      set (next2 := if (newp <=? next1)%Z then wrap_i32 (newp - 1) else next1).
      assert (Hn2 : (next1 - 1 <= next2 <= next1)%Z /\ (next2 < newp)%Z).
      { unfold next2. destruct (Z.leb_spec newp next1).
        - rewrite wrap_i32_id by (unfold i32_min, i32_max, newp; lia). unfold newp in *. lia.
        - lia. }
      set (tk := mk_task true key 0 cur 0 (ps_seq st) (ps_rnd st)).
      set (c := mk_task false key data newp len (ps_seq st) (S (ps_rnd st))).
      rewrite tasks_of_app, tasks_of_repeat_push. cbn [tasks_of].
      constructor; cbn [ps_prios ps_next ps_count ps_seq ps_rnd].
      + intros s'. rewrite <- Hdom. destruct (N.eq_dec s' s) as [->|ne].
        * rewrite prio_get_set_same, Hget. split; discriminate.
        * rewrite prio_get_set_other by exact ne. reflexivity.
      + rewrite N2Z.inj_add. lia.
      + lia.
      + intros s' p H. destruct (N.eq_dec s' s) as [->|ne].
        * rewrite prio_get_set_same in H. inversion H; subst p. unfold newp in *. lia.
        * rewrite prio_get_set_other in H by exact ne. pose proof (Hoth _ _ ne H). lia.
      + intros s0 rest E. rewrite HSA in E. inversion E; subst s0 rest. exists newp.
        split; [apply prio_get_set_same|]. split.
        * intros x Hx. apply in_app_or in Hx. destruct Hx as [Hx|Hx]; [specialize (Hle x Hx); unfold newp; lia|].
          apply in_app_or in Hx. destruct Hx as [Hx|[<-|[]]]; [apply in_repeat_eq in Hx; subst x; cbn; unfold newp; lia|cbn; lia].
        * intros x Hx Hr. apply in_app_or in Hx. destruct Hx as [Hx|Hx]; [specialize (Hle x Hx); unfold newp; lia|].
          apply in_app_or in Hx. destruct Hx as [Hx|[<-|[]]]; [apply in_repeat_eq in Hx; subst x; cbn; unfold newp; lia|cbn in Hr; lia].
      + rewrite HSA. discriminate.
      + apply ssorted_app_intro; [exact Gsort| |].
        * apply ssorted_app_intro.
          -- apply ssorted_repeat. right. split; [reflexivity|right; reflexivity].
          -- repeat constructor.
          -- intros x y Hx [<-|[]]. apply in_repeat_eq in Hx. subst x. left. cbn. lia.
        * intros x y Hx Hy. destruct (Gtop x Hx) as [_ Hxr].
          apply in_app_or in Hy. destruct Hy as [Hy|[<-|[]]].
          -- apply in_repeat_eq in Hy. subst y. unfold rk_le. cbn [t_round t_tok tk].
             destruct Hxr as [L|[L1 L2]]; [left; exact L|right; split; [exact L1|left; exact L2]].
          -- unfold rk_le. cbn [t_round t_tok c]. left. destruct Hxr as [L|[L1 L2]]; lia.
      + intros x Hx. apply in_app_or in Hx. destruct Hx as [Hx|Hx].
        * destruct (Gtop x Hx) as [H1 H2]. split; [exact H1|]. left. destruct H2 as [L|[L1 L2]]; lia.
        * apply in_app_or in Hx. destruct Hx as [Hx|[<-|[]]].
          -- apply in_repeat_eq in Hx. subst x. cbn. split; [exact Grnd|left; lia].
          -- cbn. split; [lia|right; split; reflexivity].
      + intros k. rewrite !cnt_app, cnt_repeat, Gtok. unfold cnt at 1. cbn [filter c is_tokk t_tok andb length].
        unfold is_tokk at 1. cbn [tk t_tok t_round andb].
        destruct (Nat.eqb (ps_rnd st) k) eqn:EK.
        * apply Nat.eqb_eq in EK. subst k.
          assert (Nat.leb r0 (ps_rnd st) = true) as -> by (apply Nat.leb_le; exact Grnd).
          rewrite Nat.ltb_irrefl. assert (Nat.ltb (ps_rnd st) (S (ps_rnd st)) = true) as -> by (apply Nat.ltb_lt; lia).
          cbn [andb]. lia.
        * apply Nat.eqb_neq in EK. destruct (Nat.leb r0 k); cbn [andb]; [|lia].
          destruct (Nat.ltb_spec k (ps_rnd st)); destruct (Nat.ltb_spec k (S (ps_rnd st))); lia.
      + intros x Hx. apply in_app_or in Hx. destruct Hx as [Hx|Hx]; [specialize (Gseq x Hx); lia|].
        apply in_app_or in Hx. destruct Hx as [Hx|[<-|[]]]; [apply in_repeat_eq in Hx; subst x|]; cbn; lia.
      + apply ssorted_app_intro; [exact Gsep| |].
        * apply ssorted_app_intro.
          -- apply ssorted_repeat. intros H. lia.
          -- repeat constructor.
          -- intros x y Hx [<-|[]]. apply in_repeat_eq in Hx. subst x. intros _. apply task_cmp_lt_prio. cbn. unfold newp. lia.
        * intros x y Hx Hy Hr. apply in_app_or in Hy. destruct Hy as [Hy|[<-|[]]].
          -- apply in_repeat_eq in Hy. subst y. cbn [t_round tk] in Hr. apply task_cmp_lt_prio. cbn [t_prio tk].
             apply Hlt; assumption.
          -- apply task_cmp_lt_prio. cbn [t_prio c]. specialize (Hle x Hx). unfold newp. lia.
      + intros x y Hx Hy Hr Hxc Hyt.
        apply in_app_or in Hx. apply in_app_or in Hy.
        destruct Hy as [Hy|Hy].
        * destruct Hx as [Hx|Hx]; [apply Gbef; assumption|exfalso].
          destruct (Gtop y Hy) as [_ Hyr].
          apply in_app_or in Hx. destruct Hx as [Hx|[<-|[]]].
          -- apply in_repeat_eq in Hx. subst x. cbn in Hxc. discriminate.
          -- cbn [t_round c] in Hr. destruct Hyr as [L|[L1 L2]]; lia.
        * apply in_app_or in Hy. destruct Hy as [Hy|[<-|[]]]; [|cbn in Hyt; discriminate].
          apply in_repeat_eq in Hy. subst y.
          destruct Hx as [Hx|Hx].
          -- apply task_cmp_lt_tok; cbn [t_prio t_cost t_seq tk]; [apply Hle; exact Hx|reflexivity|apply Gseq; exact Hx].
          -- exfalso. apply in_app_or in Hx. destruct Hx as [Hx|[<-|[]]].
             ++ apply in_repeat_eq in Hx. subst x. cbn in Hxc. discriminate.
             ++ cbn in Hr. lia.
      + lia.
    - (* an ordinary contig *)
      set (c := mk_task false key data cur len (ps_seq st) (ps_rnd st)). cbn [tasks_of].
      constructor; cbn [ps_prios ps_next ps_count ps_seq ps_rnd].
      + exact Hdom.
      + rewrite N2Z.inj_add. lia.
      + lia.
      + intros s' p H. destruct (N.eq_dec s' s) as [->|ne].
        * rewrite Hget in H. inversion H; subst p. lia.
        * apply (Hoth _ _ ne H).
      + intros s0 rest E. rewrite HSA in E. inversion E; subst s0 rest. exists cur.
        split; [exact Hget|]. split.
        * intros x Hx. apply in_app_or in Hx. destruct Hx as [Hx|[<-|[]]]; [apply Hle; exact Hx|cbn; lia].
        * intros x Hx Hr. apply in_app_or in Hx. destruct Hx as [Hx|[<-|[]]]; [apply Hlt; assumption|cbn in Hr; lia].
      + rewrite HSA. discriminate.
      + apply ssorted_app_intro; [exact Gsort|repeat constructor|].
        intros x y Hx [<-|[]]. destruct (Gtop x Hx) as [_ Hxr]. unfold rk_le. cbn [t_round t_tok c].
        destruct Hxr as [L|[L1 L2]]; [left; exact L|right; split; [exact L1|left; exact L2]].
      + intros x Hx. apply in_app_or in Hx. destruct Hx as [Hx|[<-|[]]]; [apply Gtop; exact Hx|].
        cbn. split; [exact Grnd|right; split; reflexivity].
      + intros k. rewrite cnt_app, Gtok. unfold cnt at 1. cbn [filter c is_tokk t_tok andb length]. lia.
      + intros x Hx. apply in_app_or in Hx. destruct Hx as [Hx|[<-|[]]]; [specialize (Gseq x Hx); lia|cbn; lia].
      + apply ssorted_app_intro; [exact Gsep|repeat constructor|].
        intros x y Hx [<-|[]] Hr. cbn [t_round c] in Hr. apply task_cmp_lt_prio. cbn [t_prio c]. apply Hlt; assumption.
      + intros x y Hx Hy Hr Hxc Hyt. apply in_app_or in Hx. apply in_app_or in Hy.
        destruct Hy as [Hy|[<-|[]]]; [|cbn in Hyt; discriminate].
        destruct Hx as [Hx|[<-|[]]]; [apply Gbef; assumption|exfalso].
        destruct (Gtop y Hy) as [_ [L|[L1 L2]]]; [cbn in Hr; lia|congruence].
      + exact Grnd.
  Qed.

  Lemma push_one_count : forall st inp, ps_count (fst (push_one R single pack n st inp)) = (ps_count st + 1)%N.
  Proof.
    intros st inp. unfold push_one.
    destruct (single && ((ps_count st + 1) mod pack =? 0)%N); reflexivity.
  Qed.

  Fixpoint seen_all (seen : list N) (l : list input) : list N :=
    match l with [] => seen | inp :: l' => seen_all (seen_after seen (sample_of inp)) l' end.

  Lemma ginv_push_all : forall l r0 seen st T,
    GInv r0 seen st T -> contiguous seen l ->
    (2 * (Z.of_N (ps_count st) + Z.of_nat (length l)) + 4 < det_prio_start - i32_min)%Z ->
    GInv r0 (seen_all seen l) (fst (push_all R single pack n st l)) (T ++ tasks_of (snd (push_all R single pack n st l)))
    /\ ps_count (fst (push_all R single pack n st l)) = (ps_count st + N.of_nat (length l))%N.
  Proof.
    induction l as [|inp l IH]; intros r0 seen st T I Hc Hb.
    - cbn [push_all fst snd tasks_of seen_all length]. rewrite app_nil_r. split; [exact I|]. cbn. lia.
    - cbn [push_all fst snd seen_all]. cbn [contiguous] in Hc. destruct Hc as [Hc1 Hc2]. cbn [length] in Hb.
      pose proof (ginv_push_one r0 seen st T inp I Hc1) as I1.
      assert (Hb1 : (2 * Z.of_N (ps_count st) + 4 < det_prio_start - i32_min)%Z) by lia.
      specialize (I1 Hb1).
      destruct (IH r0 _ _ _ I1 Hc2) as [I2 C2].
      { rewrite push_one_count. rewrite N2Z.inj_add. lia. }
      rewrite tasks_of_app, app_assoc. split; [exact I2|].
      rewrite C2, push_one_count. cbn [length]. lia.
  Qed.
End Gen.

Lemma ginv_init : forall n, GInv n 0 [] pstate0 [].
Proof.
  intros n. constructor; cbn [pstate0 ps_prios ps_next ps_count ps_seq ps_rnd prio_get]; try lia.
  - intros s. split; [intros _ []|reflexivity].
  - intros s p H. discriminate.
  - intros s0 rest H. discriminate.
  - reflexivity.
  - constructor.
  - intros x [].
  - intros k. destruct (Nat.leb 0 k); reflexivity.
  - intros x [].
  - constructor.
  - intros x y [].
Qed.

(* ------------------------------------------------------------------ the real scripts are well formed *)
Lemma contiguous_app : forall l1 l2 seen,
  contiguous seen (l1 ++ l2) -> contiguous seen l1 /\ contiguous (seen_all seen l1) l2.
Proof.
  induction l1 as [|inp l1 IH]; intros l2 seen H; [split; [exact I|exact H]|].
  cbn [app contiguous seen_all] in *. destruct H as [H1 H2]. destruct (IH _ _ H2) as [H3 H4].
  split; [split; assumption|exact H4].
Qed.

Lemma ssorted_mid_rel : forall (A : Type) (R : A -> A -> Prop) l1 x l2,
  StronglySorted R (l1 ++ x :: l2) -> forall y, In y l2 -> R x y.
Proof.
  intros A R l1. induction l1 as [|a l1 IH]; intros x l2 H y Hy.
  - cbn [app] in H. apply StronglySorted_inv in H. destruct H as [_ Hf].
    rewrite Forall_forall in Hf. apply Hf. exact Hy.
  - cbn [app] in H. apply StronglySorted_inv in H. destruct H as [H _]. eapply IH; eassumption.
Qed.

Lemma current_rule_tok : pr_tok_rule current_rule = 0%N. Proof. reflexivity. Qed.
Lemma current_rule_low : pr_lower_next current_rule = true. Proof. reflexivity. Qed.

(* every task of an invariant-carrying prefix is far above the flush / final priority *)
Lemma ginv_prio_floor : forall n r0 seen st T x,
  GInv n r0 seen st T -> In x T -> (det_prio_start - 2 * Z.of_N (ps_count st) < t_prio x)%Z.
Proof.
  intros n r0 seen st T x G Hx. destruct seen as [|s0 rest].
  - rewrite (g_nil _ _ _ _ _ G eq_refl) in Hx. contradiction.
  - destruct (g_last _ _ _ _ _ G s0 rest eq_refl) as [plast [E1 [E2 _]]].
    pose proof (g_prios _ _ _ _ _ G _ _ E1). pose proof (g_next_lo _ _ _ _ _ G). specialize (E2 x Hx). lia.
Qed.

Section SingleFile.
  Variables (n : nat) (pack : N) (ref rest : list input).
  Hypothesis Hn : (0 < n)%nat.
  Hypothesis Hcontig : contiguous [] (ref ++ rest).
  Hypothesis Hbound : (2 * Z.of_nat (length (ref ++ rest)) + 4 < det_prio_start - 1000000)%Z.

  Let a := push_all current_rule true pack n pstate0 ref.
  Let c := push_all current_rule true pack n (fst a) rest.
  Definition sf_rounds : nat := S (ps_rnd (fst c)).

  Lemma sf_tasks : tasks_of (singlefile_script current_rule n pack ref rest)
                   = (tasks_of (snd a) ++ tasks_of (snd c)) ++ repeat (mk_task true (0%N, 0%N) 0 det_final_prio 0 det_final_seq (ps_rnd (fst c))) n.
  Proof.
    unfold singlefile_script. fold a. fold c. rewrite !tasks_of_app. unfold final_block.
    rewrite tasks_of_repeat_push. cbn [tasks_of]. rewrite app_nil_r.
    destruct rest; cbn [tasks_of app]; rewrite <- ?app_assoc; reflexivity.
  Qed.

  Lemma sf_ginv : GInv n 0 (seen_all (seen_all [] ref) rest) (fst c) (tasks_of (snd a) ++ tasks_of (snd c))
                  /\ ps_count (fst c) = N.of_nat (length (ref ++ rest)).
  Proof.
    destruct (contiguous_app _ _ _ Hcontig) as [C1 C2].
    rewrite app_length, Nat2Z.inj_add in Hbound. pose proof prio_start_val. unfold i32_min.
    destruct (ginv_push_all n true pack current_rule current_rule_tok current_rule_low ref 0 [] pstate0 []
                (ginv_init n) C1) as [G1 N1].
    { cbn [pstate0 ps_count]. unfold i32_min. lia. }
    fold a in G1, N1. cbn [app] in G1.
    destruct (ginv_push_all n true pack current_rule current_rule_tok current_rule_low rest 0 _ (fst a) _ G1 C2) as [G2 N2].
    { rewrite N1. cbn [pstate0 ps_count]. unfold i32_min. lia. }
    fold c in G2, N2. split; [exact G2|]. rewrite N2, N1, app_length. cbn [pstate0 ps_count]. lia.
  Qed.

  Theorem singlefile_wf : wf_script n sf_rounds (singlefile_script current_rule n pack ref rest).
  Proof.
    destruct sf_ginv as [G NC].
    set (T := tasks_of (snd a) ++ tasks_of (snd c)) in *.
    set (rf := ps_rnd (fst c)) in *.
    set (fin := mk_task true (0%N, 0%N) 0 det_final_prio 0 det_final_seq rf).
    pose proof final_prio_val as FV. pose proof prio_start_val as PV.
    assert (Hfloor : forall x, In x T -> (det_final_prio < t_prio x)%Z).
    { intros x Hx. pose proof (ginv_prio_floor _ _ _ _ _ x G Hx) as F. rewrite NC in F.
      rewrite nat_N_Z in F. lia. }
    assert (SEP : StronglySorted sepR (T ++ repeat fin n)).
    { apply ssorted_app_intro; [apply (g_sep _ _ _ _ _ G)|apply ssorted_repeat; intros H; lia|].
      intros x y Hx Hy _. apply repeat_spec in Hy. subst y. apply task_cmp_lt_prio. cbn [t_prio fin]. apply Hfloor. exact Hx. }
    constructor.
    - rewrite sf_tasks. fold T rf fin. apply ssorted_app_intro; [apply (g_sorted _ _ _ _ _ G)| |].
      + apply ssorted_repeat. right. split; [reflexivity|right; reflexivity].
      + intros x y Hx Hy. apply repeat_spec in Hy. subst y. destruct (g_top _ _ _ _ _ G x Hx) as [_ H].
        unfold rk_le. cbn [t_round t_tok fin]. fold rf in H.
        destruct H as [L|[L1 L2]]; [left; exact L|right; split; [exact L1|left; exact L2]].
    - rewrite sf_tasks. fold T rf fin. intros x Hx. unfold sf_rounds. fold rf. apply in_app_or in Hx. destruct Hx as [Hx|Hx].
      + destruct (g_top _ _ _ _ _ G x Hx) as [_ H]. fold rf in H. destruct H as [L|[L1 L2]]; lia.
      + apply repeat_spec in Hx. subst x. cbn. lia.
    - rewrite sf_tasks. fold T rf fin. intros k Hk. unfold sf_rounds in Hk. fold rf in Hk.
      rewrite cnt_app, cnt_repeat, (g_tokens _ _ _ _ _ G). fold rf. unfold is_tokk. cbn [t_tok t_round fin andb].
      destruct (Nat.eqb_spec rf k).
      + subst k. rewrite Nat.ltb_irrefl, andb_false_r. lia.
      + assert (Nat.ltb k rf = true) as -> by (apply Nat.ltb_lt; lia). cbn [Nat.leb andb]. lia.
    - intros A0 x B0 y C0 E0 Hr Hxc Hyt. left.
      assert (Hx : In x (tasks_of (singlefile_script current_rule n pack ref rest))) by (rewrite E0; apply tasks_of_in).
      assert (Hy : In y (tasks_of (singlefile_script current_rule n pack ref rest)))
        by (rewrite E0, app_comm_cons, app_assoc; apply tasks_of_in).
      clear E0. rewrite sf_tasks in Hx, Hy. fold T rf fin in Hx, Hy.
      apply in_app_or in Hx. apply in_app_or in Hy.
      destruct Hx as [Hx|Hx]; [|apply repeat_spec in Hx; subst x; cbn in Hxc; discriminate].
      destruct Hy as [Hy|Hy]; [apply (g_before _ _ _ _ _ G); assumption|].
      apply repeat_spec in Hy. subst y. apply task_cmp_lt_prio. cbn [t_prio fin]. apply Hfloor. exact Hx.
    - intros A x B y C E Hr. left.
      assert (ET : tasks_of (singlefile_script current_rule n pack ref rest) = tasks_of A ++ x :: (tasks_of B ++ y :: tasks_of C)).
      { rewrite E, tasks_of_app. cbn [tasks_of]. rewrite tasks_of_app. reflexivity. }
      rewrite sf_tasks in ET. fold T rf fin in ET. rewrite ET in SEP.
      apply (ssorted_mid_rel _ sepR _ _ _ SEP y); [|exact Hr]. apply in_or_app. right. left. reflexivity.
    - exact Hn.
  Qed.
End SingleFile.

(* ---- multi-file mode *)
Lemma mid_wait_split : forall (A B C L M : list pact) u v w,
  A ++ u :: B ++ v :: C = L ++ w :: M -> u <> w -> v <> w -> ~ In u M -> ~ In v L -> In w B.
Proof.
  intros A. induction A as [|a A IH]; intros B C L M u v w E Hu Hv HuM HvL.
  - destruct L as [|l L]; cbn [app] in E.
    + inversion E. contradiction.
    + inversion E as [[E1 E2]]. subst l. clear E.
      assert (HvL' : ~ In v L) by (intro H; apply HvL; right; exact H).
      clear HvL HuM Hu. revert L E2 HvL'. induction B as [|b B IHB]; intros L E2 HvL'.
      * destruct L as [|l L]; cbn [app] in E2; inversion E2; [contradiction|]. subst. exfalso. apply HvL'. left. reflexivity.
      * destruct L as [|l L]; cbn [app] in E2; inversion E2.
        -- left. reflexivity.
        -- right. eapply IHB; [eassumption|]. intro H. apply HvL'. right. exact H.
  - destruct L as [|l L]; cbn [app] in E.
    + inversion E. subst. exfalso. apply HuM. apply in_or_app. right. left. reflexivity.
    + inversion E. eapply IH; try eassumption. intro H. apply HvL. right. exact H.
Qed.

Lemma push_one_rnd_multi : forall R pack n st inp, ps_rnd (fst (push_one R false pack n st inp)) = ps_rnd st.
Proof. intros. unfold push_one. cbn [andb]. reflexivity. Qed.
Lemma push_all_rnd_multi : forall R pack n l st, ps_rnd (fst (push_all R false pack n st l)) = ps_rnd st.
Proof.
  intros R pack n l. induction l as [|inp l IH]; intros st; [reflexivity|].
  cbn [push_all fst]. rewrite IH. apply push_one_rnd_multi.
Qed.

Lemma ginv_restart : forall n r0 seen st T,
  GInv n r0 seen st T -> GInv n (S (ps_rnd st)) seen (fst (flush_block n st)) [].
Proof.
  intros n r0 seen st T G. destruct G as [Gdom Glo Ghi Gpr Glast Gnil Gsort Gtop Gtok Gseq Gsep Gbef Grnd].
  constructor; unfold flush_block; cbn [fst ps_prios ps_next ps_count ps_seq ps_rnd]; try assumption; try lia.
  - intros s0 rest E. destruct (Glast s0 rest E) as [plast [E1 _]]. exists plast. split; [exact E1|]. split; intros x [].
  - reflexivity.
  - constructor.
  - intros x [].
  - intros k. unfold cnt. cbn [filter length]. destruct (Nat.leb_spec (S (ps_rnd st)) k); cbn [andb]; [|reflexivity].
    assert (Nat.ltb k (S (ps_rnd st)) = false) as -> by (apply Nat.ltb_ge; lia). reflexivity.
  - intros x [].
  - constructor.
  - intros x y [].
Qed.

(* multi-file mode never takes the pack-boundary branch: every push emits one contig of the current round whose
   priority is the sample's entry or the fresh next_priority; no contiguity of samples is needed *)
Record MInv (st : pstate) : Prop := {
  m_lo : (det_prio_start - Z.of_N (ps_count st) <= ps_next st)%Z;
  m_hi : (ps_next st <= det_prio_start)%Z;
  m_pr : forall s p, prio_get s (ps_prios st) = Some p -> (ps_next st < p <= det_prio_start)%Z
}.
Definition mtask_ok (r : nat) (lo : Z) (x : task) : Prop :=
  t_tok x = false /\ t_round x = r /\ (lo < t_prio x)%Z.

Lemma minv_push_all : forall R pack n l st,
  MInv st -> (Z.of_N (ps_count st) + Z.of_nat (length l) + 2 < det_prio_start - i32_min)%Z ->
  MInv (fst (push_all R false pack n st l)) /\
  ps_count (fst (push_all R false pack n st l)) = (ps_count st + N.of_nat (length l))%N /\
  Forall (mtask_ok (ps_rnd st) (det_prio_start - (Z.of_N (ps_count st) + Z.of_nat (length l)) - 1))
         (tasks_of (snd (push_all R false pack n st l))).
Proof.
  intros R pack n l. induction l as [|inp l IH]; intros st M Hb.
  - cbn [push_all fst snd tasks_of length]. split; [exact M|]. split; [cbn; lia|constructor].
  - cbn [push_all fst snd length] in *. pose proof prio_start_val as PV. unfold i32_min in Hb.
    destruct M as [Mlo Mhi Mpr].
    set (s := fst (fst (fst inp))).
    assert (ST : exists cur prios1 next1,
       push_one R false pack n st inp
       = (mk_pstate prios1 next1 (ps_count st + 1) (ps_seq st + 1) (ps_rnd st),
          [PPush (mk_task false (fst (fst inp)) (snd (fst inp)) cur (snd inp) (ps_seq st) (ps_rnd st))]) /\
       (next1 < cur <= det_prio_start)%Z /\ (ps_next st - 1 <= next1 <= ps_next st)%Z /\
       (forall s' p, prio_get s' prios1 = Some p -> (next1 < p <= det_prio_start)%Z)).
    { unfold push_one. cbn [andb]. fold s. destruct (prio_get s (ps_prios st)) as [p|] eqn:EG; cbn [fst snd].
      - exists p, (ps_prios st), (ps_next st). split; [reflexivity|]. pose proof (Mpr _ _ EG).
        split; [lia|]. split; [lia|exact Mpr].
      - rewrite wrap_i32_id by (unfold i32_min, i32_max; lia).
        exists (ps_next st), (prio_set s (ps_next st) (ps_prios st)), (ps_next st - 1)%Z. split; [reflexivity|].
        split; [lia|]. split; [lia|]. intros s' p H. destruct (N.eq_dec s' s) as [->|ne].
        + rewrite prio_get_set_same in H. inversion H; subst. lia.
        + rewrite prio_get_set_other in H by exact ne. pose proof (Mpr _ _ H). lia. }
    destruct ST as [cur [prios1 [next1 [E [Hc [Hn1 Hp]]]]]]. rewrite E. cbn [fst snd].
    set (st1 := mk_pstate prios1 next1 (ps_count st + 1) (ps_seq st + 1) (ps_rnd st)).
    assert (M1 : MInv st1).
    { constructor; cbn [st1 ps_next ps_count ps_prios]; [rewrite N2Z.inj_add; lia|lia|exact Hp]. }
    destruct (IH st1 M1) as [M2 [C2 F2]].
    { cbn [st1 ps_count]. rewrite N2Z.inj_add. unfold i32_min. lia. }
    split; [exact M2|]. split; [rewrite C2; cbn [st1 ps_count]; lia|].
    cbn [app tasks_of]. constructor.
    + unfold mtask_ok. cbn [t_tok t_round t_prio]. repeat split. lia.
    + cbn [st1 ps_rnd ps_count] in F2. eapply Forall_impl; [|exact F2].
      intros x [A1 [A2 A3]]. repeat split; try assumption. rewrite N2Z.inj_add in A3. lia.
Qed.

Lemma minv_init : MInv pstate0.
Proof. constructor; cbn [pstate0 ps_next ps_count ps_prios prio_get]; try lia. intros s p H. discriminate. Qed.

Lemma ssorted_same_round_contigs : forall r lo T, Forall (mtask_ok r lo) T -> StronglySorted rk_le T.
Proof.
  intros r lo T H. induction H as [|x T Hx HT IH]; constructor; [exact IH|].
  apply Forall_forall. intros y Hy. rewrite Forall_forall in HT. specialize (HT y Hy).
  destruct Hx as [A1 [A2 _]]. destruct HT as [_ [B2 _]].
  right. split; [congruence|left; exact A1].
Qed.

Section MultiFile.
  Variables (n : nat) (first rest : list input).
  Hypothesis Hn : (0 < n)%nat.
  Hypothesis Hbound : (2 * Z.of_nat (length (first ++ rest)) + 4 < det_prio_start - 1000000)%Z.

  Let a := push_all current_rule false 1 n pstate0 first.
  Let b := flush_block n (fst a).
  Let c := push_all current_rule false 1 n (fst b) rest.
  Let ftok := mk_task true (0%N, 0%N) 0 det_flush_prio 0 (ps_seq (fst a)) 0.
  Let fin := mk_task true (0%N, 0%N) 0 det_final_prio 0 det_final_seq 1.

  Lemma mf_rnd_a : ps_rnd (fst a) = 0%nat. Proof. unfold a. rewrite push_all_rnd_multi. reflexivity. Qed.
  Lemma mf_rnd_c : ps_rnd (fst c) = 1%nat.
  Proof. unfold c. rewrite push_all_rnd_multi. unfold b, flush_block. cbn [fst ps_rnd]. rewrite mf_rnd_a. reflexivity. Qed.

  Lemma mf_script : multifile_script current_rule n first rest
    = (snd a ++ [PWaitEmpty] ++ repeat (PPush ftok) n) ++ PWaitEmpty :: (snd c ++ repeat (PPush fin) n ++ [PClose]).
  Proof.
    unfold multifile_script. fold a. fold b. fold c. unfold final_block. rewrite mf_rnd_c.
    change (snd b) with (repeat (PPush (mk_task true (0%N, 0%N) 0 det_flush_prio 0 (ps_seq (fst a)) (ps_rnd (fst a)))) n).
    rewrite mf_rnd_a. fold ftok. fold fin.
    rewrite <- !app_assoc. reflexivity.
  Qed.

  Lemma mf_facts :
    Forall (mtask_ok 0 1000000) (tasks_of (snd a)) /\ Forall (mtask_ok 1 1000000) (tasks_of (snd c)).
  Proof.
    pose proof prio_start_val as PV. rewrite app_length, Nat2Z.inj_add in Hbound.
    destruct (minv_push_all current_rule 1 n first pstate0 minv_init) as [M1 [C1 F1]].
    { cbn [pstate0 ps_count]. unfold i32_min. lia. }
    fold a in M1, C1, F1. cbn [pstate0 ps_count ps_rnd] in F1.
    assert (CZ : Z.of_N (ps_count (fst a)) = Z.of_nat (length first)).
    { rewrite C1. cbn [pstate0 ps_count]. rewrite N.add_0_l. apply nat_N_Z. }
    assert (MB : MInv (fst b)).
    { destruct M1 as [A1 A2 A3]. constructor; unfold b, flush_block; cbn [fst ps_next ps_count ps_prios]; assumption. }
    destruct (minv_push_all current_rule 1 n rest (fst b) MB) as [M2 [C2 F2]].
    { unfold b, flush_block. cbn [fst ps_count]. unfold i32_min. lia. }
    fold c in M2, C2, F2.
    assert (RB : ps_rnd (fst b) = 1%nat) by (unfold b, flush_block; cbn [fst ps_rnd]; rewrite mf_rnd_a; reflexivity).
    rewrite RB in F2. unfold b, flush_block in F2. cbn [fst ps_count] in F2.
    split.
    - eapply Forall_impl; [|exact F1]. intros x [A1 [A2 A3]]. repeat split; try assumption. cbn [Z.of_N] in A3. lia.
    - eapply Forall_impl; [|exact F2]. intros x [A1 [A2 A3]]. repeat split; try assumption. lia.
  Qed.

  Theorem multifile_wf : wf_script n 2 (multifile_script current_rule n first rest).
  Proof.
    destruct mf_facts as [F1 F2].
    set (T1 := tasks_of (snd a)) in *. set (T2 := tasks_of (snd c)) in *.
    pose proof final_prio_val as FV. pose proof flush_prio_val as FLV. pose proof prio_start_val as PV.
    assert (H1 : forall x, In x T1 -> t_tok x = false /\ t_round x = 0%nat /\ (1000000 < t_prio x)%Z).
    { intros x Hx. rewrite Forall_forall in F1. exact (F1 x Hx). }
    assert (H2 : forall x, In x T2 -> t_tok x = false /\ t_round x = 1%nat /\ (1000000 < t_prio x)%Z).
    { intros x Hx. rewrite Forall_forall in F2. exact (F2 x Hx). }
    assert (ET : tasks_of (multifile_script current_rule n first rest) = (T1 ++ repeat ftok n) ++ (T2 ++ repeat fin n)).
    { rewrite mf_script. rewrite !tasks_of_app. cbn [tasks_of]. rewrite !tasks_of_app, !tasks_of_repeat_push.
      cbn [tasks_of app]. rewrite app_nil_r. reflexivity. }
    assert (RK0 : forall x, In x (T1 ++ repeat ftok n) -> t_round x = 0%nat /\ (t_tok x = false -> In x T1)).
    { intros x Hx. apply in_app_or in Hx. destruct Hx as [Hx|Hx].
      - destruct (H1 x Hx) as [_ [E _]]. split; [exact E|intros _; exact Hx].
      - apply repeat_spec in Hx. subst x. split; [reflexivity|]. cbn. discriminate. }
    assert (RK1 : forall x, In x (T2 ++ repeat fin n) -> t_round x = 1%nat /\ (t_tok x = false -> In x T2)).
    { intros x Hx. apply in_app_or in Hx. destruct Hx as [Hx|Hx].
      - destruct (H2 x Hx) as [_ [E _]]. split; [exact E|intros _; exact Hx].
      - apply repeat_spec in Hx. subst x. split; [reflexivity|]. cbn. discriminate. }
    constructor.
    - rewrite ET. apply ssorted_app_intro.
      + apply ssorted_app_intro; [apply (ssorted_same_round_contigs _ _ _ F1)| |].
        * apply ssorted_repeat. right. split; [reflexivity|right; reflexivity].
        * intros x y Hx Hy. apply repeat_spec in Hy. subst y. destruct (H1 x Hx) as [E1 [E2 _]].
          right. cbn [t_round t_tok ftok]. split; [exact E2|left; exact E1].
      + apply ssorted_app_intro; [apply (ssorted_same_round_contigs _ _ _ F2)| |].
        * apply ssorted_repeat. right. split; [reflexivity|right; reflexivity].
        * intros x y Hx Hy. apply repeat_spec in Hy. subst y. destruct (H2 x Hx) as [E1 [E2 _]].
          right. cbn [t_round t_tok fin]. split; [exact E2|left; exact E1].
      + intros x y Hx Hy. left. destruct (RK0 x Hx) as [-> _]. destruct (RK1 y Hy) as [-> _]. lia.
    - rewrite ET. intros x Hx. apply in_app_or in Hx. destruct Hx as [Hx|Hx]; [destruct (RK0 x Hx) as [-> _]|destruct (RK1 x Hx) as [-> _]]; lia.
    - rewrite ET. intros k Hk. rewrite !cnt_app, !cnt_repeat.
      rewrite (cnt_zero (is_tokk k) T1), (cnt_zero (is_tokk k) T2).
      + unfold is_tokk. cbn [t_tok t_round ftok fin andb]. destruct k as [|[|k]]; cbn [Nat.eqb]; lia.
      + intros x Hx. destruct (H2 x Hx) as [E _]. apply is_tokk_ctg. exact E.
      + intros x Hx. destruct (H1 x Hx) as [E _]. apply is_tokk_ctg. exact E.
    - intros A0 x B0 y C0 E0 Hr Hxc Hyt. left.
      assert (Hx : In x (tasks_of (multifile_script current_rule n first rest))) by (rewrite E0; apply tasks_of_in).
      assert (Hy : In y (tasks_of (multifile_script current_rule n first rest)))
        by (rewrite E0, app_comm_cons, app_assoc; apply tasks_of_in).
      clear E0. rewrite ET in Hx, Hy. apply in_app_or in Hx. apply in_app_or in Hy.
      assert (Hyp : t_prio y = 1000000%Z /\ (t_round y = 0%nat \/ t_round y = 1%nat)).
      { destruct Hy as [Hy|Hy]; apply in_app_or in Hy; destruct Hy as [Hy|Hy].
        - destruct (H1 y Hy) as [E _]. congruence.
        - apply repeat_spec in Hy. subst y. cbn. split; [exact FLV|left; reflexivity].
        - destruct (H2 y Hy) as [E _]. congruence.
        - apply repeat_spec in Hy. subst y. cbn. split; [exact FV|right; reflexivity]. }
      assert (Hxp : (1000000 < t_prio x)%Z).
      { destruct Hx as [Hx|Hx]; apply in_app_or in Hx; destruct Hx as [Hx|Hx].
        - apply (H1 x Hx).
        - apply repeat_spec in Hx. subst x. cbn in Hxc. discriminate.
        - apply (H2 x Hx).
        - apply repeat_spec in Hx. subst x. cbn in Hxc. discriminate. }
      apply task_cmp_lt_prio. lia.
    - (* a later round is only entered through sync_and_flush's wait *)
      intros A x B y C E Hr. right. rewrite mf_script in E. symmetry in E.
      assert (ETA : forall l, tasks_of (l ++ [PWaitEmpty] ++ repeat (PPush ftok) n) = tasks_of l ++ repeat ftok n).
      { intros l. rewrite !tasks_of_app. cbn [tasks_of]. rewrite tasks_of_repeat_push. reflexivity. }
      assert (ETC : tasks_of (snd c ++ repeat (PPush fin) n ++ [PClose]) = T2 ++ repeat fin n).
      { rewrite !tasks_of_app, tasks_of_repeat_push. cbn [tasks_of]. rewrite app_nil_r. reflexivity. }
      assert (In_push : forall t l, In (PPush t) l -> In t (tasks_of l)).
      { intros t l. induction l as [|p l IH]; intros H; [contradiction|]. destruct H as [->|H]; [left; reflexivity|].
        destruct p; cbn [tasks_of]; [right|idtac|idtac]; apply IH; exact H. }
      assert (Hx_sc : In x ((T1 ++ repeat ftok n) ++ (T2 ++ repeat fin n))).
      { rewrite <- ET, mf_script, <- E. apply tasks_of_in. }
      assert (Hy_sc : In y ((T1 ++ repeat ftok n) ++ (T2 ++ repeat fin n))).
      { rewrite <- ET, mf_script, <- E. rewrite app_comm_cons, app_assoc. apply tasks_of_in. }
      assert (Rx : t_round x = 0%nat /\ t_round y = 1%nat).
      { apply in_app_or in Hx_sc. apply in_app_or in Hy_sc.
        destruct Hx_sc as [Hx|Hx]; [destruct (RK0 x Hx) as [Ex _]|destruct (RK1 x Hx) as [Ex _]];
          (destruct Hy_sc as [Hy|Hy]; [destruct (RK0 y Hy) as [Ey _]|destruct (RK1 y Hy) as [Ey _]]); lia. }
      destruct Rx as [Rx Ry].
      eapply (mid_wait_split A B C _ _ (PPush x) (PPush y) PWaitEmpty E); try discriminate.
      + intro H. apply In_push in H. rewrite ETC in H. destruct (RK1 x H) as [Ex _]. lia.
      + intro H. apply In_push in H. fold T1 in H. rewrite ETA in H. fold T1 in H. destruct (RK0 y H) as [Ey _]. lia.
    - exact Hn.
  Qed.
End MultiFile.

(* ------------------------------------------------------------------ the quiescent discipline, no priorities at all:
   every phase pushes its contigs, waits until the queue is empty (drain), pushes the N tokens, waits again *)
Definition qphase := (list task * task)%type.
Fixpoint quiescent_script (n : nat) (phs : list qphase) : list pact :=
  match phs with
  | [] => [PClose]
  | ph :: rest => map PPush (fst ph) ++ [PWaitEmpty] ++ repeat (PPush (snd ph)) n ++ [PWaitEmpty]
                  ++ quiescent_script n rest
  end.
Fixpoint tagged (k : nat) (phs : list qphase) : Prop :=
  match phs with
  | [] => True
  | ph :: rest => Forall (fun c => t_tok c = false /\ t_round c = k) (fst ph) /\
                  t_tok (snd ph) = true /\ t_round (snd ph) = k /\ tagged (S k) rest
  end.

Lemma tasks_of_map_push : forall l, tasks_of (map PPush l) = l.
Proof. induction l as [|a l IH]; [reflexivity|]. cbn [map tasks_of]. f_equal. exact IH. Qed.

Lemma in_push_tasks : forall t l, In (PPush t) l -> In t (tasks_of l).
Proof.
  intros t l. induction l as [|p l IH]; intros H; [contradiction|]. destruct H as [->|H]; [left; reflexivity|].
  destruct p; cbn [tasks_of]; [right|idtac|idtac]; apply IH; exact H.
Qed.

Lemma split_shift : forall (P Q l1 l2 : list pact) u, l1 ++ u :: l2 = P ++ Q -> ~ In u P ->
  exists A', l1 = P ++ A' /\ Q = A' ++ u :: l2.
Proof.
  induction P as [|p P IH]; intros Q l1 l2 u E Hn.
  - exists l1. split; [reflexivity|]. symmetry. exact E.
  - destruct l1 as [|a l1]; cbn [app] in E; inversion E; subst.
    + exfalso. apply Hn. left. reflexivity.
    + destruct (IH Q l1 l2 u H1) as [A' [E1 E2]]; [intro H; apply Hn; right; exact H|].
      exists A'. split; [rewrite E1; reflexivity|exact E2].
Qed.

Lemma quiescent_tasks : forall n phs,
  tasks_of (quiescent_script n phs)
  = match phs with [] => [] | ph :: rest => fst ph ++ repeat (snd ph) n ++ tasks_of (quiescent_script n rest) end.
Proof.
  intros n [|ph rest]; [reflexivity|]. cbn [quiescent_script]. rewrite !tasks_of_app, tasks_of_map_push, tasks_of_repeat_push.
  reflexivity.
Qed.

Lemma quiescent_rounds : forall n phs k, tagged k phs ->
  forall x, In x (tasks_of (quiescent_script n phs)) -> (k <= t_round x < k + length phs)%nat.
Proof.
  intros n phs. induction phs as [|ph rest IH]; intros k T x Hx; [contradiction|].
  rewrite quiescent_tasks in Hx. cbn [tagged] in T. destruct T as [T1 [T2 [T3 T4]]]. cbn [length].
  apply in_app_or in Hx. destruct Hx as [Hx|Hx].
  - rewrite Forall_forall in T1. destruct (T1 x Hx) as [_ E]. lia.
  - apply in_app_or in Hx. destruct Hx as [Hx|Hx].
    + apply repeat_spec in Hx. subst x. lia.
    + specialize (IH (S k) T4 x Hx). lia.
Qed.

Lemma quiescent_wf_gen : forall n phs k, (0 < n)%nat -> tagged k phs ->
  let sc := quiescent_script n phs in
  StronglySorted rk_le (tasks_of sc) /\
  (forall j, cnt (is_tokk j) (tasks_of sc) = if Nat.leb k j && Nat.ltb j (k + length phs) then n else 0%nat) /\
  (forall A x B y C, sc = A ++ PPush x :: B ++ PPush y :: C ->
     (t_round x = t_round y /\ t_tok x = false /\ t_tok y = true) \/ (t_round x < t_round y)%nat -> In PWaitEmpty B).
Proof.
  intros n phs. induction phs as [|ph rest IH]; intros k Hn T; cbv zeta.
  - cbn [quiescent_script tasks_of length]. split; [constructor|]. split.
    + intros j. replace (k + 0)%nat with k by lia. destruct (Nat.leb_spec k j); cbn [andb]; [|reflexivity].
      assert (Nat.ltb j k = false) as -> by (apply Nat.ltb_ge; lia). reflexivity.
    + intros A x B y C E _. exfalso. destruct A as [|a [|a' A]]; cbn [app] in E; inversion E.
  - cbn [tagged] in T. destruct T as [T1 [T2 [T3 T4]]].
    destruct (IH (S k) Hn T4) as [IS [IC ISP]]. cbv zeta in IS, IC, ISP.
    pose proof (quiescent_rounds n rest (S k) T4) as IR.
    rewrite Forall_forall in T1.
    split; [|split].
    + rewrite quiescent_tasks. apply ssorted_app_intro.
      * clear - T1. induction (fst ph) as [|c cs IHc]; constructor.
        -- apply IHc. intros x Hx. apply T1. right. exact Hx.
        -- apply Forall_forall. intros y Hy. destruct (T1 c (or_introl eq_refl)) as [E1 E2].
           destruct (T1 y (or_intror Hy)) as [_ E4]. right. split; [congruence|left; exact E1].
      * apply ssorted_app_intro; [apply ssorted_repeat; right; split; [reflexivity|right; exact T2]|exact IS|].
        intros x y Hx Hy. apply repeat_spec in Hx. subst x. specialize (IR y Hy). left. lia.
      * intros x y Hx Hy. destruct (T1 x Hx) as [E1 E2]. apply in_app_or in Hy. destruct Hy as [Hy|Hy].
        -- apply repeat_spec in Hy. subst y. right. split; [congruence|left; exact E1].
        -- specialize (IR y Hy). left. lia.
    + intros j. rewrite quiescent_tasks, !cnt_app, cnt_repeat, IC. cbn [length].
      rewrite (cnt_zero (is_tokk j) (fst ph)) by (intros x Hx; apply is_tokk_ctg; apply (T1 x Hx)).
      rewrite (is_tokk_tok j _ T2), T3.
      destruct (Nat.eqb_spec k j).
      * subst j. assert (Nat.leb (S k) k = false) as -> by (apply Nat.leb_gt; lia).
        assert (Nat.leb k k = true) as -> by (apply Nat.leb_le; lia).
        assert (Nat.ltb k (k + S (length rest)) = true) as -> by (apply Nat.ltb_lt; lia). cbn [andb]. lia.
      * destruct (Nat.leb_spec k j); destruct (Nat.leb_spec (S k) j); try lia; cbn [andb]; try lia.
        destruct (Nat.ltb_spec j (S k + length rest)); destruct (Nat.ltb_spec j (k + S (length rest))); lia.
    + intros A x B y C E H.
      set (P1 := map PPush (fst ph)) in *. set (TK := repeat (PPush (snd ph)) n) in *.
      assert (Esc : quiescent_script n (ph :: rest) = P1 ++ PWaitEmpty :: TK ++ PWaitEmpty :: quiescent_script n rest).
      { cbn [quiescent_script]. fold P1 TK. cbn [app]. reflexivity. }
      rewrite Esc in E. symmetry in E.
      assert (Hx_sc : In x (tasks_of (quiescent_script n (ph :: rest)))) by (rewrite Esc, <- E; apply tasks_of_in).
      assert (Hy_sc : In y (tasks_of (quiescent_script n (ph :: rest))))
        by (rewrite Esc, <- E, app_comm_cons, app_assoc; apply tasks_of_in).
      rewrite quiescent_tasks in Hx_sc, Hy_sc.
      assert (P1t : forall t, In (PPush t) P1 -> t_tok t = false /\ t_round t = k).
      { intros t Ht. apply in_push_tasks in Ht. unfold P1 in Ht. rewrite tasks_of_map_push in Ht. apply T1. exact Ht. }
      assert (TKt : forall t, In (PPush t) TK -> t = snd ph).
      { intros t Ht. apply repeat_spec in Ht. inversion Ht. reflexivity. }
      assert (RSt : forall t, In (PPush t) (quiescent_script n rest) -> (S k <= t_round t)%nat).
      { intros t Ht. apply in_push_tasks in Ht. apply IR in Ht. lia. }
      (* where is x ? *)
      destruct (le_lt_dec (S k) (t_round x)) as [Lx|Lx].
      * (* x, hence y, in the later phases *)
        assert (Ly : (S k <= t_round y)%nat) by (destruct H as [[H _]|H]; lia).
        assert (NX : ~ In (PPush x) (P1 ++ PWaitEmpty :: TK ++ [PWaitEmpty])).
        { intro Hin. apply in_app_or in Hin. destruct Hin as [Hin|[Hin|Hin]]; [destruct (P1t x Hin); lia|discriminate|].
          apply in_app_or in Hin. destruct Hin as [Hin|[Hin|[]]]; [apply TKt in Hin; subst x; lia|discriminate]. }
        assert (E' : A ++ PPush x :: B ++ PPush y :: C = (P1 ++ PWaitEmpty :: TK ++ [PWaitEmpty]) ++ quiescent_script n rest).
        { rewrite E. rewrite <- !app_assoc. cbn [app]. rewrite <- app_assoc. reflexivity. }
        destruct (split_shift _ _ _ _ _ E' NX) as [A' [_ E2]]. eapply ISP; [exact E2|exact H].
      * (* x belongs to phase k *)
        assert (Rx : t_round x = k).
        { apply in_app_or in Hx_sc. destruct Hx_sc as [Hx|Hx]; [apply (T1 x Hx)|].
          apply in_app_or in Hx. destruct Hx as [Hx|Hx]; [apply repeat_spec in Hx; subst x; exact T3|].
          apply IR in Hx. lia. }
        destruct H as [[H1 [H2 H3]]|H].
        -- (* contig x and token y of phase k: the drain wait lies between *)
           eapply (mid_wait_split A B C P1 (TK ++ PWaitEmpty :: quiescent_script n rest) (PPush x) (PPush y) PWaitEmpty E);
             try discriminate.
           ++ intro Hin. apply in_app_or in Hin. destruct Hin as [Hin|[Hin|Hin]];
                [apply TKt in Hin; subst x; congruence|discriminate|apply RSt in Hin; lia].
           ++ intro Hin. destruct (P1t y Hin). congruence.
        -- (* y in a later phase: the wait after the tokens lies between *)
           assert (E' : A ++ PPush x :: B ++ PPush y :: C = (P1 ++ PWaitEmpty :: TK) ++ PWaitEmpty :: quiescent_script n rest).
           { rewrite E. rewrite <- app_assoc. reflexivity. }
           eapply (mid_wait_split A B C _ _ (PPush x) (PPush y) PWaitEmpty E'); try discriminate.
           ++ intro Hin. apply RSt in Hin. lia.
           ++ intro Hin. apply in_app_or in Hin. destruct Hin as [Hin|[Hin|Hin]];
                [destruct (P1t y Hin); lia|discriminate|apply TKt in Hin; subst y; lia].
Qed.

Theorem quiescent_wf : forall n phs, (0 < n)%nat -> tagged 0 phs ->
  wf_script n (length phs) (quiescent_script n phs).
Proof.
  intros n phs Hn T. destruct (quiescent_wf_gen n phs 0 Hn T) as [S1 [S2 S3]]. cbv zeta in *.
  constructor.
  - exact S1.
  - intros x Hx. pose proof (quiescent_rounds n phs 0 T x Hx). lia.
  - intros k Hk. rewrite S2. cbn [Nat.leb andb plus]. assert (Nat.ltb k (length phs) = true) as -> by (apply Nat.ltb_lt; lia). reflexivity.
  - intros A x B y C E H1 H2 H3. right. eapply S3; [exact E|]. left. repeat split; assumption.
  - intros A x B y C E H. right. eapply S3; [exact E|]. right. exact H.
  - exact Hn.
Qed.

Lemma quiescent_expected : forall n phs k i, tagged k phs -> (i < length phs)%nat ->
  expected_round (quiescent_script n phs) (k + i) = fst (nth i phs ([], mk_task false (0%N,0%N) 0 0 0 0 0)).
Proof.
  intros n phs. induction phs as [|ph rest IH]; intros k i T Hi; [cbn in Hi; lia|].
  cbn [tagged] in T. destruct T as [T1 [T2 [T3 T4]]]. rewrite Forall_forall in T1.
  unfold expected_round. rewrite quiescent_tasks, !filter_app.
  destruct i as [|i].
  - cbn [nth]. rewrite Nat.add_0_r.
    rewrite (filter_id_all _ (in_round k) (fst ph)).
    + rewrite (filter_nil_all _ (in_round k) (repeat (snd ph) n)).
      * rewrite (filter_nil_all _ (in_round k) (tasks_of (quiescent_script n rest))); [rewrite !app_nil_r; reflexivity|].
        intros x Hx. pose proof (quiescent_rounds n rest (S k) T4 x Hx). unfold in_round.
        assert (Nat.eqb (t_round x) k = false) as -> by (apply Nat.eqb_neq; lia). apply andb_false_r.
      * intros x Hx. apply repeat_spec in Hx. subst x. unfold in_round. rewrite T2. reflexivity.
    + intros x Hx. destruct (T1 x Hx) as [E1 E2]. unfold in_round. rewrite E1, E2, Nat.eqb_refl. reflexivity.
  - cbn [nth]. cbn [length] in Hi.
    rewrite (filter_nil_all _ (in_round (k + S i)) (fst ph)).
    + rewrite (filter_nil_all _ (in_round (k + S i)) (repeat (snd ph) n)).
      * cbn [app]. replace (k + S i)%nat with (S k + i)%nat by lia. apply (IH (S k) i T4). lia.
      * intros x Hx. apply repeat_spec in Hx. subst x. unfold in_round. rewrite T2. reflexivity.
    + intros x Hx. destruct (T1 x Hx) as [E1 E2]. unfold in_round.
      assert (Nat.eqb (t_round x) (k + S i) = false) as -> by (apply Nat.eqb_neq; lia). apply andb_false_r.
Qed.
