(* Determinism_gen.v — C04: the scripts the producer really runs are well formed ([wf_script]):
   - single-file mode with the current pack-boundary rule (tokens carry the sample's priority before the
     decrement, next_priority is lowered below the decremented priority), samples contiguous in the input;
   - multi-file mode (drain, sync_and_flush with its wait, finalize). *)
From Coq Require Import List Permutation Sorted Lia Bool Arith NArith ZArith.
From Ragc Require Import Determinism Determinism_base Determinism_proto.
Import ListNotations.

(* ------------------------------------------------------------------ arithmetic and order helpers *)
Lemma wrap_i32_id : forall x, (i32_min <= x <= i32_max)%Z -> wrap_i32 x = x.
Proof.
  intros x H. unfold wrap_i32, i32_min, i32_max in *. rewrite Z.mod_small by lia. lia.
Qed.

Lemma prio_start_val : det_prio_start = 2147483647%Z. Proof. reflexivity. Qed.
Lemma flush_prio_val : det_flush_prio = 1000000%Z. Proof. reflexivity. Qed.
Lemma final_prio_val : det_final_prio = 1000000%Z. Proof. reflexivity. Qed.

Lemma task_cmp_lt_prio : forall x y, (t_prio y < t_prio x)%Z -> task_cmp y x = Lt.
Proof.
  intros x y H. unfold task_cmp, cmp_then. destruct (Z.compare_spec (t_prio y) (t_prio x)); try lia. reflexivity.
Qed.
Lemma task_cmp_lt_tok : forall x y, (t_prio y <= t_prio x)%Z -> t_cost y = 0%N -> (t_seq x < t_seq y)%N ->
  task_cmp y x = Lt.
Proof.
  intros x y H Hc Hs. unfold task_cmp, cmp_then. destruct (Z.compare_spec (t_prio y) (t_prio x)); try lia; [|reflexivity].
  rewrite Hc. destruct (N.compare_spec 0 (t_cost x)); try lia; [|reflexivity].
  destruct (N.compare_spec (t_seq x) (t_seq y)); try lia. reflexivity.
Qed.

Lemma prio_get_set_same : forall s p m, prio_get s (prio_set s p m) = Some p.
Proof.
  intros s p m. induction m as [|[k v] m IH]; cbn [prio_set prio_get].
  - rewrite N.eqb_refl. reflexivity.
  - destruct (N.eqb_spec k s); cbn [prio_get].
    + subst. rewrite N.eqb_refl. reflexivity.
    + destruct (N.eqb_spec k s); [contradiction|]. exact IH.
Qed.
Lemma prio_get_set_other : forall s s' p m, s' <> s -> prio_get s' (prio_set s p m) = prio_get s' m.
Proof.
  intros s s' p m Hne. induction m as [|[k v] m IH]; cbn [prio_set prio_get].
  - destruct (N.eqb_spec s s'); [subst; contradiction|]. reflexivity.
  - destruct (N.eqb_spec k s); cbn [prio_get].
    + subst. destruct (N.eqb_spec s s'); [subst; contradiction|]. reflexivity.
    + destruct (N.eqb_spec k s'); [reflexivity|]. exact IH.
Qed.

Lemma ssorted_app_intro : forall (A : Type) (R : A -> A -> Prop) l1 l2,
  StronglySorted R l1 -> StronglySorted R l2 -> (forall x y, In x l1 -> In y l2 -> R x y) ->
  StronglySorted R (l1 ++ l2).
Proof.
  intros A R l1. induction l1 as [|a l1 IH]; intros l2 H1 H2 H; [exact H2|].
  apply StronglySorted_inv in H1. destruct H1 as [H1 Hf]. cbn [app]. constructor.
  - apply IH; try assumption. intros x y Hx Hy. apply H; [right; exact Hx|exact Hy].
  - apply Forall_app. split; [exact Hf|]. apply Forall_forall. intros y Hy. apply H; [left; reflexivity|exact Hy].
Qed.
Lemma ssorted_repeat : forall (A : Type) (R : A -> A -> Prop) x m, R x x -> StronglySorted R (repeat x m).
Proof.
  intros A R x m H. induction m; cbn [repeat]; constructor; [assumption|].
  apply Forall_forall. intros y Hy. apply repeat_spec in Hy. subst. exact H.
Qed.

Lemma tasks_of_repeat_push : forall t m, tasks_of (repeat (PPush t) m) = repeat t m.
Proof. intros t m. induction m; [reflexivity|]. cbn [repeat tasks_of]. f_equal. exact IHm. Qed.
Lemma cnt_repeat : forall p t m, cnt p (repeat t m) = if p t then m else 0%nat.
Proof.
  intros p t m. induction m; cbn [repeat]; [destruct (p t); reflexivity|].
  rewrite cnt_cons, IHm. destruct (p t); reflexivity.
Qed.

(* later pushes of a later round are below: for ALL earlier tasks (no wait needed) *)
Definition sepR (x y : task) : Prop := (t_round x < t_round y)%nat -> task_cmp y x = Lt.

(* ------------------------------------------------------------------ the generator invariant (current rule) *)
Definition sample_of (inp : input) : N := fst (fst (fst inp)).
Definition seen_after (seen : list N) (s : N) : list N :=
  match seen with
  | s0 :: _ => if N.eqb s0 s then seen else s :: seen
  | [] => [s]
  end.
(* samples are contiguous in the input: a sample never comes back (ragc-cli checks this and fails otherwise) *)
Fixpoint contiguous (seen : list N) (l : list input) : Prop :=
  match l with
  | [] => True
  | inp :: l' => (match seen with s0 :: _ => sample_of inp = s0 \/ ~ In (sample_of inp) seen | [] => True end)
                 /\ contiguous (seen_after seen (sample_of inp)) l'
  end.

Section Gen.
  Variables (n : nat) (single : bool) (pack : N).
  Variable R : prule.
  Hypothesis R_tok : pr_tok_rule R = 0%N.
  Hypothesis R_low : pr_lower_next R = true.

  Record GInv (r0 : nat) (seen : list N) (st : pstate) (T : list task) : Prop := {
    g_dom : forall s, prio_get s (ps_prios st) = None <-> ~ In s seen;
    g_next_lo : (det_prio_start - 2 * Z.of_N (ps_count st) <= ps_next st)%Z;
    g_next_hi : (ps_next st <= det_prio_start)%Z;
    g_prios : forall s p, prio_get s (ps_prios st) = Some p -> (ps_next st < p <= det_prio_start)%Z;
    g_last : forall s0 rest, seen = s0 :: rest -> exists plast, prio_get s0 (ps_prios st) = Some plast /\
               (forall x, In x T -> (plast <= t_prio x)%Z) /\
               (forall x, In x T -> (t_round x < ps_rnd st)%nat -> (plast < t_prio x)%Z);
    g_nil : seen = [] -> T = [];
    g_sorted : StronglySorted rk_le T;
    g_top : forall x, In x T -> (r0 <= t_round x)%nat /\
               ((t_round x < ps_rnd st)%nat \/ (t_round x = ps_rnd st /\ t_tok x = false));
    g_tokens : forall k, cnt (is_tokk k) T = if Nat.leb r0 k && Nat.ltb k (ps_rnd st) then n else 0%nat;
    g_seq : forall x, In x T -> (t_seq x < ps_seq st)%N;
    g_sep : StronglySorted sepR T;
    g_before : forall x y, In x T -> In y T -> t_round x = t_round y -> t_tok x = false -> t_tok y = true ->
               task_cmp y x = Lt;
    g_rnd : (r0 <= ps_rnd st)%nat
  }.

  Lemma in_repeat_eq : forall (A : Type) (x y : A) m, In y (repeat x m) -> y = x.
  Proof. intros A x y m H. apply repeat_spec in H. exact H. Qed.

  (* one push keeps the invariant *)
  Lemma ginv_push_one : forall r0 seen st T inp,
    GInv r0 seen st T ->
    (match seen with s0 :: _ => sample_of inp = s0 \/ ~ In (sample_of inp) seen | [] => True end) ->
    (2 * Z.of_N (ps_count st) + 4 < det_prio_start - i32_min)%Z ->
    GInv r0 (seen_after seen (sample_of inp)) (fst (push_one R single pack n st inp))
         (T ++ tasks_of (snd (push_one R single pack n st inp))).
  Proof.
    intros r0 seen st T [[key data] len] I Hc Hb.
    pose proof prio_start_val as PV. unfold i32_min in Hb.
    destruct I as [Gdom Glo Ghi Gpr Glast Gnil Gsort Gtop Gtok Gseq Gsep Gbef Grnd].
    set (s := fst key). unfold sample_of in *. cbn [fst] in Hc |- *. fold s in Hc |- *.
    (* the lookup: cur, and the facts that hold for it *)
    assert (LK : exists cur prios1 next1,
        (match prio_get s (ps_prios st) with
         | Some p => (p, ps_prios st, ps_next st)
         | None => (ps_next st, prio_set s (ps_next st) (ps_prios st), wrap_i32 (ps_next st - 1))
         end) = (cur, prios1, next1) /\
        prio_get s prios1 = Some cur /\ (next1 < cur <= det_prio_start)%Z /\
        (ps_next st - 1 <= next1 <= ps_next st)%Z /\
        (forall s' p, s' <> s -> prio_get s' prios1 = Some p -> (next1 < p <= det_prio_start)%Z) /\
        (forall s', prio_get s' prios1 = None <-> ~ In s' (seen_after seen s)) /\
        (forall x, In x T -> (cur <= t_prio x)%Z) /\
        (forall x, In x T -> (t_round x < ps_rnd st)%nat -> (cur < t_prio x)%Z)).
    { destruct (prio_get s (ps_prios st)) as [p|] eqn:EG.
      - exists p, (ps_prios st), (ps_next st). split; [reflexivity|].
        assert (Hin : In s seen).
        { destruct (in_dec N.eq_dec s seen) as [i|ni]; [exact i|]. apply Gdom in ni. congruence. }
        destruct seen as [|s0 rest]; [contradiction|].
        assert (s = s0) as -> by (destruct Hc as [e|ne]; [exact e|contradiction]).
        destruct (Glast s0 rest eq_refl) as [plast [E1 [E2 E3]]]. rewrite EG in E1. inversion E1; subst plast.
        split; [exact EG|]. split; [apply (Gpr _ _ EG)|]. split; [lia|]. split; [intros s' p' _ H; apply (Gpr _ _ H)|].
        split; [|split; assumption].
        intros s'. unfold seen_after. rewrite N.eqb_refl. apply Gdom.
      - exists (ps_next st), (prio_set s (ps_next st) (ps_prios st)), (wrap_i32 (ps_next st - 1)).
        split; [reflexivity|].
        rewrite wrap_i32_id by (unfold i32_min, i32_max; lia).
        assert (Hnin : ~ In s seen) by (apply Gdom; exact EG).
        split; [apply prio_get_set_same|]. split; [lia|]. split; [lia|].
        split; [intros s' p' Hne H; rewrite prio_get_set_other in H by exact Hne; pose proof (Gpr _ _ H); lia|].
        assert (SA : seen_after seen s = s :: seen).
        { unfold seen_after. destruct seen as [|s0 rest]; [reflexivity|].
          destruct (N.eqb_spec s0 s); [|reflexivity]. subst. exfalso. apply Hnin. left. reflexivity. }
        split.
        { intros s'. rewrite SA. destruct (N.eq_dec s' s) as [->|ne].
          - rewrite prio_get_set_same. split; [discriminate|]. intros H. exfalso. apply H. left. reflexivity.
          - rewrite prio_get_set_other by exact ne. rewrite Gdom. cbn [In]. split.
            + intros H [e|i]; [apply ne; symmetry; exact e|contradiction].
            + intros H i. apply H. right. exact i. }
        destruct seen as [|s0 rest].
        + rewrite (Gnil eq_refl). split; intros x [].
        + destruct (Glast s0 rest eq_refl) as [plast [E1 [E2 E3]]]. pose proof (Gpr _ _ E1).
          split; intros x Hx; [specialize (E2 x Hx)|intros _; specialize (E2 x Hx)]; lia. }
    destruct LK as [cur [prios1 [next1 [ELK [Hget [Hcur [Hn1 [Hoth [Hdom [Hle Hlt]]]]]]]]]].
    assert (HSA : exists rest', seen_after seen s = s :: rest').
    { unfold seen_after. destruct seen as [|s0 rest]; [exists []; reflexivity|].
      destruct (N.eqb_spec s0 s); [subst; exists rest; reflexivity|exists (s0 :: rest); reflexivity]. }
    destruct HSA as [rest' HSA].
    unfold push_one. cbn [fst snd]. fold s. rewrite ELK. cbn [fst snd]. rewrite R_tok, R_low. cbn [N.eqb andb].
    destruct (single && ((ps_count st + 1) mod pack =? 0)%N) eqn:ESync; cbn [fst snd].
    - (* pack boundary: n tokens with the old priority, then the contig with the decremented one *)
      rewrite (wrap_i32_id (cur - 1)) by (unfold i32_min, i32_max; lia).
      set (newp := (cur - 1)%Z).
      set (next2 := if (newp <=? next1)%Z then wrap_i32 (newp - 1) else next1).
      assert (Hn2 : (next1 - 1 <= next2 <= next1)%Z /\ (next2 < newp)%Z).
      { unfold next2. destruct (Z.leb_spec newp next1).
        - rewrite wrap_i32_id by (unfold i32_min, i32_max, newp; lia). unfold newp in *. lia.
        - lia. }
      set (tk := mk_task true key 0 cur 0 (ps_seq st) (ps_rnd st)).
      set (c := mk_task false key data newp len (ps_seq st) (S (ps_rnd st))).
      rewrite tasks_of_app, tasks_of_repeat_push. cbn [tasks_of].
      constructor; cbn [ps_prios ps_next ps_count ps_seq ps_rnd].
      + intros s'. rewrite <- Hdom. destruct (N.eq_dec s' s) as [->|ne].
        * rewrite prio_get_set_same, Hget. split; discriminate.
        * rewrite prio_get_set_other by exact ne. reflexivity.
      + rewrite N2Z.inj_add. lia.
      + lia.
      + intros s' p H. destruct (N.eq_dec s' s) as [->|ne].
        * rewrite prio_get_set_same in H. inversion H; subst p. unfold newp in *. lia.
        * rewrite prio_get_set_other in H by exact ne. pose proof (Hoth _ _ ne H). lia.
      + intros s0 rest E. rewrite HSA in E. inversion E; subst s0 rest. exists newp.
        split; [apply prio_get_set_same|]. split.
        * intros x Hx. apply in_app_or in Hx. destruct Hx as [Hx|Hx]; [specialize (Hle x Hx); unfold newp; lia|].
          apply in_app_or in Hx. destruct Hx as [Hx|[<-|[]]]; [apply in_repeat_eq in Hx; subst x; cbn; unfold newp; lia|cbn; lia].
        * intros x Hx Hr. apply in_app_or in Hx. destruct Hx as [Hx|Hx]; [specialize (Hle x Hx); unfold newp; lia|].
          apply in_app_or in Hx. destruct Hx as [Hx|[<-|[]]]; [apply in_repeat_eq in Hx; subst x; cbn; unfold newp; lia|cbn in Hr; lia].
      + rewrite HSA. discriminate.
      + apply ssorted_app_intro; [exact Gsort| |].
        * apply ssorted_app_intro.
          -- apply ssorted_repeat. right. split; [reflexivity|right; reflexivity].
          -- repeat constructor.
          -- intros x y Hx [<-|[]]. apply in_repeat_eq in Hx. subst x. left. cbn. lia.
        * intros x y Hx Hy. destruct (Gtop x Hx) as [_ Hxr].
          apply in_app_or in Hy. destruct Hy as [Hy|[<-|[]]].
          -- apply in_repeat_eq in Hy. subst y. unfold rk_le. cbn [t_round t_tok tk].
             destruct Hxr as [L|[L1 L2]]; [left; exact L|right; split; [exact L1|left; exact L2]].
          -- unfold rk_le. cbn [t_round t_tok c]. left. destruct Hxr as [L|[L1 L2]]; lia.
      + intros x Hx. apply in_app_or in Hx. destruct Hx as [Hx|Hx].
        * destruct (Gtop x Hx) as [H1 H2]. split; [exact H1|]. left. destruct H2 as [L|[L1 L2]]; lia.
        * apply in_app_or in Hx. destruct Hx as [Hx|[<-|[]]].
          -- apply in_repeat_eq in Hx. subst x. cbn. split; [exact Grnd|left; lia].
          -- cbn. split; [lia|right; split; reflexivity].
      + intros k. rewrite !cnt_app, cnt_repeat, Gtok. unfold cnt at 1. cbn [filter c is_tokk t_tok andb length].
        unfold is_tokk at 1. cbn [tk t_tok t_round andb].
        destruct (Nat.eqb (ps_rnd st) k) eqn:EK.
        * apply Nat.eqb_eq in EK. subst k.
          assert (Nat.leb r0 (ps_rnd st) = true) as -> by (apply Nat.leb_le; exact Grnd).
          rewrite Nat.ltb_irrefl. assert (Nat.ltb (ps_rnd st) (S (ps_rnd st)) = true) as -> by (apply Nat.ltb_lt; lia).
          cbn [andb]. lia.
        * apply Nat.eqb_neq in EK. destruct (Nat.leb r0 k); cbn [andb]; [|lia].
          destruct (Nat.ltb_spec k (ps_rnd st)); destruct (Nat.ltb_spec k (S (ps_rnd st))); lia.
      + intros x Hx. apply in_app_or in Hx. destruct Hx as [Hx|Hx]; [specialize (Gseq x Hx); lia|].
        apply in_app_or in Hx. destruct Hx as [Hx|[<-|[]]]; [apply in_repeat_eq in Hx; subst x|]; cbn; lia.
      + apply ssorted_app_intro; [exact Gsep| |].
        * apply ssorted_app_intro.
          -- apply ssorted_repeat. intros H. lia.
          -- repeat constructor.
          -- intros x y Hx [<-|[]]. apply in_repeat_eq in Hx. subst x. intros _. apply task_cmp_lt_prio. cbn. unfold newp. lia.
        * intros x y Hx Hy Hr. apply in_app_or in Hy. destruct Hy as [Hy|[<-|[]]].
          -- apply in_repeat_eq in Hy. subst y. cbn [t_round tk] in Hr. apply task_cmp_lt_prio. cbn [t_prio tk].
             apply Hlt; assumption.
          -- apply task_cmp_lt_prio. cbn [t_prio c]. specialize (Hle x Hx). unfold newp. lia.
      + intros x y Hx Hy Hr Hxc Hyt.
        apply in_app_or in Hx. apply in_app_or in Hy.
        destruct Hy as [Hy|Hy].
        * destruct Hx as [Hx|Hx]; [apply Gbef; assumption|exfalso].
          destruct (Gtop y Hy) as [_ Hyr].
          apply in_app_or in Hx. destruct Hx as [Hx|[<-|[]]].
          -- apply in_repeat_eq in Hx. subst x. cbn in Hxc. discriminate.
          -- cbn [t_round c] in Hr. destruct Hyr as [L|[L1 L2]]; lia.
        * apply in_app_or in Hy. destruct Hy as [Hy|[<-|[]]]; [|cbn in Hyt; discriminate].
          apply in_repeat_eq in Hy. subst y.
          destruct Hx as [Hx|Hx].
          -- apply task_cmp_lt_tok; cbn [t_prio t_cost t_seq tk]; [apply Hle; exact Hx|reflexivity|apply Gseq; exact Hx].
          -- exfalso. apply in_app_or in Hx. destruct Hx as [Hx|[<-|[]]].
             ++ apply in_repeat_eq in Hx. subst x. cbn in Hxc. discriminate.
             ++ cbn in Hr. lia.
      + lia.
    - (* an ordinary contig *)
      set (c := mk_task false key data cur len (ps_seq st) (ps_rnd st)). cbn [tasks_of].
      constructor; cbn [ps_prios ps_next ps_count ps_seq ps_rnd].
      + exact Hdom.
      + rewrite N2Z.inj_add. lia.
      + lia.
      + intros s' p H. destruct (N.eq_dec s' s) as [->|ne].
        * rewrite Hget in H. inversion H; subst p. lia.
        * apply (Hoth _ _ ne H).
      + intros s0 rest E. rewrite HSA in E. inversion E; subst s0 rest. exists cur.
        split; [exact Hget|]. split.
        * intros x Hx. apply in_app_or in Hx. destruct Hx as [Hx|[<-|[]]]; [apply Hle; exact Hx|cbn; lia].
        * intros x Hx Hr. apply in_app_or in Hx. destruct Hx as [Hx|[<-|[]]]; [apply Hlt; assumption|cbn in Hr; lia].
      + rewrite HSA. discriminate.
      + apply ssorted_app_intro; [exact Gsort|repeat constructor|].
        intros x y Hx [<-|[]]. destruct (Gtop x Hx) as [_ Hxr]. unfold rk_le. cbn [t_round t_tok c].
        destruct Hxr as [L|[L1 L2]]; [left; exact L|right; split; [exact L1|left; exact L2]].
      + intros x Hx. apply in_app_or in Hx. destruct Hx as [Hx|[<-|[]]]; [apply Gtop; exact Hx|].
        cbn. split; [exact Grnd|right; split; reflexivity].
      + intros k. rewrite cnt_app, Gtok. unfold cnt at 1. cbn [filter c is_tokk t_tok andb length]. lia.
      + intros x Hx. apply in_app_or in Hx. destruct Hx as [Hx|[<-|[]]]; [specialize (Gseq x Hx); lia|cbn; lia].
      + apply ssorted_app_intro; [exact Gsep|repeat constructor|].
        intros x y Hx [<-|[]] Hr. cbn [t_round c] in Hr. apply task_cmp_lt_prio. cbn [t_prio c]. apply Hlt; assumption.
      + intros x y Hx Hy Hr Hxc Hyt. apply in_app_or in Hx. apply in_app_or in Hy.
        destruct Hy as [Hy|[<-|[]]]; [|cbn in Hyt; discriminate].
        destruct Hx as [Hx|[<-|[]]]; [apply Gbef; assumption|exfalso].
        destruct (Gtop y Hy) as [_ [L|[L1 L2]]]; [cbn in Hr; lia|congruence].
      + exact Grnd.
  Qed.

  Lemma push_one_count : forall st inp, ps_count (fst (push_one R single pack n st inp)) = (ps_count st + 1)%N.
  Proof.
    intros st inp. unfold push_one.
    destruct (single && ((ps_count st + 1) mod pack =? 0)%N); reflexivity.
  Qed.

  Fixpoint seen_all (seen : list N) (l : list input) : list N :=
    match l with [] => seen | inp :: l' => seen_all (seen_after seen (sample_of inp)) l' end.

  Lemma ginv_push_all : forall l r0 seen st T,
    GInv r0 seen st T -> contiguous seen l ->
    (2 * (Z.of_N (ps_count st) + Z.of_nat (length l)) + 4 < det_prio_start - i32_min)%Z ->
    GInv r0 (seen_all seen l) (fst (push_all R single pack n st l)) (T ++ tasks_of (snd (push_all R single pack n st l)))
    /\ ps_count (fst (push_all R single pack n st l)) = (ps_count st + N.of_nat (length l))%N.
  Proof.
    induction l as [|inp l IH]; intros r0 seen st T I Hc Hb.
    - cbn [push_all fst snd tasks_of seen_all length]. rewrite app_nil_r. split; [exact I|]. cbn. lia.
    - cbn [push_all fst snd seen_all]. cbn [contiguous] in Hc. destruct Hc as [Hc1 Hc2]. cbn [length] in Hb.
      pose proof (ginv_push_one r0 seen st T inp I Hc1) as I1.
      assert (Hb1 : (2 * Z.of_N (ps_count st) + 4 < det_prio_start - i32_min)%Z) by lia.
      specialize (I1 Hb1).
      destruct (IH r0 _ _ _ I1 Hc2) as [I2 C2].
      { rewrite push_one_count. rewrite N2Z.inj_add. lia. }
      rewrite tasks_of_app, app_assoc. split; [exact I2|].
      rewrite C2, push_one_count. cbn [length]. lia.
  Qed.
End Gen.

Lemma ginv_init : forall n, GInv n 0 [] pstate0 [].
Proof.
  intros n. constructor; cbn [pstate0 ps_prios ps_next ps_count ps_seq ps_rnd prio_get]; try lia.
  - intros s. split; [intros _ []|reflexivity].
  - intros s p H. discriminate.
  - intros s0 rest H. discriminate.
  - reflexivity.
  - constructor.
  - intros x [].
  - intros k. destruct (Nat.leb 0 k); reflexivity.
  - intros x [].
  - constructor.
  - intros x y [].
Qed.
