(* GroupStore_base.v - list and part-level lemmas for the group store / segment reader proofs *)
From Coq Require Import Lia ZifyBool ZifyN ZifyNat Permutation.
From Ragc Require Import Mach Consts_groupstore SegReader GroupStore.
Open Scope N_scope.
Arguments N.add : simpl never.
Arguments N.sub : simpl never.
Arguments N.mul : simpl never.
Arguments N.div : simpl never.
Arguments N.modulo : simpl never.
Arguments N.max : simpl never.
Arguments N.of_nat : simpl never.
Arguments N.to_nat : simpl never.

Definition nosep (e : list N) : Prop := ~ In CONTIG_SEPARATOR e.
Definition flat (c : list (list N)) : list N := flat_map (fun d => d ++ [CONTIG_SEPARATOR]) c.

(* ---- constants as numbers (each by computation on the generated file) *)
Lemma w_pack_50 : W_PACK_CARDINALITY = 50. Proof. reflexivity. Qed.
Lemma w_raw_16 : W_NO_RAW_GROUPS = 16. Proof. reflexivity. Qed.
Lemma r_pack_50 : R_PACK_CARDINALITY = 50. Proof. reflexivity. Qed.
Lemma r_raw_16 : R_NO_RAW_GROUPS = 16. Proof. reflexivity. Qed.
Lemma w_first_raw_49 : W_PACK_CARDINALITY - W_FIRST_RAW_PACK_MINUS = 49. Proof. reflexivity. Qed.
Lemma w_first_id_1 : W_FIRST_ID = 1. Proof. reflexivity. Qed.
Lemma r_off_1 : R_DELTA_ID_OFFSET = 1. Proof. reflexivity. Qed.
Lemma r_ref_part_0 : R_REF_PART = 0. Proof. reflexivity. Qed.
Lemma ph_sites_agree : W_PLACEHOLDER_FINALIZE = W_PLACEHOLDER_STEP. Proof. reflexivity. Qed.
Lemma ph_sites_agree2 : W_PLACEHOLDER_FLUSH_PACK = W_PLACEHOLDER_STEP. Proof. reflexivity. Qed.
Lemma marker_sites_agree : W_PACK_MARKER_FINALIZE = W_PACK_MARKER_STEP. Proof. reflexivity. Qed.
Lemma ph_not_sep : W_PLACEHOLDER_STEP <> CONTIG_SEPARATOR. Proof. discriminate. Qed.
Lemma packed_consts : R_PACKED_MUL_LO = 4 /\ R_PACKED_MUL_HI = 4 /\ R_PACKED_SLACK = 8. Proof. repeat split. Qed.

(* ---- small list facts *)
Lemma lenN_app {A} (a b : list A) : lenN (a ++ b) = lenN a + lenN b.
Proof. unfold lenN. rewrite app_length. lia. Qed.
Lemma lenN_cons {A} (x : A) (l : list A) : lenN (x :: l) = 1 + lenN l.
Proof. unfold lenN. cbn [length]. lia. Qed.
Lemma lenN_nil {A} : lenN (@nil A) = 0. Proof. reflexivity. Qed.
Lemma is_nil_true {A} (l : list A) : is_nil l = true <-> l = [].
Proof. destruct l; cbn; split; intro H; try reflexivity; discriminate. Qed.
Lemma is_nil_false {A} (l : list A) : is_nil l = false <-> l <> [].
Proof. destruct l; cbn; split; intro H; try reflexivity; try discriminate; try congruence. Qed.

Lemma list_eqb_N_spec : forall a b : list N, list_eqb N.eqb a b = true <-> a = b.
Proof.
  induction a as [|x a IH]; destruct b as [|y b]; cbn; split; intro H; try reflexivity; try discriminate.
  - apply andb_true_iff in H. destruct H as [H1 H2]. apply N.eqb_eq in H1. apply IH in H2. congruence.
  - inversion H; subst. apply andb_true_iff. split; [apply N.eqb_refl | apply IH; reflexivity].
Qed.

Lemma position_some : forall x l i j, position x l i = Some j ->
  exists k, j = i + N.of_nat k /\ nth_error l k = Some x.
Proof.
  induction l as [|y l IH]; intros i j H; cbn in H; [discriminate|].
  destruct (list_eqb N.eqb y x) eqn:E.
  - inversion H; subst. exists O. split; [lia|]. apply list_eqb_N_spec in E. subst. reflexivity.
  - apply IH in H. destruct H as [k [Hj Hk]]. exists (S k). split; [lia|exact Hk].
Qed.

(* ---- unpack_contig on a concatenation of separator-terminated entries *)
Lemma unpack_aux_entry : forall e rest pos cur acc, nosep e ->
  unpack_contig_aux (e ++ CONTIG_SEPARATOR :: rest) pos cur acc =
  if cur =? pos then Ok (rev acc ++ e) else unpack_contig_aux rest pos (cur + 1) [].
Proof.
  induction e as [|b e IH]; intros rest pos cur acc Hn.
  - cbn [app unpack_contig_aux]. rewrite N.eqb_refl. rewrite app_nil_r. reflexivity.
  - cbn [app unpack_contig_aux].
    assert (Hb : (b =? CONTIG_SEPARATOR) = false).
    { apply N.eqb_neq. intro Hc. apply Hn. left. exact Hc. }
    rewrite Hb. rewrite IH.
    + cbn [rev]. rewrite <- app_assoc. reflexivity.
    + intro Hc. apply Hn. right. exact Hc.
Qed.

Lemma unpack_flat_aux : forall c k e cur tl, Forall nosep c -> nth_error c k = Some e ->
  unpack_contig_aux (flat c ++ tl) (cur + N.of_nat k) cur [] = Ok e.
Proof.
  induction c as [|e0 c IH]; intros k e cur tl Hf Hk; [destruct k; discriminate|].
  inversion Hf as [|? ? Hn0 Hf']; subst.
  unfold flat. cbn [flat_map]. rewrite <- !app_assoc. cbn [app].
  rewrite unpack_aux_entry by exact Hn0.
  destruct k as [|k].
  - cbn in Hk. inversion Hk; subst. replace (cur + N.of_nat 0) with cur by lia.
    rewrite N.eqb_refl. reflexivity.
  - cbn in Hk. replace (cur =? cur + N.of_nat (S k)) with false by (symmetry; apply N.eqb_neq; lia).
    replace (cur + N.of_nat (S k)) with ((cur + 1) + N.of_nat k) by lia.
    apply (IH k e (cur + 1) tl Hf' Hk).
Qed.

Lemma unpack_flat : forall c k e, Forall nosep c -> nth_error c k = Some e ->
  unpack_contig (flat c) (N.of_nat k) = Ok e.
Proof.
  intros c k e Hf Hk. unfold unpack_contig.
  pose proof (unpack_flat_aux c k e 0 [] Hf Hk) as H. rewrite app_nil_r in H.
  replace (0 + N.of_nat k) with (N.of_nat k) in H by lia. exact H.
Qed.

Lemma pack_bytes_flat : forall flag ph deltas,
  pack_bytes flag ph deltas = flat ((if flag then [[ph]] else []) ++ deltas).
Proof.
  intros flag ph deltas. unfold pack_bytes, flat. rewrite flat_map_app. destruct flag; reflexivity.
Qed.

Lemma flat_nonempty : forall c, c <> [] -> flat c <> [].
Proof.
  intros [|e c] H; [congruence|]. unfold flat. cbn [flat_map]. intro Hc.
  apply app_eq_nil in Hc. destruct Hc as [Hc _]. apply app_eq_nil in Hc. destruct Hc as [_ Hc]. discriminate.
Qed.

(* ---- fixed-size chunks *)
Lemma chunk_lookup : forall (n : nat) (packs : list (list (list N))) (lastc : list (list N)) (k : nat) e,
  (0 < n)%nat -> Forall (fun c => length c = n) packs -> (length lastc <= n)%nat ->
  nth_error (concat packs ++ lastc) k = Some e ->
  exists c, nth_error (packs ++ [lastc]) (k / n) = Some c /\ nth_error c (k mod n) = Some e.
Proof.
  intros n packs. induction packs as [|c ps IH]; intros lastc k e Hn Hf Hl Hk.
  - cbn [concat app] in *. assert (Hlt : (k < length lastc)%nat) by (apply nth_error_Some; congruence).
    rewrite Nat.div_small by lia. rewrite Nat.mod_small by lia. exists lastc. split; [reflexivity|exact Hk].
  - inversion Hf as [|? ? Hc Hf']; subst. cbn [concat] in Hk. rewrite <- app_assoc in Hk.
    destruct (Nat.ltb k (length c)) eqn:E.
    + apply Nat.ltb_lt in E. rewrite nth_error_app1 in Hk by exact E.
      rewrite Nat.div_small by lia. rewrite Nat.mod_small by lia. exists c. split; [reflexivity|exact Hk].
    + apply Nat.ltb_ge in E. rewrite nth_error_app2 in Hk by exact E.
      destruct (IH lastc (k - length c)%nat e Hn Hf' Hl Hk) as [c' [H1 H2]].
      assert (Hd : (k / length c = S ((k - length c) / length c))%nat).
      { replace k with ((k - length c) + 1 * length c)%nat at 1 by lia. rewrite Nat.div_add by lia. lia. }
      assert (Hm : (k mod length c = (k - length c) mod length c)%nat).
      { replace k with ((k - length c) + 1 * length c)%nat at 1 by lia. rewrite Nat.mod_add by lia. reflexivity. }
      rewrite Hd, Hm. exists c'. split; [exact H1|exact H2].
Qed.

Lemma chunk_lookup_closed : forall (n : nat) (packs : list (list (list N))) (k : nat) e,
  (0 < n)%nat -> Forall (fun c => length c = n) packs ->
  nth_error (concat packs) k = Some e ->
  exists c, nth_error packs (k / n) = Some c /\ nth_error c (k mod n) = Some e.
Proof.
  intros n packs k e Hn Hf Hk.
  assert (Hk' : nth_error (concat packs ++ []) k = Some e) by (rewrite app_nil_r; exact Hk).
  destruct (chunk_lookup n packs [] k e Hn Hf ltac:(cbn; lia) Hk') as [c [H1 H2]].
  exists c. split; [|exact H2].
  destruct (Nat.ltb (k / n) (length packs)) eqn:E.
  - apply Nat.ltb_lt in E. rewrite nth_error_app1 in H1 by exact E. exact H1.
  - apply Nat.ltb_ge in E. rewrite nth_error_app2 in H1 by exact E.
    destruct (k / n - length packs)%nat as [|m]; cbn in H1.
    + inversion H1; subst. destruct (k mod n)%nat; discriminate.
    + destruct m; discriminate.
Qed.

(* ---- sorting is a permutation *)
Lemma insert_seg_perm : forall x l, Permutation (insert_seg x l) (x :: l).
Proof.
  induction l as [|y l IH]; cbn; [apply Permutation_refl|].
  destruct (seg_ltb x y); [apply Permutation_refl|].
  eapply Permutation_trans; [apply perm_skip; exact IH|apply perm_swap].
Qed.

Lemma sort_segs_perm : forall l, Permutation (sort_segs l) l.
Proof.
  intro l. unfold sort_segs.
  assert (H : forall l acc, Permutation (fold_left (fun a x => insert_seg x a) l acc) (acc ++ l)).
  { induction l0 as [|x l0 IH]; intro acc; cbn [fold_left].
    - rewrite app_nil_r. apply Permutation_refl.
    - eapply Permutation_trans; [apply IH|].
      eapply Permutation_trans; [apply Permutation_app_tail; apply insert_seg_perm|].
      cbn [app]. apply Permutation_middle. }
  apply (H l []).
Qed.

(* ---- part level *)
Section PartLevel.
  Variable dwm : list N -> N -> outcome (list N).

  Lemma load_store_part : forall c m raw,
    dwm c m = Ok raw -> load_part dwm (store_part (c ++ [m]) raw) = Ok raw.
  Proof.
    intros c m raw H. unfold store_part.
    destruct (lenN (c ++ [m]) <? lenN raw) eqn:E.
    - apply N.ltb_lt in E. cbn [load_part].
      replace (lenN raw =? 0) with false by (symmetry; apply N.eqb_neq; lia).
      destruct (c ++ [m]) eqn:Ecm; [destruct c; discriminate|].
      rewrite <- Ecm. rewrite removelast_last, last_last. exact H.
    - cbn [load_part]. rewrite N.eqb_refl. reflexivity.
  Qed.

End PartLevel.

  (* metadata 0 <=> stored raw, otherwise metadata = unpacked size (and that is not 0) *)
  Lemma store_part_meta : forall cm raw,
    (fst (store_part cm raw) = 0 /\ snd (store_part cm raw) = raw /\ lenN raw <= lenN cm) \/
    (fst (store_part cm raw) = lenN raw /\ lenN raw <> 0 /\ snd (store_part cm raw) = cm /\ lenN cm < lenN raw).
  Proof.
    intros cm raw. unfold store_part. destruct (lenN cm <? lenN raw) eqn:E.
    - apply N.ltb_lt in E. right. cbn. repeat split; lia.
    - apply N.ltb_ge in E. left. cbn. repeat split; lia.
  Qed.
