(* ReaderGrand_cat.v - C08G, catalogue half: Collection.load_all (the stateful loader with the cursor samples_loaded,
   C03) on the three collection streams of a file succeeds  ==>  every batch of ReaderGrand.file_batches decodes, the
   batches hold at most as many samples as the sample table, and ReaderState.catalogue of the abstract archive is the
   table load_all built. *)
From Coq Require Import Lia ZifyBool ZifyN ZifyNat.
From Ragc Require Import Mach Consts_collection CVarint Zigzag Names Details Collection SegReader ReaderGrand.
From Ragc Require ReaderState.
Open Scope N_scope.
Arguments N.add : simpl never.
Arguments N.sub : simpl never.
Arguments N.mul : simpl never.
Arguments N.min : simpl never.
Arguments N.leb : simpl never.
Arguments N.of_nat : simpl never.
Arguments N.to_nat : simpl never.

Lemma obnd_ok_inv : forall {A B} (o : outcome A) (f : A -> outcome B) y,
  obnd o f = Ok y -> exists x, o = Ok x /\ f x = Ok y.
Proof. intros A B [x| |] f y H; cbn [obnd] in H; try discriminate. exists x. auto. Qed.

(* ------------------------------------------------------------------ every decoder iteration consumes input *)
Lemma cv_decode_shorter : forall ptr v r, cv_decode ptr = Ok (v, r) -> (length r < length ptr)%nat.
Proof.
  intros ptr v r. unfold cv_decode. destruct ptr as [|p0 t]; [discriminate|].
  destruct (N.land p0 cv_mask_1 =? cv_pref_1). { intro H. inversion H; subst. cbn [tl length]. lia. }
  destruct (N.land p0 cv_mask_2 =? cv_pref_2).
  { destruct t as [|p1 t]; [discriminate|]. intro H. inversion H; subst. cbn [length]. lia. }
  destruct (N.land p0 cv_mask_3 =? cv_pref_3).
  { destruct t as [|p1 [|p2 t]]; try discriminate. intro H. inversion H; subst. cbn [length]. lia. }
  destruct (N.land p0 cv_mask_4 =? cv_pref_4).
  { destruct t as [|p1 [|p2 [|p3 t]]]; try discriminate. intro H. inversion H; subst. cbn [length]. lia. }
  destruct t as [|p1 [|p2 [|p3 [|p4 t]]]]; try discriminate.
  match goal with |- context [add_u32 ?x ?y] => destruct (add_u32 x y) end; [|discriminate].
  intro H. inversion H; subst. cbn [length]. lia.
Qed.

Lemma dec_cbytes_shorter : forall ptr e r, dec_cbytes ptr = Ok (e, r) -> (length r < length ptr)%nat.
Proof.
  induction ptr as [|b ptr IH]; intros e r; cbn [dec_cbytes]; [discriminate|].
  destruct (b =? 0). { intro H. inversion H; subst. cbn [length]. lia. }
  destruct (dec_cbytes ptr) as [[e' r']| |] eqn:E; cbn [obnd]; try discriminate.
  intro H. inversion H; subst. cbn [snd length]. specialize (IH _ _ eq_refl). lia.
Qed.

Lemma dec_contigs_shorter : forall n prev ptr x r, dec_contigs n prev ptr = Ok (x, r) -> (length r <= length ptr)%nat.
Proof.
  induction n as [|n IH]; intros prev ptr x r H; cbn [dec_contigs] in H.
  - inversion H; subst. lia.
  - apply obnd_ok_inv in H. destruct H as ([enc r1] & E1 & H). cbn [fst snd] in H.
    apply obnd_ok_inv in H. destruct H as (nc & _ & H).
    apply obnd_ok_inv in H. destruct H as ([x' r'] & E3 & H). cbn [fst snd] in H. inversion H; subst.
    apply IH in E3. apply dec_cbytes_shorter in E1. lia.
Qed.

Lemma dec_samples_spec : forall k avail ptr t r, dec_samples k avail ptr = Ok (t, r) ->
  length t = k /\ N.of_nat k <= avail /\ (k + length r <= length ptr)%nat.
Proof.
  induction k as [|k IH]; intros avail ptr t r H; cbn [dec_samples] in H.
  - inversion H; subst. cbn [length]. lia.
  - apply obnd_ok_inv in H. destruct H as ([c r1] & E1 & H). cbn [fst snd] in H.
    destruct (avail =? 0) eqn:Ea; [discriminate|]. apply N.eqb_neq in Ea.
    apply obnd_ok_inv in H. destruct H as ([x r2] & E2 & H). cbn [fst snd] in H.
    apply obnd_ok_inv in H. destruct H as ([t' r'] & E3 & H). cbn [fst snd] in H. inversion H; subst.
    apply IH in E3. destruct E3 as (Hl & Ha & Hc). apply cv_decode_shorter in E1. apply dec_contigs_shorter in E2.
    cbn [length]. lia.
Qed.

Lemma dec_samples_avail : forall k avail avail' ptr tr,
  dec_samples k avail ptr = Ok tr -> N.of_nat k <= avail' -> dec_samples k avail' ptr = Ok tr.
Proof.
  induction k as [|k IH]; intros avail avail' ptr tr H Hle; cbn [dec_samples] in *; [exact H|].
  destruct (cv_decode ptr) as [nr| |]; cbn [obnd] in *; try discriminate.
  destruct (avail =? 0); [discriminate|].
  replace (avail' =? 0) with false by (symmetry; apply N.eqb_neq; lia).
  destruct (dec_contigs (clamp (fst nr) (snd nr)) [] (snd nr)) as [cr| |]; cbn [obnd] in *; try discriminate.
  destruct (dec_samples k (avail - 1) (snd cr)) as [rr| |] eqn:E; cbn [obnd] in *; try discriminate.
  rewrite (IH _ (avail' - 1) _ _ E) by lia. exact H.
Qed.

(* the count field is the number of decoded rows, the rows fit the availability bound, and any bound above the
   iteration count gives the same result *)
Lemma deser_names_spec : forall avail data cnt nt, deser_names avail data = Ok (cnt, nt) ->
  cnt = lenN nt /\ lenN nt <= avail /\ deser_names (lenN data + 2) data = Ok (cnt, nt).
Proof.
  intros avail data cnt nt H. unfold deser_names in *.
  apply obnd_ok_inv in H. destruct H as ([c r] & E1 & H). cbn [fst snd] in H.
  apply obnd_ok_inv in H. destruct H as ([t r2] & E2 & H). cbn [fst snd] in H. inversion H; subst c t. clear H.
  rewrite E1. cbn [obnd fst snd].
  destruct (dec_samples_spec _ _ _ _ _ E2) as (Hl & Ha & Hc). pose proof (cv_decode_shorter _ _ _ E1) as Hs.
  unfold clamp, lenN in *.
  split; [lia|]. split; [lia|].
  rewrite (dec_samples_avail _ _ (N.of_nat (length data) + 2) _ _ E2) by lia. reflexivity.
Qed.

(* ------------------------------------------------------------------ set_nth *)
Lemma set_nth_length : forall {A} (l : list A) i x, length (set_nth l i x) = length l.
Proof. induction l as [|a l IH]; intros [|i] x; cbn [set_nth length]; auto. Qed.
Lemma nth_error_set_nth_eq : forall {A} (l : list A) i x, (i < length l)%nat -> nth_error (set_nth l i x) i = Some x.
Proof.
  induction l as [|a l IH]; intros [|i] x H; cbn [length] in H; try lia; cbn [set_nth nth_error]; [reflexivity|].
  apply IH. lia.
Qed.
Lemma nth_error_set_nth_ne : forall {A} (l : list A) i j x, i <> j -> nth_error (set_nth l i x) j = nth_error l j.
Proof.
  induction l as [|a l IH]; intros [|i] [|j] x H; cbn [set_nth nth_error]; try reflexivity; try congruence.
  apply IH. congruence.
Qed.
Lemma set_nth_twice : forall {A} (l : list A) i x y, set_nth (set_nth l i x) i y = set_nth l i y.
Proof. induction l as [|a l IH]; intros [|i] x y; cbn [set_nth]; try reflexivity. rewrite IH. reflexivity. Qed.
Lemma set_nth_comm : forall {A} (l : list A) i j x y, i <> j ->
  set_nth (set_nth l i x) j y = set_nth (set_nth l j y) i x.
Proof.
  induction l as [|a l IH]; intros [|i] [|j] x y H; cbn [set_nth]; try reflexivity; try congruence.
  rewrite IH by congruence. reflexivity.
Qed.
Lemma set_nth_same : forall {A} (l : list A) i x, nth_error l i = Some x -> set_nth l i x = l.
Proof.
  induction l as [|a l IH]; intros [|i] x H; cbn [nth_error] in H; try discriminate; cbn [set_nth].
  - inversion H. reflexivity.
  - rewrite IH by exact H. reflexivity.
Qed.
Lemma map_set_nth : forall {A B} (f : A -> B) (l : list A) i x, map f (set_nth l i x) = set_nth (map f l) i (f x).
Proof. induction l as [|a l IH]; intros [|i] x; cbn [set_nth map]; try reflexivity. rewrite IH. reflexivity. Qed.
Lemma set_nth_firstn_S : forall {A} (l : list A) i x, (i < length l)%nat ->
  firstn (S i) (set_nth l i x) = firstn i l ++ [x].
Proof.
  induction l as [|a l IH]; intros [|i] x H; cbn [length] in H; try lia.
  - reflexivity.
  - cbn [set_nth]. change (firstn (S (S i)) (a :: set_nth l i x)) with (a :: firstn (S i) (set_nth l i x)).
    rewrite IH by lia. reflexivity.
Qed.
Lemma set_nth_skipn_gt : forall {A} (l : list A) i j x, (i < j)%nat -> skipn j (set_nth l i x) = skipn j l.
Proof.
  induction l as [|a l IH]; intros [|i] [|j] x H; try lia; cbn [set_nth skipn]; try reflexivity.
  apply IH. lia.
Qed.

Lemma nth_error_repeat : forall {A} (x y : A) n j, nth_error (repeat x n) j = Some y -> y = x.
Proof. intros A x y n j H. apply nth_error_In in H. apply repeat_spec in H. exact H. Qed.
Lemma skipn_repeat : forall {A} (x : A) n m, skipn m (repeat x n) = repeat x (n - m).
Proof.
  induction n as [|n IH]; intros [|m]; cbn [repeat skipn Nat.sub]; try reflexivity. apply IH.
Qed.
Lemma map_repeat : forall {A B} (f : A -> B) x n, map f (repeat x n) = repeat (f x) n.
Proof. induction n as [|n IH]; cbn [repeat map]; [reflexivity|]. rewrite IH. reflexivity. Qed.
Lemma map_const_repeat : forall {A B} (l : list A) (x : B), map (fun _ => x) l = repeat x (length l).
Proof. induction l as [|a l IH]; intros x; cbn [map length repeat]; [reflexivity|]. rewrite IH. reflexivity. Qed.

(* ------------------------------------------------------------------ put_names / put_segs *)
Lemma put_names_nth_lt : forall nt ss j i, (i < j)%nat -> nth_error (put_names ss j nt) i = nth_error ss i.
Proof.
  induction nt as [|ns nt IH]; intros ss j i H; cbn [put_names]; [reflexivity|].
  destruct (nth_error ss j) eqn:E; [|reflexivity]. rewrite IH by lia. apply nth_error_set_nth_ne. lia.
Qed.

Lemma put_names_set_comm : forall nt ss j i y, (i < j)%nat ->
  set_nth (put_names ss j nt) i y = put_names (set_nth ss i y) j nt.
Proof.
  induction nt as [|ns nt IH]; intros ss j i y H; cbn [put_names]; [reflexivity|].
  rewrite nth_error_set_nth_ne by lia. destruct (nth_error ss j) eqn:E; [|reflexivity].
  rewrite IH by lia. f_equal. apply set_nth_comm. lia.
Qed.

Definition fresh_from (ss : list sample) (i : nat) : Prop :=
  forall j s, (i <= j)%nat -> nth_error ss j = Some s -> scontigs s = [].

Lemma put_segs_fresh : forall dt ss i ss', fresh_from ss i -> put_segs ss i dt = Some ss' ->
  forallb (fun r : list (list seg) => is_nil r) dt = true /\ ss' = ss.
Proof.
  induction dt as [|d dt IH]; intros ss i ss' Hf H; cbn [put_segs] in H.
  - inversion H. auto.
  - destruct (nth_error ss i) as [s|] eqn:E; [|discriminate].
    pose proof (Hf i s (le_n _) E) as Hs. rewrite Hs in H.
    destruct d as [|x d]; cbn [put_contig_segs] in H; [|discriminate].
    assert (Es : set_nth ss i (mkSample (sname s) []) = ss).
    { apply set_nth_same. rewrite E. destruct s as [n cs]. cbn [scontigs] in Hs. subst cs. reflexivity. }
    rewrite Es in H. apply IH in H.
    + destruct H as [H1 H2]. cbn [forallb is_nil andb]. auto.
    + intros j s' Hj. apply Hf. lia.
Qed.

Lemma put_both_step : forall (ss : list sample) i s y B' n ss',
  nth_error ss i = Some s -> sname y = sname s ->
  map sname ss' = map sname (set_nth ss i y) ->
  map scontigs ss' = firstn (S i) (map scontigs (set_nth ss i y)) ++ B'
                     ++ skipn (S i + n) (map scontigs (set_nth ss i y)) ->
  map sname ss' = map sname ss /\
  map scontigs ss' = firstn i (map scontigs ss) ++ (scontigs y :: B') ++ skipn (i + S n) (map scontigs ss).
Proof.
  intros ss i s y B' n ss' Es Hy Hn Hc.
  assert (Hi : (i < length ss)%nat) by (apply nth_error_Some; rewrite Es; discriminate).
  split.
  - rewrite Hn, map_set_nth, Hy. apply set_nth_same. rewrite nth_error_map, Es. reflexivity.
  - rewrite Hc, map_set_nth. rewrite set_nth_firstn_S by (rewrite map_length; exact Hi).
    rewrite set_nth_skipn_gt by lia. rewrite <- app_assoc. cbn [app].
    replace (i + S n)%nat with (S i + n)%nat by lia. reflexivity.
Qed.

Lemma put_both : forall nt dt ss i ss',
  (i + length nt <= length ss)%nat -> fresh_from ss (i + length nt) ->
  put_segs (put_names ss i nt) i dt = Some ss' ->
  exists B, zip_samples nt dt = Some B /\ length B = length nt /\
    map sname ss' = map sname ss /\
    map scontigs ss' = firstn i (map scontigs ss) ++ B ++ skipn (i + length nt) (map scontigs ss).
Proof.
  induction nt as [|ns nt IH]; intros dt ss i ss' Hlen Hfr H.
  - cbn [put_names length] in *. rewrite Nat.add_0_r in *.
    destruct (put_segs_fresh _ _ _ _ Hfr H) as [Hn ->]. exists []. cbn [zip_samples]. rewrite Hn.
    split; [reflexivity|]. split; [reflexivity|]. split; [reflexivity|]. cbn [app]. symmetry. apply firstn_skipn.
  - cbn [length] in *. cbn [put_names] in H.
    destruct (nth_error ss i) as [s|] eqn:Es; [|apply nth_error_None in Es; lia].
    assert (Hfr' : forall y, fresh_from (set_nth ss i y) (S i + length nt)).
    { intros y j s' Hj Hs'. rewrite nth_error_set_nth_ne in Hs' by lia. apply (Hfr j s'); [lia|exact Hs']. }
    destruct dt as [|d dt].
    + cbn [put_segs] in H. inversion H; subst ss'; clear H.
      set (row := mkSample (sname s) (map (fun n => mkContig n []) ns)).
      destruct (IH [] (set_nth ss i row) (S i) (put_names (set_nth ss i row) (S i) nt)) as (B' & Hz & Hl & Hn & Hc).
      * rewrite set_nth_length. lia.
      * apply Hfr'.
      * reflexivity.
      * exists (scontigs row :: B'). cbn [zip_samples]. rewrite Hz. split; [reflexivity|].
        split; [cbn [length]; lia|]. apply (put_both_step ss i s row B' (length nt) _ Es eq_refl Hn Hc).
    + cbn [put_segs] in H. rewrite put_names_nth_lt in H by lia.
      rewrite nth_error_set_nth_eq in H by lia. cbn [scontigs sname] in H.
      destruct (put_contig_segs (map (fun n => mkContig n []) ns) d) as [cs|] eqn:Ec; [|discriminate].
      rewrite put_names_set_comm in H by lia. rewrite set_nth_twice in H.
      set (row := mkSample (sname s) cs) in *.
      destruct (IH dt (set_nth ss i row) (S i) ss') as (B' & Hz & Hl & Hn & Hc).
      * rewrite set_nth_length. lia.
      * apply Hfr'.
      * exact H.
      * exists (scontigs row :: B'). cbn [zip_samples]. unfold zip_contigs. rewrite Ec, Hz. split; [reflexivity|].
        split; [cbn [length]; lia|]. apply (put_both_step ss i s row B' (length nt) _ Es eq_refl Hn Hc).
Qed.

(* ------------------------------------------------------------------ the loader *)
Section Sim.
  Variable zd : list N -> option (list N).
  Variables ss k : N.
  Variable a : arch.
  Variable names : list Names.name.

  Definition cinv (c : coll) (bs : list (list (list Collection.contig))) : Prop :=
    segment_size c = ss /\ kmer_length c = k /\ map sname (samples c) = names /\
    samples_loaded c = lenN (concat bs) /\ (length (concat bs) <= length names)%nat /\
    map scontigs (samples c) = concat bs ++ repeat [] (length names - length (concat bs)).

  Lemma load_batch_sim : forall c bs j c', cinv c bs -> load_contig_batch zd c a j = Ok c' ->
    exists B, batch_rows zd ss k a j = Ok B /\ cinv c' (bs ++ [B]).
  Proof.
    intros c bs j c' (Hss & Hk & Hnm & Hcur & Hle & Hcs) H.
    unfold load_contig_batch in H. unfold batch_rows.
    destruct (nthN (a_contigs a) j) as [p|]; [|discriminate].
    apply obnd_ok_inv in H. destruct H as (vn & Evn & H).
    unfold deserialize_contig_names in H. apply obnd_ok_inv in H. destruct H as (c1 & Ec1 & H).
    apply obnd_ok_inv in Ec1. destruct Ec1 as ([cnt nt] & Edn & Ec1). inversion Ec1; subst c1; clear Ec1.
    cbn [fst snd] in H.
    destruct (deser_names_spec _ _ _ _ Edn) as (Hcnt & Havail & Edn').
    unfold batch_names. rewrite Evn. cbn [obnd]. rewrite Edn'. cbn [obnd snd].
    destruct (nthN (a_details a) j) as [q|]; [|discriminate].
    apply obnd_ok_inv in H. destruct H as (sr & Esr & H).
    apply obnd_ok_inv in H. destruct H as (comp & Ecomp & H).
    apply obnd_ok_inv in H. destruct H as (raw & Eraw & H).
    unfold batch_details. rewrite Esr. cbn [obnd]. rewrite Ecomp. cbn [obnd]. rewrite Eraw. cbn [obnd].
    destruct raw as [|s0 [|s1 [|s2 [|s3 [|s4 [|s5 raw]]]]]]; try discriminate.
    apply obnd_ok_inv in H. destruct H as (c2 & Ec2 & H). inversion H; subst c'; clear H.
    unfold deserialize_contig_details in Ec2. cbn [segment_size kmer_length samples] in Ec2.
    apply obnd_ok_inv in Ec2. destruct Ec2 as (t & Et & Ec2).
    rewrite Hss, Hk in Et. rewrite Et. cbn [obnd].
    set (i := N.to_nat (samples_loaded c)) in *.
    destruct (put_segs (put_names (samples c) i nt) i t) as [ss'|] eqn:Eput; [|discriminate].
    inversion Ec2; subst c2; clear Ec2.
    assert (Hn : length (samples c) = length names) by (rewrite <- Hnm, map_length; reflexivity).
    assert (Hi : i = length (concat bs)) by (unfold i; rewrite Hcur; unfold lenN; lia).
    destruct (put_both nt t (samples c) i ss') as (B & Hz & Hl & Hsn & Hsc).
    - unfold lenN in Havail. lia.
    - intros j' s' Hj Hs'. assert (E : nth_error (map scontigs (samples c)) j' = Some (scontigs s'))
        by (rewrite nth_error_map, Hs'; reflexivity).
      rewrite Hcs, nth_error_app2 in E by lia. apply nth_error_repeat in E. exact E.
    - exact Eput.
    - rewrite Hz. exists B. split; [reflexivity|].
      assert (Ecat : concat (bs ++ [B]) = concat bs ++ B) by (rewrite concat_app; cbn [concat]; rewrite app_nil_r; reflexivity).
      unfold cinv. cbn [with_samples samples segment_size kmer_length samples_loaded no_samples_in_last_batch ids].
      rewrite Ecat, app_length.
      split; [exact Hss|]. split; [exact Hk|]. split; [rewrite Hsn; exact Hnm|].
      split; [rewrite Hcur, Hcnt; unfold lenN; rewrite app_length; lia|].
      split; [unfold lenN in Havail; lia|].
      rewrite Hsc, Hcs. rewrite Hi.
      replace (length (concat bs)) with (length (concat bs) + 0)%nat at 1 by lia.
      rewrite firstn_app_2. cbn [firstn]. rewrite app_nil_r.
      rewrite skipn_app. rewrite skipn_all2 by lia. cbn [app]. rewrite skipn_repeat. rewrite <- app_assoc.
      f_equal. f_equal. f_equal. lia.
  Qed.

  Lemma load_loop_sim : forall n j c bs cf, cinv c bs -> load_loop zd n (N.of_nat j) c a = Ok cf ->
    exists Bs, map (file_batch zd ss k a) (seq j n) = map (fun B => Some (map conv_row B)) Bs /\ cinv cf (bs ++ Bs).
  Proof.
    induction n as [|n IH]; intros j c bs cf HI H; cbn [load_loop] in H.
    - inversion H; subst. exists []. rewrite app_nil_r. split; [reflexivity|exact HI].
    - apply obnd_ok_inv in H. destruct H as (c1 & E1 & H).
      destruct (load_batch_sim _ _ _ _ HI E1) as (B & HB & HI1).
      replace (N.of_nat j + 1) with (N.of_nat (S j)) in H by lia.
      destruct (IH _ _ _ _ HI1 H) as (Bs & HBs & HIf).
      exists (B :: Bs). cbn [seq map]. rewrite HBs. unfold file_batch at 1. rewrite HB.
      split; [reflexivity|]. rewrite <- app_assoc in HIf. exact HIf.
  Qed.
End Sim.

Lemma file_batches_cur : forall zd ss k a n,
  file_batches zd ss k (mkArch (a_samples a) (a_contigs a) (a_details a) n) = file_batches zd ss k a.
Proof. reflexivity. Qed.

(* load_all succeeded: names, batches, table *)
Theorem load_all_sim : forall zd ss k a c, load_all zd ss k a = Ok c ->
  exists ns Bs, file_names zd a = Ok ns /\ map sname (samples c) = ns /\
    file_batches zd ss k a = map (fun B => Some (map conv_row B)) Bs /\
    (length (concat Bs) <= length ns)%nat /\
    map scontigs (samples c) = concat Bs ++ repeat [] (length ns - length (concat Bs)).
Proof.
  intros zd ss k a c H. unfold load_all in H. apply obnd_ok_inv in H. destruct H as ([c0 a0] & E0 & H).
  cbn [fst snd] in H. unfold load_batch_sample_names in E0. unfold file_names.
  destruct (nthN (a_samples a) (a_cur a)) as [p|]; [|discriminate].
  apply obnd_ok_inv in E0. destruct E0 as (v & Ev & E0).
  unfold deserialize_sample_names in E0. apply obnd_ok_inv in E0. destruct E0 as (c0' & Ec0 & E0).
  apply obnd_ok_inv in Ec0. destruct Ec0 as (ns & Ens & Ec0). inversion Ec0; subst c0'; clear Ec0.
  inversion E0; subst c0 a0; clear E0.
  rewrite Ev. cbn [obnd]. rewrite Ens.
  set (a' := mkArch (a_samples a) (a_contigs a) (a_details a) (a_cur a + 1)) in *.
  assert (HI : cinv ss k ns (mkColl (map (fun n => mkSample n []) ns) (ids_of ns 0 []) ss k 0 0) []).
  { unfold cinv. cbn [segment_size kmer_length samples samples_loaded concat length app].
    split; [reflexivity|]. split; [reflexivity|].
    split; [rewrite map_map; cbn [sname]; apply map_id|]. split; [reflexivity|]. split; [lia|].
    rewrite map_map. cbn [scontigs]. rewrite Nat.sub_0_r. apply map_const_repeat. }
  cbn [coll_new segment_size kmer_length no_samples_in_last_batch samples_loaded] in H.
  change (length (a_contigs a)) with (length (a_contigs a')) in H.
  destruct (load_loop_sim zd ss k a' ns _ 0%nat _ _ _ HI H) as (Bs & HBs & (_ & _ & Hnm & _ & Hle & Hcs)).
  cbn [app] in *. exists ns, Bs. split; [reflexivity|]. split; [exact Hnm|].
  split; [|split; [exact Hle|exact Hcs]].
  rewrite <- (file_batches_cur zd ss k a (a_cur a + 1)). exact HBs.
Qed.

(* ------------------------------------------------------------------ in the vocabulary of ReaderState *)
Definition table_of (c : coll) : list (list ReaderState.contig) := map (fun s => conv_row (scontigs s)) (samples c).

Lemma catalogue_of_batches : forall k ns Bs rf lz rw st,
  (length (concat Bs) <= length ns)%nat ->
  let ar := ReaderState.mkAr k ns (map (fun B => Some (map conv_row B)) Bs) rf lz rw st in
  Forall (fun ob : option ReaderState.batch => ob <> None) (ReaderState.ar_batches ar) /\
  (length (ReaderState.all_entries ar) <= length (ReaderState.ar_names ar))%nat /\
  ReaderState.catalogue ar = map conv_row (concat Bs ++ repeat [] (length ns - length (concat Bs))).
Proof.
  intros k ns Bs rf lz rw st Hle ar.
  assert (Ea : ReaderState.all_entries ar = map conv_row (concat Bs)).
  { unfold ReaderState.all_entries, ar. cbn [ReaderState.ar_batches]. rewrite map_map. cbn [ReaderState.batch_or_nil].
    rewrite concat_map. reflexivity. }
  split; [|split].
  - unfold ar. cbn [ReaderState.ar_batches]. apply Forall_forall. intros ob Hob. apply in_map_iff in Hob.
    destruct Hob as (B & <- & _). discriminate.
  - rewrite Ea, map_length. exact Hle.
  - unfold ReaderState.catalogue. rewrite Ea, map_length. unfold ar. cbn [ReaderState.ar_names].
    rewrite map_app, map_repeat. reflexivity.
Qed.
