(* ConcLink_rounds.v - forward simulation from Protocol.v (C05) to part A of Determinism.v (C04):
   every reachable Protocol state is related to a state of a Determinism run of the translated script; hence the
   ghost `rounds` of Protocol are exactly the rounds Determinism's `expected_round` predicts. *)
From Coq Require Import List Permutation Sorted Lia ZifyBool ZifyN ZifyNat Bool Arith NArith ZArith.
From Ragc Require Import Protocol Protocol_base Protocol_inv Protocol_steps Protocol_live.
From Ragc Require Import Determinism Determinism_base Determinism_pipe Determinism_proto Determinism_gen
  Determinism_proofs.
From Ragc Require Import ConcLinkR.
Import ListNotations.
Arguments N.add : simpl never.
Arguments N.sub : simpl never.
Arguments N.mul : simpl never.
Arguments Nat.mul : simpl never.
Arguments Nat.sub : simpl never.
Open Scope nat_scope.

Notation PInv := Protocol_inv.Inv.
Notation pstep := Protocol.step.
Notation dstep := Determinism.step.
Notation drun := Determinism.run.

(* ------------------------------------------------------------------------------------------ lists *)
Lemma upd_nth_upd : forall A i (x : A) l, upd_nth i x l = upd i x l.
Proof. intros A i x l. revert i. induction l as [|a l IH]; intros [|i]; cbn; try reflexivity. rewrite IH. reflexivity. Qed.

Lemma f2_nth : forall A B (R : A -> B -> Prop) l l' i x,
  Forall2 R l l' -> nth_error l i = Some x -> exists y, nth_error l' i = Some y /\ R x y.
Proof.
  intros A B R l l' i x H. revert i. induction H as [|a b l l' Hab _ IH]; intros [|i] E; cbn in E; try discriminate.
  - inversion E; subst. exists b. split; [reflexivity|exact Hab].
  - apply IH. exact E.
Qed.

Lemma f2_upd_l : forall A B (R : A -> B -> Prop) l l' i x x',
  Forall2 R l l' -> nth_error l i = Some x -> (forall y, R x y -> R x' y) -> Forall2 R (upd i x' l) l'.
Proof.
  intros A B R l l' i x x' H. revert i. induction H as [|a b l l' Hab Hl IH]; intros [|i] E HR; cbn in E; try discriminate.
  - inversion E; subst. cbn. constructor; auto.
  - cbn. constructor; auto.
Qed.

Lemma f2_upd_both : forall A B (R : A -> B -> Prop) l l' i x' y',
  Forall2 R l l' -> R x' y' -> Forall2 R (upd i x' l) (upd i y' l').
Proof.
  intros A B R l l' i x' y' H. revert i. induction H as [|a b l l' Hab Hl IH]; intros [|i] HR; cbn; constructor; auto.
Qed.

Lemma f2_len : forall A B (R : A -> B -> Prop) l l', Forall2 R l l' -> length l = length l'.
Proof. induction 1; cbn; congruence. Qed.

Lemma f2_compose : forall A B C (P : A -> C -> Prop) (Q : A -> B -> Prop) (S : B -> C -> Prop) la lb lc,
  (forall a b c, P a c -> Q a b -> S b c) -> Forall2 P la lc -> Forall2 Q la lb -> Forall2 S lb lc.
Proof.
  intros A B C P Q S la lb lc H HP. revert lb. induction HP as [|a c la lc Hac _ IH]; intros lb HQ; inversion HQ; subst.
  - constructor.
  - constructor; eauto.
Qed.

Lemma in_remove_at : forall A (x : A) q, In x q -> exists i q', remove_at i q = Some (x, q').
Proof.
  intros A x q. induction q as [|a q IH]; intros H; [contradiction|].
  destruct H as [->|H].
  - exists 0, q. reflexivity.
  - destruct (IH H) as (i & q' & E). exists (S i), (a :: q'). cbn. rewrite E. reflexivity.
Qed.

Lemma buffered_upd : forall (l : list (wst * list task)) w st buf st' buf',
  nth_error l w = Some (st, buf) ->
  exists l1 l2, buffered l = buffered l1 ++ buf ++ buffered l2 /\
                buffered (upd w (st', buf') l) = buffered l1 ++ buf' ++ buffered l2.
Proof.
  intros l w st buf st' buf' E.
  destruct (nth_error_upd_split _ w l _ (st', buf') E) as (l1 & l2 & E1 & E2).
  exists l1, l2. rewrite <- upd_nth_upd, E2, E1, !buffered_mid. split; reflexivity.
Qed.

Lemma buffered_upd_same : forall (l : list (wst * list task)) w st buf st',
  nth_error l w = Some (st, buf) -> buffered (upd w (st', buf) l) = buffered l.
Proof.
  intros l w st buf st' E. destruct (buffered_upd l w st buf st' buf E) as (l1 & l2 & E1 & E2). congruence.
Qed.

(* ------------------------------------------------------------------------------------------ worker 0 *)
Definition m0 (w : worker) : nat := wrounds w + b2n (past0 (pc w)).
Definition J0 (s : state) : Prop := forall w0, nth_error (ws s) 0 = Some w0 -> length (rounds s) = m0 w0.

Lemma j0_frame : forall s s',
  rounds s' = rounds s ->
  (forall w0', nth_error (ws s') 0 = Some w0' -> exists w0, nth_error (ws s) 0 = Some w0 /\ m0 w0' = m0 w0) ->
  J0 s -> J0 s'.
Proof.
  intros s s' Er H J w0' E. destruct (H _ E) as (w0 & E0 & Em). rewrite Er, Em. apply J. exact E0.
Qed.

Lemma j0_upd : forall l i (wk wk' : worker),
  nth_error l i = Some wk -> m0 wk' = m0 wk ->
  forall w0', nth_error (upd i wk' l) 0 = Some w0' -> exists w0, nth_error l 0 = Some w0 /\ m0 w0' = m0 w0.
Proof.
  intros l i wk wk' E Em w0' E0. apply nth_error_upd in E0. destruct E0 as [(-> & -> & _)|(_ & E0)].
  - exists wk. split; assumption.
  - exists w0'. split; [assumption|reflexivity].
Qed.

Lemma j0_notify : forall l ntf l', notify_empty l ntf = Some l' ->
  forall w0', nth_error l' 0 = Some w0' -> exists w0, nth_error l 0 = Some w0 /\ m0 w0' = m0 w0.
Proof.
  intros l ntf l' H. unfold notify_empty in H. destruct ntf as [j|].
  - destruct (nth_error l j) as [w|] eqn:E; [|discriminate].
    destruct (is_waitE w) eqn:W; [|discriminate]. inversion H; subst l'.
    apply (j0_upd l j w); [exact E|].
    destruct w as [p r]. unfold is_waitE in W. cbn [pc] in W. destruct p; try discriminate. reflexivity.
  - destruct (existsb is_waitE l); [discriminate|]. inversion H; subst. intros w0' E. eauto.
Qed.

Lemma j0_same : forall s s', ws s' = ws s -> rounds s' = rounds s -> J0 s -> J0 s'.
Proof. intros s s' Ew Er J w0 E. rewrite Er. apply J. rewrite <- Ew. exact E. Qed.

Lemma m0_after_bar : forall k r, past0 (Protocol.WBar k) = past0 (WBarW k 0) ->
  k < 4 -> m0 (after_bar k (mkW (Protocol.WBar k) r)) = r + b2n (1 <=? k).
Proof.
  intros k r _ K. unfold after_bar, m0. destruct (Nat.eqb_spec k 3) as [->|ne]; cbn [pc wrounds past0 b2n].
  - cbn. lia.
  - reflexivity.
Qed.

Section J0Step.
Variable pa : params.

Ltac j0_upd_tac s0 E :=
  apply (j0_frame s0); [reflexivity | flds; apply (j0_upd _ _ _ _ E) | assumption].

Lemma j0_pull : forall s i wk sq s', J0 s -> nth_error (ws s) i = Some wk ->
  (pc wk = WPull \/ pc wk = WWokenE) -> step_pull s i wk sq = Some s' -> J0 s'.
Proof.
  intros s i wk sq s' J E Hpc H. unfold step_pull in H.
  assert (M : forall p, past0 p = false -> m0 (set_pc wk p) = m0 wk).
  { intros p Hp. unfold m0, set_pc. cbn [pc wrounds]. rewrite Hp. destruct Hpc as [-> | ->]; reflexivity. }
  destruct (items s) as [|x rr] eqn:EI.
  - destruct (closed s); inversion H; subst s'; j0_upd_tac s E; apply M; reflexivity.
  - rewrite <- EI in H.
    destruct (extract sq (items s)) as [[it rest]|]; [|discriminate].
    destruct (is_max it (items s)); [|discriminate].
    destruct (sub_u64 (cur s) (tsize (itask it))); [|discriminate].
    inversion H; subst s'. j0_upd_tac s E. apply M. destruct (ttok (itask it)); reflexivity.
Qed.

Lemma j0_work : forall s i sq nb s', J0 s -> step_work pa s i sq nb = Some s' -> J0 s'.
Proof.
  intros s i sq nb s' J H. unfold step_work in H.
  destruct (nth_error (ws s) i) as [wk|] eqn:E; [|discriminate].
  destruct (pc wk) as [| | |q|k|k g|k|] eqn:Hpc.
  - eapply j0_pull; eauto.
  - destruct (closed s); [|discriminate]. inversion H; subst s'. j0_upd_tac s E.
    unfold m0, set_pc. cbn [pc wrounds]. rewrite Hpc. reflexivity.
  - eapply j0_pull; eauto.
  - inversion H; subst s'. j0_upd_tac s E. unfold m0, set_pc. cbn [pc wrounds]. rewrite Hpc. reflexivity.
  - unfold step_arrive in H. destruct (4 <=? k) eqn:K4; [discriminate|]. apply Nat.leb_gt in K4.
    destruct wk as [p r]. cbn [pc] in Hpc. subst p.
    destruct (S (bcount s) <? nthr pa); inversion H; subst s'; j0_upd_tac s E.
    + reflexivity.
    + rewrite m0_after_bar by (auto; lia). reflexivity.
  - destruct (g =? bgen s); [discriminate|]. inversion H; subst s'. j0_upd_tac s E.
    destruct wk as [p r]. cbn [pc] in Hpc. subst p. unfold after_bar, m0.
    destruct (Nat.eqb_spec k 3) as [->|ne]; cbn [pc wrounds past0 b2n]; [cbn; lia|reflexivity].
  - destruct wk as [p r]. cbn [pc] in Hpc. subst p.
    destruct k as [|[|[|k]]]; [| | |discriminate].
    + destruct (Nat.eqb_spec i 0) as [e|ne]; inversion H; subst s'.
      * intros w0' E0. flds. cbn [ws] in E0. apply nth_error_upd in E0.
        destruct E0 as [(_ & -> & _)|(ne & _)]; [|congruence].
        rewrite e in E. specialize (J _ E). cbn [length]. rewrite J.
        unfold m0, set_pc. cbn. lia.
      * apply (j0_frame s); [reflexivity| |assumption]. flds. intros w0' E0.
        rewrite upd_other in E0 by auto. eauto.
    + destruct (claimable s); inversion H; subst s'.
      * j0_upd_tac s E. reflexivity.
      * eapply j0_same; [| |exact J]; reflexivity.
    + destruct (i =? 0); inversion H; subst s'; j0_upd_tac s E; reflexivity.
  - discriminate.
Qed.

Lemma j0_step : forall s l s', J0 s -> pstep pa s l = Some s' -> J0 s'.
Proof.
  intros s l s' J H. destruct l as [ntf|w sq nb|w|]; cbn [Protocol.step] in H.
  - unfold step_prod in H.
    assert (P : forall t rest, step_push pa s t rest ntf = Some s' -> J0 s').
    { intros t rest HP. unfold step_push in HP. destruct (closed s); [discriminate|].
      destruct (push_blocked pa s (tsize t)).
      - inversion HP; subst s'. eapply j0_same; [| |exact J]; reflexivity.
      - unfold do_admit in HP. destruct (notify_empty (ws s) ntf) as [l'|] eqn:NE; [|discriminate].
        inversion HP; subst s'. apply (j0_frame s); [reflexivity| |exact J]. flds. eapply j0_notify; eauto. }
    destruct (pst s).
    + destruct (todo s) as [|[t|] rest].
      * destruct (closed s); [discriminate|]. inversion H; subst s'. eapply j0_same; [| |exact J]; reflexivity.
      * eapply P; eauto.
      * destruct (items s); inversion H; subst s'; [|exact J]. eapply j0_same; [| |exact J]; reflexivity.
    + discriminate.
    + destruct (todo s) as [|[t|] rest]; try discriminate. eapply P; eauto.
    + destruct (forallb is_exited (ws s)); [|discriminate]. inversion H; subst s'.
      eapply j0_same; [| |exact J]; reflexivity.
    + discriminate.
  - eapply j0_work; eauto.
  - destruct (nth_error (ws s) w) as [wk|] eqn:E; [|discriminate].
    destruct (is_waitE wk) eqn:W; [|discriminate]. inversion H; subst s'.
    apply (j0_frame s); [reflexivity | flds; apply (j0_upd _ _ _ _ E) | assumption].
    destruct wk as [p r]. unfold is_waitE in W. cbn [pc] in W. destruct p; try discriminate. reflexivity.
  - destruct (pst s); try discriminate. inversion H; subst s'. eapply j0_same; [| |exact J]; reflexivity.
Qed.
End J0Step.

Lemma j0_init : forall pa script, J0 (Protocol.init pa script).
Proof.
  intros pa script w0 E. unfold Protocol.init in *. cbn [ws rounds length] in *.
  apply nth_error_In in E. apply repeat_spec in E. subst. reflexivity.
Qed.

(* ------------------------------------------------------------------------------------------ small facts *)
Lemma qbytes_perm : forall q q', Permutation q q' -> qbytes q = qbytes q'.
Proof. unfold qbytes. induction 1; cbn [fold_right]; lia. Qed.

Lemma qbytes_items : forall sc l, (forall it, In it l -> itask it = ptask (task_at sc (iseq it))) ->
  qbytes (map (task_at sc) (map iseq l)) = sumsz l.
Proof.
  intros sc l. induction l as [|a l IH]; intros H; [reflexivity|].
  unfold qbytes in *. cbn [map fold_right sumsz]. rewrite IH by (intros; apply H; right; auto).
  rewrite (H a) by (left; auto). reflexivity.
Qed.

Lemma task_le_cmp : forall a b, task_le (ptask a) (ptask b) = true -> task_cmp a b <> Gt.
Proof.
  intros a b. unfold task_le, task_cmp, ptask, cmp_then. cbn [tprio tcost tord].
  destruct (Z.compare_spec (t_prio a) (t_prio b)); destruct (N.compare_spec (t_cost a) (t_cost b));
    destruct (N.compare_spec (t_seq b) (t_seq a)); intros; try discriminate; lia.
Qed.

Lemma pops_push_inv : forall r0 t rest, ~ In PClose r0 -> pops r0 = OPush t :: rest ->
  exists t' r0', r0 = PPush t' :: r0' /\ t = ptask t' /\ rest = pops r0'.
Proof.
  intros [|[t'| |] r0] t rest NC H; cbn in H; try discriminate.
  - inversion H. eauto.
  - exfalso. apply NC. left. reflexivity.
Qed.
Lemma pops_poll_inv : forall r0 rest, ~ In PClose r0 -> pops r0 = OPoll :: rest ->
  exists r0', r0 = PWaitEmpty :: r0' /\ rest = pops r0'.
Proof.
  intros [|[t'| |] r0] rest NC H; cbn in H; try discriminate.
  - inversion H. eauto.
  - exfalso. apply NC. left. reflexivity.
Qed.
Lemma pops_nil_inv : forall r0, ~ In PClose r0 -> pops r0 = [] -> r0 = [].
Proof.
  intros [|[t'| |] r0] NC H; cbn in H; try discriminate; auto. exfalso. apply NC. left. reflexivity.
Qed.

Lemma task_at_mid : forall pre t post sq, length (tasks_of pre) = N.to_nat sq ->
  task_at (pre ++ PPush t :: post) sq = t.
Proof.
  intros pre t post sq L. unfold task_at. rewrite tasks_of_app. cbn [tasks_of].
  rewrite <- L, app_nth2, Nat.sub_diag by lia. reflexivity.
Qed.

Lemma inflight_notify : forall l ntf l', notify_empty l ntf = Some l' -> inflight l' = inflight l.
Proof.
  intros l ntf l' H. unfold notify_empty in H. destruct ntf as [j|].
  - destruct (nth_error l j) as [w|] eqn:E; [|discriminate].
    destruct (is_waitE w) eqn:W; [|discriminate]. inversion H; subst l'.
    apply (inflight_upd_noseg _ _ _ _ E); unfold is_waitE in W; destruct w as [p r]; cbn [pc set_pc] in *;
      destruct p; discriminate.
  - destruct (existsb is_waitE l); [discriminate|]. inversion H; reflexivity.
Qed.

Lemma dstate_notify : forall nr (dwk : list (wst * list task)) l ntf l', notify_empty l ntf = Some l' ->
  Forall2 (fun wk d => fst d = dstate_of nr wk) l dwk -> Forall2 (fun wk d => fst d = dstate_of nr wk) l' dwk.
Proof.
  intros nr dwk l ntf l' H F. unfold notify_empty in H. destruct ntf as [j|].
  - destruct (nth_error l j) as [w|] eqn:E; [|discriminate].
    destruct (is_waitE w) eqn:W; [|discriminate]. inversion H; subst l'.
    apply (f2_upd_l _ _ _ _ _ _ _ _ F E). intros y Hy. rewrite Hy.
    unfold is_waitE in W. destruct w as [p r]. cbn [pc] in W. destruct p; try discriminate. reflexivity.
  - destruct (existsb is_waitE l); [discriminate|]. inversion H; subst. exact F.
Qed.

(* ------------------------------------------------------------------------------------------ the relation *)
Section Sim.
Variable pa : params.
Variable script : list cmd.
Variable sc : list pact.
Hypothesis Hrule : Protocol.old_rule pa = false.
Hypothesis Hn : 1 <= nthr pa.
Notation Inv := (Protocol_inv.Inv pa script).
Notation tk := (task_at sc).
Notation WR := (fun nr => (fun (wk : worker) (d : wst * list task) => fst d = dstate_of nr wk)).

Record Rel (s : state) (ds : sys) : Prop := {
  r_q : Permutation (s_q ds) (map tk (map iseq (items s)));
  r_it : forall it, In it (items s) -> itask it = ptask (tk (iseq it));
  r_cl : s_closed ds = closed s;
  r_prod : exists pre, sc = pre ++ s_prod ds /\ length (tasks_of pre) = N.to_nat (nseq s) /\
             (if closed s then s_prod ds = []
              else exists rest, s_prod ds = rest ++ [PClose] /\ ~ In PClose rest /\ todo s = pops rest);
  r_wk : Forall2 (WR (length (rounds s))) (ws s) (s_wk ds);
  r_buf : Permutation (buffered (s_wk ds)) (map tk (rawbuf s ++ inflight (ws s)));
  r_rounds : Forall2 (fun rd seqs => Permutation (concat rd) (map tk seqs)) (s_rounds ds) (rev (rounds s))
}.

(* how many rounds have been classified, from the stage of the barrier cycle *)
Lemma len_rounds : forall s, Inv s -> J0 s ->
  (stg s = 0 -> length (rounds s) = ground s) /\
  (2 <= stg s -> length (rounds s) = S (ground s)) /\
  (stg s = 1 -> forall w0, nth_error (ws s) 0 = Some w0 -> length (rounds s) = ground s + b2n (past0 (pc w0))).
Proof.
  intros s HI J.
  assert (E0 : exists w0, nth_error (ws s) 0 = Some w0).
  { destruct HI. destruct (ws s); cbn in *; [lia|eauto]. }
  destruct E0 as (w0 & E0). pose proof (J _ E0) as L. pose proof (wf_at _ _ _ _ _ HI E0) as W.
  unfold m0 in L. unfold wfw in W.
  repeat split.
  - intros S0. destruct (pc w0) as [| | |q|k|k g|k|]; cbn [past0 b2n] in L;
      try (destruct (Nat.leb_spec 1 k)); cbn [b2n] in L; lia.
  - intros S2. destruct (pc w0) as [| | |q|k|k g|k|]; cbn [past0 b2n] in L;
      try (destruct (Nat.leb_spec 1 k)); cbn [b2n] in L; lia.
  - intros S1 w0' E0'. rewrite E0 in E0'. inversion E0'; subst w0'.
    destruct (pc w0) as [| | |q|k|k g|k|]; cbn [past0 b2n] in *;
      try (destruct (Nat.leb_spec 1 k)); cbn [b2n] in *; lia.
Qed.

Lemma qbytes_rel : forall s ds, Rel s ds -> Inv s -> qbytes (s_q ds) = cur s.
Proof.
  intros s ds R HI. rewrite (qbytes_perm _ _ (r_q _ _ R)), (qbytes_items sc _ (r_it _ _ R)).
  destruct HI. auto.
Qed.

(* a step that changes neither the queue, the producer nor the rounds; Determinism does not move *)
Lemma rel_frame : forall s s' ds, Rel s ds ->
  items s' = items s -> closed s' = closed s -> nseq s' = nseq s -> todo s' = todo s -> rounds s' = rounds s ->
  Forall2 (WR (length (rounds s))) (ws s') (s_wk ds) ->
  Permutation (rawbuf s' ++ inflight (ws s')) (rawbuf s ++ inflight (ws s)) ->
  Rel s' ds.
Proof.
  intros s s' ds R Ei Ec En Et Er F P. destruct R. constructor; rewrite ?Ei, ?Ec, ?En, ?Et, ?Er; auto.
  rewrite r_buf0. apply Permutation_map. apply Permutation_sym. exact P.
Qed.

Lemma rel_frame_w : forall s s' ds i wk wk', Rel s ds ->
  items s' = items s -> closed s' = closed s -> nseq s' = nseq s -> todo s' = todo s -> rounds s' = rounds s ->
  rawbuf s' = rawbuf s -> ws s' = upd i wk' (ws s) -> nth_error (ws s) i = Some wk ->
  dstate_of (length (rounds s)) wk' = dstate_of (length (rounds s)) wk ->
  (forall q, pc wk <> WSeg q) -> (forall q, pc wk' <> WSeg q) ->
  exists sigma, Rel s' (drun (cap pa) sigma ds).
Proof.
  intros s s' ds i wk wk' R Ei Ec En Et Er Eb Ew E D S1 S2. exists []. cbn.
  apply (rel_frame s); auto.
  - rewrite Ew. apply (f2_upd_l _ _ _ _ _ _ _ _ (r_wk _ _ R) E). intros y Hy. rewrite Hy. auto.
  - rewrite Eb, Ew, (inflight_upd_noseg _ _ _ _ E S1 S2). apply Permutation_refl.
Qed.

(* ------------------------------------------------------------------------------------------ the producer *)
Ltac dflds := cbn [s_q s_prod s_closed s_wk s_rounds].

Lemma sim_push : forall s ds t rest ntf s', Rel s ds -> Inv s -> todo s = OPush t :: rest ->
  step_push pa s t rest ntf = Some s' -> exists sigma, Rel s' (drun (cap pa) sigma ds).
Proof.
  intros s ds t rest ntf s' R HI T H. unfold step_push in H.
  destruct (closed s) eqn:C; [discriminate|].
  destruct (push_blocked pa s (tsize t)) eqn:B.
  - inversion H; subst s'. exists []. cbn [Determinism.run fold_left].
    apply (rel_frame s); auto; try reflexivity. apply R.
  - unfold do_admit in H. destruct (notify_empty (ws s) ntf) as [l'|] eqn:NE; [|discriminate].
    inversion H; subst s'; clear H.
    pose proof (qbytes_rel _ _ R HI) as QB.
    destruct R as [Rq Rit Rcl Rprod Rwk Rbuf Rrounds].
    rewrite C in Rprod. destruct Rprod as (pre & Esc & Len & rest0 & Ep & NC & Et).
    rewrite T in Et. symmetry in Et. destruct (pops_push_inv _ _ _ NC Et) as (t' & r0' & -> & -> & ->).
    assert (TK : task_at sc (nseq s) = t').
    { rewrite Esc, Ep. cbn [app]. apply task_at_mid. exact Len. }
    exists [EProd]. unfold Determinism.run. cbn [fold_left]. unfold Determinism.step. rewrite Ep. cbn [app].
    assert (AD : negb (s_closed ds) && admits (cap pa) (s_q ds) t' = true).
    { rewrite Rcl, C. cbn [negb andb]. unfold admits. rewrite QB.
      unfold push_blocked in B. rewrite Hrule, C in B. cbn [ptask tsize] in B. lia. }
    rewrite AD. constructor; flds; dflds.
    + cbn [map iseq]. eapply Permutation_trans; [apply Permutation_app_comm|]. cbn [app]. rewrite TK.
      apply perm_skip. exact Rq.
    + intros it [<-|I]; cbn [itask iseq]; [rewrite TK; reflexivity|apply Rit; exact I].
    + exact Rcl.
    + rewrite C. exists (pre ++ [PPush t']). split; [|split].
      * transitivity (pre ++ s_prod ds); [exact Esc|]. rewrite Ep, <- app_assoc. reflexivity.
      * rewrite tasks_of_app, app_length. cbn [tasks_of length]. lia.
      * exists r0'. split; [reflexivity|]. split; [|reflexivity]. intros I. apply NC. right. exact I.
    + eapply dstate_notify; eauto.
    + rewrite (inflight_notify _ _ _ NE). exact Rbuf.
    + exact Rrounds.
Qed.

Lemma sim_prod : forall s ds ntf s', Rel s ds -> Inv s -> step_prod pa s ntf = Some s' ->
  exists sigma, Rel s' (drun (cap pa) sigma ds).
Proof.
  intros s ds ntf s' R HI H. unfold step_prod in H.
  destruct (pst s) eqn:P.
  - destruct (todo s) as [|[t|] rest] eqn:T.
    + (* close *)
      destruct (closed s) eqn:C; [discriminate|]. inversion H; subst s'; clear H.
      destruct R as [Rq Rit Rcl Rprod Rwk Rbuf Rrounds].
      rewrite C in Rprod. destruct Rprod as (pre & Esc & Len & rest0 & Ep & NC & Et).
      rewrite T in Et. symmetry in Et. rewrite (pops_nil_inv _ NC Et) in Ep. cbn [app] in Ep.
      exists [EProd]. unfold Determinism.run. cbn [fold_left]. unfold Determinism.step. rewrite Ep.
      constructor; flds; dflds; auto.
      exists (pre ++ [PClose]). split; [|split].
      * transitivity (pre ++ s_prod ds); [exact Esc|]. rewrite Ep, <- app_assoc. reflexivity.
      * rewrite tasks_of_app, app_length. cbn [tasks_of length]. lia.
      * reflexivity.
    + eapply sim_push; eauto.
    + destruct (items s) eqn:EI; inversion H; subst s'; clear H.
      * destruct R as [Rq Rit Rcl Rprod Rwk Rbuf Rrounds].
        assert (C : closed s = false).
        { destruct (closed s) eqn:C; [|reflexivity]. destruct HI. destruct i_closed as (_ & X). rewrite X in T by auto.
          discriminate. }
        rewrite C in Rprod. destruct Rprod as (pre & Esc & Len & rest0 & Ep & NC & Et).
        rewrite T in Et. symmetry in Et. destruct (pops_poll_inv _ _ NC Et) as (r0' & -> & ->).
        rewrite EI in Rq. cbn [map] in Rq. apply Permutation_sym, Permutation_nil in Rq.
        exists [EProd]. unfold Determinism.run. cbn [fold_left]. unfold Determinism.step. rewrite Ep. cbn [app].
        rewrite Rq. constructor; flds; dflds; auto.
        -- rewrite EI. constructor.
        -- rewrite C. exists (pre ++ [PWaitEmpty]). split; [|split].
           ++ transitivity (pre ++ s_prod ds); [exact Esc|]. rewrite Ep, <- app_assoc. reflexivity.
           ++ rewrite tasks_of_app, app_length. cbn [tasks_of length]. lia.
           ++ exists r0'. split; [reflexivity|]. split; [|reflexivity]. intros I. apply NC. right. exact I.
      * exists []. exact R.
  - discriminate.
  - destruct (todo s) as [|[t|] rest] eqn:T; try discriminate. eapply sim_push; eauto.
  - destruct (forallb is_exited (ws s)); [|discriminate]. inversion H; subst s'.
    exists []. cbn [Determinism.run fold_left]. apply (rel_frame s); auto; try reflexivity. apply R.
  - discriminate.
Qed.

(* ------------------------------------------------------------------------------------------ workers: pull *)
Lemma dst_sync : forall nr p r, sync_pc p = true -> dstate_of nr (mkW p r) = if r =? nr then WBar else WIdle.
Proof. intros nr p r H. destruct p; try discriminate; reflexivity. Qed.

Lemma sim_pull : forall s ds i wk sq s', Rel s ds -> Inv s -> J0 s ->
  nth_error (ws s) i = Some wk -> (pc wk = WPull \/ pc wk = WWokenE) ->
  step_pull s i wk sq = Some s' -> exists sigma, Rel s' (drun (cap pa) sigma ds).
Proof.
  intros s ds i wk sq s' R HI J E Hpc H.
  pose proof (wf_at _ _ _ _ _ HI E) as Hw.
  assert (Hout : stg s = 0 /\ wrounds wk = ground s).
  { unfold wfw in Hw. destruct Hpc as [P|P]; rewrite P in Hw; auto. }
  assert (DI : dstate_of (length (rounds s)) wk = WIdle).
  { unfold dstate_of. destruct Hpc as [-> | ->]; reflexivity. }
  assert (NS : forall q, pc wk <> WSeg q) by (intros q; destruct Hpc as [-> | ->]; discriminate).
  destruct (f2_nth _ _ _ _ _ _ _ (r_wk _ _ R) E) as ([st buf] & Ed & Hst). cbn [fst] in Hst. rewrite DI in Hst. subst st.
  unfold step_pull in H.
  destruct (items s) as [|x0 rr] eqn:EI.
  - destruct (closed s) eqn:C; inversion H; subst s'; clear H.
    + (* pull returns None: the worker exits *)
      destruct R as [Rq Rit Rcl Rprod Rwk Rbuf Rrounds].
      rewrite EI in Rq. cbn [map] in Rq. apply Permutation_sym, Permutation_nil in Rq.
      exists [ENone i]. unfold Determinism.run. cbn [fold_left]. unfold Determinism.step. rewrite Ed, Rq, Rcl, C.
      rewrite upd_nth_upd. constructor; flds; dflds.
      * rewrite EI. constructor.
      * exact Rit.
      * symmetry. exact C.
      * exact Rprod.
      * apply f2_upd_both; [exact Rwk|]. reflexivity.
      * rewrite (buffered_upd_same _ _ _ _ _ Ed), (inflight_upd_noseg _ _ _ _ E NS); [exact Rbuf|]. intros q; discriminate.
      * exact Rrounds.
    + apply (rel_frame_w s _ ds i wk (set_pc wk WWaitE)); auto; try reflexivity; try (intros q; discriminate).
  - rewrite <- EI in H.
    destruct (extract sq (items s)) as [[it rest]|] eqn:EX; [|discriminate].
    destruct (is_max it (items s)) eqn:M; [|discriminate].
    destruct (sub_u64 (cur s) (tsize (itask it))) as [c'|]; [|discriminate].
    inversion H; subst s'; clear H.
    apply extract_perm in EX. destruct EX as (PM & _ & IN).
    pose proof (proj1 (len_rounds _ HI J) (proj1 Hout)) as LR.
    destruct R as [Rq Rit Rcl Rprod Rwk Rbuf Rrounds].
    set (x := task_at sc (iseq it)).
    assert (Hx : In x (s_q ds)).
    { eapply Permutation_in; [apply Permutation_sym; exact Rq|]. apply in_map. apply in_map. exact IN. }
    destruct (in_remove_at _ _ _ Hx) as (j & q' & ER).
    assert (EM : is_maxb (s_q ds) x = true).
    { unfold is_maxb. apply forallb_forall. intros y Hy.
      assert (Hy' : In y (map (task_at sc) (map iseq (items s)))) by (eapply Permutation_in; eauto).
      apply in_map_iff in Hy'. destruct Hy' as (sqy & <- & Hy'). apply in_map_iff in Hy'. destruct Hy' as (jt & <- & Hj).
      unfold is_max in M. rewrite forallb_forall in M. specialize (M _ Hj). rewrite (Rit _ Hj), (Rit _ IN) in M.
      apply task_le_cmp in M. fold x in M. destruct (task_cmp (task_at sc (iseq jt)) x); congruence. }
    assert (Htok : ttok (itask it) = t_tok x) by (rewrite (Rit _ IN); reflexivity).
    assert (Rq' : Permutation q' (map (task_at sc) (map iseq rest))).
    { apply (Permutation_cons_inv (a := x)).
      eapply Permutation_trans; [apply Permutation_sym; eapply remove_at_perm; exact ER|].
      eapply Permutation_trans; [exact Rq|]. change (x :: map (task_at sc) (map iseq rest))
        with (map (task_at sc) (map iseq (it :: rest))). apply Permutation_map. apply Permutation_map. exact PM. }
    assert (Rit' : forall it', In it' rest -> itask it' = ptask (task_at sc (iseq it'))).
    { intros it' I. apply Rit. eapply Permutation_in; [apply Permutation_sym; exact PM|]. right. exact I. }
    exists [EPull i j]. unfold Determinism.run. cbn [fold_left]. unfold Determinism.step. rewrite Ed, ER, EM.
    rewrite Htok. destruct (t_tok x) eqn:TK; rewrite upd_nth_upd; constructor; flds; dflds;
      try exact Rq'; try exact Rit'; try exact Rcl; try exact Rprod; try exact Rrounds.
    + apply f2_upd_both; [exact Rwk|]. cbn [fst]. unfold set_pc. rewrite dst_sync by reflexivity.
      rewrite LR, (proj2 Hout), Nat.eqb_refl. reflexivity.
    + rewrite (buffered_upd_same _ _ _ _ _ Ed), (inflight_upd_noseg _ _ _ _ E NS); [exact Rbuf|]. intros q; discriminate.
    + apply f2_upd_both; [exact Rwk|]. reflexivity.
    + destruct (buffered_upd _ _ _ _ WIdle (buf ++ [x]) Ed) as (l1 & l2 & B1 & B2). rewrite B2.
      assert (PI : Permutation (inflight (upd i (set_pc wk (WSeg (iseq it))) (ws s))) (iseq it :: inflight (ws s))).
      { apply (inflight_upd_enter _ _ _ _ _ E NS). reflexivity. }
      eapply Permutation_trans; [|apply Permutation_map; apply Permutation_app_head; apply Permutation_sym; exact PI].
      eapply Permutation_trans; [|apply Permutation_map; apply Permutation_middle]. cbn [map]. fold x.
      eapply Permutation_trans; [|apply perm_skip; exact Rbuf]. rewrite B1. perm_ac.
Qed.

(* ------------------------------------------------------------------------------------------ workers: the round fires *)
Lemma all_bar_f2 : forall nr (l : list worker) dwk, Forall2 (WR nr) l dwk ->
  Forall (fun y => dstate_of nr y = WBar) l -> all_bar dwk = true.
Proof.
  intros nr l dwk F. induction F as [|a b l dwk Hab _ IH]; intros FA; [reflexivity|].
  inversion FA as [|? ? Ha Hl]; subst. unfold all_bar in *. cbn [forallb]. rewrite Hab, Ha. cbn [andb]. apply IH. exact Hl.
Qed.

Lemma f2_reset : forall nr (l : list worker) (dwk : list (wst * list task)), length l = length dwk ->
  Forall (fun y => dstate_of nr y = WIdle) l -> Forall2 (WR nr) l (map (fun _ => (WIdle, @nil task)) dwk).
Proof.
  intros nr l. induction l as [|a l IH]; intros [|b dwk] L F; cbn in L; try discriminate; cbn [map]; constructor.
  - inversion F; subst. cbn [fst]. auto.
  - apply IH; [lia|]. inversion F; auto.
Qed.

Lemma buffered_reset' : forall (dwk : list (wst * list task)), buffered (map (fun _ => (WIdle, @nil task)) dwk) = [].
Proof. induction dwk as [|a dwk IH]; [reflexivity|]. unfold buffered in *. cbn [map concat snd app]. exact IH. Qed.

Lemma inflight_sync : forall l, Forall (fun y => sync_pc (pc y) = true) l -> inflight l = [].
Proof.
  induction 1 as [|y l Hy _ IH]; [reflexivity|]. unfold inflight in *. cbn [flat_map]. rewrite IH.
  destruct (pc y); try discriminate; reflexivity.
Qed.

Lemma sim_fire : forall s ds r nb, Rel s ds -> Inv s -> J0 s ->
  nth_error (ws s) 0 = Some (mkW (WPhase 0) r) ->
  exists sigma, Rel (mkState (items s) (cur s) (closed s) (nseq s) (pst s) (todo s)
                      (upd 0 (set_pc (mkW (WPhase 0) r) (Protocol.WBar 1)) (ws s))
                      (bcount s) (bgen s) nb (ground s) (pushed s) (segd s) [] (rawbuf s :: rounds s))
                 (drun (cap pa) sigma ds).
Proof.
  intros s ds r nb R HI J E.
  pose proof (wf_at _ _ _ _ _ HI E) as Hw. unfold wfw in Hw. cbn [pc wrounds] in Hw. destruct Hw as (ST & Hr).
  pose proof (proj2 (proj2 (len_rounds _ HI J)) (eq_sym ST) _ E) as LR. cbn [pc past0 Nat.leb b2n] in LR.
  rewrite Nat.add_0_r in LR.
  assert (ALL : Forall (fun y => sync_pc (pc y) = true /\ wrounds y = ground s) (ws s)).
  { destruct HI. eapply Forall_impl; [|exact i_wf]. intros y Wy. unfold wfw in Wy. rewrite <- ST in Wy.
    destruct (pc y); cbn [sync_pc]; split; try reflexivity; lia. }
  assert (BAR : Forall (fun y => dstate_of (length (rounds s)) y = WBar) (ws s)).
  { eapply Forall_impl; [|exact ALL]. intros [p w] (A & B). cbn [pc wrounds] in *. rewrite (dst_sync _ _ _ A), LR, B, Nat.eqb_refl.
    reflexivity. }
  set (wk' := set_pc (mkW (WPhase 0) r) (Protocol.WBar 1)).
  assert (ALL' : Forall (fun y => sync_pc (pc y) = true /\ wrounds y = ground s) (upd 0 wk' (ws s))).
  { apply Forall_upd; [exact ALL|]. split; [reflexivity|exact Hr]. }
  assert (IDLE : Forall (fun y => dstate_of (S (length (rounds s))) y = WIdle) (upd 0 wk' (ws s))).
  { eapply Forall_impl; [|exact ALL']. intros [p w] (A & B). cbn [pc wrounds] in *. rewrite (dst_sync _ _ _ A), LR, B.
    destruct (Nat.eqb_spec (ground s) (S (ground s))); [lia|reflexivity]. }
  assert (INF : inflight (ws s) = []).
  { apply inflight_sync. eapply Forall_impl; [|exact ALL]. intros y (A & _). exact A. }
  assert (INF' : inflight (upd 0 wk' (ws s)) = []).
  { apply inflight_sync. eapply Forall_impl; [|exact ALL']. intros y (A & _). exact A. }
  destruct R as [Rq Rit Rcl Rprod Rwk Rbuf Rrounds].
  pose proof (f2_len _ _ _ _ _ Rwk) as LW.
  exists [EFire]. unfold Determinism.run. cbn [fold_left]. unfold Determinism.step.
  destruct (s_wk ds) as [|d0 dr] eqn:EW.
  { exfalso. destruct (ws s); cbn in E, LW; discriminate. }
  rewrite <- EW in *. rewrite (all_bar_f2 _ _ _ Rwk BAR).
  constructor; flds; dflds; try assumption.
  - cbn [length]. apply f2_reset; [rewrite upd_length; exact LW|exact IDLE].
  - rewrite buffered_reset'. fold wk'. rewrite INF'. constructor.
  - cbn [rev]. apply Forall2_app; [exact Rrounds|]. constructor; [|constructor].
    fold (buffered (s_wk ds)). rewrite INF, app_nil_r in Rbuf. exact Rbuf.
Qed.

(* ------------------------------------------------------------------------------------------ workers: all steps *)
Lemma sim_work : forall s ds i sq nb s', Rel s ds -> Inv s -> J0 s -> step_work pa s i sq nb = Some s' ->
  exists sigma, Rel s' (drun (cap pa) sigma ds).
Proof.
  intros s ds i sq nb s' R HI J H. unfold step_work in H.
  destruct (nth_error (ws s) i) as [wk|] eqn:E; [|discriminate].
  pose proof (wf_at _ _ _ _ _ HI E) as Hw.
  destruct (len_rounds _ HI J) as (L0 & L2 & L1).
  assert (GB : 4 * ground s <= bgen s < 4 * ground s + 4) by (destruct HI; auto).
  destruct (pc wk) as [| | |q|k|k g|k|] eqn:Hpc.
  - eapply sim_pull; eauto.
  - destruct (closed s); [|discriminate]. inversion H; subst s'; clear H.
    destruct wk as [p r]. cbn [pc] in Hpc. subst p.
    apply (rel_frame_w s _ ds i (mkW WWaitE r) (set_pc (mkW WWaitE r) WWokenE)); auto; try reflexivity; discriminate.
  - eapply sim_pull; eauto.
  - (* a contig is segmented: its seq moves from the worker to the raw buffer *)
    inversion H; subst s'; clear H.
    destruct wk as [p r]. cbn [pc] in Hpc. subst p.
    exists []. cbn [Determinism.run fold_left]. apply (rel_frame s); auto; flds.
    + apply (f2_upd_l _ _ _ _ _ _ _ _ (r_wk _ _ R) E). intros y Hy. rewrite Hy. reflexivity.
    + assert (PI : Permutation (inflight (ws s)) (q :: inflight (upd i (set_pc (mkW (WSeg q) r) WPull) (ws s)))).
      { apply (inflight_upd_leave _ _ _ _ _ E); [reflexivity|discriminate]. }
      eapply Permutation_trans; [|apply Permutation_app_head; apply Permutation_sym; exact PI].
      cbn [app]. apply Permutation_middle.
  - (* barrier.wait() entered *)
    unfold step_arrive in H. destruct (4 <=? k) eqn:K4; [discriminate|]. apply Nat.leb_gt in K4.
    destruct wk as [p r]. cbn [pc] in Hpc. subst p. unfold wfw in Hw. cbn [pc wrounds] in Hw. destruct Hw as (Hk & Hr).
    destruct (S (bcount s) <? nthr pa); inversion H; subst s'; clear H.
    + apply (rel_frame_w s _ ds i (mkW (Protocol.WBar k) r) (set_pc (mkW (Protocol.WBar k) r) (WBarW k (bgen s))));
        auto; try reflexivity; discriminate.
    + apply (rel_frame_w s _ ds i (mkW (Protocol.WBar k) r) (after_bar k (mkW (Protocol.WBar k) r)));
        auto; try reflexivity; try discriminate.
      * unfold after_bar. destruct (Nat.eqb_spec k 3) as [->|ne]; [|reflexivity].
        cbn [wrounds]. rewrite (dst_sync _ (Protocol.WBar 3)) by reflexivity. rewrite (L2 ltac:(lia)), Hr.
        destruct (Nat.eqb_spec (ground s) (S (ground s))); [lia|reflexivity].
      * unfold after_bar. destruct (k =? 3); discriminate.
  - (* barrier.wait() left *)
    destruct (Nat.eqb_spec g (bgen s)) as [|Gne]; [discriminate|]. inversion H; subst s'; clear H.
    destruct wk as [p r]. cbn [pc] in Hpc. subst p. unfold wfw in Hw. cbn [pc wrounds] in Hw.
    apply (rel_frame_w s _ ds i (mkW (WBarW k g) r) (after_bar k (mkW (WBarW k g) r)));
      auto; try reflexivity; try discriminate.
    + unfold after_bar. destruct (Nat.eqb_spec k 3) as [->|ne]; [|reflexivity].
      cbn [wrounds]. rewrite (dst_sync _ (WBarW 3 g)) by reflexivity.
      assert (X : stg s = 0 /\ S r = ground s) by (unfold stg in *; lia).
      rewrite (L0 (proj1 X)). destruct (Nat.eqb_spec r (ground s)); [lia|reflexivity].
    + unfold after_bar. destruct (k =? 3); discriminate.
  - destruct wk as [p r]. cbn [pc] in Hpc. subst p.
    destruct k as [|[|[|k]]]; [| | |discriminate].
    + destruct (Nat.eqb_spec i 0) as [e|ne]; inversion H; subst s'; clear H.
      * subst i. apply sim_fire; auto.
      * apply (rel_frame_w s _ ds i (mkW (WPhase 0) r) (set_pc (mkW (WPhase 0) r) (Protocol.WBar 1)));
          auto; try reflexivity; discriminate.
    + destruct (claimable s); inversion H; subst s'; clear H.
      * apply (rel_frame_w s _ ds i (mkW (WPhase 1) r) (set_pc (mkW (WPhase 1) r) (Protocol.WBar 2)));
          auto; try reflexivity; discriminate.
      * exists []. cbn [Determinism.run fold_left]. apply (rel_frame s); auto; try reflexivity. apply R.
    + destruct (i =? 0); inversion H; subst s'; clear H;
        apply (rel_frame_w s _ ds i (mkW (WPhase 2) r) (set_pc (mkW (WPhase 2) r) (Protocol.WBar 3)));
          auto; try reflexivity; discriminate.
  - discriminate.
Qed.

Lemma sim_step : forall s ds l s', Rel s ds -> Inv s -> J0 s -> pstep pa s l = Some s' ->
  exists sigma, Rel s' (drun (cap pa) sigma ds).
Proof.
  intros s ds l s' R HI J H. destruct l as [ntf|w sq nb|w|]; cbn [Protocol.step] in H.
  - eapply sim_prod; eauto.
  - eapply sim_work; eauto.
  - destruct (nth_error (ws s) w) as [wk|] eqn:E; [|discriminate].
    destruct (is_waitE wk) eqn:W; [|discriminate]. inversion H; subst s'; clear H.
    destruct wk as [p r]. unfold is_waitE in W. cbn [pc] in W. destruct p; try discriminate.
    apply (rel_frame_w s _ ds w (mkW WWaitE r) (set_pc (mkW WWaitE r) WWokenE)); auto; try reflexivity; discriminate.
  - destruct (pst s); try discriminate. inversion H; subst s'; clear H.
    exists []. cbn [Determinism.run fold_left]. apply (rel_frame s); auto; try reflexivity. apply R.
Qed.
End Sim.

(* ------------------------------------------------------------------------------------------ GOAL A *)
Lemma rel_init : forall pa script sc, script_match (nthr pa) script sc ->
  Rel sc (Protocol.init pa script) (Determinism.init (nthr pa) sc).
Proof.
  intros pa script sc (body & Esc & NC & Et). unfold Protocol.init, Determinism.init.
  constructor; cbn [items closed nseq todo ws rawbuf rounds s_q s_prod s_closed s_wk s_rounds map length rev].
  - constructor.
  - intros it [].
  - reflexivity.
  - exists []. split; [reflexivity|]. split; [reflexivity|]. exists body. auto.
  - clear. induction (nthr pa) as [|n IH]; cbn [repeat]; constructor; [reflexivity|exact IH].
  - rewrite inflight_repeat. cbn [app map]. clear.
    induction (nthr pa) as [|n IH]; [constructor|]. unfold buffered in *. cbn [repeat map concat snd app]. exact IH.
  - constructor.
Qed.

Theorem sim_reachable : forall pa script sc,
  Protocol.old_rule pa = false -> 1 <= nthr pa -> script_match (nthr pa) script sc ->
  forall s, reachable pa script s ->
  J0 s /\ exists sigma, Rel sc s (drun (cap pa) sigma (Determinism.init (nthr pa) sc)).
Proof.
  intros pa script sc Hrule Hn SM s R. induction R as [|s l s' R IH H].
  - split; [apply j0_init|]. exists []. apply rel_init. exact SM.
  - destruct IH as (J & sigma & RL).
    pose proof (inv_reachable_all pa script Hrule Hn s R) as HI.
    split; [eapply j0_step; eauto|].
    destruct (sim_step pa script sc Hrule Hn _ _ _ _ RL HI J H) as (sigma' & RL').
    exists (sigma ++ sigma'). unfold Determinism.run in *. rewrite fold_left_app. exact RL'.
Qed.

Theorem rounds_link_proof : forall pa script sc R,
  Protocol.old_rule pa = false -> 1 <= nthr pa -> script_match (nthr pa) script sc -> wf_script (nthr pa) R sc ->
  forall s, reachable pa script s ->
  Forall2 (fun seqs k => Permutation (map (task_at sc) seqs) (expected_round sc k))
          (rev (rounds s)) (seq 0 (length (rounds s))) /\
  (final s -> length (rounds s) = nblocks script).
Proof.
  intros pa script sc R Hrule Hn SM WF s RS.
  destruct (sim_reachable pa script sc Hrule Hn SM s RS) as (J & sigma & RL).
  split.
  - pose proof (rounds_as_intended (nthr pa) R sc (cap pa) WF sigma) as HR. cbv zeta in HR.
    pose proof (r_rounds _ _ _ RL) as RR.
    pose proof (f2_len _ _ _ _ _ RR) as LL. rewrite rev_length in LL. rewrite LL in HR.
    eapply f2_compose; [|exact HR|exact RR].
    intros rd seqs k P Q. cbn beta in *. eapply Permutation_trans; [apply Permutation_sym; exact Q|exact P].
  - intros F.
    pose proof (inv_reachable_all pa script Hrule Hn s RS) as HI.
    destruct (final_complete_proof pa script Hrule Hn s HI F) as (_ & _ & _ & FA & _).
    assert (E0 : exists w0, nth_error (ws s) 0 = Some w0).
    { destruct HI. destruct (ws s); cbn in *; [lia|eauto]. }
    destruct E0 as (w0 & E0). rewrite (J _ E0). rewrite Protocol_base.Forall_nth in FA. destruct (FA _ _ E0) as (P & Q).
    unfold m0. rewrite P, Q. cbn [past0 b2n]. lia.
Qed.

(* ------------------------------------------------------------------------------------------ GOAL B *)
Lemma lookupZ_prio_get : forall k m, lookupZ k m = prio_get k m.
Proof. intros k m. induction m as [|[k' v] m IH]; cbn [lookupZ prio_get]; [reflexivity|]. rewrite IH. reflexivity. Qed.
Lemma setZ_prio_set : forall k v m, setZ k v m = prio_set k v m.
Proof.
  intros k v m. induction m as [|[k' v'] m IH]; cbn [setZ prio_set]; [reflexivity|]. rewrite IH.
  destruct (N.eqb_spec k' k); subst; reflexivity.
Qed.

Lemma pops_app : forall a b, pops (a ++ b) = pops a ++ pops b.
Proof. intros. unfold pops. apply flat_map_app. Qed.
Lemma pops_cons : forall x l, pops (x :: l) = pop_of x ++ pops l.
Proof. reflexivity. Qed.
Lemma pops_repeat_push : forall t n, pops (repeat (PPush t) n) = repeat (OPush (ptask t)) n.
Proof. intros t n. induction n as [|n IH]; [reflexivity|]. cbn [repeat]. unfold pops in *. cbn [flat_map pop_of app]. rewrite IH. reflexivity. Qed.

Lemma compile_push_all : forall R pack n l st calls gc,
  (i32_min + Z.of_nat (length l) <= ps_next st <= i32_max)%Z ->
  (exists gc',
     flat_map (ops_of_cmd n)
       (compile_go false pack (map push_call l ++ calls) (ps_prios st) (ps_next st) (ps_seq st) gc)
     = pops (snd (push_all R false 1 n st l))
       ++ flat_map (ops_of_cmd n)
            (compile_go false pack calls (ps_prios (fst (push_all R false 1 n st l)))
               (ps_next (fst (push_all R false 1 n st l))) (ps_seq (fst (push_all R false 1 n st l))) gc')) /\
  (ps_next st - Z.of_nat (length l) <= ps_next (fst (push_all R false 1 n st l)) <= ps_next st)%Z /\
  ~ In PClose (snd (push_all R false 1 n st l)).
Proof.
  intros R pack n l. induction l as [|inp l IH]; intros st calls gc B.
  - cbn [map app push_all fst snd length pops flat_map]. split; [exists gc; reflexivity|]. split; [cbn [Z.of_nat]; rewrite Z.sub_0_r; split; apply Z.le_refl|intros []].
  - cbn [length] in B. cbn [map app push_all fst snd push_call compile_go]. rewrite lookupZ_prio_get, setZ_prio_set.
    unfold push_one. cbn [andb].
    destruct (prio_get (fst (fst (fst inp))) (ps_prios st)) as [p|] eqn:EG; cbn [fst snd andb].
    + match goal with |- context [push_all R false 1 n ?st1 l] => set (s1 := st1) end.
      destruct (IH s1 calls (gc + 1)%N) as ((gc' & E) & B' & NC).
      { unfold s1. cbn [ps_next]. lia. }
      unfold s1 in E at 1 2 3. cbn [ps_prios ps_next ps_seq] in E.
      split; [|split].
      * exists gc'. cbn [flat_map ops_of_cmd]. rewrite E, pops_app. reflexivity.
      * assert (N1 : ps_next s1 = ps_next st \/ ps_next s1 = (ps_next st - 1)%Z) by (unfold s1; cbn [ps_next]; auto).
        cbn [length]. lia.
      * intros I. apply in_app_or in I. destruct I as [[I|[]]|I]; [discriminate|contradiction].
    + rewrite wrap_i32_id by (unfold i32_min, i32_max in *; lia).
      match goal with |- context [push_all R false 1 n ?st1 l] => set (s1 := st1) end.
      destruct (IH s1 calls (gc + 1)%N) as ((gc' & E) & B' & NC).
      { unfold s1. cbn [ps_next]. lia. }
      unfold s1 in E at 1 2 3. cbn [ps_prios ps_next ps_seq] in E.
      split; [|split].
      * exists gc'. cbn [flat_map ops_of_cmd]. rewrite E, pops_app. reflexivity.
      * assert (N1 : ps_next s1 = ps_next st \/ ps_next s1 = (ps_next st - 1)%Z) by (unfold s1; cbn [ps_next]; auto).
        cbn [length]. lia.
      * intros I. apply in_app_or in I. destruct I as [[I|[]]|I]; [discriminate|contradiction].
Qed.

Theorem multifile_match_proof : forall n pack first rest,
  (2 * Z.of_nat (length (first ++ rest)) + 4 < det_prio_start - 1000000)%Z ->
  script_match n (compile_calls false pack (mf_calls first rest)) (multifile_script current_rule n first rest).
Proof.
  intros n pack first rest Hb. rewrite app_length, Nat2Z.inj_add in Hb. pose proof prio_start_val as PV.
  set (a := push_all current_rule false 1 n pstate0 first).
  set (b := flush_block n (fst a)).
  set (c := push_all current_rule false 1 n (fst b) rest).
  destruct (compile_push_all current_rule pack n first pstate0 ([CDrain; CSync] ++ map push_call rest) 0%N)
    as ((gc1 & E1) & B1 & NC1).
  { change (ps_next pstate0) with det_prio_start. unfold i32_min, i32_max. lia. }
  fold a in E1, B1, NC1.
  change (ps_next pstate0) with det_prio_start in B1.
  destruct (compile_push_all current_rule pack n rest (fst b) [] gc1) as ((gc2 & E2) & B2 & NC2).
  { change (ps_next (fst b)) with (ps_next (fst a)). unfold i32_min, i32_max. lia. }
  fold c in E2, B2, NC2.
  exists (snd a ++ [PWaitEmpty] ++ snd b ++ [PWaitEmpty] ++ snd c ++ final_block n (fst c)).
  split; [|split].
  - change (multifile_script current_rule n first rest)
      with (snd a ++ [PWaitEmpty] ++ snd b ++ [PWaitEmpty] ++ snd c ++ final_block n (fst c) ++ [PClose]).
    rewrite <- !app_assoc. reflexivity.
  - intros I. apply in_app_or in I. destruct I as [I|I]; [contradiction|].
    apply in_app_or in I. destruct I as [[I|[]]|I]; [discriminate|].
    apply in_app_or in I. destruct I as [I|I]; [apply repeat_spec in I; discriminate|].
    apply in_app_or in I. destruct I as [[I|[]]|I]; [discriminate|].
    apply in_app_or in I. destruct I as [I|I]; [contradiction|apply repeat_spec in I; discriminate].
  - unfold todo_of, compile_calls, mf_calls.
    change (@nil (N * Z)) with (ps_prios pstate0) at 1.
    change first_priority with (ps_next pstate0). change 0%N with (ps_seq pstate0) at 1.
    rewrite E1. cbn [app compile_go flat_map ops_of_cmd].
    rewrite app_nil_r in E2.
    change (ps_prios (fst b)) with (ps_prios (fst a)) in E2.
    change (ps_next (fst b)) with (ps_next (fst a)) in E2.
    change (ps_seq (fst b)) with (ps_seq (fst a) + 1)%N in E2.
    rewrite E2. cbn [compile_go flat_map]. rewrite !pops_app.
    change (pops [PWaitEmpty]) with [OPoll].
    change (snd b) with (repeat (PPush (mk_task true (0%N, 0%N) 0 det_flush_prio 0 (ps_seq (fst a)) (ps_rnd (fst a)))) n).
    unfold final_block, final_ops. repeat (rewrite pops_app || rewrite pops_cons). rewrite !pops_repeat_push.
    cbn [pop_of].
    rewrite <- ?app_assoc, ?app_nil_r. cbn [app]. rewrite <- ?app_assoc. cbn [app]. reflexivity.
Qed.

(* ------------------------------------------------------------------------------------------ GOAL C *)
Lemma blocks_pushes : forall pack l calls m np no gc, exists m' np' no' gc',
  list_sum (map blocks_of_cmd (compile_go false pack (map push_call l ++ calls) m np no gc))
  = list_sum (map blocks_of_cmd (compile_go false pack calls m' np' no' gc')).
Proof.
  intros pack l. induction l as [|inp l IH]; intros calls m np no gc.
  - exists m, np, no, gc. reflexivity.
  - cbn [map app push_call compile_go]. destruct (lookupZ (fst (fst (fst inp))) m); cbn [andb map blocks_of_cmd];
      rewrite list_sum_cons, Nat.add_0_l; apply IH.
Qed.

Lemma nblocks_mf : forall pack first rest, nblocks (compile_calls false pack (mf_calls first rest)) = 2.
Proof.
  intros pack first rest. unfold nblocks, compile_calls, mf_calls.
  destruct (blocks_pushes pack first ([CDrain; CSync] ++ map push_call rest) [] first_priority 0%N 0%N)
    as (m1 & np1 & no1 & gc1 & E1). rewrite E1. cbn [app compile_go map blocks_of_cmd].
  rewrite !list_sum_cons.
  destruct (blocks_pushes pack rest [] m1 np1 (no1 + 1)%N gc1) as (m2 & np2 & no2 & gc2 & E2).
  rewrite app_nil_r in E2. rewrite E2. reflexivity.
Qed.

Lemma f2_join_map : forall sc sc' (ex : nat -> list task),
  (forall k, NoDup (map t_key (ex k))) ->
  forall ks (la lb : list (list N)),
  Forall2 (fun seqs k => Permutation (map (task_at sc) seqs) (ex k)) la ks ->
  Forall2 (fun seqs k => Permutation (map (task_at sc') seqs) (ex k)) lb ks ->
  Forall2 (fun rd rd' => same_comp rd rd' /\ NoDup (map t_key (concat rd)))
          (map (fun seqs => [map (task_at sc) seqs]) la) (map (fun seqs => [map (task_at sc') seqs]) lb).
Proof.
  intros sc sc' ex ND ks. induction ks as [|k ks IH]; intros la lb Ha Hb; inversion Ha; inversion Hb; subst.
  - constructor.
  - cbn [map]. constructor; [|apply IH; assumption].
    unfold same_comp. cbn [concat]. rewrite !app_nil_r. split.
    + eapply Permutation_trans; [eassumption|apply Permutation_sym; eassumption].
    + eapply Permutation_NoDup; [apply Permutation_map; apply Permutation_sym; eassumption|apply ND].
Qed.

Section LinkFull.
  Variables G Buf Res Part : Type.
  Variable segment : Determinism.contig -> list N.
  Variable classify : G -> list (skey * N) -> G * list Buf.
  Variable flushf : Buf -> Buf * list (N * Part) * Res.
  Variable res_gid : Res -> N.
  Variable commit : G -> list Res -> list Buf -> G.
  Variable fin_seq : G -> G * list (N * Part).
  Variable fin_packs : G -> list (N * Part).
  Variable meta_parts : G -> list (N * Part).
  Hypothesis classify_streams_disjoint :
    forall g l, streams_disjoint Buf Res Part (map flushf (snd (classify g l))).
  Hypothesis fin_packs_distinct_streams : forall g, NoDup (map fst (fin_packs g)).
  Notation out := (output G Buf Res Part segment classify flushf res_gid commit fin_seq fin_packs meta_parts).

  Theorem terminating_and_deterministic_proof : forall n n' capa capa' pack pack' first rest,
    0 < n -> 0 < n' ->
    (2 * Z.of_nat (length (first ++ rest)) + 4 < det_prio_start - 1000000)%Z ->
    NoDup (map (fun inp : input => fst (fst inp)) (first ++ rest)) ->
    let script := compile_calls false pack (mf_calls first rest) in
    let script' := compile_calls false pack' (mf_calls first rest) in
    let pa := mkParams n capa false in
    let pa' := mkParams n' capa' false in
    let sc := multifile_script current_rule n first rest in
    let sc' := multifile_script current_rule n' first rest in
    (forall s, reachable pa script s -> ends_final pa s) /\
    (forall s s' cl cl' s3 s3' g0,
       reachable pa script s -> final s -> reachable pa' script' s' -> final s' ->
       out g0 (attach (proto_rounds sc s) cl) s3 = out g0 (attach (proto_rounds sc' s') cl') s3').
  Proof.
    intros n n' capa capa' pack pack' first rest Hn Hn' Hb Hk script script' pa pa' sc sc'.
    split.
    - intros s RS. apply (run_reaches_final_proof pa script eq_refl Hn s RS).
    - intros s s' cl cl' s3 s3' g0 RS F RS' F'.
      pose proof (multifile_wf n first rest Hn Hb) as WF. pose proof (multifile_wf n' first rest Hn' Hb) as WF'.
      pose proof (multifile_match_proof n pack first rest Hb) as SM.
      pose proof (multifile_match_proof n' pack' first rest Hb) as SM'.
      destruct (rounds_link_proof pa script sc 2 eq_refl Hn SM WF s RS) as (F2 & FL).
      destruct (rounds_link_proof pa' script' sc' 2 eq_refl Hn' SM' WF' s' RS') as (F2' & FL').
      specialize (FL F). specialize (FL' F'). unfold script in FL. unfold script' in FL'.
      rewrite nblocks_mf in FL, FL'. rewrite FL in F2. rewrite FL' in F2'.
      destruct (multifile_ctg_indep current_rule n n' first rest) as [E1 E2].
      pose proof (expected_round_same_ctg _ _ E1) as HE.
      apply schedule_independent_proof; [exact classify_streams_disjoint|exact fin_packs_distinct_streams|].
      unfold attach. apply attach_same.
      + unfold proto_rounds. apply (f2_join_map sc sc' (expected_round sc)) with (ks := seq 0 2).
        * intros k. rewrite expected_round_ctg. apply nodup_map_filter. fold sc in E2. rewrite E2. exact Hk.
        * exact F2.
        * eapply forall2_impl; [|exact F2']. intros seqs k HH. cbn beta in *. rewrite HE. exact HH.
      + rewrite app_length, repeat_length. lia.
      + rewrite app_length, repeat_length. lia.
  Qed.
End LinkFull.
