(* Varint_proofs.v - lemmas about model/Varint.v (archive varint and fixed u64) *)
From Ragc Require Import Mach Consts_archive Varint.
From Coq Require Import Lia ZifyBool ZifyN ZifyNat.
Arguments N.add : simpl never.
Arguments N.sub : simpl never.
Arguments N.mul : simpl never.
Arguments N.shiftl : simpl never.
Arguments N.shiftr : simpl never.
Arguments N.land : simpl never.
Arguments N.modulo : simpl never.
Arguments N.div : simpl never.
Arguments N.pow : simpl never.
Arguments N.of_nat : simpl never.
Arguments N.to_nat : simpl never.

Ltac vconsts := unfold vi_shift_w, vi_mul_w, vi_mask_w, vi_shift_r in *.

Lemma pow256_pos : forall n, 0 < 256 ^ n.
Proof. intros. apply N.neq_0_lt_0. apply N.pow_nonzero. discriminate. Qed.

Lemma pow256_succ : forall m, 256 ^ N.of_nat (S m) = 256 * 256 ^ N.of_nat m.
Proof. intros. rewrite Nat2N.inj_succ, N.pow_succ_r'. reflexivity. Qed.

Lemma two64_pow : two64 = 256 ^ 8.
Proof. reflexivity. Qed.

Lemma lenN_app : forall {A} (a b : list A), lenN (a ++ b) = lenN a + lenN b.
Proof. intros. unfold lenN. rewrite app_length. lia. Qed.

Lemma lenN_cons : forall {A} (x : A) l, lenN (x :: l) = 1 + lenN l.
Proof. intros. unfold lenN. cbn [length]. lia. Qed.

Lemma lenN_nil : forall {A}, lenN (@nil A) = 0.
Proof. reflexivity. Qed.

(* --- digits *)
Lemma digit_spec : forall v j, N.land (shr64 v (N.of_nat j * 8)) 255 = (v / 256 ^ N.of_nat j) mod 256.
Proof.
  intros. unfold shr64. rewrite N.shiftr_div_pow2.
  change 255 with (N.ones 8). rewrite N.land_ones.
  rewrite N.mul_comm, N.pow_mul_r. reflexivity.
Qed.

Lemma mod_split : forall v m, v mod (256 * 256 ^ m) = v mod 256 ^ m + 256 ^ m * ((v / 256 ^ m) mod 256).
Proof.
  intros. rewrite (N.mul_comm 256). apply N.mod_mul_r.
  - apply N.pow_nonzero. discriminate.
  - discriminate.
Qed.

Lemma vi_be_length : forall n v, length (vi_be n v) = n.
Proof. induction n; intros; cbn [vi_be length]; [reflexivity | rewrite IHn; reflexivity]. Qed.

Lemma vi_be_bytes : forall n v, bytes (vi_be n v).
Proof.
  induction n; intros; cbn [vi_be]; constructor.
  - vconsts. rewrite digit_spec. unfold byte. apply N.mod_lt. discriminate.
  - apply IHn.
Qed.

Lemma shl64_small : forall a, a * 256 < two64 -> shl64 a 8 = a * 256.
Proof.
  intros. unfold shl64, wrap64. rewrite N.shiftl_mul_pow2. change (2 ^ 8) with 256.
  apply N.mod_small. assumption.
Qed.

Lemma vi_read_be_spec : forall n v acc rest,
  acc * 256 ^ N.of_nat n + v mod 256 ^ N.of_nat n < two64 ->
  vi_read_be n acc (vi_be n v ++ rest) = Some (acc * 256 ^ N.of_nat n + v mod 256 ^ N.of_nat n, rest).
Proof.
  induction n; intros v acc rest H.
  - cbn [vi_be vi_read_be app]. change (256 ^ N.of_nat 0) with 1 in *. rewrite N.mod_1_r, N.mul_1_r, N.add_0_r. reflexivity.
  - cbn [vi_be vi_read_be app]. vconsts. rewrite digit_spec.
    rewrite pow256_succ in *. rewrite mod_split in *.
    pose proof (pow256_pos (N.of_nat n)) as Hp.
    set (P := 256 ^ N.of_nat n) in *. set (d := (v / P) mod 256) in *. set (lo := v mod P) in *.
    assert (Hd : d < 256) by (apply N.mod_lt; discriminate).
    assert (Ha : acc * 256 < two64) by nia.
    rewrite shl64_small by assumption.
    rewrite IHn.
    + f_equal. f_equal. fold P. fold lo. nia.
    + fold P. fold lo. nia.
Qed.

(* --- byte count *)
Lemma vi_count_spec : forall f v, v < 256 ^ N.of_nat f ->
  let c := vi_count f v in c <= N.of_nat f /\ v < 256 ^ c /\ (c = 0 <-> v = 0).
Proof.
  induction f; intros v Hv; cbn [vi_count]; cbv zeta.
  - change (256 ^ N.of_nat 0) with 1 in Hv. split; [lia|]. split; [change (256 ^ 0) with 1; lia|]. split; lia.
  - destruct (0 <? v) eqn:E.
    + rewrite pow256_succ in Hv. vconsts. unfold shr64. rewrite N.shiftr_div_pow2. change (2 ^ 8) with 256.
      assert (Hq : v / 256 < 256 ^ N.of_nat f).
      { apply N.div_lt_upper_bound; [discriminate | assumption]. }
      destruct (IHf _ Hq) as (H1 & H2 & H3). cbv zeta in *.
      set (c := vi_count f (v / 256)) in *.
      split; [lia|]. split.
      * rewrite N.add_comm, N.add_1_r, N.pow_succ_r'.
        pose proof (N.div_mod v 256 ltac:(discriminate)).
        pose proof (N.mod_lt v 256 ltac:(discriminate)). nia.
      * split; intro; lia.
    + split; [lia|]. split; [change (256 ^ 0) with 1; lia|]. split; lia.
Qed.

Lemma vi_count8 : forall v, v < two64 ->
  let c := vi_count 8 v in c <= 8 /\ v < 256 ^ c /\ (c = 0 <-> v = 0).
Proof. intros v H. apply (vi_count_spec 8 v). exact H. Qed.

Lemma write_varint_cases : forall v, v < two64 ->
  (v = 0 /\ write_varint v = [0]) \/
  (exists n, (1 <= n <= 8)%nat /\ v < 256 ^ N.of_nat n /\ write_varint v = N.of_nat n :: vi_be n v).
Proof.
  intros v H. destruct (vi_count8 v H) as (H1 & H2 & H3). cbv zeta in *.
  unfold write_varint. cbv zeta. set (c := vi_count 8 v) in *.
  destruct (c =? 0) eqn:E.
  - left. split; [apply H3; lia | reflexivity].
  - right. exists (N.to_nat c). rewrite N2Nat.id. repeat split; first [lia | assumption].
Qed.

Lemma write_varint_len : forall v, v < two64 -> 1 <= lenN (write_varint v) <= 9.
Proof.
  intros v H. destruct (write_varint_cases v H) as [[_ ->] | (n & Hn & _ & ->)].
  - cbv. split; discriminate.
  - rewrite lenN_cons. unfold lenN. rewrite vi_be_length. lia.
Qed.

Lemma write_varint_bytes : forall v, v < two64 -> bytes (write_varint v).
Proof.
  intros v H. destruct (write_varint_cases v H) as [[_ ->] | (n & Hn & _ & ->)].
  - constructor; [reflexivity | constructor].
  - constructor; [unfold byte; lia | apply vi_be_bytes].
Qed.

Lemma write_varint_nonempty : forall v, write_varint v <> [].
Proof. intros v. unfold write_varint. cbv zeta. destruct (vi_count 8 v =? 0); discriminate. Qed.

Theorem varint_roundtrip_proof : forall v rest, v < two64 ->
  read_varint (write_varint v ++ rest) = Ok (v, lenN (write_varint v), rest).
Proof.
  intros v rest H. destruct (write_varint_cases v H) as [[-> ->] | (n & Hn & Hv & ->)].
  - reflexivity.
  - cbn [app read_varint]. destruct (N.of_nat n =? 0) eqn:E; [lia|].
    rewrite Nat2N.id.
    pose proof (vi_read_be_spec n v 0 rest) as R. rewrite N.mul_0_l, N.add_0_l in R.
    rewrite (N.mod_small v) in R by assumption.
    rewrite R by assumption. rewrite lenN_cons. unfold lenN. rewrite vi_be_length.
    rewrite N.add_comm. reflexivity.
Qed.

(* reading never yields a value of 2^64 or more, and consumes at least one byte *)
Lemma vi_read_be_consumes : forall n acc l v r, vi_read_be n acc l = Some (v, r) -> length l = (n + length r)%nat.
Proof.
  induction n; intros acc l v r H; cbn [vi_read_be] in H.
  - inversion H; subst. reflexivity.
  - destruct l as [|b l']; [discriminate|]. apply IHn in H. cbn [length]. lia.
Qed.

Lemma read_varint_consumes : forall l v k r, read_varint l = Ok (v, k, r) -> (length r < length l)%nat.
Proof.
  intros l v k r H. unfold read_varint in H. destruct l as [|nb l']; [discriminate|].
  destruct (nb =? 0).
  - inversion H; subst. cbn [length]. lia.
  - destruct (vi_read_be (N.to_nat nb) 0 l') as [[v' r']|] eqn:E; [|discriminate].
    inversion H; subst. apply vi_read_be_consumes in E. cbn [length]. lia.
Qed.

Lemma read_varint_no_panic : forall l, read_varint l <> Panic.
Proof.
  intros l. unfold read_varint. destruct l as [|nb l']; [discriminate|].
  destruct (nb =? 0); [discriminate|]. destruct (vi_read_be (N.to_nat nb) 0 l') as [[v' r']|]; discriminate.
Qed.

(* --- fixed u64 *)
Lemma le_bytes_length : forall n v, length (le_bytes n v) = n.
Proof. induction n; intros; cbn [le_bytes length]; [reflexivity | rewrite IHn; reflexivity]. Qed.

Lemma le_value_bytes : forall n v, le_value (le_bytes n v) = v mod 256 ^ N.of_nat n.
Proof.
  induction n; intros v; cbn [le_bytes le_value].
  - change (256 ^ N.of_nat 0) with 1. rewrite N.mod_1_r. reflexivity.
  - rewrite IHn, pow256_succ. rewrite N.mod_mul_r by (try discriminate; apply N.pow_nonzero; discriminate).
    reflexivity.
Qed.

Lemma le_bytes_bytes : forall n v, bytes (le_bytes n v).
Proof.
  induction n; intros; cbn [le_bytes]; constructor; [|apply IHn].
  unfold byte. apply N.mod_lt. discriminate.
Qed.

Lemma le_value_fixed : forall v, v < two64 -> le_value (write_fixed_u64 v) = v.
Proof. intros. unfold write_fixed_u64. rewrite le_value_bytes. apply N.mod_small. assumption. Qed.

Lemma firstn_app_exact : forall {A} (a b : list A) n, length a = n -> firstn n (a ++ b) = a.
Proof. intros. subst. rewrite firstn_app, Nat.sub_diag, firstn_all. cbn. apply app_nil_r. Qed.

Lemma skipn_app_exact : forall {A} (a b : list A) n, length a = n -> skipn n (a ++ b) = b.
Proof. intros. subst. rewrite skipn_app, Nat.sub_diag, skipn_all. reflexivity. Qed.

Theorem fixed_u64_roundtrip_proof : forall v rest, v < two64 ->
  read_fixed_u64 (write_fixed_u64 v ++ rest) = Ok (v, rest) /\ length (write_fixed_u64 v) = 8%nat.
Proof.
  intros v rest H. split; [|apply le_bytes_length].
  unfold read_fixed_u64. rewrite lenN_app. unfold lenN at 1. unfold write_fixed_u64 at 1. rewrite le_bytes_length.
  destruct (N.of_nat 8 + lenN rest <? 8) eqn:E; [lia|].
  rewrite firstn_app_exact by apply le_bytes_length.
  rewrite skipn_app_exact by apply le_bytes_length.
  rewrite le_value_fixed by assumption. reflexivity.
Qed.

Lemma le_value_bound : forall l, bytes l -> le_value l < 256 ^ lenN l.
Proof.
  induction l; intros H.
  - cbv. reflexivity.
  - inversion H; subst. cbn [le_value]. rewrite lenN_cons. replace (1 + lenN l) with (N.succ (lenN l)) by lia. rewrite N.pow_succ_r'.
    specialize (IHl H3). unfold byte in H2. nia.
Qed.
