(* Collection_proofs.v - store in batches / load all batches gives the catalogue back (any number of samples,
   any batch size > 0; cursor = sum of the batch sizes), under the zstd hypothesis zd (zc l x) = Some x. *)
From Ragc Require Import Mach Consts_collection CVarint Zigzag Names Details Collection.
From Ragc Require Import CVarint_proofs Zigzag_proofs Names_proofs Details_proofs.
Require Import Lia ZifyBool ZifyN ZifyNat.
Open Scope N_scope.
Arguments N.add : simpl never.
Arguments N.sub : simpl never.
Arguments N.mul : simpl never.
Arguments N.min : simpl never.
Arguments N.leb : simpl never.

(* ---------------------------------------------------------------- specification vocabulary *)
(* a sample as the codec can carry it *)
Definition sample_wf (s : sample) : Prop :=
  lenN (scontigs s) < 4294967296 /\
  Forall (fun ct => Forall (fun b => 1 <= b < 128) (cname ct) /\
                    lenN (csegs ct) < 4294967296 /\
                    Forall (fun x => (sg x < 4294967295 /\ si x < 2147483647 /\ sl x < 4294967296) \/ x = seg_empty)
                           (csegs ct)) (scontigs s).

(* the batches the writer's loop forms: consecutive groups of bs samples *)
Fixpoint chunks {A} (fuel bs : nat) (l : list A) : list (list A) :=
  match fuel with
  | O => []
  | S f => match l with [] => [] | _ => firstn bs l :: chunks f bs (skipn bs l) end
  end.

Definition blank (s : sample) : sample := mkSample (sname s) [].
Definition named (s : sample) : sample :=
  mkSample (sname s) (map (fun n => mkContig n []) (map cname (scontigs s))).

  (* ---------------------------------------------------------------- list lemmas *)
  Lemma nth_error_mid {A} (P : list A) x R : nth_error (P ++ x :: R) (length P) = Some x.
  Proof. rewrite nth_error_app2 by lia. rewrite Nat.sub_diag. reflexivity. Qed.
  Lemma set_nth_mid {A} (P : list A) x y R : set_nth (P ++ x :: R) (length P) y = P ++ y :: R.
  Proof. induction P as [|p P IH]; [reflexivity|]. cbn [app length set_nth]. rewrite IH. reflexivity. Qed.
  Lemma nthN_mid {A} (P : list A) x R : nthN (P ++ x :: R) (lenN P) = Some x.
  Proof. unfold nthN. rewrite to_nat_lenN. apply nth_error_mid. Qed.
  Lemma lenN_map {A B} (f : A -> B) l : lenN (map f l) = lenN l.
  Proof. unfold lenN. rewrite map_length. reflexivity. Qed.

  Lemma put_names_mid : forall B P R,
    put_names (P ++ map blank B ++ R) (length P) (names_of B) = P ++ map named B ++ R.
  Proof.
    induction B as [|s B IH]; intros P R; [reflexivity|].
    cbn [map names_of app put_names]. rewrite nth_error_mid, set_nth_mid.
    replace (P ++ mkSample (sname (blank s)) (map (fun n => mkContig n []) (map cname (scontigs s))) :: map blank B ++ R)
      with ((P ++ [named s]) ++ map blank B ++ R) by (rewrite <- app_assoc; reflexivity).
    replace (S (length P)) with (length (P ++ [named s])) by (rewrite app_length; cbn; lia).
    fold (names_of B). rewrite IH. rewrite <- app_assoc. reflexivity.
  Qed.

  Lemma put_contig_segs_ok cs :
    put_contig_segs (map (fun n => mkContig n []) (map cname cs)) (map csegs cs) = Some cs.
  Proof.
    induction cs as [|[n sg] cs IH]; [reflexivity|]. cbn [map put_contig_segs cname csegs]. rewrite IH. reflexivity.
  Qed.

  Lemma put_segs_mid : forall B P R,
    put_segs (P ++ map named B ++ R) (length P) (segs_of B) = Some (P ++ B ++ R).
  Proof.
    induction B as [|s B IH]; intros P R; [reflexivity|].
    cbn [map segs_of app put_segs]. rewrite nth_error_mid. cbn [named scontigs sname].
    rewrite put_contig_segs_ok. rewrite set_nth_mid.
    replace (P ++ mkSample (sname s) (scontigs s) :: map named B ++ R) with ((P ++ [s]) ++ map named B ++ R)
      by (rewrite <- app_assoc; destruct s; reflexivity).
    replace (S (length P)) with (length (P ++ [s])) by (rewrite app_length; cbn; lia).
    fold (segs_of B). rewrite IH. rewrite <- app_assoc. reflexivity.
  Qed.

  (* ---------------------------------------------------------------- sample ids after loading *)
  Lemma id_get_remove_other m k1 k2 : k1 <> k2 -> id_get (id_remove m k1) k2 = id_get m k2.
  Proof.
    intro H. induction m as [|[k' v] m IH]; [reflexivity|]. cbn [id_remove id_get].
    destruct (beqb k' k1) eqn:E1.
    - apply beqb_eq in E1. subst k'. rewrite IH.
      replace (beqb k1 k2) with false by (symmetry; apply beqb_neq; exact H). reflexivity.
    - cbn [id_get]. rewrite IH. reflexivity.
  Qed.
  Lemma id_get_insert m k1 v k2 :
    id_get (id_insert m k1 v) k2 = if beqb k1 k2 then Some v else id_get m k2.
  Proof.
    unfold id_insert. cbn [id_get]. destruct (beqb k1 k2) eqn:E; [reflexivity|].
    apply id_get_remove_other. apply beqb_neq. exact E.
  Qed.

  (* after deserialize_sample_names with pairwise different names, looking a name up gives its position *)
  Lemma ids_of_get names : forall i m nm j,
    NoDup names -> nth_error names j = Some nm -> id_get (ids_of names i m) nm = Some (i + N.of_nat j).
  Proof.
    induction names as [|n names IH]; intros i m nm j Hnd Hj; [destruct j; discriminate|].
    inversion Hnd as [|? ? Hnotin Hnd']; subst. cbn [ids_of].
    destruct j as [|j].
    - injection Hj as ->.
      assert (Hkeep : forall names' i' m', ~ In nm names' -> id_get (ids_of names' i' m') nm = id_get m' nm).
      { induction names' as [|n' names' IHn]; intros i' m' Hni; [reflexivity|]. cbn [ids_of].
        rewrite IHn by (intro; apply Hni; right; assumption). rewrite id_get_insert.
        replace (beqb n' nm) with false; [reflexivity|]. symmetry. apply beqb_neq. intro; subst. apply Hni. left. reflexivity. }
      rewrite Hkeep by exact Hnotin. rewrite id_get_insert, beqb_refl. f_equal. lia.
    - cbn [nth_error] in Hj. rewrite (IH (i + 1) _ nm j Hnd' Hj). f_equal. lia.
  Qed.

Section WithZstd.
  Variable zc : N -> list N -> list N.
  Variable zd : list N -> option (list N).
  Hypothesis zd_zc : forall l x, zd (zc l x) = Some x.
  Hypothesis zc_nonempty : forall l x, zc l x <> [].
  Variables ss k : N.
  Hypothesis Hpred : ss + k <= 2147483648.

  (* a batch whose five detail streams (and their zstd images) have lengths that fit the u32 size fields *)
  Definition batch_small (B : list sample) : Prop :=
    match ser_details ss k (segs_of B) with
    | Ok vd => Forall (fun s => lenN s < 4294967296 /\ lenN (zc 19 s) < 4294967296) (streams_list vd)
    | _ => True
    end.
  Definition batch_ok (B : list sample) : Prop :=
    Forall sample_wf B /\ lenN B < 4294967296 /\ batch_small B.

  Definition names_part (B : list sample) : part :=
    let v := ser_names (names_of B) in (zc 18 v, lenN v).
  Definition details_part (B : list sample) : part :=
    match ser_details ss k (segs_of B) with
    | Ok vd => (pack5 (streams_list vd) (map (zc 19) (streams_list vd)), 0)
    | _ => ([], 0)
    end.

  (* ---------------------------------------------------------------- what well-formed samples give the codecs *)
  Lemma names_of_ok B :
    Forall sample_wf B ->
    Forall (fun names => Forall (fun n => Forall (fun b => 1 <= b < 128) n) names /\ lenN names < 4294967296) (names_of B).
  Proof.
    induction 1 as [|s B [Hl Hc] _ IH]; [constructor|]. cbn [names_of map]. constructor; [|exact IH]. split.
    - rewrite Forall_map. eapply Forall_impl; [|exact Hc]. cbn. intros ct H; tauto.
    - rewrite lenN_map. exact Hl.
  Qed.
  Lemma segs_of_ok B :
    Forall sample_wf B ->
    Forall (fun s => Forall (fun c => Forall (fun x =>
            (sg x < 4294967295 /\ si x < 2147483647 /\ sl x < 4294967296) \/ x = seg_empty) c
            /\ lenN c < 4294967296) s /\ lenN s < 4294967296) (segs_of B).
  Proof.
    induction 1 as [|s B [Hl Hc] _ IH]; [constructor|]. cbn [segs_of map]. constructor; [|exact IH]. split.
    - rewrite Forall_map. eapply Forall_impl; [|exact Hc]. cbn. intros ct H; tauto.
    - rewrite lenN_map. exact Hl.
  Qed.

  Lemma ser_details_ok B : batch_ok B -> exists vd, ser_details ss k (segs_of B) = Ok vd /\
      deser_details ss k vd = Ok (segs_of B) /\
      Forall (fun s => lenN s < 4294967296 /\ lenN (zc 19 s) < 4294967296) (streams_list vd).
  Proof.
    intros [Hwf [Hl Hs]].
    destruct (details_roundtrip_proof ss k (segs_of B) Hpred) as [vd [E D]].
    - unfold segs_of. rewrite lenN_map. exact Hl.
    - apply segs_of_ok. exact Hwf.
    - exists vd. split; [exact E|]. split; [exact D|]. unfold batch_small in Hs. rewrite E in Hs. exact Hs.
  Qed.

  (* ---------------------------------------------------------------- the packed details part *)
  Lemma take5_ok comp : forall sizes rest,
    map snd sizes = map lenN comp -> take5 sizes (concat comp ++ rest) = Ok comp.
  Proof.
    induction comp as [|z comp IH]; intros [|[r c] sizes] rest H; try discriminate; [reflexivity|].
    cbn [map snd] in H. injection H as Hc Hs. subst c. cbn [concat take5]. rewrite <- app_assoc.
    replace (lenN z <=? lenN (z ++ concat comp ++ rest)) with true
      by (symmetry; apply N.leb_le; rewrite lenN_app; lia).
    rewrite skipnN_app, firstnN_app. rewrite IH by exact Hs. reflexivity.
  Qed.
  Lemma unz_ok l x : unz zd (zc l x) (lenN x) = Ok x.
  Proof. unfold unz. rewrite zd_zc. rewrite N.eqb_refl. reflexivity. Qed.
  Lemma unz5_ok raw :
    unz5 zd (map (fun s => (lenN s, lenN (zc 19 s))) raw) (map (zc 19) raw) = Ok raw.
  Proof.
    induction raw as [|s raw IH]; [reflexivity|]. cbn [map unz5]. rewrite unz_ok. cbn [obnd]. rewrite IH. reflexivity.
  Qed.

  Lemma unpack5 s0 s1 s2 s3 s4 :
    Forall (fun s => lenN s < 4294967296 /\ lenN (zc 19 s) < 4294967296) [s0; s1; s2; s3; s4] ->
    let raw := [s0; s1; s2; s3; s4] in
    obnd (cv_decode_n 10 (pack5 raw (map (zc 19) raw))) (fun sr =>
      let sizes := pairs (fst sr) in
      obnd (take5 sizes (snd sr)) (fun comp => unz5 zd sizes comp)) = Ok raw.
  Proof.
    intros H raw.
    set (vals := [lenN s0; lenN (zc 19 s0); lenN s1; lenN (zc 19 s1); lenN s2; lenN (zc 19 s2);
                  lenN s3; lenN (zc 19 s3); lenN s4; lenN (zc 19 s4)]).
    assert (Hv : Forall (fun v => v < 4294967296) vals).
    { subst vals. repeat match goal with H : Forall _ (_ :: _) |- _ => inversion H; clear H; subst end.
      repeat constructor; tauto. }
    assert (Hp : pack5 raw (map (zc 19) raw) = concat (map cv_encode vals) ++ concat (map (zc 19) raw)).
    { subst raw vals. unfold pack5. cbn [combine map concat fst snd].
      repeat match goal with H : Forall _ (_ :: _) |- _ => inversion H; clear H; subst end.
      rewrite !wrap32_small by tauto. rewrite <- !app_assoc. reflexivity. }
    rewrite Hp. change 10%nat with (length vals).
    rewrite cv_decode_n_roundtrip by exact Hv. cbn [obnd fst snd].
    change (pairs vals) with (map (fun s => (lenN s, lenN (zc 19 s))) raw).
    rewrite <- (app_nil_r (concat (map (zc 19) raw))).
    rewrite take5_ok by (rewrite !map_map; reflexivity).
    cbn [obnd]. apply unz5_ok.
  Qed.

  (* ---------------------------------------------------------------- one batch: load *)
  Lemma read_part_meta0 x : read_part (x, 0) = (x, 0).
  Proof. unfold read_part. destruct x; reflexivity. Qed.
  Lemma read_part_nonempty l x m : read_part (zc l x, m) = (zc l x, m).
  Proof. unfold read_part. cbn [fst]. pose proof (zc_nonempty l x). destruct (zc l x); [contradiction | reflexivity]. Qed.

  Lemma load_step a b B P R idm nl :
    batch_ok B ->
    nthN (a_contigs a) b = Some (names_part B) ->
    nthN (a_details a) b = Some (details_part B) ->
    load_contig_batch zd (mkColl (P ++ map blank B ++ R) idm ss k nl (lenN P)) a b =
    Ok (mkColl ((P ++ B) ++ R) idm ss k (lenN B) (lenN (P ++ B))).
  Proof.
    intros HB Hn Hd. pose proof HB as [Hwf [Hl _]].
    destruct (ser_details_ok B HB) as [vd [E [D Hs]]].
    unfold load_contig_batch. cbn [samples_loaded]. rewrite Hn. unfold names_part.
    rewrite read_part_nonempty. cbn [fst snd]. rewrite unz_ok. cbn [obnd].
    unfold deserialize_contig_names. cbn [samples ids segment_size kmer_length samples_loaded].
    rewrite names_roundtrip_proof.
    2:{ apply names_of_ok. exact Hwf. }
    2:{ unfold names_of. rewrite lenN_map. exact Hl. }
    2:{ unfold names_of. rewrite !lenN_app, !lenN_map. lia. }
    cbn [obnd fst snd]. rewrite to_nat_lenN, put_names_mid.
    rewrite Hd. unfold details_part. rewrite E. rewrite read_part_meta0. cbn [fst snd].
    destruct vd as [[[[s0 s1] s2] s3] s4]. cbn [streams_list] in *.
    pose proof (unpack5 s0 s1 s2 s3 s4 Hs) as Hu. cbn zeta in Hu.
    destruct (cv_decode_n 10 (pack5 [s0; s1; s2; s3; s4] (map (zc 19) [s0; s1; s2; s3; s4]))) as [sr| |];
      cbn [obnd] in Hu; try discriminate. cbn [obnd].
    destruct (take5 (pairs (fst sr)) (snd sr)) as [comp| |]; cbn [obnd] in Hu; try discriminate. cbn [obnd].
    rewrite Hu. cbn [obnd].
    unfold deserialize_contig_details. cbn [samples ids segment_size kmer_length samples_loaded no_samples_in_last_batch].
    rewrite D. cbn [obnd]. rewrite to_nat_lenN, put_segs_mid.
    unfold with_samples. cbn [samples ids segment_size kmer_length samples_loaded no_samples_in_last_batch].
    unfold names_of. rewrite lenN_map. rewrite lenN_app, <- app_assoc. reflexivity.
  Qed.

  Lemma load_loop_ok a : forall Bs2 Bs1 idm nl,
    a_contigs a = map names_part (Bs1 ++ Bs2) ->
    a_details a = map details_part (Bs1 ++ Bs2) ->
    Forall batch_ok Bs2 ->
    exists nl',
    load_loop zd (length Bs2) (lenN Bs1) (mkColl (concat Bs1 ++ map blank (concat Bs2)) idm ss k nl (lenN (concat Bs1))) a =
    Ok (mkColl (concat (Bs1 ++ Bs2)) idm ss k nl' (lenN (concat (Bs1 ++ Bs2)))).
  Proof.
    induction Bs2 as [|B Bs2 IH]; intros Bs1 idm nl Hc Hd Hok.
    - exists nl. cbn [length load_loop concat map]. rewrite !app_nil_r. reflexivity.
    - inversion Hok as [|? ? HB Hok']; subst.
      cbn [length load_loop concat]. rewrite map_app.
      rewrite (load_step a (lenN Bs1) B (concat Bs1) (map blank (concat Bs2)) idm nl HB).
      2:{ rewrite Hc, map_app. cbn [map]. rewrite <- (lenN_map names_part Bs1). apply nthN_mid. }
      2:{ rewrite Hd, map_app. cbn [map]. rewrite <- (lenN_map details_part Bs1). apply nthN_mid. }
      cbn [obnd].
      specialize (IH (Bs1 ++ [B]) idm (lenN B)).
      rewrite <- !app_assoc in IH. cbn [app] in IH.
      destruct (IH Hc Hd Hok') as [nl' IH'].
      exists nl'. rewrite concat_app in IH'. cbn [concat] in IH'. rewrite app_nil_r in IH'.
      replace (lenN Bs1 + 1) with (lenN (Bs1 ++ [B])) by (rewrite lenN_app; reflexivity).
      exact IH'.
  Qed.

  (* ---------------------------------------------------------------- one batch: store *)
  Lemma store_step a B P R idm nl sl' :
    batch_ok B ->
    store_contig_batch zc (mkColl (map blank P ++ B ++ R) idm ss k nl sl') a (lenN P) (lenN P + lenN B) =
    Ok (mkColl (map blank (P ++ B) ++ R) idm ss k nl sl',
        mkArch (a_samples a) (a_contigs a ++ [names_part B]) (a_details a ++ [details_part B]) (a_cur a)).
  Proof.
    intro HB. destruct (ser_details_ok B HB) as [vd [E _]].
    assert (Hslice : slice (map blank P ++ B ++ R) (lenN P) (lenN P + lenN B) = B).
    { unfold slice. replace (lenN P + lenN B - lenN P) with (lenN B) by lia.
      rewrite <- (lenN_map blank P). rewrite skipnN_app. apply firstnN_app. }
    unfold store_contig_batch, serialize_contig_names, serialize_contig_details, range_ok.
    cbn [samples segment_size kmer_length].
    replace ((lenN P <=? lenN P + lenN B) && (lenN P + lenN B <=? lenN (map blank P ++ B ++ R))) with true.
    2:{ symmetry. apply andb_true_iff. split; apply N.leb_le; [lia|]. rewrite !lenN_app, lenN_map. lia. }
    rewrite Hslice. cbn [obnd]. rewrite E. cbn [obnd].
    unfold with_samples, clear_contigs. cbn [samples ids segment_size kmer_length samples_loaded no_samples_in_last_batch].
    rewrite Hslice. unfold names_part, details_part. rewrite E.
    f_equal. f_equal. f_equal.
    rewrite <- (lenN_map blank P) at 1. rewrite firstnN_app.
    replace (skipnN (lenN P + lenN B) (map blank P ++ B ++ R)) with R.
    2:{ rewrite app_assoc. rewrite <- (lenN_map blank P), <- lenN_app. rewrite skipnN_app. reflexivity. }
    rewrite map_app, <- app_assoc. reflexivity.
  Qed.

  Lemma chunks_fuel {A} bs : (0 < bs)%nat -> forall f1 f2 (l : list A),
    (length l <= f1)%nat -> (length l <= f2)%nat -> chunks f1 bs l = chunks f2 bs l.
  Proof.
    intros Hbs. induction f1 as [|f1 IH]; intros f2 l H1 H2.
    - destruct l; [|cbn in H1; lia]. destruct f2; reflexivity.
    - destruct l as [|x l]; [destruct f2; reflexivity|].
      destruct f2 as [|f2]; [cbn in H2; lia|]. cbn [chunks]. f_equal.
      apply IH; rewrite skipn_length; cbn [length] in *; lia.
  Qed.

  Lemma concat_chunks {A} bs : (0 < bs)%nat -> forall f (l : list A), (length l <= f)%nat -> concat (chunks f bs l) = l.
  Proof.
    intro Hbs. induction f as [|f IH]; intros l H.
    - destruct l; [reflexivity | cbn in H; lia].
    - destruct l as [|x l]; [reflexivity|]. cbn [chunks concat]. rewrite IH.
      + apply firstn_skipn.
      + rewrite skipn_length. cbn [length] in *. lia.
  Qed.

  Lemma store_loop_ok bs : 0 < bs -> forall fuel rest P idm nl sl' a,
    (length rest < fuel)%nat ->
    Forall batch_ok (chunks (length rest) (N.to_nat bs) rest) ->
    store_loop zc fuel bs (lenN (P ++ rest)) (lenN P) (mkColl (map blank P ++ rest) idm ss k nl sl') a =
    Ok (mkColl (map blank (P ++ rest)) idm ss k nl sl',
        mkArch (a_samples a) (a_contigs a ++ map names_part (chunks (length rest) (N.to_nat bs) rest))
               (a_details a ++ map details_part (chunks (length rest) (N.to_nat bs) rest)) (a_cur a)).
  Proof.
    intro Hbs. induction fuel as [|fuel IH]; intros rest P idm nl sl' a Hf Hok; [lia|].
    destruct rest as [|x rest'].
    - cbn [store_loop length chunks map]. rewrite !app_nil_r.
      replace (lenN P <=? lenN P) with true by (symmetry; apply N.leb_le; lia).
      destruct a; reflexivity.
    - set (rest := x :: rest') in *.
      cbn [store_loop].
      replace (lenN (P ++ rest) <=? lenN P) with false
        by (symmetry; apply N.leb_gt; rewrite lenN_app; subst rest; rewrite lenN_cons; lia).
      set (B := firstn (N.to_nat bs) rest). set (R := skipn (N.to_nat bs) rest).
      assert (HBR : rest = B ++ R) by (subst B R; symmetry; apply firstn_skipn).
      assert (Hch : chunks (length rest) (N.to_nat bs) rest = B :: chunks (length R) (N.to_nat bs) R).
      { subst rest. cbn [length chunks]. fold B R. f_equal. apply chunks_fuel; [lia| |lia].
        subst R. rewrite skipn_length. cbn [length]. lia. }
      rewrite Hch in Hok |- *. inversion Hok as [|? ? HB Hok']; subst.
      assert (HlB : lenN B = N.min bs (lenN rest)).
      { subst B. unfold lenN. rewrite firstn_length. lia. }
      replace (N.min (lenN P + bs) (lenN (P ++ rest))) with (lenN P + lenN B) by (rewrite lenN_app; lia).
      assert (HR : (length R < fuel)%nat).
      { subst R. rewrite skipn_length. subst rest. cbn [length] in *. lia. }
      clear Hch HlB Hf Hok. clearbody B R. clearbody rest. subst rest.
      rewrite (store_step a B P R idm nl sl' HB). cbn [obnd fst snd].
      specialize (IH R (P ++ B) idm nl sl'
                     (mkArch (a_samples a) (a_contigs a ++ [names_part B]) (a_details a ++ [details_part B]) (a_cur a))
                     HR Hok').
      replace (lenN (P ++ B ++ R)) with (lenN ((P ++ B) ++ R)) by (rewrite app_assoc; reflexivity).
      replace (lenN P + lenN B) with (lenN (P ++ B)) by (rewrite lenN_app; reflexivity).
      rewrite IH. cbn [a_samples a_contigs a_details a_cur map].
      rewrite <- !app_assoc. reflexivity.
  Qed.

  (* ---------------------------------------------------------------- the theorem *)
  Theorem batches_roundtrip_proof :
    forall (bs : N) (c : coll),
    0 < bs ->
    segment_size c = ss -> kmer_length c = k ->
    lenN (samples c) < 4294967296 ->
    Forall (fun s => Forall (fun b => 1 <= b < 128) (sname s)) (samples c) ->
    Forall batch_ok (chunks (length (samples c)) (N.to_nat bs) (samples c)) ->
    exists cw a cr,
      store_all zc bs c arch_empty = Ok (cw, a) /\
      length (a_contigs a) = length (chunks (length (samples c)) (N.to_nat bs) (samples c)) /\
      Forall (fun s => scontigs s = []) (samples cw) /\
      load_all zd ss k a = Ok cr /\
      samples cr = samples c /\
      samples_loaded cr = lenN (samples c) /\
      (NoDup (map sname (samples c)) ->
       forall i s, nth_error (samples c) i = Some s -> id_get (ids cr) (sname s) = Some (N.of_nat i)).
  Proof.
    intros bs c Hbs Hss Hk Hlen Hnames Hok.
    destruct c as [smp idm ss' k' nl sl']. cbn [samples segment_size kmer_length] in *. subst ss' k'.
    set (Bs := chunks (length smp) (N.to_nat bs) smp) in *.
    assert (HS : concat Bs = smp) by (subst Bs; apply concat_chunks; lia).
    destruct (load_loop_ok
                (mkArch [(zc 19 (ser_sample_names (map sname smp)), lenN (ser_sample_names (map sname smp)))]
                        (map names_part Bs) (map details_part Bs) (0 + 1))
                Bs [] (ids_of (map sname smp) 0 []) 0 eq_refl eq_refl Hok) as [nl' Hl].
    cbn [concat app] in Hl. change (lenN (@nil sample)) with 0 in Hl. change (lenN (@nil (list sample))) with 0 in Hl.
    unfold store_all. cbn [samples].
    pose proof (store_loop_ok bs Hbs (S (N.to_nat (lenN smp))) smp [] idm nl sl'
                  (store_batch_sample_names zc (mkColl smp idm ss k nl sl') arch_empty)) as Hst.
    cbn [app map] in Hst. change (lenN (@nil sample)) with 0 in Hst.
    rewrite Hst by (try exact Hok; rewrite to_nat_lenN; lia). clear Hst.
    eexists. eexists. eexists. split; [reflexivity|].
    cbn [a_contigs a_details a_samples a_cur store_batch_sample_names arch_empty app].
    fold Bs.
    split; [rewrite map_length; reflexivity|].
    split; [cbn [samples]; rewrite Forall_map; apply Forall_forall; intros; reflexivity|].
    (* load *)
    unfold load_all, load_batch_sample_names. cbn [a_samples a_cur a_contigs a_details nthN nth_error N.to_nat].
    unfold serialize_sample_names. cbn [samples].
    rewrite read_part_nonempty. cbn [fst snd]. rewrite unz_ok. cbn [obnd].
    unfold deserialize_sample_names.
    rewrite sample_names_roundtrip_proof.
    2:{ rewrite Forall_map. exact Hnames. }
    2:{ rewrite lenN_map. exact Hlen. }
    cbn [obnd fst snd coll_new segment_size kmer_length no_samples_in_last_batch samples_loaded].
    rewrite map_length. rewrite map_map.
    rewrite HS in Hl. change (fun x : sample => mkSample (sname x) []) with blank.
    rewrite Hl. split; [reflexivity|]. cbn [samples samples_loaded ids].
    split; [reflexivity|]. split; [reflexivity|].
    intros Hnd i s Hi.
    rewrite (ids_of_get (map sname smp) 0 [] (sname s) i Hnd).
    - f_equal.
    - rewrite nth_error_map, Hi. reflexivity.
  Qed.
End WithZstd.

(* ================================================================ listing order = first-registration order *)
Definition memb (x : name) (l : list name) : bool := existsb (beqb x) l.

(* first occurrences, in order *)
Fixpoint first_occ (seen l : list name) : list name :=
  match l with
  | [] => []
  | x :: r => if memb x seen then first_occ seen r else x :: first_occ (x :: seen) r
  end.

Definition op_stored (op : name * name) : name := stored_name (fst op) (snd op).

Fixpoint reg_all (c : coll) (ops : list (name * name)) : outcome coll :=
  match ops with
  | [] => Ok c
  | op :: r => obnd (register_sample_contig c (fst op) (snd op)) (fun cb => reg_all (fst cb) r)
  end.

Lemma beqb_sym a b : beqb a b = beqb b a.
Proof.
  destruct (beqb a b) eqn:E.
  - apply beqb_eq in E. subst. symmetry. apply beqb_refl.
  - apply beqb_neq in E. symmetry. apply beqb_neq. congruence.
Qed.

Lemma memb_in x l : memb x l = true <-> In x l.
Proof.
  unfold memb. rewrite existsb_exists. split.
  - intros [y [Hy E]]. apply beqb_eq in E. subst. exact Hy.
  - intro H. exists x. split; [exact H | apply beqb_refl].
Qed.
Lemma memb_app x a b : memb x (a ++ b) = memb x a || memb x b.
Proof. unfold memb. apply existsb_app. Qed.

Lemma first_occ_snoc l : forall seen x,
  first_occ seen (l ++ [x]) = first_occ seen l ++ (if memb x seen || memb x l then [] else [x]).
Proof.
  induction l as [|y l IH]; intros seen x.
  - cbn [app first_occ memb existsb]. rewrite orb_false_r. destruct (existsb (beqb x) seen); reflexivity.
  - cbn [app first_occ]. destruct (memb y seen) eqn:Ey.
    + rewrite IH. f_equal. change (memb x (y :: l)) with (beqb x y || memb x l).
      destruct (beqb x y) eqn:Exy; [|reflexivity].
      apply beqb_eq in Exy. subst. rewrite Ey. reflexivity.
    + rewrite IH. cbn [app]. f_equal. f_equal.
      change (memb x (y :: seen)) with (beqb x y || memb x seen).
      change (memb x (y :: l)) with (beqb x y || memb x l).
      destruct (beqb x y), (memb x seen), (memb x l); reflexivity.
Qed.

Lemma memb_first_occ x l : forall seen, memb x (first_occ seen l) = negb (memb x seen) && memb x l.
Proof.
  induction l as [|y l IH]; intro seen; [cbn; rewrite andb_false_r; reflexivity|].
  cbn [first_occ]. change (memb x (y :: l)) with (beqb x y || memb x l).
  destruct (memb y seen) eqn:Ey.
  - rewrite IH. destruct (beqb x y) eqn:Exy; [|reflexivity].
    apply beqb_eq in Exy. subst. rewrite Ey. reflexivity.
  - change (memb x (y :: first_occ (y :: seen) l)) with (beqb x y || memb x (first_occ (y :: seen) l)).
    rewrite IH. change (memb x (y :: seen)) with (beqb x y || memb x seen).
    destruct (beqb x y) eqn:Exy.
    + apply beqb_eq in Exy. subst. rewrite Ey. reflexivity.
    + reflexivity.
Qed.

(* ---- the catalogue as a table sample -> contig names, and registration on that table *)
Definition tab := list (name * list name).
Definition tab_of (c : coll) : tab := map (fun s => (sname s, map cname (scontigs s))) (samples c).

Definition add_ct (cs : list name) (ct : name) : list name := if memb ct cs then cs else cs ++ [ct].
Fixpoint tab_reg (t : tab) (s ct : name) : tab :=
  match t with
  | [] => [(s, [ct])]
  | (s', cs) :: t' => if beqb s' s then (s', add_ct cs ct) :: t' else (s', cs) :: tab_reg t' s ct
  end.
Fixpoint tab_get (t : tab) (s : name) : option (list name) :=
  match t with
  | [] => None
  | (s', cs) :: t' => if beqb s' s then Some cs else tab_get t' s
  end.

Lemma tab_reg_absent t s ct : ~ In s (map fst t) -> tab_reg t s ct = t ++ [(s, [ct])].
Proof.
  induction t as [|[s' cs] t IH]; intro H; [reflexivity|]. cbn [tab_reg app].
  replace (beqb s' s) with false.
  - rewrite IH; [reflexivity|]. intro; apply H; right; assumption.
  - symmetry. apply beqb_neq. intro; subst. apply H. left. reflexivity.
Qed.
Lemma tab_reg_mid P s cs R ct :
  ~ In s (map fst P) -> tab_reg (P ++ (s, cs) :: R) s ct = P ++ (s, add_ct cs ct) :: R.
Proof.
  induction P as [|[s' cs'] P IH]; intro H.
  - cbn [app tab_reg]. rewrite beqb_refl. reflexivity.
  - cbn [app tab_reg]. replace (beqb s' s) with false.
    + rewrite IH; [reflexivity|]. intro; apply H; right; assumption.
    + symmetry. apply beqb_neq. intro; subst. apply H. left. reflexivity.
Qed.

Lemma map_fst_tab_reg t s ct :
  map fst (tab_reg t s ct) = if memb s (map fst t) then map fst t else map fst t ++ [s].
Proof.
  induction t as [|[s' cs] t IH]; [reflexivity|]. cbn [tab_reg map fst].
  change (memb s (s' :: map fst t)) with (beqb s s' || memb s (map fst t)). rewrite (beqb_sym s s').
  destruct (beqb s' s); [reflexivity|]. cbn [map fst orb]. rewrite IH.
  destruct (memb s (map fst t)); reflexivity.
Qed.
Lemma tab_get_tab_reg t s ct s' :
  tab_get (tab_reg t s ct) s' =
  if beqb s s' then Some (match tab_get t s with Some cs => add_ct cs ct | None => [ct] end) else tab_get t s'.
Proof.
  induction t as [|[s0 cs] t IH].
  - cbn [tab_reg tab_get]. destruct (beqb s s'); reflexivity.
  - cbn [tab_reg tab_get]. destruct (beqb s0 s) eqn:E0.
    + apply beqb_eq in E0. subst s0. cbn [tab_get]. destruct (beqb s s'); reflexivity.
    + cbn [tab_get]. rewrite IH. destruct (beqb s0 s') eqn:E1; [|reflexivity].
      apply beqb_eq in E1. subst s0. rewrite (beqb_sym s s'), E0. reflexivity.
Qed.

(* ---- closed form of a sequence of registrations on the table *)
Definition tab_all (ops : list (name * name)) : tab :=
  fold_left (fun t op => tab_reg t (op_stored op) (snd op)) ops [].
Definition contigs_under (s : name) (ops : list (name * name)) : list name :=
  map snd (filter (fun op => beqb (op_stored op) s) ops).

Lemma tab_all_samples ops : map fst (tab_all ops) = first_occ [] (map op_stored ops).
Proof.
  unfold tab_all. induction ops as [|op ops IH] using rev_ind; [reflexivity|].
  rewrite fold_left_app. cbn [fold_left]. rewrite map_fst_tab_reg, IH.
  rewrite map_app. cbn [map]. rewrite first_occ_snoc. rewrite memb_first_occ. cbn [memb existsb negb andb orb].
  destruct (memb (op_stored op) (map op_stored ops)); [rewrite app_nil_r|]; reflexivity.
Qed.

Lemma tab_all_contigs ops s :
  tab_get (tab_all ops) s =
  if memb s (map op_stored ops) then Some (first_occ [] (contigs_under s ops)) else None.
Proof.
  unfold tab_all, contigs_under. induction ops as [|op ops IH] using rev_ind; [reflexivity|].
  rewrite fold_left_app. cbn [fold_left]. rewrite tab_get_tab_reg.
  rewrite map_app, memb_app. cbn [map]. change (memb s [op_stored op]) with (beqb s (op_stored op) || false).
  rewrite orb_false_r. rewrite filter_app, map_app. cbn [filter].
  rewrite (beqb_sym s (op_stored op)).
  destruct (beqb (op_stored op) s) eqn:E.
  - apply beqb_eq in E. rewrite E in *. rewrite orb_true_r. rewrite IH. cbn [map]. rewrite first_occ_snoc.
    cbn [memb existsb orb]. unfold add_ct.
    destruct (memb s (map op_stored ops)) eqn:Em.
    + rewrite memb_first_occ. change (memb (snd op) []) with false. cbn [negb andb orb].
      destruct (memb (snd op) (map snd (filter (fun op0 => beqb (op_stored op0) s) ops))) eqn:Em2;
        [rewrite app_nil_r|]; reflexivity.
    + (* s not registered before: no op under s *)
      assert (Hnil : filter (fun op0 => beqb (op_stored op0) s) ops = []).
      { destruct (filter (fun op0 => beqb (op_stored op0) s) ops) as [|o l] eqn:F; [reflexivity|].
        exfalso. assert (Hin : In o (filter (fun op0 => beqb (op_stored op0) s) ops)) by (rewrite F; left; reflexivity).
        apply filter_In in Hin. destruct Hin as [Hin Hb]. apply beqb_eq in Hb.
        assert (Hs : In s (map op_stored ops)) by (rewrite <- Hb; apply in_map; exact Hin).
        apply memb_in in Hs. rewrite Em in Hs. discriminate. }
      rewrite Hnil. reflexivity.
  - rewrite orb_false_r. cbn [map]. rewrite app_nil_r. exact IH.
Qed.

(* ---- the concrete collection follows the table *)
Definition ids_ok (names : list name) (m : idmap) : Prop :=
  NoDup names /\ lenN m = lenN names /\
  (forall i nm, nth_error names i = Some nm -> id_get m nm = Some (N.of_nat i)) /\
  (forall nm, ~ In nm names -> id_get m nm = None).
Definition coll_ok (c : coll) : Prop := ids_ok (map sname (samples c)) (ids c).

Lemma coll_ok_new ss k : coll_ok (coll_new ss k).
Proof.
  unfold coll_ok, ids_ok. cbn. split; [constructor|]. split; [reflexivity|]. split.
  - intros [|i] nm H; discriminate.
  - reflexivity.
Qed.

Lemma name_in_dec (x : name) (l : list name) : {In x l} + {~ In x l}.
Proof. apply in_dec. apply list_eq_dec. apply N.eq_dec. Qed.

Lemma NoDup_snoc {A} (l : list A) x : NoDup l -> ~ In x l -> NoDup (l ++ [x]).
Proof.
  induction 1 as [|y l Hy Hl IH]; intro Hx; [repeat constructor; intros []|].
  cbn [app]. constructor.
  - intro Hin. apply in_app_or in Hin. destruct Hin as [Hin|[E|[]]]; [contradiction|]. subst. apply Hx. left. reflexivity.
  - apply IH. intro; apply Hx; right; assumption.
Qed.

Lemma id_remove_absent m k0 : id_get m k0 = None -> id_remove m k0 = m.
Proof.
  induction m as [|[k' v] m IH]; [reflexivity|]. cbn [id_get id_remove].
  destruct (beqb k' k0); [discriminate|]. intro H. rewrite IH by exact H. reflexivity.
Qed.

Lemma map_fst_tab_of c : map fst (tab_of c) = map sname (samples c).
Proof. unfold tab_of. rewrite map_map. reflexivity. Qed.

Lemma memb_cnames ct cs : memb ct (map cname cs) = existsb (fun c' => beqb (cname c') ct) cs.
Proof.
  induction cs as [|c cs IH]; [reflexivity|]. cbn [map existsb]. rewrite <- IH.
  change (memb ct (cname c :: map cname cs)) with (beqb ct (cname c) || memb ct (map cname cs)).
  rewrite (beqb_sym ct (cname c)). reflexivity.
Qed.

Lemma tab_get_absent t s : ~ In s (map fst t) -> tab_get t s = None.
Proof.
  induction t as [|[s' cs] t IH]; intro H; [reflexivity|]. cbn [tab_get].
  replace (beqb s' s) with false.
  - apply IH. intro; apply H; right; assumption.
  - symmetry. apply beqb_neq. intro; subst. apply H. left. reflexivity.
Qed.
Lemma tab_get_mid P s cs R : ~ In s (map fst P) -> tab_get (P ++ (s, cs) :: R) s = Some cs.
Proof.
  induction P as [|[s' cs'] P IH]; intro H.
  - cbn [app tab_get]. rewrite beqb_refl. reflexivity.
  - cbn [app tab_get]. replace (beqb s' s) with false.
    + apply IH. intro; apply H; right; assumption.
    + symmetry. apply beqb_neq. intro; subst. apply H. left. reflexivity.
Qed.

(* a registered name sits at one position; the samples before it have other names *)
Lemma find_sample c st :
  coll_ok c -> In st (map sname (samples c)) ->
  exists P smp R, samples c = P ++ smp :: R /\ sname smp = st /\ ~ In st (map sname P) /\
                  id_get (ids c) st = Some (lenN P).
Proof.
  intros [Hnd [_ [H3 _]]] Hin.
  destruct (In_nth_error _ _ Hin) as [j Hj].
  pose proof (H3 j st Hj) as Hid.
  rewrite nth_error_map in Hj. destruct (nth_error (samples c) j) as [smp|] eqn:Ej; [|discriminate].
  injection Hj as Hsn.
  destruct (nth_error_split _ _ Ej) as [P [R [HS HP]]].
  exists P, smp, R. split; [exact HS|]. split; [exact Hsn|]. split.
  - rewrite HS, map_app in Hnd. cbn [map] in Hnd. rewrite Hsn in Hnd.
    apply NoDup_remove_2 in Hnd. intro Hp. apply Hnd. apply in_or_app. left. exact Hp.
  - rewrite Hid. unfold lenN. rewrite HP. reflexivity.
Qed.

Lemma reg_step c s ct :
  coll_ok c ->
  exists c' b, register_sample_contig c s ct = Ok (c', b) /\ coll_ok c' /\
               tab_of c' = tab_reg (tab_of c) (stored_name s ct) ct.
Proof.
  intro Hok. set (st := stored_name s ct).
  destruct (name_in_dec st (map sname (samples c))) as [Hin|Hnin].
  - destruct (find_sample c st Hok Hin) as [P [smp [R [HS [Hsn [HnP Hid]]]]]].
    unfold register_sample_contig. fold st. rewrite Hid. rewrite HS, nthN_mid.
    assert (Htab : tab_of c = map (fun s0 => (sname s0, map cname (scontigs s0))) P ++
                              (st, map cname (scontigs smp)) :: map (fun s0 => (sname s0, map cname (scontigs s0))) R).
    { unfold tab_of. rewrite HS, map_app. cbn [map]. rewrite Hsn. reflexivity. }
    assert (HnP' : ~ In st (map fst (map (fun s0 => (sname s0, map cname (scontigs s0))) P)))
      by (rewrite map_map; exact HnP).
    rewrite Htab, tab_reg_mid by exact HnP'. unfold add_ct. rewrite memb_cnames.
    destruct (existsb (fun c' => beqb (cname c') ct) (scontigs smp)).
    + exists c, false. split; [reflexivity|]. split; [exact Hok|]. exact Htab.
    + eexists. exists true. split; [reflexivity|].
      unfold with_samples, coll_ok, tab_of. cbn [samples ids]. rewrite to_nat_lenN, set_nth_mid.
      split.
      * rewrite map_app. cbn [map sname]. unfold coll_ok in Hok. rewrite HS, map_app in Hok. exact Hok.
      * rewrite map_app. cbn [map sname scontigs]. rewrite Hsn, map_app. reflexivity.
  - pose proof Hok as [Hnd [Hlen [H3 H4]]].
    unfold register_sample_contig. fold st. rewrite (H4 st Hnin).
    cbn [samples]. rewrite Hlen, lenN_map.
    replace (samples c ++ [mkSample st []]) with (samples c ++ mkSample st [] :: []) by reflexivity.
    rewrite nthN_mid. cbn [scontigs existsb sname app].
    eexists. exists true. split; [reflexivity|].
    unfold with_samples, coll_ok, tab_of. cbn [samples ids]. rewrite to_nat_lenN, set_nth_mid.
    split.
    + rewrite map_app. cbn [map sname]. unfold ids_ok. split; [apply NoDup_snoc; assumption|].
      split.
      { unfold id_insert. rewrite id_remove_absent by (apply H4; exact Hnin).
        rewrite lenN_cons, lenN_app. rewrite Hlen. reflexivity. }
      split.
      { intros i nm Hi. rewrite id_get_insert.
        destruct (Nat.lt_ge_cases i (length (map sname (samples c)))) as [Hlt|Hge].
        - rewrite nth_error_app1 in Hi by exact Hlt.
          replace (beqb st nm) with false.
          + apply H3. exact Hi.
          + symmetry. apply beqb_neq. intro; subst nm. apply Hnin. eapply nth_error_In. exact Hi.
        - rewrite nth_error_app2 in Hi by exact Hge.
          destruct (i - length (map sname (samples c)))%nat as [|d] eqn:Ed; [|destruct d; discriminate].
          injection Hi as <-. rewrite beqb_refl. f_equal. rewrite map_length in *. unfold lenN. lia. }
      { intros nm Hn. rewrite id_get_insert.
        replace (beqb st nm) with false.
        - apply H4. intro; apply Hn; apply in_or_app; left; assumption.
        - symmetry. apply beqb_neq. intro; subst nm. apply Hn. apply in_or_app. right. left. reflexivity. }
    + rewrite map_app. cbn [map sname scontigs cname]. symmetry. apply tab_reg_absent.
      rewrite map_map. exact Hnin.
Qed.

Lemma reg_all_ok ops : forall c,
  coll_ok c ->
  exists c', reg_all c ops = Ok c' /\ coll_ok c' /\
             tab_of c' = fold_left (fun t op => tab_reg t (op_stored op) (snd op)) ops (tab_of c).
Proof.
  induction ops as [|op ops IH]; intros c Hok.
  - exists c. split; [reflexivity|]. split; [exact Hok | reflexivity].
  - destruct (reg_step c (fst op) (snd op) Hok) as [c1 [b [E [Hok1 Ht]]]].
    destruct (IH c1 Hok1) as [c2 [E2 [Hok2 Ht2]]].
    exists c2. cbn [reg_all fold_left]. rewrite E. cbn [obnd fst]. split; [exact E2|]. split; [exact Hok2|].
    rewrite Ht2, Ht. reflexivity.
Qed.

Lemma contig_list_tab c s : coll_ok c -> get_contig_list c s = Ok (tab_get (tab_of c) s).
Proof.
  intro Hok. unfold get_contig_list, sample_by_name.
  destruct (name_in_dec s (map sname (samples c))) as [Hin|Hnin].
  - destruct (find_sample c s Hok Hin) as [P [smp [R [HS [Hsn [HnP Hid]]]]]].
    rewrite Hid, HS, nthN_mid. cbn [obnd option_map]. unfold tab_of. rewrite HS, map_app. cbn [map]. rewrite Hsn.
    rewrite tab_get_mid; [reflexivity|]. rewrite map_map. exact HnP.
  - destruct Hok as [_ [_ [_ H4]]]. rewrite (H4 s Hnin). cbn [obnd option_map].
    rewrite tab_get_absent; [reflexivity|]. rewrite map_fst_tab_of. exact Hnin.
Qed.

Theorem listing_order_proof :
  forall (ss k : N) (ops : list (name * name)),
  exists c, reg_all (coll_new ss k) ops = Ok c /\
    get_samples_list c = first_occ [] (map op_stored ops) /\
    forall s, get_contig_list c s =
              Ok (if memb s (map op_stored ops) then Some (first_occ [] (contigs_under s ops)) else None).
Proof.
  intros ss k ops.
  destruct (reg_all_ok ops (coll_new ss k) (coll_ok_new ss k)) as [c [E [Hok Ht]]].
  exists c. split; [exact E|].
  change (tab_of (coll_new ss k)) with (@nil (name * list name)) in Ht. fold (tab_all ops) in Ht.
  split.
  - unfold get_samples_list. rewrite <- map_fst_tab_of, Ht. apply tab_all_samples.
  - intro s. rewrite contig_list_tab by exact Hok. rewrite Ht. rewrite tab_all_contigs. reflexivity.
Qed.

(* ================================================================ boolean checkers for concrete instances *)
Definition seg_eqb (a b : seg) : bool :=
  (sg a =? sg b) && (si a =? si b) && Bool.eqb (src a) (src b) && (sl a =? sl b).
Definition seg_okb (x : seg) : bool :=
  ((sg x <? 4294967295) && (si x <? 2147483647) && (sl x <? 4294967296)) || seg_eqb x seg_empty.
Definition nbyteb (b : N) : bool := (1 <=? b) && (b <? 128).
Definition sample_wfb (s : sample) : bool :=
  (lenN (scontigs s) <? 4294967296) &&
  forallb (fun ct => forallb nbyteb (cname ct) && (lenN (csegs ct) <? 4294967296) && forallb seg_okb (csegs ct))
          (scontigs s).
Definition batch_okb (zc : N -> list N -> list N) (ss k : N) (B : list sample) : bool :=
  forallb sample_wfb B && (lenN B <? 4294967296) &&
  match ser_details ss k (segs_of B) with
  | Ok vd => forallb (fun s => (lenN s <? 4294967296) && (lenN (zc 19 s) <? 4294967296)) (streams_list vd)
  | _ => true
  end.

Lemma forallb_Forall {A} (f : A -> bool) (P : A -> Prop) l :
  (forall x, f x = true -> P x) -> forallb f l = true -> Forall P l.
Proof.
  intros H. induction l as [|x l IH]; intro E; [constructor|].
  cbn [forallb] in E. apply andb_true_iff in E. destruct E as [E1 E2]. constructor; [apply H; exact E1 | apply IH; exact E2].
Qed.

Lemma seg_eqb_eq a b : seg_eqb a b = true -> a = b.
Proof.
  unfold seg_eqb. intro H. repeat (apply andb_true_iff in H; destruct H as [H ?]).
  destruct a as [g1 i1 r1 l1], b as [g2 i2 r2 l2]. cbn [sg si src sl] in *.
  apply N.eqb_eq in H. apply N.eqb_eq in H0. apply N.eqb_eq in H2. apply Bool.eqb_prop in H1. congruence.
Qed.

Lemma sample_wfb_ok s : sample_wfb s = true -> sample_wf s.
Proof.
  unfold sample_wfb, sample_wf. intro H. apply andb_true_iff in H. destruct H as [H1 H2].
  split; [apply N.ltb_lt; exact H1|].
  eapply forallb_Forall; [|exact H2]. intros ct Hct. cbv beta in Hct.
  apply andb_true_iff in Hct. destruct Hct as [Hct H5]. apply andb_true_iff in Hct. destruct Hct as [H3 H4].
  split; [|split].
  - eapply forallb_Forall; [|exact H3]. unfold nbyteb. intros b Hb. apply andb_true_iff in Hb. destruct Hb as [A B].
    apply N.leb_le in A. apply N.ltb_lt in B. split; assumption.
  - apply N.ltb_lt. exact H4.
  - eapply forallb_Forall; [|exact H5]. unfold seg_okb. intros x Hx. apply orb_true_iff in Hx. destruct Hx as [Hx|Hx].
    + left. apply andb_true_iff in Hx. destruct Hx as [Hx C]. apply andb_true_iff in Hx. destruct Hx as [A B].
      apply N.ltb_lt in A. apply N.ltb_lt in B. apply N.ltb_lt in C. repeat split; assumption.
    + right. apply seg_eqb_eq. exact Hx.
Qed.

Lemma batch_okb_ok zc ss k B : batch_okb zc ss k B = true -> batch_ok zc ss k B.
Proof.
  unfold batch_okb, batch_ok, batch_small. intro H.
  apply andb_true_iff in H. destruct H as [H H3]. apply andb_true_iff in H. destruct H as [H1 H2].
  split; [|split].
  - eapply forallb_Forall; [|exact H1]. apply sample_wfb_ok.
  - apply N.ltb_lt. exact H2.
  - destruct (ser_details ss k (segs_of B)); try exact I.
    eapply forallb_Forall; [|exact H3]. intros s Hs. cbv beta in Hs. apply andb_true_iff in Hs. destruct Hs as [A C].
    apply N.ltb_lt in A. apply N.ltb_lt in C. split; assumption.
Qed.
