From Coq Require Import Arith Lia Bool.
From Ragc Require Import Mach SplitPos.
Local Open Scope nat_scope.

Lemma split_post_range k len re b p :
  split_post k len re b = SD_SplitAt p -> k + 1 <= p /\ p + (k + 1) <= len.
Proof.
  unfold split_post.
  destruct ((len <? 2 * (k + 1)) || re) eqn:E0; [discriminate|].
  apply orb_false_iff in E0. destruct E0 as [E0 _]. apply Nat.ltb_ge in E0.
  set (b1 := if b <? k + 1 then 0 else b).
  set (b2 := if len <? b1 + (k + 1) then len else b1).
  destruct (b2 =? 0) eqn:E3; [discriminate|].
  destruct (len <=? b2) eqn:E4; [discriminate|].
  intros H; injection H as <-.
  apply Nat.eqb_neq in E3. apply Nat.leb_gt in E4.
  subst b2 b1.
  destruct (b <? k + 1) eqn:E1.
  - destruct (len <? 0 + (k + 1)) eqn:E2; lia.
  - apply Nat.ltb_ge in E1. destruct (len <? b + (k + 1)) eqn:E2; [lia|]. apply Nat.ltb_ge in E2. lia.
Qed.
