(* ConcLink_proofs.v - part 1 of the link between the concurrency models: Protocol.v (C05) uses its queue within
   the contract of Queue.v (C06).  Forward simulation: every Protocol step is matched by a valid Queue.step
   sequence (`qevents`) on the projected state (`abs`, up to `qsim`); hence every reachable Protocol state is the
   projection of a state reached by a Queue.v trace, and C06's theorems apply to it. *)
From Coq Require Import Lia ZifyBool ZifyN ZifyNat Permutation.
From Ragc Require Import Mach.
From Ragc Require Queue Queue_proofs.
From Ragc Require Import Protocol Protocol_base Protocol_inv Protocol_steps ConcLink.
Arguments N.add : simpl never.
Arguments N.sub : simpl never.
Arguments N.mul : simpl never.
Arguments N.ltb : simpl never.
Arguments N.leb : simpl never.
Arguments N.eqb : simpl never.
Arguments Z.mul : simpl never.
Arguments Z.add : simpl never.
Arguments Z.sub : simpl never.
Open Scope N_scope.

Ltac qf := cbn [Queue.items Queue.cur Queue.closed Queue.nseq Queue.wfull Queue.kfull Queue.wempty Queue.kempty
                Queue.accepted Queue.returned Queue.set_wfull Queue.set_kfull Queue.set_wempty Queue.set_kempty].
Ltac pf := cbn [set_ws set_pst set_todo do_close ws items cur closed nseq pst todo bcount bgen claimable ground
                pushed segd rawbuf rounds].

(* ------------------------------------------------------------------------------------------- the order *)
Lemma rank_le_iff : forall a b, task_bounded a -> task_bounded b ->
  (task_le a b = true <-> (rank a <= rank b)%Z).
Proof.
  intros [p1 c1 o1 s1 k1] [p2 c2 o2 s2 k2] [A1 A2] [B1 B2].
  unfold task_le, rank, two64Z. unfold two64 in *. cbn [tprio tcost tord] in *. lia.
Qed.

Lemma is_max_qitem : forall it l,
  Forall (fun i => task_bounded (itask i)) l -> task_bounded (itask it) ->
  is_max it l = true -> Queue.is_max (qitem it) (map qitem l) = true.
Proof.
  intros it l F B M. unfold Queue.is_max. rewrite forallb_forall. intros j J.
  apply in_map_iff in J. destruct J as (i & <- & I). cbn [qitem Queue.iprio].
  apply Z.leb_le. apply rank_le_iff; auto.
  - rewrite Forall_forall in F. auto.
  - unfold is_max in M. rewrite forallb_forall in M. auto.
Qed.

(* ------------------------------------------------------------------------------------------- threads *)
Lemma wtid_inj : forall a b, wtid a = wtid b -> a = b.
Proof. unfold wtid. intros. lia. Qed.
Lemma wtid_ptid : forall a, wtid a <> ptid.
Proof. unfold wtid, ptid. intros. lia. Qed.

Lemma wtids_in : forall f l i t,
  In t (wtids_from i f l) <-> exists w wk, t = wtid (i + w)%nat /\ nth_error l w = Some wk /\ f wk = true.
Proof.
  intros f l. induction l as [|a l IH]; intros i t; cbn [wtids_from].
  - split; [intros [] | intros (w & wk & _ & E & _); destruct w; discriminate].
  - split.
    + intros H. assert (T : In t (wtids_from (S i) f l) -> exists w wk,
                  t = wtid (i + w)%nat /\ nth_error (a :: l) w = Some wk /\ f wk = true).
      { intros H1. apply IH in H1. destruct H1 as (w & wk & -> & E & Fw).
        exists (S w), wk. split; [f_equal; lia | auto]. }
      destruct (f a) eqn:F; [|auto]. destruct H as [<-|H]; [|auto].
      exists 0%nat, a. rewrite Nat.add_0_r. auto.
    + intros (w & wk & -> & E & Fw). destruct w as [|w]; cbn [nth_error] in E.
      * inversion E; subst. rewrite Fw. left. f_equal. lia.
      * assert (In (wtid (S i + w)) (wtids_from (S i) f l)) by (apply IH; eauto).
        replace (i + S w)%nat with (S i + w)%nat by lia. destruct (f a); [right|]; auto.
Qed.

Lemma wtids_nodup : forall f l i, NoDup (wtids_from i f l).
Proof.
  intros f l. induction l as [|a l IH]; intros i; cbn [wtids_from]; [constructor|].
  destruct (f a); [|apply IH]. constructor; [|apply IH].
  intros H. apply wtids_in in H. destruct H as (w & wk & E & _). apply wtid_inj in E. lia.
Qed.

(* L lists exactly the queue thread ids of the workers selected by f *)
Definition wset (f : worker -> bool) (l : list worker) (L : list N) : Prop :=
  NoDup L /\ forall t, In t L <-> exists w wk, t = wtid w /\ nth_error l w = Some wk /\ f wk = true.

Lemma wset_same_set : forall f l L, wset f l L <-> same_set L (wtids_from 0 f l).
Proof.
  intros f l L. unfold wset, same_set. split; intros (ND & H); split; auto; intros t; rewrite H.
  - rewrite wtids_in. try (cbn [Nat.add]; tauto).
  - rewrite wtids_in. try (cbn [Nat.add]; tauto).
Qed.

Lemma wset_in : forall f l L w wk, wset f l L -> nth_error l w = Some wk -> f wk = true -> In (wtid w) L.
Proof. intros f l L w wk (_ & H) E F. apply H. eauto. Qed.

Lemma wset_not_in : forall f l L w wk, wset f l L -> nth_error l w = Some wk -> f wk = false -> ~ In (wtid w) L.
Proof.
  intros f l L w wk (_ & H) E F I. apply H in I. destruct I as (w' & wk' & E1 & E2 & F').
  apply wtid_inj in E1. subst w'. congruence.
Qed.

Lemma wset_not_ptid : forall f l L, wset f l L -> ~ In ptid L.
Proof. intros f l L (_ & H) I. apply H in I. destruct I as (w & wk & E & _). symmetry in E. apply wtid_ptid in E. auto. Qed.

Lemma wset_upd : forall f l L w wk x L',
  wset f l L -> nth_error l w = Some wk -> NoDup L' ->
  (forall u, In u L' <-> ((u = wtid w /\ f x = true) \/ (u <> wtid w /\ In u L))) ->
  wset f (upd w x l) L'.
Proof.
  intros f l L w wk x L' (ND & H) E ND' H'. split; auto. intros t. rewrite H'. split.
  - intros [(-> & F)|(NE & I)].
    + exists w, x. split; auto. split; auto. eapply upd_same; eauto.
    + apply H in I. destruct I as (w' & wk' & -> & E' & F'). exists w', wk'. split; auto. split; auto.
      rewrite upd_other; [auto | intros ->; apply NE; reflexivity].
  - intros (w' & wk' & -> & E' & F'). apply nth_error_upd in E'.
    destruct E' as [(-> & -> & _)|(NE & E')].
    + left. auto.
    + right. split; [intros Q; apply wtid_inj in Q; auto|]. apply H. eauto.
Qed.

Lemma wset_upd_same : forall f l L w wk x,
  wset f l L -> nth_error l w = Some wk -> f x = f wk -> wset f (upd w x l) L.
Proof.
  intros f l L w wk x W E F. eapply wset_upd; eauto; [apply W|]. intros u. rewrite F.
  destruct (f wk) eqn:Fk.
  - pose proof (wset_in _ _ _ _ _ W E Fk) as I. split.
    + intros Iu. destruct (N.eq_dec u (wtid w)); auto.
    + intros [(-> & _)|(_ & Iu)]; auto.
  - pose proof (wset_not_in _ _ _ _ _ W E Fk) as NI. split.
    + intros Iu. right. split; auto. intros ->. auto.
    + intros [(_ & Q)|(_ & Iu)]; [discriminate|auto].
Qed.

Lemma wset_ext : forall f g l L, (forall w, f w = g w) -> wset f l L -> wset g l L.
Proof.
  intros f g l L X (ND & H). split; auto. intros t. rewrite H.
  split; intros (w & wk & A & B & C); exists w, wk; repeat split; auto; [rewrite <- X | rewrite X]; auto.
Qed.

(* ------------------------------------------------------------------------------------- queue helpers *)
Lemma extract_map : forall sq l it rest,
  extract sq l = Some (it, rest) ->
  Queue.extract Queue.iseq sq (map qitem l) = Some (qitem it, map qitem rest).
Proof.
  intros sq l. induction l as [|x r IH]; cbn [extract map Queue.extract]; intros it rest H; [discriminate|].
  change (Queue.iseq (qitem x)) with (iseq x). destruct (iseq x =? sq).
  - inversion H; subst; auto.
  - destruct (extract sq r) as [[y r']|]; [|discriminate]. inversion H; subst.
    rewrite (IH _ _ eq_refl). reflexivity.
Qed.

Lemma extract_idN : forall l t, NoDup l -> In t l ->
  exists r, Queue.extract Queue.idN t l = Some (t, r) /\ NoDup r /\ forall u, In u r <-> (In u l /\ u <> t).
Proof.
  induction l as [|a l IH]; intros t ND I; [destruct I|].
  inversion ND as [|? ? NI ND']; subst. cbn [Queue.extract]. unfold Queue.idN at 1.
  destruct (N.eqb_spec a t) as [->|ne].
  - exists l. split; [auto|]. split; [auto|]. intros u. split.
    + intros Hu. split; [right; auto|]. intros ->. auto.
    + intros [[->|Hu] Hne]; [congruence|auto].
  - destruct I as [->|I]; [congruence|]. destruct (IH t ND' I) as (r & E & NDr & Hr). rewrite E.
    exists (a :: r). split; [auto|]. split.
    + constructor; auto. intros Ha. apply Hr in Ha. tauto.
    + intros u. cbn [In]. rewrite Hr. split.
      * intros [->|[Hu Hne]]; auto.
      * intros [[->|Hu] Hne]; auto.
Qed.

Lemma idle_of : forall q t,
  ~ In t (map Queue.ftid (Queue.wfull q)) -> ~ In t (map Queue.ftid (Queue.kfull q)) ->
  ~ In t (Queue.wempty q) -> ~ In t (Queue.kempty q) -> Queue.idle q t = true.
Proof. intros. apply Queue_proofs.idle_spec. unfold Queue_proofs.tids. rewrite !in_app_iff. tauto. Qed.

Lemma abs_wfull_tid : forall s t, In t (map Queue.ftid (abs_wfull s)) -> t = ptid.
Proof.
  intros s t. unfold abs_wfull. destruct (pst s), (todo s) as [|[tk|] r]; cbn; intuition.
Qed.
Lemma abs_kfull_tid : forall s t, In t (map Queue.ftid (abs_kfull s)) -> t = ptid.
Proof.
  intros s t. unfold abs_kfull. destruct (pst s), (todo s) as [|[tk|] r]; cbn; intuition.
Qed.

Lemma sumsz_qitem : forall l, Queue.sumsz (map qitem l) = sum_sizes l.
Proof. induction l; cbn; [reflexivity|]. unfold Queue.sumsz in IHl. rewrite IHl. reflexivity. Qed.

(* ------------------------------------------------------------------------------------ the relation *)
Record QR (s : state) (acc ret : list item) (q : Queue.state) : Prop := mkQR {
  r_items : Queue.items q = map qitem (items s);
  r_cur : Queue.cur q = cur s;
  r_closed : Queue.closed q = closed s;
  r_nseq : Queue.nseq q = nseq s;
  r_wfull : Queue.wfull q = abs_wfull s;
  r_kfull : Queue.kfull q = abs_kfull s;
  r_wempty : wset (blockedE (closed s)) (ws s) (Queue.wempty q);
  r_kempty : wset (wokenE (closed s)) (ws s) (Queue.kempty q);
  r_acc : Queue.accepted q = map qitem acc;
  r_ret : Queue.returned q = map qitem ret
}.

Lemma QR_qsim : forall s acc ret q, QR s acc ret q <-> qsim q (abs s acc ret).
Proof.
  intros s acc ret q. unfold qsim, abs. qf. split.
  - intros []. apply wset_same_set in r_wempty0. apply wset_same_set in r_kempty0. tauto.
  - intros (A & B & C & D & E & F & G & H & I & J). constructor; auto; apply wset_same_set; auto.
Qed.

(* ------------------------------------------------------------------------------------- small helpers *)
Definition calm (p : wpc) : Prop := p <> WWaitE /\ p <> WWokenE.
Lemma be_calm : forall c x wk, calm (pc x) -> calm (pc wk) ->
  blockedE c x = blockedE c wk /\ wokenE c x = wokenE c wk.
Proof. intros c x wk [A B] [C D]. unfold blockedE, wokenE. destruct (pc x), (pc wk); try congruence; auto. Qed.
Lemma calm_after : forall k wk, calm (pc (after_bar k wk)).
Proof. intros. unfold after_bar. destruct (k =? 3)%nat; cbn [pc]; split; discriminate. Qed.
Lemma noseg_after : forall k wk q0, pc (after_bar k wk) <> WSeg q0.
Proof. intros. unfold after_bar. destruct (k =? 3)%nat; cbn [pc]; discriminate. Qed.

Lemma nodup_app_intro : forall (A : Type) (l1 l2 : list A),
  NoDup l1 -> NoDup l2 -> (forall x, In x l1 -> ~ In x l2) -> NoDup (l1 ++ l2).
Proof.
  induction l1 as [|a l1 IH]; intros l2 N1 N2 D; cbn [app]; auto.
  inversion N1; subst. constructor.
  - intros I. apply in_app_or in I. destruct I as [I|I]; [auto|]. apply (D a); [left; auto|auto].
  - apply IH; auto. intros x Ix. apply D. right; auto.
Qed.

Lemma abs_full_quiet : forall s, pst s <> PWaitF -> pst s <> PWokenF -> abs_wfull s = [] /\ abs_kfull s = [].
Proof. intros s A B. unfold abs_wfull, abs_kfull. destruct (pst s); try congruence; auto. Qed.

Lemma QR_quiet : forall s s' acc ret q,
  QR s acc ret q -> items s' = items s -> cur s' = cur s -> closed s' = closed s -> nseq s' = nseq s ->
  abs_wfull s' = abs_wfull s -> abs_kfull s' = abs_kfull s ->
  (ws s' = ws s \/ exists w wk x, nth_error (ws s) w = Some wk /\ ws s' = upd w x (ws s) /\
       blockedE (closed s) x = blockedE (closed s) wk /\ wokenE (closed s) x = wokenE (closed s) wk) ->
  QR s' acc ret q.
Proof.
  intros s s' acc ret q [] A B C D E F G. constructor; rewrite ?A, ?B, ?C, ?D, ?E, ?F; auto.
  - destruct G as [->|(w & wk & x & E1 & -> & E2 & E3)]; auto. eapply wset_upd_same; eauto.
  - destruct G as [->|(w & wk & x & E1 & -> & E2 & E3)]; auto. eapply wset_upd_same; eauto.
Qed.

Section Sim.
Variable pa : params.
Variable script : list cmd.
Hypothesis Hrule : old_rule pa = false.
Hypothesis HB : Forall op_bounded (todo_of (nthr pa) script).
Hypothesis HS : todo_size (todo_of (nthr pa) script) < two64.
Notation Inv := (Protocol_inv.Inv pa script).
Notation Side := (hist_ok pa script).

Lemma Side_quiet : forall s s' acc ret,
  Side s acc ret -> items s' = items s -> cur s' = cur s -> todo s' = todo s -> pushed s' = pushed s ->
  Permutation (segd s' ++ inflight (ws s')) (segd s ++ inflight (ws s)) -> Side s' acc ret.
Proof.
  intros s s' acc ret ((GP & GR) & PRE & SZ & BD) A B C D P. unfold hist_ok, ghost_link.
  rewrite A, B, C, D. repeat split; auto. rewrite P; auto.
Qed.

Lemma sim_quiet_upd : forall s s' acc ret q w wk x,
  QR s acc ret q -> Side s acc ret -> nth_error (ws s) w = Some wk ->
  calm (pc wk) -> calm (pc x) -> (forall q0, pc wk <> WSeg q0) -> (forall q0, pc x <> WSeg q0) ->
  items s' = items s -> cur s' = cur s -> closed s' = closed s -> nseq s' = nseq s ->
  pst s' = pst s -> todo s' = todo s -> pushed s' = pushed s -> segd s' = segd s -> ws s' = upd w x (ws s) ->
  QR s' acc ret q /\ Side s' acc ret.
Proof.
  intros s s' acc ret q w wk x R SD E C1 C2 N1 N2 A B C D P T PU SG W. split.
  - apply (QR_quiet s s' acc ret q R); auto.
    + unfold abs_wfull. rewrite P, T. reflexivity.
    + unfold abs_kfull. rewrite P, T. reflexivity.
    + right. exists w, wk, x. destruct (be_calm (closed s) x wk C2 C1). auto.
  - apply (Side_quiet s s' acc ret SD); auto. rewrite SG, W, (inflight_upd_noseg _ _ _ _ E N1 N2). reflexivity.
Qed.

Lemma head_bounded : forall s acc ret t rest,
  Side s acc ret -> todo s = OPush t :: rest -> task_bounded t /\ cur s + tsize t < two64.
Proof.
  intros s acc ret t rest (_ & (pre & EP & _) & SZ & _) T. split.
  - rewrite Forall_forall in HB. apply (HB (OPush t)). rewrite EP, T. apply in_or_app. right. left. reflexivity.
  - rewrite T in SZ. cbn [todo_size fold_right op_size] in SZ. lia.
Qed.

(* --------------------------------------------------------------------------- the two prologues *)
Lemma prologue_push : forall s acc ret q t rest woke,
  QR s acc ret q -> todo s = OPush t :: rest ->
  ((pst s = PRun /\ woke = false) \/ (pst s = PWokenF /\ woke = true)) ->
  exists q1, Queue.push_prologue q ptid (rank t) (tsize t) woke = Some q1 /\
    Queue.items q1 = Queue.items q /\ Queue.cur q1 = Queue.cur q /\ Queue.closed q1 = Queue.closed q /\
    Queue.nseq q1 = Queue.nseq q /\ Queue.wfull q1 = [] /\ Queue.kfull q1 = [] /\
    Queue.wempty q1 = Queue.wempty q /\ Queue.kempty q1 = Queue.kempty q /\
    Queue.accepted q1 = Queue.accepted q /\ Queue.returned q1 = Queue.returned q.
Proof.
  intros s acc ret q t rest woke R T [[P ->]|[P ->]]; unfold Queue.push_prologue.
  - destruct (abs_full_quiet s) as (A1 & A2); try (rewrite P; discriminate).
    assert (W : Queue.wfull q = []) by (rewrite (r_wfull _ _ _ _ R); auto).
    assert (K : Queue.kfull q = []) by (rewrite (r_kfull _ _ _ _ R); auto).
    rewrite (idle_of q ptid).
    + exists q. repeat split; auto.
    + rewrite W. intros [].
    + rewrite K. intros [].
    + eapply wset_not_ptid. apply (r_wempty _ _ _ _ R).
    + eapply wset_not_ptid. apply (r_kempty _ _ _ _ R).
  - assert (K : Queue.kfull q = [(ptid, preq_of t)]).
    { rewrite (r_kfull _ _ _ _ R). unfold abs_kfull. rewrite P, T. reflexivity. }
    assert (W : Queue.wfull q = []).
    { rewrite (r_wfull _ _ _ _ R). unfold abs_wfull. rewrite P. reflexivity. }
    rewrite K. unfold preq_of. cbn [Queue.extract Queue.ftid fst]. rewrite N.eqb_refl.
    rewrite Z.eqb_refl, N.eqb_refl. cbn [andb]. eexists. split; [reflexivity|]. qf. repeat split; auto.
Qed.

Lemma prologue_pull : forall s acc ret q w wk woke,
  QR s acc ret q -> nth_error (ws s) w = Some wk ->
  ((pc wk = WPull /\ woke = false) \/ (pc wk = WWokenE /\ woke = true)) ->
  exists q1, Queue.pull_prologue q (wtid w) woke = Some q1 /\
    Queue.items q1 = Queue.items q /\ Queue.cur q1 = Queue.cur q /\ Queue.closed q1 = Queue.closed q /\
    Queue.nseq q1 = Queue.nseq q /\ Queue.wfull q1 = Queue.wfull q /\ Queue.kfull q1 = Queue.kfull q /\
    Queue.wempty q1 = Queue.wempty q /\ Queue.accepted q1 = Queue.accepted q /\
    Queue.returned q1 = Queue.returned q /\
    NoDup (Queue.kempty q1) /\ (forall u, In u (Queue.kempty q1) <-> (In u (Queue.kempty q) /\ u <> wtid w)).
Proof.
  intros s acc ret q w wk woke R E [[P ->]|[P ->]]; unfold Queue.pull_prologue.
  - assert (NK : ~ In (wtid w) (Queue.kempty q)).
    { eapply wset_not_in; [apply (r_kempty _ _ _ _ R) | exact E |]. unfold wokenE. rewrite P. reflexivity. }
    rewrite (idle_of q (wtid w)).
    + exists q. repeat split; auto; try apply (r_kempty _ _ _ _ R); try tauto.
      intros ->. tauto.
    + rewrite (r_wfull _ _ _ _ R). intros I. apply abs_wfull_tid in I. apply wtid_ptid in I. auto.
    + rewrite (r_kfull _ _ _ _ R). intros I. apply abs_kfull_tid in I. apply wtid_ptid in I. auto.
    + eapply wset_not_in; [apply (r_wempty _ _ _ _ R) | exact E |]. unfold blockedE. rewrite P. reflexivity.
    + exact NK.
  - assert (IK : In (wtid w) (Queue.kempty q)).
    { eapply wset_in; [apply (r_kempty _ _ _ _ R) | exact E |]. unfold wokenE. rewrite P. reflexivity. }
    destruct (extract_idN _ _ (proj1 (r_kempty _ _ _ _ R)) IK) as (r & EX & NDr & Hr).
    rewrite EX. eexists. split; [reflexivity|]. qf. repeat split; auto; apply Hr; auto.
Qed.

(* not_empty.notify_one on both sides *)
Lemma notify_link : forall l W K ntf l',
  wset (blockedE false) l W -> wset (wokenE false) l K -> notify_empty l ntf = Some l' ->
  exists W' K', Queue.notify_one Queue.idN W K (ntf_tid ntf) = Some (W', K') /\
                wset (blockedE false) l' W' /\ wset (wokenE false) l' K' /\ inflight l' = inflight l.
Proof.
  intros l W K ntf l' HW HK H. destruct ntf as [i|]; cbn [notify_empty ntf_tid Queue.notify_one] in *.
  - destruct (nth_error l i) as [w|] eqn:E; [|discriminate]. destruct (is_waitE w) eqn:IW; [|discriminate].
    inversion H; subst l'; clear H.
    assert (PW : pc w = WWaitE). { unfold is_waitE in IW. destruct (pc w); try discriminate; auto. }
    assert (B1 : blockedE false w = true) by (unfold blockedE; rewrite PW; reflexivity).
    assert (K1 : wokenE false w = false) by (unfold wokenE; rewrite PW; reflexivity).
    destruct (extract_idN W (wtid i) (proj1 HW) (wset_in _ _ _ _ _ HW E B1)) as (r & EX & NDr & Hr).
    rewrite EX. exists r, (wtid i :: K). split; [reflexivity|]. split; [|split].
    + eapply wset_upd; eauto. intros u. rewrite Hr. unfold blockedE, set_pc. cbn [pc]. split.
      * intros (A & B). right. auto.
      * intros [(_ & Q)|(A & B)]; [discriminate|auto].
    + pose proof (wset_not_in _ _ _ _ _ HK E K1) as NI.
      eapply wset_upd; eauto.
      * constructor; [auto | apply HK].
      * intros u. cbn [In]. unfold wokenE, set_pc. cbn [pc]. split.
        -- intros [<-|I]; [left; auto|]. right. split; auto. intros ->. auto.
        -- intros [(-> & _)|(_ & I)]; auto.
    + eapply inflight_upd_noseg; eauto; [intros q0; rewrite PW; discriminate | intros q0; cbn; discriminate].
  - destruct (existsb is_waitE l) eqn:EX; [discriminate|]. inversion H; subst l'; clear H.
    destruct W as [|x W0].
    + exists [], K. auto.
    + exfalso. destruct HW as (_ & HW). destruct (proj1 (HW x) (or_introl eq_refl)) as (w & wk & _ & E & B).
      assert (is_waitE wk = true).
      { unfold blockedE in B. unfold is_waitE. destruct (pc wk); try discriminate; auto. }
      assert (existsb is_waitE l = true).
      { apply existsb_exists. exists wk. split; auto. eapply nth_error_In; eauto. }
      congruence.
Qed.

(* not_full.notify_one on both sides *)
Lemma notify_full_link : forall s, (pst s = PWaitF -> exists t r, todo s = OPush t :: r) ->
  exists W' K', Queue.notify_one Queue.ftid (abs_wfull s) (abs_kfull s)
                  (match pst s with PWaitF => Some ptid | _ => None end) = Some (W', K') /\
    forall s'', pst s'' = notify_full (pst s) -> todo s'' = todo s -> W' = abs_wfull s'' /\ K' = abs_kfull s''.
Proof.
  intros s HP. destruct (pst s) eqn:P.
  2: { destruct (HP eq_refl) as (t & r & T). exists [], [(ptid, preq_of t)]. split.
       - unfold abs_wfull, abs_kfull. rewrite P, T. cbn [Queue.notify_one Queue.extract Queue.ftid fst].
         rewrite N.eqb_refl. reflexivity.
       - intros s'' A B. cbn [notify_full] in A. unfold abs_wfull, abs_kfull. rewrite A, B, T. split; reflexivity. }
  all: exists [], (abs_kfull s); split;
            [unfold abs_wfull; rewrite P; reflexivity
            | intros s'' A B; cbn [notify_full] in A; unfold abs_wfull, abs_kfull; rewrite A, ?B, ?P; split; reflexivity].
Qed.

(* ------------------------------------------------------------------------------------------- push *)
Lemma sim_push : forall s acc ret q t rest woke ntf s',
  QR s acc ret q -> Side s acc ret -> todo s = OPush t :: rest ->
  ((pst s = PRun /\ woke = false) \/ (pst s = PWokenF /\ woke = true)) ->
  step_push pa s t rest ntf = Some s' ->
  exists q' acc' ret', Queue.run (cap pa) q (push_events pa s t woke ntf) = Some q' /\
                       QR s' acc' ret' q' /\ Side s' acc' ret'.
Proof.
  intros s acc ret q t rest woke ntf s' R SD T PW H.
  destruct (prologue_push _ _ _ _ _ _ _ R T PW) as (q1 & E1 & F1 & F2 & F3 & F4 & F5 & F6 & F7 & F8 & F9 & F10).
  destruct (head_bounded _ _ _ _ _ SD T) as (TB & OV).
  unfold step_push in H. destruct (closed s) eqn:C; [discriminate|].
  assert (PB : Queue.push_blocked (cap pa) q1 (cur s + tsize t) = push_blocked pa s (tsize t)).
  { unfold Queue.push_blocked, push_blocked.
    rewrite F2, F3, (r_cur _ _ _ _ R), (r_closed _ _ _ _ R), Hrule. reflexivity. }
  assert (ST : forall (X : N -> option Queue.state),
             obind (add_u64 (Queue.cur q1) (tsize t)) X = X (cur s + tsize t)).
  { intros X. rewrite F2, (r_cur _ _ _ _ R). unfold add_u64. apply N.ltb_lt in OV. rewrite OV. reflexivity. }
  destruct SD as ((GP & GR) & (pre & EP & FP) & SZ & BD).
  unfold push_events. destruct (push_blocked pa s (tsize t)) eqn:B.
  - inversion H; subst s'; clear H.
    exists (Queue.set_wfull q1 ((ptid, (rank t, tsize t)) :: Queue.wfull q1)), acc, ret. split; [|split].
    + cbn [Queue.run Queue.step]. rewrite E1. cbn [obind]. rewrite ST. cbv beta. rewrite PB. reflexivity.
    + destruct R. constructor; unfold abs_wfull, abs_kfull in *; pf; qf; try congruence;
        first [ rewrite F5, T; reflexivity | rewrite F7; assumption | rewrite F8; assumption ].
    + unfold hist_ok, ghost_link. pf. split; [split; auto|]. split; [exists pre; auto|]. split; auto.
  - unfold do_admit in H. destruct (notify_empty (ws s) ntf) as [ws'|] eqn:NE; [|discriminate].
    inversion H; subst s'; clear H.
    pose proof (r_wempty _ _ _ _ R) as HW. pose proof (r_kempty _ _ _ _ R) as HK. rewrite C in HW, HK.
    destruct (notify_link _ _ _ _ _ HW HK NE) as (W' & K' & EN & HW' & HK' & IF).
    exists (Queue.mkState (qitem (mkItem (nseq s) t) :: Queue.items q1) (cur s + tsize t) (Queue.closed q1)
                          (Queue.nseq q1 + 1) (Queue.wfull q1) (Queue.kfull q1) W' K'
                          (qitem (mkItem (nseq s) t) :: Queue.accepted q1) (Queue.returned q1)),
           (mkItem (nseq s) t :: acc), ret.
    split; [|split].
    + cbn [Queue.run Queue.step]. rewrite E1. cbn [obind]. rewrite ST. cbv beta.
      unfold Queue.do_admit. rewrite PB, F3, (r_closed _ _ _ _ R), C, F7, F8, EN, F4, (r_nseq _ _ _ _ R). reflexivity.
    + destruct R. constructor; unfold abs_wfull, abs_kfull in *; pf; qf; cbn [map]; try congruence;
        rewrite C; assumption.
    + unfold hist_ok, ghost_link. pf. split; [split|split; [|split]].
      * unfold ctg_seqs. cbn [filter]. unfold nontok at 1. cbn [itask].
        destruct (ttok t); cbn [negb map iseq]; rewrite GP; reflexivity.
      * rewrite IF. exact GR.
      * exists (pre ++ [OPush t]). split.
        -- rewrite <- app_assoc. cbn [app]. rewrite EP, T. reflexivity.
        -- constructor.
           ++ cbn [itask]. apply in_or_app. right. left. reflexivity.
           ++ eapply Forall_impl; [|exact FP]. intros a Ha. apply in_or_app. auto.
      * rewrite T in SZ. unfold todo_size in *. cbn [fold_right op_size] in SZ. lia.
      * constructor; auto.
Qed.

(* ------------------------------------------------------------------------------------------- pull *)
Lemma sim_pull : forall s acc ret q w wk woke sq s',
  Inv s -> QR s acc ret q -> Side s acc ret -> nth_error (ws s) w = Some wk ->
  ((pc wk = WPull /\ woke = false) \/ (pc wk = WWokenE /\ woke = true)) ->
  step_pull s w wk sq = Some s' ->
  exists q' acc' ret', Queue.run (cap pa) q (pull_events s w woke sq) = Some q' /\
                       QR s' acc' ret' q' /\ Side s' acc' ret'.
Proof.
  intros s acc ret q w wk woke sq s' HI R SD E PW H.
  destruct (prologue_pull _ _ _ _ _ _ _ R E PW) as (q1 & E1 & F1 & F2 & F3 & F4 & F5 & F6 & F7 & F9 & F10 & NDK & HKq).
  assert (BW : blockedE (closed s) wk = false)
    by (unfold blockedE; destruct PW as [(P & _)|(P & _)]; rewrite P; reflexivity).
  assert (NS : forall q0, pc wk <> WSeg q0)
    by (intros q0; destruct PW as [(P & _)|(P & _)]; rewrite P; discriminate).
  pose proof (wset_not_in _ _ _ _ _ (r_wempty _ _ _ _ R) E BW) as NIW.
  pose proof SD as SD0.
  destruct SD as ((GP & GR) & (pre & EP & FP) & SZ & BD).
  unfold step_pull in H. unfold pull_events.
  destruct (items s) as [|x rr] eqn:EI.
  - assert (KE : forall p', p' <> WWokenE -> (p' = WWaitE -> closed s = false) ->
                 wset (wokenE (closed s)) (upd w (set_pc wk p') (ws s)) (Queue.kempty q1)).
    { intros p' N1 N2. eapply wset_upd; [apply (r_kempty _ _ _ _ R) | exact E | exact NDK |].
      intros u. rewrite HKq. unfold wokenE, set_pc. cbn [pc]. split.
      - intros (A & B). right. auto.
      - intros [(_ & Q)|(A & B)]; [|auto]. exfalso. destruct p'; try discriminate; try congruence.
        rewrite (N2 eq_refl) in Q. discriminate. }
    destruct (closed s) eqn:C; inversion H; subst s'; clear H.
    + exists q1, acc, ret. split; [|split].
      * cbn [Queue.run Queue.step]. rewrite E1. cbn [obind]. rewrite F1, (r_items _ _ _ _ R), EI. cbn [map].
        rewrite F3, (r_closed _ _ _ _ R), C. reflexivity.
      * destruct R. constructor; unfold abs_wfull, abs_kfull in *; pf; qf; rewrite ?C in *; try congruence.
        -- rewrite F7. apply (wset_upd_same _ _ _ _ wk); auto; rewrite BW; reflexivity.
        -- apply KE; [discriminate | discriminate].
      * apply (Side_quiet s _ acc ret SD0); pf; auto.
        rewrite (inflight_upd_noseg _ _ _ _ E NS); [reflexivity | intros q0; cbn; discriminate].
    + exists (Queue.set_wempty q1 (wtid w :: Queue.wempty q1)), acc, ret. split; [|split].
      * cbn [Queue.run Queue.step]. rewrite E1. cbn [obind]. rewrite F1, (r_items _ _ _ _ R), EI. cbn [map].
        rewrite F3, (r_closed _ _ _ _ R), C. reflexivity.
      * destruct R. constructor; unfold abs_wfull, abs_kfull in *; pf; qf; rewrite ?C in *; try congruence.
        -- rewrite F7. eapply wset_upd; [exact r_wempty0 | exact E | constructor; [exact NIW | apply r_wempty0] |].
           intros u. cbn [In]. unfold blockedE at 1, set_pc. cbn [pc negb]. split.
           ++ intros [<-|I]; [left; auto|]. right. split; auto. intros ->. auto.
           ++ intros [(-> & _)|(_ & I)]; auto.
        -- apply KE; [discriminate | reflexivity].
      * apply (Side_quiet s _ acc ret SD0); pf; auto.
        rewrite (inflight_upd_noseg _ _ _ _ E NS); [reflexivity | intros q0; cbn; discriminate].
  - cbv iota. rewrite <- EI in *. clear EI x rr.
    destruct (extract sq (items s)) as [[it rest]|] eqn:EX; [|discriminate].
    destruct (is_max it (items s)) eqn:M; [|discriminate].
    destruct (sub_u64 (cur s) (tsize (itask it))) as [c'|] eqn:SU; [|discriminate].
    inversion H; subst s'; clear H.
    destruct (extract_perm _ _ _ _ EX) as (PM & SQ & IN).
    assert (BD' : Forall (fun i => task_bounded (itask i)) (it :: rest)) by (eapply Forall_perm; eauto).
    inversion BD' as [|? ? TBit BDrest]; subst.
    destruct (notify_full_link s) as (W' & K' & EN & HWK).
    { intros P. apply (i_pwait _ _ _ HI). auto. }
    set (x := set_pc wk (if ttok (itask it) then WBar 0 else WSeg (iseq it))).
    assert (CX : blockedE (closed s) x = false /\ wokenE (closed s) x = false /\
                 (ttok (itask it) = true -> forall q0, pc x <> WSeg q0) /\
                 (ttok (itask it) = false -> pc x = WSeg (iseq it))).
    { unfold x, blockedE, wokenE, set_pc. cbn [pc]. destruct (ttok (itask it)); repeat split; auto; try discriminate;
        try (intros _ q0; discriminate). }
    destruct CX as (CX1 & CX2 & CX3 & CX4).
    exists (Queue.mkState (map qitem rest) c' (Queue.closed q1) (Queue.nseq q1) W' K' (Queue.wempty q1)
                          (Queue.kempty q1) (Queue.accepted q1) (qitem it :: Queue.returned q1)),
           acc, (it :: ret).
    split; [|split].
    + cbn [Queue.run Queue.step]. rewrite E1. cbn [obind]. unfold Queue.take.
      rewrite F1, (r_items _ _ _ _ R), (extract_map _ _ _ _ EX), (is_max_qitem it (items s) BD TBit M).
      rewrite F2, (r_cur _ _ _ _ R). change (Queue.isize (qitem it)) with (tsize (itask it)). rewrite SU.
      rewrite F5, F6, (r_wfull _ _ _ _ R), (r_kfull _ _ _ _ R), EN. reflexivity.
    + destruct (HWK (mkState rest c' (closed s) (nseq s) (notify_full (pst s)) (todo s) (upd w x (ws s))
                             (bcount s) (bgen s) (claimable s) (ground s) (pushed s) (segd s) (rawbuf s) (rounds s))
                    eq_refl eq_refl) as (HW1 & HK1).
      destruct R. constructor; pf; qf; cbn [map]; try congruence.
      * rewrite F7. apply (wset_upd_same _ _ _ _ wk); auto; rewrite BW; exact CX1.
      * eapply wset_upd; [exact r_kempty0 | exact E | exact NDK |].
        intros u. rewrite HKq. fold x. rewrite CX2. split.
        -- intros (A & B). right. auto.
        -- intros [(_ & Q)|(A & B)]; [discriminate|auto].
    + unfold hist_ok, ghost_link. pf. fold x. split; [split|split; [|split]].
      * exact GP.
      * unfold ctg_seqs. cbn [filter]. unfold nontok at 1. destruct (ttok (itask it)) eqn:TK; cbn [negb map].
        -- rewrite (inflight_upd_noseg _ _ _ _ E NS (CX3 eq_refl)). exact GR.
        -- rewrite (inflight_upd_enter _ _ _ _ _ E NS (CX4 eq_refl)). apply Permutation_cons_app. exact GR.
      * exists pre. auto.
      * unfold sub_u64 in SU. destruct (tsize (itask it) <=? cur s) eqn:LE; [|discriminate].
        inversion SU; subst c'. lia.
      * exact BDrest.
Qed.

(* --------------------------------------------------------------------------------- the other steps *)
Ltac calm_tac PC :=
  first [ rewrite PC; split; discriminate | cbn [set_pc pc]; split; discriminate | apply calm_after
        | intros ?; rewrite PC; discriminate | intros ?; cbn [set_pc pc]; discriminate | apply noseg_after ].

Lemma sim_work : forall s acc ret q w sq nb s',
  Inv s -> QR s acc ret q -> Side s acc ret -> step_work pa s w sq nb = Some s' ->
  exists q' acc' ret', Queue.run (cap pa) q (qevents pa s (LWork w sq nb)) = Some q' /\
                       QR s' acc' ret' q' /\ Side s' acc' ret'.
Proof.
  intros s acc ret q w sq nb s' HI R SD H. unfold step_work in H. cbn [qevents].
  destruct (nth_error (ws s) w) as [wk|] eqn:E; [|discriminate].
  destruct (pc wk) eqn:PC.
  - eapply sim_pull; eauto.
  - (* WWaitE, closed *)
    destruct (closed s) eqn:C; [|discriminate]. inversion H; subst s'; clear H.
    exists q, acc, ret. split; [reflexivity|]. split.
    + apply (QR_quiet s _ acc ret q R); auto. right. exists w, wk, (set_pc wk WWokenE).
      rewrite C. unfold blockedE, wokenE, set_pc. cbn [pc]. rewrite PC. auto.
    + apply (Side_quiet s _ acc ret SD); pf; auto.
      rewrite (inflight_upd_noseg _ _ _ _ E); [reflexivity | intros q0; rewrite PC; discriminate | intros q0; cbn; discriminate].
  - eapply sim_pull; eauto.
  - (* WSeg *)
    inversion H; subst s'; clear H. exists q, acc, ret. split; [reflexivity|]. split.
    + apply (QR_quiet s _ acc ret q R); auto. right. exists w, wk, (set_pc wk WPull).
      unfold blockedE, wokenE, set_pc. cbn [pc]. rewrite PC. auto.
    + apply (Side_quiet s _ acc ret SD); pf; auto. cbn [app].
      rewrite (inflight_upd_leave (ws s) w (set_pc wk WPull) wk sq0 E PC); [|intros q0; cbn; discriminate].
      apply Permutation_middle.
  - (* WBar k *)
    unfold step_arrive in H. destruct (4 <=? k)%nat; [discriminate|].
    destruct (S (bcount s) <? nthr pa)%nat; inversion H; subst s'; clear H;
      exists q, acc, ret; (split; [reflexivity|]).
    + eapply (sim_quiet_upd s _ acc ret q w wk (set_pc wk (WBarW k (bgen s)))); eauto; calm_tac PC.
    + eapply (sim_quiet_upd s _ acc ret q w wk (after_bar k wk)); eauto; calm_tac PC.
  - (* WBarW k g *)
    destruct (g =? bgen s)%nat; [discriminate|]. inversion H; subst s'; clear H.
    exists q, acc, ret. split; [reflexivity|].
    eapply (sim_quiet_upd s _ acc ret q w wk (after_bar k wk)); eauto; calm_tac PC.
  - (* WPhase k *)
    destruct k as [|[|[|k]]]; [| | |discriminate].
    + destruct (w =? 0)%nat; inversion H; subst s'; clear H; exists q, acc, ret; (split; [reflexivity|]);
        eapply (sim_quiet_upd s _ acc ret q w wk (set_pc wk (WBar 1))); eauto; calm_tac PC.
    + destruct (claimable s) as [|c]; inversion H; subst s'; clear H; exists q, acc, ret; (split; [reflexivity|]).
      * eapply (sim_quiet_upd s _ acc ret q w wk (set_pc wk (WBar 2))); eauto; calm_tac PC.
      * split.
        -- apply (QR_quiet s _ acc ret q R); auto.
        -- apply (Side_quiet s _ acc ret SD); auto.
    + destruct (w =? 0)%nat; inversion H; subst s'; clear H; exists q, acc, ret; (split; [reflexivity|]);
        eapply (sim_quiet_upd s _ acc ret q w wk (set_pc wk (WBar 3))); eauto; calm_tac PC.
  - discriminate.
Qed.

Lemma sim_prod : forall s acc ret q ntf s',
  Inv s -> QR s acc ret q -> Side s acc ret -> step_prod pa s ntf = Some s' ->
  exists q' acc' ret', Queue.run (cap pa) q (qevents pa s (LProd ntf)) = Some q' /\
                       QR s' acc' ret' q' /\ Side s' acc' ret'.
Proof.
  intros s acc ret q ntf s' HI R SD H. unfold step_prod in H. cbn [qevents].
  destruct (pst s) eqn:P.
  - destruct (todo s) as [|[t|] rest] eqn:T.
    + (* close *)
      destruct (closed s) eqn:C; [discriminate|]. inversion H; subst s'; clear H.
      destruct (abs_full_quiet s) as (A1 & A2); try (rewrite P; discriminate).
      pose proof (r_wempty _ _ _ _ R) as HW. pose proof (r_kempty _ _ _ _ R) as HK. rewrite C in HW, HK.
      assert (ID : Queue.idle q ptid = true).
      { apply idle_of.
        - rewrite (r_wfull _ _ _ _ R), A1. intros [].
        - rewrite (r_kfull _ _ _ _ R), A2. intros [].
        - eapply wset_not_ptid; eauto.
        - eapply wset_not_ptid; eauto. }
      eexists _, acc, ret. split; [|split].
      * cbn [Queue.run Queue.step]. rewrite ID. reflexivity.
      * destruct R. constructor; unfold abs_wfull, abs_kfull in *; pf; qf; try congruence.
        -- rewrite r_wfull0, r_kfull0, P. reflexivity.
        -- split; [constructor|]. intros t. split; [intros []|]. intros (w & wk & _ & _ & B).
           unfold blockedE in B. destruct (pc wk); discriminate.
        -- split.
           ++ apply nodup_app_intro; [apply HW | apply HK |]. intros x I1 I2.
              apply HW in I1. apply HK in I2. destruct I1 as (w1 & k1 & -> & E1 & B1).
              destruct I2 as (w2 & k2 & E0 & E2 & B2). apply wtid_inj in E0. subst w2.
              rewrite E1 in E2. inversion E2; subst k2.
              unfold blockedE in B1. unfold wokenE in B2. destruct (pc k1); discriminate.
           ++ intros t. rewrite in_app_iff. destruct HW as (_ & HW). destruct HK as (_ & HK). rewrite HW, HK.
              split.
              ** intros [(w & wk & A & B & D)|(w & wk & A & B & D)]; exists w, wk; repeat split; auto;
                   unfold blockedE, wokenE in *; destruct (pc wk); try discriminate; auto.
              ** intros (w & wk & A & B & D).
                 assert (X : blockedE false wk = true \/ wokenE false wk = true)
                   by (unfold blockedE, wokenE in *; destruct (pc wk); try discriminate; auto).
                 destruct X; [left|right]; exists w, wk; auto.
      * apply (Side_quiet s _ acc ret SD); auto.
    + eapply sim_push; eauto.
    + (* poll *)
      assert (AW : forall l, abs_wfull (set_todo s l) = abs_wfull s /\ abs_kfull (set_todo s l) = abs_kfull s).
      { intros l. unfold abs_wfull, abs_kfull. pf. rewrite P. auto. }
      destruct (items s) eqn:EI; inversion H; subst s'; clear H; exists q, acc, ret; (split; [reflexivity|]).
      * split.
        -- apply (QR_quiet s _ acc ret q R); auto; apply AW.
        -- destruct SD as ((GP & GR) & (pre & EP & FP) & SZ & BD). unfold hist_ok, ghost_link. pf.
           split; [split; auto|]. split; [|split; auto].
           ++ exists (pre ++ [OPoll]). split.
              ** rewrite <- app_assoc. cbn [app]. rewrite EP, T. reflexivity.
              ** eapply Forall_impl; [|exact FP]. intros a Ha. apply in_or_app. auto.
           ++ rewrite T in SZ. unfold todo_size in *. cbn [fold_right op_size] in SZ. lia.
      * auto.
  - discriminate.
  - destruct (todo s) as [|[t|] rest] eqn:T; try discriminate. eapply sim_push; eauto.
  - destruct (forallb is_exited (ws s)); inversion H; subst s'; clear H.
    exists q, acc, ret. split; [reflexivity|]. split.
    + apply (QR_quiet s _ acc ret q R); auto.
      * unfold abs_wfull. pf. rewrite P. reflexivity.
      * unfold abs_kfull. pf. rewrite P. reflexivity.
    + apply (Side_quiet s _ acc ret SD); auto.
  - discriminate.
Qed.

Lemma sim_step : forall s l s' acc ret q,
  Inv s -> QR s acc ret q -> Side s acc ret -> step pa s l = Some s' ->
  exists q' acc' ret', Queue.run (cap pa) q (qevents pa s l) = Some q' /\ QR s' acc' ret' q' /\ Side s' acc' ret'.
Proof.
  intros s l s' acc ret q HI R SD H. destruct l as [ntf|w sq nb|w|]; cbn [step] in H.
  - eapply sim_prod; eauto.
  - eapply sim_work; eauto.
  - (* spurious wake-up in not_empty.wait *)
    cbn [qevents]. destruct (nth_error (ws s) w) as [wk|] eqn:E; [|discriminate].
    destruct (is_waitE wk) eqn:IW; [|discriminate]. inversion H; subst s'; clear H.
    assert (PW : pc wk = WWaitE). { unfold is_waitE in IW. destruct (pc wk); try discriminate; auto. }
    assert (IF : inflight (upd w (set_pc wk WWokenE) (ws s)) = inflight (ws s)).
    { apply (inflight_upd_noseg _ _ _ _ E); [intros q0; rewrite PW; discriminate | intros q0; cbn; discriminate]. }
    destruct (closed s) eqn:C.
    + exists q, acc, ret. split; [reflexivity|]. split.
      * apply (QR_quiet s _ acc ret q R); auto. right. exists w, wk, (set_pc wk WWokenE).
        rewrite C. unfold blockedE, wokenE, set_pc. cbn [pc]. rewrite PW. auto.
      * apply (Side_quiet s _ acc ret SD); pf; auto. rewrite IF. reflexivity.
    + pose proof (r_wempty _ _ _ _ R) as HW. pose proof (r_kempty _ _ _ _ R) as HK. rewrite C in HW, HK.
      assert (NE : notify_empty (ws s) (Some w) = Some (upd w (set_pc wk WWokenE) (ws s))).
      { cbn [notify_empty]. rewrite E, IW. reflexivity. }
      destruct (notify_link _ _ _ _ _ HW HK NE) as (W' & K' & EN & HW' & HK' & _).
      cbn [ntf_tid Queue.notify_one] in EN.
      destruct (Queue.extract Queue.idN (wtid w) (Queue.wempty q)) as [[x r]|] eqn:EX; [|discriminate].
      inversion EN; subst W' K'; clear EN.
      eexists _, acc, ret. split; [|split].
      * cbn [Queue.run Queue.step]. rewrite EX. reflexivity.
      * destruct R. constructor; unfold abs_wfull, abs_kfull in *; pf; qf; rewrite ?C; try congruence; assumption.
      * apply (Side_quiet s _ acc ret SD); pf; auto. rewrite IF. reflexivity.
  - (* spurious wake-up in not_full.wait *)
    cbn [qevents]. destruct (pst s) eqn:P; try discriminate. inversion H; subst s'; clear H.
    destruct (i_pwait _ _ _ HI (or_introl P)) as (t & r & T).
    assert (W : Queue.wfull q = [(ptid, preq_of t)]).
    { rewrite (r_wfull _ _ _ _ R). unfold abs_wfull. rewrite P, T. reflexivity. }
    assert (K : Queue.kfull q = []).
    { rewrite (r_kfull _ _ _ _ R). unfold abs_kfull. rewrite P. reflexivity. }
    eexists _, acc, ret. split; [|split].
    + cbn [Queue.run Queue.step]. rewrite W. cbn [Queue.extract Queue.ftid fst]. rewrite N.eqb_refl. reflexivity.
    + destruct R. constructor; unfold abs_wfull, abs_kfull in *; pf; qf; rewrite ?T; try congruence;
        try (rewrite K; reflexivity).
    + apply (Side_quiet s _ acc ret SD); auto.
Qed.

(* ---------------------------------------------------------------------------------- initial states *)
Lemma QR_init : QR (init pa script) [] [] Queue.init.
Proof.
  assert (E : forall f, (forall r, f (mkW WPull r) = false) -> wset f (ws (init pa script)) []).
  { intros f Hf. split; [constructor|]. intros t. split; [intros []|].
    intros (w & wk & _ & A & B). cbn [init ws] in A. apply nth_error_In in A. apply repeat_spec in A.
    subst wk. rewrite Hf in B. discriminate. }
  constructor; cbn; auto; apply E; intros; reflexivity.
Qed.

Lemma Side_init : Side (init pa script) [] [].
Proof.
  unfold hist_ok, ghost_link, init. pf. split; [split|split; [|split]].
  - reflexivity.
  - cbn. rewrite inflight_repeat. constructor.
  - exists []. split; auto.
  - unfold todo_size. lia.
  - constructor.
Qed.

Theorem refinement_reachable : (1 <= nthr pa)%nat -> forall s, reachable pa script s ->
  exists tr q acc ret, Queue.run (cap pa) Queue.init tr = Some q /\ QR s acc ret q /\ Side s acc ret.
Proof.
  intros Hn s RS. induction RS as [|s l s' RS IH ST].
  - exists [], Queue.init, [], []. split; [reflexivity|]. split; [apply QR_init | apply Side_init].
  - destruct IH as (tr & q & acc & ret & RUN & R & SD).
    pose proof (inv_reachable_all pa script Hrule Hn s RS) as HI.
    destruct (sim_step _ _ _ _ _ _ HI R SD ST) as (q' & acc' & ret' & RUN' & R' & SD').
    exists (tr ++ qevents pa s l), q', acc', ret'. split; auto.
    rewrite Queue_proofs.run_app, RUN. cbn [obind]. exact RUN'.
Qed.

End Sim.

(* -------------------------------------------------------------- the script-level domain condition *)
Lemma in_sumN : forall x l, In x l -> x <= sumN l.
Proof. unfold sumN. induction l as [|a l IH]; intros I; [destruct I|]. cbn [fold_right] in *. destruct I as [->|I]; [lia|]. specialize (IH I). lia. Qed.

Lemma todo_size_app : forall a b, todo_size (a ++ b) = todo_size a + todo_size b.
Proof. unfold todo_size. induction a as [|x a IH]; intros b; cbn [app fold_right]; [lia|]. rewrite IH. lia. Qed.
Lemma todo_size_tokens : forall p o n, todo_size (repeat (OPush (token p o)) n) = 0.
Proof. unfold todo_size. induction n; cbn [repeat fold_right op_size token tsize]; [reflexivity|]. rewrite IHn. reflexivity. Qed.
Lemma sumN_app : forall a b, sumN (a ++ b) = sumN a + sumN b.
Proof. unfold sumN. induction a as [|x a IH]; intros b; cbn [app fold_right]; [lia|]. rewrite IH. lia. Qed.

Lemma todo_size_todo_of : forall n sc, todo_size (todo_of n sc) = sumN (contig_sizes sc).
Proof.
  intros n sc. unfold todo_of, final_ops. rewrite todo_size_app, todo_size_tokens.
  assert (H : todo_size (flat_map (ops_of_cmd n) sc) = sumN (contig_sizes sc)).
  { unfold contig_sizes. induction sc as [|c r IH]; cbn [flat_map]; [reflexivity|].
    rewrite todo_size_app, sumN_app, IH. f_equal.
    destruct c; cbn [ops_of_cmd]; rewrite ?todo_size_app, ?todo_size_tokens; reflexivity. }
  rewrite H. lia.
Qed.

(* every push of the script is a contig of it or a zero-size token with one of its sequence numbers (or 0) *)
Lemma push_of_script : forall n sc t, In (OPush t) (todo_of n sc) ->
  (exists sz p o, In (Contig sz p o) sc /\ t = contig sz p o) \/
  (exists p o, t = token p o /\ (In (TokenBlock p o) sc \/ In (SyncAndFlush o) sc \/ o = 0)).
Proof.
  intros n sc t I. unfold todo_of in I. apply in_app_or in I. destruct I as [I|I].
  - apply in_flat_map in I. destruct I as (c & Ic & I). destruct c; cbn [ops_of_cmd] in I.
    + destruct I as [I|[]]. inversion I; subst. left. eauto.
    + apply repeat_spec in I. inversion I; subst. right. eauto.
    + destruct I as [I|[]]. discriminate.
    + apply in_app_or in I. destruct I as [I|[I|[]]]; [|discriminate].
      apply repeat_spec in I. inversion I; subst. right. eauto 6.
  - unfold final_ops in I. apply repeat_spec in I. inversion I; subst. right. eauto 6.
Qed.

Lemma contig_in_sizes : forall sc sz p o, In (Contig sz p o) sc -> In sz (contig_sizes sc).
Proof. intros sc sz p o I. unfold contig_sizes. apply in_flat_map. exists (Contig sz p o). split; [auto|left; auto]. Qed.

Lemma script_ops_bounded : forall n sc, script_bounded sc ->
  Forall op_bounded (todo_of n sc) /\ todo_size (todo_of n sc) < two64.
Proof.
  intros n sc (FB & SZ). split; [|rewrite todo_size_todo_of; exact SZ].
  rewrite Forall_forall. intros [t|] I; [|exact Logic.I]. cbn [op_bounded]. rewrite Forall_forall in FB.
  assert (Z64 : 0 < two64) by (unfold two64; lia).
  destruct (push_of_script _ _ _ I) as [(sz & p & o & Ic & E)|(p & o & E & D)]; subst t;
    unfold task_bounded, contig, token; cbn [tcost tord].
  - split; [|exact (FB _ Ic)]. pose proof (in_sumN _ _ (contig_in_sizes _ _ _ _ Ic)). lia.
  - destruct D as [Ic|[Ic|E0]].
    + split; [exact Z64 | exact (FB _ Ic)].
    + split; [exact Z64 | exact (FB _ Ic)].
    + subst o. split; exact Z64.
Qed.

(* ------------------------------------------------------------------------- the pinned statements *)
Section Pinned.
Variable pa : params.
Variable script : list cmd.
Hypothesis Hrule : old_rule pa = false.
Hypothesis Hn : (1 <= nthr pa)%nat.
Hypothesis Hdom : script_bounded script.

Let HB := proj1 (script_ops_bounded (nthr pa) script Hdom).
Let HS := proj2 (script_ops_bounded (nthr pa) script Hdom).

Theorem queue_refinement_step_proof : forall s l s' acc ret q,
  reachable pa script s -> qsim q (abs s acc ret) -> hist_ok pa script s acc ret -> step pa s l = Some s' ->
  exists q' acc' ret', Queue.run (cap pa) q (qevents pa s l) = Some q' /\
                       qsim q' (abs s' acc' ret') /\ hist_ok pa script s' acc' ret'.
Proof.
  intros s l s' acc ret q RS QS SD ST. apply QR_qsim in QS.
  pose proof (inv_reachable_all pa script Hrule Hn s RS) as HI.
  destruct (sim_step pa script Hrule HB HS _ _ _ _ _ _ HI QS SD ST) as (q' & acc' & ret' & A & B & C).
  exists q', acc', ret'. split; auto. split; auto. apply QR_qsim. auto.
Qed.

Lemma run_reachable : forall tr s s', reachable pa script s -> run pa s tr = Some s' -> reachable pa script s'.
Proof.
  induction tr as [|l tr IH]; intros s s' RS H; cbn [run] in H.
  - inversion H; subst; auto.
  - destruct (step pa s l) as [s1|] eqn:E; [|discriminate]. cbn [obind] in H. eapply IH; [|exact H].
    eapply reach_step; eauto.
Qed.

Lemma queue_refinement_from : forall tr s s' acc ret q,
  reachable pa script s -> QR s acc ret q -> hist_ok pa script s acc ret -> run pa s tr = Some s' ->
  exists q' acc' ret', Queue.run (cap pa) q (qtrace pa s tr) = Some q' /\ QR s' acc' ret' q' /\
                       hist_ok pa script s' acc' ret'.
Proof.
  induction tr as [|l tr IH]; intros s s' acc ret q RS R SD H; cbn [run qtrace] in *.
  - inversion H; subst. exists q, acc, ret. auto.
  - destruct (step pa s l) as [s1|] eqn:E; [|discriminate]. cbn [obind] in H.
    pose proof (inv_reachable_all pa script Hrule Hn s RS) as HI.
    destruct (sim_step pa script Hrule HB HS _ _ _ _ _ _ HI R SD E) as (q1 & acc1 & ret1 & A & B & C).
    destruct (IH s1 s' acc1 ret1 q1 (reach_step _ _ _ _ _ RS E) B C H) as (q' & acc' & ret' & A' & B' & C').
    exists q', acc', ret'. split; auto. rewrite Queue_proofs.run_app, A. cbn [obind]. exact A'.
Qed.

Theorem queue_refinement_proof : forall tr s, run pa (init pa script) tr = Some s ->
  exists q acc ret, Queue.run (cap pa) Queue.init (qtrace pa (init pa script) tr) = Some q /\
                    qsim q (abs s acc ret) /\ hist_ok pa script s acc ret.
Proof.
  intros tr s H.
  destruct (queue_refinement_from tr _ _ [] [] Queue.init (reach_init pa script) (QR_init pa script)
              (Side_init pa script Hrule HS) H) as (q & acc & ret & A & B & C).
  exists q, acc, ret. split; auto. split; auto. apply QR_qsim. auto.
Qed.

Theorem queue_refinement_reachable_proof : forall s, reachable pa script s ->
  exists tr q acc ret, Queue.run (cap pa) Queue.init tr = Some q /\ qsim q (abs s acc ret) /\
                       hist_ok pa script s acc ret.
Proof.
  intros s RS. destruct (refinement_reachable pa script Hrule HB HS Hn s RS) as (tr & q & acc & ret & A & B & C).
  exists tr, q, acc, ret. split; auto. split; auto. apply QR_qsim. auto.
Qed.

Lemma map_iseq_qitem : forall l, map Queue.iseq (map qitem l) = map iseq l.
Proof. intros. rewrite map_map. apply map_ext. reflexivity. Qed.

(* C06's invariants, read back on the Protocol state *)
Theorem queue_contract_proof : forall s, reachable pa script s ->
  cur s = sum_sizes (items s) /\
  NoDup (map iseq (items s)) /\
  ((forall sz, In sz (contig_sizes script) -> sz <= cap pa) -> cur s <= cap pa) /\
  exists acc ret, ghost_link s acc ret /\
    Permutation (map qitem acc) (map qitem (ret ++ items s)) /\
    NoDup (map iseq acc) /\ NoDup (map iseq (ret ++ items s)).
Proof.
  intros s RS. destruct (refinement_reachable pa script Hrule HB HS Hn s RS) as (tr & q & acc & ret & RUN & R & SD).
  destruct (Queue_proofs.exactly_once_proof _ _ _ RUN) as (E1 & E2 & E3 & _).
  pose proof (Queue_proofs.size_accounting_proof _ _ _ RUN) as SA.
  pose proof (Queue_proofs.bounded_proof _ _ _ RUN) as BO.
  destruct R. rewrite r_items0, r_acc0, r_ret0, ?r_cur0 in *. rewrite <- map_app in E1, E3.
  rewrite map_iseq_qitem in E2, E3. rewrite sumsz_qitem in SA.
  split; [exact SA|]. split.
  { rewrite map_app in E3. eapply Queue_proofs.nodup_app_r. exact E3. }
  split.
  - intros FIT. apply BO. intros i Ii. apply in_map_iff in Ii. destruct Ii as (a & <- & Ia).
    cbn [qitem Queue.isize].
    destruct SD as (_ & (pre & EP & FP) & _). rewrite Forall_forall in FP. specialize (FP a Ia).
    assert (I : In (OPush (itask a)) (todo_of (nthr pa) script)) by (rewrite EP; apply in_or_app; auto).
    destruct (push_of_script _ _ _ I) as [(sz & p & o & Ic & E)|(p & o & E & _)]; rewrite E; cbn [contig token tsize].
    + apply FIT. eapply contig_in_sizes; eauto.
    + lia.
  - exists acc, ret. destruct SD as (GL & _). auto.
Qed.

(* every take of the pipeline hands out a maximal task in ContigTask's order: C06's `priority` through `rank` *)
Theorem take_priority_proof : forall s w sq nb s', reachable pa script s ->
  step pa s (LWork w sq nb) = Some s' -> (length (items s') < length (items s))%nat ->
  exists it, In it (items s) /\ iseq it = sq /\ Permutation (items s) (it :: items s') /\
             forall j, In j (items s) -> task_le (itask j) (itask it) = true.
Proof.
  intros s w sq nb s' RS ST LT.
  destruct (refinement_reachable pa script Hrule HB HS Hn s RS) as (tr & q & acc & ret & RUN & R & SD).
  pose proof (inv_reachable_all pa script Hrule Hn s RS) as HI.
  destruct (sim_step pa script Hrule HB HS _ _ _ _ _ _ HI R SD ST) as (q' & acc' & ret' & RUN' & R' & SD').
  assert (BD : Forall (fun i => task_bounded (itask i)) (items s)) by apply SD.
  cbn [step] in ST. unfold step_work in ST. cbn [qevents] in RUN'.
  destruct (nth_error (ws s) w) as [wk|] eqn:E; [|discriminate].
  assert (PULL : (pc wk = WPull \/ pc wk = WWokenE) -> exists it, In it (items s) /\ iseq it = sq /\
                   Permutation (items s) (it :: items s') /\
                   forall j, In j (items s) -> task_le (itask j) (itask it) = true).
  { intros PC.
    assert (EV : exists woke, Queue.run (cap pa) q (pull_events s w woke sq) = Some q' /\
                              step_pull s w wk sq = Some s').
    { destruct PC as [PC|PC]; rewrite PC in *; eauto. }
    clear RUN'. destruct EV as (woke & RUN' & SP). unfold step_pull in SP. unfold pull_events in RUN'.
    destruct (items s) as [|x rr] eqn:EI.
    { exfalso. destruct (closed s); inversion SP; subst s'; cbn [set_ws items] in LT; rewrite EI in LT; cbn in LT; lia. }
    rewrite <- EI in *.
    destruct (extract sq (items s)) as [[it rest]|] eqn:EX; [|discriminate].
    destruct (is_max it (items s)) eqn:M; [|discriminate].
    destruct (sub_u64 (cur s) (tsize (itask it))) as [c'|]; [|discriminate].
    inversion SP; subst s'; clear SP. cbn [items].
    destruct (extract_perm _ _ _ _ EX) as (PM & SQ & IN).
    exists it. repeat split; auto.
    (* the order clause through C06 *)
    cbn [Queue.run] in RUN'.
    destruct (Queue.step (cap pa) q (Queue.EPullTake (wtid w) woke sq
               match pst s with PWaitF => Some ptid | _ => None end)) as [q1|] eqn:QS; [|discriminate].
    destruct (Queue_proofs.priority_proof (cap pa) tr q (Queue.EPullTake (wtid w) woke sq _) sq q1 RUN eq_refl QS) as (i & Ii & SQi & _ & _ & MAX & _).
    rewrite (r_items _ _ _ _ R) in Ii, MAX. apply in_map_iff in Ii. destruct Ii as (it' & <- & Iit').
    assert (it' = it).
    { pose proof (i_seq _ _ _ HI) as (_ & ND). cbn [qitem Queue.iseq] in SQi.
      destruct (extract_found _ _ Iit' ND) as (rest' & EX'). rewrite SQi, EX in EX'. inversion EX'; auto. }
    subst it'. intros j Ij. rewrite Forall_forall in BD.
    apply rank_le_iff; [apply BD; auto | apply BD; auto|].
    apply (MAX (qitem j)). apply in_map. exact Ij. }
  destruct (pc wk) eqn:PC; try (apply PULL; auto; fail); exfalso.
  - destruct (closed s); [|discriminate]. inversion ST; subst s'. cbn [set_ws items] in LT. lia.
  - inversion ST; subst s'. cbn [items] in LT. lia.
  - unfold step_arrive in ST. destruct (4 <=? k)%nat; [discriminate|].
    destruct (S (bcount s) <? nthr pa)%nat; inversion ST; subst s'; cbn [items] in LT; lia.
  - destruct (g =? bgen s)%nat; [discriminate|]. inversion ST; subst s'. cbn [set_ws items] in LT. lia.
  - destruct k as [|[|[|k]]]; [| | |discriminate].
    + destruct (w =? 0)%nat; inversion ST; subst s'; cbn [set_ws items] in LT; lia.
    + destruct (claimable s); inversion ST; subst s'; cbn [set_ws items] in LT; lia.
    + destruct (w =? 0)%nat; inversion ST; subst s'; cbn [set_ws items] in LT; lia.
  - discriminate.
Qed.

End Pinned.
