(* Tuple_proofs.v - lemmas for C12: tuple packing round trip (every length, every remainder, every range) *)
From Coq Require Import Lia ZifyBool ZifyN ZifyNat.
From Ragc Require Import Mach Consts_tuple Tuple.
Open Scope N_scope.
Arguments N.add : simpl never.
Arguments N.sub : simpl never.
Arguments N.mul : simpl never.
Arguments N.shiftl : simpl never.
Arguments N.shiftr : simpl never.
Arguments N.land : simpl never.
Arguments N.lor : simpl never.
Arguments N.modulo : simpl never.
Arguments N.div : simpl never.
Arguments N.pow : simpl never.

(* ------------------------------------------------------------------ bounded enumeration, used for the
   marker nibble arithmetic (all widths < 16, all remainders < 16) *)
Definition allb (f : N -> bool) (n : nat) : bool := forallb f (map N.of_nat (seq 0 n)).
Lemma allb_spec : forall f n, allb f n = true -> forall x, x < N.of_nat n -> f x = true.
Proof.
  intros f n H x Hx. unfold allb in H. rewrite forallb_forall in H. apply H.
  apply in_map_iff. exists (N.to_nat x). split; [apply N2Nat.id|]. apply in_seq. lia.
Qed.

(* ------------------------------------------------------------------ list facts *)
Lemma firstn_plus {A} : forall n m (l : list A), firstn (n + m) l = firstn n l ++ firstn m (skipn n l).
Proof.
  induction n as [|n IH]; intros m l; [reflexivity|].
  destruct l as [|x l]; [cbn; rewrite firstn_nil; reflexivity|]. cbn [Nat.add firstn skipn app]. rewrite IH. reflexivity.
Qed.
Lemma skipn_plus {A} : forall n m (l : list A), skipn m (skipn n l) = skipn (n + m) l.
Proof.
  induction n as [|n IH]; intros m l; [reflexivity|].
  destruct l as [|x l]; [cbn; rewrite skipn_nil; reflexivity|]. cbn [Nat.add skipn]. apply IH.
Qed.

(* ------------------------------------------------------------------ split_chunk *)
Lemma split_chunk_some : forall w l, (w <= length l)%nat -> split_chunk w l = Some (firstn w l, skipn w l).
Proof.
  induction w as [|w IH]; intros l H; [reflexivity|].
  destruct l as [|x l]; [cbn in H; lia|]. cbn [split_chunk firstn skipn].
  rewrite IH by (cbn in H; lia). reflexivity.
Qed.
Lemma split_chunk_none : forall w l, (length l < w)%nat -> split_chunk w l = None.
Proof.
  induction w as [|w IH]; intros l H; [lia|].
  destruct l as [|x l]; [reflexivity|]. cbn [split_chunk]. rewrite IH by (cbn in H; lia). reflexivity.
Qed.

(* ------------------------------------------------------------------ Horner value without wrapping *)
Definition val (r : N) (chunk : list N) : N := fold_left (fun c b => c * r + b) chunk 0.

Lemma val_snoc : forall r chunk b, val r (chunk ++ [b]) = val r chunk * r + b.
Proof. intros. unfold val. rewrite fold_left_app. reflexivity. Qed.
Lemma horner_snoc : forall r chunk b, horner r (chunk ++ [b]) = wrap32 (horner r chunk * r + b).
Proof. intros. unfold horner. rewrite fold_left_app. reflexivity. Qed.

Lemma val_lt : forall r chunk, 0 < r -> Forall (fun b => b < r) chunk -> val r chunk < r ^ N.of_nat (length chunk).
Proof.
  intros r chunk Hr. induction chunk as [|b chunk IH] using rev_ind; intros H.
  - cbn. unfold val. cbn. rewrite N.pow_0_r. lia.
  - apply Forall_app in H. destruct H as [H1 H2]. inversion H2; subst.
    rewrite val_snoc, app_length. cbn [length]. rewrite Nat.add_1_r, Nat2N.inj_succ, N.pow_succ_r'.
    specialize (IH H1). nia.
Qed.

Lemma pow_le_256 : forall r w n, 0 < r -> r ^ N.of_nat w <= 256 -> (n <= w)%nat -> r ^ N.of_nat n <= 256.
Proof.
  intros r w n Hr Hp Hn. apply N.le_trans with (r ^ N.of_nat w); [|exact Hp].
  apply N.pow_le_mono_r; lia.
Qed.

Lemma horner_val : forall r w chunk, 0 < r -> r ^ N.of_nat w <= 256 -> (length chunk <= w)%nat ->
  Forall (fun b => b < r) chunk -> horner r chunk = val r chunk.
Proof.
  intros r w chunk Hr Hp. induction chunk as [|b chunk IH] using rev_ind; intros Hl H.
  - reflexivity.
  - apply Forall_app in H. destruct H as [H1 H2]. inversion H2; subst.
    rewrite app_length in Hl. cbn [length] in Hl.
    rewrite horner_snoc, val_snoc, IH by (auto; lia).
    assert (Hv : val r (chunk ++ [b]) < r ^ N.of_nat (length (chunk ++ [b]))).
    { apply val_lt; [exact Hr|]. apply Forall_app. split; assumption. }
    rewrite val_snoc in Hv.
    assert (r ^ N.of_nat (length (chunk ++ [b])) <= 256).
    { apply pow_le_256 with w; auto. rewrite app_length. cbn [length]. lia. }
    unfold wrap32, two32. apply N.mod_small. lia.
Qed.

Lemma wrap8_horner : forall r w chunk, 0 < r -> r ^ N.of_nat w <= 256 -> (length chunk <= w)%nat ->
  Forall (fun b => b < r) chunk -> wrap8 (horner r chunk) = val r chunk.
Proof.
  intros r w chunk Hr Hp Hl H. rewrite (horner_val r w) by assumption.
  assert (val r chunk < r ^ N.of_nat (length chunk)) by (apply val_lt; assumption).
  assert (r ^ N.of_nat (length chunk) <= 256) by (apply pow_le_256 with w; assumption).
  unfold wrap8. apply N.mod_small. lia.
Qed.

(* digits inverts val *)
Lemma digits_val : forall r chunk, 0 < r -> r <= 256 -> Forall (fun b => b < r) chunk ->
  digits r (length chunk) (val r chunk) = chunk.
Proof.
  intros r chunk Hr Hr2. induction chunk as [|b chunk IH] using rev_ind; intros H.
  - reflexivity.
  - apply Forall_app in H. destruct H as [H1 H2]. inversion H2; subst.
    rewrite app_length. cbn [length]. rewrite Nat.add_1_r. cbn [digits]. rewrite val_snoc.
    assert (E1 : (val r chunk * r + b) / r = val r chunk).
    { symmetry. apply N.div_unique with b; lia. }
    assert (E2 : (val r chunk * r + b) mod r = b).
    { symmetry. apply N.mod_unique with (val r chunk); lia. }
    rewrite E1, E2, IH by assumption. f_equal. f_equal. unfold wrap8. apply N.mod_small. lia.
Qed.

(* ------------------------------------------------------------------ the two loops against each other *)
Section Loops.
  Variable w : nat.
  Variable r : N.
  Hypothesis Hw : (0 < w)%nat.
  Hypothesis Hr : 0 < r.
  Hypothesis Hpow : r ^ N.of_nat w <= 256.

  Lemma r_le_256 : r <= 256.
  Proof.
    apply N.le_trans with (r ^ N.of_nat w); [|exact Hpow].
    replace r with (r ^ 1) at 1 by apply N.pow_1_r. apply N.pow_le_mono_r; lia.
  Qed.

  Lemma loops_roundtrip : forall q fuel l rem,
    (q < fuel)%nat -> length l = (q * w + rem)%nat -> (rem < w)%nat -> Forall (fun b => b < r) l ->
    exists body, pack_loop fuel w r l = Some body /\ length body = S q /\
      forall extra, unpack_loop w r q (body ++ extra)
                    = Ok (firstn (q * w) l, wrap8 (horner r (skipn (q * w) l)) :: extra).
  Proof.
    induction q as [|q IH]; intros fuel l rem Hf Hl Hrem Hall.
    - destruct fuel as [|f]; [lia|]. cbn [pack_loop]. rewrite split_chunk_none by lia.
      eexists. split; [reflexivity|]. split; [reflexivity|]. intros extra. reflexivity.
    - destruct fuel as [|f]; [lia|]. cbn [pack_loop]. rewrite split_chunk_some by lia.
      assert (Hl' : length (skipn w l) = (q * w + rem)%nat) by (rewrite skipn_length; lia).
      assert (Hall' : Forall (fun b => b < r) (skipn w l)).
      { rewrite <- (firstn_skipn w l) in Hall. apply Forall_app in Hall. tauto. }
      assert (Hallf : Forall (fun b => b < r) (firstn w l)).
      { rewrite <- (firstn_skipn w l) in Hall. apply Forall_app in Hall. tauto. }
      destruct (IH f (skipn w l) rem ltac:(lia) Hl' Hrem Hall') as (body & Hb & Hlen & Hun).
      rewrite Hb. eexists. split; [reflexivity|]. split; [cbn [length]; lia|]. intros extra.
      cbn [app unpack_loop]. rewrite Hun.
      assert (Hfl : length (firstn w l) = w) by (rewrite firstn_length; lia).
      rewrite (wrap8_horner r w) by (auto; lia).
      replace (digits r w (val r (firstn w l))) with (firstn w l)
        by (rewrite <- Hfl at 2; symmetry; apply digits_val; auto using r_le_256).
      f_equal. f_equal.
      + replace (S q * w)%nat with (w + q * w)%nat by lia. rewrite firstn_plus. reflexivity.
      + rewrite skipn_plus. replace (S q * w)%nat with (w + q * w)%nat by lia. reflexivity.
  Qed.
End Loops.

(* ------------------------------------------------------------------ marker byte: (w << 4) | rem and back *)
Definition nibble_check (w rem : N) : bool :=
  let m := N.lor (wrap8 (N.shiftl (wrap8 w) tp_pack_shift)) (wrap8 rem) in
  (N.shiftr m tp_unpack_shift =? w) && (N.land m tp_unpack_mask =? rem) && (m <? 256).

Lemma nibble_ok : forall w rem, w < 16 -> rem < 16 -> nibble_check w rem = true.
Proof.
  intros w rem Hw Hrem.
  assert (H : allb (fun w => allb (nibble_check w) 16) 16 = true) by (vm_compute; reflexivity).
  pose proof (allb_spec _ _ H w Hw) as H1. cbv beta in H1.
  exact (allb_spec _ _ H1 rem Hrem).
Qed.

Lemma pack_marker_spec : forall w len, 0 < w -> w < 16 ->
  N.shiftr (pack_marker w len) tp_unpack_shift = w /\
  N.land (pack_marker w len) tp_unpack_mask = len mod w /\ pack_marker w len < 256.
Proof.
  intros w len H0 Hw. assert (Hm : len mod w < w) by (apply N.mod_lt; lia).
  pose proof (nibble_ok w (len mod w) Hw ltac:(lia)) as H. unfold nibble_check in H. cbv zeta in H.
  fold (pack_marker w len) in H. lia.
Qed.

(* ------------------------------------------------------------------ side conditions on the translated constants *)
Definition range_okb (t w r : N) : bool :=
  (t <=? r) && (0 <? r) && (0 <? w) && (w <? 16) && (r ^ w <=? 256) && negb (w =? tp_plain_no_bytes) &&
  match lookup_arm w tp_unpack_arms with Some (w', r') => (w' =? w) && (r' =? r) | None => false end.

Lemma ranges_okb : forallb (fun twr => let '(t, w, r) := twr in range_okb t w r) tp_ranges = true.
Proof. vm_compute. reflexivity. Qed.

Lemma plain_markers_ok :
  N.shiftr tp_plain_marker tp_unpack_shift = tp_plain_no_bytes /\
  N.shiftr tp_empty_marker tp_unpack_shift = tp_plain_no_bytes /\
  tp_plain_marker < 256 /\ tp_empty_marker < 256.
Proof. vm_compute. repeat split; reflexivity. Qed.

Lemma choose_range_ok : forall m rs w r,
  forallb (fun twr => let '(t, w, r) := twr in range_okb t w r) rs = true ->
  choose_range m rs = Some (w, r) -> exists t, m < t /\ range_okb t w r = true.
Proof.
  induction rs as [|[[t w'] r'] rs IH]; intros w r Hall H; [discriminate|].
  cbn [forallb] in Hall. apply andb_prop in Hall. destruct Hall as [H1 H2]. cbn [choose_range] in H.
  destruct (m <? t) eqn:E.
  - injection H as <- <-. exists t. split; [lia|exact H1].
  - apply IH; assumption.
Qed.

Record range_ok (w r : N) : Prop := {
  rk_r : 0 < r; rk_w : 0 < w; rk_w16 : w < 16; rk_pow : r ^ w <= 256;
  rk_plain : w <> tp_plain_no_bytes; rk_arm : lookup_arm w tp_unpack_arms = Some (w, r) }.

Lemma range_okb_ok : forall t w r, range_okb t w r = true -> t <= r /\ range_ok w r.
Proof.
  intros t w r H. unfold range_okb in H.
  destruct (lookup_arm w tp_unpack_arms) as [[w' r']|] eqn:E.
  2:{ rewrite !andb_false_r in H. discriminate. }
  remember (r ^ w) as p. split; [lia|]. constructor; try lia.
  replace w' with w in E by lia. replace r' with r in E by lia. exact E.
Qed.

(* ------------------------------------------------------------------ max_elem *)
Lemma fold_max_ge : forall l a, a <= fold_left N.max l a /\ forall x, In x l -> x <= fold_left N.max l a.
Proof.
  induction l as [|y l IH]; intros a; cbn [fold_left].
  - split; [lia|]. intros x [].
  - destruct (IH (N.max a y)) as [H1 H2]. split; [lia|].
    intros x [<-|Hx]; [lia|]. apply H2, Hx.
Qed.
Lemma max_elem_lt : forall l r, max_elem l < r -> Forall (fun b => b < r) l.
Proof.
  intros l r H. apply Forall_forall. intros x Hx.
  pose proof (proj2 (fold_max_ge l 0) x Hx). unfold max_elem in H. lia.
Qed.

(* ------------------------------------------------------------------ tuples_to_bytes on body ++ [marker] *)
Lemma tuples_to_bytes_snoc : forall body m,
  tuples_to_bytes (body ++ [m]) =
    if N.shiftr m tp_unpack_shift =? tp_plain_no_bytes then Ok body
    else match sub_u64 (lenN body + 1) tp_size_sub with
         | None => Panic
         | Some k =>
             match lookup_arm (N.shiftr m tp_unpack_shift) tp_unpack_arms with
             | Some (w, r) => unpack_tuples w r body (k * N.shiftr m tp_unpack_shift + N.land m tp_unpack_mask)
             | None => Panic
             end
         end.
Proof.
  intros body m. unfold tuples_to_bytes. destruct (body ++ [m]) as [|x t] eqn:E.
  { destruct body; discriminate. }
  rewrite <- E. rewrite last_last, removelast_last. cbv zeta.
  replace (lenN (body ++ [m])) with (lenN body + 1); [reflexivity|].
  unfold lenN. rewrite app_length. cbn [length]. lia.
Qed.

(* ------------------------------------------------------------------ one packed range *)
Lemma pack_loop_bytes : forall w r fuel l body, pack_loop fuel w r l = Some body -> Forall byte body.
Proof.
  intros w r. induction fuel as [|f IH]; intros l body Hb; [discriminate|]. cbn [pack_loop] in Hb.
  destruct (split_chunk w l) as [[c rest]|].
  - destruct (pack_loop f w r rest) as [out|] eqn:E; [|discriminate].
    injection Hb as <-. constructor; [unfold byte, wrap8; apply N.mod_lt; lia|]. eapply IH; eassumption.
  - injection Hb as <-. constructor; [unfold byte, wrap8; apply N.mod_lt; lia|constructor].
Qed.

Lemma pack_unpack : forall w r l, range_ok w r -> Forall (fun b => b < r) l ->
  exists t, pack_tuples w r l = Some t /\ tuples_to_bytes t = Ok l /\ Forall byte t.
Proof.
  intros w r l [Hr Hw Hw16 Hpow Hplain Harm] Hall.
  set (qN := lenN l / w). set (remN := lenN l mod w).
  assert (Hdm : lenN l = w * qN + remN) by (apply N.div_mod; lia).
  assert (Hrem : remN < w) by (apply N.mod_lt; lia).
  assert (Hpow' : r ^ N.of_nat (N.to_nat w) <= 256) by (rewrite N2Nat.id; exact Hpow).
  assert (HlenL : length l = (N.to_nat qN * N.to_nat w + N.to_nat remN)%nat) by (unfold lenN in Hdm; lia).
  destruct (loops_roundtrip (N.to_nat w) r ltac:(lia) Hr Hpow' (N.to_nat qN) (S (length l)) l (N.to_nat remN)
              ltac:(unfold lenN in Hdm; nia) HlenL ltac:(lia) Hall) as (body & Hb & Hlen & Hun).
  unfold pack_tuples. rewrite Hb. eexists. split; [reflexivity|].
  destruct (pack_marker_spec w (lenN l) Hw Hw16) as (Hs & Hl & Hm256).
  split.
  - rewrite tuples_to_bytes_snoc. rewrite Hs, Hl. fold remN.
    replace (w =? tp_plain_no_bytes) with false by lia.
    assert (Hsub : sub_u64 (lenN body + 1) tp_size_sub = Some qN).
    { unfold sub_u64, tp_size_sub, lenN. rewrite Hlen.
      replace (2 <=? N.of_nat (S (N.to_nat qN)) + 1) with true by lia. f_equal. lia. }
    rewrite Hsub, Harm. unfold unpack_tuples.
    assert (Hd : (qN * w + remN) / w = qN) by (symmetry; apply N.div_unique with remN; lia).
    assert (Hmo : (qN * w + remN) mod w = remN) by (symmetry; apply N.mod_unique with qN; lia).
    rewrite Hd, Hmo. rewrite <- (app_nil_r body), Hun.
    assert (Hsk : length (skipn (N.to_nat qN * N.to_nat w) l) = N.to_nat remN) by (rewrite skipn_length; lia).
    assert (Hallsk : Forall (fun b => b < r) (skipn (N.to_nat qN * N.to_nat w) l)).
    { rewrite <- (firstn_skipn (N.to_nat qN * N.to_nat w) l) in Hall. apply Forall_app in Hall. tauto. }
    destruct (0 <? remN) eqn:E.
    + rewrite (wrap8_horner r (N.to_nat w)) by (auto; lia).
      rewrite <- Hsk. rewrite digits_val; auto.
      * rewrite firstn_skipn. reflexivity.
      * apply (r_le_256 (N.to_nat w) r); auto; lia.
    + rewrite firstn_all2 by lia. reflexivity.
  - apply Forall_app. split.
    + eapply pack_loop_bytes; eassumption.
    + constructor; [exact Hm256|constructor].
Qed.

(* ------------------------------------------------------------------ bytes_to_tuples, all four ranges and the empty input *)
Lemma bytes_to_tuples_opt_nonempty : forall l, l <> [] ->
  bytes_to_tuples_opt l = match choose_range (max_elem l) tp_ranges with
                          | Some (w, r) => pack_tuples w r l
                          | None => Some (l ++ [tp_plain_marker])
                          end.
Proof. intros [|x l] H; [congruence|reflexivity]. Qed.

Lemma bytes_to_tuples_opt_spec : forall l,
  exists t, bytes_to_tuples_opt l = Some t /\ tuples_to_bytes t = Ok l /\ (bytes l -> bytes t) /\ t <> [].
Proof.
  intros l. destruct plain_markers_ok as (Hp & He & Hp256 & He256).
  destruct l as [|x l'].
  - exists [tp_empty_marker]. split; [reflexivity|]. split; [|split; [|discriminate]].
    + change [tp_empty_marker] with ([] ++ [tp_empty_marker]). rewrite tuples_to_bytes_snoc, He, N.eqb_refl. reflexivity.
    + intros _. constructor; [exact He256|constructor].
  - remember (x :: l') as l eqn:El. assert (Hne : l <> []) by (subst; discriminate).
    rewrite bytes_to_tuples_opt_nonempty by exact Hne.
    destruct (choose_range (max_elem l) tp_ranges) as [[w r]|] eqn:E.
    + destruct (choose_range_ok _ _ _ _ ranges_okb E) as (t & Hmt & Hok).
      apply range_okb_ok in Hok. destruct Hok as [Htr Hok].
      destruct (pack_unpack w r l Hok (max_elem_lt l r ltac:(lia))) as (tt & H1 & H2 & H3).
      exists tt. split; [exact H1|]. split; [exact H2|]. split; [intros _; exact H3|].
      intros ->. unfold tuples_to_bytes in H2. injection H2 as <-. congruence.
    + exists (l ++ [tp_plain_marker]). split; [reflexivity|]. split; [|split].
      * rewrite tuples_to_bytes_snoc, Hp, N.eqb_refl. reflexivity.
      * intros Hb. apply Forall_app. split; [exact Hb|]. constructor; [exact Hp256|constructor].
      * intros H. apply app_eq_nil in H. destruct H; discriminate.
Qed.

Lemma bytes_to_tuples_opt_total : forall l, bytes_to_tuples_opt l = Some (bytes_to_tuples l).
Proof.
  intros l. destruct (bytes_to_tuples_opt_spec l) as (t & H & _). unfold bytes_to_tuples. rewrite H. reflexivity.
Qed.

Lemma tuples_roundtrip_proof : forall l, tuples_to_bytes (bytes_to_tuples l) = Ok l.
Proof.
  intros l. destruct (bytes_to_tuples_opt_spec l) as (t & H & H2 & _). unfold bytes_to_tuples. rewrite H. exact H2.
Qed.

Lemma tuples_injective_proof : forall l1 l2, bytes_to_tuples l1 = bytes_to_tuples l2 -> l1 = l2.
Proof.
  intros l1 l2 H. pose proof (tuples_roundtrip_proof l1) as H1. rewrite H, tuples_roundtrip_proof in H1.
  injection H1 as ->. reflexivity.
Qed.

Lemma tuples_are_bytes_proof : forall l, bytes l -> bytes (bytes_to_tuples l).
Proof.
  intros l Hb. destruct (bytes_to_tuples_opt_spec l) as (t & H & _ & H3 & _). unfold bytes_to_tuples. rewrite H. auto.
Qed.

Lemma bytes_to_tuples_nonempty : forall l, bytes_to_tuples l <> [].
Proof.
  intros l. destruct (bytes_to_tuples_opt_spec l) as (t & H & _ & _ & H4). unfold bytes_to_tuples. rewrite H. exact H4.
Qed.
