(* Range_proofs.v — lemmas for C07 (model: Range.v).  Structure:
     1. list helpers with N indices (firstnN / skipnN / lenN), the window function [win]
     2. the contributions ("chunks") of the segments of a contig: chunk 0 is the whole oriented segment,
        chunk i>0 the oriented segment without its first k bases; the contig is their concatenation
     3. the four loops against that description
     4. the statements pinned in props/C07.v *)
From Coq Require Import Lia ZifyBool ZifyN ZifyNat.
From Ragc Require Import Mach Range.
Open Scope N_scope.
Arguments N.add : simpl never. Arguments N.sub : simpl never. Arguments N.mul : simpl never.
Arguments N.min : simpl never. Arguments N.leb : simpl never. Arguments N.ltb : simpl never.
Arguments N.modulo : simpl never. Arguments N.div : simpl never. Arguments N.pow : simpl never.

(* ---------------------------------------------------------------- 1. list helpers *)
Section ListN.
Context {A : Type}.
Implicit Types l a b : list A.

Lemma lenN_app a b : lenN (a ++ b) = lenN a + lenN b.
Proof. unfold lenN. rewrite app_length. lia. Qed.

Lemma lenN_nil : lenN (@nil A) = 0.
Proof. reflexivity. Qed.

Lemma lenN_skipnN n l : lenN (skipnN n l) = lenN l - n.
Proof. unfold lenN, skipnN. rewrite skipn_length. lia. Qed.

Lemma lenN_firstnN n l : lenN (firstnN n l) = N.min n (lenN l).
Proof. unfold lenN, firstnN. rewrite firstn_length. lia. Qed.

Lemma firstnN_0 l : firstnN 0 l = [].
Proof. reflexivity. Qed.

Lemma skipnN_0 l : skipnN 0 l = l.
Proof. reflexivity. Qed.

Lemma firstnN_nil n : firstnN n (@nil A) = [].
Proof. unfold firstnN. apply firstn_nil. Qed.

Lemma skipnN_nil n : skipnN n (@nil A) = [].
Proof. unfold skipnN. apply skipn_nil. Qed.

Lemma firstnN_all n l : lenN l <= n -> firstnN n l = l.
Proof. unfold lenN, firstnN. intro H. apply firstn_all2. lia. Qed.

Lemma skipnN_all n l : lenN l <= n -> skipnN n l = [].
Proof. unfold lenN, skipnN. intro H. apply skipn_all2. lia. Qed.

Lemma skipn_add_nat : forall (x y : nat) l, skipn (x + y) l = skipn y (skipn x l).
Proof.
  induction x as [|x IH]; intros y l; [reflexivity|].
  destruct l as [|h t]; cbn [Nat.add skipn]; [now rewrite skipn_nil | apply IH].
Qed.

Lemma skipnN_add x y l : skipnN (x + y) l = skipnN y (skipnN x l).
Proof. unfold skipnN. rewrite N2Nat.inj_add. apply skipn_add_nat. Qed.

Lemma skipnN_firstnN_comm m n l : skipnN m (firstnN n l) = firstnN (n - m) (skipnN m l).
Proof. unfold skipnN, firstnN. rewrite N2Nat.inj_sub. apply skipn_firstn_comm. Qed.

Lemma firstnN_app n a b : firstnN n (a ++ b) = firstnN n a ++ firstnN (n - lenN a) b.
Proof.
  unfold firstnN, lenN. rewrite firstn_app. do 2 f_equal. lia.
Qed.

Lemma skipnN_app n a b : skipnN n (a ++ b) = skipnN n a ++ skipnN (n - lenN a) b.
Proof.
  unfold skipnN, lenN. rewrite skipn_app. do 2 f_equal. lia.
Qed.

(* the elements of [l] whose absolute position pos + j lies in [s, e) *)
Definition win (pos : N) l (s e : N) : list A := skipnN (s - pos) (firstnN (e - pos) l).

Lemma win_app pos a b s e : win pos (a ++ b) s e = win pos a s e ++ win (pos + lenN a) b s e.
Proof.
  unfold win. rewrite firstnN_app, skipnN_app, lenN_firstnN. f_equal.
  destruct (N.le_gt_cases (lenN a) (e - pos)) as [H|H].
  - replace (s - pos - N.min (e - pos) (lenN a)) with (s - (pos + lenN a)) by lia.
    replace (e - pos - lenN a) with (e - (pos + lenN a)) by lia. reflexivity.
  - replace (e - pos - lenN a) with 0 by lia. replace (e - (pos + lenN a)) with 0 by lia.
    rewrite firstnN_0, !skipnN_nil. reflexivity.
Qed.

Lemma win_nil pos s e : win pos (@nil A) s e = [].
Proof. unfold win. rewrite firstnN_nil. apply skipnN_nil. Qed.

Lemma win_before pos l s e : pos + lenN l <= s -> win pos l s e = [].
Proof.
  intro H. unfold win. apply skipnN_all. rewrite lenN_firstnN. lia.
Qed.

Lemma win_after pos l s e : e <= pos -> win pos l s e = [].
Proof.
  intro H. unfold win. replace (e - pos) with 0 by lia. rewrite firstnN_0. apply skipnN_nil.
Qed.

(* the window of the whole list from position 0 is the slice of the property text *)
Lemma win_0 l s e : win 0 l s e = firstnN (e - s) (skipnN s l).
Proof. unfold win. rewrite !N.sub_0_r. apply skipnN_firstnN_comm. Qed.

(* what the inner slice of get_contig_range selects from one contribution [c] placed at [pos] *)
Lemma win_one pos l s e x y :
  x = s - pos -> y = N.min (e - pos) (lenN l) ->
  win pos l s e = if x <? y then firstnN (y - x) (skipnN x l) else [].
Proof.
  intros -> ->. unfold win. rewrite skipnN_firstnN_comm.
  destruct (N.ltb_spec (s - pos) (N.min (e - pos) (lenN l))) as [H|H].
  - destruct (N.le_gt_cases (e - pos) (lenN l)) as [H1|H1].
    + replace (N.min (e - pos) (lenN l)) with (e - pos) by lia. reflexivity.
    + replace (N.min (e - pos) (lenN l)) with (lenN l) by lia.
      rewrite !firstnN_all; [reflexivity | rewrite lenN_skipnN; lia | rewrite lenN_skipnN; lia].
  - destruct (N.le_gt_cases (e - pos) (lenN l)) as [H1|H1].
    + replace (e - pos - (s - pos)) with 0 by lia. apply firstnN_0.
    + rewrite (skipnN_all (s - pos) l) by lia. apply firstnN_nil.
Qed.
End ListN.

(* ---------------------------------------------------------------- 2. contributions *)
Lemma oriented_len s : lenN (oriented s) = lenN (rs_data s).
Proof.
  unfold oriented, reverse_complement_segment, lenN. destruct (rs_rc s); [|reflexivity].
  now rewrite map_length, rev_length.
Qed.

(* contribution_start_in_segment *)
Definition csis (k : N) (i : nat) : N := if Nat.eqb i 0 then 0 else k.
Definition chunk (k : N) (i : nat) (s : rseg) : list N := skipnN (csis k i) (oriented s).
Fixpoint chunks_from (k : N) (i : nat) (segs : list rseg) : list (list N) :=
  match segs with [] => [] | s :: r => chunk k i s :: chunks_from k (S i) r end.
Fixpoint wf_from (k : N) (i : nat) (segs : list rseg) : Prop :=
  match segs with
  | [] => True
  | s :: r => rs_raw s = lenN (rs_data s) /\ csis k i <= lenN (rs_data s) /\ wf_from k (S i) r
  end.

Lemma chunk_len k i s : csis k i <= lenN (rs_data s) -> lenN (chunk k i s) = lenN (rs_data s) - csis k i.
Proof. intros _. unfold chunk. now rewrite lenN_skipnN, oriented_len. Qed.

Lemma wf_from_later k segs : forall i, (0 < i)%nat ->
  Forall (fun s => rs_raw s = lenN (rs_data s)) segs -> Forall (fun s => k <= lenN (rs_data s)) segs ->
  wf_from k i segs.
Proof.
  induction segs as [|s r IH]; intros i Hi H1 H2; [exact I|].
  inversion H1; inversion H2; subst. cbn [wf_from]. split; [assumption|]. split.
  - unfold csis. destruct i; [lia|]. cbn. assumption.
  - apply IH; [lia|assumption|assumption].
Qed.

Lemma wf_wf_from k segs : wf k segs -> wf_from k 0 segs.
Proof.
  intros [H1 H2]. destruct segs as [|s r]; [exact I|].
  inversion H1; subst. cbn [wf_from]. split; [assumption|]. split.
  - cbn. lia.
  - apply wf_from_later; [lia|assumption|assumption].
Qed.

Lemma chunks_later k segs : forall i, (0 < i)%nat ->
  chunks_from k i segs = map (fun s => skipnN k (oriented s)) segs.
Proof.
  induction segs as [|s r IH]; intros i Hi; [reflexivity|].
  cbn [chunks_from map]. rewrite IH by lia. f_equal. unfold chunk, csis. destruct i; [lia|reflexivity].
Qed.

Lemma chunks_0 k s r :
  concat (chunks_from k 0 (s :: r)) = oriented s ++ concat (map (fun s => skipnN k (oriented s)) r).
Proof. cbn [chunks_from concat]. rewrite chunks_later by lia. reflexivity. Qed.

(* ---------------------------------------------------------------- 3. the loops *)
Lemma reconstruct_loop_spec k : forall segs i acc, wf_from k i segs ->
  reconstruct_loop k i segs acc = Ok (acc ++ concat (chunks_from k i segs)).
Proof.
  induction segs as [|s r IH]; intros i acc Hwf.
  - cbn. now rewrite app_nil_r.
  - destruct Hwf as (_ & Hc & Hr). cbn [reconstruct_loop chunks_from concat].
    unfold chunk, csis in *. destruct (Nat.eqb i 0).
    + rewrite IH by assumption. now rewrite skipnN_0, app_assoc.
    + rewrite oriented_len. destruct (N.ltb_spec (lenN (rs_data s)) k); [lia|].
      rewrite IH by assumption. now rewrite app_assoc.
Qed.

Lemma length_loop_spec k : forall segs i tot, wf_from k i segs ->
  tot + lenN (concat (chunks_from k i segs)) < two64 ->
  length_loop k i segs tot = Ok (tot + lenN (concat (chunks_from k i segs))).
Proof.
  induction segs as [|s r IH]; intros i tot Hwf Hb.
  - cbn [length_loop chunks_from concat]. change (lenN (@nil N)) with 0. f_equal. lia.
  - destruct Hwf as (Hraw & Hc & Hr). cbn [length_loop chunks_from concat] in *.
    rewrite lenN_app in Hb |- *. rewrite (chunk_len k i s Hc) in Hb |- *. rewrite Hraw.
    unfold csis in *. destruct (Nat.eqb i 0).
    + unfold add_u64. destruct (N.ltb_spec (tot + lenN (rs_data s)) two64); [|lia].
      rewrite IH by (assumption || lia). f_equal. lia.
    + unfold sub_u64. destruct (N.leb_spec k (lenN (rs_data s))); [|lia].
      unfold add_u64. destruct (N.ltb_spec (tot + (lenN (rs_data s) - k)) two64); [|lia].
      rewrite IH by (assumption || lia). f_equal. lia.
Qed.

Fixpoint ranges_spec (i : nat) (cs : list (list N)) (pos : N) : list (N * N * nat) :=
  match cs with
  | [] => []
  | c :: r => (pos, pos + lenN c, i) :: ranges_spec (S i) r (pos + lenN c)
  end.

Lemma segment_ranges_loop_spec k : forall segs i pos, wf_from k i segs ->
  pos + lenN (concat (chunks_from k i segs)) < two64 ->
  segment_ranges_loop k i segs pos =
  Ok (ranges_spec i (chunks_from k i segs) pos, pos + lenN (concat (chunks_from k i segs))).
Proof.
  induction segs as [|s r IH]; intros i pos Hwf Hb.
  - cbn [segment_ranges_loop chunks_from concat ranges_spec]. change (lenN (@nil N)) with 0. do 2 f_equal. lia.
  - destruct Hwf as (Hraw & Hc & Hr). cbn [segment_ranges_loop chunks_from concat ranges_spec] in *.
    rewrite lenN_app in Hb |- *. rewrite Hraw.
    assert (Hcl := chunk_len k i s Hc).
    assert (Hcon : (if Nat.eqb i 0 then Some (lenN (rs_data s)) else sub_u64 (lenN (rs_data s)) k)
                   = Some (lenN (chunk k i s))).
    { rewrite Hcl. unfold csis in *. destruct (Nat.eqb i 0); [f_equal; lia|].
      unfold sub_u64. destruct (N.leb_spec k (lenN (rs_data s))); [reflexivity|lia]. }
    rewrite Hcon. unfold add_u64.
    destruct (N.ltb_spec (pos + lenN (chunk k i s)) two64); [|lia].
    rewrite IH by (assumption || lia). cbn [obnd fst snd]. do 2 f_equal. lia.
Qed.

Lemma range_loop_spec k all s e : k < two32 -> forall rest i pos acc,
  (forall j sg, nth_error rest j = Some sg -> nth_error all (i + j) = Some sg) ->
  wf_from k i rest ->
  pos + lenN (concat (chunks_from k i rest)) <= isize_max ->
  range_loop k all s e (ranges_spec i (chunks_from k i rest) pos) acc =
  Ok (acc ++ win pos (concat (chunks_from k i rest)) s e).
Proof.
  intros Hk. induction rest as [|sg r IH]; intros i pos acc Hnth Hwf Hb.
  - cbn. now rewrite win_nil, app_nil_r.
  - destruct Hwf as (Hraw & Hc & Hr).
    cbn [chunks_from concat ranges_spec range_loop] in *. rewrite lenN_app in Hb.
    rewrite win_app.
    assert (Hnth' : forall j sg', nth_error r j = Some sg' -> nth_error all (S i + j) = Some sg').
    { intros j sg' Hj. specialize (Hnth (S j) sg' Hj). now rewrite <- plus_n_Sm in Hnth. }
    set (c := chunk k i sg) in *.
    destruct (N.leb_spec (pos + lenN c) s) as [Hs|Hs].
    { (* continue *)
      rewrite IH by (assumption || lia). rewrite (win_before pos c) by assumption. reflexivity. }
    destruct (N.leb_spec e pos) as [He|He].
    { (* break *)
      rewrite (win_after pos c) by assumption. rewrite win_after by lia. now rewrite app_nil_r. }
    assert (H0 : nth_error all i = Some sg).
    { replace i with (i + 0)%nat by lia. apply Hnth. reflexivity. }
    rewrite H0.
    fold (csis k i).
    assert (Hcl : lenN c = lenN (rs_data sg) - csis k i) by (apply chunk_len; assumption).
    assert (Hcs : csis k i <= k) by (unfold csis; destruct (Nat.eqb i 0); lia).
    unfold sub_u64. destruct (N.leb_spec pos e); [|lia].
    destruct (N.leb_spec pos (pos + lenN c)); [|lia].
    replace (pos + lenN c - pos) with (lenN c) by lia.
    assert (Hss : sat_sub s pos = s - pos) by (unfold sat_sub; destruct (N.leb_spec pos s); lia).
    rewrite Hss. unfold add_u64, two64, two32, isize_max in *.
    destruct (N.ltb_spec (csis k i + (s - pos)) 18446744073709551616); [|lia].
    destruct (N.ltb_spec (csis k i + N.min (e - pos) (lenN c)) 18446744073709551616); [|lia].
    rewrite oriented_len.
    rewrite (win_one pos c s e (s - pos) (N.min (e - pos) (lenN c)) eq_refl eq_refl).
    destruct (N.leb_spec (csis k i + N.min (e - pos) (lenN c)) (lenN (rs_data sg))); [|lia].
    rewrite andb_true_r.
    destruct (N.ltb_spec (s - pos) (N.min (e - pos) (lenN c))) as [Hlt|Hlt].
    + destruct (N.ltb_spec (csis k i + (s - pos)) (csis k i + N.min (e - pos) (lenN c))); [|lia].
      rewrite IH by (assumption || lia). rewrite app_assoc. do 3 f_equal.
      unfold vslice, c, chunk. rewrite skipnN_add. f_equal. lia.
    + destruct (N.ltb_spec (csis k i + (s - pos)) (csis k i + N.min (e - pos) (lenN c))); [lia|].
      rewrite IH by (assumption || lia). reflexivity.
Qed.

(* ---------------------------------------------------------------- 4. pinned statements *)
Lemma reconstruct_total_proof : forall k segs, wf k segs ->
  reconstruct_contig k segs = Ok (tiled k segs).
Proof.
  intros k segs H. unfold reconstruct_contig. rewrite reconstruct_loop_spec by now apply wf_wf_from.
  cbn [app]. destruct segs as [|s r]; [reflexivity|]. now rewrite chunks_0.
Qed.

Lemma tiled_chunks k segs : tiled k segs = concat (chunks_from k 0 segs).
Proof. destruct segs as [|s r]; [reflexivity|]. now rewrite chunks_0. Qed.

Lemma length_correct_proof : forall k segs c, wf k segs ->
  reconstruct_contig k segs = Ok c -> lenN c <= isize_max ->
  get_contig_length k segs = Ok (lenN c).
Proof.
  intros k segs c H Hc Hb. rewrite reconstruct_total_proof in Hc by assumption.
  injection Hc as <-. rewrite tiled_chunks in *. unfold get_contig_length.
  rewrite length_loop_spec; [f_equal; lia | now apply wf_wf_from | unfold two64, isize_max in *; lia].
Qed.

Lemma range_correct_proof : forall k segs c s e, wf k segs -> k < two32 ->
  reconstruct_contig k segs = Ok c -> lenN c <= isize_max ->
  get_contig_range k segs s e = Ok (firstnN (N.min e (lenN c) - s) (skipnN s c)).
Proof.
  intros k segs c s e H Hk Hc Hb. rewrite reconstruct_total_proof in Hc by assumption.
  injection Hc as <-. rewrite tiled_chunks in *. unfold get_contig_range.
  destruct (N.leb_spec e s) as [Hes|Hes].
  { replace (N.min e (lenN (concat (chunks_from k 0 segs))) - s) with 0 by lia. now rewrite firstnN_0. }
  rewrite segment_ranges_loop_spec;
    [| now apply wf_wf_from | unfold two64, isize_max in *; lia].
  cbn [obnd fst snd]. rewrite N.add_0_l.
  set (len := lenN (concat (chunks_from k 0 segs))) in *.
  destruct (N.leb_spec (N.min e len) s) as [Hls|Hls].
  { replace (N.min e len - s) with 0 by lia. now rewrite firstnN_0. }
  unfold sub_u64. destruct (N.leb_spec s (N.min e len)); [|lia].
  destruct (N.ltb_spec isize_max (N.min e len - s)); [lia|].
  rewrite (range_loop_spec k segs s (N.min e len) Hk segs 0%nat 0 []);
    [| intros j sg Hj; exact Hj | now apply wf_wf_from | fold len; lia].
  cbn [app]. now rewrite win_0.
Qed.

Lemma range_cases_proof : forall k segs c s e, wf k segs -> k < two32 ->
  reconstruct_contig k segs = Ok c -> lenN c <= isize_max ->
  get_contig_range k segs s e =
  Ok (if (s <? e) && (s <? lenN c) then firstnN (N.min e (lenN c) - s) (skipnN s c) else []).
Proof.
  intros k segs c s e H Hk Hc Hb. rewrite (range_correct_proof k segs c s e) by assumption.
  destruct (N.ltb_spec s e); destruct (N.ltb_spec s (lenN c)); cbn [andb]; try reflexivity.
  - now rewrite (skipnN_all s c), firstnN_nil by assumption.
  - replace (N.min e (lenN c) - s) with 0 by lia. now rewrite firstnN_0.
  - replace (N.min e (lenN c) - s) with 0 by lia. now rewrite firstnN_0.
Qed.

(* ---------------------------------------------------------------- 5. composition with C10 (Segment.v)
   the segments split_at_splitters(_with_size) produces, stored as they are (raw_length = their length, not
   reverse-complemented), satisfy wf and reconstruct to the contig that was split; so the queries answer with
   slices of that contig.  (What the store does to a segment - orientation, LZ coding - is C01/C02.) *)
From Ragc Require Segment Segment_proofs.

Definition of_segment (sg : Segment.segment) : rseg :=
  mkRSeg (lenN (Segment.sdata sg)) false (Segment.sdata sg).

Lemma split_wf_reconstruct ws contig spl k : 1 <= k <= 32 ->
  let segs := map of_segment (Segment.split_gen ws contig spl k) in
  wf k segs /\ reconstruct_contig k segs = Ok contig.
Proof.
  intros Hk segs.
  assert (Hwf : wf k segs).
  { split.
    - subst segs. apply Forall_forall. intros x Hx. apply in_map_iff in Hx. destruct Hx as (sg & <- & _). reflexivity.
    - subst segs. destruct (Segment.split_gen ws contig spl k) as [|s0 rest] eqn:E; [constructor|].
      cbn [map tl]. apply Forall_forall. intros x Hx. apply in_map_iff in Hx. destruct Hx as (sg & <- & Hin).
      apply In_nth_error in Hin. destruct Hin as [i Hi].
      assert (H := Segment_proofs.later_len_ge_k_proof ws contig spl k i sg Hk).
      rewrite E in H. specialize (H Hi). cbn [of_segment rs_data]. unfold lenN. lia. }
  split; [exact Hwf|].
  rewrite reconstruct_total_proof by exact Hwf. f_equal. subst segs.
  destruct (Segment.split_gen ws contig spl k) as [|s0 rest] eqn:E.
  - exfalso. exact (Segment_proofs.nonempty_output_proof ws contig spl k E).
  - cbn [map tiled]. rewrite map_map. unfold oriented, of_segment. cbn [rs_rc rs_data].
    exact (Segment_proofs.tiling_proof ws contig spl k s0 rest Hk E).
Qed.

Lemma range_on_split_proof : forall ws contig spl k s e, 1 <= k <= 32 -> lenN contig <= isize_max ->
  let segs := map (fun sg => mkRSeg (lenN (Segment.sdata sg)) false (Segment.sdata sg))
                  (Segment.split_gen ws contig spl k) in
  get_contig_length k segs = Ok (lenN contig) /\
  get_contig_range k segs s e = Ok (firstnN (N.min e (lenN contig) - s) (skipnN s contig)).
Proof.
  intros ws contig spl k s e Hk Hb segs.
  destruct (split_wf_reconstruct ws contig spl k Hk) as [Hwf Hrec]. fold of_segment in segs. fold segs in Hwf, Hrec.
  split.
  - apply length_correct_proof; assumption.
  - apply range_correct_proof; try assumption. unfold two32. lia.
Qed.
