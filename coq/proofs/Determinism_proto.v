(* Determinism_proto.v — C04 part A: which contigs are in which sync round does not depend on the schedule,
   for every producer script that is well formed in the sense of [wf_script] (a static condition on the
   script: the multi-file discipline and the single-file priority rule are instances). *)
From Coq Require Import List Permutation Sorted Lia Bool Arith NArith ZArith.
From Ragc Require Import Determinism Determinism_base.
Import ListNotations.

(* ------------------------------------------------------------------ permutations of appends: cancel atom by atom *)
Ltac perm_prep :=
  repeat match goal with
         | |- context [?x :: ?l] => lazymatch l with [] => fail | _ => change (x :: l) with ([x] ++ l) end
         end;
  repeat rewrite <- app_assoc; repeat rewrite app_nil_r; cbn [app];
  repeat match goal with
         | |- context [?x :: ?l] => lazymatch l with [] => fail | _ => change (x :: l) with ([x] ++ l) end
         end.
Ltac rot_rhs := eapply Permutation_trans; [|apply Permutation_app_comm]; repeat rewrite <- app_assoc.
Ltac find_head a k :=
  lazymatch goal with
  | |- Permutation _ (a ++ _) => idtac
  | |- Permutation _ a => idtac
  | _ => lazymatch k with
         | O => fail "perm_ac: atom not found"
         | S ?k' => rot_rhs; find_head a k'
         end
  end.
Ltac perm_go k :=
  lazymatch goal with
  | |- Permutation ?l ?l => apply Permutation_refl
  | |- Permutation (?a ++ ?l) _ => find_head a k; apply Permutation_app_head; perm_go k
  | |- Permutation ?a _ => find_head a k; apply Permutation_refl
  end.
Ltac perm_ac := perm_prep; perm_go 12%nat.

(* ------------------------------------------------------------------ small list facts *)
Definition cnt (p : task -> bool) (l : list task) : nat := length (filter p l).
Definition is_tokk (k : nat) (t : task) : bool := t_tok t && Nat.eqb (t_round t) k.
Definition is_ctg (t : task) : bool := negb (t_tok t).
Definition ctg (l : list task) : list task := filter is_ctg l.

Lemma cnt_app : forall p l1 l2, cnt p (l1 ++ l2) = (cnt p l1 + cnt p l2)%nat.
Proof. intros. unfold cnt. rewrite filter_app, app_length. reflexivity. Qed.
Lemma cnt_cons : forall p x l, cnt p (x :: l) = ((if p x then 1 else 0) + cnt p l)%nat.
Proof. intros. unfold cnt. cbn [filter]. destruct (p x); reflexivity. Qed.
Lemma cnt_pos_ex : forall p l, (0 < cnt p l)%nat -> exists x, In x l /\ p x = true.
Proof.
  intros p l. induction l as [|a l IH]; intros H; [cbn in H; lia|].
  rewrite cnt_cons in H. destruct (p a) eqn:E.
  - exists a. split; [left; reflexivity|exact E].
  - destruct (IH H) as [x [Hx Hp]]. exists x. split; [right; exact Hx|exact Hp].
Qed.
Lemma cnt_zero : forall p l, (forall x, In x l -> p x = false) -> cnt p l = 0%nat.
Proof.
  intros p l. induction l as [|a l IH]; intros H; [reflexivity|].
  rewrite cnt_cons, (H a) by (left; reflexivity). apply IH. intros x Hx. apply H. right. exact Hx.
Qed.
Lemma cnt_in_pos : forall p l x, In x l -> p x = true -> (0 < cnt p l)%nat.
Proof.
  intros p l. induction l as [|a l IH]; intros x Hx Hp; [contradiction|].
  rewrite cnt_cons. destruct Hx as [->|Hx]; [rewrite Hp; lia|]. specialize (IH x Hx Hp). lia.
Qed.

Lemma filter_nil_all : forall (A : Type) (p : A -> bool) l, (forall x, In x l -> p x = false) -> filter p l = [].
Proof.
  intros A p l. induction l as [|a l IH]; intros H; [reflexivity|].
  cbn [filter]. rewrite (H a) by (left; reflexivity). apply IH. intros x Hx. apply H. right. exact Hx.
Qed.
Lemma filter_id_all : forall (A : Type) (p : A -> bool) l, (forall x, In x l -> p x = true) -> filter p l = l.
Proof.
  intros A p l. induction l as [|a l IH]; intros H; [reflexivity|].
  cbn [filter]. rewrite (H a) by (left; reflexivity). f_equal. apply IH. intros x Hx. apply H. right. exact Hx.
Qed.
Lemma perm_filter : forall (A : Type) (p : A -> bool) l l', Permutation l l' -> Permutation (filter p l) (filter p l').
Proof.
  intros A p l l' H. induction H; cbn [filter].
  - constructor.
  - destruct (p x); [apply perm_skip|]; assumption.
  - destruct (p x); destruct (p y); try apply perm_swap; apply Permutation_refl.
  - eapply Permutation_trans; eassumption.
Qed.

Lemma tasks_of_app : forall a b, tasks_of (a ++ b) = tasks_of a ++ tasks_of b.
Proof.
  induction a as [|x a IH]; intros b; [reflexivity|]. destruct x; cbn [app tasks_of]; rewrite IH; reflexivity.
Qed.
Lemma tasks_of_in : forall A x B, In x (tasks_of (A ++ PPush x :: B)).
Proof. intros. rewrite tasks_of_app. apply in_or_app. right. left. reflexivity. Qed.

Lemma ssorted_app_rel : forall (A : Type) (R : A -> A -> Prop) l1 l2,
  StronglySorted R (l1 ++ l2) -> forall x y, In x l1 -> In y l2 -> R x y.
Proof.
  intros A R l1. induction l1 as [|a l1 IH]; intros l2 H x y Hx Hy; [contradiction|].
  cbn [app] in H. apply StronglySorted_inv in H. destruct H as [Hs Hf].
  destruct Hx as [->|Hx].
  - rewrite Forall_forall in Hf. apply Hf. apply in_or_app. right. exact Hy.
  - eapply IH; eassumption.
Qed.

Lemma remove_at_split : forall (A : Type) (i : nat) (l : list A) x r,
  remove_at i l = Some (x, r) -> exists l1 l2, l = l1 ++ x :: l2 /\ r = l1 ++ l2.
Proof.
  intros A i l. revert i. induction l as [|a l IH]; intros i x r H; [discriminate|].
  cbn [remove_at] in H. destruct i as [|i].
  - inversion H; subst. exists [], r. split; reflexivity.
  - destruct (remove_at i l) as [[y r']|] eqn:E; [|discriminate]. inversion H; subst.
    destruct (IH _ _ _ E) as [l1 [l2 [E1 E2]]]. subst. exists (a :: l1), l2. split; reflexivity.
Qed.

Lemma nth_error_upd_split : forall (A : Type) (w : nat) (l : list A) a b,
  nth_error l w = Some a -> exists l1 l2, l = l1 ++ a :: l2 /\ upd_nth w b l = l1 ++ b :: l2.
Proof.
  intros A w l. revert w. induction l as [|c l IH]; intros w a b H; [destruct w; discriminate|].
  destruct w as [|w]; cbn in H.
  - inversion H; subst. exists [], l. split; reflexivity.
  - destruct (IH _ _ b H) as [l1 [l2 [E1 E2]]]. exists (c :: l1), l2. cbn [upd_nth app]. rewrite E2. subst. split; reflexivity.
Qed.

(* ------------------------------------------------------------------ the queue order *)
Lemma cmp_then_opp : forall c d, CompOpp (cmp_then c d) = cmp_then (CompOpp c) (CompOpp d).
Proof. intros [] d; reflexivity. Qed.
Lemma task_cmp_opp : forall a b, task_cmp b a = CompOpp (task_cmp a b).
Proof.
  intros a b. unfold task_cmp. rewrite !cmp_then_opp.
  rewrite (Z.compare_antisym (t_prio a) (t_prio b)), (N.compare_antisym (t_cost a) (t_cost b)),
          (N.compare_antisym (t_seq b) (t_seq a)). reflexivity.
Qed.
Lemma task_cmp_lt_gt : forall a b, task_cmp a b = Lt -> task_cmp b a = Gt.
Proof. intros a b H. rewrite task_cmp_opp, H. reflexivity. Qed.
Lemma is_maxb_spec : forall q x, is_maxb q x = true -> forall y, In y q -> task_cmp y x <> Gt.
Proof.
  intros q x H y Hy. unfold is_maxb in H. rewrite forallb_forall in H. specialize (H y Hy).
  destruct (task_cmp y x); congruence.
Qed.

(* ------------------------------------------------------------------ workers *)
Definition is_bar (w : wst * list task) : bool := match fst w with WBar => true | _ => false end.
Definition count_bar (wk : list (wst * list task)) : nat := length (filter is_bar wk).
Definition buffered (wk : list (wst * list task)) : list task := concat (map snd wk).

Lemma count_bar_app : forall a b, count_bar (a ++ b) = (count_bar a + count_bar b)%nat.
Proof. intros. unfold count_bar. rewrite filter_app, app_length. reflexivity. Qed.
Lemma buffered_app : forall a b, buffered (a ++ b) = buffered a ++ buffered b.
Proof. intros. unfold buffered. rewrite map_app, concat_app. reflexivity. Qed.
Lemma count_bar_le : forall wk, (count_bar wk <= length wk)%nat.
Proof.
  induction wk as [|w wk IH]; [cbn; lia|]. unfold count_bar in *. cbn [filter length].
  destruct (is_bar w); cbn [length]; lia.
Qed.

Lemma is_tokk_tok : forall k x, t_tok x = true -> is_tokk k x = Nat.eqb (t_round x) k.
Proof. intros k x H. unfold is_tokk. rewrite H. reflexivity. Qed.
Lemma is_tokk_ctg : forall k x, t_tok x = false -> is_tokk k x = false.
Proof. intros k x H. unfold is_tokk. rewrite H. reflexivity. Qed.
Lemma ctg_app : forall a b, ctg (a ++ b) = ctg a ++ ctg b.
Proof. intros. unfold ctg. apply filter_app. Qed.
Lemma ctg_cons_tok : forall x l, t_tok x = true -> ctg (x :: l) = ctg l.
Proof. intros x l H. unfold ctg. cbn [filter]. unfold is_ctg at 1. rewrite H. reflexivity. Qed.
Lemma ctg_cons_ctg : forall x l, t_tok x = false -> ctg (x :: l) = x :: ctg l.
Proof. intros x l H. unfold ctg. cbn [filter]. unfold is_ctg at 1. rewrite H. reflexivity. Qed.
Lemma buffered_mid : forall l1 st buf l2, buffered (l1 ++ (st, buf) :: l2) = buffered l1 ++ buf ++ buffered l2.
Proof. intros. rewrite buffered_app. unfold buffered at 2. cbn [map concat snd]. reflexivity. Qed.
Lemma count_bar_mid : forall l1 st buf l2,
  count_bar (l1 ++ (st, buf) :: l2) = (count_bar l1 + (match st with WBar => 1 | _ => 0 end) + count_bar l2)%nat.
Proof.
  intros. rewrite count_bar_app. unfold count_bar at 2. cbn [filter]. unfold is_bar at 1. cbn [fst].
  destruct st; cbn [length]; unfold count_bar; lia.
Qed.
Lemma all_bar_count : forall wk, all_bar wk = true -> count_bar wk = length wk.
Proof.
  induction wk as [|w wk IH]; intros H; [reflexivity|].
  unfold all_bar in H. cbn [forallb] in H. apply andb_prop in H. destruct H as [H1 H2].
  unfold count_bar in *. cbn [filter]. unfold is_bar at 1. destruct (fst w); try discriminate.
  cbn [length]. f_equal. apply IH. exact H2.
Qed.

(* ------------------------------------------------------------------ well formed scripts *)
Definition rk_le (x y : task) : Prop :=
  (t_round x < t_round y)%nat \/ (t_round x = t_round y /\ (t_tok x = false \/ t_tok y = true)).

Record wf_script (n R : nat) (sc : list pact) : Prop := {
  (* rounds never decrease along the script and inside a round the contigs come before the tokens *)
  wf_sorted : StronglySorted rk_le (tasks_of sc);
  wf_rounds : forall x, In x (tasks_of sc) -> (t_round x < R)%nat;
  (* every round ends with exactly n tokens *)
  wf_tokens : forall k, (k < R)%nat -> cnt (is_tokk k) (tasks_of sc) = n;
  (* a round's tokens are below its contigs in the queue order, or the producer waits for an empty queue
     before it pushes them ... *)
  wf_before : forall A x B y C, sc = A ++ PPush x :: B ++ PPush y :: C -> t_round x = t_round y ->
                t_tok x = false -> t_tok y = true -> task_cmp y x = Lt \/ In PWaitEmpty B;
  (* ... and whatever is pushed for a later round is below everything of an earlier round, unless the
     producer waits for an empty queue in between *)
  wf_after : forall A x B y C, sc = A ++ PPush x :: B ++ PPush y :: C -> (t_round x < t_round y)%nat ->
                task_cmp y x = Lt \/ In PWaitEmpty B;
  wf_n : (0 < n)%nat
}.

Section Protocol.
  Variables (n R : nat) (sc : list pact) (cap : N).
  Hypothesis WF : wf_script n R sc.

  Definition rnum (s : sys) : nat := length (s_rounds s).
  Definition hist (s : sys) : list task := concat (map (@concat task) (s_rounds s)).

  Record Inv (s : sys) : Prop := {
    i_exec : exists E, sc = E ++ s_prod s /\
        Permutation (ctg (tasks_of E)) (ctg (s_q s) ++ buffered (s_wk s) ++ hist s) /\
        (forall k, cnt (is_tokk k) (tasks_of E)
                   = (cnt (is_tokk k) (s_q s) + (if Nat.eqb k (rnum s) then count_bar (s_wk s) else 0)
                      + (if Nat.ltb k (rnum s) then n else 0))%nat) /\
        (forall x, In x (s_q s) -> exists A B, E = A ++ PPush x :: B /\ ~ In PWaitEmpty B);
    i_rounds : Forall2 (fun rd k => Permutation (concat rd) (expected_round sc k)) (s_rounds s) (seq 0 (rnum s));
    i_qround : forall x, In x (s_q s) -> (rnum s <= t_round x)%nat;
    i_buf : forall x, In x (buffered (s_wk s)) -> t_tok x = false /\ t_round x = rnum s;
    i_bar : (0 < count_bar (s_wk s))%nat -> forall x, In x (s_q s) -> t_round x = rnum s -> t_tok x = true;
    i_sep : forall x y, In x (s_q s) -> In y (s_q s) -> (t_round x < t_round y)%nat -> task_cmp y x = Lt;
    i_len : length (s_wk s) = n
  }.

  (* ---- static consequences of well-formedness for a split script *)
  Lemma split_rk : forall E P, sc = E ++ P -> forall x y, In x (tasks_of E) -> In y (tasks_of P) -> rk_le x y.
  Proof.
    intros E P Hs x y Hx Hy. pose proof (wf_sorted _ _ _ WF) as S. rewrite Hs, tasks_of_app in S.
    eapply ssorted_app_rel; eassumption.
  Qed.
  Lemma split_in_sc_l : forall E P x, sc = E ++ P -> In x (tasks_of E) -> In x (tasks_of sc).
  Proof. intros E P x Hs Hx. rewrite Hs, tasks_of_app. apply in_or_app. left. exact Hx. Qed.
  Lemma split_in_sc_r : forall E P x, sc = E ++ P -> In x (tasks_of P) -> In x (tasks_of sc).
  Proof. intros E P x Hs Hx. rewrite Hs, tasks_of_app. apply in_or_app. right. exact Hx. Qed.
  Lemma split_cnt : forall E P k, sc = E ++ P ->
    cnt (is_tokk k) (tasks_of sc) = (cnt (is_tokk k) (tasks_of E) + cnt (is_tokk k) (tasks_of P))%nat.
  Proof. intros E P k Hs. rewrite Hs at 1. rewrite tasks_of_app, cnt_app. reflexivity. Qed.

  Lemma is_tokk_true : forall k t, is_tokk k t = true <-> t_tok t = true /\ t_round t = k.
  Proof.
    intros k t. unfold is_tokk. rewrite andb_true_iff, Nat.eqb_eq. tauto.
  Qed.

  (* a token of round k executed, then nothing of a round < k and no contig of round k is left to push *)
  Lemma after_token : forall E P t y, sc = E ++ P -> In t (tasks_of E) -> t_tok t = true -> In y (tasks_of P) ->
    (t_round t < t_round y)%nat \/ (t_round t = t_round y /\ t_tok y = true).
  Proof.
    intros E P t y Hs Ht Htok Hy. destruct (split_rk E P Hs t y Ht Hy) as [H|[H1 [H2|H2]]].
    - left. exact H.
    - congruence.
    - right. split; assumption.
  Qed.

  (* ---- the initial state *)
  Lemma count_bar_repeat_idle : forall m, count_bar (repeat (WIdle, []) m) = 0%nat.
  Proof. induction m; [reflexivity|]. cbn [repeat]. unfold count_bar in *. cbn [filter is_bar fst]. exact IHm. Qed.
  Lemma buffered_repeat_idle : forall m, buffered (repeat (WIdle, []) m) = [].
  Proof. induction m; [reflexivity|]. cbn [repeat]. unfold buffered in *. cbn [map concat snd app]. exact IHm. Qed.

  Lemma inv_init : Inv (init n sc).
  Proof.
    constructor; unfold init, rnum, hist; cbn [s_q s_prod s_wk s_rounds length map concat].
    - exists []. rewrite count_bar_repeat_idle, buffered_repeat_idle. cbn [app tasks_of ctg filter].
      split; [reflexivity|]. split; [constructor|]. split; [|intros x []].
      intros k. unfold cnt. cbn. destruct (Nat.eqb k 0); reflexivity.
    - constructor.
    - intros x [].
    - rewrite buffered_repeat_idle. intros x [].
    - rewrite count_bar_repeat_idle. lia.
    - intros x y [].
    - apply repeat_length.
  Qed.

  (* ---- the producer *)
  Lemma inv_prod : forall s, Inv s -> Inv (step cap EProd s).
  Proof.
    intros s I. unfold step. destruct (s_prod s) as [|a rest] eqn:EP; [exact I|].
    destruct I as [[E [Hsc [Hc [Ht H6]]]] Hr Hq Hb Hbar Hsep Hlen].
    rewrite EP in Hsc.
    destruct a as [t| |].
    - (* push *)
      destruct (negb (s_closed s) && admits cap (s_q s) t) eqn:G;
        [|constructor; try assumption; exists E; rewrite EP; repeat split; assumption].
      assert (Hsc' : sc = (E ++ [PPush t]) ++ rest) by (rewrite <- app_assoc; exact Hsc).
      assert (Ht_sc : In t (tasks_of sc)) by (rewrite Hsc; apply tasks_of_in).
      assert (Ht_P : In t (tasks_of (PPush t :: rest))) by (left; reflexivity).
      (* the round of t is not a fired one *)
      assert (Hge : (rnum s <= t_round t)%nat).
      { destruct (le_lt_dec (rnum s) (t_round t)) as [L|L]; [exact L|exfalso].
        pose proof (wf_rounds _ _ _ WF t Ht_sc) as HR.
        pose proof (wf_tokens _ _ _ WF (t_round t) HR) as HT.
        rewrite (split_cnt E (PPush t :: rest) _ Hsc) in HT.
        pose proof (Ht (t_round t)) as HK.
        assert (Nat.ltb (t_round t) (rnum s) = true) as E1 by (apply Nat.ltb_lt; exact L).
        rewrite E1 in HK.
        assert (HE : (0 < cnt (is_tokk (t_round t)) (tasks_of E))%nat) by (pose proof (wf_n _ _ _ WF); lia).
        destruct (cnt_pos_ex _ _ HE) as [u [Hu Hp]]. apply is_tokk_true in Hp. destruct Hp as [Hp1 Hp2].
        destruct (after_token E (PPush t :: rest) u t Hsc Hu Hp1 Ht_P) as [H|[_ H]]; [lia|].
        assert (0 < cnt (is_tokk (t_round t)) (tasks_of (PPush t :: rest)))%nat.
        { eapply cnt_in_pos; [exact Ht_P|]. apply is_tokk_true. split; [exact H|reflexivity]. }
        lia. }
      constructor; cbn [s_q s_prod s_wk s_rounds s_closed]; unfold rnum, hist in *; cbn [s_q s_prod s_wk s_rounds].
      + exists (E ++ [PPush t]). split; [exact Hsc'|].
        rewrite tasks_of_app. cbn [tasks_of]. unfold ctg in *. rewrite !filter_app. cbn [filter].
        split; [|split].
        * destruct (is_ctg t); [|rewrite !app_nil_r; exact Hc].
          eapply Permutation_trans; [apply Permutation_app_tail; exact Hc|]. perm_ac.
        * intros k. rewrite !cnt_app, Ht, !cnt_cons. change (cnt (is_tokk k) []) with 0%nat. destruct (is_tokk k t); lia.
        * intros x Hx. apply in_app_or in Hx. destruct Hx as [Hx|[<-|[]]].
          -- destruct (H6 x Hx) as [A [B [EA HB]]]. exists A, (B ++ [PPush t]). split.
             ++ rewrite EA. rewrite <- app_assoc. reflexivity.
             ++ intro Hin. apply in_app_or in Hin. destruct Hin as [Hin|[Hin|[]]]; [contradiction|discriminate].
          -- exists E, []. split; [reflexivity|intros []].
      + exact Hr.
      + intros x Hx. apply in_app_or in Hx. destruct Hx as [Hx|[<-|[]]]; [apply Hq; exact Hx|exact Hge].
      + exact Hb.
      + intros Hpos x Hx Hrx. apply in_app_or in Hx. destruct Hx as [Hx|[<-|[]]]; [apply Hbar; assumption|].
        pose proof (Ht (rnum s)) as HK. unfold rnum in HK. rewrite Nat.eqb_refl in HK.
        assert (HE : (0 < cnt (is_tokk (length (s_rounds s))) (tasks_of E))%nat) by lia.
        destruct (cnt_pos_ex _ _ HE) as [u [Hu Hp]]. apply is_tokk_true in Hp. destruct Hp as [Hp1 Hp2].
        destruct (after_token E (PPush t :: rest) u t Hsc Hu Hp1 Ht_P) as [H|[_ H]]; [lia|exact H].
      + intros x y Hx Hy Hlt. apply in_app_or in Hx. apply in_app_or in Hy.
        destruct Hx as [Hx|[<-|[]]]; destruct Hy as [Hy|[<-|[]]].
        * apply Hsep; assumption.
        * destruct (H6 x Hx) as [A [B [EA HB]]].
          destruct (wf_after _ _ _ WF A x B t rest) as [H|H]; [|exact Hlt|exact H|contradiction].
          rewrite Hsc, EA, <- app_assoc. reflexivity.
        * exfalso. destruct (H6 y Hy) as [A [B [EA HB]]].
          assert (In y (tasks_of E)) by (rewrite EA; apply tasks_of_in).
          destruct (split_rk E (PPush t :: rest) Hsc y t H Ht_P) as [L|[L _]]; lia.
        * lia.
      + exact Hlen.
    - (* wait until the queue is empty *)
      destruct (s_q s) as [|x q] eqn:EQ;
        [|constructor; try assumption; [exists E; rewrite EP, EQ; repeat split; assumption|rewrite EQ; assumption..]].
      constructor; cbn [s_q s_prod s_wk s_rounds s_closed]; unfold rnum, hist in *; cbn [s_q s_prod s_wk s_rounds];
        try assumption; try (intros ? []); try (intros ? ? []).
      + exists (E ++ [PWaitEmpty]). split; [rewrite <- app_assoc; exact Hsc|].
        rewrite tasks_of_app. cbn [tasks_of]. rewrite app_nil_r. split; [exact Hc|]. split; [exact Ht|intros ? []].
    - (* close *)
      constructor; cbn [s_q s_prod s_wk s_rounds s_closed]; unfold rnum, hist in *; cbn [s_q s_prod s_wk s_rounds];
        try assumption.
      exists (E ++ [PClose]). split; [rewrite <- app_assoc; exact Hsc|].
      rewrite tasks_of_app. cbn [tasks_of]. rewrite app_nil_r. split; [exact Hc|]. split; [exact Ht|].
      intros x Hx. destruct (H6 x Hx) as [A [B [EA HB]]]. exists A, (B ++ [PClose]). split.
      + rewrite EA, <- app_assoc. reflexivity.
      + intro Hin. apply in_app_or in Hin. destruct Hin as [Hin|[Hin|[]]]; [contradiction|discriminate].
  Qed.

  (* ---- a worker pulls *)
  Lemma idle_count_lt : forall wk w buf, nth_error wk w = Some (WIdle, buf) -> (count_bar wk < length wk)%nat.
  Proof.
    intros wk w buf H. destruct (nth_error_upd_split _ w wk _ (WIdle, buf) H) as [l1 [l2 [E _]]].
    rewrite E, count_bar_mid, app_length. cbn [length].
    pose proof (count_bar_le l1). pose proof (count_bar_le l2). lia.
  Qed.

  Lemma inv_pull : forall s w i, Inv s -> Inv (step cap (EPull w i) s).
  Proof.
    intros s w i I. unfold step.
    destruct (nth_error (s_wk s) w) as [[[] buf]|] eqn:EW; try exact I.
    destruct (remove_at i (s_q s)) as [[x q']|] eqn:ER; [|exact I].
    destruct (is_maxb (s_q s) x) eqn:EM; [|exact I].
    destruct (remove_at_split _ _ _ _ _ ER) as [q1 [q2 [Eq Eq']]].
    destruct I as [[E [Hsc [Hc [Ht H6]]]] Hr Hq Hb Hbar Hsep Hlen].
    assert (Hxq : In x (s_q s)) by (rewrite Eq; apply in_or_app; right; left; reflexivity).
    assert (Hsub : forall y, In y q' -> In y (s_q s)).
    { intros y Hy. rewrite Eq' in Hy. rewrite Eq. apply in_app_or in Hy. apply in_or_app.
      destruct Hy; [left|right; right]; assumption. }
    assert (HxE : In x (tasks_of E)) by (destruct (H6 x Hxq) as [A [B [EA _]]]; rewrite EA; apply tasks_of_in).
    pose proof (idle_count_lt _ _ _ EW) as Hidle. rewrite Hlen in Hidle.
    (* the pulled task belongs to the round being collected *)
    assert (Hrx : t_round x = rnum s).
    { pose proof (Hq x Hxq) as Hge. destruct (Nat.eq_dec (t_round x) (rnum s)) as [e|ne]; [exact e|exfalso].
      assert (Hlt : (rnum s < t_round x)%nat) by lia.
      pose proof (wf_rounds _ _ _ WF x (split_in_sc_l _ _ _ Hsc HxE)) as HR.
      assert (HRr : (rnum s < R)%nat) by lia.
      pose proof (wf_tokens _ _ _ WF (rnum s) HRr) as HT. rewrite (split_cnt E (s_prod s) _ Hsc) in HT.
      assert (HP : cnt (is_tokk (rnum s)) (tasks_of (s_prod s)) = 0%nat).
      { apply cnt_zero. intros y Hy. destruct (is_tokk (rnum s) y) eqn:EK; [|reflexivity].
        apply is_tokk_true in EK. destruct EK as [_ EK].
        destruct (split_rk E (s_prod s) Hsc x y HxE Hy) as [L|[L _]]; lia. }
      pose proof (Ht (rnum s)) as HK. rewrite Nat.eqb_refl, Nat.ltb_irrefl in HK.
      assert (HQ : (0 < cnt (is_tokk (rnum s)) (s_q s))%nat) by lia.
      destruct (cnt_pos_ex _ _ HQ) as [u [Hu Hp]]. apply is_tokk_true in Hp. destruct Hp as [_ Hp2].
      assert (task_cmp x u = Lt) by (apply Hsep; [exact Hu|exact Hxq|lia]).
      apply (is_maxb_spec _ _ EM u Hu). apply task_cmp_lt_gt. exact H. }
    destruct (nth_error_upd_split _ w (s_wk s) _ (if t_tok x then (WBar, buf) else (WIdle, buf ++ [x])) EW)
      as [l1 [l2 [Ewk Eupd]]].
    destruct (t_tok x) eqn:ETok.
    - (* a sync token: the worker goes to the barrier *)
      constructor; cbn [s_q s_prod s_wk s_rounds s_closed]; unfold rnum, hist in *; cbn [s_q s_prod s_wk s_rounds].
      + exists E. split; [exact Hsc|]. rewrite Eupd. rewrite Ewk in Hc, Ht. rewrite Eq in Hc, Ht. rewrite Eq'.
        rewrite ctg_app, (ctg_cons_tok x q2 ETok), buffered_mid in Hc. rewrite ctg_app, buffered_mid.
        split; [exact Hc|]. split.
        * intros k. specialize (Ht k). rewrite cnt_app, cnt_cons, count_bar_mid in Ht. rewrite cnt_app, count_bar_mid.
          rewrite (is_tokk_tok k x ETok), Hrx in Ht.
          destruct (Nat.eqb (length (s_rounds s)) k) eqn:EK.
          -- apply Nat.eqb_eq in EK. subst k. rewrite Nat.eqb_refl in *. lia.
          -- rewrite Nat.eqb_sym in EK. rewrite EK in *. lia.
        * intros y Hy. apply H6. apply Hsub. rewrite Eq'. exact Hy.
      + exact Hr.
      + intros y Hy. apply Hq. apply Hsub. exact Hy.
      + rewrite Eupd. rewrite Ewk in Hb. rewrite buffered_mid in *. exact Hb.
      + intros _ y Hy Hry. destruct (t_tok y) eqn:ETy; [reflexivity|exfalso].
        assert (Hyq : In y (s_q s)) by (apply Hsub; exact Hy).
        assert (HyE : In y (tasks_of E)) by (destruct (H6 y Hyq) as [A [B [EA _]]]; rewrite EA; apply tasks_of_in).
        assert (task_cmp x y = Lt).
        { (* y (contig) was pushed before x (token of the same round), both after the last wait *)
          destruct (H6 y Hyq) as [A [B [EA HB]]].
          assert (HxB : In x (tasks_of B)).
          { rewrite EA, tasks_of_app in HxE. cbn [tasks_of] in HxE. apply in_app_or in HxE.
            destruct HxE as [HxA|[Exy|HxB]]; [exfalso|congruence|exact HxB].
            pose proof (wf_sorted _ _ _ WF) as SS. rewrite Hsc, EA, !tasks_of_app in SS. cbn [tasks_of] in SS.
            rewrite <- app_assoc in SS. cbn [app] in SS.
            assert (RK : rk_le x y).
            { eapply (ssorted_app_rel _ rk_le (tasks_of A) (y :: tasks_of B ++ tasks_of (s_prod s))); [exact SS|exact HxA|left; reflexivity]. }
            unfold rnum in Hrx. destruct RK as [L|[_ [L|L]]]; [lia|congruence|congruence]. }
          assert (SB : exists B1 B2, B = B1 ++ PPush x :: B2).
          { clear - HxB. induction B as [|p B IH]; [contradiction|]. destruct p as [t| |]; cbn [tasks_of] in HxB.
            - destruct HxB as [->|HxB]; [exists [], B; reflexivity|].
              destruct (IH HxB) as [B1 [B2 ->]]. exists (PPush t :: B1), B2. reflexivity.
            - destruct (IH HxB) as [B1 [B2 ->]]. exists (PWaitEmpty :: B1), B2. reflexivity.
            - destruct (IH HxB) as [B1 [B2 ->]]. exists (PClose :: B1), B2. reflexivity. }
          destruct SB as [B1 [B2 EB]].
          destruct (wf_before _ _ _ WF A y B1 x (B2 ++ s_prod s)) as [H|H]; [| |exact ETy|exact ETok|exact H|].
          - rewrite Hsc, EA, EB. rewrite <- !app_assoc. cbn [app]. rewrite <- app_assoc. reflexivity.
          - unfold rnum in Hrx. lia.
          - exfalso. apply HB. rewrite EB. apply in_or_app. left. exact H. }
        apply (is_maxb_spec _ _ EM y Hyq). apply task_cmp_lt_gt. exact H.
      + intros y z Hy Hz. apply Hsep; apply Hsub; assumption.
      + rewrite Eupd, <- Hlen, Ewk, !app_length. reflexivity.
    - (* a contig: segmented into the worker's own raw buffer *)
      assert (Hb0 : count_bar (s_wk s) = 0%nat).
      { destruct (count_bar (s_wk s)) eqn:EB; [reflexivity|exfalso].
        assert (t_tok x = true) by (apply Hbar; [lia|exact Hxq|exact Hrx]). congruence. }
      constructor; cbn [s_q s_prod s_wk s_rounds s_closed]; unfold rnum, hist in *; cbn [s_q s_prod s_wk s_rounds].
      + exists E. split; [exact Hsc|]. rewrite Eupd. rewrite Ewk in Hc, Ht. rewrite Eq in Hc, Ht. rewrite Eq'.
        rewrite ctg_app, (ctg_cons_ctg x q2 ETok), buffered_mid in Hc. rewrite ctg_app, buffered_mid.
        split; [|split].
        * eapply Permutation_trans; [exact Hc|]. perm_ac.
        * intros k. specialize (Ht k). rewrite cnt_app, cnt_cons, count_bar_mid in Ht. rewrite cnt_app, count_bar_mid.
          rewrite (is_tokk_ctg k x ETok) in Ht. lia.
        * intros y Hy. apply H6. apply Hsub. rewrite Eq'. exact Hy.
      + exact Hr.
      + intros y Hy. apply Hq. apply Hsub. exact Hy.
      + rewrite Eupd. rewrite Ewk in Hb. rewrite buffered_mid in *.
        intros y Hy. apply in_app_or in Hy. destruct Hy as [Hy|Hy].
        * apply Hb. apply in_or_app. left. exact Hy.
        * apply in_app_or in Hy. destruct Hy as [Hy|Hy].
          -- apply in_app_or in Hy. destruct Hy as [Hy|[<-|[]]].
             ++ apply Hb. apply in_or_app. right. apply in_or_app. left. exact Hy.
             ++ split; [exact ETok|exact Hrx].
          -- apply Hb. apply in_or_app. right. apply in_or_app. right. exact Hy.
      + rewrite Eupd. rewrite Ewk in Hb0. rewrite count_bar_mid in *. lia.
      + intros y z Hy Hz. apply Hsep; apply Hsub; assumption.
      + rewrite Eupd, <- Hlen, Ewk, !app_length. reflexivity.
  Qed.

  (* ---- pull returns None *)
  Lemma inv_none : forall s w, Inv s -> Inv (step cap (ENone w) s).
  Proof.
    intros s w I. unfold step.
    destruct (nth_error (s_wk s) w) as [[[] buf]|] eqn:EW; try exact I.
    destruct (s_q s) as [|x q] eqn:EQ; [|exact I].
    destruct (s_closed s) eqn:EC; [|exact I].
    destruct (nth_error_upd_split _ w (s_wk s) _ (WExit, buf) EW) as [l1 [l2 [Ewk Eupd]]].
    destruct I as [[E [Hsc [Hc [Ht H6]]]] Hr Hq Hb Hbar Hsep Hlen].
    assert (EB : buffered (upd_nth w (WExit, buf) (s_wk s)) = buffered (s_wk s)).
    { rewrite Eupd, Ewk, !buffered_mid. reflexivity. }
    assert (EN : count_bar (upd_nth w (WExit, buf) (s_wk s)) = count_bar (s_wk s)).
    { rewrite Eupd, Ewk, !count_bar_mid. reflexivity. }
    constructor; cbn [s_q s_prod s_wk s_rounds s_closed]; unfold rnum, hist in *; cbn [s_q s_prod s_wk s_rounds];
      rewrite ?EB, ?EN; rewrite ?EQ in *; try assumption.
    - exists E. repeat split; assumption.
    - rewrite Eupd, <- Hlen, Ewk, !app_length. reflexivity.
  Qed.

  (* ---- the round fires *)
  Lemma count_bar_reset : forall wk, count_bar (map (fun _ : wst * list task => (WIdle, @nil task)) wk) = 0%nat.
  Proof. induction wk as [|a wk IH]; [reflexivity|]. cbn [map]. unfold count_bar in *. cbn [filter is_bar fst]. exact IH. Qed.
  Lemma buffered_reset : forall wk, buffered (map (fun _ : wst * list task => (WIdle, @nil task)) wk) = [].
  Proof. induction wk as [|a wk IH]; [reflexivity|]. cbn [map]. unfold buffered in *. cbn [map concat snd app]. exact IH. Qed.

  Lemma expected_round_rounds : forall k x, In x (expected_round sc k) -> t_tok x = false /\ t_round x = k.
  Proof.
    intros k x H. unfold expected_round in H. apply filter_In in H. destruct H as [_ H].
    unfold in_round in H. apply andb_prop in H. destruct H as [H1 H2].
    apply negb_true_iff in H1. apply Nat.eqb_eq in H2. split; assumption.
  Qed.

  Lemma hist_rounds : forall rounds m,
    Forall2 (fun rd k => Permutation (concat rd) (expected_round sc k)) rounds (seq m (length rounds)) ->
    forall x, In x (concat (map (@concat task) rounds)) -> (m <= t_round x < m + length rounds)%nat /\ t_tok x = false.
  Proof.
    induction rounds as [|rd rounds IH]; intros m H x Hx; [contradiction|].
    cbn [length seq] in H. inversion H as [|? ? ? ? Hp Hrest]; subst.
    cbn [map concat] in Hx. apply in_app_or in Hx. destruct Hx as [Hx|Hx].
    - assert (In x (expected_round sc m)) by (eapply Permutation_in; eassumption).
      apply expected_round_rounds in H0. cbn [length]. destruct H0. split; [lia|assumption].
    - destruct (IH (S m) Hrest x Hx) as [Hlt Ht]. cbn [length]. split; [lia|exact Ht].
  Qed.

  Lemma inv_fire : forall s, Inv s -> Inv (step cap EFire s).
  Proof.
    intros s I. unfold step. destruct (s_wk s) as [|w0 wk0] eqn:EWK; [exact I|]. rewrite <- EWK.
    destruct (all_bar (s_wk s)) eqn:EA; [|exact I].
    destruct I as [[E [Hsc [Hc [Ht H6]]]] Hr Hq Hb Hbar Hsep Hlen].
    pose proof (all_bar_count _ EA) as Hcb. rewrite Hlen in Hcb.
    pose proof (wf_n _ _ _ WF) as Hn.
    set (r := rnum s) in *.
    (* a token of the round has been pushed; so r < R *)
    pose proof (Ht r) as HK. rewrite Nat.eqb_refl, Nat.ltb_irrefl, Hcb in HK.
    assert (HE : (0 < cnt (is_tokk r) (tasks_of E))%nat) by lia.
    destruct (cnt_pos_ex _ _ HE) as [u [Hu Hp]]. apply is_tokk_true in Hp. destruct Hp as [Hu1 Hu2].
    pose proof (wf_rounds _ _ _ WF u (split_in_sc_l _ _ _ Hsc Hu)) as HR. rewrite Hu2 in HR.
    pose proof (wf_tokens _ _ _ WF r HR) as HT. rewrite (split_cnt E (s_prod s) _ Hsc) in HT.
    assert (HQ0 : cnt (is_tokk r) (s_q s) = 0%nat) by lia.
    (* nothing of round r is left in the queue *)
    assert (Hq' : forall x, In x (s_q s) -> (S r <= t_round x)%nat).
    { intros x Hx. pose proof (Hq x Hx) as Hge. fold r in Hge.
      destruct (Nat.eq_dec (t_round x) r) as [e|ne]; [exfalso|lia].
      assert (t_tok x = true) by (apply Hbar; [lia|exact Hx|exact e]).
      assert (0 < cnt (is_tokk r) (s_q s))%nat by (eapply cnt_in_pos; [exact Hx|apply is_tokk_true; split; assumption]).
      lia. }
    constructor; cbn [s_q s_prod s_wk s_rounds s_closed]; unfold rnum, hist in *;
      cbn [s_q s_prod s_wk s_rounds]; rewrite ?app_length; cbn [length]; rewrite ?count_bar_reset, ?buffered_reset.
    - exists E. split; [exact Hsc|]. split; [|split; [|exact H6]].
      + rewrite map_app, concat_app. cbn [map concat app]. rewrite app_nil_r.
        eapply Permutation_trans; [exact Hc|]. fold (buffered (s_wk s)). perm_ac.
      + intros k. fold r. specialize (Ht k). fold r in Ht. rewrite Hcb in Ht. rewrite Ht.
        destruct (Nat.eqb k r) eqn:E1.
        * apply Nat.eqb_eq in E1. subst k.
          assert (Nat.eqb r (r + 1) = false) as -> by (apply Nat.eqb_neq; lia).
          assert (Nat.ltb r (r + 1) = true) as -> by (apply Nat.ltb_lt; lia).
          rewrite Nat.ltb_irrefl. lia.
        * apply Nat.eqb_neq in E1.
          destruct (Nat.ltb k r) eqn:E2.
          -- apply Nat.ltb_lt in E2.
             assert (Nat.eqb k (r + 1) = false) as -> by (apply Nat.eqb_neq; lia).
             assert (Nat.ltb k (r + 1) = true) as -> by (apply Nat.ltb_lt; lia). lia.
          -- apply Nat.ltb_ge in E2.
             assert (Nat.ltb k (r + 1) = false) as -> by (apply Nat.ltb_ge; lia).
             destruct (Nat.eqb k (r + 1)); lia.
    - (* the new round is exactly the contigs the script intends for it *)
      fold r. replace (r + 1)%nat with (S r) by lia. rewrite seq_S. cbn [plus].
      apply Forall2_app; [exact Hr|]. constructor; [|constructor].
      fold (buffered (s_wk s)).
      unfold expected_round. rewrite Hsc, tasks_of_app, filter_app.
      assert (HP : filter (in_round r) (tasks_of (s_prod s)) = []).
      { apply filter_nil_all. intros y Hy. unfold in_round.
        destruct (after_token E (s_prod s) u y Hsc Hu Hu1 Hy) as [L|[L1 L2]].
        - rewrite Hu2 in L. assert (Nat.eqb (t_round y) r = false) as -> by (apply Nat.eqb_neq; lia).
          apply andb_false_r.
        - rewrite L2. reflexivity. }
      rewrite HP, app_nil_r.
      assert (EF : filter (in_round r) (tasks_of E) = filter (fun t => Nat.eqb (t_round t) r) (ctg (tasks_of E))).
      { unfold ctg. clear. induction (tasks_of E) as [|a l IH]; [reflexivity|].
        cbn [filter]. unfold in_round at 1, is_ctg at 1. destruct (t_tok a); cbn [negb andb filter]; [exact IH|].
        destruct (Nat.eqb (t_round a) r); [f_equal|]; exact IH. }
      rewrite EF. apply Permutation_sym.
      eapply Permutation_trans; [apply perm_filter; exact Hc|].
      rewrite !filter_app.
      assert (F1 : filter (fun t => Nat.eqb (t_round t) r) (ctg (s_q s)) = []).
      { apply filter_nil_all. intros y Hy. unfold ctg in Hy. apply filter_In in Hy. destruct Hy as [Hy _].
        apply Nat.eqb_neq. specialize (Hq' y Hy). lia. }
      assert (F2 : filter (fun t => Nat.eqb (t_round t) r) (buffered (s_wk s)) = buffered (s_wk s)).
      { apply filter_id_all. intros y Hy. apply Nat.eqb_eq. apply (Hb y Hy). }
      assert (F3 : filter (fun t => Nat.eqb (t_round t) r) (concat (map (@concat task) (s_rounds s))) = []).
      { apply filter_nil_all. intros y Hy. apply Nat.eqb_neq.
        destruct (hist_rounds (s_rounds s) 0%nat Hr y Hy) as [L _]. fold r in L. lia. }
      rewrite F1, F2, F3, app_nil_r. cbn [app]. apply Permutation_refl.
    - intros x Hx. specialize (Hq' x Hx). lia.
    - intros x [].
    - lia.
    - exact Hsep.
    - rewrite map_length. exact Hlen.
  Qed.

  Lemma inv_step : forall e s, Inv s -> Inv (step cap e s).
  Proof.
    intros [| w i | w |] s I; [apply inv_prod|apply inv_pull|apply inv_none|apply inv_fire]; exact I.
  Qed.

  Lemma inv_run : forall sigma s, Inv s -> Inv (run cap sigma s).
  Proof.
    induction sigma as [|e sigma IH]; intros s I; [exact I|]. unfold run. cbn [fold_left]. apply IH. apply inv_step. exact I.
  Qed.

  (* ---- the theorems *)
  Theorem rounds_as_intended : forall sigma,
    let s := run cap sigma (init n sc) in
    Forall2 (fun rd k => Permutation (concat rd) (expected_round sc k)) (s_rounds s) (seq 0 (length (s_rounds s))).
  Proof. intros sigma s. apply (i_rounds _ (inv_run sigma _ inv_init)). Qed.

  Lemma forallb_not_bar_count : forall wk,
    forallb (fun w => idle_or_exit w && match snd w with [] => true | _ => false end) wk = true ->
    count_bar wk = 0%nat /\ buffered wk = [].
  Proof.
    induction wk as [|w wk IH]; intros H; [split; reflexivity|].
    cbn [forallb] in H. apply andb_prop in H. destruct H as [H1 H2]. apply andb_prop in H1. destruct H1 as [H1 H3].
    destruct (IH H2) as [IH1 IH2]. unfold count_bar, buffered in *. cbn [filter map concat].
    unfold idle_or_exit in H1. unfold is_bar at 1. destruct (fst w); try discriminate;
      (destruct (snd w); [|discriminate]); cbn [app]; split; assumption.
  Qed.

  Theorem complete_all_rounds : forall sigma,
    let s := run cap sigma (init n sc) in completeb s = true -> length (s_rounds s) = R.
  Proof.
    intros sigma s HC. pose proof (inv_run sigma _ inv_init) as I. fold s in I.
    destruct I as [[E [Hsc [Hc [Ht H6]]]] Hr Hq Hb Hbar Hsep Hlen].
    unfold completeb in HC. destruct (s_prod s) eqn:EP; [|discriminate]. destruct (s_q s) eqn:EQ; [|discriminate].
    destruct (forallb_not_bar_count _ HC) as [B1 B2]. rewrite app_nil_r in Hsc. subst E.
    pose proof (wf_n _ _ _ WF) as Hn. unfold rnum in *.
    destruct (lt_eq_lt_dec (length (s_rounds s)) R) as [[L|e]|L]; [exfalso|exact e|exfalso].
    - pose proof (wf_tokens _ _ _ WF _ L) as HT. specialize (Ht (length (s_rounds s))).
      rewrite Nat.eqb_refl, Nat.ltb_irrefl, B1 in Ht. unfold cnt at 2 in Ht. cbn in Ht. lia.
    - specialize (Ht R). assert (Nat.ltb R (length (s_rounds s)) = true) as E1 by (apply Nat.ltb_lt; exact L).
      rewrite E1 in Ht. assert (HE : (0 < cnt (is_tokk R) (tasks_of sc))%nat) by lia.
      destruct (cnt_pos_ex _ _ HE) as [u [Hu Hp]]. apply is_tokk_true in Hp. destruct Hp as [_ Hp].
      pose proof (wf_rounds _ _ _ WF u Hu). lia.
  Qed.
End Protocol.
