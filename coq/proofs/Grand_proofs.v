(* Grand_proofs.v - C01G: the two composition theorems joined.
     end_to_end_inputs (C01: Pipeline + GroupStore/SegReader + LZ + SegCompress)         inputs -> pieces -> store -> reader = inputs
     writer_conforms   (C02B: Container + Collection + GroupStore + codecs + Range)      file bytes -> spec decoder = stored layout
   for the single model function ModelCreate.model_build / model_create (inputs -> file bytes).
   Sections:
     1. the definitions ModelCreate.v repeats (to stay a model file) are the ones of Compose_codecs / Compose_proofs /
        AgcV3_compose / AgcV3 (by conversion)
     2. Pipeline's reader and Range's reader agree (two transcriptions of reconstruct_contig)
     3. the Archive history of the model: abstract container state per stream
     4. the layout of stored segments behind the catalogue create built
     5. grand_roundtrip *)
From Coq Require Import Lia ZifyBool ZifyN ZifyNat Permutation.
From Ragc Require Import Mach Consts_kmer Consts_segment Consts_pipeline Consts_groupstore Consts_agcv3.
From Ragc Require Import Varint Kmer Segment Pipeline SegReader GroupStore Tuple SegCompress LZ Details Collection Container
  Range AgcV3 ModelCreate.
From Ragc Require Import Segment_proofs Pipeline_proofs GroupStore_proofs Compose_codecs Compose_proofs.
From Ragc Require GroupStore_rules Collection_proofs Container_proofs Range_proofs AgcV3_proofs.
From Ragc Require Import AgcV3_compose.
Open Scope N_scope.
Arguments N.add : simpl never.
Arguments N.sub : simpl never.
Arguments N.mul : simpl never.
Arguments N.div : simpl never.
Arguments N.modulo : simpl never.
Arguments N.land : simpl never.
Arguments N.pow : simpl never.
Arguments N.of_nat : simpl never.
Arguments N.to_nat : simpl never.

(* ================================================================ 1. repeated definitions *)
Lemma mc_lz_enc_c : mc_lz_enc = c_lz_enc. Proof. reflexivity. Qed.
Lemma mc_lz_enc_m : mc_lz_enc = m_lz_enc. Proof. reflexivity. Qed.
Lemma mc_cref_c : mc_cref = c_compress_ref. Proof. reflexivity. Qed.
Lemma mc_cref_m : mc_cref = m_cref. Proof. reflexivity. Qed.
Lemma mc_cpack_c : mc_cpack = c_compress_pack. Proof. reflexivity. Qed.
Lemma mc_cpack_m : mc_cpack = m_cpack. Proof. reflexivity. Qed.
Lemma mc_seg_of_piece_eq : mc_seg_of_piece = seg_of_piece. Proof. reflexivity. Qed.
Lemma mc_store_addr_eq : mc_store_addr = store_addr. Proof. reflexivity. Qed.
Lemma mc_cat_of_eq : mc_cat_of = cat_of. Proof. reflexivity. Qed.
Lemma w_ref_name_eq : forall g, w_ref_name g = stream_ref_name g. Proof. reflexivity. Qed.
Lemma w_delta_name_eq : forall g, w_delta_name g = stream_delta_name g. Proof. reflexivity. Qed.
Lemma w_params_eq : forall k mml ss, w_params k mml ss = encode_params k mml ss. Proof. reflexivity. Qed.
Lemma unswap_part_eq : unswap_part = unswap. Proof. reflexivity. Qed.

(* ================================================================ 2. the two readers agree *)
Lemma rc_dec_tab_shape : rc_dec_tab = [3; 2; 1; 0] ++ map N.of_nat (seq 4 252).
Proof. vm_compute. reflexivity. Qed.

Lemma rc_dec_eq : forall x, rc_dec x = rev_comp_base x.
Proof.
  intro x. unfold rc_dec, rev_comp_base. destruct (N.ltb_spec x 4) as [H4|H4].
  - assert (E : x = 0 \/ x = 1 \/ x = 2 \/ x = 3) by lia.
    destruct E as [E | [E | [E | E]]]; subst x; vm_compute; reflexivity.
  - destruct (N.ltb_spec x 256) as [H|H].
    + rewrite rc_dec_tab_shape. rewrite app_nth2 by (cbn [length]; lia). cbn [length].
      rewrite (nth_indep _ x (N.of_nat 0)) by (rewrite map_length, seq_length; lia).
      rewrite map_nth. rewrite seq_nth by lia. lia.
    + apply nth_overflow. rewrite rc_dec_tab_len. lia.
Qed.

Lemma rcs_eq : forall l, Pipeline.reverse_complement_segment l = Range.reverse_complement_segment l.
Proof. intro l. unfold Pipeline.reverse_complement_segment, Range.reverse_complement_segment. apply map_ext. exact rc_dec_eq. Qed.

Section Readers.
  Variable get : Pipeline.seg_desc -> outcome (list N).

  Definition got (d : Pipeline.seg_desc) : list N := match get d with Ok b => b | _ => [] end.
  Definition rs_of (d : Pipeline.seg_desc) : rseg := mkRSeg (Pipeline.d_len d) (Pipeline.d_rc d) (got d).
  Definition reads_ok (d : Pipeline.seg_desc) : Prop := exists b, get d = Ok b.

  Lemma recon_loop_agree (k : N) : forall ds acc x,
    Pipeline.reconstruct_loop get (N.to_nat k) false ds acc = Ok x ->
    x = acc ++ concat (map (fun s => skipnN k (oriented s)) (map rs_of ds)) /\
    Forall reads_ok ds /\ Forall (fun d => k <= lenN (got d)) ds.
  Proof.
    induction ds as [|d ds IH]; intros acc x H; cbn [Pipeline.reconstruct_loop] in H.
    - inversion H; subst. cbn. rewrite app_nil_r. auto.
    - destruct (get d) as [b| |] eqn:Eg; cbn [obnd] in H; try discriminate.
      destruct (Nat.ltb_spec (length (if Pipeline.d_rc d then Pipeline.reverse_complement_segment b else b)) (N.to_nat k))
        as [Hlt|Hge]; [discriminate|].
      destruct (IH _ _ H) as (Ex & Hr & Hl). clear IH H.
      assert (Eo : oriented (rs_of d) = if Pipeline.d_rc d then Pipeline.reverse_complement_segment b else b).
      { unfold oriented, rs_of, got. cbn [rs_rc rs_data]. rewrite Eg. destruct (Pipeline.d_rc d); [rewrite rcs_eq|]; reflexivity. }
      split; [|split].
      + cbn [map concat]. rewrite Eo, Ex, <- app_assoc. reflexivity.
      + constructor; [exists b; exact Eg | exact Hr].
      + constructor; [|exact Hl]. unfold got. rewrite Eg.
        assert (length (if Pipeline.d_rc d then Pipeline.reverse_complement_segment b else b) = length b).
        { destruct (Pipeline.d_rc d); [|reflexivity]. unfold Pipeline.reverse_complement_segment. rewrite map_length, rev_length. reflexivity. }
        unfold lenN. lia.
  Qed.

  Lemma recon_contig_agree (k : N) ds x :
    Pipeline.reconstruct_contig get k ds = Ok x ->
    x = tiled k (map rs_of ds) /\ Forall reads_ok ds /\ Forall (fun d => k <= lenN (got d)) (tl ds).
  Proof.
    unfold Pipeline.reconstruct_contig. destruct ds as [|d ds]; cbn [Pipeline.reconstruct_loop]; intro H.
    - inversion H; subst. cbn. auto.
    - destruct (get d) as [b| |] eqn:Eg; cbn [obnd] in H; try discriminate.
      destruct (recon_loop_agree k _ _ _ H) as (Ex & Hr & Hl).
      split; [|split; [constructor; [exists b; exact Eg|exact Hr] | exact Hl]].
      cbn [map tiled]. rewrite Ex. cbn [app]. f_equal.
      unfold oriented, rs_of, got. cbn [rs_rc rs_data]. rewrite Eg. destruct (Pipeline.d_rc d); [rewrite rcs_eq|]; reflexivity.
  Qed.

  Definition contig_out (k : N) (c : contig_desc) : Pipeline.name * list N := (fst c, tiled k (map rs_of (snd c))).
  Definition contig_fine (k : N) (c : contig_desc) : Prop :=
    Forall reads_ok (snd c) /\ Forall (fun d => k <= lenN (got d)) (tl (snd c)).

  Lemma recon_all_agree (k : N) : forall cs X,
    reconstruct_all get k cs = Ok X -> X = map (contig_out k) cs /\ Forall (contig_fine k) cs.
  Proof.
    induction cs as [|[cn ds] cs IH]; intros X H; cbn [reconstruct_all] in H.
    - inversion H; subst. split; [reflexivity|constructor].
    - destruct (Pipeline.reconstruct_contig get k ds) as [x| |] eqn:E1; cbn [obnd] in H; try discriminate.
      destruct (reconstruct_all get k cs) as [more| |] eqn:E2; cbn [obnd] in H; try discriminate.
      inversion H; subst X; clear H. destruct (recon_contig_agree k ds x E1) as (-> & Hr & Hl).
      destruct (IH more eq_refl) as (-> & Hf). split; [reflexivity|]. constructor; [split; assumption | exact Hf].
  Qed.

  Lemma find_named_nodup {A} : forall (l : list (Pipeline.name * A)) s,
    NoDup (map fst l) -> In s l -> find (is_named (fst s)) l = Some s.
  Proof.
    induction l as [|y l IH]; intros s ND Hs; [contradiction|].
    cbn [map] in ND. inversion ND as [|? ? Hn ND']; subst. cbn [find]. unfold is_named at 1.
    destruct Hs as [->|Hs]; [rewrite Pipeline_proofs.name_eqb_refl; reflexivity|].
    destruct (Pipeline.name_eqb (fst y) (fst s)) eqn:E; [|apply IH; assumption].
    apply Pipeline_proofs.name_eqb_eq in E. exfalso. apply Hn. rewrite E. apply in_map. exact Hs.
  Qed.

  Definition sample_out (k : N) (s : sample_desc) : Pipeline.name * list (Pipeline.name * list N) :=
    (fst s, map (contig_out k) (snd s)).

  Lemma extract_samples_agree (k : N) (coll : Pipeline.collection) : NoDup (map fst coll) ->
    forall l X, (forall s, In s l -> In s coll) ->
    extract_samples get k coll (map fst l) = Ok X ->
    X = map (sample_out k) l /\ Forall (fun s => Forall (contig_fine k) (snd s)) l.
  Proof.
    intros ND. induction l as [|s l IH]; intros X Hin H; cbn [map extract_samples] in H.
    - inversion H; subst. split; [reflexivity|constructor].
    - destruct (get_sample get k coll (fst s)) as [cs| |] eqn:E1; cbn [obnd] in H; try discriminate.
      destruct (extract_samples get k coll (map fst l)) as [more| |] eqn:E2; cbn [obnd] in H; try discriminate.
      inversion H; subst X; clear H. unfold get_sample in E1.
      rewrite (find_named_nodup coll s ND (Hin s (or_introl eq_refl))) in E1.
      destruct (recon_all_agree k _ _ E1) as (-> & Hf).
      destruct (IH more (fun s' H' => Hin s' (or_intror H')) eq_refl) as (-> & Hfs).
      split; [reflexivity|]. constructor; assumption.
  Qed.

  Lemma extract_samples_names (k : N) (coll : Pipeline.collection) : forall names X,
    extract_samples get k coll names = Ok X -> map fst X = names.
  Proof.
    induction names as [|n names IH]; intros X H; cbn [extract_samples] in H.
    - inversion H; reflexivity.
    - destruct (get_sample get k coll n); cbn [obnd] in H; try discriminate.
      destruct (extract_samples get k coll names) as [more| |]; cbn [obnd] in H; try discriminate.
      inversion H; subst. cbn [map fst]. f_equal. apply IH. reflexivity.
  Qed.

  (* whenever Pipeline's extraction succeeds on a catalogue with distinct sample names, its result is Range's tiling of
     the oriented segments the descriptors read, every descriptor reads, and later segments have at least k symbols *)
  Lemma extract_all_agree (k : N) (coll : Pipeline.collection) X :
    extract_all get k coll = Ok X -> NoDup (map fst X) ->
    X = map (sample_out k) coll /\ Forall (fun s => Forall (contig_fine k) (snd s)) coll.
  Proof.
    unfold extract_all, list_samples. intros H ND.
    rewrite (extract_samples_names k coll _ X H) in ND.
    apply (extract_samples_agree k coll ND coll X (fun s Hs => Hs) H).
  Qed.
End Readers.

(* ================================================================ 3. the Archive history of the model *)
(* ---- flush_buffers: stable sort by stream id, then commit.  Per stream, the parts arrive in call order. *)
Definition sid_is (i : N) (x : N * Container.item) : bool := fst x =? i.

Inductive sid_sorted : list (N * Container.item) -> Prop :=
| ss_nil : sid_sorted []
| ss_cons : forall x l, Forall (fun y => fst x <= fst y) l -> sid_sorted l -> sid_sorted (x :: l).

Lemma ins_stable_sorted : forall x l, sid_sorted l -> sid_sorted (ins_stable x l).
Proof.
  induction l as [|y l IH]; intro H; cbn [ins_stable].
  - constructor; [constructor|constructor].
  - inversion H as [|? ? Hy Hl]; subst. destruct (N.ltb_spec (fst x) (fst y)) as [Hlt|Hge].
    + constructor; [|exact H]. constructor; [lia|]. eapply Forall_impl; [|exact Hy]. cbn. intros; lia.
    + constructor; [|apply IH; exact Hl]. apply Container_proofs.Forall_ins_stable; [exact Hge|exact Hy].
Qed.

Lemma ins_stable_filter : forall i x l, sid_sorted l ->
  filter (sid_is i) (ins_stable x l) = filter (sid_is i) l ++ (if fst x =? i then [x] else []).
Proof.
  induction l as [|y l IH]; intro H; cbn [ins_stable].
  - cbn [filter]. unfold sid_is at 1. destruct (fst x =? i); reflexivity.
  - inversion H as [|? ? Hy Hl]; subst. destruct (N.ltb_spec (fst x) (fst y)) as [Hlt|Hge].
    + (* x goes in front: nothing of l has the key of x *)
      cbn [filter]. unfold sid_is at 1. destruct (N.eqb_spec (fst x) i) as [Ei|Ei]; [|rewrite app_nil_r; reflexivity].
      assert (Hno : filter (sid_is i) (y :: l) = []).
      { apply Compose_proofs.filter_none. intros z Hz. unfold sid_is. apply N.eqb_neq.
        destruct Hz as [<-|Hz]; [lia|]. rewrite Forall_forall in Hy. specialize (Hy z Hz). lia. }
      change (filter (sid_is i) (y :: l)) with (filter (sid_is i) (y :: l)) in Hno.
      cbn [filter] in Hno. rewrite Hno. reflexivity.
    + cbn [filter]. rewrite (IH Hl). destruct (sid_is i y); reflexivity.
Qed.

Lemma sort_by_sid_spec : forall l, sid_sorted (sort_by_sid l) /\
  forall i, filter (sid_is i) (sort_by_sid l) = filter (sid_is i) l.
Proof.
  induction l as [|x l IH] using rev_ind.
  - split; [constructor|reflexivity].
  - destruct IH as [Hs Hf]. rewrite Container_proofs.sort_by_sid_snoc. split; [apply ins_stable_sorted; exact Hs|].
    intro i. rewrite (ins_stable_filter i x _ Hs), Hf, filter_app. cbn [filter]. unfold sid_is at 3.
    destruct (fst x =? i); reflexivity.
Qed.

Lemma nth_error_upd_nth {A} (f : A -> A) : forall n l i,
  nth_error (Container.upd_nth n f l) i = if Nat.eqb i n then option_map f (nth_error l i) else nth_error l i.
Proof.
  induction n as [|n IH]; intros [|x l] [|i]; cbn [Container.upd_nth nth_error Nat.eqb option_map]; try reflexivity.
  - destruct (Nat.eqb i n); reflexivity.
  - apply IH.
Qed.

Definition add_parts (i : N) (l : list (N * Container.item)) (ss : sstream) : sstream :=
  mkSS (ss_name ss) (ss_raw ss) (ss_parts ss ++ map snd (filter (sid_is i) l)).

Lemma commit_all_spec : forall l st, Forall (fun x => fst x < lenN st) l ->
  exists st', sp_commit_all st l = (st', WOk) /\ map ss_name st' = map ss_name st /\
    forall i ss, nth_error st i = Some ss -> nth_error st' i = Some (add_parts (N.of_nat i) l ss).
Proof.
  induction l as [|[sid it] l IH]; intros st H.
  - exists st. split; [reflexivity|]. split; [reflexivity|]. intros i [nm raw ps] Hi. rewrite Hi.
    unfold add_parts. cbn. rewrite app_nil_r. reflexivity.
  - inversion H as [|? ? Hsid Hl]; subst. cbn [fst] in Hsid. cbn [sp_commit_all]. unfold sp_commit1.
    destruct (N.ltb_spec sid (lenN st)) as [_|]; [|lia].
    set (st1 := Container.upd_nth (N.to_nat sid) (fun s => mkSS (ss_name s) (ss_raw s) (ss_parts s ++ [it])) st).
    assert (Hl1 : Forall (fun x => fst x < lenN st1) l).
    { unfold st1. rewrite Container_proofs.lenN_upd_nth. exact Hl. }
    destruct (IH st1 Hl1) as (st' & Hc & Hn & Hp). exists st'. split; [exact Hc|]. split.
    + rewrite Hn. unfold st1. apply Container_proofs.map_upd_nth_id. reflexivity.
    + intros i ss Hi. unfold st1 in Hp. specialize (Hp i). rewrite nth_error_upd_nth, Hi in Hp.
      unfold add_parts in *. cbn [filter]. unfold sid_is at 1. cbn [fst]. destruct (Nat.eqb_spec i (N.to_nat sid)) as [E|E].
      * cbn [option_map] in Hp. rewrite (Hp _ eq_refl). replace (sid =? N.of_nat i) with true by (symmetry; apply N.eqb_eq; lia).
        cbn [ss_name ss_raw ss_parts map snd]. rewrite <- app_assoc. reflexivity.
      * rewrite (Hp _ eq_refl). replace (sid =? N.of_nat i) with false by (symmetry; apply N.eqb_neq; lia). reflexivity.
Qed.

(* ---- register / add_part_buffered runs *)
Lemma sp_run_app : forall a b s, fst (sp_run s (a ++ b)) = fst (sp_run (fst (sp_run s a)) b).
Proof.
  induction a as [|o a IH]; intros b s; [reflexivity|]. cbn [app sp_run].
  destruct (sp_step s o) as [s1 x]. specialize (IH b s1).
  destruct (sp_run s1 (a ++ b)) as [s2 xs]. destruct (sp_run s1 a) as [s3 ys]. cbn [fst] in *. exact IH.
Qed.

Lemma sp_run_cons : forall o a s, fst (sp_run s (o :: a)) = fst (sp_run (fst (sp_step s o)) a).
Proof. intros. cbn [sp_run]. destruct (sp_step s o) as [s1 x]. cbn [fst]. destruct (sp_run s1 a). reflexivity. Qed.

Lemma sp_run_registers : forall names s, NoDup (map ss_name (sp_streams s) ++ names) ->
  fst (sp_run s (map WRegister names)) = mkSpec (sp_streams s ++ map (fun nm => mkSS nm 0 []) names) (sp_pending s).
Proof.
  induction names as [|nm names IH]; intros s ND.
  - cbn. rewrite app_nil_r. destruct s; reflexivity.
  - cbn [map]. rewrite sp_run_cons. cbn [sp_step].
    assert (Hnot : sp_find nm 0 (sp_streams s) = None).
    { rewrite Container_proofs.sp_find_idx. apply Container_proofs.find_idx_none.
      apply NoDup_remove_2 in ND. intro H. apply ND. apply in_or_app. left. exact H. }
    rewrite Hnot. cbn [fst]. rewrite IH.
    + cbn [sp_streams sp_pending]. rewrite <- app_assoc. reflexivity.
    + cbn [sp_streams]. rewrite map_app. cbn [map ss_name]. rewrite <- app_assoc. cbn [app].
      exact ND.
Qed.

Lemma sp_run_addbufs : forall l s, fst (sp_run s (map addbuf l)) = mkSpec (sp_streams s) (sp_pending s ++ l).
Proof.
  induction l as [|[sid [d m]] l IH]; intro s.
  - cbn. rewrite app_nil_r. destruct s; reflexivity.
  - cbn [map]. rewrite sp_run_cons. cbn [addbuf sp_step fst snd]. rewrite IH. cbn [sp_streams sp_pending].
    rewrite <- app_assoc. reflexivity.
Qed.

Lemma find_idx_nth : forall names nm i j, NoDup names -> nth_error names j = Some nm ->
  Container_proofs.find_idx nm i names = Some (i + N.of_nat j).
Proof.
  induction names as [|x names IH]; intros nm i j ND Hj; [destruct j; discriminate|].
  inversion ND as [|? ? Hn ND']; subst. cbn [Container_proofs.find_idx]. destruct j as [|j]; cbn [nth_error] in Hj.
  - inversion Hj; subst. rewrite Container_proofs.name_eqb_refl. f_equal. lia.
  - destruct (Container.name_eqb nm x) eqn:E.
    + apply Container_proofs.name_eqb_eq in E. subst. exfalso. apply Hn. apply nth_error_In with j. exact Hj.
    + rewrite (IH nm (i + 1) j ND' Hj). f_equal. lia.
Qed.

(* any history "register these names; buffer these parts; flush": what each stream holds in the end *)
Lemma history_state : forall names buffered, NoDup names ->
  Forall (fun x => fst x < lenN names) buffered ->
  forall i nm, nth_error names i = Some nm ->
  sp_parts (fst (sp_run sp_init (map WRegister names ++ map addbuf buffered ++ [WFlush]))) nm =
  Some (map snd (filter (sid_is (N.of_nat i)) buffered)).
Proof.
  intros names buffered ND Hb i nm Hi.
  rewrite sp_run_app, sp_run_registers by exact ND. cbn [sp_init sp_streams sp_pending app].
  rewrite sp_run_app, sp_run_addbufs. cbn [sp_streams sp_pending app]. rewrite sp_run_cons. cbn [sp_run fst sp_step sp_streams sp_pending].
  set (st0 := map (fun nm0 => mkSS nm0 0 []) names).
  assert (Hb' : Forall (fun x => fst x < lenN st0) (sort_by_sid buffered)).
  { apply Container_proofs.Forall_sort_by_sid. unfold st0, lenN. rewrite map_length. exact Hb. }
  destruct (commit_all_spec _ st0 Hb') as (st' & Hc & Hn & Hp). rewrite Hc. cbn [fst].
  unfold sp_parts, sp_stream. cbn [sp_streams]. rewrite Container_proofs.sp_find_idx, Hn.
  assert (En : map ss_name st0 = names).
  { unfold st0. rewrite map_map. cbn [ss_name]. apply map_id. }
  rewrite En, (find_idx_nth names nm 0 i ND Hi). rewrite N.add_0_l. unfold nthN. rewrite Nat2N.id.
  assert (H0 : nth_error st0 i = Some (mkSS nm 0 [])).
  { unfold st0. rewrite nth_error_map'. rewrite Hi. reflexivity. }
  rewrite (Hp i _ H0). cbn [option_map add_parts ss_parts app]. rewrite (proj2 (sort_by_sid_spec buffered)). reflexivity.
Qed.

(* ---- the model's buffered parts, stream by stream *)
Lemma tagged_filter : forall i j ps,
  map snd (filter (sid_is (N.of_nat i)) (tagged j ps)) = if Nat.eqb i j then ps else [].
Proof.
  intros i j ps. unfold tagged. induction ps as [|p ps IH]; [destruct (Nat.eqb i j); reflexivity|].
  cbn [map filter]. unfold sid_is at 1. cbn [fst]. destruct (Nat.eqb_spec i j) as [E|E].
  - replace (N.of_nat j =? N.of_nat i) with true by (symmetry; apply N.eqb_eq; lia). cbn [map snd]. f_equal. exact IH.
  - replace (N.of_nat j =? N.of_nat i) with false by (symmetry; apply N.eqb_neq; lia). exact IH.
Qed.

Lemma parts_at_cons : forall e (r : plan) n, parts_at (e :: r) (S n) = parts_at r n.
Proof. reflexivity. Qed.

Lemma all_tagged_filter : forall (p : plan) base i,
  map snd (filter (sid_is (N.of_nat i)) (all_tagged base p)) = if Nat.leb base i then parts_at p (i - base) else [].
Proof.
  induction p as [|e r IH]; intros base i; cbn [all_tagged].
  - unfold parts_at. destruct (i - base)%nat; destruct (Nat.leb base i); reflexivity.
  - rewrite filter_app, map_app, tagged_filter, IH.
    destruct (Nat.eqb_spec i base) as [->|Ne].
    + rewrite Nat.leb_refl, Nat.sub_diag. replace (Nat.leb (S base) base) with false by (symmetry; apply Nat.leb_gt; lia).
      rewrite app_nil_r. reflexivity.
    + cbn [app]. destruct (Nat.leb_spec base i) as [Hle|Hgt].
      * replace (Nat.leb (S base) i) with true by (symmetry; apply Nat.leb_le; lia).
        replace (i - base)%nat with (S (i - S base)) by lia. rewrite parts_at_cons. reflexivity.
      * replace (Nat.leb (S base) i) with false by (symmetry; apply Nat.leb_gt; lia). reflexivity.
Qed.

Lemma order_filter : forall (fp : plan) order i, NoDup order ->
  map snd (filter (sid_is (N.of_nat i)) (flat_map (fun j => tagged j (parts_at fp j)) order)) =
  if existsb (Nat.eqb i) order then parts_at fp i else [].
Proof.
  induction order as [|j order IH]; intros i ND; [reflexivity|].
  inversion ND as [|? ? Hn ND']; subst. cbn [flat_map existsb]. rewrite filter_app, map_app, tagged_filter, (IH i ND').
  destruct (Nat.eqb_spec i j) as [->|Ne]; cbn [orb app]; [|reflexivity].
  replace (existsb (Nat.eqb j) order) with false; [apply app_nil_r|].
  symmetry. destruct (existsb (Nat.eqb j) order) eqn:E; [|reflexivity]. apply existsb_exists in E.
  destruct E as (x & Hx & Ex). apply Nat.eqb_eq in Ex. subst x. contradiction.
Qed.

Lemma all_tagged_sids : forall (p : plan) base,
  Forall (fun x => fst x < N.of_nat (base + length p)) (all_tagged base p).
Proof.
  induction p as [|e r IH]; intro base; cbn [all_tagged]; [constructor|]. apply Forall_app. split.
  - unfold tagged. apply Forall_forall. intros x Hx. apply in_map_iff in Hx. destruct Hx as (it & <- & _). cbn [fst length]. lia.
  - eapply Forall_impl; [|apply (IH (S base))]. cbn [length]. intros x Hx. cbn beta in *. lia.
Qed.

Lemma model_buffered_filter : forall fp gp : plan, length fp = 7%nat ->
  forall i e, nth_error (fp ++ gp) i = Some e ->
  map snd (filter (sid_is (N.of_nat i)) (model_buffered fp gp)) = snd e.
Proof.
  intros fp gp Hl i e Hi. unfold model_buffered. rewrite filter_app, map_app, all_tagged_filter, Hl.
  rewrite order_filter by (unfold fixed_order; repeat constructor; cbn; intuition discriminate).
  destruct (Nat.leb_spec 7 i) as [Hge|Hlt].
  - rewrite nth_error_app2 in Hi by lia. rewrite Hl in Hi. unfold parts_at. rewrite Hi.
    replace (existsb (Nat.eqb i) fixed_order) with false; [apply app_nil_r|].
    symmetry. unfold fixed_order. cbn [existsb].
    repeat match goal with |- context [Nat.eqb i ?n] => replace (Nat.eqb i n) with false by (symmetry; apply Nat.eqb_neq; lia) end.
    reflexivity.
  - rewrite nth_error_app1 in Hi by lia. cbn [app]. unfold parts_at. rewrite Hi.
    replace (existsb (Nat.eqb i) fixed_order) with true; [reflexivity|].
    symmetry. do 7 (destruct i as [|i]; [reflexivity|]). lia.
Qed.

Lemma model_buffered_sids : forall fp gp : plan, length fp = 7%nat ->
  Forall (fun x => fst x < lenN (map fst (fp ++ gp))) (model_buffered fp gp).
Proof.
  intros fp gp Hl. unfold model_buffered, lenN. rewrite map_length, app_length. apply Forall_app. split.
  - apply all_tagged_sids.
  - apply Forall_forall. intros x Hx. apply in_flat_map in Hx. destruct Hx as (j & Hj & Hx).
    unfold tagged in Hx. apply in_map_iff in Hx. destruct Hx as (it & <- & _). cbn [fst].
    unfold fixed_order in Hj. cbn [In] in Hj. lia.
Qed.

(* the Archive history of the model leaves, under each registered name, exactly the parts of the plan *)
Lemma model_stream_state : forall fp gp : plan, length fp = 7%nat -> NoDup (map fst (fp ++ gp)) ->
  forall e, In e (fp ++ gp) ->
  sp_parts (fst (sp_run sp_init (model_wops fp gp))) (fst e) = Some (snd e).
Proof.
  intros fp gp Hl ND e He. apply In_nth_error in He. destruct He as [i Hi].
  unfold model_wops. rewrite <- (map_map fst WRegister).
  rewrite (history_state (map fst (fp ++ gp)) (model_buffered fp gp) ND (model_buffered_sids fp gp Hl) i (fst e)).
  - f_equal. exact (model_buffered_filter fp gp Hl i e Hi).
  - rewrite nth_error_map'. rewrite Hi. reflexivity.
Qed.

(* ---- the names of the plan are pairwise different *)
Lemma fixed_names_nodup : NoDup SPEC_FIXED_NAMES.
Proof. unfold SPEC_FIXED_NAMES. repeat constructor; cbn [In]; intuition discriminate. Qed.

Definition group_names (groups : list N) : list (list N) :=
  flat_map (fun g => [stream_delta_name g; stream_ref_name g]) groups.

Lemma group_names_in : forall groups x, In x (group_names groups) ->
  exists g, In g groups /\ (x = stream_delta_name g \/ x = stream_ref_name g).
Proof.
  intros groups x H. unfold group_names in H. apply in_flat_map in H. destruct H as (g & Hg & Hx).
  exists g. split; [exact Hg|]. cbn [In] in Hx. destruct Hx as [<-|[<-|[]]]; auto.
Qed.

Lemma group_names_nodup : forall groups, NoDup groups -> Forall (fun g => g < two32) groups ->
  NoDup (group_names groups).
Proof.
  induction groups as [|g groups IH]; intros ND Hb; [constructor|].
  inversion ND as [|? ? Hn ND']; subst. inversion Hb as [|? ? Hg Hb']; subst.
  unfold group_names. cbn [flat_map app]. fold (group_names groups).
  assert (Hother : forall x, In x (group_names groups) -> x <> stream_delta_name g /\ x <> stream_ref_name g).
  { intros x Hx. destruct (group_names_in _ _ Hx) as (g' & Hg' & Ex).
    assert (Hg'b : g' < two32) by (rewrite Forall_forall in Hb'; exact (Hb' g' Hg')).
    assert (Hne : g' <> g) by (intro; subst; contradiction).
    destruct (AgcV3_proofs.stream_names_proof g' g Hg'b Hg) as (Ir & Id & Nrd & _).
    destruct (AgcV3_proofs.stream_names_proof g g' Hg Hg'b) as (_ & _ & Nrd' & _).
    destruct Ex as [->| ->]; split; intro E.
    - exact (Hne (Id E)).
    - exact (Nrd' (eq_sym E)).
    - exact (Nrd E).
    - exact (Hne (Ir E)). }
  constructor; [|constructor; [|apply IH; assumption]].
  - intros [E|H]; [|exact (proj1 (Hother _ H) eq_refl)].
    destruct (AgcV3_proofs.stream_names_proof g g Hg Hg) as (_ & _ & Nrd & _). apply Nrd. exact E.
  - intro H. exact (proj2 (Hother _ H) eq_refl).
Qed.

Lemma plan_names : forall k mml ss a fti fin groups,
  map fst (fixed_plan k mml ss a fti ++ group_plan fin groups) = SPEC_FIXED_NAMES ++ group_names groups.
Proof.
  intros. rewrite map_app. f_equal. unfold group_plan, group_names.
  induction groups as [|g groups IH]; [reflexivity|]. cbn [flat_map app map fst]. rewrite IH. reflexivity.
Qed.

Lemma plan_names_nodup : forall k mml ss a fti fin groups, NoDup groups -> Forall (fun g => g < two32) groups ->
  NoDup (map fst (fixed_plan k mml ss a fti ++ group_plan fin groups)).
Proof.
  intros k mml ss a fti fin groups ND Hb. rewrite plan_names.
  apply Pipeline_proofs.NoDup_app_intro; [exact fixed_names_nodup | exact (group_names_nodup groups ND Hb) |].
  intros x Hx Hx'. destruct (group_names_in _ _ Hx') as (g & Hg & Ex).
  assert (Hgb : g < two32) by (rewrite Forall_forall in Hb; exact (Hb g Hg)).
  destruct (AgcV3_proofs.stream_names_proof g g Hgb Hgb) as (_ & _ & _ & Nr & Nd).
  destruct Ex as [->| ->]; contradiction.
Qed.

Lemma dedupN_spec : forall l seen,
  NoDup (dedupN l seen) /\ forall x, In x (dedupN l seen) <-> (In x l /\ ~ In x seen).
Proof.
  induction l as [|y l IH]; intro seen; cbn [dedupN].
  - split; [constructor|]. intro x. cbn [In]. tauto.
  - destruct (existsb (N.eqb y) seen) eqn:E.
    + destruct (IH seen) as [ND Hin]. split; [exact ND|]. intro x. rewrite Hin. cbn [In].
      apply existsb_exists in E. destruct E as (z & Hz & Ez). apply N.eqb_eq in Ez. subst z.
      split; [tauto|]. intros [[->|H] Hs]; [contradiction|tauto].
    + destruct (IH (y :: seen)) as [ND Hin]. split.
      * constructor; [|exact ND]. rewrite Hin. cbn [In]. tauto.
      * intro x. cbn [In]. rewrite Hin. cbn [In].
        assert (Hy : ~ In y seen).
        { intro H. assert (X : existsb (N.eqb y) seen = true) by (apply existsb_exists; exists y; split; [exact H|apply N.eqb_refl]).
          rewrite X in E. discriminate. }
        split.
        -- intros [<-|[H1 H2]]; [tauto|]. split; [tauto|]. intro; apply H2; tauto.
        -- intros [[<-|H1] H2]; [tauto|]. destruct (N.eq_dec y x) as [->|Ne]; [tauto|]. right. split; [exact H1|]. intros [?|?]; [congruence|tauto].
Qed.

(* ================================================================ 4. the layout behind the catalogue *)
Definition pick_ok (d : Pipeline.seg_desc) (x : seg_in * N) : bool :=
  (snd x =? Pipeline.d_id d) && Bool.eqb (s_rc (fst x)) (Pipeline.d_rc d) &&
  (wrap32 (lenN (s_data (fst x))) =? Pipeline.d_len d).
Definition seg_dummy : seg_in := {| s_sample := []; s_contig := []; s_part := 0; s_data := []; s_rc := false |}.
(* a segment the store registered under the address and with the flag / raw length of descriptor d *)
Definition seg_pick (st : store) (d : Pipeline.seg_desc) : seg_in :=
  match find (pick_ok d) (regs_of st (Pipeline.d_group d)) with Some x => fst x | None => seg_dummy end.
Definition placed_of (st : store) (d : Pipeline.seg_desc) : placed :=
  mkPlaced (seg_pick st d) (Pipeline.d_group d) (Pipeline.d_id d).
Definition layout_of (st : store) (coll : Pipeline.collection) : layout :=
  map (fun s => (fst s, map (fun c => (fst c, map (placed_of st) (snd c))) (snd s))) coll.

Definition desc_backed (st : store) (d : Pipeline.seg_desc) : Prop :=
  In (seg_pick st d, Pipeline.d_id d) (regs_of st (Pipeline.d_group d)) /\
  s_rc (seg_pick st d) = Pipeline.d_rc d /\ wrap32 (lenN (s_data (seg_pick st d))) = Pipeline.d_len d.

Lemma seg_pick_ok : forall st d s, In (s, Pipeline.d_id d) (regs_of st (Pipeline.d_group d)) ->
  s_rc s = Pipeline.d_rc d -> wrap32 (lenN (s_data s)) = Pipeline.d_len d -> desc_backed st d.
Proof.
  intros st d s Hin Hrc Hlen. unfold desc_backed, seg_pick.
  destruct (find (pick_ok d) (regs_of st (Pipeline.d_group d))) as [[s' id']|] eqn:F.
  - apply find_some in F. destruct F as [Hin' Hp]. unfold pick_ok in Hp. cbn [fst snd] in *.
    apply andb_true_iff in Hp. destruct Hp as [Hp H3]. apply andb_true_iff in Hp. destruct Hp as [H1 H2].
    apply N.eqb_eq in H1, H3. apply Bool.eqb_prop in H2. subst id'. auto.
  - exfalso. pose proof (find_none _ _ F _ Hin) as Hp. unfold pick_ok in Hp. cbn [fst snd] in Hp.
    rewrite N.eqb_refl, Hrc, Bool.eqb_reflx, Hlen, N.eqb_refl in Hp. discriminate.
Qed.

Definition all_descs (P : Pipeline.seg_desc -> Prop) (coll : Pipeline.collection) : Prop :=
  Forall (fun s : sample_desc => Forall (fun c : contig_desc => Forall P (snd c)) (snd s)) coll.

Lemma map_ext_Forall {A B} (f g : A -> B) (P : A -> Prop) l : Forall P l -> (forall x, P x -> f x = g x) -> map f l = map g l.
Proof. intros H E. apply map_ext_in. intros x Hx. apply E. rewrite Forall_forall in H. exact (H x Hx). Qed.

Lemma layout_samples : forall st coll, all_descs (desc_backed st) coll -> samples_of (layout_of st coll) = cat_of coll.
Proof.
  intros st coll H. unfold samples_of, layout_of, cat_of. rewrite map_map.
  apply (map_ext_Forall _ _ _ coll H). intros [sn cs] Hs. cbn [fst snd] in *. f_equal. rewrite map_map.
  apply (map_ext_Forall _ _ _ cs Hs). intros [cn ds] Hc. cbn [fst snd] in *. f_equal. rewrite map_map.
  apply (map_ext_Forall _ _ _ ds Hc). intros d (_ & Hrc & Hlen).
  unfold pl_desc, placed_of, cat_seg. cbn [pl_seg pl_group pl_id]. rewrite Hrc, Hlen. reflexivity.
Qed.

Lemma layout_reassembled : forall get st k coll,
  all_descs (fun d => desc_backed st d /\ got get d = s_data (seg_pick st d)) coll ->
  reassembled k (layout_of st coll) = map (sample_out get k) coll.
Proof.
  intros get st k coll H. unfold reassembled, layout_of. rewrite map_map.
  apply (map_ext_Forall _ _ _ coll H). intros [sn cs] Hs. unfold sample_out. cbn [fst snd] in *. f_equal. rewrite map_map.
  apply (map_ext_Forall _ _ _ cs Hs). intros [cn ds] Hc. unfold contig_out. cbn [fst snd] in *. f_equal. f_equal. rewrite map_map.
  apply (map_ext_Forall _ _ _ ds Hc). intros d ((_ & Hrc & Hlen) & Hg).
  unfold pl_rseg, placed_of, rs_of. cbn [pl_seg]. rewrite Hrc, Hlen, Hg. reflexivity.
Qed.

Lemma layout_placed : forall st coll p, placed_in (layout_of st coll) p ->
  exists s c d, In s coll /\ In c (snd s) /\ In d (snd c) /\ p = placed_of st d.
Proof.
  intros st coll p (sm & ct & H1 & H2 & H3). unfold layout_of in H1. apply in_map_iff in H1.
  destruct H1 as (s & <- & Hs). cbn [snd] in H2. apply in_map_iff in H2. destruct H2 as (c & <- & Hc).
  cbn [snd] in H3. apply in_map_iff in H3. destruct H3 as (d & <- & Hd). exists s, c, d. auto.
Qed.

Lemma all_descs_in : forall P coll, all_descs P coll -> forall s c d, In s coll -> In c (snd s) -> In d (snd c) -> P d.
Proof.
  intros P coll H s c d Hs Hc Hd. unfold all_descs in H. rewrite Forall_forall in H. specialize (H s Hs).
  rewrite Forall_forall in H. specialize (H c Hc). rewrite Forall_forall in H. exact (H d Hd).
Qed.

Lemma all_descs_intro : forall (P : Pipeline.seg_desc -> Prop) coll,
  (forall s c d, In s coll -> In c (snd s) -> In d (snd c) -> P d) -> all_descs P coll.
Proof.
  intros P coll H. apply Forall_forall. intros s Hs. apply Forall_forall. intros c Hc. apply Forall_forall. intros d Hd.
  exact (H s c d Hs Hc Hd).
Qed.

(* ---- the reader restricted to descriptors create handed over (to learn that the catalogue holds no other) *)
Definition guarded (stored : list (Pipeline.seg_desc * list N)) (get : Pipeline.seg_desc -> outcome (list N))
  (d : Pipeline.seg_desc) : outcome (list N) :=
  if existsb (fun x => desc_eqb (fst x) d) stored then get d else Err.

Lemma desc_eqb_eq : forall a b, desc_eqb a b = true <-> a = b.
Proof.
  intros [g1 i1 r1 l1] [g2 i2 r2 l2]. unfold desc_eqb. cbn [Pipeline.d_group Pipeline.d_id Pipeline.d_rc Pipeline.d_len]. split.
  - intro H. apply andb_true_iff in H. destruct H as [H H4]. apply andb_true_iff in H. destruct H as [H H3].
    apply andb_true_iff in H. destruct H as [H1 H2]. apply N.eqb_eq in H1, H2, H4. apply Bool.eqb_prop in H3. subst. reflexivity.
  - intro E. inversion E; subst. rewrite !N.eqb_refl, Bool.eqb_reflx. reflexivity.
Qed.

Lemma guarded_stored_ok : forall stored get, stored_ok get stored -> stored_ok (guarded stored get) stored.
Proof.
  intros stored get H d b Hin. unfold guarded.
  replace (existsb (fun x => desc_eqb (fst x) d) stored) with true; [exact (H d b Hin)|].
  symmetry. apply existsb_exists. exists (d, b). split; [exact Hin|]. apply desc_eqb_eq. reflexivity.
Qed.

Lemma guarded_reads : forall stored get d, reads_ok (guarded stored get) d ->
  (exists b, In (d, b) stored) /\ guarded stored get d = get d.
Proof.
  intros stored get d (b & H). unfold guarded in *. destruct (existsb (fun x => desc_eqb (fst x) d) stored) eqn:E; [|discriminate].
  split; [|reflexivity]. apply existsb_exists in E. destruct E as ([d' b'] & Hin & Ed). apply desc_eqb_eq in Ed. cbn [fst] in Ed. subst d'.
  exists b'. exact Hin.
Qed.

(* ================================================================ 5. the grand round trip *)
(* the domain of the catalogue codec (C03 batches_roundtrip) on the catalogue the model stores *)
Definition catalogue_in_dom (zc : N -> list N -> list N) (ss k : N) (sm : list Collection.sample) : Prop :=
  lenN sm < 4294967296 /\
  Forall (fun s => Forall (fun b => 1 <= b < 128) (Collection.sname s)) sm /\
  Forall (Collection_proofs.batch_ok zc ss k) (Collection_proofs.chunks (length sm) (N.to_nat W_CATALOGUE_BATCH) sm).

Lemma ops_ok_weaken : forall mml gops, c_ops_ok mml gops -> GroupStore_proofs.ops_ok ref_dom (lz_dom mml) gops.
Proof.
  intros mml gops H g s Hin. destruct (c_ops_ok_ops_ok mml gops H g s Hin) as (H1 & H2 & H3).
  split; [exact H1|]. split; [exact H2|]. intro Hg. destruct (H3 Hg) as [Hr Hl]. split; [exact Hr|].
  intros s' Hs'. destruct (Hl s' Hs') as (_ & Hne & Hsym & Hlen). split; [exact Hne|]. split; [|exact Hlen].
  apply sym_ok_of_le30. exact Hsym.
Qed.

Lemma groups_of_in : forall gops g, In g (groups_of gops) <-> exists o, In o gops /\ fst o = g /\ snd o <> [].
Proof.
  intros gops g. unfold groups_of. rewrite (proj2 (dedupN_spec _ [])). split.
  - intros [H _]. apply in_map_iff in H. destruct H as (o & Eo & Ho). apply filter_In in Ho. destruct Ho as [Ho Hne].
    exists o. split; [exact Ho|]. split; [exact Eo|]. destruct (snd o); [discriminate|discriminate].
  - intros (o & Ho & Eo & Hne). split; [|intros []]. apply in_map_iff. exists o. split; [exact Eo|].
    apply filter_In. split; [exact Ho|]. destruct (snd o); [contradiction|reflexivity].
Qed.

Lemma segs_of_in : forall gops g s, In s (GroupStore.segs_of gops g) <-> exists o, In o gops /\ fst o = g /\ In s (snd o).
Proof.
  intros gops g s. unfold GroupStore.segs_of. rewrite in_flat_map. split.
  - intros (o & Ho & Hs). destruct (N.eqb_spec (fst o) g) as [E|E]; [|contradiction]. exists o. auto.
  - intros (o & Ho & E & Hs). exists o. split; [exact Ho|]. rewrite E, N.eqb_refl. exact Hs.
Qed.

Lemma ok_inj {A} (x y : A) : Ok x = Ok y -> x = y.
Proof. intro H. injection H as H. exact H. Qed.

(* what model_build = Ok b says, stage by stage *)
Lemma model_build_inv : forall zc ecn k mml segsize level spl dec grp sched gops fti samples b,
  model_build zc ecn k mml segsize level spl dec grp sched gops fti samples = Ok b ->
  exists st coll stored cw a,
    run (mc_lz_enc mml) (mc_cref zc) (mc_cpack zc level) gops = Ok st /\
    create ecn k spl segsize dec (mc_store_addr k spl segsize dec grp (pushes_of samples) st) sched (pushes_of samples)
      = Ok (coll, stored) /\
    store_all zc W_CATALOGUE_BATCH (mc_coll segsize k coll) arch_empty = Ok (cw, a) /\
    b = mkBuilt st coll stored a
          (model_wops (fixed_plan k mml segsize a fti) (group_plan (finalize (mc_cpack zc level) st) (groups_of gops)))
          (close (fst (wrun w_init (model_wops (fixed_plan k mml segsize a fti)
                                               (group_plan (finalize (mc_cpack zc level) st) (groups_of gops)))))).
Proof.
  intros zc ecn k mml segsize level spl dec grp sched gops fti samples b Hb. unfold model_build, obnd in Hb.
  destruct (run (mc_lz_enc mml) (mc_cref zc) (mc_cpack zc level) gops) as [st| |] eqn:Hrun; try discriminate.
  destruct (create ecn k spl segsize dec (mc_store_addr k spl segsize dec grp (pushes_of samples) st) sched (pushes_of samples))
    as [[coll stored]| |] eqn:Hc; try discriminate.
  change (fst (coll, stored)) with coll in Hb. change (snd (coll, stored)) with stored in Hb.
  destruct (store_all zc W_CATALOGUE_BATCH (mc_coll segsize k coll) arch_empty) as [[cw a]| |] eqn:Hst; try discriminate.
  change (snd (cw, a)) with a in Hb. cbv zeta in Hb. apply ok_inj in Hb.
  exists st, coll, stored, cw, a. auto.
Qed.

(* model_create is model_build followed by the projection to the file bytes *)
Lemma model_create_build_proof : forall zc ecn k mml segsize level spl dec grp sched gops fti samples file,
  model_create zc ecn k mml segsize level spl dec grp sched gops fti samples = Ok file <->
  exists b, model_build zc ecn k mml segsize level spl dec grp sched gops fti samples = Ok b /\ b_file b = file.
Proof.
  intros. unfold model_create. destruct (model_build zc ecn k mml segsize level spl dec grp sched gops fti samples) as [b| |];
    cbn [obnd]; split.
  - intro H. apply ok_inj in H. exists b. auto.
  - intros (b' & E & <-). apply ok_inj in E. subst. reflexivity.
  - discriminate.
  - intros (b' & E & _). discriminate.
  - discriminate.
  - intros (b' & E & _). discriminate.
Qed.

(* the history is well formed (C13 container_refines_spec) as soon as every metadata value fits u64: the names are
   the pinned fixed names and x<base64>d / x<base64>r *)
Definition parts_meta_u64 (ops : list wop) : Prop :=
  Forall (fun o => match o with WAddBuf _ _ m => m < two64 | _ => True end) ops.

Lemma model_wops_wf : forall k mml ss a fti fin groups,
  parts_meta_u64 (model_wops (fixed_plan k mml ss a fti) (group_plan fin groups)) ->
  Forall wop_wf (model_wops (fixed_plan k mml ss a fti) (group_plan fin groups)).
Proof.
  intros k mml ss a fti fin groups H. apply Forall_forall. intros o Ho.
  unfold parts_meta_u64 in H. rewrite Forall_forall in H. specialize (H o Ho).
  unfold model_wops in Ho. apply in_app_or in Ho. destruct Ho as [Ho|Ho].
  - apply in_map_iff in Ho. destruct Ho as (e & <- & He). cbn [wop_wf].
    assert (Hn : In (fst e) (SPEC_FIXED_NAMES ++ group_names groups)).
    { rewrite <- (plan_names k mml ss a fti fin groups). apply in_map. exact He. }
    apply in_app_or in Hn. destruct Hn as [Hn|Hn].
    + pose proof (proj2 (proj2 (AgcV3_proofs.stream_names_wf_proof 0))) as F. rewrite Forall_forall in F. exact (F _ Hn).
    + destruct (group_names_in _ _ Hn) as (g & _ & [E|E]); rewrite E.
      * exact (proj1 (proj2 (AgcV3_proofs.stream_names_wf_proof g))).
      * exact (proj1 (AgcV3_proofs.stream_names_wf_proof g)).
  - apply in_app_or in Ho. destruct Ho as [Ho|Ho].
    + apply in_map_iff in Ho. destruct Ho as (x & <- & _). exact H.
    + destruct Ho as [<-|[]]. exact I.
Qed.

Lemma history_wf_proof : forall zc ecn k mml segsize level spl dec grp sched gops fti samples b,
  model_build zc ecn k mml segsize level spl dec grp sched gops fti samples = Ok b ->
  parts_meta_u64 (b_wops b) -> Forall wop_wf (b_wops b).
Proof.
  intros zc ecn k mml segsize level spl dec grp sched gops fti samples b Hb H.
  destruct (model_build_inv _ _ _ _ _ _ _ _ _ _ _ _ _ _ Hb) as (st & coll & stored & cw & a & _ & _ & _ & ->).
  cbn [b_wops] in *. apply model_wops_wf. exact H.
Qed.

(* model_build cannot fail after the store and create succeeded, on a catalogue in the domain of C03 *)
Lemma model_build_total_proof :
  forall zc zd, (forall l x, zd (zc l x) = Some x) -> (forall l x, zc l x <> []) ->
  forall ecn k mml segsize level spl dec grp sched gops fti samples st coll stored,
  segsize + k <= 2147483648 ->
  run (mc_lz_enc mml) (mc_cref zc) (mc_cpack zc level) gops = Ok st ->
  create ecn k spl segsize dec (mc_store_addr k spl segsize dec grp (pushes_of samples) st) sched (pushes_of samples)
    = Ok (coll, stored) ->
  catalogue_in_dom zc segsize k (mc_cat_of coll) ->
  exists b, model_build zc ecn k mml segsize level spl dec grp sched gops fti samples = Ok b /\
            b_store b = st /\ b_coll b = coll /\ b_stored b = stored.
Proof.
  intros zc zd Hzd Hzc ecn k mml segsize level spl dec grp sched gops fti samples st coll stored Hssk Hrun Hc (Hn & Hnames & Hb).
  destruct (Collection_proofs.batches_roundtrip_proof zc zd Hzd Hzc segsize k Hssk W_CATALOGUE_BATCH (mc_coll segsize k coll)
              eq_refl eq_refl eq_refl Hn Hnames Hb) as (cw & a & _ & Hst & _).
  unfold model_build. rewrite Hrun. cbn [obnd]. rewrite Hc. cbn [obnd fst snd]. rewrite Hst. cbn [obnd].
  eexists. split; [reflexivity|]. cbn [b_store b_coll b_stored fst snd]. auto.
Qed.

Section Grand.
  Variable zc : N -> list N -> list N.
  Variable zd : list N -> option (list N).
  Hypothesis Hzd : forall l x, zd (zc l x) = Some x.
  Hypothesis Hzc : forall l x, zc l x <> [].
  Variable ecn : Pipeline.name -> Pipeline.name.
  Variables (k mml segsize level : N).
  Variable spl : N -> bool.
  Variable dec : nat -> nat -> decision.
  Variable grp : nat -> nat -> N.
  Variable sched : list registration -> list registration.
  Variable gops : list op.
  Variable fti : Container.item.
  Variable samples : list (Pipeline.name * list (Pipeline.name * list N)).
  Hypothesis Hk : 1 <= k <= 32.
  Hypothesis Hmml : 4 <= mml.
  Hypothesis Hm32 : mml < two32.
  Hypothesis Hs32 : segsize < two32.
  Hypothesis Hssk : segsize + k <= 2147483648.
  Hypothesis Hin : inputs_ok samples.
  Hypothesis Hdom : inputs_in_dom mml (pushes_of samples).
  Hypothesis Hdec : decisions_ok k spl segsize dec (pushes_of samples).
  Hypothesis Hlz : lz_contigs_nonempty (pushes_of samples) grp.
  Hypothesis Hgrp : forall i part, grp i part < two32.
  Hypothesis Hsched : forall l, Permutation l (sched l).
  Hypothesis Hcarry : ops_carry (all_emit k spl segsize dec grp 0 (pushes_of samples)) gops.

  Let Hz : zstd_ok zc zd := conj Hzd (fun l x _ => Hzc l x).

  Variable b : built.
  Hypothesis Hb : model_build zc ecn k mml segsize level spl dec grp sched gops fti samples = Ok b.
  Hypothesis Hcat : catalogue_in_dom zc segsize k (mc_cat_of (b_coll b)).
  Hypothesis Hmeta : parts_meta_u64 (b_wops b).
  Hypothesis Hfile : lenN (b_file b) <= spec_max_off.

  Theorem grand_roundtrip_proof : decode zd (b_file b) = Ok samples.
  Proof.
    pose proof (history_wf_proof _ _ _ _ _ _ _ _ _ _ _ _ _ _ Hb Hmeta) as Hwf.
    unfold model_build, obnd in Hb.
    destruct (run (mc_lz_enc mml) (mc_cref zc) (mc_cpack zc level) gops) as [st| |] eqn:Hrun; try discriminate.
    destruct (create ecn k spl segsize dec (mc_store_addr k spl segsize dec grp (pushes_of samples) st) sched (pushes_of samples))
      as [[coll stored]| |] eqn:Hc; try discriminate.
    change (fst (coll, stored)) with coll in Hb. change (snd (coll, stored)) with stored in Hb.
    destruct (store_all zc W_CATALOGUE_BATCH (mc_coll segsize k coll) arch_empty) as [[cw a]| |] eqn:Hst; try discriminate.
    change (snd (cw, a)) with a in Hb. cbv zeta in Hb.
    apply ok_inj in Hb. subst b. unfold b_coll in Hcat. unfold b_wops in Hwf. unfold b_file in Hfile. unfold b_file.
    set (fin := finalize (mc_cpack zc level) st) in *.
    set (fp := fixed_plan k mml segsize a fti) in *.
    set (gp := group_plan fin (groups_of gops)) in *.
    (* ---- C01: what create and the store did *)
    assert (Hrel : store_fed_by stored gops /\ addresses_from_store stored st /\ pieces_in_dom mml stored).
    { pose proof Hc as Hc'. unfold create in Hc'.
      destruct (register_all ecn [] (pushes_of samples)) as [coll0| |]; cbn [obnd] in Hc'; try discriminate.
      destruct (all_regs k spl segsize dec _ 0 (pushes_of samples)) as [regs| |] eqn:Ea; cbn [obnd] in Hc'; try discriminate.
      inversion Hc'; subst coll stored; clear Hc'.
      destruct (store_addr_consistent_proof k spl segsize dec grp _ _ _ (pushes_of samples) gops st regs
                  ltac:(lia) Hdec Hcarry Hrun Ea) as [Hf Ha].
      split; [exact Hf|]. split; [exact Ha|].
      apply (pieces_in_dom_from_inputs_proof k spl segsize dec (store_addr k spl segsize dec grp (pushes_of samples) st)
               (pushes_of samples) regs mml Hk Hmml Hdec Hdom); [exact Hlz|exact Ea]. }
    destruct Hrel as (Hfed & Haddr & Hpdom).
    pose proof (fed_in_dom mml stored gops Hfed Hpdom) as Hcops.
    pose proof (create_stored_len _ _ _ _ _ _ _ _ _ _ Hc) as Hslen.
    pose proof (stored_ok_from_groupstore_proof zc zd Hz mml level stored gops st Hslen Hpdom Hfed Hrun Haddr) as Hsok.
    set (get := store_get zc zd mml level st) in *.
    set (get' := guarded stored get).
    destruct (create_extract_roundtrip_proof ecn get' k spl segsize dec _ sched samples coll stored Hk Hin Hdec Hsched Hc
                (guarded_stored_ok stored get Hsok)) as [_ Hext].
    destruct (extract_all_agree get' k coll samples Hext (proj1 Hin)) as [Esamples Hfine].
    (* ---- every descriptor of the catalogue is backed by a registration of the store, and reads its bytes *)
    assert (Hback : all_descs (fun d => desc_backed st d /\ got get' d = s_data (seg_pick st d)) coll).
    { apply all_descs_intro. intros s c d Hs Hcin Hd.
      rewrite Forall_forall in Hfine. specialize (Hfine s Hs). rewrite Forall_forall in Hfine.
      destruct (Hfine c Hcin) as [Hr _]. rewrite Forall_forall in Hr.
      destruct (guarded_reads stored get d (Hr d Hd)) as [[b0 Hdb] Eg].
      destruct (Haddr d b0 Hdb) as (s0 & Hreg & Hdata & Hrc).
      assert (Hbk : desc_backed st d).
      { apply (seg_pick_ok st d s0 Hreg Hrc). rewrite Hdata. symmetry. exact (Hslen d b0 Hdb). }
      split; [exact Hbk|]. destruct Hbk as (Hreg' & Hrc' & Hlen').
      destruct (store_then_get_concrete_proof zc zd mml level Hz gops st (Pipeline.d_group d) (seg_pick st d) (Pipeline.d_id d)
                  Hcops Hrun Hreg') as [Hget _].
      assert (Ed : desc_of (Pipeline.d_group d) (seg_pick st d) (Pipeline.d_id d) = rdesc d).
      { unfold desc_of, rdesc. rewrite Hrc', Hlen'. reflexivity. }
      rewrite Ed in Hget. unfold got, get'. rewrite Eg. unfold get, store_get. rewrite Hget. reflexivity. }
    assert (Hback1 : all_descs (desc_backed st) coll).
    { apply all_descs_intro. intros s c d Hs Hcin Hd. exact (proj1 (all_descs_in _ _ Hback s c d Hs Hcin Hd)). }
    (* ---- the groups *)
    assert (Hgroups_nd : NoDup (groups_of gops)) by (exact (proj1 (dedupN_spec _ []))).
    assert (Hgroups_b : Forall (fun g => g < two32) (groups_of gops)).
    { apply Forall_forall. intros g Hg. apply groups_of_in in Hg. destruct Hg as (o & Ho & Eo & Hne).
      destruct (snd o) as [|sg rest] eqn:Es; [contradiction|].
      assert (Hsg : In sg (GroupStore.segs_of gops g)).
      { apply segs_of_in. exists o. rewrite Es. split; [exact Ho|]. split; [exact Eo|]. left. reflexivity. }
      apply (Permutation_in _ (Hcarry g)) in Hsg. apply in_map_iff in Hsg. destruct Hsg as ([g' sg'] & _ & Hf).
      apply filter_In in Hf. destruct Hf as [Hem Eg]. cbn [fst] in Eg. apply N.eqb_eq in Eg. subst g'.
      apply all_emit_in in Hem. destruct Hem as (i & s & c & pc & _ & E). inversion E. apply Hgrp. }
    assert (Hplaced_group : forall d, desc_backed st d -> In (Pipeline.d_group d) (groups_of gops) /\ st (Pipeline.d_group d) <> None).
    { intros d (Hreg & _ & _). split.
      - apply groups_of_in.
        assert (Hs : In (seg_pick st d) (GroupStore.segs_of gops (Pipeline.d_group d))).
        { apply (Permutation_in _ (GroupStore_rules.every_segment_registered_proof _ _ _ gops st (Pipeline.d_group d) Hrun)).
          apply in_map_iff. exists (seg_pick st d, Pipeline.d_id d). split; [reflexivity|exact Hreg]. }
        apply segs_of_in in Hs. destruct Hs as (o & Ho & Eo & Hs). exists o. split; [exact Ho|]. split; [exact Eo|].
        intro E. rewrite E in Hs. contradiction.
      - intro E. unfold regs_of, get_group in Hreg. rewrite E in Hreg. cbn in Hreg. contradiction. }
    (* ---- the Archive history *)
    assert (Hfpl : length fp = 7%nat) by reflexivity.
    assert (Hnd : NoDup (map fst (fp ++ gp))) by (exact (plan_names_nodup k mml segsize a fti fin (groups_of gops) Hgroups_nd Hgroups_b)).
    pose proof (model_stream_state fp gp Hfpl Hnd) as Hstate.
    set (L := layout_of st coll).
    assert (Hcat' : catalogue_in_dom zc segsize k (cat_of coll)) by exact Hcat.
    destruct Hcat' as (Hn & Hnames & Hbatches).
    pose proof (writer_conforms_proof zc zd Hzd Hzc k mml segsize level Hmml ltac:(unfold two32; lia) Hm32 Hs32 Hssk
                  gops st Hrun (ops_ok_weaken mml gops Hcops) L (mc_coll segsize k coll) cw a
                  (eq_sym (layout_samples st coll Hback1)) eq_refl eq_refl Hn Hnames Hbatches Hst) as HW.
    rewrite <- (layout_reassembled get' st k coll Hback) in Esamples. fold L in Esamples. rewrite Esamples.
    apply HW; clear HW.
    - (* placed segments are registered *)
      intros p Hp. destruct (layout_placed st coll p Hp) as (s & c & d & Hs & Hcin & Hd & ->).
      exact (proj1 (all_descs_in _ _ Hback1 s c d Hs Hcin Hd)).
    - (* later segments have at least k symbols *)
      intros sm ct Hsm Hct. unfold L, layout_of in Hsm. apply in_map_iff in Hsm. destruct Hsm as (s & <- & Hs).
      cbn [snd] in Hct. apply in_map_iff in Hct. destruct Hct as (c & <- & Hcin). cbn [snd].
      rewrite tl_map. rewrite Forall_forall in Hfine. specialize (Hfine s Hs). rewrite Forall_forall in Hfine.
      destruct (Hfine c Hcin) as [_ Hl]. apply Forall_forall. intros p Hp. apply in_map_iff in Hp. destruct Hp as (d & <- & Hd).
      cbn [placed_of pl_seg]. rewrite Forall_forall in Hl. specialize (Hl d Hd).
      assert (Hd' : In d (snd c)) by (destruct (snd c); [contradiction|right; exact Hd]).
      rewrite (proj2 (all_descs_in _ _ Hback s c d Hs Hcin Hd')) in Hl. exact Hl.
    - exact Hwf.
    - exact Hfile.
    - exact (Hstate (W_NAME_FIXED_1, [(w_params k mml segsize, W_PARAMS_METADATA)]) ltac:(apply in_or_app; left; cbn; tauto)).
    - exact (Hstate (W_NAME_COLL_0, a_samples a) ltac:(apply in_or_app; left; cbn; tauto)).
    - exact (Hstate (W_NAME_COLL_1, a_contigs a) ltac:(apply in_or_app; left; cbn; tauto)).
    - exact (Hstate (W_NAME_COLL_2, a_details a) ltac:(apply in_or_app; left; cbn; tauto)).
    - intros p Hp. destruct (layout_placed st coll p Hp) as (s & c & d & Hs & Hcin & Hd & ->). cbn [placed_of pl_group].
      destruct (Hplaced_group d (all_descs_in _ _ Hback1 s c d Hs Hcin Hd)) as [Hg Hsome].
      set (g := Pipeline.d_group d) in *.
      assert (Hview : exists r dl, view_of fin g = {| gv_ref := Some r; gv_delta := Some dl |}).
      { unfold view_of, fin, finalize. destruct (st g) as [gs|]; [|contradiction]. eauto. }
      destruct Hview as (r & dl & Ev). change (finalize (m_cpack zc level) st) with fin. rewrite Ev. cbn [gv_ref gv_delta option_map].
      assert (Hing : forall e, In e [ (w_delta_name g, opt_items (gv_delta (view_of fin g)));
                                     (w_ref_name g, opt_items (gv_ref (view_of fin g))) ] -> In e (fp ++ gp)).
      { intros e He. apply in_or_app. right. unfold gp, group_plan. apply in_flat_map. exists g. split; [exact Hg|exact He]. }
      split.
      + pose proof (Hstate _ (Hing _ (or_intror (or_introl eq_refl)))) as H1. cbn [fst snd] in H1. rewrite Ev in H1. exact H1.
      + pose proof (Hstate _ (Hing _ (or_introl eq_refl))) as H1. cbn [fst snd] in H1. rewrite Ev in H1. exact H1.
  Qed.
End Grand.

(* ================================================================ decision procedures for the non-vacuity example *)
Definition decisions_okb (k : N) (spl : N -> bool) (segsize : N) (dec : nat -> nat -> decision) (pushes : list push) : bool :=
  forallb (fun ip : nat * push =>
             let segs := split_at_splitters_with_size (snd (snd ip)) spl k segsize in
             forallb (fun jsg : nat * segment => decision_okb (N.to_nat k) (snd jsg) (dec (fst ip) (fst jsg)))
                     (combine (seq 0 (length segs)) segs))
          (combine (seq 0 (length pushes)) pushes).

Lemma nth_error_combine_seq {A} : forall (l : list A) a i x, nth_error l i = Some x ->
  In ((a + i)%nat, x) (combine (seq a (length l)) l).
Proof.
  induction l as [|y l IH]; intros a i x H; [destruct i; discriminate|]. cbn [length seq combine].
  destruct i as [|i]; cbn [nth_error] in H.
  - inversion H; subst. left. rewrite Nat.add_0_r. reflexivity.
  - right. replace (a + S i)%nat with (S a + i)%nat by lia. apply IH. exact H.
Qed.

Lemma decisions_okb_ok : forall k spl segsize dec pushes,
  decisions_okb k spl segsize dec pushes = true -> decisions_ok k spl segsize dec pushes.
Proof.
  intros k spl segsize dec pushes H i s c data j sg Hi Hj. unfold decisions_okb in H. rewrite forallb_forall in H.
  specialize (H _ (nth_error_combine_seq pushes 0%nat i _ Hi)). cbn [fst snd Nat.add] in H. rewrite forallb_forall in H.
  exact (H _ (nth_error_combine_seq _ 0%nat j _ Hj)).
Qed.

Definition catalogue_in_domb (zc : N -> list N -> list N) (ss k : N) (sm : list Collection.sample) : bool :=
  (lenN sm <? 4294967296) &&
  forallb (fun s => forallb (fun b => (1 <=? b) && (b <? 128)) (Collection.sname s)) sm &&
  forallb (Collection_proofs.batch_okb zc ss k) (Collection_proofs.chunks (length sm) (N.to_nat W_CATALOGUE_BATCH) sm).

Lemma catalogue_in_domb_ok : forall zc ss k sm, catalogue_in_domb zc ss k sm = true -> catalogue_in_dom zc ss k sm.
Proof.
  intros zc ss k sm H. unfold catalogue_in_domb in H. apply andb_true_iff in H. destruct H as [H H3].
  apply andb_true_iff in H. destruct H as [H1 H2]. split; [apply N.ltb_lt; exact H1|]. split.
  - eapply Collection_proofs.forallb_Forall; [|exact H2]. intros s Hs. eapply Collection_proofs.forallb_Forall; [|exact Hs].
    intros x Hx. cbn beta in Hx. lia.
  - eapply Collection_proofs.forallb_Forall; [|exact H3]. apply Collection_proofs.batch_okb_ok.
Qed.

Definition parts_meta_u64b (ops : list wop) : bool :=
  forallb (fun o => match o with WAddBuf _ _ m => m <? two64 | _ => true end) ops.
Lemma parts_meta_u64b_ok : forall ops, parts_meta_u64b ops = true -> parts_meta_u64 ops.
Proof.
  intros ops H. eapply Collection_proofs.forallb_Forall; [|exact H]. intros [nm|sid d m|sid d m| |sid raw] Ho; try exact I.
  apply N.ltb_lt. exact Ho.
Qed.

(* ================================================================ 6. from FASTA text (C16 / C19, Fasta.v) *)
From Ragc Require Fasta Fasta_proofs.

(* what create hands to the compressor, grouped the way the catalogue groups it: the inner part of Fasta.create_view *)
Definition text_stream (files : list (list N * list N)) : outcome (list Fasta.contig3) :=
  match files with
  | [(fname, text)] => Fasta.stream_single fname text
  | _ => Fasta.stream_multi files
  end.
Definition text_samples (files : list (list N * list N)) : outcome (list (list N * list (list N * list N))) :=
  obnd (text_stream files) (Fasta.collect []).

Lemma create_view_text_samples : forall files,
  Fasta.create_view files =
  obnd (text_samples files) (fun arch =>
    Ok (map (fun sc => (fst sc, map (fun nc => (fst nc, Fasta.out_letters (snd nc))) (snd sc))) arch)).
Proof.
  intro files. unfold Fasta.create_view, text_samples, text_stream.
  destruct files as [|[f t] [|x r]]; cbn [obnd];
    match goal with |- obnd ?s _ = _ => destruct s; reflexivity end.
Qed.

Lemma add_contig_inv : forall arch s n c a, Fasta.add_contig arch (s, n, c) = Some a ->
  ((In s (map fst arch) /\ map fst a = map fst arch) \/ (~ In s (map fst arch) /\ map fst a = map fst arch ++ [s])) /\
  (Forall (fun sc => snd sc <> []) arch -> Forall (fun sc => snd sc <> []) a) /\
  (forall s' l' x, In (s', l') a -> In x l' -> (exists l0, In (s', l0) arch /\ In x l0) \/ (s' = s /\ x = (n, c))).
Proof.
  induction arch as [|[s0 cs0] arch IH]; intros s n c a H.
  - cbn in H. inversion H; subst. split; [right; split; [intros []|reflexivity]|]. split.
    + intros _. constructor; [discriminate|constructor].
    + intros s' l' x [E|[]] Hx. inversion E; subst. destruct Hx as [<-|[]]. right. auto.
  - cbn [Fasta.add_contig] in H. destruct (Fasta.bytes_eqb s0 s) eqn:E0.
    + destruct (existsb (fun x => Fasta.bytes_eqb (fst x) n) cs0); [discriminate|]. inversion H; subst a; clear H.
      apply Fasta_proofs.list_eqb_eq in E0. subst s0. split; [left; split; [left; reflexivity|reflexivity]|]. split.
      * intro F. inversion F; subst. constructor; [|assumption]. cbn [snd]. destruct cs0; discriminate.
      * intros s' l' x [E|Hin] Hx.
        -- inversion E; subst. apply in_app_or in Hx. destruct Hx as [Hx|[<-|[]]]; [|right; auto].
           left. exists cs0. split; [left; reflexivity|exact Hx].
        -- left. exists l'. split; [right; exact Hin|exact Hx].
    + destruct (Fasta.add_contig arch (s, n, c)) as [a'|] eqn:A; [|discriminate]. inversion H; subst a; clear H.
      destruct (IH s n c a' A) as (I1 & I2 & I3).
      assert (Hne : s0 <> s) by (intro; subst; rewrite Fasta_proofs.bytes_eqb_refl in E0; discriminate).
      split; [|split].
      * cbn [map fst]. destruct I1 as [[Hi Em]|[Hi Em]]; [left|right]; rewrite Em; (split; [|reflexivity]).
        -- right. exact Hi.
        -- intros [E|Hx]; [exact (Hne E)|exact (Hi Hx)].
      * intro F. inversion F; subst. constructor; [assumption|apply I2; assumption].
      * intros s' l' x [E|Hin] Hx.
        -- inversion E; subst. left. exists l'. split; [left; reflexivity|exact Hx].
        -- destruct (I3 s' l' x Hin Hx) as [(l0 & H0 & Hx0)|R]; [|right; exact R].
           left. exists l0. split; [right; exact H0|exact Hx0].
Qed.

Lemma collect_inv : forall cs arch a, Fasta.collect arch cs = Ok a ->
  NoDup (map fst arch) -> Forall (fun sc => snd sc <> []) arch ->
  NoDup (map fst a) /\ Forall (fun sc => snd sc <> []) a /\
  (forall s l n c, In (s, l) a -> In (n, c) l -> (exists l0, In (s, l0) arch /\ In (n, c) l0) \/ In (s, n, c) cs).
Proof.
  induction cs as [|[[s n] c] cs IH]; intros arch a H ND NE; cbn [Fasta.collect] in H.
  - inversion H; subst. split; [exact ND|]. split; [exact NE|]. intros s l n c H1 H2. left. exists l. auto.
  - destruct (Fasta.add_contig arch (s, n, c)) as [a1|] eqn:A; [|discriminate].
    destruct (add_contig_inv arch s n c a1 A) as (I1 & I2 & I3).
    assert (ND1 : NoDup (map fst a1)).
    { destruct I1 as [[_ ->]|[Hn ->]]; [exact ND|]. apply Container_proofs.NoDup_app_one; assumption. }
    destruct (IH a1 a H ND1 (I2 NE)) as (J1 & J2 & J3). split; [exact J1|]. split; [exact J2|].
    intros s' l n' c' H1 H2. destruct (J3 s' l n' c' H1 H2) as [(l0 & H0 & Hx)|R]; [|right; right; exact R].
    destruct (I3 s' l0 (n', c') H0 Hx) as [L|[-> E]]; [left; exact L|]. inversion E; subst. right. left. reflexivity.
Qed.

Lemma stream_multi_in : forall files cs x, Fasta.stream_multi files = Ok cs -> In x cs ->
  exists f t rs, In (f, t) files /\ Fasta.contig_stream f t = Ok rs /\ In x rs.
Proof.
  induction files as [|[f0 t0] fs IH]; intros cs x H Hx; cbn [Fasta.stream_multi] in H.
  - inversion H; subst. contradiction.
  - destruct (Fasta.contig_stream f0 t0) as [a| |] eqn:E0; destruct (Fasta.stream_multi fs) as [b0| |] eqn:E1;
      cbn [Fasta.oapp] in H; try discriminate.
    inversion H; subst cs. apply in_app_or in Hx. destruct Hx as [Hx|Hx].
    + exists f0, t0, a. split; [left; reflexivity|]. auto.
    + destruct (IH b0 x eq_refl Hx) as (f & t & rs & Hf & Hs & Hr). exists f, t, rs. split; [right; exact Hf|]. auto.
Qed.

Lemma contig_stream_codes : forall f t rs s n codes, Fasta.contig_stream f t = Ok rs -> In (s, n, codes) rs ->
  Forall (fun c => c <= 30) codes /\ codes <> [].
Proof.
  intros f t rs s n codes H Hin. unfold Fasta.contig_stream, Fasta.pushed in H.
  destruct (Fasta.parse t) as [rs0| |] eqn:P; cbn [obnd] in H; try discriminate. inversion H; subst rs; clear H.
  apply in_map_iff in Hin. destruct Hin as ([id cd] & E & Hr). cbn [fst snd] in E. inversion E; subst; clear E.
  unfold Fasta.nonempty_contigs in Hr. apply filter_In in Hr. destruct Hr as [Hr Hne]. cbn [snd] in Hne. split.
  - apply Forall_forall. intros c Hc. destruct (Fasta_proofs.code_range_parse t rs0 n codes c P Hr Hc); lia.
  - destruct codes; [discriminate|discriminate].
Qed.

Lemma text_stream_codes : forall files cs s n codes, text_stream files = Ok cs -> In (s, n, codes) cs ->
  Forall (fun c => c <= 30) codes /\ codes <> [].
Proof.
  intros files cs s n codes H Hin.
  assert (Hm : forall fs, Fasta.stream_multi fs = Ok cs -> Forall (fun c => c <= 30) codes /\ codes <> []).
  { intros fs Hs. destruct (stream_multi_in fs cs _ Hs Hin) as (f & t & rs & _ & Hc & Hr).
    exact (contig_stream_codes f t rs s n codes Hc Hr). }
  unfold text_stream in H. destruct files as [|[f t] [|x r]]; try (apply (Hm _ H)).
  unfold Fasta.stream_single in H. destruct (Fasta.contig_stream f t) as [rs| |] eqn:E; cbn [obnd] in H; try discriminate.
  destruct (Fasta.sorted_go None [] rs); [|discriminate]. inversion H; subst cs.
  exact (contig_stream_codes f t rs s n codes E Hin).
Qed.

(* the sample set create builds from FASTA text meets the input hypotheses of grand_roundtrip that do not concern lengths
   or the emptiness of a sample name: distinct sample names, no sample without contigs, no empty contig, codes 0..30 *)
Lemma text_samples_shape : forall files arch, text_samples files = Ok arch ->
  NoDup (map fst arch) /\ Forall (fun sc => snd sc <> []) arch /\
  (forall s c data, In (s, c, data) (pushes_of arch) -> Forall (fun x => x <= 30) data /\ data <> []).
Proof.
  intros files arch H. unfold text_samples in H. destruct (text_stream files) as [cs| |] eqn:E; cbn [obnd] in H; try discriminate.
  destruct (collect_inv cs [] arch H (NoDup_nil _) (Forall_nil _)) as (J1 & J2 & J3). split; [exact J1|]. split; [exact J2|].
  intros s c data Hp. apply Pipeline_proofs.pushes_keys in Hp. destruct Hp as (sm & ct & Hs & Hc & Ep). inversion Ep; subst; clear Ep.
  destruct sm as [sn l]. destruct ct as [cn cd]. cbn [fst snd] in *.
  destruct (J3 sn l cn cd Hs Hc) as [(l0 & [] & _)|Hin]. exact (text_stream_codes files cs sn cn cd E Hin).
Qed.

Section GrandText.
  Variable zc : N -> list N -> list N.
  Variable zd : list N -> option (list N).
  Hypothesis Hzd : forall l x, zd (zc l x) = Some x.
  Hypothesis Hzc : forall l x, zc l x <> [].
  Variable ecn : Pipeline.name -> Pipeline.name.
  Variables (k mml segsize level : N).
  Variable spl : N -> bool.
  Variable dec : nat -> nat -> decision.
  Variable grp : nat -> nat -> N.
  Variable sched : list registration -> list registration.
  Variable gops : list op.
  Variable fti : Container.item.
  Variable files : list (list N * list N).
  Variable arch : list (list N * list (list N * list N)).
  Hypothesis Hk : 1 <= k <= 32.
  Hypothesis Hmml : 4 <= mml.
  Hypothesis Hm32 : mml < two32.
  Hypothesis Hs32 : segsize < two32.
  Hypothesis Hssk : segsize + k <= 2147483648.
  Hypothesis Htext : text_samples files = Ok arch.
  Hypothesis Hnames : Forall (fun s => fst s <> []) arch.
  Hypothesis Hlens : forall s c data, In (s, c, data) (pushes_of arch) -> 2 * lenN data + mml < 2147483648.
  Hypothesis Hdec : decisions_ok k spl segsize dec (pushes_of arch).
  Hypothesis Hgrp : forall i part, grp i part < two32.
  Hypothesis Hsched : forall l, Permutation l (sched l).
  Hypothesis Hcarry : ops_carry (all_emit k spl segsize dec grp 0 (pushes_of arch)) gops.
  Variable b : built.
  Hypothesis Hb : model_build zc ecn k mml segsize level spl dec grp sched gops fti arch = Ok b.
  Hypothesis Hcat : catalogue_in_dom zc segsize k (mc_cat_of (b_coll b)).
  Hypothesis Hmeta : parts_meta_u64 (b_wops b).
  Hypothesis Hfile : lenN (b_file b) <= spec_max_off.

  Theorem text_roundtrip_proof :
    decode zd (b_file b) = Ok arch /\
    Fasta.create_view files =
      Ok (map (fun sc => (fst sc, map (fun nc => (fst nc, Fasta.out_letters (snd nc))) (snd sc))) arch).
  Proof.
    destruct (text_samples_shape files arch Htext) as (ND & NE & Hcodes). split.
    - apply (grand_roundtrip_proof zc zd Hzd Hzc ecn k mml segsize level spl dec grp sched gops fti arch); try assumption.
      + split; [exact ND|]. apply Forall_forall. intros s Hs. rewrite Forall_forall in Hnames, NE. split; [exact (Hnames s Hs)|exact (NE s Hs)].
      + intros s c data Hp. split; [exact (proj1 (Hcodes s c data Hp))|exact (Hlens s c data Hp)].
      + intros i s c data part Hn _. exact (proj2 (Hcodes s c data (nth_error_In _ _ Hn))).
    - rewrite create_view_text_samples, Htext. reflexivity.
  Qed.
End GrandText.
