(* Kmer_proofs.v — lemmas for C20 *)
From Coq Require Import Lia.
From Ragc Require Import Mach Consts_kmer Kmer.
Open Scope N_scope.

Lemma data_canonical_min_proof : forall x, data_canonical x = N.min (kdir x) (krc x).
Proof. reflexivity. Qed.
