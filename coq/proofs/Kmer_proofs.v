(* Kmer_proofs.v — lemmas for C20: word-level facts, state invariant of the sliding Kmer,
   reverse_complement_kmer, enumerate_kmers against the from-scratch specification. *)
From Coq Require Import Lia ZifyBool ZifyN ZifyNat.
From Ragc Require Import Mach Consts_kmer Kmer.
Open Scope N_scope.
Arguments N.add : simpl never.
Arguments N.sub : simpl never.
Arguments N.mul : simpl never.
Arguments N.shiftl : simpl never.
Arguments N.shiftr : simpl never.
Arguments N.land : simpl never.
Arguments N.lor : simpl never.
Arguments N.modulo : simpl never.
Arguments N.div : simpl never.
Arguments N.pow : simpl never.
Arguments N.min : simpl never.

Definition kdom (k : N) : Prop := 1 <= k <= 32.

(* ------------------------------------------------------------------ *)
(* powers                                                              *)
Lemma two64_pow : two64 = 2 ^ 64.
Proof. reflexivity. Qed.

Lemma four_pow : forall x, 4 ^ x = 2 ^ (2 * x).
Proof. intro x. rewrite N.pow_mul_r. reflexivity. Qed.

Lemma pow2_pos : forall x, 0 < 2 ^ x.
Proof. intro x. apply N.neq_0_lt_0. apply N.pow_nonzero. discriminate. Qed.

Lemma pow4_pos : forall x, 0 < 4 ^ x.
Proof. intro x. apply N.neq_0_lt_0. apply N.pow_nonzero. discriminate. Qed.

(* 2^(64-2n) * 4^n = 2^64 *)
Lemma pow_split : forall n, n <= 32 -> 2 ^ (64 - 2 * n) * 4 ^ n = 2 ^ 64.
Proof.
  intros n H. rewrite four_pow, <- N.pow_add_r. f_equal. lia.
Qed.

(* 2^(64-2n) = 4^(k-n) * 2^(64-2k) *)
Lemma pow_shift_split : forall k n, n <= k -> k <= 32 ->
  2 ^ (64 - 2 * n) = 4 ^ (k - n) * 2 ^ (64 - 2 * k).
Proof.
  intros k n H1 H2. rewrite four_pow, <- N.pow_add_r. f_equal. lia.
Qed.

Lemma pow4_succ : forall n, 4 ^ (n + 1) = 4 * 4 ^ n.
Proof. intro n. rewrite N.pow_add_r. rewrite N.pow_1_r. lia. Qed.

Lemma pow4_pred : forall k, 1 <= k -> 4 ^ k = 4 * 4 ^ (k - 1).
Proof. intros k H. rewrite <- pow4_succ. f_equal. lia. Qed.

Lemma pow2_62 : forall k, kdom k -> 2 ^ 62 = 4 ^ (k - 1) * 2 ^ (kshift k).
Proof.
  intros k [H1 H2]. unfold kshift. rewrite four_pow, <- N.pow_add_r. f_equal. lia.
Qed.

Lemma kshift_split : forall k, kdom k -> 2 ^ (kshift k) * 4 ^ k = 2 ^ 64.
Proof. intros k [H1 H2]. unfold kshift. apply pow_split. exact H2. Qed.

(* ------------------------------------------------------------------ *)
(* word-level lemmas                                                   *)

Lemma shl64_small : forall x s, x * 2 ^ s < 2 ^ 64 -> shl64 x s = x * 2 ^ s.
Proof.
  intros x s H. unfold shl64, wrap64. rewrite two64_pow, N.shiftl_mul_pow2.
  apply N.mod_small. exact H.
Qed.

Lemma testbit_high : forall x n i, x < 2 ^ n -> n <= i -> N.testbit x i = false.
Proof.
  intros x n i H Hi. rewrite <- (N.mod_small x (2 ^ n) H).
  apply N.mod_pow2_bits_high. exact Hi.
Qed.

(* x land mask = (x / 2^shift) * 2^shift for a 64-bit x *)
Lemma land_kmask : forall k x, kdom k -> x < 2 ^ 64 ->
  N.land x (kmask k) = x / 2 ^ (kshift k) * 2 ^ (kshift k).
Proof.
  intros k x [H1 H2] Hx.
  assert (Hs : kshift k <= 62) by (unfold kshift; lia).
  apply N.bits_inj. intro i.
  rewrite N.land_spec.
  rewrite <- N.shiftl_mul_pow2, <- N.shiftr_div_pow2.
  unfold kmask, shl64, wrap64. rewrite two64_pow.
  change max_u64 with (N.ones 64).
  destruct (N.lt_ge_cases i 64) as [Hi | Hi].
  - rewrite N.mod_pow2_bits_low by exact Hi.
    destruct (N.lt_ge_cases i (kshift k)) as [Hl | Hl].
    + rewrite !N.shiftl_spec_low by exact Hl. apply andb_false_r.
    + rewrite !N.shiftl_spec_high' by exact Hl.
      rewrite N.ones_spec_low by lia. rewrite andb_true_r.
      rewrite N.shiftr_spec'. f_equal. lia.
  - rewrite N.mod_pow2_bits_high by exact Hi. rewrite andb_false_r.
    destruct (N.lt_ge_cases i (kshift k)) as [Hl | Hl].
    + rewrite N.shiftl_spec_low by exact Hl. reflexivity.
    + rewrite N.shiftl_spec_high' by exact Hl. rewrite N.shiftr_spec'.
      symmetry. apply (testbit_high x 64); [exact Hx | lia].
Qed.

(* disjoint or = plus *)
Lemma lor_disjoint_add : forall b m c, c < 2 ^ m -> N.lor (b * 2 ^ m) c = b * 2 ^ m + c.
Proof.
  intros b m c Hc.
  assert (Hd : N.land (b * 2 ^ m) c = 0).
  { apply N.bits_inj. intro i. rewrite N.land_spec, N.bits_0.
    rewrite <- N.shiftl_mul_pow2.
    destruct (N.lt_ge_cases i m) as [Hl | Hl].
    - rewrite N.shiftl_spec_low by exact Hl. reflexivity.
    - rewrite (testbit_high c m i Hc Hl). apply andb_false_r. }
  rewrite (N.add_nocarry_lxor _ _ Hd). symmetry. apply N.lxor_lor. exact Hd.
Qed.

Lemma rc_base_lt : forall s, s < 4 -> kmer_rc_base s < 4.
Proof.
  intros s H.
  assert (s = 0 \/ s = 1 \/ s = 2 \/ s = 3) as [E|[E|[E|E]]] by lia; subst s; reflexivity.
Qed.

Lemma rc_base_invol : forall s, s < 4 -> kmer_rc_base (kmer_rc_base s) = s.
Proof.
  intros s H.
  assert (s = 0 \/ s = 1 \/ s = 2 \/ s = 3) as [E|[E|[E|E]]] by lia; subst s; reflexivity.
Qed.

(* --- direct word, window full: (dir*4 mod 2^64) + s*2^shift --- *)
Lemma dir_full_sum : forall k P s, kdom k -> P < 4 ^ k -> s < 4 ->
  shl64 (P * 2 ^ (kshift k)) 2 + shl64 s (kshift k)
  = ((P mod 4 ^ (k - 1)) * 4 + s) * 2 ^ (kshift k)
  /\ ((P mod 4 ^ (k - 1)) * 4 + s) * 2 ^ (kshift k) < 2 ^ 64.
Proof.
  intros k P s Hk HP Hs.
  pose proof (kshift_split k Hk) as HS.
  destruct Hk as [H1 H2].
  pose proof (pow4_pred k H1) as H4.
  pose proof (pow2_pos (kshift k)) as HT.
  pose proof (pow4_pos (k - 1)) as HF.
  set (T := 2 ^ (kshift k)) in *. set (F := 4 ^ (k - 1)) in *.
  assert (Hm : P mod F < F) by (apply N.mod_lt; lia).
  assert (Hb : (P mod F * 4 + s) * T < 2 ^ 64).
  { rewrite <- HS, H4. nia. }
  split; [| exact Hb].
  assert (E1 : shl64 (P * T) 2 = (P mod F) * 4 * T).
  { unfold shl64, wrap64. rewrite two64_pow, N.shiftl_mul_pow2.
    change (2 ^ 2) with 4.
    replace (P * T * 4) with (P * (4 * T)) by lia.
    replace (2 ^ 64) with (F * (4 * T)) by (rewrite <- HS, H4; lia).
    rewrite N.mul_mod_distr_r by lia. lia. }
  assert (E2 : shl64 s (kshift k) = s * T).
  { apply shl64_small. fold T. rewrite <- HS, H4. nia. }
  rewrite E1, E2. lia.
Qed.

(* --- direct word, fill-up --- *)
Lemma dir_fill_sum : forall n P s, n + 1 <= 32 -> P < 4 ^ n -> s < 4 ->
  P * 2 ^ (64 - 2 * n) + shl64 s (64 - 2 * (n + 1))
  = (P * 4 + s) * 2 ^ (64 - 2 * (n + 1))
  /\ (P * 4 + s) * 2 ^ (64 - 2 * (n + 1)) < 2 ^ 64.
Proof.
  intros n P s Hn HP Hs.
  pose proof (pow_split (n + 1) Hn) as HS. rewrite pow4_succ in HS.
  assert (E : 2 ^ (64 - 2 * n) = 4 * 2 ^ (64 - 2 * (n + 1))).
  { change 4 with (2 ^ 2). rewrite <- N.pow_add_r. f_equal. lia. }
  pose proof (pow2_pos (64 - 2 * (n + 1))) as HT.
  pose proof (pow4_pos n) as HF.
  set (T := 2 ^ (64 - 2 * (n + 1))) in *. set (F := 4 ^ n) in *.
  assert (Hb : (P * 4 + s) * T < 2 ^ 64) by (rewrite <- HS; nia).
  split; [| exact Hb].
  rewrite E. rewrite shl64_small by (fold T; rewrite <- HS; nia). fold T. lia.
Qed.

(* --- reverse-complement word (both phases) --- *)
Lemma rc_sum : forall k R s, kdom k -> R < 4 ^ k -> s < 4 ->
  shr64 (R * 2 ^ (kshift k)) 2 + shl64 (kmer_rc_base s) 62 < 2 ^ 64
  /\ rc_step k (R * 2 ^ (kshift k)) s
     = (R / 4 + kmer_rc_base s * 4 ^ (k - 1)) * 2 ^ (kshift k).
Proof.
  intros k R s Hk HR Hs.
  pose proof (kshift_split k Hk) as HS.
  pose proof (pow2_62 k Hk) as H62.
  pose proof (rc_base_lt s Hs) as Hc.
  pose proof Hk as [H1 H2].
  pose proof (pow4_pred k H1) as H4.
  pose proof (pow2_pos (kshift k)) as HT.
  pose proof (pow4_pos (k - 1)) as HF.
  set (c := kmer_rc_base s) in *.
  set (T := 2 ^ (kshift k)) in *. set (F := 4 ^ (k - 1)) in *.
  assert (E1 : shr64 (R * T) 2 = R * T / 4).
  { unfold shr64. rewrite N.shiftr_div_pow2. reflexivity. }
  assert (E2 : shl64 c 62 = c * F * T).
  { rewrite shl64_small; rewrite H62; [lia |]. rewrite <- HS, H4. nia. }
  assert (Hq : R * T / 4 < F * T).
  { apply N.div_lt_upper_bound; [lia |]. rewrite H4 in HR. nia. }
  assert (Hsum : R * T / 4 + c * F * T < 2 ^ 64).
  { rewrite <- HS, H4. nia. }
  rewrite E1, E2. split; [exact Hsum |].
  unfold rc_step. fold c. rewrite E1, E2.
  unfold wrap64. rewrite two64_pow. rewrite (N.mod_small _ _ Hsum).
  rewrite (land_kmask k _ Hk Hsum). fold T. f_equal.
  replace (c * F * T) with ((c * F) * T) by lia.
  rewrite N.div_add by lia. f_equal.
  rewrite N.div_div by lia.
  replace (4 * T) with (4 * T) by reflexivity.
  rewrite (N.mul_comm 4 T).
  replace (R * T / (T * 4)) with (R * T / (4 * T)) by (f_equal; lia).
  apply N.div_mul_cancel_r; lia.
Qed.

(* ------------------------------------------------------------------ *)
(* lists, packing, reverse complement                                  *)

Lemma lenN_nil : forall A, lenN (@nil A) = 0.
Proof. reflexivity. Qed.

Lemma lenN_cons : forall A (a : A) l, lenN (a :: l) = lenN l + 1.
Proof. intros. unfold lenN. cbn [length]. lia. Qed.

Lemma lenN_app : forall A (a b : list A), lenN (a ++ b) = lenN a + lenN b.
Proof. intros. unfold lenN. rewrite app_length. lia. Qed.

Lemma packv_acc : forall w acc, packv acc w = acc * 4 ^ lenN w + packed w.
Proof.
  induction w as [| b w IH]; intro acc.
  - cbn [packv]. rewrite lenN_nil. unfold packed. cbn [packv]. rewrite N.pow_0_r. lia.
  - unfold packed. cbn [packv]. rewrite (IH (acc * 4 + b)), (IH (0 * 4 + b)).
    rewrite lenN_cons, pow4_succ. ring.
Qed.

Lemma packed_nil : packed [] = 0.
Proof. reflexivity. Qed.

Lemma packed_cons : forall a w, packed (a :: w) = a * 4 ^ lenN w + packed w.
Proof.
  intros a w. unfold packed at 1. cbn [packv]. rewrite packv_acc, N.mul_0_l, N.add_0_l. reflexivity.
Qed.

Lemma packv_snoc : forall w acc s, packv acc (w ++ [s]) = packv acc w * 4 + s.
Proof.
  induction w as [| b w IH]; intros acc s.
  - reflexivity.
  - cbn [app packv]. apply IH.
Qed.

Lemma packed_snoc : forall w s, packed (w ++ [s]) = packed w * 4 + s.
Proof. intros. apply packv_snoc. Qed.

Lemma packed_lt : forall w, Forall acgt w -> packed w < 4 ^ lenN w.
Proof.
  induction w as [| a w IH]; intro H.
  - rewrite packed_nil, lenN_nil. reflexivity.
  - inversion H as [| ? ? Ha Hw]; subst. specialize (IH Hw). unfold acgt in Ha.
    rewrite packed_cons, lenN_cons, pow4_succ. nia.
Qed.

Lemma revcomp_snoc : forall w s, revcomp (w ++ [s]) = kmer_rc_base s :: revcomp w.
Proof. intros. unfold revcomp. rewrite map_app, rev_app_distr. reflexivity. Qed.

Lemma revcomp_cons : forall a w, revcomp (a :: w) = revcomp w ++ [kmer_rc_base a].
Proof. reflexivity. Qed.

Lemma revcomp_lenN : forall w, lenN (revcomp w) = lenN w.
Proof. intro w. unfold revcomp, lenN. rewrite rev_length, map_length. reflexivity. Qed.

Lemma revcomp_length : forall w, length (revcomp w) = length w.
Proof. intro w. unfold revcomp. rewrite rev_length, map_length. reflexivity. Qed.

Lemma revcomp_acgt : forall w, Forall acgt w -> Forall acgt (revcomp w).
Proof.
  intros w H. unfold revcomp. apply Forall_rev. apply Forall_map.
  eapply Forall_impl; [| exact H]. intros a Ha. apply rc_base_lt. exact Ha.
Qed.

Lemma revcomp_invol : forall w, Forall acgt w -> revcomp (revcomp w) = w.
Proof.
  intros w H. unfold revcomp. rewrite map_rev, rev_involutive, map_map.
  induction H as [| a w Ha Hw IH]; [reflexivity |].
  cbn [map]. rewrite IH. f_equal. apply rc_base_invol. exact Ha.
Qed.

(* ------------------------------------------------------------------ *)
(* the state after feeding symbols                                     *)

Lemma feed_snoc : forall x l s, feed x (l ++ [s]) = insert_canonical (feed x l) s.
Proof. intros. unfold feed. rewrite fold_left_app. reflexivity. Qed.

Lemma feed_app : forall x a b, feed x (a ++ b) = feed (feed x a) b.
Proof. intros. unfold feed. apply fold_left_app. Qed.

Lemma kmax_insert : forall x s, kmax (insert_canonical x s) = kmax x.
Proof. intros. unfold insert_canonical. destruct (kcur x =? kmax x); reflexivity. Qed.

Lemma kmax_feed : forall l x, kmax (feed x l) = kmax x.
Proof.
  induction l as [| s l IH]; intro x; [reflexivity |].
  unfold feed. cbn [fold_left]. fold (feed (insert_canonical x s) l).
  rewrite IH. apply kmax_insert.
Qed.

(* fill-up phase: n symbols seen, n <= k *)
Definition st_fill (k n P R : N) : kmer :=
  mkKmer (P * 2 ^ (64 - 2 * n)) (R * 4 ^ (k - n) * 2 ^ (kshift k)) n k.
(* window full *)
Definition st_full (k : N) (w : list N) : kmer :=
  mkKmer (left_aligned k w) (left_aligned k (revcomp w)) k k.

Lemma st_fill_full : forall k w, lenN w = k ->
  st_fill k (lenN w) (packed w) (packed (revcomp w)) = st_full k w.
Proof.
  intros k w H. unfold st_fill, st_full, left_aligned. rewrite H.
  rewrite N.sub_diag, N.pow_0_r, N.mul_1_r. reflexivity.
Qed.

(* one insertion during fill-up; also: no overflow in the two sums *)
Lemma insert_fill : forall k n P R s, kdom k -> n < k -> P < 4 ^ n -> R < 4 ^ n -> s < 4 ->
  insert_canonical (st_fill k n P R) s
  = st_fill k (n + 1) (P * 4 + s) (kmer_rc_base s * 4 ^ n + R).
Proof.
  intros k n P R s Hk Hn HP HR Hs. pose proof Hk as [H1 H2].
  unfold insert_canonical, st_fill. cbn [kcur kmax kdir krc].
  destruct (N.eqb_spec n k) as [E | _]; [lia |].
  f_equal.
  - unfold dir_step_fill.
    destruct (dir_fill_sum n P s ltac:(lia) HP Hs) as [E B].
    rewrite E. unfold wrap64. rewrite two64_pow. apply N.mod_small. exact B.
  - assert (E4 : 4 ^ k = 4 ^ n * 4 ^ (k - n)).
    { rewrite <- N.pow_add_r. f_equal. lia. }
    assert (EG : 4 ^ (k - n) = 4 * 4 ^ (k - (n + 1))).
    { rewrite <- pow4_succ. f_equal. lia. }
    assert (EF : 4 ^ (k - 1) = 4 ^ n * 4 ^ (k - (n + 1))).
    { rewrite <- N.pow_add_r. f_equal. lia. }
    pose proof (pow4_pos n) as Hpn. pose proof (pow4_pos (k - (n + 1))) as Hpg.
    assert (HR' : R * 4 ^ (k - n) < 4 ^ k) by (rewrite E4; nia).
    destruct (rc_sum k (R * 4 ^ (k - n)) s Hk HR' Hs) as [_ E].
    rewrite E. f_equal. rewrite EF, EG.
    set (G := 4 ^ (k - (n + 1))) in *. set (F := 4 ^ n) in *.
    replace (R * (4 * G)) with (R * G * 4) by ring.
    rewrite N.div_mul by discriminate. ring.
Qed.

Lemma feed_fill : forall k l, kdom k -> Forall acgt l -> lenN l <= k ->
  feed (kmer_new k) l = st_fill k (lenN l) (packed l) (packed (revcomp l)).
Proof.
  intros k l Hk. induction l as [| s l IH] using rev_ind; intros Hl Hlen.
  - unfold feed, st_fill, kmer_new. cbn [fold_left].
    change (revcomp []) with (@nil N). rewrite packed_nil, lenN_nil, !N.mul_0_l. reflexivity.
  - apply Forall_app in Hl. destruct Hl as [Hl Hs]. inversion Hs as [| ? ? Hs' _]; subst.
    rewrite lenN_app, lenN_cons, lenN_nil in Hlen |- *. rewrite N.add_0_l in *.
    rewrite feed_snoc, IH by (assumption || lia).
    rewrite insert_fill; try assumption; try lia.
    + rewrite packed_snoc, revcomp_snoc, packed_cons, revcomp_lenN. reflexivity.
    + apply packed_lt. exact Hl.
    + rewrite <- (revcomp_lenN l). apply packed_lt. apply revcomp_acgt. exact Hl.
Qed.

(* one insertion into a full window *)
Lemma insert_full : forall k a w s, kdom k -> lenN (a :: w) = k ->
  Forall acgt (a :: w) -> s < 4 ->
  insert_canonical (st_full k (a :: w)) s = st_full k (w ++ [s]).
Proof.
  intros k a w s Hk Hlen Hw Hs. pose proof Hk as [H1 H2].
  pose proof (Forall_inv Hw) as Ha. pose proof (Forall_inv_tail Hw) as Hw'. unfold acgt in Ha.
  rewrite lenN_cons in Hlen.
  assert (Hn : lenN w = k - 1) by lia.
  pose proof (packed_lt w Hw') as HPw. rewrite Hn in HPw.
  pose proof (packed_lt (revcomp w) (revcomp_acgt w Hw')) as HRw.
  rewrite revcomp_lenN, Hn in HRw.
  pose proof (pow4_pred k H1) as H4. pose proof (pow4_pos (k - 1)) as HF.
  unfold insert_canonical, st_full, left_aligned. cbn [kcur kmax kdir krc].
  rewrite N.eqb_refl. f_equal.
  - unfold dir_step_full.
    assert (HP : packed (a :: w) < 4 ^ k).
    { rewrite packed_cons, Hn, H4. nia. }
    destruct (dir_full_sum k (packed (a :: w)) s Hk HP Hs) as [E B].
    rewrite E. unfold wrap64. rewrite two64_pow, (N.mod_small _ _ B). f_equal.
    rewrite packed_snoc. f_equal. f_equal.
    rewrite packed_cons, Hn. rewrite N.add_comm, N.mod_add by lia.
    apply N.mod_small. exact HPw.
  - assert (HR : packed (revcomp (a :: w)) < 4 ^ k).
    { pose proof (packed_lt (revcomp (a :: w)) (revcomp_acgt _ Hw)) as HR.
      rewrite revcomp_lenN, lenN_cons, Hlen in HR. exact HR. }
    destruct (rc_sum k (packed (revcomp (a :: w))) s Hk HR Hs) as [_ E].
    rewrite E. f_equal.
    rewrite revcomp_snoc, packed_cons, revcomp_lenN, Hn.
    rewrite revcomp_cons, packed_snoc.
    rewrite N.div_add_l by discriminate.
    rewrite (N.div_small (kmer_rc_base a) 4) by (apply rc_base_lt; exact Ha).
    ring.
Qed.

Lemma feed_full : forall k pre w, kdom k -> Forall acgt pre -> Forall acgt w -> lenN w = k ->
  feed (kmer_new k) (pre ++ w) = st_full k w.
Proof.
  intros k pre. induction pre as [| a pre IH] using rev_ind; intros w Hk Hpre Hw Hlen.
  - cbn [app]. rewrite feed_fill by (assumption || lia). apply st_fill_full. exact Hlen.
  - apply Forall_app in Hpre. destruct Hpre as [Hpre Ha].
    inversion Ha as [| ? ? Ha' _]; subst.
    assert (Hne : w <> []).
    { intro E. subst w. rewrite lenN_nil in Hk. destruct Hk. lia. }
    destruct (exists_last Hne) as [w' [s E]]. subst w.
    apply Forall_app in Hw. destruct Hw as [Hw' Hs]. inversion Hs as [| ? ? Hs' _]; subst.
    rewrite <- app_assoc. cbn [app].
    replace (pre ++ a :: w' ++ [s]) with ((pre ++ a :: w') ++ [s])
      by (rewrite <- app_assoc; reflexivity).
    rewrite feed_snoc.
    assert (Hl' : lenN (a :: w') = lenN (w' ++ [s])).
    { rewrite lenN_app, !lenN_cons, lenN_nil. lia. }
    rewrite (IH (a :: w') Hk Hpre (Forall_cons a Ha' Hw') Hl').
    apply insert_full; try assumption. constructor; assumption.
Qed.

(* ------------------------------------------------------------------ *)
(* statements 1-4                                                      *)

Lemma fill_phase_proof : forall k l, 1 <= k <= 32 -> Forall acgt l -> lenN l <= k ->
  let x := feed (kmer_new k) l in
  kdir x = packed l * 2 ^ (64 - 2 * lenN l) /\
  krc x = packed (revcomp l) * 2 ^ (64 - 2 * lenN l) /\
  kcur x = lenN l /\ kmax x = k /\ is_full x = (lenN l =? k).
Proof.
  intros k l Hk Hl Hlen. cbv zeta. rewrite (feed_fill k l Hk Hl Hlen).
  unfold st_fill, is_full. cbn [kdir krc kcur kmax].
  repeat split; try reflexivity.
  rewrite (pow_shift_split k (lenN l)) by (destruct Hk; lia).
  unfold kshift. ring.
Qed.

Lemma sliding_eq_scratch_proof : forall k pre w, 1 <= k <= 32 ->
  Forall acgt pre -> Forall acgt w -> lenN w = k ->
  let x := feed (kmer_new k) (pre ++ w) in
  kdir x = left_aligned k w /\ krc x = left_aligned k (revcomp w) /\
  kcur x = k /\ kmax x = k /\ is_full x = true.
Proof.
  intros k pre w Hk Hpre Hw Hlen. cbv zeta. rewrite (feed_full k pre w Hk Hpre Hw Hlen).
  unfold st_full, is_full. cbn [kdir krc kcur kmax]. rewrite N.eqb_refl.
  repeat split; reflexivity.
Qed.

Lemma canonical_is_min_proof : forall k pre w, 1 <= k <= 32 ->
  Forall acgt pre -> Forall acgt w -> lenN w = k ->
  data_canonical (feed (kmer_new k) (pre ++ w))
  = N.min (left_aligned k w) (left_aligned k (revcomp w)).
Proof.
  intros k pre w Hk Hpre Hw Hlen. rewrite (feed_full k pre w Hk Hpre Hw Hlen). reflexivity.
Qed.

Lemma canonical_strand_symmetric_proof : forall k pre pre' w, 1 <= k <= 32 ->
  Forall acgt pre -> Forall acgt pre' -> Forall acgt w -> lenN w = k ->
  data_canonical (feed (kmer_new k) (pre ++ w))
  = data_canonical (feed (kmer_new k) (pre' ++ revcomp w)).
Proof.
  intros k pre pre' w Hk Hpre Hpre' Hw Hlen.
  rewrite (canonical_is_min_proof k pre w Hk Hpre Hw Hlen).
  rewrite (canonical_is_min_proof k pre' (revcomp w) Hk Hpre' (revcomp_acgt w Hw))
    by (rewrite revcomp_lenN; exact Hlen).
  rewrite (revcomp_invol w Hw). apply N.min_comm.
Qed.

Lemma dir_flag_iff_le_proof : forall k pre w, 1 <= k <= 32 ->
  Forall acgt pre -> Forall acgt w -> lenN w = k ->
  (is_dir_oriented (feed (kmer_new k) (pre ++ w)) = true
   <-> left_aligned k w <= left_aligned k (revcomp w)).
Proof.
  intros k pre w Hk Hpre Hw Hlen. rewrite (feed_full k pre w Hk Hpre Hw Hlen).
  unfold is_dir_oriented, st_full. cbn [kdir krc]. apply N.leb_le.
Qed.

(* the ordering of the left-aligned values is the ordering of the packings *)
Lemma left_aligned_le_iff : forall k a b,
  left_aligned k a <= left_aligned k b <-> packed a <= packed b.
Proof.
  intros k a b. unfold left_aligned. pose proof (pow2_pos (kshift k)). split; intro; nia.
Qed.

(* ------------------------------------------------------------------ *)
(* 7. no traps: the u64 sums stay below 2^64, 64 - 2k does not underflow *)

Lemma reach_cases : forall k l, kdom k -> Forall acgt l ->
  let x := feed (kmer_new k) l in
  kmax x = k /\
  ((kcur x = k /\ exists P R, P < 4 ^ k /\ R < 4 ^ k /\
      kdir x = P * 2 ^ (kshift k) /\ krc x = R * 2 ^ (kshift k))
   \/ (kcur x < k /\ exists P R, P < 4 ^ kcur x /\ R < 4 ^ k /\
      kdir x = P * 2 ^ (64 - 2 * kcur x) /\ krc x = R * 2 ^ (kshift k))).
Proof.
  intros k l Hk Hl. cbv zeta. pose proof Hk as [H1 H2].
  destruct (N.le_gt_cases k (lenN l)) as [Hge | Hlt].
  - (* at least k symbols: split off the last k *)
    set (m := (length l - N.to_nat k)%nat).
    assert (El : l = firstn m l ++ skipn m l) by (symmetry; apply firstn_skipn).
    assert (Hlen : lenN (skipn m l) = k).
    { unfold lenN in *. rewrite skipn_length. unfold m. lia. }
    rewrite El in Hl. apply Forall_app in Hl. destruct Hl as [Ha Hb].
    rewrite El, (feed_full k _ _ Hk Ha Hb Hlen).
    unfold st_full, left_aligned. cbn [kdir krc kcur kmax]. split; [reflexivity |].
    left. split; [reflexivity |].
    exists (packed (skipn m l)), (packed (revcomp (skipn m l))).
    repeat split.
    + pose proof (packed_lt _ Hb) as X. rewrite Hlen in X. exact X.
    + pose proof (packed_lt _ (revcomp_acgt _ Hb)) as X. rewrite revcomp_lenN, Hlen in X. exact X.
  - rewrite (feed_fill k l Hk Hl) by lia.
    unfold st_fill. cbn [kdir krc kcur kmax]. split; [reflexivity |].
    right. split; [exact Hlt |].
    exists (packed l), (packed (revcomp l) * 4 ^ (k - lenN l)).
    repeat split.
    + apply packed_lt. exact Hl.
    + assert (E4 : 4 ^ k = 4 ^ lenN l * 4 ^ (k - lenN l)).
      { rewrite <- N.pow_add_r. f_equal. lia. }
      pose proof (packed_lt (revcomp l) (revcomp_acgt l Hl)) as HR. rewrite revcomp_lenN in HR.
      pose proof (pow4_pos (k - lenN l)). rewrite E4. nia.
Qed.

Lemma no_trap_dir_step_proof : forall k l s, 1 <= k <= 32 -> Forall acgt l -> acgt s ->
  let x := feed (kmer_new k) l in
  2 * k <= 64 /\ kshift k < 64 /\
  (kcur x = kmax x ->
     shl64 (kdir x) 2 + shl64 s (kshift k) < two64) /\
  (kcur x <> kmax x ->
     kcur x + 1 <= kmax x /\ 2 * (kcur x + 1) <= 64 /\ 64 - 2 * (kcur x + 1) < 64 /\
     kdir x + shl64 s (64 - 2 * (kcur x + 1)) < two64).
Proof.
  intros k l s Hk Hl Hs. cbv zeta. pose proof Hk as [H1 H2]. unfold acgt in Hs.
  destruct (reach_cases k l Hk Hl) as [Hm [[Hc [P [R [HP [HR [Ed Er]]]]]] | [Hc [P [R [HP [HR [Ed Er]]]]]]]].
  - rewrite Hm, Hc, Ed.
    split; [lia |]. split; [unfold kshift; lia |]. split.
    + intros _. destruct (dir_full_sum k P s Hk HP Hs) as [E B]. rewrite E, two64_pow. exact B.
    + intro C. exfalso. apply C. reflexivity.
  - rewrite Hm, Ed.
    split; [lia |]. split; [unfold kshift; lia |]. split.
    + intro C. exfalso. lia.
    + intros _. split; [lia |]. split; [lia |]. split; [lia |].
      destruct (dir_fill_sum (kcur (feed (kmer_new k) l)) P s ltac:(lia) HP Hs) as [E B].
      rewrite E, two64_pow. exact B.
Qed.

Lemma no_trap_rc_step_proof : forall k l s, 1 <= k <= 32 -> Forall acgt l -> acgt s ->
  let x := feed (kmer_new k) l in
  shr64 (krc x) 2 + shl64 (kmer_rc_base s) 62 < two64.
Proof.
  intros k l s Hk Hl Hs. cbv zeta. unfold acgt in Hs.
  destruct (reach_cases k l Hk Hl) as [Hm [[Hc [P [R [HP [HR [Ed Er]]]]]] | [Hc [P [R [HP [HR [Ed Er]]]]]]]];
    rewrite Er, two64_pow; apply (rc_sum k R s Hk HR Hs).
Qed.

(* consequently the wrap64 around the sums is the identity *)
Lemma insert_no_wrap_proof : forall k l s, 1 <= k <= 32 -> Forall acgt l -> acgt s ->
  let x := feed (kmer_new k) l in
  (kcur x = kmax x -> dir_step_full k (kdir x) s = shl64 (kdir x) 2 + shl64 s (kshift k)) /\
  (kcur x <> kmax x ->
     dir_step_fill (kdir x) (kcur x + 1) s = kdir x + shl64 s (64 - 2 * (kcur x + 1))) /\
  rc_step k (krc x) s = N.land (shr64 (krc x) 2 + shl64 (kmer_rc_base s) 62) (kmask k).
Proof.
  intros k l s Hk Hl Hs. cbv zeta.
  destruct (no_trap_dir_step_proof k l s Hk Hl Hs) as [_ [_ [Hf Hn]]].
  pose proof (no_trap_rc_step_proof k l s Hk Hl Hs) as Hr. cbv zeta in *.
  split; [| split].
  - intro E. unfold dir_step_full, wrap64. apply N.mod_small. apply Hf. exact E.
  - intro E. unfold dir_step_fill, wrap64. apply N.mod_small. apply Hn. exact E.
  - unfold rc_step, wrap64. rewrite (N.mod_small _ _ Hr). reflexivity.
Qed.

(* ------------------------------------------------------------------ *)
(* 5. reverse_complement_kmer / canonical_kmer on left-aligned values  *)

Lemma packv_app : forall x y acc, packv acc (x ++ y) = packv (packv acc x) y.
Proof. induction x as [| a x IH]; intros; [reflexivity | cbn [app packv]; apply IH]. Qed.

Lemma packed_app : forall x y, packed (x ++ y) = packed x * 4 ^ lenN y + packed y.
Proof. intros. unfold packed at 1. rewrite packv_app, packv_acc. reflexivity. Qed.

Lemma rck_loop_spec : forall k u v res, kdom k -> Forall acgt u -> Forall acgt v ->
  lenN u + lenN v = k ->
  res = packed (revcomp v) * 4 ^ lenN u * 2 ^ (kshift k) ->
  rck_loop (left_aligned k (u ++ v)) (kshift k) k (length v) (length u) res
  = left_aligned k (revcomp (u ++ v)).
Proof.
  intros k u. induction u as [| a u IH] using rev_ind; intros v res Hk Hu Hv Hlen Hres.
  - cbn [length rck_loop app]. subst res. rewrite lenN_nil, N.pow_0_r, N.mul_1_r. reflexivity.
  - apply Forall_app in Hu. destruct Hu as [Hu Ha]. apply Forall_inv in Ha. unfold acgt in Ha.
    rewrite lenN_app, lenN_cons, lenN_nil, N.add_0_l in Hlen, Hres.
    pose proof Hk as [H1 H2].
    rewrite app_length. cbn [length]. rewrite Nat.add_1_r. cbn [rck_loop].
    fold (lenN v).
    rewrite <- app_assoc. cbn [app].
    assert (Hsh : kshift k + 2 * lenN u + 2 * lenN v + 2 = 64) by (unfold kshift; lia).
    pose proof (rc_base_lt a Ha) as Hc.
    (* the extracted base is a *)
    assert (Eb : N.land (shr64 (left_aligned k (u ++ a :: v)) (kshift k + 2 * lenN v)) 3 = a).
    { unfold shr64, left_aligned. rewrite N.shiftr_div_pow2.
      rewrite N.pow_add_r, <- four_pow.
      rewrite (N.mul_comm (2 ^ kshift k) (4 ^ lenN v)).
      pose proof (pow2_pos (kshift k)). pose proof (pow4_pos (lenN v)).
      rewrite N.div_mul_cancel_r by lia.
      replace (u ++ a :: v) with ((u ++ [a]) ++ v) by (rewrite <- app_assoc; reflexivity).
      rewrite packed_app, packed_snoc.
      rewrite N.div_add_l by lia.
      rewrite (N.div_small (packed v)) by (apply packed_lt; exact Hv).
      rewrite N.add_0_r.
      change 3 with (N.ones 2). rewrite N.land_ones. change (2 ^ 2) with 4.
      rewrite N.add_comm, N.mod_add by discriminate. apply N.mod_small. exact Ha. }
    rewrite Eb.
    (* the or-ed piece does not overlap what is already there *)
    assert (Ep : shl64 (kmer_rc_base a) (kshift k + 2 * (k - 1 - lenN v))
                 = kmer_rc_base a * 2 ^ (kshift k + 2 * lenN u)).
    { replace (k - 1 - lenN v) with (lenN u) by lia.
      apply shl64_small.
      apply N.lt_le_trans with (4 * 2 ^ (kshift k + 2 * lenN u)).
      - pose proof (pow2_pos (kshift k + 2 * lenN u)). nia.
      - change 4 with (2 ^ 2). rewrite <- N.pow_add_r. apply N.pow_le_mono_r; [discriminate | lia]. }
    rewrite Ep.
    assert (Er : res = packed (revcomp v) * 2 ^ (kshift k + 2 * lenN u + 2)).
    { rewrite Hres, four_pow, <- N.mul_assoc, <- N.pow_add_r. f_equal. f_equal. lia. }
    rewrite Er at 1.
    rewrite lor_disjoint_add.
    2:{ rewrite (N.pow_add_r 2 (kshift k + 2 * lenN u) 2). change (2 ^ 2) with 4.
        pose proof (pow2_pos (kshift k + 2 * lenN u)). nia. }
    change (S (length v)) with (length (a :: v)).
    apply IH; try assumption.
    + constructor; assumption.
    + rewrite lenN_cons. lia.
    + rewrite revcomp_cons, packed_snoc.
      rewrite !N.pow_add_r, <- !four_pow. change (2 ^ 2) with 4. ring.
Qed.

Lemma rc_kmer_spec_proof : forall k w, 1 <= k <= 32 -> Forall acgt w -> lenN w = k ->
  reverse_complement_kmer (left_aligned k w) k = left_aligned k (revcomp w).
Proof.
  intros k w Hk Hw Hlen. unfold reverse_complement_kmer.
  replace (N.to_nat k) with (length w) by (unfold lenN in Hlen; lia).
  rewrite <- (app_nil_r w) at 1 3.
  change 0%nat with (length (@nil N)).
  apply rck_loop_spec; try assumption.
  - constructor.
  - rewrite lenN_nil. lia.
  - change (revcomp []) with (@nil N). rewrite packed_nil. reflexivity.
Qed.

Lemma rc_kmer_involutive_proof : forall k w, 1 <= k <= 32 -> Forall acgt w -> lenN w = k ->
  reverse_complement_kmer (reverse_complement_kmer (left_aligned k w) k) k = left_aligned k w.
Proof.
  intros k w Hk Hw Hlen.
  rewrite (rc_kmer_spec_proof k w Hk Hw Hlen).
  rewrite (rc_kmer_spec_proof k (revcomp w) Hk (revcomp_acgt w Hw))
    by (rewrite revcomp_lenN; exact Hlen).
  rewrite (revcomp_invol w Hw). reflexivity.
Qed.

Lemma canonical_kmer_spec_proof : forall k w, 1 <= k <= 32 -> Forall acgt w -> lenN w = k ->
  canonical_kmer (left_aligned k w) k = N.min (left_aligned k w) (left_aligned k (revcomp w)).
Proof.
  intros k w Hk Hw Hlen. unfold canonical_kmer.
  rewrite (rc_kmer_spec_proof k w Hk Hw Hlen). reflexivity.
Qed.

Lemma canonical_kmer_strand_symmetric_proof : forall k w, 1 <= k <= 32 -> Forall acgt w ->
  lenN w = k ->
  canonical_kmer (left_aligned k (revcomp w)) k = canonical_kmer (left_aligned k w) k.
Proof.
  intros k w Hk Hw Hlen.
  rewrite (canonical_kmer_spec_proof k w Hk Hw Hlen).
  rewrite (canonical_kmer_spec_proof k (revcomp w) Hk (revcomp_acgt w Hw))
    by (rewrite revcomp_lenN; exact Hlen).
  rewrite (revcomp_invol w Hw). apply N.min_comm.
Qed.

(* ------------------------------------------------------------------ *)
(* 6. enumerate_kmers                                                  *)

Lemma lastn_all : forall A n (l : list A), (length l <= n)%nat -> lastn n l = l.
Proof.
  intros A n l H. unfold lastn. replace (length l - n)%nat with 0%nat by lia. reflexivity.
Qed.

Lemma lastn_snoc : forall A n (l : list A) b, (n <= length l)%nat ->
  lastn (S n) (l ++ [b]) = lastn n l ++ [b].
Proof.
  intros A n l b H. unfold lastn. rewrite app_length. cbn [length].
  replace (length l + 1 - S n)%nat with (length l - n)%nat by lia.
  rewrite skipn_app. replace (length l - n - length l)%nat with 0%nat by lia. reflexivity.
Qed.

Lemma skipn_S_tl : forall A m (l : list A), skipn (S m) l = tl (skipn m l).
Proof.
  intros A m. induction m as [| m IH]; intro l.
  - destruct l; reflexivity.
  - destruct l as [| a l]; [reflexivity |]. cbn [skipn] in *. apply IH.
Qed.

Lemma lastn_tl : forall A n (l : list A), (S n <= length l)%nat ->
  lastn n l = tl (lastn (S n) l).
Proof.
  intros A n l H. unfold lastn.
  replace (length l - n)%nat with (S (length l - S n)) by lia. apply skipn_S_tl.
Qed.

Lemma lastn_length : forall A n (l : list A), length (lastn n l) = Nat.min n (length l).
Proof. intros. unfold lastn. rewrite skipn_length. lia. Qed.

Lemma acgtb_forall : forall w, forallb acgtb w = true <-> Forall acgt w.
Proof.
  intro w. rewrite forallb_forall, Forall_forall.
  split; intros H x Hx; specialize (H x Hx); unfold acgtb, acgt in *; lia.
Qed.

Lemma windows_short : forall k c, (length c < k)%nat -> windows k c = [].
Proof.
  intros k c. induction c as [| a c IH]; intro H; [reflexivity |].
  cbn [windows]. destruct (Nat.leb_spec k (length (a :: c))) as [L | L]; [lia |].
  cbn [app]. apply IH. cbn [length] in H. lia.
Qed.

(* a window that contains a non-ACGT symbol is filtered out *)
Lemma windows_skip_bad : forall k t b l, (length t < k)%nat -> acgtb b = false ->
  filter (forallb acgtb) (windows k (t ++ b :: l)) = filter (forallb acgtb) (windows k l).
Proof.
  intros k t b l. induction t as [| a t IH]; intros Hk Hb.
  - cbn [app windows]. destruct (k <=? length (b :: l))%nat; [| reflexivity].
    cbn [app filter]. destruct k as [| k]; [inversion Hk |].
    cbn [firstn forallb]. rewrite Hb. reflexivity.
  - cbn [app windows]. cbn [length] in Hk.
    destruct (k <=? length (a :: t ++ b :: l))%nat.
    + cbn [app filter].
      assert (E : forallb acgtb (firstn k (a :: t ++ b :: l)) = false).
      { change (a :: t ++ b :: l) with ((a :: t) ++ b :: l).
        rewrite firstn_app. rewrite forallb_app.
        replace (k - length (a :: t))%nat with (S (k - length (a :: t) - 1)) by (cbn [length]; lia).
        cbn [firstn forallb]. rewrite Hb. apply andb_false_r. }
      rewrite E. apply IH; [lia | exact Hb].
    + cbn [app]. apply IH; [lia | exact Hb].
Qed.

(* the first window of w ++ l, |w| = k *)
Lemma windows_first : forall k w l, (1 <= k)%nat -> length w = k ->
  windows k (w ++ l) = w :: windows k (tl w ++ l).
Proof.
  intros k w l Hk Hw. destruct w as [| a w]; [cbn [length] in Hw; lia |].
  cbn [app windows tl].
  destruct (Nat.leb_spec k (length (a :: w ++ l))) as [L | L].
  - cbn [app]. f_equal.
    change (a :: w ++ l) with ((a :: w) ++ l). rewrite firstn_app, Hw, Nat.sub_diag.
    cbn [firstn]. rewrite app_nil_r. rewrite <- Hw. apply firstn_all.
  - cbn [length] in L, Hw. rewrite app_length in L. lia.
Qed.

Lemma kmax_new_feed : forall k r, kmax (feed (kmer_new k) r) = k.
Proof. intros. rewrite kmax_feed. reflexivity. Qed.

(* state after any run r of ACGT symbols *)
Lemma feed_ge : forall k r, kdom k -> Forall acgt r -> k <= lenN r ->
  feed (kmer_new k) r = st_full k (lastn (N.to_nat k) r).
Proof.
  intros k r Hk Hr Hge. unfold lastn.
  set (m := (length r - N.to_nat k)%nat).
  assert (Hlen : lenN (skipn m r) = k).
  { unfold lenN in *. rewrite skipn_length. unfold m. lia. }
  rewrite <- (firstn_skipn m r) in Hr. apply Forall_app in Hr. destruct Hr as [Ha Hb].
  rewrite <- (firstn_skipn m r) at 1. apply feed_full; assumption.
Qed.

Lemma enum_loop_spec : forall k k' l r, kdom k -> N.to_nat k = S k' -> Forall acgt r ->
  enum_loop (feed (kmer_new k) r) l
  = map (canon k) (filter (forallb acgtb) (windows (S k') (lastn k' r ++ l))).
Proof.
  intros k k' l. induction l as [| b l IH]; intros r Hk Hk' Hr.
  - cbn [enum_loop]. rewrite app_nil_r. rewrite windows_short; [reflexivity |].
    rewrite lastn_length. lia.
  - cbn [enum_loop]. destruct (N.ltb_spec 3 b) as [Hb | Hb].
    + unfold kmer_reset. rewrite kmax_new_feed.
      change (mkKmer 0 0 0 k) with (feed (kmer_new k) []).
      rewrite (IH [] Hk Hk' (Forall_nil _)).
      rewrite windows_skip_bad.
      * reflexivity.
      * rewrite lastn_length. lia.
      * unfold acgtb. apply N.ltb_ge. lia.
    + assert (Hb' : acgt b) by (unfold acgt; lia).
      rewrite <- feed_snoc.
      assert (Hr' : Forall acgt (r ++ [b])).
      { apply Forall_app. split; [exact Hr | constructor; [exact Hb' | constructor]]. }
      rewrite (IH (r ++ [b]) Hk Hk' Hr').
      destruct (N.lt_ge_cases (lenN (r ++ [b])) k) as [Hlt | Hge].
      * (* still filling *)
        assert (Ef : is_full (feed (kmer_new k) (r ++ [b])) = false).
        { rewrite (feed_fill k _ Hk Hr') by lia. unfold is_full, st_fill. cbn [kcur kmax].
          apply N.eqb_neq. lia. }
        rewrite Ef.
        assert (Hl : (length (r ++ [b]) <= k')%nat) by (unfold lenN in Hlt; lia).
        rewrite (lastn_all _ k' (r ++ [b]) Hl).
        rewrite (lastn_all _ k' r) by (rewrite app_length in Hl; cbn [length] in Hl; lia).
        rewrite <- app_assoc. reflexivity.
      * (* window full *)
        rewrite (feed_ge k _ Hk Hr' Hge).
        unfold is_full at 1, data_canonical, st_full at 1 2 3. cbn [kcur kmax kdir krc].
        rewrite N.eqb_refl. rewrite Hk'.
        assert (Hl : (k' <= length r)%nat).
        { unfold lenN in Hge. rewrite app_length in Hge. cbn [length] in Hge. lia. }
        rewrite (lastn_snoc _ k' r b Hl).
        set (w := lastn k' r ++ [b]).
        assert (Hw : length w = S k').
        { unfold w. rewrite app_length, lastn_length. cbn [length]. lia. }
        replace (lastn k' r ++ b :: l) with (w ++ l)
          by (unfold w; rewrite <- app_assoc; reflexivity).
        rewrite (windows_first (S k') w l ltac:(lia) Hw).
        cbn [filter].
        assert (Hwa : forallb acgtb w = true).
        { apply acgtb_forall. unfold w. apply Forall_app. split.
          - unfold lastn. rewrite <- (firstn_skipn (length r - k') r) in Hr.
            apply Forall_app in Hr. apply Hr.
          - constructor; [exact Hb' | constructor]. }
        rewrite Hwa. cbn [map]. f_equal.
        f_equal. f_equal. f_equal.
        rewrite (lastn_tl _ k' (r ++ [b])) by (rewrite app_length; cbn [length]; lia).
        rewrite (lastn_snoc _ k' r b Hl). reflexivity.
Qed.

Lemma kmers_spec_proof : forall k c, 1 <= k <= 32 -> enumerate_kmers c k = kmers_spec k c.
Proof.
  intros k c Hk. unfold enumerate_kmers, kmers_spec.
  destruct (N.ltb_spec (lenN c) k) as [Hlt | Hge].
  - rewrite windows_short; [reflexivity |]. unfold lenN in Hlt. lia.
  - assert (Hk' : N.to_nat k = S (Nat.pred (N.to_nat k))) by (destruct Hk; lia).
    change (kmer_new k) with (feed (kmer_new k) []).
    rewrite (enum_loop_spec k _ c [] Hk Hk' (Forall_nil _)).
    rewrite <- Hk'. reflexivity.
Qed.

Lemma windows_restart : forall kn pre b post, (1 <= kn)%nat -> acgtb b = false ->
  filter (forallb acgtb) (windows kn (pre ++ b :: post))
  = filter (forallb acgtb) (windows kn pre) ++ filter (forallb acgtb) (windows kn post).
Proof.
  intros kn pre b post Hk1 Hbb. induction pre as [| a pre IH].
  - cbn [app windows filter]. apply (windows_skip_bad kn [] b post); [cbn [length]; lia | exact Hbb].
  - cbn [app windows]. rewrite !filter_app, IH.
    assert (E : filter (forallb acgtb)
                  (if (kn <=? length (a :: pre ++ b :: post))%nat
                   then [firstn kn (a :: pre ++ b :: post)] else [])
                = filter (forallb acgtb)
                  (if (kn <=? length (a :: pre))%nat then [firstn kn (a :: pre)] else [])).
    { destruct (Nat.leb_spec kn (length (a :: pre))) as [L | L].
      + (* the window lies inside pre *)
        assert (L' : (kn <= length (a :: pre ++ b :: post))%nat).
        { cbn [length] in *. rewrite app_length. lia. }
        apply Nat.leb_le in L'. rewrite L'.
        change (a :: pre ++ b :: post) with ((a :: pre) ++ b :: post).
        rewrite firstn_app. replace (kn - length (a :: pre))%nat with 0%nat by lia.
        cbn [firstn]. rewrite app_nil_r. reflexivity.
      + (* the window would contain b *)
        destruct (kn <=? length (a :: pre ++ b :: post))%nat; [| reflexivity].
        cbn [filter].
        change (a :: pre ++ b :: post) with ((a :: pre) ++ b :: post).
        rewrite firstn_app, forallb_app.
        replace (kn - length (a :: pre))%nat with (S (kn - length (a :: pre) - 1)) by lia.
        cbn [firstn forallb]. rewrite Hbb, andb_false_r. reflexivity. }
    rewrite E, app_assoc. reflexivity.
Qed.

(* a symbol > 3 restarts the window: what precedes it has no influence on what follows *)
Lemma non_acgt_restarts_proof : forall k pre b post, 1 <= k <= 32 -> 3 < b ->
  enumerate_kmers (pre ++ b :: post) k = enumerate_kmers pre k ++ enumerate_kmers post k.
Proof.
  intros k pre b post Hk Hb. rewrite !(kmers_spec_proof _ _ Hk). unfold kmers_spec.
  rewrite <- map_app. apply (f_equal (map (canon k))).
  apply windows_restart; [destruct Hk; lia | unfold acgtb; apply N.ltb_ge; lia].
Qed.
