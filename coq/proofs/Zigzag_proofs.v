(* Zigzag_proofs.v - zigzag with prediction: closed form and round trip on x, p < 2^63; i64 variant on |x| < 2^62 *)
From Ragc Require Import Mach Zigzag.
Require Import Lia ZifyBool ZifyN ZifyNat.
Ltac Zify.zify_post_hook ::= Z.div_mod_to_equations.
Open Scope N_scope.
Arguments N.add : simpl never.
Arguments N.sub : simpl never.
Arguments N.mul : simpl never.
Arguments N.land : simpl never.
Arguments N.div : simpl never.
Arguments N.modulo : simpl never.

Definition two63 : N := 9223372036854775808.

(* the value zigzag_encode computes when nothing overflows *)
Definition zz (x p : N) : N :=
  if x <? p then 2 * (p - x) - 1 else if x <? 2 * p then 2 * (x - p) else x.

Lemma land1 v : N.land v 1 = v mod 2.
Proof. change 1 with (N.ones 1) at 1. rewrite N.land_ones. reflexivity. Qed.

Lemma mul2_ok a : 2 * a < two64 -> mul_u64 2 a = Some (2 * a).
Proof. intro H. unfold mul_u64. replace (2 * a <? two64) with true by (symmetry; apply N.ltb_lt; exact H). reflexivity. Qed.

Lemma zigzag_encode_spec x p : x < two63 -> p < two63 -> zigzag_encode x p = Ok (zz x p).
Proof.
  unfold two63. intros Hx Hp. unfold zigzag_encode, zz.
  destruct (N.ltb_spec x p).
  - rewrite mul2_ok by (unfold two64; lia). cbn [ou64 obnd]. unfold sub_u64.
    replace (1 <=? 2 * (p - x)) with true by (symmetry; apply N.leb_le; lia). reflexivity.
  - rewrite mul2_ok by (unfold two64; lia). cbn [ou64 obnd].
    destruct (N.ltb_spec x (2 * p)).
    + rewrite mul2_ok by (unfold two64; lia). reflexivity.
    + reflexivity.
Qed.

Lemma zigzag_decode_zz x p : x < two63 -> p < two63 -> zigzag_decode (zz x p) p = Ok x.
Proof.
  unfold two63. intros Hx Hp. unfold zigzag_decode, zz.
  rewrite mul2_ok by (unfold two64; lia). cbn [ou64 obnd].
  destruct (N.ltb_spec x p).
  - replace (2 * p <=? 2 * (p - x) - 1) with false by (symmetry; apply N.leb_gt; lia).
    rewrite land1. replace ((2 * (p - x) - 1) mod 2 =? 1) with true by (symmetry; apply N.eqb_eq; lia).
    f_equal. lia.
  - destruct (N.ltb_spec x (2 * p)).
    + replace (2 * p <=? 2 * (x - p)) with false by (symmetry; apply N.leb_gt; lia).
      rewrite land1. replace ((2 * (x - p)) mod 2 =? 1) with false by (symmetry; apply N.eqb_neq; lia).
      unfold add_u64. replace (2 * (x - p) + 2 * p <? two64) with true
        by (symmetry; apply N.ltb_lt; unfold two64; lia).
      cbn [ou64 obnd]. f_equal. lia.
    + replace (2 * p <=? x) with true by (symmetry; apply N.leb_le; lia). reflexivity.
Qed.

Theorem zigzag_roundtrip_proof :
  forall x p, x < 9223372036854775808 -> p < 9223372036854775808 ->
  exists v, zigzag_encode x p = Ok v /\ zigzag_decode v p = Ok x.
Proof.
  intros x p Hx Hp. exists (zz x p). split.
  - apply zigzag_encode_spec; assumption.
  - apply zigzag_decode_zz; assumption.
Qed.

(* facts about the code value used by the descriptor codec *)
Lemma zz_zero_iff x p : zz x p = 0 <-> x = p.
Proof. unfold zz. destruct (N.ltb_spec x p); [lia|]. destruct (N.ltb_spec x (2 * p)); lia. Qed.
Lemma zz_bound32 x p : x < 4294967296 -> p <= 2147483648 -> zz x p < 4294967296.
Proof. intros. unfold zz. destruct (N.ltb_spec x p); [lia|]. destruct (N.ltb_spec x (2 * p)); lia. Qed.

(* ---- i64 variant *)
Open Scope Z_scope.
Lemma in_i64_true x : i64_min <= x <= i64_max -> oi64 x = Ok x.
Proof.
  intro H. unfold oi64, in_i64. replace (i64_min <=? x) with true by (symmetry; apply Z.leb_le; lia).
  replace (x <=? i64_max) with true by (symmetry; apply Z.leb_le; lia). reflexivity.
Qed.

Theorem zigzag_i64_roundtrip_proof :
  forall x : Z, -4611686018427387904 < x < 4611686018427387904 ->
  exists v, zigzag_encode_i64 x = Ok v /\ zigzag_decode_i64 v = Ok x.
Proof.
  intros x Hx. unfold zigzag_encode_i64.
  destruct (Z.leb_spec 0 x).
  - rewrite in_i64_true by (unfold i64_min, i64_max; lia). cbn [obnd].
    exists (Z.to_N (2 * x)). split; [reflexivity|].
    unfold zigzag_decode_i64. rewrite land1.
    replace ((Z.to_N (2 * x) mod 2 =? 1)%N) with false by (symmetry; apply N.eqb_neq; lia).
    f_equal. lia.
  - rewrite in_i64_true by (unfold i64_min, i64_max; lia). cbn [obnd].
    rewrite in_i64_true by (unfold i64_min, i64_max; lia). cbn [obnd].
    rewrite in_i64_true by (unfold i64_min, i64_max; lia). cbn [obnd].
    exists (Z.to_N (2 * - x - 1)). split; [reflexivity|].
    unfold zigzag_decode_i64. rewrite land1.
    replace ((Z.to_N (2 * - x - 1) mod 2 =? 1)%N) with true by (symmetry; apply N.eqb_eq; lia).
    set (h := Z.of_N ((Z.to_N (2 * - x - 1) + 1) / 2)).
    assert (Hh : h = - x) by (subst h; lia).
    rewrite Hh.
    replace (- x <=? i64_max) with true by (symmetry; apply Z.leb_le; unfold i64_max; lia).
    rewrite in_i64_true by (unfold i64_min, i64_max; lia). f_equal. lia.
Qed.
