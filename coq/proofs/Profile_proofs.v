(* Profile_proofs.v — lemmas for C18 *)
From Coq Require Import Lia ZifyBool ZifyN.
From Ragc Require Import Mach Profile.
Open Scope Z_scope.

Lemma sub_i32_some a b : i32_min <= a - b <= i32_max -> sub_i32 a b = Some (a - b).
Proof.
  unfold sub_i32, in_i32, i32_min, i32_max; intros H.
  assert (E : ((-2147483648 <=? a - b) && (a - b <=? 2147483647)) = true) by lia.
  rewrite E. reflexivity.
Qed.

(* invariant: every stored priority is above p_next and within [lo, init] *)
Definition pinv (init lo : Z) (st : pstate) : Prop :=
  lo <= p_next st <= init /\ Forall (fun sp => p_next st < snd sp <= init) (p_map st).

Lemma plookup_in s m p : plookup s m = Some p -> In (s, p) m.
Proof.
  induction m as [|[s' q] m IH]; cbn [plookup]; [discriminate|].
  destruct (N.eqb s s') eqn:E; intros H.
  - apply N.eqb_eq in E; subst; injection H as <-; left; reflexivity.
  - right; auto.
Qed.

Lemma pupdate_forall (P : N * Z -> Prop) s p m : Forall P m -> P (s, p) -> Forall P (pupdate s p m).
Proof.
  induction m as [|[s' q] m IH]; cbn [pupdate]; intros Hm Hp; [constructor; [assumption|constructor]|].
  inversion Hm as [|? ? Hq Hm']; subst.
  destruct (N.eqb s s'); constructor; auto.
Qed.

Lemma forall_weaken (P Q : N * Z -> Prop) m : (forall x, P x -> Q x) -> Forall P m -> Forall Q m.
Proof. intros H Hm; induction Hm; constructor; auto. Qed.

(* one push under the current rules: no trap while the counter has 2 units of room, the invariant is kept with
   the lower bound moving by at most 2, the token priority is the pre-decrement priority (strictly above the
   contig's), and everything pushed later is at or below the contig's priority *)
Lemma push_prio_ok init lo st s sync :
  pinv init lo st -> i32_min + 2 <= lo -> init <= i32_max ->
  exists st' tok ctg, push_prio true true st s sync = Some (st', tok, ctg) /\
    pinv init (lo - 2) st' /\ p_next st' < ctg <= init /\
    (sync = true -> exists t, tok = Some t /\ t = ctg + 1 /\ t <= init) /\ (sync = false -> tok = None) /\
    plookup s (p_map st') <> None.
Proof.
  intros [[Hlo Hhi] Hall] Hmin Hmax. unfold push_prio.
  assert (Hsub : forall a, i32_min + 1 <= a <= i32_max -> sub_i32 a 1 = Some (a - 1)) by (intros a Ha; apply sub_i32_some; lia).
  unfold i32_min, i32_max in *.
  assert (Hlk : forall m p, In (s, p) (pupdate s p m)).
  { induction m as [|[s' q] m IH]; cbn [pupdate]; intros p; [left; reflexivity|].
    destruct (N.eqb s s'); [left; reflexivity | right; apply IH]. }
  assert (Hlk2 : forall m p, plookup s (pupdate s p m) = Some p).
  { induction m as [|[s' q] m IH]; cbn [pupdate plookup]; intros p.
    - rewrite N.eqb_refl; reflexivity.
    - destruct (N.eqb s s') eqn:E; cbn [plookup]; rewrite ?N.eqb_refl, ?E; auto. }
  destruct (plookup s (p_map st)) as [p|] eqn:Elk.
  - (* known sample *)
    pose proof (plookup_in _ _ _ Elk) as Hin.
    rewrite Forall_forall in Hall. pose proof (Hall _ Hin) as Hp; cbn [snd] in Hp.
    cbn [obind]. destruct sync.
    + rewrite (Hsub p) by lia. cbn [obind].
      destruct (p_next st >=? p - 1) eqn:Ege.
      * rewrite (Hsub (p - 1)) by lia. cbn [obind].
        do 3 eexists; split; [reflexivity|]. unfold pinv; cbn [p_next p_map].
        split; [split; [lia|]|].
        { apply pupdate_forall; [|cbn; lia]. apply Forall_forall; intros x Hx; pose proof (Hall _ Hx); lia. }
        split; [lia|]. split; [intros _; eexists; split; [reflexivity|lia]|]. split; [discriminate|].
        rewrite Hlk2; discriminate.
      * cbn [obind]. do 3 eexists; split; [reflexivity|]. unfold pinv; cbn [p_next p_map].
        split; [split; [lia|]|].
        { apply pupdate_forall; [|cbn; lia]. apply Forall_forall; intros x Hx; pose proof (Hall _ Hx); lia. }
        split; [lia|]. split; [intros _; eexists; split; [reflexivity|lia]|]. split; [discriminate|].
        rewrite Hlk2; discriminate.
    + do 3 eexists; split; [reflexivity|]. unfold pinv; cbn [p_next p_map]. split; [split; [lia|]|].
      { apply Forall_forall; intros x Hx; pose proof (Hall _ Hx); lia. }
      split; [lia|]. split; [discriminate|]. split; [reflexivity|]. rewrite Elk; discriminate.
  - (* new sample *)
    rewrite (Hsub (p_next st)) by lia. cbn [obind].
    rewrite Forall_forall in Hall. destruct sync.
    + rewrite (Hsub (p_next st)) by lia. cbn [obind p_next].
      assert (E : (p_next st - 1 >=? p_next st - 1) = true) by lia. rewrite E.
      rewrite (Hsub (p_next st - 1)) by lia. cbn [obind].
      do 3 eexists; split; [reflexivity|]. unfold pinv; cbn [p_next p_map].
      split; [split; [lia|]|].
      { apply pupdate_forall; [|cbn; lia]. apply pupdate_forall; [|cbn; lia].
        apply Forall_forall; intros x Hx; pose proof (Hall _ Hx); lia. }
      split; [lia|]. split; [intros _; eexists; split; [reflexivity|lia]|]. split; [discriminate|].
      rewrite Hlk2; discriminate.
    + do 3 eexists; split; [reflexivity|]. unfold pinv; cbn [p_next p_map].
      split; [split; [lia|]|].
      { apply pupdate_forall; [|cbn; lia]. apply Forall_forall; intros x Hx; pose proof (Hall _ Hx); lia. }
      split; [lia|]. split; [discriminate|]. split; [reflexivity|]. rewrite Hlk2; discriminate.
Qed.

Lemma pinv_init init : pinv init init (pinit init).
Proof. unfold pinv, pinit; cbn; split; [lia|constructor]. Qed.

(* any sequence of pushes: no trap, and every priority handed out stays in (init - 2n - 1, init] *)
Lemma run_pushes_ok : forall es init lo st,
  pinv init lo st -> init <= i32_max -> i32_min + 2 * Z.of_nat (length es) <= lo ->
  exists st' outs, run_pushes true true st es = Some (st', outs) /\ length outs = length es /\
    Forall (fun o => lo - 2 * Z.of_nat (length es) < snd o <= init /\
                     match fst o with Some t => t = snd o + 1 /\ t <= init | None => True end) outs.
Proof.
  induction es as [|[s sync] es IH]; intros init lo st Hinv Hmax Hlo.
  - cbn. do 2 eexists; split; [reflexivity|]. split; [reflexivity|constructor].
  - cbn [run_pushes length] in *.
    destruct (push_prio_ok init lo st s sync Hinv) as (st' & tok & ctg & E & Hinv' & Hc & Hs & Hn & _); [lia|lia|].
    rewrite E; cbn [obind].
    destruct (IH init (lo - 2) st' Hinv' Hmax) as (st'' & outs & E2 & Hlen & Hall); [lia|].
    rewrite E2; cbn [obind]. do 2 eexists; split; [reflexivity|]. split; [cbn; lia|].
    constructor.
    + cbn [fst snd]. destruct Hinv' as [[? ?] _]. split; [lia|].
      destruct sync; [destruct (Hs eq_refl) as (t & -> & ? & ?); lia | rewrite (Hn eq_refl); exact I].
    + eapply Forall_impl; [|exact Hall]. intros o [Ho1 Ho2]; split; [lia|exact Ho2].
Qed.

Open Scope N_scope.
Lemma fb_mask_total k : k <= 32 -> fb_mask true k = Some (4 ^ k - 1).
Proof.
  intros Hk. unfold fb_mask. destruct (32 <=? k) eqn:E.
  - assert (k = 32) by lia. subst. reflexivity.
  - cbn [andb]. unfold shl_checked64. assert (E2 : (2 * k <? 64) = true) by lia. rewrite E2. cbn [obind].
    unfold shl64, wrap64. rewrite N.shiftl_mul_pow2, N.mul_1_l.
    assert (H4 : 2 ^ (2 * k) = 4 ^ k) by (rewrite N.pow_mul_r; reflexivity).
    assert (Hlt : 2 ^ (2 * k) < two64).
    { unfold two64. change 18446744073709551616 with (2 ^ 64). apply N.pow_lt_mono_r; lia. }
    rewrite N.mod_small by exact Hlt. unfold sub_u64.
    assert (2 ^ (2 * k) <> 0) by (apply N.pow_nonzero; lia).
    assert (1 <= 2 ^ (2 * k)) by lia.
    assert (E3 : (1 <=? 2 ^ (2 * k)) = true) by lia. rewrite E3, H4. reflexivity.
Qed.

Lemma est_tail_fixed_is_release est ts i : est_tail true est ts i = Some (est_tail_release est ts i).
Proof. reflexivity. Qed.

Lemma est_tail_agrees_when_no_trap est ts i v :
  est < two32 -> ts < two32 -> i < two32 -> est_tail false est ts i = Some v -> est_tail true est ts i = Some v.
Proof.
  unfold est_tail, sub_u32, add_u32, wadd32, wsub32, wrap32, two32. intros He Ht Hi.
  destruct (i <=? ts) eqn:E; cbn [obind]; [|discriminate].
  destruct (est + (ts - i) <? 4294967296) eqn:E2; [|discriminate]. intros H; injection H as <-.
  f_equal. rewrite (N.mod_small i) by lia.
  replace (ts + 4294967296 - i) with ((ts - i) + 1 * 4294967296) by lia.
  rewrite N.mod_add by lia. rewrite (N.mod_small (ts - i)) by lia. rewrite N.mod_small by lia. reflexivity.
Qed.
