(* Cli_proofs.v - lemmas and proofs for C17 (model: Cli.v) *)
From Ragc Require Import Mach Cli.
From Coq Require Import Lia.
Open Scope N_scope.
Arguments N.add : simpl never.
Arguments N.sub : simpl never.
Arguments N.mul : simpl never.
Arguments N.modulo : simpl never.

(* ------------------------------------------------------------------ strings *)
Lemma str_eqb_eq : forall a b, str_eqb a b = true <-> a = b.
Proof.
  unfold str_eqb. induction a as [|x a IH]; destruct b as [|y b]; cbn [list_eqb]; split; intro H;
    try reflexivity; try discriminate.
  - apply andb_true_iff in H. destruct H as [H1 H2]. apply N.eqb_eq in H1. apply IH in H2. congruence.
  - inversion H; subst. apply andb_true_iff. split; [apply N.eqb_refl | apply IH; reflexivity].
Qed.

Lemma str_eqb_refl : forall a, str_eqb a a = true.
Proof. intro a. apply str_eqb_eq. reflexivity. Qed.

Lemma str_eqb_neq : forall a b, a <> b -> str_eqb a b = false.
Proof. intros a b H. destruct (str_eqb a b) eqn:E; [apply str_eqb_eq in E; contradiction | reflexivity]. Qed.

Lemma starts_with_spec_proof : forall s p, starts_with s p = true <-> exists t, s = p ++ t.
Proof.
  intros s p. revert s. induction p as [|x p IH]; intro s; cbn [starts_with].
  - split; [intros _; exists s; reflexivity | reflexivity].
  - destruct s as [|y s].
    + split; [discriminate | intros [t H]; discriminate].
    + rewrite andb_true_iff, N.eqb_eq, IH. split.
      * intros [-> [t ->]]. exists t. reflexivity.
      * intros [t H]. inversion H; subst. split; [reflexivity | exists t; reflexivity].
Qed.

(* ------------------------------------------------------------------ file system *)
Lemma fs_read_set_same : forall fs p v, fs_read (fs_set fs p v) p = Some v.
Proof. intros. unfold fs_read, fs_set. cbn [files lookup]. rewrite str_eqb_refl. reflexivity. Qed.

Lemma fs_read_set_other : forall fs p v q, p <> q -> fs_read (fs_set fs p v) q = fs_read fs q.
Proof. intros. unfold fs_read, fs_set. cbn [files lookup]. rewrite str_eqb_neq by assumption. reflexivity. Qed.

Lemma lookup_filter_same : forall p l, lookup p (filter (fun e => negb (str_eqb (fst e) p)) l) = None.
Proof.
  intros p l. induction l as [|[q v] l IH]; cbn [filter lookup fst]; [reflexivity|].
  destruct (str_eqb q p) eqn:E; cbn [negb]; [exact IH|].
  cbn [lookup]. rewrite E. exact IH.
Qed.

Lemma lookup_filter_other : forall p q l, p <> q ->
  lookup q (filter (fun e => negb (str_eqb (fst e) p)) l) = lookup q l.
Proof.
  intros p q l Hne. induction l as [|[r v] l IH]; cbn [filter lookup fst]; [reflexivity|].
  destruct (str_eqb r p) eqn:E; cbn [negb].
  - apply str_eqb_eq in E. subst r. rewrite str_eqb_neq by assumption. exact IH.
  - cbn [lookup]. rewrite IH. reflexivity.
Qed.

Lemma fs_remove_spec : forall fs p fs', fs_remove fs p = Some fs' ->
  fs_read fs' p = None /\ (forall q, p <> q -> fs_read fs' q = fs_read fs q) /\ nocreate fs' = nocreate fs.
Proof.
  intros fs p fs' H. unfold fs_remove in H. destruct (fs_read fs p); [|discriminate].
  inversion H; subst; clear H. unfold fs_read. cbn [files nocreate].
  split; [apply lookup_filter_same|]. split; [intros; apply lookup_filter_other; assumption | reflexivity].
Qed.

Lemma fs_remove_some : forall fs p b, fs_read fs p = Some b -> exists fs', fs_remove fs p = Some fs'.
Proof. intros fs p b H. unfold fs_remove. rewrite H. eexists; reflexivity. Qed.

Lemma write_at_end : forall c d, write_at c (length c) d = c ++ d.
Proof.
  intros c d. unfold write_at. rewrite firstn_all, Nat.sub_diag. cbn [repeat app].
  rewrite skipn_all2 by lia. rewrite app_nil_r. reflexivity.
Qed.

Lemma fs_create_spec : forall fs p fs1, fs_create fs p = Some fs1 ->
  creatable fs p = true /\ fs1 = fs_set fs p [].
Proof. intros fs p fs1 H. unfold fs_create in H. destruct (creatable fs p); inversion H; auto. Qed.

Lemma fs_write_end : forall fs p c d, fs_read fs p = Some c ->
  fs_write fs {| h_path := p; h_off := length c |} d =
  (fs_set fs p (c ++ d), {| h_path := p; h_off := (length c + length d)%nat |}).
Proof. intros. unfold fs_write. cbn [h_path h_off]. rewrite H, write_at_end. reflexivity. Qed.

(* sequential writes through one handle positioned at the end of the file append *)
Lemma fs_write_all_append : forall pieces fs p c,
  fs_read fs p = Some c ->
  let r := fs_write_all fs {| h_path := p; h_off := length c |} pieces in
  fs_read (fst r) p = Some (c ++ concat pieces) /\
  snd r = {| h_path := p; h_off := length (c ++ concat pieces) |} /\
  (forall q, p <> q -> fs_read (fst r) q = fs_read fs q) /\
  nocreate (fst r) = nocreate fs.
Proof.
  unfold fs_write_all. induction pieces as [|d pieces IH]; intros fs p c Hc; cbn [fold_left concat fst snd].
  - rewrite app_nil_r. auto.
  - rewrite (fs_write_end fs p c d Hc).
    assert (Hc' : fs_read (fs_set fs p (c ++ d)) p = Some (c ++ d)) by apply fs_read_set_same.
    specialize (IH (fs_set fs p (c ++ d)) p (c ++ d) Hc'). cbn zeta in IH.
    rewrite app_length in IH. destruct IH as (A & B & C & D).
    rewrite app_assoc. split; [exact A|]. split; [exact B|]. split; [|exact D].
    intros q Hq. rewrite C by assumption. apply fs_read_set_other. assumption.
Qed.

(* ------------------------------------------------------------------ write_sample_fasta *)
Lemma sample_fasta_some : forall ar n cs, get_sample ar n = Some cs ->
  sample_fasta ar n = concat (map contig_bytes cs).
Proof. intros. unfold sample_fasta. rewrite H. reflexivity. Qed.

Lemma write_sample_fasta_ok : forall ar n tmp fs,
  get_sample ar n <> None -> creatable fs tmp = true ->
  exists fs1, write_sample_fasta ar n tmp fs = Some fs1 /\
    fs_read fs1 tmp = Some (sample_fasta ar n) /\
    (forall q, tmp <> q -> fs_read fs1 q = fs_read fs q) /\ nocreate fs1 = nocreate fs.
Proof.
  intros ar n tmp fs Hr Hc. unfold write_sample_fasta.
  destruct (get_sample ar n) as [cs|] eqn:E; [|contradiction].
  unfold fs_create. rewrite Hc.
  pose proof (fs_write_all_append (map contig_bytes cs) (fs_set fs tmp []) tmp [] (fs_read_set_same _ _ _)) as W.
  cbn zeta in W. cbn [length app] in W. destruct W as (A & _ & C & D).
  eexists. split; [reflexivity|]. rewrite (sample_fasta_some _ _ _ E).
  split; [exact A|]. split; [|exact D].
  intros q Hq. rewrite C by assumption. apply fs_read_set_other. assumption.
Qed.

Lemma write_sample_fasta_some : forall ar n tmp fs fs1,
  write_sample_fasta ar n tmp fs = Some fs1 ->
  get_sample ar n <> None /\ creatable fs tmp = true.
Proof.
  intros ar n tmp fs fs1 H. unfold write_sample_fasta in H.
  destruct (get_sample ar n); [|discriminate]. split; [discriminate|].
  unfold fs_create in H. destruct (creatable fs tmp); [reflexivity | discriminate].
Qed.

Lemma write_sample_fasta_none : forall ar n tmp fs,
  get_sample ar n = None -> write_sample_fasta ar n tmp fs = None.
Proof. intros. unfold write_sample_fasta. rewrite H. reflexivity. Qed.

(* ------------------------------------------------------------------ sinks *)
Definition sink_path (k : sink) : option str :=
  match k with SinkStdout => None | SinkFile h => Some (h_path h) end.

(* what has been written to the destination so far *)
Definition out_content (st : pstate) (o : option str) : option str :=
  match o with None => Some (p_stdout st) | Some p => fs_read (p_fs st) p end.

Definition sink_ok (st : pstate) (k : sink) (tmp : str) : Prop :=
  match k with
  | SinkStdout => True
  | SinkFile h => h_path h <> tmp /\ exists c, fs_read (p_fs st) (h_path h) = Some c /\ h_off h = length c
  end.

(* everything except the temp file and the destination is untouched *)
Definition frame (st st' : pstate) (o : option str) (tmp : str) : Prop :=
  (forall q, tmp <> q -> o <> Some q -> fs_read (p_fs st') q = fs_read (p_fs st) q) /\
  (o <> None -> p_stdout st' = p_stdout st) /\
  nocreate (p_fs st') = nocreate (p_fs st).

Lemma frame_refl : forall st o tmp, frame st st o tmp.
Proof. intros. repeat split; reflexivity. Qed.

Lemma frame_trans : forall a b c o tmp, frame a b o tmp -> frame b c o tmp -> frame a c o tmp.
Proof.
  intros a b c o tmp (A1 & A2 & A3) (B1 & B2 & B3). repeat split.
  - intros q H1 H2. rewrite B1, A1 by assumption. reflexivity.
  - intro H. rewrite B2, A2 by assumption. reflexivity.
  - congruence.
Qed.

Lemma sink_write_spec : forall st k tmp c d,
  sink_ok st k tmp -> out_content st (sink_path k) = Some c ->
  let r := sink_write st k d in
  sink_ok (fst r) (snd r) tmp /\ sink_path (snd r) = sink_path k /\
  out_content (fst r) (sink_path k) = Some (c ++ d) /\
  fs_read (p_fs (fst r)) tmp = fs_read (p_fs st) tmp /\
  frame st (fst r) (sink_path k) tmp.
Proof.
  intros st k tmp c d Hok Hc. destruct k as [|h]; cbn [sink_write sink_path out_content fst snd] in *.
  - inversion Hc; subst. unfold print. cbn [p_fs p_stdout].
    repeat split; try reflexivity. intro H; contradiction.
  - destruct h as [p off]. cbn [sink_ok h_path h_off] in *. destruct Hok as (Hne & c' & Hr & Hoff).
    rewrite Hr in Hc. inversion Hc; subst c' off.
    rewrite (fs_write_end _ _ _ d Hr). cbn [fst snd with_fs p_fs p_stdout sink_ok h_path h_off].
    rewrite fs_read_set_same.
    split; [split; [assumption|]; exists (c ++ d); split; [reflexivity | rewrite app_length; reflexivity]|].
    split; [reflexivity|]. split; [reflexivity|].
    split; [apply fs_read_set_other; assumption|].
    repeat split.
    + intros q H1 H2. apply fs_read_set_other. intro; subst; apply H2; reflexivity.
Qed.

(* ------------------------------------------------------------------ the getset loop *)
Section Loop.
  Variable ar : archive.
  Variable tmp : str.

  (* one iteration on a readable sample *)
  Lemma loop_step : forall n st k c,
    get_sample ar n <> None -> creatable (p_fs st) tmp = true ->
    sink_ok st k tmp -> out_content st (sink_path k) = Some c ->
    exists st1 k1, (forall rest, getset_loop ar (n :: rest) tmp st k = getset_loop ar rest tmp st1 k1) /\
      sink_ok st1 k1 tmp /\ sink_path k1 = sink_path k /\
      out_content st1 (sink_path k) = Some (c ++ sample_fasta ar n) /\
      fs_read (p_fs st1) tmp = Some (sample_fasta ar n) /\
      frame st st1 (sink_path k) tmp.
  Proof.
    intros n st k c Hr Hc Hok Hout.
    destruct (write_sample_fasta_ok ar n tmp (p_fs st) Hr Hc) as (fs1 & W & R & O & NC).
    assert (Hok1 : sink_ok (with_fs st fs1) k tmp).
    { destruct k as [|h]; cbn [sink_ok] in *; [exact I|]. destruct Hok as (Hne & c' & Hc' & Hoff).
      split; [assumption|]. exists c'. cbn [with_fs p_fs]. rewrite O by (intro; subst; apply Hne; reflexivity). auto. }
    assert (Hout1 : out_content (with_fs st fs1) (sink_path k) = Some c).
    { destruct k as [|h]; cbn [sink_path out_content with_fs p_fs p_stdout] in *; [assumption|].
      destruct Hok as (Hne & _). rewrite O by (intro; subst; apply Hne; reflexivity). assumption. }
    pose proof (sink_write_spec (with_fs st fs1) k tmp c (sample_fasta ar n) Hok1 Hout1) as S.
    cbn zeta in S. destruct S as (S1 & S2 & S3 & S4 & S5).
    exists (fst (sink_write (with_fs st fs1) k (sample_fasta ar n))),
           (snd (sink_write (with_fs st fs1) k (sample_fasta ar n))).
    split; [intro rest; cbn [getset_loop]; rewrite W, R; reflexivity|].
    split; [assumption|]. split; [assumption|]. split; [assumption|].
    split; [rewrite S4; cbn [with_fs p_fs]; assumption|].
    eapply frame_trans; [|exact S5].
    repeat split; cbn [with_fs p_fs p_stdout]; auto.
  Qed.

  (* all names readable: the loop succeeds and has appended every sample in request order *)
  Lemma loop_ok : forall names st k c,
    Forall (fun n => get_sample ar n <> None) names -> creatable (p_fs st) tmp = true ->
    sink_ok st k tmp -> out_content st (sink_path k) = Some c ->
    exists st', getset_loop ar names tmp st k = (true, st') /\
      out_content st' (sink_path k) = Some (c ++ concat (map (sample_fasta ar) names)) /\
      (names <> [] -> fs_read (p_fs st') tmp = Some (sample_fasta ar (last names []))) /\
      (names = [] -> st' = st) /\
      frame st st' (sink_path k) tmp.
  Proof.
    induction names as [|n names IH]; intros st k c Hall Hc Hok Hout.
    - exists st. cbn [getset_loop map concat]. rewrite app_nil_r.
      split; [reflexivity|]. split; [assumption|]. split; [intro H; contradiction H; reflexivity|].
      split; [reflexivity | apply frame_refl].
    - inversion Hall as [|? ? Hn Hrest]; subst.
      destruct (loop_step n st k c Hn Hc Hok Hout) as (st1 & k1 & E & Ok1 & P1 & O1 & T1 & F1).
      assert (Hc1 : creatable (p_fs st1) tmp = true).
      { unfold creatable in *. destruct F1 as (_ & _ & NC). rewrite NC. assumption. }
      rewrite <- P1 in O1.
      destruct (IH st1 k1 _ Hrest Hc1 Ok1 O1) as (st' & L & O' & T' & Nil' & F').
      rewrite P1 in *.
      exists st'. rewrite E. split; [assumption|].
      split; [cbn [map concat]; rewrite app_assoc; assumption|].
      split; [|split; [discriminate | eapply frame_trans; eassumption]].
      intros _. destruct names as [|m names'].
      + rewrite (Nil' eq_refl). cbn [last]. assumption.
      + cbn [last] in *. apply T'. discriminate.
  Qed.

  (* a sample that cannot be read stops the loop: Err, with exactly the earlier samples written *)
  Lemma loop_bad : forall good bad rest st k c,
    Forall (fun n => get_sample ar n <> None) good -> get_sample ar bad = None ->
    creatable (p_fs st) tmp = true ->
    sink_ok st k tmp -> out_content st (sink_path k) = Some c ->
    exists st', getset_loop ar (good ++ bad :: rest) tmp st k = (false, st') /\
      out_content st' (sink_path k) = Some (c ++ concat (map (sample_fasta ar) good)) /\
      (good <> [] -> fs_read (p_fs st') tmp = Some (sample_fasta ar (last good []))) /\
      (good = [] -> st' = st) /\
      frame st st' (sink_path k) tmp.
  Proof.
    induction good as [|n good IH]; intros bad rest st k c Hall Hbad Hc Hok Hout.
    - exists st. cbn [app getset_loop map concat]. rewrite (write_sample_fasta_none _ _ _ _ Hbad), app_nil_r.
      split; [reflexivity|]. split; [assumption|]. split; [intro H; contradiction H; reflexivity|].
      split; [reflexivity | apply frame_refl].
    - inversion Hall as [|? ? Hn Hrest]; subst.
      destruct (loop_step n st k c Hn Hc Hok Hout) as (st1 & k1 & E & Ok1 & P1 & O1 & T1 & F1).
      assert (Hc1 : creatable (p_fs st1) tmp = true).
      { unfold creatable in *. destruct F1 as (_ & _ & NC). rewrite NC. assumption. }
      rewrite <- P1 in O1.
      destruct (IH bad rest st1 k1 _ Hrest Hbad Hc1 Ok1 O1) as (st' & L & O' & T' & Nil' & F').
      rewrite P1 in *.
      exists st'. rewrite <- app_comm_cons, E. split; [assumption|].
      split; [cbn [map concat]; rewrite app_assoc; assumption|].
      split; [|split; [discriminate | eapply frame_trans; eassumption]].
      intros _. destruct good as [|m good'].
      + rewrite (Nil' eq_refl). cbn [last]. assumption.
      + cbn [last] in *. apply T'. discriminate.
  Qed.

  (* whatever the state: an unreadable name among the requested ones makes the loop return Err *)
  Lemma loop_exists_bad : forall names st k,
    Exists (fun n => get_sample ar n = None) names -> fst (getset_loop ar names tmp st k) = false.
  Proof.
    induction names as [|n names IH]; intros st k H; [inversion H|].
    cbn [getset_loop]. destruct (write_sample_fasta ar n tmp (p_fs st)) as [fs1|] eqn:W; [|reflexivity].
    destruct (fs_read fs1 tmp); [|reflexivity].
    apply IH. inversion H as [? ? Hb|? ? Hr]; subst; [|assumption].
    apply write_sample_fasta_some in W. destruct W as [W _]. contradiction.
  Qed.

  (* the loop returned Ok: every requested sample was readable *)
  Lemma loop_true_all : forall names st k st',
    getset_loop ar names tmp st k = (true, st') -> Forall (fun n => get_sample ar n <> None) names.
  Proof.
    induction names as [|n names IH]; intros st k st' H; [constructor|].
    cbn [getset_loop] in H. destruct (write_sample_fasta ar n tmp (p_fs st)) as [fs1|] eqn:W; [|discriminate].
    destruct (fs_read fs1 tmp); [|discriminate].
    constructor; [apply write_sample_fasta_some in W; tauto | eapply IH; eassumption].
  Qed.

  Lemma loop_true_creatable : forall names st k st', names <> [] ->
    getset_loop ar names tmp st k = (true, st') -> creatable (p_fs st) tmp = true.
  Proof.
    intros [|n names] st k st' Hne H; [contradiction Hne; reflexivity|].
    cbn [getset_loop] in H. destruct (write_sample_fasta ar n tmp (p_fs st)) as [fs1|] eqn:W; [|discriminate].
    apply write_sample_fasta_some in W. tauto.
  Qed.

  Lemma loop_uncreatable : forall names st k, names <> [] -> creatable (p_fs st) tmp = false ->
    fst (getset_loop ar names tmp st k) = false.
  Proof.
    intros names st k Hne Hc. destruct (getset_loop ar names tmp st k) as [[|] st'] eqn:E; [|reflexivity].
    apply loop_true_creatable in E; [congruence | assumption].
  Qed.
End Loop.

(* ------------------------------------------------------------------ getset_command *)
Lemma requested_names_proof : forall ar samples, requested ar samples None = samples.
Proof. reflexivity. Qed.

Lemma requested_prefix_archive_order_proof : forall ar samples p,
  requested ar samples (Some p) = filter (fun s => starts_with s p) (map fst ar).
Proof. reflexivity. Qed.

Lemma getset_composes_stdout_proof : forall decode arc samples prefix tmp st ar,
  open_archive decode (p_fs st) arc = Some ar ->
  requested ar samples prefix <> [] ->
  Forall (fun n => get_sample ar n <> None) (requested ar samples prefix) ->
  creatable (p_fs st) tmp = true ->
  exists st', getset_command decode arc samples prefix None tmp st = (Zero, st') /\
    p_stdout st' = p_stdout st ++ concat (map (sample_fasta ar) (requested ar samples prefix)) /\
    fs_read (p_fs st') tmp = None /\
    (forall q, q <> tmp -> fs_read (p_fs st') q = fs_read (p_fs st) q).
Proof.
  intros decode arc samples prefix tmp st ar Hopen Hne Hall Hc.
  unfold getset_command. rewrite Hopen.
  destruct (requested ar samples prefix) as [|n names] eqn:Er; [contradiction Hne; reflexivity|].
  destruct (loop_ok ar tmp (n :: names) st SinkStdout (p_stdout st) Hall Hc I eq_refl)
    as (st2 & L & O & T & _ & (F1 & _ & F3)).
  rewrite L. cbn [sink_path out_content] in *.
  specialize (T Hne). destruct (fs_remove_some _ _ _ T) as (fs3 & R). rewrite R.
  destruct (fs_remove_spec _ _ _ R) as (R1 & R2 & R3).
  eexists. split; [reflexivity|]. cbn [with_fs p_fs p_stdout].
  split; [inversion O; reflexivity|]. split; [assumption|].
  intros q Hq. rewrite R2 by (intro; subst; apply Hq; reflexivity).
  apply F1; [intro; subst; apply Hq; reflexivity | discriminate].
Qed.

Lemma getset_composes_file_proof : forall decode arc samples prefix out tmp st ar,
  open_archive decode (p_fs st) arc = Some ar ->
  requested ar samples prefix <> [] ->
  Forall (fun n => get_sample ar n <> None) (requested ar samples prefix) ->
  creatable (p_fs st) tmp = true -> creatable (p_fs st) out = true -> out <> tmp ->
  exists st', getset_command decode arc samples prefix (Some out) tmp st = (Zero, st') /\
    fs_read (p_fs st') out = Some (concat (map (sample_fasta ar) (requested ar samples prefix))) /\
    p_stdout st' = p_stdout st /\
    fs_read (p_fs st') tmp = None /\
    (forall q, q <> tmp -> q <> out -> fs_read (p_fs st') q = fs_read (p_fs st) q).
Proof.
  intros decode arc samples prefix out tmp st ar Hopen Hne Hall Hc Hco Hot.
  unfold getset_command. rewrite Hopen.
  destruct (requested ar samples prefix) as [|n names] eqn:Er; [contradiction Hne; reflexivity|].
  unfold fs_create. rewrite Hco.
  set (st1 := with_fs st (fs_set (p_fs st) out [])).
  assert (Hok : sink_ok st1 (SinkFile {| h_path := out; h_off := 0 |}) tmp).
  { cbn [sink_ok h_path h_off]. split; [assumption|]. exists []. split; [apply fs_read_set_same | reflexivity]. }
  assert (Hout : out_content st1 (sink_path (SinkFile {| h_path := out; h_off := 0 |})) = Some []).
  { cbn [sink_path out_content h_path]. apply fs_read_set_same. }
  assert (Hc1 : creatable (p_fs st1) tmp = true) by exact Hc.
  destruct (loop_ok ar tmp (n :: names) st1 _ [] Hall Hc1 Hok Hout) as (st2 & L & O & T & _ & (F1 & F2 & F3)).
  rewrite L. cbn [sink_path out_content h_path app] in *.
  specialize (T Hne). destruct (fs_remove_some _ _ _ T) as (fs3 & R). rewrite R.
  destruct (fs_remove_spec _ _ _ R) as (R1 & R2 & R3).
  eexists. split; [reflexivity|]. cbn [with_fs p_fs p_stdout].
  split; [rewrite R2 by (intro; subst; apply Hot; reflexivity); exact O|].
  split; [rewrite F2 by discriminate; reflexivity|]. split; [assumption|].
  intros q Hq1 Hq2. rewrite R2 by (intro; subst; apply Hq1; reflexivity).
  rewrite F1; [| intro; subst; apply Hq1; reflexivity | intro E; inversion E; subst; apply Hq2; reflexivity].
  subst st1. cbn [with_fs p_fs]. apply fs_read_set_other. intro; subst; apply Hq2; reflexivity.
Qed.

(* an unknown / unreadable sample: Err after exactly the earlier samples were written; the temp file stays *)
Lemma getset_unknown_nonzero_proof : forall decode arc samples prefix output tmp st ar good bad rest,
  open_archive decode (p_fs st) arc = Some ar ->
  requested ar samples prefix = good ++ bad :: rest ->
  Forall (fun n => get_sample ar n <> None) good -> get_sample ar bad = None ->
  creatable (p_fs st) tmp = true ->
  (forall o, output = Some o -> o <> tmp /\ creatable (p_fs st) o = true) ->
  exists st', getset_command decode arc samples prefix output tmp st = (NonZero, st') /\
    match output with
    | None => p_stdout st' = p_stdout st ++ concat (map (sample_fasta ar) good)
    | Some o => fs_read (p_fs st') o = Some (concat (map (sample_fasta ar) good)) /\ p_stdout st' = p_stdout st
    end /\
    (good <> [] -> fs_read (p_fs st') tmp = Some (sample_fasta ar (last good []))) /\
    (good = [] -> fs_read (p_fs st') tmp = fs_read (p_fs st) tmp).
Proof.
  intros decode arc samples prefix output tmp st ar good bad rest Hopen Er Hall Hbad Hc Hout.
  unfold getset_command. rewrite Hopen, Er.
  destruct (good ++ bad :: rest) as [|n0 names0] eqn:En; [destruct good; discriminate|]. rewrite <- En. clear En n0 names0.
  destruct output as [o|].
  - destruct (Hout o eq_refl) as (Hot & Hco). unfold fs_create. rewrite Hco.
    set (st1 := with_fs st (fs_set (p_fs st) o [])).
    assert (Hok : sink_ok st1 (SinkFile {| h_path := o; h_off := 0 |}) tmp).
    { cbn [sink_ok h_path h_off]. split; [assumption|]. exists []. split; [apply fs_read_set_same | reflexivity]. }
    assert (Ho : out_content st1 (sink_path (SinkFile {| h_path := o; h_off := 0 |})) = Some []).
    { cbn [sink_path out_content h_path]. apply fs_read_set_same. }
    assert (Hc1 : creatable (p_fs st1) tmp = true) by exact Hc.
    destruct (loop_bad ar tmp good bad rest st1 _ [] Hall Hbad Hc1 Hok Ho) as (st2 & L & O & T & Nil & (F1 & F2 & F3)).
    rewrite L. cbn [sink_path out_content h_path app] in *.
    exists st2. split; [reflexivity|]. split; [split; [exact O | rewrite F2 by discriminate; reflexivity]|].
    split; [assumption|]. intro Hg. rewrite (Nil Hg). subst st1. cbn [with_fs p_fs].
    apply fs_read_set_other. assumption.
  - destruct (loop_bad ar tmp good bad rest st SinkStdout (p_stdout st) Hall Hbad Hc I eq_refl)
      as (st2 & L & O & T & Nil & _).
    rewrite L. cbn [sink_path out_content] in *.
    exists st2. split; [reflexivity|]. split; [inversion O; reflexivity|].
    split; [assumption|]. intro Hg. rewrite (Nil Hg). reflexivity.
Qed.

(* exit 0 tells the truth: everything requested was readable and has been written, in order *)
Lemma getset_zero_complete_proof : forall decode arc samples prefix output tmp st st',
  getset_command decode arc samples prefix output tmp st = (Zero, st') ->
  output <> Some tmp ->
  exists ar, open_archive decode (p_fs st) arc = Some ar /\
    requested ar samples prefix <> [] /\
    Forall (fun n => get_sample ar n <> None) (requested ar samples prefix) /\
    match output with
    | None => p_stdout st' = p_stdout st ++ concat (map (sample_fasta ar) (requested ar samples prefix))
    | Some o => fs_read (p_fs st') o = Some (concat (map (sample_fasta ar) (requested ar samples prefix)))
    end.
Proof.
  intros decode arc samples prefix output tmp st st' H Hot.
  pose proof H as H0. unfold getset_command in H.
  destruct (open_archive decode (p_fs st) arc) as [ar|] eqn:Hopen; [|discriminate].
  exists ar. split; [reflexivity|].
  destruct (requested ar samples prefix) as [|n names] eqn:Er; [discriminate|].
  assert (Hne : n :: names <> []) by discriminate.
  split; [assumption|].
  destruct output as [o|].
  - destruct (fs_create (p_fs st) o) as [fs1|] eqn:Ec; [|discriminate].
    destruct (getset_loop ar (n :: names) tmp (with_fs st fs1) _) as [[|] st2] eqn:L; [|discriminate].
    pose proof (loop_true_all _ _ _ _ _ _ L) as Hall. split; [assumption|].
    pose proof (loop_true_creatable _ _ _ _ _ _ Hne L) as Hc.
    apply fs_create_spec in Ec. destruct Ec as (Hco & ->).
    assert (Hot' : o <> tmp) by (intro; subst; apply Hot; reflexivity).
    rewrite <- Er in Hall, Hne.
    destruct (getset_composes_file_proof decode arc samples prefix o tmp st ar Hopen Hne Hall Hc Hco Hot')
      as (st'' & E & A & _).
    rewrite H0 in E. inversion E; subst. rewrite Er in A. exact A.
  - destruct (getset_loop ar (n :: names) tmp st SinkStdout) as [[|] st2] eqn:L; [|discriminate].
    pose proof (loop_true_all _ _ _ _ _ _ L) as Hall. split; [assumption|].
    pose proof (loop_true_creatable _ _ _ _ _ _ Hne L) as Hc.
    rewrite <- Er in Hall, Hne.
    destruct (getset_composes_stdout_proof decode arc samples prefix tmp st ar Hopen Hne Hall Hc)
      as (st'' & E & A & _).
    rewrite H0 in E. inversion E; subst. rewrite Er in A. exact A.
Qed.
