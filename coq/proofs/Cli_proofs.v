(* Cli_proofs.v - lemmas and proofs for C17 (model: Cli.v) *)
From Ragc Require Import Mach Cli.
From Coq Require Import Lia.
Open Scope N_scope.
Arguments N.add : simpl never.
Arguments N.sub : simpl never.
Arguments N.mul : simpl never.
Arguments N.modulo : simpl never.

(* ------------------------------------------------------------------ strings *)
Lemma str_eqb_eq : forall a b, str_eqb a b = true <-> a = b.
Proof.
  unfold str_eqb. induction a as [|x a IH]; destruct b as [|y b]; cbn [list_eqb]; split; intro H;
    try reflexivity; try discriminate.
  - apply andb_true_iff in H. destruct H as [H1 H2]. apply N.eqb_eq in H1. apply IH in H2. congruence.
  - inversion H; subst. apply andb_true_iff. split; [apply N.eqb_refl | apply IH; reflexivity].
Qed.

Lemma str_eqb_refl : forall a, str_eqb a a = true.
Proof. intro a. apply str_eqb_eq. reflexivity. Qed.

Lemma str_eqb_neq : forall a b, a <> b -> str_eqb a b = false.
Proof. intros a b H. destruct (str_eqb a b) eqn:E; [apply str_eqb_eq in E; contradiction | reflexivity]. Qed.

Lemma starts_with_spec_proof : forall s p, starts_with s p = true <-> exists t, s = p ++ t.
Proof.
  intros s p. revert s. induction p as [|x p IH]; intro s; cbn [starts_with].
  - split; [intros _; exists s; reflexivity | reflexivity].
  - destruct s as [|y s].
    + split; [discriminate | intros [t H]; discriminate].
    + rewrite andb_true_iff, N.eqb_eq, IH. split.
      * intros [-> [t ->]]. exists t. reflexivity.
      * intros [t H]. inversion H; subst. split; [reflexivity | exists t; reflexivity].
Qed.

(* ------------------------------------------------------------------ file system *)
Lemma fs_read_set_same : forall fs p v, fs_read (fs_set fs p v) p = Some v.
Proof. intros. unfold fs_read, fs_set. cbn [files lookup]. rewrite str_eqb_refl. reflexivity. Qed.

Lemma fs_read_set_other : forall fs p v q, p <> q -> fs_read (fs_set fs p v) q = fs_read fs q.
Proof. intros. unfold fs_read, fs_set. cbn [files lookup]. rewrite str_eqb_neq by assumption. reflexivity. Qed.

Lemma lookup_filter_same : forall p l, lookup p (filter (fun e => negb (str_eqb (fst e) p)) l) = None.
Proof.
  intros p l. induction l as [|[q v] l IH]; cbn [filter lookup fst]; [reflexivity|].
  destruct (str_eqb q p) eqn:E; cbn [negb]; [exact IH|].
  cbn [lookup]. rewrite E. exact IH.
Qed.

Lemma lookup_filter_other : forall p q l, p <> q ->
  lookup q (filter (fun e => negb (str_eqb (fst e) p)) l) = lookup q l.
Proof.
  intros p q l Hne. induction l as [|[r v] l IH]; cbn [filter lookup fst]; [reflexivity|].
  destruct (str_eqb r p) eqn:E; cbn [negb].
  - apply str_eqb_eq in E. subst r. rewrite str_eqb_neq by assumption. exact IH.
  - cbn [lookup]. rewrite IH. reflexivity.
Qed.

Lemma fs_remove_spec : forall fs p fs', fs_remove fs p = Some fs' ->
  fs_read fs' p = None /\ (forall q, p <> q -> fs_read fs' q = fs_read fs q) /\ nocreate fs' = nocreate fs.
Proof.
  intros fs p fs' H. unfold fs_remove in H. destruct (fs_read fs p); [|discriminate].
  inversion H; subst; clear H. unfold fs_read. cbn [files nocreate].
  split; [apply lookup_filter_same|]. split; [intros; apply lookup_filter_other; assumption | reflexivity].
Qed.

Lemma fs_remove_some : forall fs p b, fs_read fs p = Some b -> exists fs', fs_remove fs p = Some fs'.
Proof. intros fs p b H. unfold fs_remove. rewrite H. eexists; reflexivity. Qed.

Lemma write_at_end : forall c d, write_at c (length c) d = c ++ d.
Proof.
  intros c d. unfold write_at. rewrite firstn_all, Nat.sub_diag. cbn [repeat app].
  rewrite skipn_all2 by lia. rewrite app_nil_r. reflexivity.
Qed.

Lemma fs_create_spec : forall fs p fs1, fs_create fs p = Some fs1 ->
  creatable fs p = true /\ fs1 = fs_set fs p [].
Proof. intros fs p fs1 H. unfold fs_create in H. destruct (creatable fs p); inversion H; auto. Qed.

Lemma fs_write_end : forall fs p c d, fs_read fs p = Some c ->
  fs_write fs {| h_path := p; h_off := length c |} d =
  (fs_set fs p (c ++ d), {| h_path := p; h_off := (length c + length d)%nat |}).
Proof. intros. unfold fs_write. cbn [h_path h_off]. rewrite H, write_at_end. reflexivity. Qed.

(* sequential writes through one handle positioned at the end of the file append *)
Lemma fs_write_all_append : forall pieces fs p c,
  fs_read fs p = Some c ->
  let r := fs_write_all fs {| h_path := p; h_off := length c |} pieces in
  fs_read (fst r) p = Some (c ++ concat pieces) /\
  snd r = {| h_path := p; h_off := length (c ++ concat pieces) |} /\
  (forall q, p <> q -> fs_read (fst r) q = fs_read fs q) /\
  nocreate (fst r) = nocreate fs.
Proof.
  unfold fs_write_all. induction pieces as [|d pieces IH]; intros fs p c Hc; cbn [fold_left concat fst snd].
  - rewrite app_nil_r. auto.
  - rewrite (fs_write_end fs p c d Hc).
    assert (Hc' : fs_read (fs_set fs p (c ++ d)) p = Some (c ++ d)) by apply fs_read_set_same.
    specialize (IH (fs_set fs p (c ++ d)) p (c ++ d) Hc'). cbn zeta in IH.
    rewrite app_length in IH. destruct IH as (A & B & C & D).
    rewrite app_assoc. split; [exact A|]. split; [exact B|]. split; [|exact D].
    intros q Hq. rewrite C by assumption. apply fs_read_set_other. assumption.
Qed.

(* ------------------------------------------------------------------ write_sample_fasta *)
Lemma sample_fasta_some : forall ar n cs, get_sample ar n = Some cs ->
  sample_fasta ar n = concat (map contig_bytes cs).
Proof. intros. unfold sample_fasta. rewrite H. reflexivity. Qed.

Lemma write_sample_fasta_ok : forall ar n tmp fs,
  get_sample ar n <> None -> creatable fs tmp = true ->
  exists fs1, write_sample_fasta ar n tmp fs = Some fs1 /\
    fs_read fs1 tmp = Some (sample_fasta ar n) /\
    (forall q, tmp <> q -> fs_read fs1 q = fs_read fs q) /\ nocreate fs1 = nocreate fs.
Proof.
  intros ar n tmp fs Hr Hc. unfold write_sample_fasta.
  destruct (get_sample ar n) as [cs|] eqn:E; [|contradiction].
  unfold fs_create. rewrite Hc.
  pose proof (fs_write_all_append (map contig_bytes cs) (fs_set fs tmp []) tmp [] (fs_read_set_same _ _ _)) as W.
  cbn zeta in W. cbn [length app] in W. destruct W as (A & _ & C & D).
  eexists. split; [reflexivity|]. rewrite (sample_fasta_some _ _ _ E).
  split; [exact A|]. split; [|exact D].
  intros q Hq. rewrite C by assumption. apply fs_read_set_other. assumption.
Qed.

Lemma write_sample_fasta_some : forall ar n tmp fs fs1,
  write_sample_fasta ar n tmp fs = Some fs1 ->
  get_sample ar n <> None /\ creatable fs tmp = true.
Proof.
  intros ar n tmp fs fs1 H. unfold write_sample_fasta in H.
  destruct (get_sample ar n); [|discriminate]. split; [discriminate|].
  unfold fs_create in H. destruct (creatable fs tmp); [reflexivity | discriminate].
Qed.

Lemma write_sample_fasta_none : forall ar n tmp fs,
  get_sample ar n = None -> write_sample_fasta ar n tmp fs = None.
Proof. intros. unfold write_sample_fasta. rewrite H. reflexivity. Qed.

(* ------------------------------------------------------------------ sinks *)
Definition sink_path (k : sink) : option str :=
  match k with SinkStdout => None | SinkFile h => Some (h_path h) end.

(* what has been written to the destination so far *)
Definition out_content (st : pstate) (o : option str) : option str :=
  match o with None => Some (p_stdout st) | Some p => fs_read (p_fs st) p end.

Definition sink_ok (st : pstate) (k : sink) (tmp : str) : Prop :=
  match k with
  | SinkStdout => True
  | SinkFile h => h_path h <> tmp /\ exists c, fs_read (p_fs st) (h_path h) = Some c /\ h_off h = length c
  end.

(* everything except the temp file and the destination is untouched *)
Definition frame (st st' : pstate) (o : option str) (tmp : str) : Prop :=
  (forall q, tmp <> q -> o <> Some q -> fs_read (p_fs st') q = fs_read (p_fs st) q) /\
  (o <> None -> p_stdout st' = p_stdout st) /\
  nocreate (p_fs st') = nocreate (p_fs st).

Lemma frame_refl : forall st o tmp, frame st st o tmp.
Proof. intros. repeat split; reflexivity. Qed.

Lemma frame_trans : forall a b c o tmp, frame a b o tmp -> frame b c o tmp -> frame a c o tmp.
Proof.
  intros a b c o tmp (A1 & A2 & A3) (B1 & B2 & B3). repeat split.
  - intros q H1 H2. rewrite B1, A1 by assumption. reflexivity.
  - intro H. rewrite B2, A2 by assumption. reflexivity.
  - congruence.
Qed.

Lemma sink_write_spec : forall st k tmp c d,
  sink_ok st k tmp -> out_content st (sink_path k) = Some c ->
  let r := sink_write st k d in
  sink_ok (fst r) (snd r) tmp /\ sink_path (snd r) = sink_path k /\
  out_content (fst r) (sink_path k) = Some (c ++ d) /\
  fs_read (p_fs (fst r)) tmp = fs_read (p_fs st) tmp /\
  frame st (fst r) (sink_path k) tmp.
Proof.
  intros st k tmp c d Hok Hc. destruct k as [|h]; cbn [sink_write sink_path out_content fst snd] in *.
  - inversion Hc; subst. unfold print. cbn [p_fs p_stdout].
    repeat split; try reflexivity. intro H; contradiction.
  - destruct h as [p off]. cbn [sink_ok h_path h_off] in *. destruct Hok as (Hne & c' & Hr & Hoff).
    rewrite Hr in Hc. inversion Hc; subst c' off.
    rewrite (fs_write_end _ _ _ d Hr). cbn [fst snd with_fs p_fs p_stdout sink_ok h_path h_off].
    rewrite fs_read_set_same.
    split; [split; [assumption|]; exists (c ++ d); split; [reflexivity | rewrite app_length; reflexivity]|].
    split; [reflexivity|]. split; [reflexivity|].
    split; [apply fs_read_set_other; assumption|].
    repeat split.
    + intros q H1 H2. apply fs_read_set_other. intro; subst; apply H2; reflexivity.
Qed.

(* ------------------------------------------------------------------ the getset loop *)
Section Loop.
  Variable ar : archive.
  Variable tmp : str.

  (* one iteration on a readable sample *)
  Lemma loop_step : forall n st k c,
    get_sample ar n <> None -> creatable (p_fs st) tmp = true ->
    sink_ok st k tmp -> out_content st (sink_path k) = Some c ->
    exists st1 k1, (forall rest, getset_loop ar (n :: rest) tmp st k = getset_loop ar rest tmp st1 k1) /\
      sink_ok st1 k1 tmp /\ sink_path k1 = sink_path k /\
      out_content st1 (sink_path k) = Some (c ++ sample_fasta ar n) /\
      fs_read (p_fs st1) tmp = Some (sample_fasta ar n) /\
      frame st st1 (sink_path k) tmp.
  Proof.
    intros n st k c Hr Hc Hok Hout.
    destruct (write_sample_fasta_ok ar n tmp (p_fs st) Hr Hc) as (fs1 & W & R & O & NC).
    assert (Hok1 : sink_ok (with_fs st fs1) k tmp).
    { destruct k as [|h]; cbn [sink_ok] in *; [exact I|]. destruct Hok as (Hne & c' & Hc' & Hoff).
      split; [assumption|]. exists c'. cbn [with_fs p_fs]. rewrite O by (intro; subst; apply Hne; reflexivity). auto. }
    assert (Hout1 : out_content (with_fs st fs1) (sink_path k) = Some c).
    { destruct k as [|h]; cbn [sink_path out_content with_fs p_fs p_stdout] in *; [assumption|].
      destruct Hok as (Hne & _). rewrite O by (intro; subst; apply Hne; reflexivity). assumption. }
    pose proof (sink_write_spec (with_fs st fs1) k tmp c (sample_fasta ar n) Hok1 Hout1) as S.
    cbn zeta in S. destruct S as (S1 & S2 & S3 & S4 & S5).
    exists (fst (sink_write (with_fs st fs1) k (sample_fasta ar n))),
           (snd (sink_write (with_fs st fs1) k (sample_fasta ar n))).
    split; [intro rest; cbn [getset_loop]; rewrite W, R; reflexivity|].
    split; [assumption|]. split; [assumption|]. split; [assumption|].
    split; [rewrite S4; cbn [with_fs p_fs]; assumption|].
    eapply frame_trans; [|exact S5].
    repeat split; cbn [with_fs p_fs p_stdout]; auto.
  Qed.

  (* all names readable: the loop succeeds and has appended every sample in request order *)
  Lemma loop_ok : forall names st k c,
    Forall (fun n => get_sample ar n <> None) names -> creatable (p_fs st) tmp = true ->
    sink_ok st k tmp -> out_content st (sink_path k) = Some c ->
    exists st', getset_loop ar names tmp st k = (true, st') /\
      out_content st' (sink_path k) = Some (c ++ concat (map (sample_fasta ar) names)) /\
      (names <> [] -> fs_read (p_fs st') tmp = Some (sample_fasta ar (last names []))) /\
      (names = [] -> st' = st) /\
      frame st st' (sink_path k) tmp.
  Proof.
    induction names as [|n names IH]; intros st k c Hall Hc Hok Hout.
    - exists st. cbn [getset_loop map concat]. rewrite app_nil_r.
      split; [reflexivity|]. split; [assumption|]. split; [intro H; contradiction H; reflexivity|].
      split; [reflexivity | apply frame_refl].
    - inversion Hall as [|? ? Hn Hrest]; subst.
      destruct (loop_step n st k c Hn Hc Hok Hout) as (st1 & k1 & E & Ok1 & P1 & O1 & T1 & F1).
      assert (Hc1 : creatable (p_fs st1) tmp = true).
      { unfold creatable in *. destruct F1 as (_ & _ & NC). rewrite NC. assumption. }
      rewrite <- P1 in O1.
      destruct (IH st1 k1 _ Hrest Hc1 Ok1 O1) as (st' & L & O' & T' & Nil' & F').
      rewrite P1 in *.
      exists st'. rewrite E. split; [assumption|].
      split; [cbn [map concat]; rewrite app_assoc; assumption|].
      split; [|split; [discriminate | eapply frame_trans; eassumption]].
      intros _. destruct names as [|m names'].
      + rewrite (Nil' eq_refl). cbn [last]. assumption.
      + cbn [last] in *. apply T'. discriminate.
  Qed.

  (* a sample that cannot be read stops the loop: Err, with exactly the earlier samples written *)
  Lemma loop_bad : forall good bad rest st k c,
    Forall (fun n => get_sample ar n <> None) good -> get_sample ar bad = None ->
    creatable (p_fs st) tmp = true ->
    sink_ok st k tmp -> out_content st (sink_path k) = Some c ->
    exists st', getset_loop ar (good ++ bad :: rest) tmp st k = (false, st') /\
      out_content st' (sink_path k) = Some (c ++ concat (map (sample_fasta ar) good)) /\
      (good <> [] -> fs_read (p_fs st') tmp = Some (sample_fasta ar (last good []))) /\
      (good = [] -> st' = st) /\
      frame st st' (sink_path k) tmp.
  Proof.
    induction good as [|n good IH]; intros bad rest st k c Hall Hbad Hc Hok Hout.
    - exists st. cbn [app getset_loop map concat]. rewrite (write_sample_fasta_none _ _ _ _ Hbad), app_nil_r.
      split; [reflexivity|]. split; [assumption|]. split; [intro H; contradiction H; reflexivity|].
      split; [reflexivity | apply frame_refl].
    - inversion Hall as [|? ? Hn Hrest]; subst.
      destruct (loop_step n st k c Hn Hc Hok Hout) as (st1 & k1 & E & Ok1 & P1 & O1 & T1 & F1).
      assert (Hc1 : creatable (p_fs st1) tmp = true).
      { unfold creatable in *. destruct F1 as (_ & _ & NC). rewrite NC. assumption. }
      rewrite <- P1 in O1.
      destruct (IH bad rest st1 k1 _ Hrest Hbad Hc1 Ok1 O1) as (st' & L & O' & T' & Nil' & F').
      rewrite P1 in *.
      exists st'. rewrite <- app_comm_cons, E. split; [assumption|].
      split; [cbn [map concat]; rewrite app_assoc; assumption|].
      split; [|split; [discriminate | eapply frame_trans; eassumption]].
      intros _. destruct good as [|m good'].
      + rewrite (Nil' eq_refl). cbn [last]. assumption.
      + cbn [last] in *. apply T'. discriminate.
  Qed.

  (* whatever the state: an unreadable name among the requested ones makes the loop return Err *)
  Lemma loop_exists_bad : forall names st k,
    Exists (fun n => get_sample ar n = None) names -> fst (getset_loop ar names tmp st k) = false.
  Proof.
    induction names as [|n names IH]; intros st k H; [inversion H|].
    cbn [getset_loop]. destruct (write_sample_fasta ar n tmp (p_fs st)) as [fs1|] eqn:W; [|reflexivity].
    destruct (fs_read fs1 tmp); [|reflexivity].
    apply IH. inversion H as [? ? Hb|? ? Hr]; subst; [|assumption].
    apply write_sample_fasta_some in W. destruct W as [W _]. contradiction.
  Qed.

  (* the loop returned Ok: every requested sample was readable *)
  Lemma loop_true_all : forall names st k st',
    getset_loop ar names tmp st k = (true, st') -> Forall (fun n => get_sample ar n <> None) names.
  Proof.
    induction names as [|n names IH]; intros st k st' H; [constructor|].
    cbn [getset_loop] in H. destruct (write_sample_fasta ar n tmp (p_fs st)) as [fs1|] eqn:W; [|discriminate].
    destruct (fs_read fs1 tmp); [|discriminate].
    constructor; [apply write_sample_fasta_some in W; tauto | eapply IH; eassumption].
  Qed.

  Lemma loop_true_creatable : forall names st k st', names <> [] ->
    getset_loop ar names tmp st k = (true, st') -> creatable (p_fs st) tmp = true.
  Proof.
    intros [|n names] st k st' Hne H; [contradiction Hne; reflexivity|].
    cbn [getset_loop] in H. destruct (write_sample_fasta ar n tmp (p_fs st)) as [fs1|] eqn:W; [|discriminate].
    apply write_sample_fasta_some in W. tauto.
  Qed.

  Lemma loop_uncreatable : forall names st k, names <> [] -> creatable (p_fs st) tmp = false ->
    fst (getset_loop ar names tmp st k) = false.
  Proof.
    intros names st k Hne Hc. destruct (getset_loop ar names tmp st k) as [[|] st'] eqn:E; [|reflexivity].
    apply loop_true_creatable in E; [congruence | assumption].
  Qed.
End Loop.

(* ------------------------------------------------------------------ getset_command *)
Lemma requested_names_proof : forall ar samples, requested ar samples None = samples.
Proof. reflexivity. Qed.

Lemma requested_prefix_archive_order_proof : forall ar samples p,
  requested ar samples (Some p) = filter (fun s => starts_with s p) (map fst ar).
Proof. reflexivity. Qed.

Lemma getset_composes_stdout_proof : forall decode arc samples prefix tmp st ar,
  open_archive decode (p_fs st) arc = Some ar ->
  requested ar samples prefix <> [] ->
  Forall (fun n => get_sample ar n <> None) (requested ar samples prefix) ->
  creatable (p_fs st) tmp = true ->
  exists st', getset_command decode arc samples prefix None tmp st = (Zero, st') /\
    p_stdout st' = p_stdout st ++ concat (map (sample_fasta ar) (requested ar samples prefix)) /\
    fs_read (p_fs st') tmp = None /\
    (forall q, q <> tmp -> fs_read (p_fs st') q = fs_read (p_fs st) q).
Proof.
  intros decode arc samples prefix tmp st ar Hopen Hne Hall Hc.
  unfold getset_command. rewrite Hopen.
  destruct (requested ar samples prefix) as [|n names] eqn:Er; [contradiction Hne; reflexivity|].
  destruct (loop_ok ar tmp (n :: names) st SinkStdout (p_stdout st) Hall Hc I eq_refl)
    as (st2 & L & O & T & _ & (F1 & _ & F3)).
  rewrite L. cbn [sink_path out_content] in *.
  specialize (T Hne). destruct (fs_remove_some _ _ _ T) as (fs3 & R). rewrite R.
  destruct (fs_remove_spec _ _ _ R) as (R1 & R2 & R3).
  eexists. split; [reflexivity|]. cbn [with_fs p_fs p_stdout].
  split; [injection O as O'; exact O'|]. split; [assumption|].
  intros q Hq. rewrite R2 by (intro; subst; apply Hq; reflexivity).
  apply F1; [intro; subst; apply Hq; reflexivity | discriminate].
Qed.

Lemma getset_composes_file_proof : forall decode arc samples prefix out tmp st ar,
  open_archive decode (p_fs st) arc = Some ar ->
  requested ar samples prefix <> [] ->
  Forall (fun n => get_sample ar n <> None) (requested ar samples prefix) ->
  creatable (p_fs st) tmp = true -> creatable (p_fs st) out = true -> out <> tmp ->
  exists st', getset_command decode arc samples prefix (Some out) tmp st = (Zero, st') /\
    fs_read (p_fs st') out = Some (concat (map (sample_fasta ar) (requested ar samples prefix))) /\
    p_stdout st' = p_stdout st /\
    fs_read (p_fs st') tmp = None /\
    (forall q, q <> tmp -> q <> out -> fs_read (p_fs st') q = fs_read (p_fs st) q).
Proof.
  intros decode arc samples prefix out tmp st ar Hopen Hne Hall Hc Hco Hot.
  unfold getset_command. rewrite Hopen.
  destruct (requested ar samples prefix) as [|n names] eqn:Er; [contradiction Hne; reflexivity|].
  unfold fs_create. rewrite Hco.
  set (st1 := with_fs st (fs_set (p_fs st) out [])).
  assert (Hok : sink_ok st1 (SinkFile {| h_path := out; h_off := 0 |}) tmp).
  { cbn [sink_ok h_path h_off]. split; [assumption|]. exists []. split; [apply fs_read_set_same | reflexivity]. }
  assert (Hout : out_content st1 (sink_path (SinkFile {| h_path := out; h_off := 0 |})) = Some []).
  { cbn [sink_path out_content h_path]. apply fs_read_set_same. }
  assert (Hc1 : creatable (p_fs st1) tmp = true) by exact Hc.
  destruct (loop_ok ar tmp (n :: names) st1 _ [] Hall Hc1 Hok Hout) as (st2 & L & O & T & _ & (F1 & F2 & F3)).
  rewrite L. cbn [sink_path out_content h_path app] in *.
  specialize (T Hne). destruct (fs_remove_some _ _ _ T) as (fs3 & R). rewrite R.
  destruct (fs_remove_spec _ _ _ R) as (R1 & R2 & R3).
  eexists. split; [reflexivity|]. cbn [with_fs p_fs p_stdout].
  split; [rewrite R2 by (intro; subst; apply Hot; reflexivity); exact O|].
  split; [rewrite F2 by discriminate; reflexivity|]. split; [assumption|].
  intros q Hq1 Hq2. rewrite R2 by (intro; subst; apply Hq1; reflexivity).
  rewrite F1; [| intro; subst; apply Hq1; reflexivity | intro E; inversion E; subst; apply Hq2; reflexivity].
  subst st1. cbn [with_fs p_fs]. apply fs_read_set_other. intro; subst; apply Hq2; reflexivity.
Qed.

(* an unknown / unreadable sample: Err after exactly the earlier samples were written; the temp file stays *)
Lemma getset_unknown_nonzero_proof : forall decode arc samples prefix output tmp st ar good bad rest,
  open_archive decode (p_fs st) arc = Some ar ->
  requested ar samples prefix = good ++ bad :: rest ->
  Forall (fun n => get_sample ar n <> None) good -> get_sample ar bad = None ->
  creatable (p_fs st) tmp = true ->
  (forall o, output = Some o -> o <> tmp /\ creatable (p_fs st) o = true) ->
  exists st', getset_command decode arc samples prefix output tmp st = (NonZero, st') /\
    match output with
    | None => p_stdout st' = p_stdout st ++ concat (map (sample_fasta ar) good)
    | Some o => fs_read (p_fs st') o = Some (concat (map (sample_fasta ar) good)) /\ p_stdout st' = p_stdout st
    end /\
    (good <> [] -> fs_read (p_fs st') tmp = Some (sample_fasta ar (last good []))) /\
    (good = [] -> fs_read (p_fs st') tmp = fs_read (p_fs st) tmp).
Proof.
  intros decode arc samples prefix output tmp st ar good bad rest Hopen Er Hall Hbad Hc Hout.
  unfold getset_command. rewrite Hopen, Er.
  assert (Hnn : exists n0 l0, good ++ bad :: rest = n0 :: l0) by (destruct good; cbn [app]; eauto).
  destruct Hnn as (n0 & l0 & En). rewrite En. cbv iota. rewrite <- En. clear En n0 l0.
  destruct output as [o|].
  - destruct (Hout o eq_refl) as (Hot & Hco). unfold fs_create. rewrite Hco.
    set (st1 := with_fs st (fs_set (p_fs st) o [])).
    assert (Hok : sink_ok st1 (SinkFile {| h_path := o; h_off := 0 |}) tmp).
    { cbn [sink_ok h_path h_off]. split; [assumption|]. exists []. split; [apply fs_read_set_same | reflexivity]. }
    assert (Ho : out_content st1 (sink_path (SinkFile {| h_path := o; h_off := 0 |})) = Some []).
    { cbn [sink_path out_content h_path]. apply fs_read_set_same. }
    assert (Hc1 : creatable (p_fs st1) tmp = true) by exact Hc.
    destruct (loop_bad ar tmp good bad rest st1 _ [] Hall Hbad Hc1 Hok Ho) as (st2 & L & O & T & Nil & (F1 & F2 & F3)).
    rewrite L. cbn [sink_path out_content h_path app] in *.
    exists st2. split; [reflexivity|]. split; [split; [exact O | rewrite F2 by discriminate; reflexivity]|].
    split; [assumption|]. intro Hg. rewrite (Nil Hg). subst st1. cbn [with_fs p_fs].
    apply fs_read_set_other. assumption.
  - destruct (loop_bad ar tmp good bad rest st SinkStdout (p_stdout st) Hall Hbad Hc I eq_refl)
      as (st2 & L & O & T & Nil & _).
    rewrite L. cbn [sink_path out_content] in *.
    exists st2. split; [reflexivity|]. split; [injection O as O'; exact O'|].
    split; [assumption|]. intro Hg. rewrite (Nil Hg). reflexivity.
Qed.

(* exit 0 tells the truth: everything requested was readable and has been written, in order *)
Lemma getset_zero_complete_proof : forall decode arc samples prefix output tmp st st',
  getset_command decode arc samples prefix output tmp st = (Zero, st') ->
  output <> Some tmp ->
  exists ar, open_archive decode (p_fs st) arc = Some ar /\
    requested ar samples prefix <> [] /\
    Forall (fun n => get_sample ar n <> None) (requested ar samples prefix) /\
    match output with
    | None => p_stdout st' = p_stdout st ++ concat (map (sample_fasta ar) (requested ar samples prefix))
    | Some o => fs_read (p_fs st') o = Some (concat (map (sample_fasta ar) (requested ar samples prefix)))
    end.
Proof.
  intros decode arc samples prefix output tmp st st' H Hot.
  pose proof H as H0. unfold getset_command in H.
  destruct (open_archive decode (p_fs st) arc) as [ar|] eqn:Hopen; [|discriminate].
  exists ar. split; [reflexivity|].
  destruct (requested ar samples prefix) as [|n names] eqn:Er; [discriminate|].
  assert (Hne : n :: names <> []) by discriminate.
  split; [assumption|].
  destruct output as [o|].
  - destruct (fs_create (p_fs st) o) as [fs1|] eqn:Ec; [|discriminate].
    destruct (getset_loop ar (n :: names) tmp (with_fs st fs1) _) as [[|] st2] eqn:L; [|discriminate].
    pose proof (loop_true_all _ _ _ _ _ _ L) as Hall. split; [assumption|].
    pose proof (loop_true_creatable _ _ _ _ _ _ Hne L) as Hc.
    apply fs_create_spec in Ec. destruct Ec as (Hco & ->).
    assert (Hot' : o <> tmp) by (intro; subst; apply Hot; reflexivity).
    rewrite <- Er in Hall, Hne.
    destruct (getset_composes_file_proof decode arc samples prefix o tmp st ar Hopen Hne Hall Hc Hco Hot')
      as (st'' & E & A & _).
    rewrite H0 in E. inversion E; subst. rewrite Er in A. exact A.
  - destruct (getset_loop ar (n :: names) tmp st SinkStdout) as [[|] st2] eqn:L; [|discriminate].
    pose proof (loop_true_all _ _ _ _ _ _ L) as Hall. split; [assumption|].
    pose proof (loop_true_creatable _ _ _ _ _ _ Hne L) as Hc.
    rewrite <- Er in Hall, Hne.
    destruct (getset_composes_stdout_proof decode arc samples prefix tmp st ar Hopen Hne Hall Hc)
      as (st'' & E & A & _).
    rewrite H0 in E. inversion E; subst. rewrite Er in A. exact A.
Qed.

(* ------------------------------------------------------------------ listset / listctg *)
Lemma emit_lines_ok : forall ls output st,
  (forall o, output = Some o -> creatable (p_fs st) o = true) ->
  exists st', emit_lines ls output st = (Zero, st') /\
    match output with
    | None => p_stdout st' = p_stdout st ++ lines ls /\ p_fs st' = p_fs st
    | Some o => fs_read (p_fs st') o = Some (lines ls) /\ p_stdout st' = p_stdout st /\
                (forall q, o <> q -> fs_read (p_fs st') q = fs_read (p_fs st) q)
    end.
Proof.
  intros ls output st Hc. unfold emit_lines. destruct output as [o|].
  - unfold fs_create. rewrite (Hc o eq_refl).
    pose proof (fs_write_all_append (map (fun s => s ++ [ch_nl]) ls) (fs_set (p_fs st) o []) o []
                  (fs_read_set_same _ _ _)) as W.
    cbn zeta in W. cbn [length app] in W. destruct W as (A & _ & C & _).
    eexists. split; [reflexivity|]. cbn [with_fs p_fs p_stdout].
    split; [exact A|]. split; [reflexivity|].
    intros q Hq. rewrite C by assumption. apply fs_read_set_other. assumption.
  - eexists. split; [reflexivity|]. split; reflexivity.
Qed.

Lemma emit_lines_uncreatable : forall ls o st, creatable (p_fs st) o = false ->
  emit_lines ls (Some o) st = (NonZero, st).
Proof. intros. unfold emit_lines, fs_create. rewrite H. reflexivity. Qed.

Lemma listset_ok_proof : forall decode arc output st ar,
  open_archive decode (p_fs st) arc = Some ar ->
  (forall o, output = Some o -> creatable (p_fs st) o = true) ->
  exists st', listset_command decode arc output st = (Zero, st') /\
    match output with
    | None => p_stdout st' = p_stdout st ++ lines (map fst ar) /\ p_fs st' = p_fs st
    | Some o => fs_read (p_fs st') o = Some (lines (map fst ar)) /\ p_stdout st' = p_stdout st /\
                (forall q, o <> q -> fs_read (p_fs st') q = fs_read (p_fs st) q)
    end.
Proof.
  intros decode arc output st ar Hopen Hc. unfold listset_command. rewrite Hopen.
  apply emit_lines_ok. assumption.
Qed.

Lemma listctg_lines_ok : forall ar samples,
  Forall (fun s => find_sample ar s <> None) samples ->
  listctg_lines ar samples =
  Some (flat_map (fun s => map (fun c => s ++ [ch_tab] ++ c)
                               (match list_contigs ar s with Some l => l | None => [] end)) samples).
Proof.
  intros ar samples H. induction H as [|s samples Hs _ IH]; [reflexivity|].
  cbn [listctg_lines flat_map]. unfold list_contigs in *.
  destruct (find_sample ar s); [|contradiction]. rewrite IH. reflexivity.
Qed.

Lemma listctg_lines_bad : forall ar samples,
  Exists (fun s => find_sample ar s = None) samples -> listctg_lines ar samples = None.
Proof.
  intros ar samples H. induction H as [s samples Hs|s samples _ IH]; cbn [listctg_lines]; unfold list_contigs.
  - rewrite Hs. reflexivity.
  - destruct (find_sample ar s); [rewrite IH|]; reflexivity.
Qed.

Lemma listctg_ok_proof : forall decode arc samples output st ar,
  open_archive decode (p_fs st) arc = Some ar ->
  Forall (fun s => find_sample ar s <> None) samples ->
  (forall o, output = Some o -> creatable (p_fs st) o = true) ->
  exists st', listctg_command decode arc samples output st = (Zero, st') /\
    let text := lines (flat_map (fun s => map (fun c => s ++ [ch_tab] ++ c)
                    (match list_contigs ar s with Some l => l | None => [] end)) samples) in
    match output with
    | None => p_stdout st' = p_stdout st ++ text /\ p_fs st' = p_fs st
    | Some o => fs_read (p_fs st') o = Some text /\ p_stdout st' = p_stdout st /\
                (forall q, o <> q -> fs_read (p_fs st') q = fs_read (p_fs st) q)
    end.
Proof.
  intros decode arc samples output st ar Hopen Hall Hc. unfold listctg_command.
  rewrite Hopen, (listctg_lines_ok _ _ Hall). apply emit_lines_ok. assumption.
Qed.

(* ------------------------------------------------------------------ create *)
Lemma create_zero_implies_archive_proof : forall f output pr st st',
  create_archive f output pr st = (Zero, st') ->
  exists cap nt cg bytes, create_dispatch f = DProceed cap nt cg /\ pr = PipeFinalized bytes /\
    fs_read (p_fs st') output = Some bytes /\ p_stdout st' = p_stdout st.
Proof.
  intros f output pr st st' H. unfold create_archive in H.
  destruct (create_dispatch f) as [e|cap nt cg]; [discriminate|].
  destruct pr as [[b|]|b]; try discriminate.
  inversion H; subst. exists cap, nt, cg, b. cbn [with_fs p_fs p_stdout].
  repeat split; try reflexivity. apply fs_read_set_same.
Qed.

Lemma cap_err_cases : forall (o : outcome N), (exists v, o = Ok v) \/ (forall v, o <> Ok v).
Proof. intros [v| |]; [left; eauto | right; discriminate | right; discriminate]. Qed.

Lemma dispatch_proceed_inv : forall f cap nt cg, create_dispatch f = DProceed cap nt cg ->
  f_batch f = false /\ f_adaptive f = false /\ f_concatenated f = false /\ f_cpp_agc f = false /\
  f_output_utf8 f = true /\ f_ninputs f <> 0 /\ parse_capacity (f_checked f) (f_qcap f) = Ok cap /\
  nt = num_threads_of f.
Proof.
  intros f cap nt cg H. unfold create_dispatch in H.
  destruct ((0 <? f_verbosity f) && negb (f_batch f));
    [destruct (parse_capacity (f_checked f) (f_qcap f)) eqn:P0; cbn [cap_err] in H; try discriminate|];
    (destruct (f_cpp_agc f); [discriminate|]; destruct (f_batch f); cbn [negb] in H; [discriminate|];
     destruct (f_adaptive f); cbn [orb] in H; [discriminate|];
     destruct (f_concatenated f); cbn [orb] in H; [discriminate|];
     destruct (f_output_utf8 f); cbn [negb] in H; [|discriminate];
     destruct (parse_capacity (f_checked f) (f_qcap f)) eqn:P; cbn [cap_err] in H; try discriminate;
     destruct (f_ninputs f =? 0) eqn:Z; [discriminate|]; inversion H; subst;
     apply N.eqb_neq in Z; repeat split; try reflexivity; try assumption).
Qed.

Lemma create_dispatch_proceeds_iff_proof : forall f,
  (exists cap nt cg, create_dispatch f = DProceed cap nt cg) <->
  (f_batch f = false /\ f_adaptive f = false /\ f_concatenated f = false /\ f_cpp_agc f = false /\
   f_output_utf8 f = true /\ f_ninputs f <> 0 /\ exists cap, parse_capacity (f_checked f) (f_qcap f) = Ok cap).
Proof.
  intro f. split.
  - intros (cap & nt & cg & H). apply dispatch_proceed_inv in H.
    destruct H as (A & B & C & D & E & F & G & _). repeat split; try assumption. exists cap. assumption.
  - intros (A & B & C & D & E & F & (cap & G)). unfold create_dispatch.
    rewrite A, B, C, D, E, G. apply N.eqb_neq in F. cbn [negb andb orb cap_err].
    destruct (0 <? f_verbosity f); cbn [andb cap_err]; rewrite F; do 3 eexists; reflexivity.
Qed.

Lemma create_failures : forall f output pr st,
  f_batch f = true \/ f_adaptive f = true \/ f_concatenated f = true \/ f_cpp_agc f = true \/
  f_output_utf8 f = false \/ f_ninputs f = 0 \/
  (forall v, parse_capacity (f_checked f) (f_qcap f) <> Ok v) \/
  (exists l, pr = PipeFail l) ->
  fst (create_archive f output pr st) = NonZero.
Proof.
  intros f output pr st H. unfold create_archive.
  destruct (create_dispatch f) as [e|cap nt cg] eqn:D; [reflexivity|].
  assert (P : exists cap nt cg, create_dispatch f = DProceed cap nt cg) by eauto.
  apply create_dispatch_proceeds_iff_proof in P.
  destruct P as (P1 & P2 & P3 & P4 & P5 & P6 & (c & P7)).
  destruct H as [H|[H|[H|[H|[H|[H|[H|(l & H)]]]]]]]; try congruence;
    try (exfalso; apply (H c); assumption).
  subst pr. destruct l; reflexivity.
Qed.

Lemma num_threads_positive_proof : forall f cap nt cg,
  1 <= f_ncpus f -> create_dispatch f = DProceed cap nt cg -> 1 <= nt.
Proof.
  intros f cap nt cg Hn H. apply dispatch_proceed_inv in H.
  destruct H as (_ & _ & _ & _ & _ & _ & _ & ->).
  unfold num_threads_of, auto_threads.
  destruct (f_threads f) as [t|]; [destruct (0 <? t) eqn:T; [apply N.ltb_lt in T; lia|]|];
    (destruct (f_ncpus f <? 8) eqn:E; [assumption | apply N.ltb_ge in E; lia]).
Qed.

(* create exits 0, and what finalize wrote decodes to an archive registering every input sample (C01/C15):
   listset on the result prints every input sample *)
Lemma create_then_listset_proof : forall decode f output pr st st' ar inputs,
  create_archive f output pr st = (Zero, st') ->
  (forall bytes, pr = PipeFinalized bytes -> decode bytes = Some ar /\ incl inputs (map fst ar)) ->
  exists st'', listset_command decode output None st' = (Zero, st'') /\
    p_stdout st'' = p_stdout st' ++ lines (map fst ar) /\
    (forall s, In s inputs -> In s (map fst ar)).
Proof.
  intros decode f output pr st st' ar inputs H Hpipe.
  destruct (create_zero_implies_archive_proof _ _ _ _ _ H) as (cap & nt & cg & b & _ & Hpr & Hr & _).
  destruct (Hpipe b Hpr) as (Hd & Hin).
  assert (Hopen : open_archive decode (p_fs st') output = Some ar) by (unfold open_archive; rewrite Hr; exact Hd).
  destruct (listset_ok_proof decode output None st' ar Hopen) as (st'' & E & A & _); [discriminate|].
  exists st''. split; [assumption|]. split; [assumption|]. exact Hin.
Qed.

(* ------------------------------------------------------------------ every error path exits non-zero *)
Lemma getset_failures : forall decode arc samples prefix output tmp st,
  open_archive decode (p_fs st) arc = None \/
  (exists ar, open_archive decode (p_fs st) arc = Some ar /\
     (requested ar samples prefix = [] \/
      Exists (fun n => get_sample ar n = None) (requested ar samples prefix) \/
      (exists o, output = Some o /\ creatable (p_fs st) o = false) \/
      creatable (p_fs st) tmp = false)) ->
  fst (getset_command decode arc samples prefix output tmp st) = NonZero.
Proof.
  intros decode arc samples prefix output tmp st H. unfold getset_command.
  destruct H as [H|(ar & Hopen & H)]; [rewrite H; reflexivity|]. rewrite Hopen.
  destruct (requested ar samples prefix) as [|n names] eqn:Er; [reflexivity|].
  destruct H as [H|[H|[(o & -> & H)|H]]]; [discriminate| | |].
  - destruct output as [o|]; [destruct (fs_create (p_fs st) o); [|reflexivity]|];
      match goal with |- context [getset_loop ?a ?b ?c ?d ?e] =>
        pose proof (loop_exists_bad a c b d e H) as L; destruct (getset_loop a b c d e) as [[|] st2] end;
      cbn [fst] in L; try discriminate; reflexivity.
  - unfold fs_create. rewrite H. reflexivity.
  - assert (Hne : n :: names <> []) by discriminate.
    destruct output as [o|]; [destruct (fs_create (p_fs st) o) as [fs1|] eqn:Ec; [|reflexivity]|].
    + apply fs_create_spec in Ec. destruct Ec as (_ & ->).
      pose proof (loop_uncreatable ar tmp (n :: names) (with_fs st (fs_set (p_fs st) o []))
                    (SinkFile {| h_path := o; h_off := 0 |}) Hne H) as L.
      destruct (getset_loop ar (n :: names) tmp _ _) as [[|] st2]; cbn [fst] in L; try discriminate; reflexivity.
    + pose proof (loop_uncreatable ar tmp (n :: names) st SinkStdout Hne H) as L.
      destruct (getset_loop ar (n :: names) tmp _ _) as [[|] st2]; cbn [fst] in L; try discriminate; reflexivity.
Qed.

Lemma failures_nonzero_proof : forall decode tmp st,
  (forall arc samples prefix output,
     open_archive decode (p_fs st) arc = None \/
     (exists ar, open_archive decode (p_fs st) arc = Some ar /\
        (requested ar samples prefix = [] \/
         Exists (fun n => get_sample ar n = None) (requested ar samples prefix) \/
         (exists o, output = Some o /\ creatable (p_fs st) o = false) \/
         creatable (p_fs st) tmp = false)) ->
     fst (run_main decode tmp (CmdGetset arc samples prefix output) st) = NonZero) /\
  (forall arc output,
     open_archive decode (p_fs st) arc = None \/
     (exists o, output = Some o /\ creatable (p_fs st) o = false) ->
     fst (run_main decode tmp (CmdListset arc output) st) = NonZero) /\
  (forall arc samples output,
     open_archive decode (p_fs st) arc = None \/
     (exists ar, open_archive decode (p_fs st) arc = Some ar /\
                 Exists (fun s => find_sample ar s = None) samples) \/
     (exists o, output = Some o /\ creatable (p_fs st) o = false) ->
     fst (run_main decode tmp (CmdListctg arc samples output) st) = NonZero) /\
  (forall f output pr,
     f_batch f = true \/ f_adaptive f = true \/ f_concatenated f = true \/ f_cpp_agc f = true \/
     f_output_utf8 f = false \/ f_ninputs f = 0 \/
     (forall v, parse_capacity (f_checked f) (f_qcap f) <> Ok v) \/
     (exists l, pr = PipeFail l) ->
     fst (run_main decode tmp (CmdCreate f output pr) st) = NonZero) /\
  (forall arc, fst (run_main decode tmp (CmdInfo arc) st) = NonZero).
Proof.
  intros decode tmp st. split; [|split; [|split; [|split]]].
  - intros. cbn [run_main]. apply getset_failures. assumption.
  - intros arc output H. cbn [run_main]. unfold listset_command.
    destruct H as [H|(o & -> & H)]; [rewrite H; reflexivity|].
    destruct (open_archive decode (p_fs st) arc); [|reflexivity].
    rewrite emit_lines_uncreatable by assumption. reflexivity.
  - intros arc samples output H. cbn [run_main]. unfold listctg_command.
    destruct H as [H|[(ar & Hopen & H)|(o & -> & H)]].
    + rewrite H. reflexivity.
    + rewrite Hopen, (listctg_lines_bad _ _ H). reflexivity.
    + destruct (open_archive decode (p_fs st) arc); [|reflexivity].
      destruct (listctg_lines a samples); [|reflexivity].
      rewrite emit_lines_uncreatable by assumption. reflexivity.
  - intros. cbn [run_main]. apply create_failures. assumption.
  - reflexivity.
Qed.

(* ------------------------------------------------------------------ 80-column wrapping *)
Lemma chunks_fuel_spec : forall fuel l, (length l <= fuel)%nat ->
  concat (chunks_fuel fuel l) = l /\
  Forall (fun c => (1 <= length c <= 80)%nat) (chunks_fuel fuel l) /\
  Forall (fun c => length c = 80%nat) (removelast (chunks_fuel fuel l)).
Proof.
  induction fuel as [|f IH]; intros l Hl.
  - destruct l; [|cbn [length] in Hl; lia]. cbn [chunks_fuel concat removelast]. auto.
  - destruct l as [|x l']; [cbn [chunks_fuel concat removelast]; auto|].
    set (l := x :: l') in *. assert (Hpos : (1 <= length l)%nat) by (subst l; cbn [length]; lia).
    change (chunks_fuel (S f) l) with (firstn 80 l :: chunks_fuel f (skipn 80 l)).
    assert (Hs : (length (skipn 80 l) <= f)%nat) by (rewrite skipn_length; lia).
    destruct (IH _ Hs) as (A & B & C).
    split; [cbn [concat]; rewrite A; apply firstn_skipn|].
    split.
    + constructor; [rewrite firstn_length; lia | assumption].
    + destruct (chunks_fuel f (skipn 80 l)) as [|c cs] eqn:E; [constructor|].
      change (removelast (firstn 80 l :: c :: cs)) with (firstn 80 l :: removelast (c :: cs)).
      constructor; [|assumption].
      rewrite firstn_length. apply Nat.min_l.
      destruct (skipn 80 l) as [|y r] eqn:Es.
      * destruct f; discriminate E.
      * assert (length (skipn 80 l) = S (length r)) by (rewrite Es; reflexivity).
        rewrite skipn_length in H. lia.
Qed.

Lemma wrap80_proof : forall l,
  concat (chunks80 l) = l /\
  Forall (fun c => (1 <= length c <= 80)%nat) (chunks80 l) /\
  Forall (fun c => length c = 80%nat) (removelast (chunks80 l)).
Proof. intro l. apply chunks_fuel_spec. apply Nat.le_refl. Qed.

(* ------------------------------------------------------------------ parse_capacity *)
Definition dstep (a c : N) : N := a * 10 + (c - 48).

Lemma fold_dstep_ge : forall ds a, a <= fold_left dstep ds a.
Proof.
  induction ds as [|c r IH]; intro a; cbn [fold_left]; [lia|].
  eapply N.le_trans; [|apply IH]. unfold dstep. lia.
Qed.

Lemma parse_digits_spec : forall ds acc, forallb is_digit ds = true -> acc < two64 ->
  parse_digits acc ds = if fold_left dstep ds acc <? two64 then Some (fold_left dstep ds acc) else None.
Proof.
  induction ds as [|c r IH]; intros acc H Hacc.
  - cbn [parse_digits fold_left]. apply N.ltb_lt in Hacc. rewrite Hacc. reflexivity.
  - cbn [forallb] in H. apply andb_true_iff in H. destruct H as [Hc Hr].
    cbn [parse_digits fold_left]. rewrite Hc. fold (dstep acc c).
    destruct (dstep acc c <? two64) eqn:E; [apply IH; [assumption | apply N.ltb_lt; assumption]|].
    apply N.ltb_ge in E. pose proof (fold_dstep_ge r (dstep acc c)) as G.
    destruct (fold_left dstep r (dstep acc c) <? two64) eqn:E2; [|reflexivity].
    apply N.ltb_lt in E2. lia.
Qed.

Lemma parse_usize_digits : forall ds, ds <> [] -> forallb is_digit ds = true -> dec_value ds < two64 ->
  parse_usize ds = Some (dec_value ds).
Proof.
  intros ds Hne Hd Hv. destruct ds as [|c r]; [contradiction Hne; reflexivity|].
  unfold parse_usize. assert (Hc : c =? 43 = false).
  { cbn [forallb] in Hd. apply andb_true_iff in Hd. destruct Hd as [Hc _]. unfold is_digit in Hc.
    apply andb_true_iff in Hc. destruct Hc as [Hc _]. apply N.leb_le in Hc. apply N.eqb_neq. lia. }
  rewrite Hc, (parse_digits_spec _ _ Hd) by reflexivity. unfold dec_value in Hv. fold dstep in Hv.
  apply N.ltb_lt in Hv. unfold dec_value. fold dstep. rewrite Hv. reflexivity.
Qed.

Lemma trim_start_nows : forall s, forallb (fun c => negb (is_ws c)) s = true -> trim_start s = s.
Proof.
  intros [|c r] H; [reflexivity|]. cbn [forallb] in H. apply andb_true_iff in H. destruct H as [H _].
  cbn [trim_start]. destruct (is_ws c); [discriminate | reflexivity].
Qed.

Lemma forallb_rev : forall (f : N -> bool) s, forallb f s = true -> forallb f (rev s) = true.
Proof.
  intros f s H. apply forallb_forall. intros x Hx. apply in_rev in Hx.
  rewrite forallb_forall in H. apply H. assumption.
Qed.

Lemma trim_nows : forall s, forallb (fun c => negb (is_ws c)) s = true -> trim s = s.
Proof.
  intros s H. unfold trim. rewrite (trim_start_nows s H).
  rewrite (trim_start_nows (rev s) (forallb_rev _ _ H)). apply rev_involutive.
Qed.

Lemma digit_facts : forall c, is_digit c = true -> is_ws c = false /\ upper c = c /\ c <> 75 /\ c <> 77 /\ c <> 71.
Proof.
  intros c H. unfold is_digit in H. apply andb_true_iff in H. destruct H as [H1 H2].
  apply N.leb_le in H1. apply N.leb_le in H2. unfold is_ws, upper.
  repeat split; try lia.
  - destruct (9 <=? c) eqn:A, (c <=? 13) eqn:B, (c =? 32) eqn:C; cbn [andb orb]; try reflexivity;
      try (apply N.leb_le in B; lia); apply N.eqb_eq in C; lia.
  - destruct (97 <=? c) eqn:A; cbn [andb]; [apply N.leb_le in A; lia | reflexivity].
Qed.

Lemma digits_nows : forall ds, forallb is_digit ds = true -> forallb (fun c => negb (is_ws c)) ds = true.
Proof.
  intros ds H. apply forallb_forall. intros x Hx. rewrite forallb_forall in H.
  destruct (digit_facts x (H x Hx)) as (W & _). rewrite W. reflexivity.
Qed.

Lemma digits_upper : forall ds, forallb is_digit ds = true -> map upper ds = ds.
Proof.
  induction ds as [|c r IH]; intro H; [reflexivity|]. cbn [forallb] in H. apply andb_true_iff in H.
  destruct H as [Hc Hr]. cbn [map]. rewrite (IH Hr). destruct (digit_facts c Hc) as (_ & U & _). rewrite U. reflexivity.
Qed.

Lemma strip_suffix_snoc : forall s x y, strip_suffix (s ++ [x]) y = if x =? y then Some s else None.
Proof. intros. unfold strip_suffix. rewrite rev_app_distr. cbn [rev app]. rewrite rev_involutive. reflexivity. Qed.

Lemma strip_suffix_digits : forall ds y, ds <> [] -> forallb is_digit ds = true -> is_digit y = false ->
  strip_suffix ds y = None.
Proof.
  intros ds y Hne Hd Hy. destruct (exists_last Hne) as (s & x & ->).
  rewrite strip_suffix_snoc. rewrite forallb_app in Hd. apply andb_true_iff in Hd. destruct Hd as [_ Hx].
  cbn [forallb] in Hx. rewrite andb_true_r in Hx.
  destruct (x =? y) eqn:E; [apply N.eqb_eq in E; congruence | reflexivity].
Qed.

(* a letter suffix: trimming and upper-casing leave  digits ++ [upper c] *)
Lemma normalise_suffixed : forall ds c, forallb is_digit ds = true -> is_ws c = false ->
  map upper (trim (ds ++ [c])) = ds ++ [upper c].
Proof.
  intros ds c Hd Hc. rewrite trim_nows.
  - rewrite map_app, (digits_upper _ Hd). reflexivity.
  - rewrite forallb_app, (digits_nows _ Hd). cbn [forallb]. rewrite Hc. reflexivity.
Qed.

Lemma parse_capacity_spec_proof : forall ck ds, ds <> [] -> forallb is_digit ds = true ->
  (dec_value ds < two64 -> parse_capacity ck ds = Ok (dec_value ds)) /\
  (forall c, c = 75 \/ c = 107 -> dec_value ds * 1024 < two64 ->
     parse_capacity ck (ds ++ [c]) = Ok (dec_value ds * 1024)) /\
  (forall c, c = 77 \/ c = 109 -> dec_value ds * 1048576 < two64 ->
     parse_capacity ck (ds ++ [c]) = Ok (dec_value ds * 1048576)) /\
  (forall c, c = 71 \/ c = 103 -> dec_value ds * 1073741824 < two64 ->
     parse_capacity ck (ds ++ [c]) = Ok (dec_value ds * 1073741824)).
Proof.
  intros ck ds Hne Hd.
  assert (K : forall v m, v * m < two64 -> mul_cap ck (Ok v) m = Ok (v * m)).
  { intros v m H. unfold mul_cap. apply N.ltb_lt in H. rewrite H. reflexivity. }
  split; [|split; [|split]].
  - intro Hv. unfold parse_capacity. rewrite (trim_nows _ (digits_nows _ Hd)), (digits_upper _ Hd).
    rewrite !strip_suffix_digits by (assumption || reflexivity).
    rewrite (parse_usize_digits _ Hne Hd Hv). reflexivity.
  - intros c Hc Hv. unfold parse_capacity.
    rewrite normalise_suffixed by (assumption || (destruct Hc; subst; reflexivity)).
    replace (upper c) with 75 by (destruct Hc; subst; reflexivity).
    rewrite strip_suffix_snoc. cbn [N.eqb Pos.eqb].
    rewrite (parse_usize_digits _ Hne Hd) by (unfold two64 in *; lia). cbn [parsed]. apply K. assumption.
  - intros c Hc Hv. unfold parse_capacity.
    rewrite normalise_suffixed by (assumption || (destruct Hc; subst; reflexivity)).
    replace (upper c) with 77 by (destruct Hc; subst; reflexivity).
    rewrite !strip_suffix_snoc. cbn [N.eqb Pos.eqb].
    rewrite (parse_usize_digits _ Hne Hd) by (unfold two64 in *; lia). cbn [parsed].
    rewrite K by (unfold two64 in *; lia). rewrite K by (unfold two64 in *; lia). f_equal. lia.
  - intros c Hc Hv. unfold parse_capacity.
    rewrite normalise_suffixed by (assumption || (destruct Hc; subst; reflexivity)).
    replace (upper c) with 71 by (destruct Hc; subst; reflexivity).
    rewrite !strip_suffix_snoc. cbn [N.eqb Pos.eqb].
    rewrite (parse_usize_digits _ Hne Hd) by (unfold two64 in *; lia). cbn [parsed].
    rewrite K by (unfold two64 in *; lia). rewrite K by (unfold two64 in *; lia).
    rewrite K by (unfold two64 in *; lia). f_equal. lia.
Qed.
