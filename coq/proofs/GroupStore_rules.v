(* GroupStore_rules.v - the C02 addressing rules as corollaries of the group-store invariant, absence of traps,
   and independence from round boundaries. *)
From Coq Require Import Lia ZifyBool ZifyN ZifyNat Permutation.
From Ragc Require Import Mach Consts_groupstore SegReader GroupStore GroupStore_base GroupStore_inv GroupStore_proofs.
Open Scope N_scope.
Arguments N.add : simpl never.
Arguments N.sub : simpl never.
Arguments N.mul : simpl never.
Arguments N.div : simpl never.
Arguments N.modulo : simpl never.
Arguments N.max : simpl never.
Arguments N.of_nat : simpl never.
Arguments N.to_nat : simpl never.

Section RulesW.
  Variable lz_enc : list N -> list N -> list N.
  Variable compress_ref : list N -> list N * N.
  Variable compress_pack : list N -> list N.

  Notation Inv' := (Inv lz_enc compress_ref compress_pack).
  Notation mkpart' := (mkpart compress_pack).
  Notation ref_part' := (ref_part compress_ref).
  Notation run' := (run lz_enc compress_ref compress_pack).
  Notation run_from' := (run_from lz_enc compress_ref compress_pack).
  Notation gstep' := (gstep lz_enc compress_ref compress_pack).
  Notation process' := (process lz_enc compress_ref compress_pack).
  Notation add_one' := (add_one lz_enc compress_pack).
  Notation add_all' := (add_all lz_enc compress_pack).
  Notation finalize_group' := (finalize_group compress_pack).
  Notation finalize' := (finalize compress_pack).
  Notation GInv' := (GInv lz_enc compress_ref compress_pack).
  Notation GInvOf' := (GInvOf lz_enc compress_ref compress_pack).

  Theorem every_segment_registered_proof : forall ops st g,
    run' ops = Ok st -> Permutation (map fst (regs_of st g)) (segs_of ops g).
  Proof. intros ops st g H. destruct (run_inv _ _ _ _ _ H) as [_ HP]. apply HP. Qed.

  (* ---------------------------------------------------------------- no trap *)
  Lemma add_one_progress : forall lz buf rp dp regs packs ents s,
    Inv' lz buf rp dp regs packs ents -> lenN ents + 2 < two32 ->
    exists r, add_one' lz buf s = Ok r.
  Proof.
    intros lz buf rp dp regs packs ents s HI Hb. unfold add_one.
    match goal with |- context [is_nil ?cd] => set (cd0 := cd) end.
    destruct (lz && is_nil cd0); [eexists; reflexivity|].
    destruct (position cd0 (b_pending buf) 0) as [idx|] eqn:Ep.
    - apply position_some in Ep. destruct Ep as [k [Hidx Hk]].
      destruct (inv_suffix _ _ _ _ _ _ _ _ _ _ HI) as [pre [_ Hids]].
      assert (Hlt : (k < length (b_pending buf))%nat) by (apply nth_error_Some; congruence).
      unfold nthN. replace (N.to_nat idx) with k by lia.
      destruct (nth_error (b_pending_ids buf) k) eqn:En; [eexists; reflexivity|].
      exfalso. apply nth_error_None in En. rewrite Hids in En. rewrite map_length, seq_length in En. lia.
    - rewrite w_first_id_1. pose proof (inv_written _ _ _ _ _ _ _ _ _ _ HI) as Hw. rewrite Hw.
      unfold add_u32. replace (lenN ents + 1 + 1 <? two32) with true by (symmetry; apply N.ltb_lt; lia).
      match goal with |- context [if ?c then _ else _] => destruct c end; eexists; reflexivity.
  Qed.

  Lemma add_all_progress : forall lz segs buf rp dp regs packs ents,
    Inv' lz buf rp dp regs packs ents -> (lz = true -> b_reference buf <> None) ->
    N.of_nat (length regs) + lenN segs + 2 < two32 ->
    exists r, add_all' lz buf segs = Ok r.
  Proof.
    intros lz segs. induction segs as [|s tl IH]; intros buf rp dp regs packs ents HI Href Hb.
    - eexists; reflexivity.
    - cbn [add_all]. pose proof (inv_count _ _ _ _ _ _ _ _ _ _ HI) as Hc.
      rewrite lenN_cons in Hb.
      destruct (add_one_progress lz buf rp dp regs packs ents s HI) as [[[b1 p1] id] E1].
      { unfold lenN. lia. }
      rewrite E1. cbn [obnd].
      destruct (add_one_inv _ _ _ _ _ _ _ _ _ _ _ _ _ _ HI Href E1) as [Hr1 [_ [packs1 [ents1 HI1]]]].
      destruct (IH b1 rp (dp ++ p1) (regs ++ [(s, id)]) packs1 ents1 HI1) as [[[b2 p2] r2] E2].
      { rewrite Hr1. exact Href. }
      { rewrite app_length. cbn [length]. lia. }
      rewrite E2. cbn [obnd]. eexists; reflexivity.
  Qed.

  Lemma process_progress : forall g buf rp dp regs packs ents sorted,
    Inv' (is_lz g) buf rp dp regs packs ents ->
    N.of_nat (length regs) + lenN sorted + 2 < two32 ->
    exists o, process' g buf sorted = Ok o.
  Proof.
    intros g buf rp dp regs packs ents sorted HI Hb. unfold is_lz in *. unfold process.
    destruct (is_nil sorted && b_ref_written buf); [eexists; reflexivity|].
    destruct sorted as [|r rest]; [cbn; eexists; reflexivity|].
    rewrite lenN_cons in Hb.
    destruct ((W_NO_RAW_GROUPS <=? g) && negb (b_ref_written buf)) eqn:Enew.
    - apply andb_true_iff in Enew. destruct Enew as [Hlz Hnw]. apply negb_true_iff in Hnw.
      destruct (compress_ref (s_data r)) as [c m] eqn:Ecr.
      (* re-use process_inv's construction through a direct call on the one-element prefix *)
      assert (Hone : exists o1, process' g buf [r] = Ok o1 /\
                 o_buf o1 = {| b_ref_written := true; b_reference := Some (s_data r); b_written := b_written buf;
                               b_pending := b_pending buf; b_pending_ids := b_pending_ids buf;
                               b_placeholder := b_placeholder buf |} /\
                 o_ref_parts o1 = [store_part (c ++ [m]) (s_data r)] /\ o_delta_parts o1 = [] /\ o_regs o1 = [(r, 0)]).
      { unfold process. cbn [is_nil andb]. rewrite Hlz, Hnw. cbn [negb andb]. rewrite Ecr.
        cbn [add_all obnd]. eexists. split; [reflexivity|]. cbn. repeat split. }
      destruct Hone as [o1 [Ho1 [Hb1 [Hr1 [Hd1 Hg1]]]]].
      destruct (process_inv _ _ _ _ _ _ _ _ _ _ _ _ HI Ho1) as [_ [packs1 [ents1 HI1]]].
      rewrite Hb1, Hr1, Hd1, Hg1 in HI1. rewrite app_nil_r in HI1.
      destruct (add_all_progress _ rest _ _ _ _ _ _ HI1) as [[[b2 p2] r2] E2].
      { intros _. cbn. discriminate. }
      { rewrite app_length. cbn [length]. lia. }
      rewrite E2. cbn [obnd]. eexists; reflexivity.
    - assert (Href0 : (W_NO_RAW_GROUPS <=? g) = true -> b_reference buf <> None).
      { intros Hlz. rewrite Hlz in Enew. cbn in Enew. apply negb_false_iff in Enew.
        pose proof (inv_ref _ _ _ _ _ _ _ _ _ _ HI) as Hr. rewrite Hlz in Hr.
        destruct (b_reference buf); [discriminate|]. destruct Hr as [Hc _]. congruence. }
      destruct (add_all_progress _ (r :: rest) _ _ _ _ _ _ HI Href0) as [[[b2 p2] r2] E2].
      { rewrite lenN_cons. lia. }
      rewrite E2. cbn [obnd]. eexists; reflexivity.
  Qed.

  Lemma run_from_progress : forall ops st,
    GInv' st ->
    (forall g, N.of_nat (length (regs_of st g)) + lenN (segs_of ops g) + 2 < two32) ->
    exists st', run_from' st ops = Ok st'.
  Proof.
    induction ops as [|[g segs] tl IH]; intros st HG Hb; [eexists; reflexivity|].
    cbn [run_from].
    destruct (ginv_get _ _ _ st g HG) as [packs [ents HI]].
    assert (Hbg := Hb g). unfold segs_of in Hbg. cbn [flat_map fst snd] in Hbg. rewrite N.eqb_refl in Hbg.
    fold (segs_of tl g) in Hbg. rewrite lenN_app in Hbg.
    destruct (process_progress g _ _ _ _ _ _ (sort_segs segs) HI) as [o Eo].
    { unfold regs_of in Hbg. replace (lenN (sort_segs segs)) with (lenN segs); [lia|].
      unfold lenN. f_equal. symmetry. apply Permutation_length. apply sort_segs_perm. }
    assert (Egs : gstep' g (get_group st g) segs = Ok (apply_out (get_group st g) o)).
    { unfold gstep, step. rewrite Eo. reflexivity. }
    rewrite Egs. cbn [obnd].
    destruct (gstep_inv _ _ _ _ _ _ _ (ginv_get _ _ _ st g HG) Egs) as [HI1 HP1].
    apply IH.
    - intros x gsx Hx. destruct (N.eq_dec x g) as [->|Hne].
      + rewrite upd_same in Hx. inversion Hx; subst. exact HI1.
      + rewrite upd_other in Hx by exact Hne. apply HG. exact Hx.
    - intro x. specialize (Hb x). unfold segs_of in Hb. cbn [flat_map fst snd] in Hb. fold (segs_of tl x) in Hb.
      unfold regs_of, get_group in *. destruct (N.eq_dec x g) as [->|Hne].
      + rewrite upd_same. rewrite N.eqb_refl in Hb. rewrite lenN_app in Hb.
        apply Permutation_length in HP1. rewrite !map_length in HP1. rewrite app_length in HP1. rewrite map_length in HP1.
        unfold lenN in *. lia.
      + rewrite upd_other by exact Hne. replace (g =? x) with false in Hb by (symmetry; apply N.eqb_neq; congruence).
        cbn [app] in Hb. exact Hb.
  Qed.

  Theorem run_no_trap_proof : forall ops,
    (forall g, lenN (segs_of ops g) + 2 < two32) -> exists st, run' ops = Ok st.
  Proof.
    intros ops Hb. unfold run. apply run_from_progress.
    - intros g gs Hc. discriminate.
    - intro g. unfold regs_of, get_group, store_empty. cbn. specialize (Hb g). lia.
  Qed.

  (* ---------------------------------------------------------------- rounds do not matter *)
  Lemma add_one_flags : forall lz buf s b' ps id,
    add_one' lz buf s = Ok (b', ps, id) ->
    b_ref_written b' = b_ref_written buf /\ b_reference b' = b_reference buf.
  Proof.
    intros lz buf s b' ps id H. unfold add_one in H.
    repeat match type of H with
           | context [if ?c then _ else _] => destruct c eqn:?
           | context [match ?c with _ => _ end] => destruct c eqn:?
           end; inversion H; subst; split; cbn; congruence.
  Qed.

  Lemma add_all_flags : forall lz segs buf b' ps rs,
    add_all' lz buf segs = Ok (b', ps, rs) ->
    b_ref_written b' = b_ref_written buf /\ b_reference b' = b_reference buf.
  Proof.
    intros lz segs. induction segs as [|s tl IH]; intros buf b' ps rs H; cbn [add_all] in H.
    - inversion H; subst. split; reflexivity.
    - destruct (add_one' lz buf s) as [[[b1 p1] id]| |] eqn:E1; cbn [obnd] in H; try discriminate.
      destruct (add_all' lz b1 tl) as [[[b2 p2] r2]| |] eqn:E2; cbn [obnd] in H; try discriminate.
      inversion H; subst. destruct (add_one_flags _ _ _ _ _ _ E1) as [A1 A2].
      destruct (IH _ _ _ _ E2) as [B1 B2]. split; congruence.
  Qed.

  Definition seq3 (r1 r2 : gbuf * list part * list (seg_in * N)) : gbuf * list part * list (seg_in * N) :=
    let '(_, p1, g1) := r1 in let '(b2, p2, g2) := r2 in (b2, p1 ++ p2, g1 ++ g2).

  Lemma add_all_app : forall lz l1 l2 buf,
    add_all' lz buf (l1 ++ l2) =
    obnd (add_all' lz buf l1) (fun r1 => obnd (add_all' lz (fst (fst r1)) l2) (fun r2 => Ok (seq3 r1 r2))).
  Proof.
    intros lz l1. induction l1 as [|s tl IH]; intros l2 buf.
    - cbn [app add_all obnd fst]. destruct (add_all' lz buf l2) as [[[b2 p2] g2]| |]; reflexivity.
    - cbn [app add_all]. destruct (add_one' lz buf s) as [[[b1 p1] id]| |]; cbn [obnd]; try reflexivity.
      rewrite IH. destruct (add_all' lz b1 tl) as [[[b2 p2] g2]| |]; cbn [obnd fst]; try reflexivity.
      destruct (add_all' lz b2 l2) as [[[b3 p3] g3]| |]; cbn [obnd seq3]; try reflexivity.
      rewrite app_assoc. reflexivity.
  Qed.

  Definition seq_out (o1 o2 : step_out) : step_out :=
    {| o_buf := o_buf o2; o_ref_parts := o_ref_parts o1 ++ o_ref_parts o2;
       o_delta_parts := o_delta_parts o1 ++ o_delta_parts o2; o_regs := o_regs o1 ++ o_regs o2 |}.

  (* processing l1 ++ l2 in one round = processing l1 in one round and l2 in the next: pending packs, ids,
     reference and registrations do not depend on where the round boundary falls *)
  Theorem rounds_irrelevant_proof : forall g buf l1 l2,
    process' g buf (l1 ++ l2) =
    obnd (process' g buf l1) (fun o1 => obnd (process' g (o_buf o1) l2) (fun o2 => Ok (seq_out o1 o2))).
  Proof.
    intros g buf l1 l2. destruct l1 as [|r rest1].
    { rewrite process_nil_noop. cbn [app obnd o_buf].
      destruct (process' g buf l2) as [o2| |]; cbn [obnd]; try reflexivity. destruct o2; reflexivity. }
    assert (Htail : forall b1, b_ref_written b1 = true \/ (W_NO_RAW_GROUPS <=? g) && negb (b_ref_written b1) = false ->
              process' g b1 l2 =
              obnd (add_all' (W_NO_RAW_GROUPS <=? g) b1 l2) (fun r =>
                let '(b2, dp, rg) := r in
                Ok {| o_buf := b2; o_ref_parts := []; o_delta_parts := dp; o_regs := rg |})).
    { intros b1 Hb1. unfold process. destruct l2 as [|x l2'].
      - cbn [is_nil andb add_all obnd]. destruct (b_ref_written b1); reflexivity.
      - cbn [is_nil andb]. destruct Hb1 as [Hb1|Hb1].
        + rewrite Hb1. rewrite andb_false_r. reflexivity.
        + rewrite Hb1. reflexivity. }
    unfold process at 1 2. cbn [app is_nil andb].
    destruct ((W_NO_RAW_GROUPS <=? g) && negb (b_ref_written buf)) eqn:Enew.
    - destruct (compress_ref (s_data r)) as [c m].
      rewrite add_all_app.
      match goal with |- context [add_all' ?lz ?b rest1] => destruct (add_all' lz b rest1) as [[[b1 p1] g1]| |] eqn:E1 end;
        cbn [obnd fst o_buf]; try reflexivity.
      destruct (add_all_flags _ _ _ _ _ _ E1) as [Hw _]. cbn [b_ref_written] in Hw.
      rewrite (Htail b1 (or_introl Hw)).
      destruct (add_all' (W_NO_RAW_GROUPS <=? g) b1 l2) as [[[b2 p2] g2]| |]; cbn [obnd seq3 seq_out o_buf o_ref_parts o_delta_parts o_regs]; try reflexivity.
    - change (r :: rest1 ++ l2) with ((r :: rest1) ++ l2). rewrite add_all_app.
      destruct (add_all' (W_NO_RAW_GROUPS <=? g) buf (r :: rest1)) as [[[b1 p1] g1]| |] eqn:E1; cbn [obnd fst o_buf]; try reflexivity.
      destruct (add_all_flags _ _ _ _ _ _ E1) as [Hw _].
      assert (Hc : (W_NO_RAW_GROUPS <=? g) && negb (b_ref_written b1) = false) by (rewrite Hw; exact Enew).
      rewrite (Htail b1 (or_intror Hc)).
      destruct (add_all' (W_NO_RAW_GROUPS <=? g) b1 l2) as [[[b2 p2] g2]| |]; cbn [obnd seq3 seq_out o_buf o_ref_parts o_delta_parts o_regs app]; reflexivity.
  Qed.

  (* exactly one reference part per LZ group that received a segment; none otherwise *)
  Theorem one_ref_part_proof : forall ops st g,
    run' ops = Ok st ->
    (16 <= g -> segs_of ops g <> [] -> exists p, gv_ref (view_of (finalize' st) g) = Some [p]) /\
    (g < 16 \/ segs_of ops g = [] ->
       gv_ref (view_of (finalize' st) g) = None \/ gv_ref (view_of (finalize' st) g) = Some []).
  Proof.
    intros ops st g Hrun. destruct (run_inv _ _ _ _ _ Hrun) as [HG HP]. specialize (HP g).
    unfold regs_of, get_group in HP.
    destruct (st g) as [gs|] eqn:Eg.
    2:{ split.
        - intros _ Hne. exfalso. apply Hne. cbn in HP. apply Permutation_nil. exact HP.
        - intros _. left. unfold view_of, finalize. rewrite Eg. reflexivity. }
    destruct (HG g gs Eg) as [packs [ents HI]].
    destruct (fin_delta lz_enc compress_ref compress_pack g gs packs ents HI) as [_ [Hfr _]].
    unfold view_of, finalize. rewrite Eg. cbn [gv_ref]. rewrite Hfr.
    pose proof (inv_ref _ _ _ _ _ _ _ _ _ _ HI) as Href.
    split.
    - intros E16 Hne. assert (Hl : is_lz g = true) by (apply N.leb_le; exact E16). rewrite Hl in Href.
      destruct (b_reference (g_buf gs)) as [r|].
      + destruct Href as [_ [Hrp _]]. exists (ref_part' r). rewrite Hrp. reflexivity.
      + destruct Href as [_ [_ [Hrg _]]]. rewrite Hrg in HP. cbn in HP. exfalso. apply Hne.
        apply Permutation_nil. exact HP.
    - intros Hcase. right. destruct (is_lz g) eqn:El.
      + destruct Hcase as [Hlt|Hnil]; [apply N.leb_le in El; change W_NO_RAW_GROUPS with 16 in El; lia|].
        destruct (b_reference (g_buf gs)) as [r|].
        * destruct Href as [_ [_ [s0 [Hs0 _]]]]. rewrite Hnil in HP. apply Permutation_sym in HP.
          apply Permutation_nil in HP. apply (in_map fst) in Hs0. rewrite HP in Hs0. destruct Hs0.
        * destruct Href as [_ [Hrp _]]. rewrite Hrp. reflexivity.
      + destruct Href as [_ [_ Hrp]]. rewrite Hrp. reflexivity.
  Qed.

End RulesW.

(* ---------------------------------------------------------------- addressing rules *)
Section Rules.
  Variable lz_enc : list N -> list N -> list N.
  Variable lz_dec : list N -> list N -> outcome (list N).
  Variable compress_ref : list N -> list N * N.
  Variable compress_pack : list N -> list N.
  Variable dwm : list N -> N -> outcome (list N).

  Notation Inv' := (Inv lz_enc compress_ref compress_pack).
  Notation mkpart' := (mkpart compress_pack).
  Notation ref_part' := (ref_part compress_ref).
  Notation run' := (run lz_enc compress_ref compress_pack).
  Notation run_from' := (run_from lz_enc compress_ref compress_pack).
  Notation gstep' := (gstep lz_enc compress_ref compress_pack).
  Notation process' := (process lz_enc compress_ref compress_pack).
  Notation add_one' := (add_one lz_enc compress_pack).
  Notation add_all' := (add_all lz_enc compress_pack).
  Notation finalize_group' := (finalize_group compress_pack).
  Notation finalize' := (finalize compress_pack).
  Notation GInv' := (GInv lz_enc compress_ref compress_pack).
  Notation GInvOf' := (GInvOf lz_enc compress_ref compress_pack).


  Section WithCodecs.
    Variable ref_dom : list N -> Prop.
    Variable lz_dom : list N -> list N -> Prop.
    Hypothesis HC : codecs_ok lz_enc lz_dec compress_ref compress_pack dwm ref_dom lz_dom.

    (* facts shared by the rules: the group's invariant and what ops_ok gives about its entries *)
    Lemma group_facts : forall ops st g gs,
      ops_ok ref_dom lz_dom ops -> run' ops = Ok st -> st g = Some gs ->
      exists packs ents,
        Inv' (is_lz g) (g_buf gs) (g_ref gs) (g_delta gs) (g_regs gs) packs ents /\
        (forall e, In e ents -> nosep e) /\
        (forall s id, In (s, id) (g_regs gs) -> In s (segs_of ops g)) /\
        (forall r, b_reference (g_buf gs) = Some r -> 16 <= g ->
           ref_dom r /\ forall s id, In (s, id) (g_regs gs) -> lz_dom r (s_data s)).
    Proof.
      intros ops st g gs Hops Hrun Eg.
      destruct (run_inv _ _ _ _ _ Hrun) as [HG HP].
      destruct (HG g gs Eg) as [packs [ents HI]]. exists packs, ents. split; [exact HI|].
      assert (Hseg : forall s1 id1, In (s1, id1) (g_regs gs) -> In s1 (segs_of ops g)).
      { intros s1 id1 H1. eapply Permutation_in; [apply HP|]. unfold regs_of, get_group. rewrite Eg.
        apply (in_map fst) in H1. exact H1. }
      pose proof (inv_ref _ _ _ _ _ _ _ _ _ _ HI) as Href.
      assert (Hrefd : forall r, b_reference (g_buf gs) = Some r -> 16 <= g ->
                ref_dom r /\ forall s id, In (s, id) (g_regs gs) -> lz_dom r (s_data s)).
      { intros r Er E16. assert (Hl : is_lz g = true) by (apply N.leb_le; exact E16). rewrite Hl, Er in Href.
        destruct Href as [_ [_ [s0 [Hs0 Hd0]]]].
        destruct (Hops g s0 (Hseg s0 0 Hs0)) as [_ [_ H0]]. destruct (H0 E16) as [Hrd _]. rewrite Hd0 in Hrd.
        split; [exact Hrd|]. intros s id Hin. destruct (Hops g s (Hseg s id Hin)) as [_ [_ H1]].
        destruct (H1 E16) as [_ Hd]. specialize (Hd s0 (Hseg s0 0 Hs0)). rewrite Hd0 in Hd. exact Hd. }
      split; [|split; [exact Hseg|exact Hrefd]].
      intros e He. destruct (inv_ents _ _ _ _ _ _ _ _ _ _ HI e He) as [s1 [id1 [Hin1 Heq]]].
      destruct (Hops g s1 (Hseg s1 id1 Hin1)) as [_ [Hraw1 _]]. subst e. unfold entry_of.
      destruct (is_lz g) eqn:El.
      - apply N.leb_le in El. change W_NO_RAW_GROUPS with 16 in El.
        destruct (b_reference (g_buf gs)) as [r|] eqn:Er.
        + destruct (Hrefd r eq_refl El) as [_ Hd]. specialize (Hd s1 id1 Hin1).
          destruct HC as [_ [_ Hlz]]. destruct (Hlz _ _ Hd) as [_ [_ Hn]]. exact Hn.
        + destruct Href as [_ [_ [Hc _]]]. rewrite Hc in Hin1. destruct Hin1.
      - apply N.leb_gt in El. change W_NO_RAW_GROUPS with 16 in El.
        destruct (b_reference (g_buf gs)); apply Hraw1; exact El.
    Qed.

    Lemma view_final : forall st g gs, st g = Some gs ->
      view_of (finalize' st) g = {| gv_ref := Some (g_ref (finalize_group' g gs));
                                     gv_delta := Some (g_delta (finalize_group' g gs)) |}.
    Proof. intros st g gs E. unfold view_of, finalize. rewrite E. reflexivity. Qed.

    (* LZ groups: id 0 is the reference; id i >= 1 is entry (i-1) mod 50 of pack (i-1) div 50 *)
    Theorem delta_addressing_proof : forall ops st g s id,
      ops_ok ref_dom lz_dom ops -> run' ops = Ok st -> 16 <= g -> In (s, id) (regs_of st g) ->
      exists r dparts,
        load_reference dwm (view_of (finalize' st) g) = Ok r /\
        gv_delta (view_of (finalize' st) g) = Some dparts /\
        ((id = 0 /\ s_data s = r) \/
         (1 <= id /\ lz_enc r (s_data s) <> [] /\
          exists p pack, nth_error dparts (N.to_nat ((id - 1) / 50)) = Some p /\
                         load_part dwm p = Ok pack /\
                         unpack_contig pack ((id - 1) mod 50) = Ok (lz_enc r (s_data s)))).
    Proof.
      intros ops st g s id Hops Hrun E16 Hin. unfold regs_of, get_group in Hin.
      destruct (st g) as [gs|] eqn:Eg; [|destruct Hin].
      destruct (group_facts ops st g gs Hops Hrun Eg) as [packs [ents [HI [Hns [Hseg Hrefd]]]]].
      destruct (fin_delta _ _ _ g gs packs ents HI) as [_ [Hfr _]].
      assert (Hl : is_lz g = true) by (apply N.leb_le; exact E16).
      pose proof (inv_ref _ _ _ _ _ _ _ _ _ _ HI) as Href. rewrite Hl in Href.
      pose proof (inv_regs _ _ _ _ _ _ _ _ _ _ HI) as Hregs. rewrite Forall_forall in Hregs.
      pose proof (Hregs (s, id) Hin) as Hreg. unfold reg_ok in Hreg. rewrite Hl in Hreg.
      destruct (b_reference (g_buf gs)) as [r|] eqn:Er; [|destruct Hreg].
      destruct Href as [_ [Hrp _]]. destruct (Hrefd r eq_refl E16) as [Hrd Hld].
      exists r, (g_delta (finalize_group' g gs)).
      rewrite (view_final st g gs Eg). cbn [gv_delta]. rewrite Hfr, Hrp.
      split; [apply (load_reference_ok _ _ _ _ _ ref_dom lz_dom HC); exact Hrd|]. split; [reflexivity|].
      destruct HC as [_ [_ Hlz]]. destruct (Hlz _ _ (Hld s id Hin)) as [Hlz1 _].
      destruct Hreg as [[Hid0 Hsame]|[Hid1 [Hnth Hne]]].
      - left. split; [exact Hid0|]. destruct Hsame as [Hsame|Hsame]; [exact Hsame|apply Hlz1; exact Hsame].
      - right. split; [exact Hid1|]. split; [exact Hne|].
        assert (Hents : ents <> []) by (intro Hc; subst ents; destruct (N.to_nat (id - 1)); discriminate).
        assert (Hk : nth_error (slots_of (is_lz g) ents) (N.to_nat (id - 1)) = Some (lz_enc r (s_data s))).
        { rewrite Hl. exact Hnth. }
        destruct (read_slot _ _ _ _ _ ref_dom lz_dom HC g gs packs ents _ _ HI Hns Hents Hk) as [p [pack [Hp [Hload Hunp]]]].
        exists p, pack. split; [|split; [exact Hload|]].
        + rewrite N2Nat.inj_div. exact Hp.
        + replace ((id - 1) mod 50) with (N.of_nat (N.to_nat (id - 1) mod 50)); [exact Hunp|].
          rewrite <- (N2Nat.id ((id - 1) mod 50)). rewrite N2Nat.inj_mod. reflexivity.
    Qed.

    (* raw groups: ids start at 1, id i is entry i mod 50 of pack i div 50, the placeholder sits at (0,0) *)
    Theorem raw_addressing_proof : forall ops st g s id,
      ops_ok ref_dom lz_dom ops -> run' ops = Ok st -> g < 16 -> In (s, id) (regs_of st g) ->
      exists dparts,
        gv_delta (view_of (finalize' st) g) = Some dparts /\ 1 <= id /\
        (exists p pack, nth_error dparts (N.to_nat (id / 50)) = Some p /\ load_part dwm p = Ok pack /\
                        unpack_contig pack (id mod 50) = Ok (s_data s)) /\
        (exists p pack, nth_error dparts 0 = Some p /\ load_part dwm p = Ok pack /\
                        unpack_contig pack 0 = Ok [W_PLACEHOLDER_STEP]).
    Proof.
      intros ops st g s id Hops Hrun E16 Hin. unfold regs_of, get_group in Hin.
      destruct (st g) as [gs|] eqn:Eg; [|destruct Hin].
      destruct (group_facts ops st g gs Hops Hrun Eg) as [packs [ents [HI [Hns [Hseg Hrefd]]]]].
      assert (Hl : is_lz g = false) by (apply N.leb_gt; exact E16).
      pose proof (inv_regs _ _ _ _ _ _ _ _ _ _ HI) as Hregs. rewrite Forall_forall in Hregs.
      pose proof (Hregs (s, id) Hin) as Hreg. unfold reg_ok in Hreg. rewrite Hl in Hreg.
      destruct Hreg as [Hid1 Hnth].
      exists (g_delta (finalize_group' g gs)). rewrite (view_final st g gs Eg). cbn [gv_delta].
      split; [reflexivity|]. split; [exact Hid1|].
      assert (Hents : ents <> []) by (intro Hc; subst ents; destruct (N.to_nat (id - 1)); discriminate).
      split.
      - assert (Hk : nth_error (slots_of (is_lz g) ents) (N.to_nat id) = Some (s_data s)).
        { rewrite Hl. unfold slots_of. replace (N.to_nat id) with (S (N.to_nat (id - 1))) by lia.
          cbn [app nth_error]. exact Hnth. }
        destruct (read_slot _ _ _ _ _ ref_dom lz_dom HC g gs packs ents _ _ HI Hns Hents Hk) as [p [pack [Hp [Hload Hunp]]]].
        exists p, pack. split; [|split; [exact Hload|]].
        + rewrite N2Nat.inj_div. exact Hp.
        + replace (id mod 50) with (N.of_nat (N.to_nat id mod 50)); [exact Hunp|].
          rewrite <- (N2Nat.id (id mod 50)). rewrite N2Nat.inj_mod. reflexivity.
      - assert (Hk : nth_error (slots_of (is_lz g) ents) 0 = Some [PH]) by (rewrite Hl; reflexivity).
        destruct (read_slot _ _ _ _ _ ref_dom lz_dom HC g gs packs ents _ _ HI Hns Hents Hk) as [p [pack [Hp [Hload Hunp]]]].
        exists p, pack. split; [exact Hp|]. split; [exact Hload|exact Hunp].
    Qed.

    (* the whole delta stream of a group: every part unpacks to a sequence of separator-terminated entries,
       50 per pack except possibly fewer (but at least one) in the last, and no entry contains the separator *)
    Theorem pack_layout_proof : forall ops st g dparts,
      ops_ok ref_dom lz_dom ops -> run' ops = Ok st ->
      gv_delta (view_of (finalize' st) g) = Some dparts ->
      exists chunks : list (list (list N)),
        length chunks = length dparts /\
        (forall i p c, nth_error dparts i = Some p -> nth_error chunks i = Some c ->
           load_part dwm p = Ok (flat_map (fun e => e ++ [CONTIG_SEPARATOR]) c) /\
           (1 <= length c <= 50)%nat /\ ((S i < length chunks)%nat -> length c = 50%nat) /\
           forall e, In e c -> ~ In CONTIG_SEPARATOR e).
    Proof.
      intros ops st g dparts Hops Hrun Hv. unfold view_of, finalize in Hv.
      destruct (st g) as [gs|] eqn:Eg; [|discriminate]. cbn [gv_delta] in Hv. inversion Hv; subst dparts. clear Hv.
      destruct (group_facts ops st g gs Hops Hrun Eg) as [packs [ents [HI [Hns _]]]].
      destruct (fin_delta _ _ _ g gs packs ents HI) as [Hfd _].
      exists (final_chunks (is_lz g) (g_buf gs) packs). rewrite Hfd. split; [rewrite map_length; reflexivity|].
      intros i p c Hp Hc. rewrite nth_error_map in Hp. rewrite Hc in Hp. cbn in Hp. inversion Hp; subst p. clear Hp.
      pose proof (final_chunks_shape _ _ _ _ _ _ _ _ _ _ HI c (nth_error_In _ _ Hc)) as [Hcn [Hle Hin]].
      split; [apply (load_mkpart _ _ _ _ _ ref_dom lz_dom HC); exact Hcn|].
      split; [split; [destruct c; [congruence|cbn; lia]|exact Hle]|]. split.
      - intro Hlast. unfold final_chunks in *. pose proof (inv_full _ _ _ _ _ _ _ _ _ _ HI) as Hf.
        rewrite Forall_forall in Hf. apply Hf.
        destruct (is_nil (b_pending (g_buf gs))); [apply (nth_error_In _ _ Hc)|].
        rewrite app_length in Hlast. cbn [length] in Hlast.
        rewrite nth_error_app1 in Hc by lia. apply (nth_error_In _ _ Hc).
      - intros e He. specialize (Hin e He). unfold slots_of in Hin. apply in_app_or in Hin.
        destruct Hin as [Hin|Hin]; [|apply Hns; exact Hin].
        destruct (is_lz g); [destruct Hin|]. destruct Hin as [<-|[]].
        intros [Hc1|[]]. apply ph_not_sep. exact Hc1.
    Qed.

    (* metadata 0 <=> the part holds the raw bytes; otherwise metadata = unpacked size *)
    Theorem metadata_convention_proof : forall ops st g parts p,
      ops_ok ref_dom lz_dom ops -> run' ops = Ok st ->
      (gv_ref (view_of (finalize' st) g) = Some parts \/ gv_delta (view_of (finalize' st) g) = Some parts) ->
      In p parts ->
      exists raw, load_part dwm p = Ok raw /\ (fst p = 0 <-> snd p = raw) /\ (fst p <> 0 -> fst p = lenN raw).
    Proof.
      intros ops st g parts p Hops Hrun Hv Hin. unfold view_of, finalize in Hv.
      destruct (st g) as [gs|] eqn:Eg; [|destruct Hv; discriminate]. cbn [gv_ref gv_delta] in Hv.
      destruct (group_facts ops st g gs Hops Hrun Eg) as [packs [ents [HI [Hns [_ Hrefd]]]]].
      destruct (fin_delta _ _ _ g gs packs ents HI) as [Hfd [Hfr _]].
      assert (Hsp : forall cm raw, dwm (removelast cm) (last cm 0) = Ok raw -> cm <> [] ->
                exists raw0, load_part dwm (store_part cm raw) = Ok raw0 /\
                  (fst (store_part cm raw) = 0 <-> snd (store_part cm raw) = raw0) /\
                  (fst (store_part cm raw) <> 0 -> fst (store_part cm raw) = lenN raw0)).
      { intros cm raw Hd Hcm. exists raw.
        destruct (store_part_meta cm raw) as [[Hm [Hs Hle]]|[Hm [Hnz [Hs Hlt]]]].
        - split; [|split].
          + destruct (store_part cm raw) as [m d]. cbn in *. subst. cbn. reflexivity.
          + split; intro; assumption.
          + intro Hc. contradiction.
        - split; [|split].
          + destruct (store_part cm raw) as [m d]. cbn [fst snd] in *. subst m d. cbn [load_part].
            replace (lenN raw =? 0) with false by (symmetry; apply N.eqb_neq; exact Hnz).
            destruct cm; [congruence|]. exact Hd.
          + split; intro Hx; [congruence|]. rewrite Hs in Hx. subst cm. lia.
          + intros _. exact Hm. }
      destruct Hv as [Hv|Hv]; inversion Hv; subst parts; clear Hv.
      - rewrite Hfr in Hin. pose proof (inv_ref _ _ _ _ _ _ _ _ _ _ HI) as Href.
        destruct (is_lz g) eqn:El.
        + destruct (b_reference (g_buf gs)) as [r|] eqn:Er.
          * destruct Href as [_ [Hrp _]]. rewrite Hrp in Hin. destruct Hin as [<-|[]].
            apply N.leb_le in El. change W_NO_RAW_GROUPS with 16 in El.
            destruct (Hrefd r eq_refl El) as [Hrd _]. destruct HC as [Hrf _]. destruct (Hrf r Hrd) as [Hd _].
            unfold ref_part. apply Hsp; [rewrite removelast_last, last_last; exact Hd|].
            intro Hc. apply app_eq_nil in Hc. destruct Hc as [_ Hc]. discriminate.
          * destruct Href as [_ [Hrp _]]. rewrite Hrp in Hin. destruct Hin.
        + destruct Href as [_ [_ Hrp]]. rewrite Hrp in Hin. destruct Hin.
      - rewrite Hfd in Hin. apply in_map_iff in Hin. destruct Hin as [c [<- Hc]].
        pose proof (final_chunks_shape _ _ _ _ _ _ _ _ _ _ HI c Hc) as [Hcn _].
        unfold mkpart. apply Hsp.
        + rewrite removelast_last, last_last. destruct HC as [_ [Hp _]]. apply Hp. apply flat_nonempty. exact Hcn.
        + intro Hx. apply app_eq_nil in Hx. destruct Hx as [_ Hx]. discriminate.
    Qed.
  End WithCodecs.
End Rules.

(* ---------------------------------------------------------------- corollaries stated for props/C02.v *)
Lemma segs_of_subset : forall ops g s, In s (segs_of ops g) -> In s (flat_map snd ops).
Proof.
  induction ops as [|[g0 b] tl IH]; intros g s H; [destruct H|].
  unfold segs_of in H. cbn [flat_map fst snd] in *. apply in_app_or in H. apply in_or_app.
  destruct H as [H|H].
  - left. destruct (g0 =? g); [exact H|destruct H].
  - right. apply (IH g s). exact H.
Qed.

(* each descriptor's raw length equals the length of what the reader decodes for it *)
Theorem desc_len_is_decoded_len_proof :
  forall lz_enc lz_dec compress_ref compress_pack dwm ref_dom lz_dom ops st g s id b,
  codecs_ok lz_enc lz_dec compress_ref compress_pack dwm ref_dom lz_dom ->
  ops_ok ref_dom lz_dom ops ->
  run lz_enc compress_ref compress_pack ops = Ok st ->
  In (s, id) (regs_of st g) ->
  get_segment dwm lz_dec (view_of (finalize compress_pack st)) (desc_of g s id) = Ok b ->
  d_len (desc_of g s id) = lenN b.
Proof.
  intros lz_enc lz_dec compress_ref compress_pack dwm ref_dom lz_dom ops st g s id b HC Hops Hrun Hin Hget.
  destruct (store_then_get_proof _ _ _ _ _ _ _ HC ops st g s id Hops Hrun Hin) as [H1 H2].
  rewrite H1 in Hget. inversion Hget; subst b. exact H2.
Qed.

(* the alphabet hypothesis (codes 0..30 in raw groups) is enough for the separator-freeness part of ops_ok *)
Definition ops_alpha (ref_dom : list N -> Prop) (lz_dom : list N -> list N -> Prop) (ops : list op) : Prop :=
  forall g s, In s (segs_of ops g) ->
    lenN (s_data s) < two32 /\
    (g < 16 -> Forall (fun b => b <= 30) (s_data s)) /\
    (16 <= g -> ref_dom (s_data s) /\ forall s', In s' (segs_of ops g) -> lz_dom (s_data s') (s_data s)).

Lemma ops_alpha_ok : forall ref_dom lz_dom ops, ops_alpha ref_dom lz_dom ops -> ops_ok ref_dom lz_dom ops.
Proof.
  intros ref_dom lz_dom ops H g s Hin. destruct (H g s Hin) as [H1 [H2 H3]].
  split; [exact H1|]. split; [|exact H3].
  intros Hg Hc. specialize (H2 Hg). rewrite Forall_forall in H2. specialize (H2 _ Hc).
  change CONTIG_SEPARATOR with 255 in H2. lia.
Qed.

Theorem no_separator_in_entry_proof :
  forall lz_enc lz_dec compress_ref compress_pack dwm ref_dom lz_dom ops st g dparts,
  codecs_ok lz_enc lz_dec compress_ref compress_pack dwm ref_dom lz_dom ->
  ops_alpha ref_dom lz_dom ops ->
  run lz_enc compress_ref compress_pack ops = Ok st ->
  gv_delta (view_of (finalize compress_pack st) g) = Some dparts ->
  exists chunks : list (list (list N)),
    length chunks = length dparts /\
    forall i p c, nth_error dparts i = Some p -> nth_error chunks i = Some c ->
      load_part dwm p = Ok (flat_map (fun e => e ++ [CONTIG_SEPARATOR]) c) /\
      forall e, In e c -> ~ In CONTIG_SEPARATOR e.
Proof.
  intros lz_enc lz_dec compress_ref compress_pack dwm ref_dom lz_dom ops st g dparts HC Ha Hrun Hv.
  destruct (pack_layout_proof _ _ _ _ _ _ _ HC ops st g dparts (ops_alpha_ok _ _ _ Ha) Hrun Hv) as [chunks [Hl H]].
  exists chunks. split; [exact Hl|]. intros i p c Hp Hc. destruct (H i p c Hp Hc) as [H1 [_ [_ H4]]].
  split; assumption.
Qed.

(* writer and reader carry the same format constants, every literal site agrees *)
Lemma consts_ok_proof :
  W_PACK_CARDINALITY = R_PACK_CARDINALITY /\ W_NO_RAW_GROUPS = R_NO_RAW_GROUPS /\
  W_PLACEHOLDER_STEP <> CONTIG_SEPARATOR /\
  W_PLACEHOLDER_FLUSH_PACK = W_PLACEHOLDER_STEP /\ W_PLACEHOLDER_FINALIZE = W_PLACEHOLDER_STEP /\
  W_PACK_MARKER_FINALIZE = W_PACK_MARKER_STEP /\
  W_FIRST_RAW_PACK_MINUS_FLUSH_PACK = W_FIRST_RAW_PACK_MINUS /\
  W_FIRST_ID = R_DELTA_ID_OFFSET.
Proof. repeat split; discriminate. Qed.
