(* ReaderState_proofs.v - C08: every query answer is a function of the archive alone. *)
From Ragc Require Import ReaderState.
From Coq Require Import Lia.

(* ------------------------------------------------------------------ lists *)
Open Scope nat_scope.
Lemma set_nth_app : forall {A} (pre : list A) x r y, set_nth (pre ++ x :: r) (length pre) y = pre ++ y :: r.
Proof. induction pre; intros; cbn; [reflexivity | now rewrite IHpre]. Qed.

Lemma put_app : forall b pre rest, length b <= length rest ->
  put (pre ++ rest) (length pre) b = (pre ++ b ++ skipn (length b) rest, true).
Proof.
  induction b as [|cs b IH]; intros pre rest Hl.
  - reflexivity.
  - destruct rest as [|r0 rest]; [cbn in Hl; lia|].
    cbn [put].
    assert (Hlt : Nat.ltb (length pre) (length (pre ++ r0 :: rest)) = true).
    { apply Nat.ltb_lt. rewrite app_length. cbn. lia. }
    rewrite Hlt, set_nth_app.
    replace (pre ++ cs :: rest) with ((pre ++ [cs]) ++ rest) by (rewrite <- app_assoc; reflexivity).
    replace (S (length pre)) with (length (pre ++ [cs])) by (rewrite app_length; cbn; lia).
    rewrite IH by (cbn in Hl; lia).
    rewrite <- app_assoc. reflexivity.
Qed.

Lemma strip_length : forall (b : batch), length (map strip b) = length b.
Proof. intros; apply map_length. Qed.

Lemma skipn_app_exact : forall {A} (a b : list A) n, n = length a -> skipn n (a ++ b) = b.
Proof. intros; subst. rewrite skipn_app, skipn_all, Nat.sub_diag. reflexivity. Qed.

Lemma skipn_skipn' : forall {A} (l : list A) n m, skipn n (skipn m l) = skipn (m + n) l.
Proof.
  intros A l n m. revert l. induction m; intros l; [reflexivity|].
  destruct l; cbn; [now rewrite skipn_nil | apply IHm].
Qed.

Lemma load_batch_ok : forall st b id pre rest,
  st_tabs st = pre ++ rest ->
  (if Nat.eqb id 0 then pre = [] else st_cursor st = length pre) ->
  length b <= length rest ->
  load_contig_batch st (Some b) id
  = (mkSt (pre ++ b ++ skipn (length b) rest) (length pre + length b) (length b) (st_cache st), Ok tt).
Proof.
  intros st b id pre rest Ht Hc Hl. unfold load_contig_batch.
  assert (Hi : (if Nat.eqb id 0 then O else st_cursor st) = length pre).
  { destruct (Nat.eqb id 0); subst; reflexivity || assumption. }
  rewrite Hi, Ht.
  rewrite put_app by (rewrite strip_length; exact Hl).
  rewrite strip_length.
  rewrite put_app.
  2:{ rewrite app_length, strip_length, skipn_length. lia. }
  rewrite (skipn_app_exact (map strip b)) by (now rewrite strip_length).
  reflexivity.
Qed.

Lemma load_from_ok : forall bl id pre rest st,
  st_tabs st = pre ++ rest ->
  (if Nat.eqb id 0 then pre = [] else st_cursor st = length pre) ->
  length (concat bl) <= length rest ->
  exists c l, load_from (map Some bl) id st
              = (mkSt (pre ++ concat bl ++ skipn (length (concat bl)) rest) c l (st_cache st), Ok tt).
Proof.
  induction bl as [|b bl IH]; intros id pre rest st Ht Hc Hl.
  - cbn. exists (st_cursor st), (st_last st). destruct st; cbn in *; subst; reflexivity.
  - cbn [map load_from concat]. cbn [concat] in Hl. rewrite app_length in Hl.
    rewrite (load_batch_ok st b id pre rest Ht Hc) by lia.
    set (st1 := mkSt _ _ _ _).
    destruct (IH (S id) (pre ++ b) (skipn (length b) rest) st1) as (c & l & E).
    + unfold st1; cbn. now rewrite app_assoc.
    + cbn. unfold st1; cbn. rewrite app_length. reflexivity.
    + rewrite skipn_length. lia.
    + exists c, l. rewrite E. unfold st1; cbn. f_equal. f_equal.
      rewrite <- !app_assoc. f_equal. f_equal. rewrite app_length.
      rewrite skipn_skipn'. reflexivity.
Qed.

(* ------------------------------------------------------------------ well-formed archives *)
Definition is_some {A} (o : option A) : bool := match o with Some _ => true | None => false end.
Definition wfb (ar : archive) : bool :=
  forallb is_some (ar_batches ar) && Nat.leb (length (all_entries ar)) (length (ar_names ar)).
(* every catalogue batch decodes and the batches do not describe more samples than the sample table has *)
Definition wf (ar : archive) : Prop := wfb ar = true.

Lemma all_some : forall {A} (l : list (option A)) (d : option A -> A),
  (forall a, d (Some a) = a) -> forallb is_some l = true -> l = map Some (map d l).
Proof.
  induction l as [|[a|] l IH]; intros d Hd H; cbn in *; try discriminate; [reflexivity|].
  rewrite Hd. f_equal. now apply IH.
Qed.

Definition empty_tabs (ar : archive) : list (list contig) := map (fun _ => []) (ar_names ar).
Definition tabs_ok (ar : archive) (st : rstate) : Prop :=
  st_tabs st = empty_tabs ar \/ st_tabs st = catalogue ar.

Lemma map_const_repeat : forall {A B} (l : list A) (x : B), map (fun _ => x) l = repeat x (length l).
Proof. induction l; intros; cbn; [reflexivity | now rewrite IHl]. Qed.

Lemma skipn_repeat : forall {A} (x : A) n m, skipn m (repeat x n) = repeat x (n - m).
Proof.
  induction n; intros; destruct m; cbn; try reflexivity. apply IHn.
Qed.

Lemma load_all_full : forall ar st, wf ar -> tabs_ok ar st ->
  exists c l, load_all ar st = (mkSt (catalogue ar) c l (st_cache st), Ok tt).
Proof.
  intros ar st Hwf Hok. unfold wf, wfb in Hwf. apply andb_prop in Hwf as [Hs Hle].
  apply Nat.leb_le in Hle.
  pose proof (all_some (ar_batches ar) batch_or_nil (fun a => eq_refl) Hs) as Hb.
  unfold load_all. rewrite Hb.
  assert (Hall : all_entries ar = concat (map batch_or_nil (ar_batches ar))) by reflexivity.
  set (bl := map batch_or_nil (ar_batches ar)) in *.
  destruct (load_from_ok bl 0 [] (st_tabs st) st eq_refl eq_refl) as (c & l & E).
  - rewrite <- Hall. destruct Hok as [H|H]; rewrite H.
    + unfold empty_tabs. rewrite map_length. exact Hle.
    + unfold catalogue. rewrite app_length, repeat_length. lia.
  - exists c, l. rewrite E. cbn [app]. f_equal. f_equal.
    rewrite <- Hall. unfold catalogue. f_equal.
    destruct Hok as [H|H]; rewrite H.
    + unfold empty_tabs. rewrite map_const_repeat. apply skipn_repeat.
    + unfold catalogue. now rewrite skipn_app_exact.
Qed.

Lemma need_load_empty : forall ar st s, st_tabs st = empty_tabs ar -> need_load ar st s = true.
Proof.
  intros ar st s H. unfold need_load, get_no_contigs. rewrite H.
  destruct (sid ar s) as [id|]; cbn; [|reflexivity].
  unfold tab, empty_tabs.
  assert (E : nth id (map (fun _ : name => @nil contig) (ar_names ar)) [] = []).
  { rewrite (map_nth (fun _ : name => @nil contig) (ar_names ar) [] id). reflexivity. }
  rewrite E. reflexivity.
Qed.

Lemma ensure_loaded_full : forall ar st s, wf ar -> tabs_ok ar st ->
  exists c l, ensure_loaded ar st s = (mkSt (catalogue ar) c l (st_cache st), Ok tt).
Proof.
  intros ar st s Hwf Hok. unfold ensure_loaded.
  destruct (need_load ar st s) eqn:E.
  - now apply load_all_full.
  - destruct Hok as [H|H].
    + rewrite need_load_empty in E by exact H. discriminate.
    + exists (st_cursor st), (st_last st). destruct st; cbn in *; subst; reflexivity.
Qed.

Open Scope N_scope.
Section Proofs.
  Variable dz : list N -> N -> outcome (list N).
  Notation ref_via_segment := (ref_via_segment dz).
  Notation ref_via_query := (ref_via_query dz).
  Notation get_segment := (get_segment dz).
  Notation get_reference_segment := (get_reference_segment dz).
  Notation reconstruct := (reconstruct dz).
  Notation reconstruct_all := (reconstruct_all dz).
  Notation range_loop := (range_loop dz).
  Notation step := (step dz).
  Notation run := (run dz).
  Notation ask_after := (ask_after dz).
  Notation answer := (answer dz).
  Notation seg_spec := (seg_spec dz).
  Notation ref_spec := (ref_spec dz).
  Notation recon_spec := (recon_spec dz).
  Notation recon_all_spec := (recon_all_spec dz).
  Notation range_spec := (range_spec dz).
  Notation sys_step := (sys_step dz).
  Notation sys_run := (sys_run dz).

  (* every cached reference is what get_reference_segment's decoder gives for that group *)
  Definition cache_ok (ar : archive) (c : list (N * list N)) : Prop :=
    forall g v, In (g, v) c -> exists p, ar_ref ar g = Some p /\ ref_via_query (get_part p) = Ok v.
  (* the two reference decoders give the same result on every LZ group's reference part *)
  Definition agree (ar : archive) : Prop :=
    forall g p, 16 <= g -> ar_ref ar g = Some p -> ref_via_segment (get_part p) = ref_via_query (get_part p).
  Definition inv (ar : archive) (st : rstate) : Prop := tabs_ok ar st /\ cache_ok ar (st_cache st).

  Lemma cache_get_in : forall c g v, cache_get c g = Some v -> In (g, v) c.
  Proof.
    intros c g v H. unfold cache_get in H.
    destruct (find (fun e => fst e =? g) c) as [[g' v']|] eqn:E; [|discriminate].
    inversion H; subst. apply find_some in E as [Hin He]. cbn in He. apply N.eqb_eq in He. now subst.
  Qed.

  Lemma cache_ok_cons : forall ar c g v p, cache_ok ar c -> ar_ref ar g = Some p ->
    ref_via_query (get_part p) = Ok v -> cache_ok ar ((g, v) :: c).
  Proof.
    intros ar c g v p Hc Hr Hq g' v' [H|H]; [inversion H; subst; eauto | now apply Hc].
  Qed.

  (* ---- segment level: result is the stateless one, tables untouched, cache stays sound *)
  Definition same_tabs (st st' : rstate) : Prop :=
    st_tabs st' = st_tabs st /\ st_cursor st' = st_cursor st /\ st_last st' = st_last st.
  Lemma same_tabs_refl : forall st, same_tabs st st. Proof. now unfold same_tabs. Qed.
  Lemma same_tabs_trans : forall a b c, same_tabs a b -> same_tabs b c -> same_tabs a c.
  Proof. unfold same_tabs; intros a b c (?&?&?) (?&?&?); repeat split; congruence. Qed.
  Lemma same_tabs_set_cache : forall st c, same_tabs st (set_cache st c).
  Proof. now unfold same_tabs. Qed.

  Lemma get_segment_tabs : forall ar st d, same_tabs st (fst (get_segment ar st d)).
  Proof.
    intros. unfold ReaderState.get_segment.
    destruct (16 <=? d_group d); [|apply same_tabs_refl].
    destruct (cache_get (st_cache st) (d_group d)).
    - destruct (d_in d =? 0); apply same_tabs_refl.
    - destruct (ar_ref ar (d_group d)); [|apply same_tabs_refl].
      destruct (ReaderState.ref_via_segment dz (get_part p)); try apply same_tabs_refl.
      destruct (d_in d =? 0); apply same_tabs_set_cache.
  Qed.

  Lemma get_segment_spec : forall ar st d, agree ar -> cache_ok ar (st_cache st) ->
    snd (get_segment ar st d) = seg_spec ar d /\ cache_ok ar (st_cache (fst (get_segment ar st d))).
  Proof.
    intros ar st d Ha Hc. unfold ReaderState.get_segment, ReaderState.seg_spec, ReaderState.ref_spec.
    destruct (16 <=? d_group d) eqn:Hg; [|split; [reflexivity | exact Hc]].
    apply N.leb_le in Hg.
    destruct (cache_get (st_cache st) (d_group d)) as [rf|] eqn:Eg.
    - apply cache_get_in in Eg. destruct (Hc _ _ Eg) as (p & Hp & Hq).
      rewrite Hp, (Ha _ _ Hg Hp), Hq. cbn [obnd].
      destruct (d_in d =? 0); split; try reflexivity; exact Hc.
    - destruct (ar_ref ar (d_group d)) as [p|] eqn:Hp; [|split; [reflexivity | exact Hc]].
      destruct (ReaderState.ref_via_segment dz (get_part p)) as [rf| |] eqn:Er;
        try (split; [reflexivity | exact Hc]).
      cbn [obnd].
      assert (Hn : cache_ok ar ((d_group d, rf) :: st_cache st)).
      { eapply cache_ok_cons; eauto. rewrite <- (Ha _ _ Hg Hp). exact Er. }
      destruct (d_in d =? 0); split; try reflexivity; exact Hn.
  Qed.

  Lemma get_reference_segment_tabs : forall ar st g, same_tabs st (fst (get_reference_segment ar st g)).
  Proof.
    intros. unfold ReaderState.get_reference_segment.
    destruct (cache_get (st_cache st) g); [apply same_tabs_refl|].
    destruct (ar_ref ar g); [|apply same_tabs_refl].
    destruct (ReaderState.ref_via_query dz (get_part p)); try apply same_tabs_refl. apply same_tabs_set_cache.
  Qed.

  Lemma get_reference_segment_spec : forall ar st g, cache_ok ar (st_cache st) ->
    snd (get_reference_segment ar st g)
    = match ar_ref ar g with None => Err | Some p => ref_via_query (get_part p) end
    /\ cache_ok ar (st_cache (fst (get_reference_segment ar st g))).
  Proof.
    intros ar st g Hc. unfold ReaderState.get_reference_segment.
    destruct (cache_get (st_cache st) g) as [rf|] eqn:Eg.
    - apply cache_get_in in Eg. destruct (Hc _ _ Eg) as (p & Hp & Hq). rewrite Hp, Hq. now split.
    - destruct (ar_ref ar g) as [p|] eqn:Hp; [|now split].
      destruct (ReaderState.ref_via_query dz (get_part p)) as [rf| |] eqn:Er; try now split.
      split; [reflexivity|]. eapply cache_ok_cons; eauto.
  Qed.

  Lemma reconstruct_tabs : forall ar ds st first acc, same_tabs st (fst (reconstruct ar st ds first acc)).
  Proof.
    induction ds as [|d ds IH]; intros; cbn [ReaderState.reconstruct]; [apply same_tabs_refl|].
    pose proof (get_segment_tabs ar st d) as Ht.
    destruct (get_segment ar st d) as [st' [sd| |]]; cbn [fst] in *; try exact Ht.
    destruct first; [eapply same_tabs_trans; [exact Ht | apply IH]|].
    destruct (lenN (orient d sd) <? ar_k ar); [exact Ht|].
    eapply same_tabs_trans; [exact Ht | apply IH].
  Qed.

  Lemma reconstruct_spec : forall ar, agree ar -> forall ds st first acc, cache_ok ar (st_cache st) ->
    snd (reconstruct ar st ds first acc) = recon_spec ar ds first acc
    /\ cache_ok ar (st_cache (fst (reconstruct ar st ds first acc))).
  Proof.
    intros ar Ha. induction ds as [|d ds IH]; intros st first acc Hc;
      cbn [ReaderState.reconstruct ReaderState.recon_spec]; [now split|].
    destruct (get_segment_spec ar st d Ha Hc) as [Hs Hc'].
    destruct (get_segment ar st d) as [st' o]; cbn [fst snd] in *. rewrite <- Hs.
    destruct o as [sd| |]; cbn [obnd]; try (now split).
    destruct first; [now apply IH|].
    destruct (lenN (orient d sd) <? ar_k ar); [now split | now apply IH].
  Qed.

  Lemma reconstruct_all_tabs : forall ar cs st acc, same_tabs st (fst (reconstruct_all ar st cs acc)).
  Proof.
    induction cs as [|c cs IH]; intros; cbn [ReaderState.reconstruct_all]; [apply same_tabs_refl|].
    pose proof (reconstruct_tabs ar (snd c) st true []) as Ht.
    destruct (reconstruct ar st (snd c) true []) as [st' [sq| |]]; cbn [fst] in *; try exact Ht.
    eapply same_tabs_trans; [exact Ht | apply IH].
  Qed.

  Lemma reconstruct_all_spec : forall ar, agree ar -> forall cs st acc, cache_ok ar (st_cache st) ->
    snd (reconstruct_all ar st cs acc) = recon_all_spec ar cs acc
    /\ cache_ok ar (st_cache (fst (reconstruct_all ar st cs acc))).
  Proof.
    intros ar Ha. induction cs as [|c cs IH]; intros st acc Hc;
      cbn [ReaderState.reconstruct_all ReaderState.recon_all_spec]; [now split|].
    destruct (reconstruct_spec ar Ha (snd c) st true [] Hc) as [Hs Hc'].
    destruct (reconstruct ar st (snd c) true []) as [st' o]; cbn [fst snd] in *. rewrite <- Hs.
    destruct o as [sq| |]; cbn [obnd]; try (now split). now apply IH.
  Qed.

  Lemma range_loop_tabs : forall ar rs st a e acc, same_tabs st (fst (range_loop ar st rs a e acc)).
  Proof.
    induction rs as [|[[[s0 e0] d] first] rs IH]; intros; cbn [ReaderState.range_loop]; [apply same_tabs_refl|].
    destruct (e0 <=? a); [apply IH|]. destruct (e <=? s0); [apply same_tabs_refl|].
    pose proof (get_segment_tabs ar st d) as Ht.
    destruct (get_segment ar st d) as [st' [sd| |]]; cbn [fst] in *; try exact Ht.
    eapply same_tabs_trans; [exact Ht | apply IH].
  Qed.

  Lemma range_loop_spec : forall ar, agree ar -> forall rs st a e acc, cache_ok ar (st_cache st) ->
    snd (range_loop ar st rs a e acc) = range_spec ar rs a e acc
    /\ cache_ok ar (st_cache (fst (range_loop ar st rs a e acc))).
  Proof.
    intros ar Ha. induction rs as [|[[[s0 e0] d] first] rs IH]; intros st a e acc Hc;
      cbn [ReaderState.range_loop ReaderState.range_spec]; [now split|].
    destruct (e0 <=? a); [now apply IH|]. destruct (e <=? s0); [now split|].
    destruct (get_segment_spec ar st d Ha Hc) as [Hs Hc'].
    destruct (get_segment ar st d) as [st' o]; cbn [fst snd] in *. rewrite <- Hs.
    destruct o as [sd| |]; cbn [obnd]; try (now split). now apply IH.
  Qed.
End Proofs.
