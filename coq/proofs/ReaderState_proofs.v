(* ReaderState_proofs.v - C08: every query answer is a function of the archive alone. *)
From Ragc Require Import ReaderState.
From Coq Require Import Lia.

(* ------------------------------------------------------------------ lists *)
Open Scope nat_scope.
Lemma set_nth_app : forall {A} (pre : list A) x r y, set_nth (pre ++ x :: r) (length pre) y = pre ++ y :: r.
Proof. induction pre; intros; cbn; [reflexivity | now rewrite IHpre]. Qed.

Lemma put_app : forall b pre rest, length b <= length rest ->
  put (pre ++ rest) (length pre) b = (pre ++ b ++ skipn (length b) rest, true).
Proof.
  induction b as [|cs b IH]; intros pre rest Hl.
  - reflexivity.
  - destruct rest as [|r0 rest]; [cbn in Hl; lia|].
    cbn [put].
    assert (Hlt : Nat.ltb (length pre) (length (pre ++ r0 :: rest)) = true).
    { apply Nat.ltb_lt. rewrite app_length. cbn. lia. }
    rewrite Hlt, set_nth_app.
    replace (pre ++ cs :: rest) with ((pre ++ [cs]) ++ rest) by (rewrite <- app_assoc; reflexivity).
    replace (S (length pre)) with (length (pre ++ [cs])) by (rewrite app_length; cbn; lia).
    rewrite IH by (cbn in Hl; lia).
    rewrite <- app_assoc. reflexivity.
Qed.

Lemma strip_length : forall (b : batch), length (map strip b) = length b.
Proof. intros; apply map_length. Qed.

Lemma skipn_app_exact : forall {A} (a b : list A) n, n = length a -> skipn n (a ++ b) = b.
Proof. intros; subst. rewrite skipn_app, skipn_all, Nat.sub_diag. reflexivity. Qed.

Lemma skipn_skipn' : forall {A} (l : list A) n m, skipn n (skipn m l) = skipn (m + n) l.
Proof.
  intros A l n m. revert l. induction m; intros l; [reflexivity|].
  destruct l; cbn; [now rewrite skipn_nil | apply IHm].
Qed.

Lemma load_batch_ok : forall st b id pre rest,
  st_tabs st = pre ++ rest ->
  (if Nat.eqb id 0 then pre = [] else st_cursor st = length pre) ->
  length b <= length rest ->
  load_contig_batch st (Some b) id
  = (mkSt (pre ++ b ++ skipn (length b) rest) (length pre + length b) (length b) (st_cache st), Ok tt).
Proof.
  intros st b id pre rest Ht Hc Hl. unfold load_contig_batch.
  assert (Hi : (if Nat.eqb id 0 then O else st_cursor st) = length pre).
  { destruct (Nat.eqb id 0); subst; reflexivity || assumption. }
  rewrite Hi, Ht.
  rewrite put_app by (rewrite strip_length; exact Hl).
  rewrite strip_length.
  rewrite put_app.
  2:{ rewrite app_length, strip_length, skipn_length. lia. }
  rewrite (skipn_app_exact (map strip b)) by (now rewrite strip_length).
  reflexivity.
Qed.

Lemma load_from_ok : forall bl id pre rest st,
  st_tabs st = pre ++ rest ->
  (if Nat.eqb id 0 then pre = [] else st_cursor st = length pre) ->
  length (concat bl) <= length rest ->
  exists c l, load_from (map Some bl) id st
              = (mkSt (pre ++ concat bl ++ skipn (length (concat bl)) rest) c l (st_cache st), Ok tt).
Proof.
  induction bl as [|b bl IH]; intros id pre rest st Ht Hc Hl.
  - cbn. exists (st_cursor st), (st_last st). destruct st; cbn in *; subst; reflexivity.
  - cbn [map load_from concat]. cbn [concat] in Hl. rewrite app_length in Hl.
    rewrite (load_batch_ok st b id pre rest Ht Hc) by lia.
    set (st1 := mkSt _ _ _ _).
    destruct (IH (S id) (pre ++ b) (skipn (length b) rest) st1) as (c & l & E).
    + unfold st1; cbn. now rewrite app_assoc.
    + cbn. unfold st1; cbn. rewrite app_length. reflexivity.
    + rewrite skipn_length. lia.
    + exists c, l. rewrite E. unfold st1; cbn. f_equal. f_equal.
      rewrite <- !app_assoc. f_equal. f_equal. rewrite app_length.
      rewrite skipn_skipn'. reflexivity.
Qed.

(* ------------------------------------------------------------------ well-formed archives *)
Definition is_some {A} (o : option A) : bool := match o with Some _ => true | None => false end.
Definition wfb (ar : archive) : bool :=
  forallb is_some (ar_batches ar) && Nat.leb (length (all_entries ar)) (length (ar_names ar)).
(* every catalogue batch decodes and the batches do not describe more samples than the sample table has *)
Definition wf (ar : archive) : Prop := wfb ar = true.

Lemma all_some : forall {A} (l : list (option A)) (d : option A -> A),
  (forall a, d (Some a) = a) -> forallb is_some l = true -> l = map Some (map d l).
Proof.
  induction l as [|[a|] l IH]; intros d Hd H; cbn in *; try discriminate; [reflexivity|].
  rewrite Hd. f_equal. now apply IH.
Qed.

Definition empty_tabs (ar : archive) : list (list contig) := map (fun _ => []) (ar_names ar).
Definition tabs_ok (ar : archive) (st : rstate) : Prop :=
  st_tabs st = empty_tabs ar \/ st_tabs st = catalogue ar.

Lemma map_const_repeat : forall {A B} (l : list A) (x : B), map (fun _ => x) l = repeat x (length l).
Proof. induction l; intros; cbn; [reflexivity | now rewrite IHl]. Qed.

Lemma skipn_repeat : forall {A} (x : A) n m, skipn m (repeat x n) = repeat x (n - m).
Proof.
  induction n; intros; destruct m; cbn; try reflexivity. apply IHn.
Qed.

Lemma load_all_full : forall ar st, wf ar -> tabs_ok ar st ->
  exists c l, load_all ar st = (mkSt (catalogue ar) c l (st_cache st), Ok tt).
Proof.
  intros ar st Hwf Hok. unfold wf, wfb in Hwf. apply andb_prop in Hwf as [Hs Hle].
  apply Nat.leb_le in Hle.
  pose proof (all_some (ar_batches ar) batch_or_nil (fun a => eq_refl) Hs) as Hb.
  unfold load_all. rewrite Hb.
  assert (Hall : all_entries ar = concat (map batch_or_nil (ar_batches ar))) by reflexivity.
  set (bl := map batch_or_nil (ar_batches ar)) in *.
  destruct (load_from_ok bl 0 [] (st_tabs st) st eq_refl eq_refl) as (c & l & E).
  - rewrite <- Hall. destruct Hok as [H|H]; rewrite H.
    + unfold empty_tabs. rewrite map_length. exact Hle.
    + unfold catalogue. rewrite app_length, repeat_length. lia.
  - exists c, l. eapply eq_trans; [exact E|]. cbn [app]. f_equal. f_equal.
    rewrite <- Hall. unfold catalogue. f_equal.
    destruct Hok as [H|H]; rewrite H.
    + unfold empty_tabs. rewrite map_const_repeat. apply skipn_repeat.
    + unfold catalogue. now rewrite skipn_app_exact.
Qed.

Lemma need_load_empty : forall ar st s, st_tabs st = empty_tabs ar -> need_load ar st s = true.
Proof.
  intros ar st s H. unfold need_load, get_no_contigs. rewrite H.
  destruct (sid ar s) as [id|]; cbn; [|reflexivity].
  unfold tab, empty_tabs.
  assert (E : nth id (map (fun _ : name => @nil contig) (ar_names ar)) [] = []).
  { rewrite (map_nth (fun _ : name => @nil contig) (ar_names ar) [] id). reflexivity. }
  rewrite E. reflexivity.
Qed.

Lemma ensure_loaded_full : forall ar st s, wf ar -> tabs_ok ar st ->
  exists c l, ensure_loaded ar st s = (mkSt (catalogue ar) c l (st_cache st), Ok tt).
Proof.
  intros ar st s Hwf Hok. unfold ensure_loaded.
  destruct (need_load ar st s) eqn:E.
  - now apply load_all_full.
  - destruct Hok as [H|H].
    + rewrite need_load_empty in E by exact H. discriminate.
    + exists (st_cursor st), (st_last st). destruct st; cbn in *; subst; reflexivity.
Qed.

Open Scope N_scope.
Section Proofs.
  Variable dz : list N -> N -> outcome (list N).
  Notation ref_via_segment := (ref_via_segment dz).
  Notation ref_via_query := (ref_via_query dz).
  Notation get_segment := (get_segment dz).
  Notation get_reference_segment := (get_reference_segment dz).
  Notation reconstruct := (reconstruct dz).
  Notation reconstruct_all := (reconstruct_all dz).
  Notation range_loop := (range_loop dz).
  Notation step := (step dz).
  Notation run := (run dz).
  Notation ask_after := (ask_after dz).
  Notation answer := (answer dz).
  Notation seg_spec := (seg_spec dz).
  Notation ref_spec := (ref_spec dz).
  Notation recon_spec := (recon_spec dz).
  Notation recon_all_spec := (recon_all_spec dz).
  Notation range_spec := (range_spec dz).
  Notation sys_step := (sys_step dz).
  Notation sys_run := (sys_run dz).

  (* every cached reference is what get_reference_segment's decoder gives for that group *)
  Definition cache_ok (ar : archive) (c : list (N * list N)) : Prop :=
    forall g v, In (g, v) c -> exists p, ar_ref ar g = Some p /\ ref_via_query (get_part p) = Ok v.
  (* the two reference decoders give the same result on every LZ group's reference part *)
  Definition agree (ar : archive) : Prop :=
    forall g p, 16 <= g -> ar_ref ar g = Some p -> ref_via_segment (get_part p) = ref_via_query (get_part p).
  Definition inv (ar : archive) (st : rstate) : Prop := tabs_ok ar st /\ cache_ok ar (st_cache st).

  Lemma cache_get_in : forall c g v, cache_get c g = Some v -> In (g, v) c.
  Proof.
    intros c g v H. unfold cache_get in H.
    destruct (find (fun e => fst e =? g) c) as [[g' v']|] eqn:E; [|discriminate].
    inversion H; subst. apply find_some in E as [Hin He]. cbn in He. apply N.eqb_eq in He. now subst.
  Qed.

  Lemma cache_ok_cons : forall ar c g v p, cache_ok ar c -> ar_ref ar g = Some p ->
    ref_via_query (get_part p) = Ok v -> cache_ok ar ((g, v) :: c).
  Proof.
    intros ar c g v p Hc Hr Hq g' v' [H|H]; [inversion H; subst; eauto | now apply Hc].
  Qed.

  (* ---- segment level: result is the stateless one, tables untouched, cache stays sound *)
  Definition same_tabs (st st' : rstate) : Prop :=
    st_tabs st' = st_tabs st /\ st_cursor st' = st_cursor st /\ st_last st' = st_last st.
  Lemma same_tabs_refl : forall st, same_tabs st st. Proof. now unfold same_tabs. Qed.
  Lemma same_tabs_trans : forall a b c, same_tabs a b -> same_tabs b c -> same_tabs a c.
  Proof. unfold same_tabs; intros a b c (?&?&?) (?&?&?); repeat split; congruence. Qed.
  Lemma same_tabs_set_cache : forall st c, same_tabs st (set_cache st c).
  Proof. now unfold same_tabs. Qed.

  Lemma get_segment_tabs : forall ar st d, same_tabs st (fst (get_segment ar st d)).
  Proof.
    intros. unfold ReaderState.get_segment.
    destruct (16 <=? d_group d); [|apply same_tabs_refl].
    destruct (cache_get (st_cache st) (d_group d)).
    - destruct (d_in d =? 0); apply same_tabs_refl.
    - destruct (ar_ref ar (d_group d)); [|apply same_tabs_refl].
      destruct (ReaderState.ref_via_segment dz (get_part p)); try apply same_tabs_refl.
      destruct (d_in d =? 0); apply same_tabs_set_cache.
  Qed.

  Lemma get_segment_spec : forall ar st d, agree ar -> cache_ok ar (st_cache st) ->
    snd (get_segment ar st d) = seg_spec ar d /\ cache_ok ar (st_cache (fst (get_segment ar st d))).
  Proof.
    intros ar st d Ha Hc. unfold ReaderState.get_segment, ReaderState.seg_spec, ReaderState.ref_spec.
    destruct (16 <=? d_group d) eqn:Hg; [|split; [reflexivity | exact Hc]].
    apply N.leb_le in Hg.
    destruct (cache_get (st_cache st) (d_group d)) as [rf|] eqn:Eg.
    - apply cache_get_in in Eg. destruct (Hc _ _ Eg) as (p & Hp & Hq).
      rewrite Hp, (Ha _ _ Hg Hp), Hq. cbn [obnd].
      destruct (d_in d =? 0); split; try reflexivity; exact Hc.
    - destruct (ar_ref ar (d_group d)) as [p|] eqn:Hp; [|split; [reflexivity | exact Hc]].
      destruct (ReaderState.ref_via_segment dz (get_part p)) as [rf| |] eqn:Er;
        try (split; [reflexivity | exact Hc]).
      cbn [obnd].
      assert (Hn : cache_ok ar ((d_group d, rf) :: st_cache st)).
      { eapply cache_ok_cons; eauto. rewrite <- (Ha _ _ Hg Hp). exact Er. }
      destruct (d_in d =? 0); split; try reflexivity; exact Hn.
  Qed.

  Lemma get_reference_segment_tabs : forall ar st g, same_tabs st (fst (get_reference_segment ar st g)).
  Proof.
    intros. unfold ReaderState.get_reference_segment.
    destruct (cache_get (st_cache st) g); [apply same_tabs_refl|].
    destruct (ar_ref ar g); [|apply same_tabs_refl].
    destruct (ReaderState.ref_via_query dz (get_part p)); try apply same_tabs_refl. apply same_tabs_set_cache.
  Qed.

  Lemma get_reference_segment_spec : forall ar st g, cache_ok ar (st_cache st) ->
    snd (get_reference_segment ar st g)
    = match ar_ref ar g with None => Err | Some p => ref_via_query (get_part p) end
    /\ cache_ok ar (st_cache (fst (get_reference_segment ar st g))).
  Proof.
    intros ar st g Hc. unfold ReaderState.get_reference_segment.
    destruct (cache_get (st_cache st) g) as [rf|] eqn:Eg.
    - apply cache_get_in in Eg. destruct (Hc _ _ Eg) as (p & Hp & Hq). rewrite Hp, Hq. now split.
    - destruct (ar_ref ar g) as [p|] eqn:Hp; [|now split].
      destruct (ReaderState.ref_via_query dz (get_part p)) as [rf| |] eqn:Er; try now split.
      split; [reflexivity|]. eapply cache_ok_cons; eauto.
  Qed.

  Lemma reconstruct_tabs : forall ar ds st first acc, same_tabs st (fst (reconstruct ar st ds first acc)).
  Proof.
    induction ds as [|d ds IH]; intros; cbn [ReaderState.reconstruct]; [apply same_tabs_refl|].
    pose proof (get_segment_tabs ar st d) as Ht.
    destruct (get_segment ar st d) as [st' [sd| |]]; cbn [fst] in *; try exact Ht.
    destruct first; [eapply same_tabs_trans; [exact Ht | apply IH]|].
    destruct (lenN (orient d sd) <? ar_k ar); [exact Ht|].
    eapply same_tabs_trans; [exact Ht | apply IH].
  Qed.

  Lemma reconstruct_spec : forall ar, agree ar -> forall ds st first acc, cache_ok ar (st_cache st) ->
    snd (reconstruct ar st ds first acc) = recon_spec ar ds first acc
    /\ cache_ok ar (st_cache (fst (reconstruct ar st ds first acc))).
  Proof.
    intros ar Ha. induction ds as [|d ds IH]; intros st first acc Hc;
      cbn [ReaderState.reconstruct ReaderState.recon_spec]; [now split|].
    destruct (get_segment_spec ar st d Ha Hc) as [Hs Hc'].
    destruct (get_segment ar st d) as [st' o]; cbn [fst snd] in *. rewrite <- Hs.
    destruct o as [sd| |]; cbn [obnd]; try (now split).
    destruct first; [now apply IH|].
    destruct (lenN (orient d sd) <? ar_k ar); [now split | now apply IH].
  Qed.

  Lemma reconstruct_all_tabs : forall ar cs st acc, same_tabs st (fst (reconstruct_all ar st cs acc)).
  Proof.
    induction cs as [|c cs IH]; intros; cbn [ReaderState.reconstruct_all]; [apply same_tabs_refl|].
    pose proof (reconstruct_tabs ar (snd c) st true []) as Ht.
    destruct (reconstruct ar st (snd c) true []) as [st' [sq| |]]; cbn [fst] in *; try exact Ht.
    eapply same_tabs_trans; [exact Ht | apply IH].
  Qed.

  Lemma reconstruct_all_spec : forall ar, agree ar -> forall cs st acc, cache_ok ar (st_cache st) ->
    snd (reconstruct_all ar st cs acc) = recon_all_spec ar cs acc
    /\ cache_ok ar (st_cache (fst (reconstruct_all ar st cs acc))).
  Proof.
    intros ar Ha. induction cs as [|c cs IH]; intros st acc Hc;
      cbn [ReaderState.reconstruct_all ReaderState.recon_all_spec]; [now split|].
    destruct (reconstruct_spec ar Ha (snd c) st true [] Hc) as [Hs Hc'].
    destruct (reconstruct ar st (snd c) true []) as [st' o]; cbn [fst snd] in *. rewrite <- Hs.
    destruct o as [sq| |]; cbn [obnd]; try (now split). now apply IH.
  Qed.

  Lemma range_loop_tabs : forall ar rs st a e acc, same_tabs st (fst (range_loop ar st rs a e acc)).
  Proof.
    induction rs as [|[[[s0 e0] d] first] rs IH]; intros; cbn [ReaderState.range_loop]; [apply same_tabs_refl|].
    destruct (e0 <=? a); [apply IH|]. destruct (e <=? s0); [apply same_tabs_refl|].
    pose proof (get_segment_tabs ar st d) as Ht.
    destruct (get_segment ar st d) as [st' [sd| |]]; cbn [fst] in *; try exact Ht.
    eapply same_tabs_trans; [exact Ht | apply IH].
  Qed.

  Lemma range_loop_spec : forall ar, agree ar -> forall rs st a e acc, cache_ok ar (st_cache st) ->
    snd (range_loop ar st rs a e acc) = range_spec ar rs a e acc
    /\ cache_ok ar (st_cache (fst (range_loop ar st rs a e acc))).
  Proof.
    intros ar Ha. induction rs as [|[[[s0 e0] d] first] rs IH]; intros st a e acc Hc;
      cbn [ReaderState.range_loop ReaderState.range_spec]; [now split|].
    destruct (e0 <=? a); [now apply IH|]. destruct (e <=? s0); [now split|].
    destruct (get_segment_spec ar st d Ha Hc) as [Hs Hc'].
    destruct (get_segment ar st d) as [st' o]; cbn [fst snd] in *. rewrite <- Hs.
    destruct o as [sd| |]; cbn [obnd]; try (now split). now apply IH.
  Qed.

  (* ---- the loader blocks *)
  Lemma after_ensure : forall ar st s {A} (f : rstate -> rstate * outcome A), wf ar -> tabs_ok ar st ->
    exists c l, after (ensure_loaded ar st s) f = f (mkSt (catalogue ar) c l (st_cache st)).
  Proof.
    intros ar st s A f Hwf Hok. destruct (ensure_loaded_full ar st s Hwf Hok) as (c & l & E).
    exists c, l. rewrite E. reflexivity.
  Qed.
  Lemma after_load_all : forall ar st {A} (f : rstate -> rstate * outcome A), wf ar -> tabs_ok ar st ->
    exists c l, after (load_all ar st) f = f (mkSt (catalogue ar) c l (st_cache st)).
  Proof.
    intros ar st A f Hwf Hok. destruct (load_all_full ar st Hwf Hok) as (c & l & E).
    exists c, l. rewrite E. reflexivity.
  Qed.

  Lemma lift_fst : forall {A} (f : A -> value) r, fst (lift f r) = fst r.
  Proof. intros A f [st [a| |]]; reflexivity. Qed.
  Lemma lift_snd : forall {A} (f : A -> value) r, snd (lift f r) = omap f (snd r).
  Proof. intros A f [st [a| |]]; reflexivity. Qed.

  Lemma tabs_ok_same : forall ar st st', tabs_ok ar st -> same_tabs st st' -> tabs_ok ar st'.
  Proof. intros ar st st' H (E & _). unfold tabs_ok in *. now rewrite E. Qed.
  Lemma tabs_ok_cat : forall ar c l ch, tabs_ok ar (mkSt (catalogue ar) c l ch).
  Proof. intros; right; reflexivity. Qed.

  (* queries answered from the tables alone *)
  Definition is_table (q : query) : bool :=
    match q with
    | QListSamples | QPrefix _ | QCompStats | QListContigs _ | QContigLength _ _ | QSegDesc _ _
    | QGroupStats | QAllSegments => true
    | _ => false
    end.

  Ltac loaded Hwf Hok E :=
    match goal with
    | |- context [after (ensure_loaded ?ar ?st ?s) ?f] =>
      let c := fresh "c" in let l := fresh "l" in
      destruct (after_ensure ar st s f Hwf Hok) as (c & l & E); rewrite E; clear E; cbn beta
    | |- context [after (load_all ?ar ?st) ?f] =>
      let c := fresh "c" in let l := fresh "l" in
      destruct (after_load_all ar st f Hwf Hok) as (c & l & E); rewrite E; clear E; cbn beta
    end.

  Lemma table_step : forall ar st q, wf ar -> tabs_ok ar st -> is_table q = true ->
    snd (step ar st q) = answer ar q /\ tabs_ok ar (fst (step ar st q))
    /\ st_cache (fst (step ar st q)) = st_cache st.
  Proof.
    intros ar st q Hwf Hok Hq.
    destruct q; try discriminate Hq; unfold ReaderState.step, ReaderState.answer; cbn [fst snd].
    - repeat split; assumption.
    - repeat split; assumption.
    - repeat split; assumption.
    - loaded Hwf Hok E. cbn [st_tabs].
      destruct (get_contig_list ar (catalogue ar) s); cbn [fst snd st_cache]; repeat split; apply tabs_ok_cat.
    - loaded Hwf Hok E. cbn [st_tabs].
      destruct (get_contig_desc ar (catalogue ar) s c); rewrite ?lift_fst, ?lift_snd; cbn [fst snd st_cache];
        repeat split; apply tabs_ok_cat.
    - loaded Hwf Hok E. cbn [st_tabs].
      destruct (get_contig_desc ar (catalogue ar) s c); cbn [fst snd st_cache]; repeat split; apply tabs_ok_cat.
    - loaded Hwf Hok E. cbn [st_tabs]. rewrite lift_fst, lift_snd. cbn [fst snd st_cache].
      repeat split; apply tabs_ok_cat.
    - loaded Hwf Hok E. cbn [st_tabs]. rewrite lift_fst, lift_snd. cbn [fst snd st_cache].
      repeat split; apply tabs_ok_cat.
  Qed.

  (* the tables stay "empty or complete" whatever is asked (no hypothesis on the reference decoders) *)
  Lemma step_tabs_ok : forall ar st q, wf ar -> tabs_ok ar st -> tabs_ok ar (fst (step ar st q)).
  Proof.
    intros ar st q Hwf Hok.
    destruct (is_table q) eqn:Hq; [now apply table_step|].
    destruct q; try discriminate Hq; unfold ReaderState.step.
    - (* range *)
      destruct (b <=? a); [exact Hok|]. loaded Hwf Hok E. cbn [st_tabs].
      destruct (get_contig_desc ar (catalogue ar) s c); [|apply tabs_ok_cat].
      destruct (seg_ranges (ar_k ar) l0 true 0) as [[rs clen]| |]; try apply tabs_ok_cat.
      destruct (N.min b clen <=? a); [apply tabs_ok_cat|].
      rewrite lift_fst. eapply tabs_ok_same; [apply tabs_ok_cat | apply range_loop_tabs].
    - loaded Hwf Hok E. cbn [st_tabs].
      destruct (get_contig_desc ar (catalogue ar) s c); [|apply tabs_ok_cat].
      rewrite lift_fst. eapply tabs_ok_same; [apply tabs_ok_cat | apply reconstruct_tabs].
    - rewrite lift_fst. eapply tabs_ok_same; [exact Hok | apply get_segment_tabs].
    - rewrite lift_fst. eapply tabs_ok_same; [exact Hok | apply get_reference_segment_tabs].
    - loaded Hwf Hok E. cbn [st_tabs].
      destruct (get_sample_desc ar (catalogue ar) s); [|apply tabs_ok_cat].
      rewrite lift_fst. eapply tabs_ok_same; [apply tabs_ok_cat | apply reconstruct_all_tabs].
  Qed.

  Lemma step_spec : forall ar st q, wf ar -> agree ar -> inv ar st ->
    snd (step ar st q) = answer ar q /\ inv ar (fst (step ar st q)).
  Proof.
    intros ar st q Hwf Ha [Hok Hc].
    assert (Ht := step_tabs_ok ar st q Hwf Hok).
    destruct (is_table q) eqn:Hq.
    { destruct (table_step ar st q Hwf Hok Hq) as (H1 & H2 & H3). split; [exact H1|]. split; [exact H2|].
      now rewrite H3. }
    unfold inv. revert Ht.
    destruct q; try discriminate Hq; unfold ReaderState.step, ReaderState.answer.
    - (* range *)
      destruct (b <=? a); [intros; repeat split; assumption|]. loaded Hwf Hok E. cbn [st_tabs].
      destruct (get_contig_desc ar (catalogue ar) s c); [|intros; repeat split; assumption].
      destruct (seg_ranges (ar_k ar) l0 true 0) as [[rs clen]| |]; try (intros; repeat split; assumption).
      destruct (N.min b clen <=? a); [intros; repeat split; assumption|].
      rewrite lift_fst, lift_snd. intros Ht.
      destruct (range_loop_spec ar Ha rs (mkSt (catalogue ar) c0 l (st_cache st)) a (N.min b clen) [] Hc)
        as [Hs Hc'].
      rewrite Hs. repeat split; assumption.
    - loaded Hwf Hok E. cbn [st_tabs].
      destruct (get_contig_desc ar (catalogue ar) s c); [|intros; repeat split; assumption].
      rewrite lift_fst, lift_snd. intros Ht.
      destruct (reconstruct_spec ar Ha l0 (mkSt (catalogue ar) c0 l (st_cache st)) true [] Hc) as [Hs Hc'].
      rewrite Hs. repeat split; assumption.
    - rewrite lift_fst, lift_snd. intros Ht.
      destruct (get_segment_spec ar st d Ha Hc) as [Hs Hc']. rewrite Hs. repeat split; assumption.
    - rewrite lift_fst, lift_snd. intros Ht.
      destruct (get_reference_segment_spec ar st g Hc) as [Hs Hc']. rewrite Hs.
      split; [|split; assumption]. destruct (ar_ref ar g); reflexivity.
    - loaded Hwf Hok E. cbn [st_tabs].
      destruct (get_sample_desc ar (catalogue ar) s); [|intros; repeat split; assumption].
      rewrite lift_fst, lift_snd. intros Ht.
      destruct (reconstruct_all_spec ar Ha l0 (mkSt (catalogue ar) c l (st_cache st)) [] Hc) as [Hs Hc'].
      rewrite Hs. repeat split; assumption.
  Qed.

  Lemma inv_fresh : forall ar, inv ar (fresh ar).
  Proof. intros ar; split; [left; reflexivity | intros g v []]. Qed.

  Lemma run_inv : forall ar, wf ar -> agree ar -> forall h st, inv ar st -> inv ar (run ar st h).
  Proof.
    intros ar Hwf Ha. induction h as [|q h IH]; intros st Hi; cbn [ReaderState.run]; [exact Hi|].
    apply IH. now apply step_spec.
  Qed.
  Lemma run_tabs_ok : forall ar, wf ar -> forall h st, tabs_ok ar st -> tabs_ok ar (run ar st h).
  Proof.
    intros ar Hwf. induction h as [|q h IH]; intros st Hi; cbn [ReaderState.run]; [exact Hi|].
    apply IH. now apply step_tabs_ok.
  Qed.

  (* ================================================================== the C08 theorems *)
  Theorem history_independent_proof : forall ar, wf ar -> agree ar ->
    forall h q, ask_after ar h q = answer ar q.
  Proof.
    intros ar Hwf Ha h q. unfold ReaderState.ask_after.
    apply step_spec; try assumption. apply run_inv; try assumption. apply inv_fresh.
  Qed.

  Theorem table_queries_independent_proof : forall ar, wf ar ->
    forall h q, is_table q = true -> ask_after ar h q = answer ar q.
  Proof.
    intros ar Hwf h q Hq. unfold ReaderState.ask_after.
    apply table_step; try assumption. apply run_tabs_ok; [assumption|]. left; reflexivity.
  Qed.

  Theorem names_queries_any_state_proof : forall ar st,
    snd (step ar st QListSamples) = Ok (VNames (ar_names ar))
    /\ (forall p, snd (step ar st (QPrefix p)) = Ok (VNames (filter (fun s => starts_with s p) (ar_names ar))))
    /\ snd (step ar st QCompStats) = Ok (VStreams (ar_streams ar)).
  Proof. intros; repeat split. Qed.

  (* ---- a sufficient condition for [agree] that a writer can guarantee: a compressed reference part
     (metadata <> 0) decodes to metadata-many bytes and has at least 3 of them *)
  Definition sizes_ok (ar : archive) : Prop :=
    forall g p body mk r, 16 <= g -> ar_ref ar g = Some p -> fst (get_part p) <> 0 ->
      pop_last (snd (get_part p)) = Some (body, mk) -> dz body mk = Ok r ->
      lenN r = fst (get_part p) /\ 3 <= lenN r.

  Lemma get_part_empty : forall p, snd (get_part p) = [] -> fst (get_part p) = 0.
  Proof. intros [m [|x d]]; cbn; intros H; [reflexivity | discriminate]. Qed.

  Lemma agree_of_sizes_proof : forall ar, sizes_ok ar -> agree ar.
  Proof.
    intros ar Hs g p Hg Hr. specialize (Hs g p).
    unfold ReaderState.ref_via_segment, ReaderState.ref_via_query.
    pose proof (get_part_empty p) as He.
    destruct (get_part p) as [m d]; cbn [fst snd] in *.
    destruct d as [|x d].
    - rewrite He by reflexivity. reflexivity.
    - destruct (m =? 0) eqn:Em; [reflexivity|]. apply N.eqb_neq in Em.
      destruct (pop_last (x :: d)) as [[body mk]|] eqn:Ep; [|reflexivity].
      destruct (dz body mk) as [r| |] eqn:Ed; try reflexivity.
      destruct (Hs body mk r Hg Hr Em eq_refl Ed) as [Hl H3]. cbn [obnd negb andb].
      rewrite <- Hl.
      replace (lenN r * 4 <? lenN r + 8) with false; [now rewrite andb_false_r|].
      symmetry. apply N.ltb_ge. lia.
  Qed.

  (* ---- never panics *)
  Definition quiet (ar : archive) : Prop :=
    (forall g i r, ar_lz ar g i r <> Panic) /\ (forall g i, ar_raw ar g i <> Panic)
    /\ (forall b m, dz b m <> Panic).
  Definition tail_ok (k : N) (ds : list desc) : Prop :=
    match ds with [] => True | _ :: r => Forall (fun d => k <= d_len d) r end.
  (* every segment after the first one of a contig is at least k long (its descriptor says so) *)
  Definition lens_ok (ar : archive) : Prop :=
    Forall (fun cs => Forall (fun c : contig => tail_ok (ar_k ar) (snd c)) cs) (catalogue ar).

  Lemma ref_via_segment_quiet : forall p, (forall b m, dz b m <> Panic) -> ref_via_segment p <> Panic.
  Proof.
    intros [m d] Hq. unfold ReaderState.ref_via_segment; cbn [fst snd].
    destruct (m =? 0); cbn [obnd]; [discriminate|].
    destruct (pop_last d) as [[b mk]|]; cbn [obnd]; [|discriminate].
    specialize (Hq b mk). destruct (dz b mk); cbn [obnd]; try discriminate. congruence.
  Qed.
  Lemma ref_via_query_quiet : forall p, (forall b m, dz b m <> Panic) -> ref_via_query p <> Panic.
  Proof.
    intros [m d] Hq. unfold ReaderState.ref_via_query; cbn [fst snd].
    destruct d; [discriminate|]. destruct (m =? 0); [discriminate|].
    destruct (pop_last (n :: d)) as [[b mk]|]; [apply Hq | discriminate].
  Qed.
  Lemma seg_spec_quiet : forall ar d, quiet ar -> seg_spec ar d <> Panic.
  Proof.
    intros ar d (Hl & Hr & Hz). unfold ReaderState.seg_spec, ReaderState.ref_spec.
    destruct (16 <=? d_group d); [|apply Hr].
    destruct (ar_ref ar (d_group d)); cbn [obnd]; [|discriminate].
    pose proof (ref_via_segment_quiet (get_part p) Hz).
    destruct (ReaderState.ref_via_segment dz (get_part p)); cbn [obnd]; try congruence.
    destruct (d_in d =? 0); [discriminate | apply Hl].
  Qed.
  Lemma recon_spec_quiet : forall ar, quiet ar -> forall ds first acc, recon_spec ar ds first acc <> Panic.
  Proof.
    intros ar Hq. induction ds as [|d ds IH]; intros; cbn [ReaderState.recon_spec]; [discriminate|].
    pose proof (seg_spec_quiet ar d Hq). destruct (seg_spec ar d); cbn [obnd]; try congruence.
    destruct first; [apply IH|]. destruct (lenN (orient d a) <? ar_k ar); [discriminate | apply IH].
  Qed.
  Lemma recon_all_spec_quiet : forall ar, quiet ar -> forall cs acc, recon_all_spec ar cs acc <> Panic.
  Proof.
    intros ar Hq. induction cs as [|c cs IH]; intros; cbn [ReaderState.recon_all_spec]; [discriminate|].
    pose proof (recon_spec_quiet ar Hq (snd c) true []).
    destruct (recon_spec ar (snd c) true []); cbn [obnd]; try congruence; try apply IH.
  Qed.
  Lemma range_spec_quiet : forall ar, quiet ar -> forall rs a e acc, range_spec ar rs a e acc <> Panic.
  Proof.
    intros ar Hq. induction rs as [|[[[s0 e0] d] first] rs IH]; intros; cbn [ReaderState.range_spec];
      [discriminate|].
    destruct (e0 <=? a); [apply IH|]. destruct (e <=? s0); [discriminate|].
    pose proof (seg_spec_quiet ar d Hq). destruct (seg_spec ar d); cbn [obnd]; try congruence; try apply IH.
  Qed.
  Lemma total_len_quiet : forall k ds acc, Forall (fun d => k <= d_len d) ds -> total_len k ds false acc <> Panic.
  Proof.
    intros k. induction ds as [|d ds IH]; intros acc H; cbn [total_len]; [discriminate|].
    inversion H; subst. unfold sub_u64. replace (k <=? d_len d) with true by (symmetry; now apply N.leb_le).
    now apply IH.
  Qed.
  Lemma total_len_quiet1 : forall k ds, tail_ok k ds -> total_len k ds true 0 <> Panic.
  Proof. intros k [|d ds] H; cbn [total_len]; [discriminate | now apply total_len_quiet]. Qed.
  Lemma seg_ranges_quiet : forall k ds pos, Forall (fun d => k <= d_len d) ds -> seg_ranges k ds false pos <> Panic.
  Proof.
    intros k. induction ds as [|d ds IH]; intros pos H; cbn [seg_ranges]; [discriminate|].
    inversion H; subst. unfold sub_u64. replace (k <=? d_len d) with true by (symmetry; now apply N.leb_le).
    specialize (IH (pos + (d_len d - k)) H3). destruct (seg_ranges k ds false (pos + (d_len d - k))); cbn [obnd];
      congruence.
  Qed.
  Lemma seg_ranges_quiet1 : forall k ds, tail_ok k ds -> seg_ranges k ds true 0 <> Panic.
  Proof.
    intros k [|d ds] H; cbn [seg_ranges]; [discriminate|].
    pose proof (seg_ranges_quiet k ds (0 + d_len d) H).
    destruct (seg_ranges k ds false (0 + d_len d)); cbn [obnd]; congruence.
  Qed.
  Lemma collect_segments_quiet : forall ar tabs ns, collect_segments ar tabs ns <> Panic.
  Proof.
    induction ns as [|s ns IH]; cbn [collect_segments]; [discriminate|].
    destruct (get_contig_list ar tabs s); [|discriminate].
    destruct (collect_segments ar tabs ns); cbn [obnd]; congruence.
  Qed.
  Lemma contig_desc_tail_ok : forall ar s c ds, lens_ok ar ->
    get_contig_desc ar (catalogue ar) s c = Some ds -> tail_ok (ar_k ar) ds.
  Proof.
    intros ar s c ds Hl H. unfold get_contig_desc in H. destruct (sid ar s) as [id|]; [|discriminate].
    destruct (find (fun x => name_eqb (fst x) c) (tab (catalogue ar) id)) as [x|] eqn:Ef; [|discriminate].
    inversion H; subst. apply find_some in Ef as [Hin _]. unfold tab in Hin.
    destruct (nth_in_or_default id (catalogue ar) []) as [Hn|Hn].
    - unfold lens_ok in Hl. rewrite Forall_forall in Hl. specialize (Hl _ Hn).
      rewrite Forall_forall in Hl. now apply Hl.
    - rewrite Hn in Hin. destruct Hin.
  Qed.

  Lemma answer_quiet : forall ar q, quiet ar -> lens_ok ar -> answer ar q <> Panic.
  Proof.
    intros ar q Hq Hl. pose proof Hq as (_ & _ & Hz).
    destruct q; unfold ReaderState.answer; try discriminate.
    - destruct (get_contig_list ar (catalogue ar) s); discriminate.
    - destruct (get_contig_desc ar (catalogue ar) s c) eqn:E; [|discriminate].
      pose proof (total_len_quiet1 _ _ (contig_desc_tail_ok ar s c l Hl E)).
      destruct (total_len (ar_k ar) l true 0); cbn [omap]; congruence.
    - destruct (b <=? a); [discriminate|].
      destruct (get_contig_desc ar (catalogue ar) s c) eqn:E; [|discriminate].
      pose proof (seg_ranges_quiet1 _ _ (contig_desc_tail_ok ar s c l Hl E)).
      destruct (seg_ranges (ar_k ar) l true 0) as [[rs clen]| |]; try congruence.
      destruct (N.min b clen <=? a); [discriminate|].
      pose proof (range_spec_quiet ar Hq rs a (N.min b clen) []).
      destruct (range_spec ar rs a (N.min b clen) []); cbn [omap]; congruence.
    - destruct (get_contig_desc ar (catalogue ar) s c); [|discriminate].
      pose proof (recon_spec_quiet ar Hq l true []).
      destruct (recon_spec ar l true []); cbn [omap]; congruence.
    - destruct (get_contig_desc ar (catalogue ar) s c); discriminate.
    - pose proof (seg_spec_quiet ar d Hq). destruct (seg_spec ar d); cbn [omap]; congruence.
    - destruct (ar_ref ar g); [|discriminate].
      pose proof (ref_via_query_quiet (get_part p) Hz).
      destruct (ReaderState.ref_via_query dz (get_part p)); cbn [omap]; congruence.
    - destruct (get_sample_desc ar (catalogue ar) s); [|discriminate].
      pose proof (recon_all_spec_quiet ar Hq l []).
      destruct (recon_all_spec ar l []); cbn [omap]; congruence.
    - pose proof (collect_segments_quiet ar (catalogue ar) (ar_names ar)).
      destruct (collect_segments ar (catalogue ar) (ar_names ar)); cbn [omap]; congruence.
    - pose proof (collect_segments_quiet ar (catalogue ar) (ar_names ar)).
      destruct (collect_segments ar (catalogue ar) (ar_names ar)); cbn [omap]; congruence.
  Qed.

  Theorem never_panics_proof : forall ar, wf ar -> agree ar -> quiet ar -> lens_ok ar ->
    forall h q, ask_after ar h q <> Panic.
  Proof.
    intros ar Hwf Ha Hq Hl h q. rewrite history_independent_proof by assumption. now apply answer_quiet.
  Qed.

  (* ---- unknown names give Err *)
  Lemma name_eqb_eq : forall a b, name_eqb a b = true <-> a = b.
  Proof.
    unfold name_eqb. induction a as [|x a IH]; intros [|y b]; cbn; split; intros H; try reflexivity;
      try discriminate.
    - apply andb_prop in H as [H1 H2]. apply N.eqb_eq in H1. apply IH in H2. now subst.
    - inversion H; subst. rewrite N.eqb_refl. cbn. now apply IH.
  Qed.
  Lemma sid_from_none : forall ns i s, ~ In s ns -> sid_from ns i s = None.
  Proof.
    induction ns as [|n ns IH]; intros i s H; cbn [sid_from]; [reflexivity|].
    rewrite IH by (intros Hin; apply H; now right).
    destruct (name_eqb n s) eqn:E; [|reflexivity].
    apply name_eqb_eq in E. subst. exfalso. apply H. now left.
  Qed.

  Definition asks_sample (q : query) : option name :=
    match q with
    | QListContigs s | QContigLength s _ | QContig s _ | QSegDesc s _ | QSample s => Some s
    | QContigRange s _ a b => if b <=? a then None else Some s
    | _ => None
    end.
  Definition asks_contig (q : query) : option (name * name) :=
    match q with
    | QContigLength s c | QContig s c | QSegDesc s c => Some (s, c)
    | QContigRange s c a b => if b <=? a then None else Some (s, c)
    | _ => None
    end.

  Theorem unknown_sample_err_proof : forall ar q s, asks_sample q = Some s -> ~ In s (ar_names ar) ->
    answer ar q = Err.
  Proof.
    intros ar q s Hq Hn. assert (E : sid ar s = None) by (now apply sid_from_none).
    destruct q; cbn in Hq; try discriminate; try (destruct (b <=? a) eqn:Eb; try discriminate);
      inversion Hq; subst;
      unfold ReaderState.answer, get_contig_list, get_contig_desc, get_sample_desc; rewrite ?Eb, E; reflexivity.
  Qed.

  Theorem unknown_contig_err_proof : forall ar q s c, asks_contig q = Some (s, c) ->
    (forall id x, sid ar s = Some id -> In x (tab (catalogue ar) id) -> fst x <> c) ->
    answer ar q = Err.
  Proof.
    intros ar q s c Hq Hn.
    assert (E : get_contig_desc ar (catalogue ar) s c = None).
    { unfold get_contig_desc. destruct (sid ar s) as [id|] eqn:Es; [|reflexivity].
      destruct (find (fun x => name_eqb (fst x) c) (tab (catalogue ar) id)) as [x|] eqn:Ef; [|reflexivity].
      apply find_some in Ef as [Hin He]. apply name_eqb_eq in He. exfalso. eapply Hn; eauto. }
    destruct q; cbn in Hq; try discriminate; try (destruct (b <=? a) eqn:Eb; try discriminate);
      inversion Hq; subst; unfold ReaderState.answer; rewrite ?Eb, E; reflexivity.
  Qed.

  (* ---- several handles *)
  Lemma Forall_set_nth : forall {A} (P : A -> Prop) l i x, Forall P l -> P x -> Forall P (set_nth l i x).
  Proof.
    induction l as [|a l IH]; intros i x Hl Hx; cbn; [constructor|].
    inversion Hl; subst. destruct i; constructor; auto.
  Qed.

  Lemma sys_step_inv : forall ar, wf ar -> agree ar -> forall hs o,
    Forall (inv ar) hs -> Forall (inv ar) (fst (sys_step ar hs o)).
  Proof.
    intros ar Hwf Ha hs o H. destruct o as [h q|h]; cbn [ReaderState.sys_step].
    - destruct (nth_error hs h) as [st|] eqn:E; [|exact H]. cbn [fst].
      apply Forall_set_nth; [exact H|]. apply step_spec; try assumption.
      rewrite Forall_forall in H. apply H. eapply nth_error_In; eauto.
    - destruct (nth_error hs h); [|exact H]. cbn [fst]. apply Forall_app. split; [exact H|].
      constructor; [apply inv_fresh | constructor].
  Qed.
  Lemma sys_run_inv : forall ar, wf ar -> agree ar -> forall os hs,
    Forall (inv ar) hs -> Forall (inv ar) (sys_run ar hs os).
  Proof.
    intros ar Hwf Ha. induction os as [|o os IH]; intros hs H; cbn [ReaderState.sys_run]; [exact H|].
    apply IH. now apply sys_step_inv.
  Qed.

  (* after any interleaving of queries on any handles and of clone_for_thread calls, starting from one freshly
     opened handle, the next answer of ANY handle is the stateless answer *)
  Theorem clones_independent_proof : forall ar, wf ar -> agree ar ->
    forall os h st q, nth_error (sys_run ar [fresh ar] os) h = Some st -> snd (step ar st q) = answer ar q.
  Proof.
    intros ar Hwf Ha os h st q E.
    assert (H : Forall (inv ar) (sys_run ar [fresh ar] os)).
    { apply sys_run_inv; try assumption. constructor; [apply inv_fresh | constructor]. }
    rewrite Forall_forall in H. apply step_spec; try assumption. apply H. eapply nth_error_In; eauto.
  Qed.
  (* a clone's state does not depend on its parent's state *)
  Theorem clone_is_fresh_proof : forall ar hs h st, nth_error hs h = Some st ->
    fst (sys_step ar hs (OpClone h)) = hs ++ [fresh ar].
  Proof. intros ar hs h st E. cbn. now rewrite E. Qed.
End Proofs.

(* ------------------------------------------------------------------ concrete archives (non-vacuity, refutations) *)
Definition nm (x : N) : name := [x].
Definition ex_dz (body : list N) (mk : N) : outcome (list N) :=
  if list_eqb N.eqb body [9; 9] then Ok [0; 1; 2; 3; 0]
  else if list_eqb N.eqb body [27] then Ok [27] else Err.
Definition ex_lz (g i : N) (rf : list N) : outcome (list N) :=
  if (g =? 16) && (i =? 1) then Ok (rf ++ [1]) else Err.
Definition ex_raw (g i : N) : outcome (list N) := if (g =? 0) && (i =? 1) then Ok [2; 2] else Err.
Definition ex_b0 : batch :=
  [ [(nm 100, [mkDesc 16 0 false 5; mkDesc 17 0 true 4]); (nm 101, [mkDesc 0 1 false 2])];
    [(nm 100, [mkDesc 16 1 false 6; mkDesc 17 0 true 4])] ].
Definition ex_b1 : batch := [ [(nm 102, [mkDesc 17 0 false 4])] ].
(* three samples in two batches (sizes 2 and 1), k = 2; group 16: compressed reference (metadata 5), group 17:
   reference stored raw (metadata 0), group 0: raw group *)
Definition ex_ar : archive :=
  mkAr 2 [nm 1; nm 2; nm 3] [Some ex_b0; Some ex_b1]
       (fun g => if g =? 16 then Some (5, [9; 9; 1]) else if g =? 17 then Some (0, [3; 2; 1; 0]) else None)
       ex_lz ex_raw [].
(* a foreign archive whose reference really is 2-bit packed: the two decoders differ *)
Definition ex_packed : archive :=
  mkAr 2 [nm 1] [Some [[(nm 100, [mkDesc 16 0 false 4])]]]
       (fun g => if g =? 16 then Some (4, [27; 0]) else None) ex_lz ex_raw [].
(* the second catalogue batch does not decode *)
Definition ex_corrupt : archive :=
  mkAr 2 [nm 1; nm 2] [Some [[(nm 100, [mkDesc 0 1 false 2])]]; None] (fun _ => None) ex_lz ex_raw [].
(* the batches describe more samples than the sample table has *)
Definition ex_toomany : archive :=
  mkAr 2 [nm 1] [Some [[(nm 100, [mkDesc 0 1 false 2])]; [(nm 101, [mkDesc 0 1 false 2])]]] (fun _ => None)
       ex_lz ex_raw [].
(* a later segment shorter than k *)
Definition ex_short : archive :=
  mkAr 3 [nm 1] [Some [[(nm 100, [mkDesc 0 1 false 2; mkDesc 0 1 false 2])]]] (fun _ => None) ex_lz ex_raw [].

Lemma ex_ar_agree : agree ex_dz ex_ar.
Proof.
  intros g p Hg Hr. cbn in Hr.
  destruct (g =? 16); [inversion Hr; subst; reflexivity|].
  destruct (g =? 17); [inversion Hr; subst; reflexivity | discriminate].
Qed.
Lemma ex_ar_quiet : quiet ex_dz ex_ar.
Proof.
  repeat split; intros; cbn; unfold ex_lz, ex_raw, ex_dz.
  - destruct ((g =? 16) && (i =? 1)); discriminate.
  - destruct ((g =? 0) && (i =? 1)); discriminate.
  - destruct (list_eqb N.eqb b [9; 9]); [discriminate|]. destruct (list_eqb N.eqb b [27]); discriminate.
Qed.
Lemma ex_ar_lens_ok : lens_ok ex_ar.
Proof.
  unfold lens_ok. cbn. repeat constructor; cbn; apply N.leb_le; reflexivity.
Qed.

(* ------------------------------------------------------------------ the statements pinned in props/C08.v:
   hypotheses spelled out over the model's own definitions only *)
Lemma wf_of : forall ar, Forall (fun ob : option batch => ob <> None) (ar_batches ar) ->
  (length (all_entries ar) <= length (ar_names ar))%nat -> wf ar.
Proof.
  intros ar Hs Hl. unfold wf, wfb. apply andb_true_intro. split; [|now apply Nat.leb_le].
  apply forallb_forall. intros ob Hin. rewrite Forall_forall in Hs. specialize (Hs ob Hin).
  destruct ob; [reflexivity | congruence].
Qed.

Lemma lens_ok_of : forall ar,
  (forall cs c d r, In cs (catalogue ar) -> In c cs -> snd c = d :: r -> Forall (fun x => ar_k ar <= d_len x) r) ->
  lens_ok ar.
Proof.
  intros ar H. unfold lens_ok. apply Forall_forall. intros cs Hcs. apply Forall_forall. intros c Hc.
  unfold tail_ok. destruct (snd c) as [|d r] eqn:E; [exact I | eapply H; eauto].
Qed.

Definition table_query (q : query) : Prop :=
  match q with
  | QListSamples | QPrefix _ | QCompStats | QListContigs _ | QContigLength _ _ | QSegDesc _ _
  | QGroupStats | QAllSegments => True
  | _ => False
  end.

Section Pins.
  Variable dz : list N -> N -> outcome (list N).

  Lemma history_independent_pin : forall ar,
    Forall (fun ob : option batch => ob <> None) (ar_batches ar) ->
    (length (all_entries ar) <= length (ar_names ar))%nat ->
    (forall g p, 16 <= g -> ar_ref ar g = Some p ->
                 ref_via_segment dz (get_part p) = ref_via_query dz (get_part p)) ->
    forall h q, ask_after dz ar h q = answer dz ar q.
  Proof. intros ar H1 H2 H3. apply history_independent_proof; [now apply wf_of | exact H3]. Qed.

  Lemma table_queries_independent_pin : forall ar,
    Forall (fun ob : option batch => ob <> None) (ar_batches ar) ->
    (length (all_entries ar) <= length (ar_names ar))%nat ->
    forall h q, table_query q -> ask_after dz ar h q = answer dz ar q.
  Proof.
    intros ar H1 H2 h q Hq. apply table_queries_independent_proof; [now apply wf_of|].
    destruct q; cbn in *; tauto.
  Qed.

  Lemma decoders_agree_pin : forall ar,
    (forall g p body mk r, 16 <= g -> ar_ref ar g = Some p -> fst (get_part p) <> 0 ->
       pop_last (snd (get_part p)) = Some (body, mk) -> dz body mk = Ok r ->
       lenN r = fst (get_part p) /\ 3 <= lenN r) ->
    forall g p, 16 <= g -> ar_ref ar g = Some p ->
                ref_via_segment dz (get_part p) = ref_via_query dz (get_part p).
  Proof. intros ar H. exact (agree_of_sizes_proof dz ar H). Qed.

  Lemma never_panics_pin : forall ar,
    Forall (fun ob : option batch => ob <> None) (ar_batches ar) ->
    (length (all_entries ar) <= length (ar_names ar))%nat ->
    (forall g p, 16 <= g -> ar_ref ar g = Some p ->
                 ref_via_segment dz (get_part p) = ref_via_query dz (get_part p)) ->
    (forall g i r, ar_lz ar g i r <> Panic) -> (forall g i, ar_raw ar g i <> Panic) ->
    (forall b m, dz b m <> Panic) ->
    (forall cs c d r, In cs (catalogue ar) -> In c cs -> snd c = d :: r ->
                      Forall (fun x => ar_k ar <= d_len x) r) ->
    forall h q, ask_after dz ar h q <> Panic.
  Proof.
    intros ar H1 H2 H3 H4 H5 H6 H7. apply never_panics_proof;
      [now apply wf_of | exact H3 | repeat split; assumption | now apply lens_ok_of].
  Qed.

  Lemma clones_independent_pin : forall ar,
    Forall (fun ob : option batch => ob <> None) (ar_batches ar) ->
    (length (all_entries ar) <= length (ar_names ar))%nat ->
    (forall g p, 16 <= g -> ar_ref ar g = Some p ->
                 ref_via_segment dz (get_part p) = ref_via_query dz (get_part p)) ->
    forall os h st q, nth_error (sys_run dz ar [fresh ar] os) h = Some st ->
                      snd (step dz ar st q) = answer dz ar q.
  Proof. intros ar H1 H2 H3. apply clones_independent_proof; [now apply wf_of | exact H3]. Qed.
End Pins.

(* refutations (each hypothesis is needed) *)
Lemma decoders_disagree_refuted_proof : exists dz ar h q,
  Forall (fun ob : option batch => ob <> None) (ar_batches ar) /\
  (length (all_entries ar) <= length (ar_names ar))%nat /\
  ask_after dz ar h q <> answer dz ar q.
Proof.
  exists ex_dz, ex_packed, [QRefSeg 16], (QSample (nm 1)). split; [|split].
  - repeat constructor; discriminate.
  - cbn. lia.
  - vm_compute. discriminate.
Qed.
Lemma corrupt_batch_refuted_proof : exists dz ar q,
  ask_after dz ar [] q = Err /\ exists v, ask_after dz ar [q] q = Ok v.
Proof.
  exists ex_dz, ex_corrupt, (QListContigs (nm 1)). split; [reflexivity|]. eexists. vm_compute. reflexivity.
Qed.
Lemma too_many_entries_refuted_proof : exists dz ar q,
  Forall (fun ob : option batch => ob <> None) (ar_batches ar) /\ ask_after dz ar [] q = Panic
  /\ exists v, ask_after dz ar [q] q = Ok v.
Proof.
  exists ex_dz, ex_toomany, (QListContigs (nm 1)). split; [repeat constructor; discriminate|].
  split; [reflexivity|]. eexists. vm_compute. reflexivity.
Qed.
Lemma short_segment_refuted_proof : exists dz ar q,
  Forall (fun ob : option batch => ob <> None) (ar_batches ar) /\
  (length (all_entries ar) <= length (ar_names ar))%nat /\ answer dz ar q = Panic.
Proof.
  exists ex_dz, ex_short, (QContigLength (nm 1) (nm 100)). split; [repeat constructor; discriminate|].
  split; [cbn; lia | reflexivity].
Qed.
