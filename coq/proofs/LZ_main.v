(* LZ_main.v - top-level C09 theorems *)
From Coq Require Import Lia ZifyBool ZifyN ZifyNat.
From Ragc Require Import LZ_base LZ_int LZ_dec LZ_match LZ_enc1 LZ_enc2 LZ_prep.

Lemma zip_all_eq_true a : forall b c, zip_all_eq a (b ++ c) = true -> length a = length b -> a = b.
Proof.
  induction a as [|x a IH]; intros [|y b] c H L; cbn in *; try discriminate; auto.
  destruct (x =? y) eqn:E; [|discriminate]. cbn in H. f_equal. { lia. } eapply IH; eauto.
Qed.
Lemma zip_all_eq_refl a c : zip_all_eq a (a ++ c) = true.
Proof. induction a; cbn [zip_all_eq app]; auto. rewrite N.eqb_refl. exact IHa. Qed.

Lemma small_not_sep b : small b -> b <> 255.
Proof. unfold small. lia. Qed.

(* the encoder/decoder pair on ANY well-formed state: arbitrary hash function, table contents, mask *)
Theorem lz_roundtrip_any_index_proof : forall hash st rf tgt,
  wf_st st rf -> tgt <> [] -> Forall sym_ok tgt ->
  lenN rf + lenN tgt + mml st < 2147483648 ->
  exists enc, lz_encode hash st tgt = Ok enc /\
    (match enc with [] => Ok rf | _ :: _ => lz_decode st enc end) = Ok tgt /\
    (enc = [] <-> tgt = rf) /\ Forall (fun b => b <> 255) enc.
Proof.
  intros hash st rf tgt Hwf Hne Hsym Hsz.
  assert (W := Hwf). destruct W as (W1 & W2 & W3 & W4 & W5 & W6).
  assert (L : lenN (refp st) = lenN rf + key_len st) by (rewrite W1, lenN_app, lenN_repeat; lia).
  unfold lz_encode. destruct ((lenN tgt =? ref_len st) && zip_all_eq tgt (refp st)) eqn:E.
  - assert (tgt = rf).
    { rewrite W1 in E. apply andb_prop in E. destruct E as (E1 & E2).
      eapply zip_all_eq_true; eauto. unfold lenN in *. lia. }
    subst. exists []. repeat split; auto.
  - destruct (enc_main_good hash st rf tgt Hwf Hsym ltac:(lia) ltac:(lia)) as (enc & -> & D & S).
    exists enc. assert (enc <> []).
    { intros ->. unfold lz_decode in D. cbn in D. inversion D. congruence. }
    split; auto. split; [destruct enc; congruence|]. split.
    + split; [tauto|]. intros ->. exfalso. rewrite W1, W2, N.eqb_refl, zip_all_eq_refl in E. discriminate.
    + eapply Forall_impl; [|exact S]. apply small_not_sep.
Qed.

Theorem lz_full_proof : forall hash m rf tgt,
  4 <= m -> tgt <> [] -> Forall sym_ok tgt ->
  lenN rf + lenN tgt + m < 2147483648 ->
  exists enc, encode_with hash m rf tgt = Ok enc /\ decode_full_with hash m rf enc = Ok tgt /\
    (enc = [] <-> tgt = rf) /\ Forall (fun b => b <> 255) enc.
Proof.
  intros hash m rf tgt Hm Hne Hsym Hsz.
  destruct (lz_new_ok m Hm) as (st0 & E0 & M0 & K0).
  destruct (lz_prepare_ok hash st0 rf ltac:(lia) ltac:(lia) ltac:(lia)) as (st & Ep & Hwf & M1 & K1).
  destruct (lz_roundtrip_any_index_proof hash st rf tgt Hwf Hne Hsym ltac:(lia)) as (enc & Ee & Ed & Ei & Es).
  exists enc. unfold encode_with, decode_full_with. rewrite E0. cbn [obnd]. rewrite Ep. cbn [obnd].
  repeat split; auto; tauto.
Qed.

Theorem lz_roundtrip_proof : forall mml rf tgt,
  4 <= mml -> tgt <> [] -> Forall sym_ok tgt -> lenN rf + lenN tgt + mml < 2147483648 ->
  exists enc, encode mml rf tgt = Ok enc /\ decode_full mml rf enc = Ok tgt.
Proof.
  intros. destruct (lz_full_proof murmur64 mml rf tgt) as (enc & A & B & _); auto. eauto.
Qed.

Theorem lz_empty_iff_proof : forall mml rf tgt enc,
  4 <= mml -> tgt <> [] -> Forall sym_ok tgt -> lenN rf + lenN tgt + mml < 2147483648 ->
  encode mml rf tgt = Ok enc -> (enc = [] <-> tgt = rf).
Proof.
  intros mml rf tgt enc H1 H2 H3 H4 He.
  destruct (lz_full_proof murmur64 mml rf tgt) as (enc' & A & _ & C & _); auto.
  unfold encode in He. rewrite A in He. inversion He; subst. exact C.
Qed.

Theorem lz_no_separator_proof : forall mml rf tgt enc,
  4 <= mml -> tgt <> [] -> Forall sym_ok tgt -> lenN rf + lenN tgt + mml < 2147483648 ->
  encode mml rf tgt = Ok enc -> ~ In 255 enc.
Proof.
  intros mml rf tgt enc H1 H2 H3 H4 He.
  destruct (lz_full_proof murmur64 mml rf tgt) as (enc' & A & _ & _ & D); auto.
  unfold encode in He. rewrite A in He. inversion He; subst.
  rewrite Forall_forall in D. intros Hin. now apply D in Hin.
Qed.

Theorem lz_small_mml_panics_proof : forall mml rf tgt enc,
  mml < 4 -> encode mml rf tgt = Panic /\ decode_full mml rf enc = Panic.
Proof.
  intros. unfold encode, decode_full, encode_with, decode_full_with. now rewrite lz_new_small.
Qed.

Theorem sym_ok_range_proof : forall c, sym_ok c <-> c <= 30.
Proof. split; [apply sym_ok_le|apply le_sym_ok]. Qed.
